#!/usr/bin/env python3
"""Resolves the recurring merge conflicts in extract/main.go: every agent adds (a) fields to `type Spec struct`,
(b) one generator function, (c) one call block in genModule — always at the same three places, each followed by
a shared closing brace.  Resolution = keep both."""
import re, sys
p = '/verif/extract/main.go'
s = open(p).read()
pat = re.compile(r"<<<<<<< HEAD\n(.*?)=======\n(.*?)>>>>>>> [0-9a-f]+\n([ \t]*\}\n)?", re.S)
def fix(m):
    head, theirs, closing = m.group(1), m.group(2), m.group(3) or ""
    if 'json:"module"' in head:                       # struct fields: add the new tags only
        tags = set(re.findall(r'json:"(\w+)"', head))
        extra = [l for l in theirs.split("\n") if (t := re.search(r'json:"(\w+)"', l)) and t.group(1) not in tags]
        return head + "".join(l + "\n" for l in extra) + closing
    return head + closing + theirs + closing          # two blocks that shared one closing brace
s2 = pat.sub(fix, s)
open(p, 'w').write(s2)
print("resolved", len(pat.findall(s)), "conflicts")
