#!/usr/bin/env python3
"""usage: tools_seed_confirm.py <seed-dir> <name>
Confirms a seeded change: demo fails with the patch and passes without it, project builds, touched packages' tests pass;
then stores it as /verif/seeded/<name>/ (patch.diff, demo, meta.json)."""
import json, os, shutil, subprocess, sys
d, name = sys.argv[1], sys.argv[2]
wt = os.path.join(d, "repo")
meta = json.load(open(os.path.join(d, "meta.json")))
env = dict(os.environ, GOFLAGS="-mod=mod", GOPROXY="off")
def sh(cmd, cwd=wt):
    p = subprocess.run(cmd, shell=True, cwd=cwd, env=env, stdout=subprocess.PIPE, stderr=subprocess.STDOUT)
    return p.returncode, p.stdout.decode("utf-8", "replace")
head = subprocess.check_output(["git", "-C", "/repo", "rev-parse", "HEAD"]).decode().strip()
sh("git checkout -q -- . && git clean -fdq && git checkout -q --detach " + head)
demo_src = [f for f in os.listdir(d) if f.startswith("demo") and f.endswith(".go")]
demo_dst = os.path.join(wt, meta["demo_path_in_repo"])
def put_demo():
    os.makedirs(os.path.dirname(demo_dst), exist_ok=True)
    shutil.copy(os.path.join(d, demo_src[0]), demo_dst)
res = {}
put_demo()
rc, out = sh(meta["demo_cmd"]); res["demo_without_patch"] = rc
rc, out = sh("git apply " + os.path.join(d, "patch.diff")); res["apply"] = rc
rc, out = sh("go build ./..."); res["build"] = rc
rc, out = sh(meta["demo_cmd"]); res["demo_with_patch"] = rc
os.remove(demo_dst)
pk = sorted({"./" + os.path.dirname(f) + "/..." for f in meta["files_changed"]})
# the pinned baseline's always-failing tests and the one 13-minute test are skipped (they do not depend on the change)
skip = "TestBuiltInCloudControl_AuthenticationWithJWT|TestPortMappingRepository_LargeScale|TestManager_ContextCancellation|TestClientConfigRepository_MillionConfigs"
cmd = "go test -vet=off -count=1 -skip '%s' %s" % (skip, " ".join(pk))
rc, out = sh(cmd); res["tests_with_patch"] = rc; res["tests_cmd"] = cmd
if rc != 0:
    print(out[-1500:])
print(json.dumps(res))
ok = res["demo_without_patch"] == 0 and res["apply"] == 0 and res["build"] == 0 and res["demo_with_patch"] != 0 and res["tests_with_patch"] == 0
if ok:
    dst = os.path.join("/verif/seeded", name)
    os.makedirs(dst, exist_ok=True)
    shutil.copy(os.path.join(d, "patch.diff"), dst)
    shutil.copy(os.path.join(d, demo_src[0]), dst)
    meta["confirmed"] = res
    meta["base_commit"] = head
    json.dump(meta, open(os.path.join(dst, "meta.json"), "w"), indent=1, ensure_ascii=False)
    print("CONFIRMED ->", dst, "(patch left applied in", wt + ")")
else:
    print("NOT CONFIRMED")
    sys.exit(1)
