package main

import (
	"go/ast"
	"strings"
)

// typeSwitch: `switch v := x.(type) { case T1, T2: … default: … }` in a flow ->
// "typeswitch <v := x.(type)>", "case <types>" | "default", …, "end".
func (c *flowCtx) typeSwitch(s *ast.TypeSwitchStmt) {
	h := "typeswitch"
	if s.Init != nil {
		h += " " + nodeStr(s.Init) + ";"
	}
	h += " " + nodeStr(s.Assign)
	c.emit(h)
	for _, cc := range s.Body.List {
		cl := cc.(*ast.CaseClause)
		if cl.List == nil {
			c.emit("default")
		} else {
			var xs []string
			for _, e := range cl.List {
				xs = append(xs, nodeStr(e))
			}
			c.emit("case " + strings.Join(xs, ", "))
		}
		c.block(cl.Body)
	}
	c.emit("end")
}
