package main

import (
	"fmt"
	"go/ast"
	"go/token"
	"strings"
)

// StrListSpec: `[]string{…}` fields of the (single) composite literal returned by a
// configuration constructor (e.g. hybrid.DefaultConfig().SharedPrefixes), emitted as
//
//	namespace <ns>  def <Field> : List String := ["…", …]  end <ns>
type StrListSpec struct {
	Dir    string   `json:"dir"`
	Func   string   `json:"func"`
	NS     string   `json:"ns"`
	Fields []string `json:"fields"`
}

func genStrList(root string, ls *StrListSpec, out *strings.Builder) {
	p := loadPkg(root, ls.Dir)
	fd, ok := p.funcs[ls.Func]
	if !ok {
		die("strlist: function %s not found in %s", ls.Func, ls.Dir)
	}
	var lit *ast.CompositeLit
	n := 0
	ast.Inspect(fd.Body, func(nd ast.Node) bool {
		if rs, ok := nd.(*ast.ReturnStmt); ok && len(rs.Results) == 1 {
			e := rs.Results[0]
			if u, ok := e.(*ast.UnaryExpr); ok && u.Op == token.AND {
				e = u.X
			}
			if cl, ok := e.(*ast.CompositeLit); ok {
				lit = cl
				n++
			}
		}
		return true
	})
	if lit == nil || n != 1 {
		die("strlist: %s must return exactly one composite literal (found %d)", ls.Func, n)
	}
	vals := map[string]ast.Expr{}
	for _, el := range lit.Elts {
		if kv, ok := el.(*ast.KeyValueExpr); ok {
			if k, ok := kv.Key.(*ast.Ident); ok {
				vals[k.Name] = kv.Value
			}
		}
	}
	fmt.Fprintf(out, "namespace %s\n", ls.NS)
	for _, f := range ls.Fields {
		e, ok := vals[f]
		if !ok {
			die("strlist: field %s not set in the literal returned by %s", f, ls.Func)
		}
		cl, ok := e.(*ast.CompositeLit)
		if !ok {
			die("strlist: field %s of %s is not a composite literal", f, ls.Func)
		}
		var items []string
		for _, el := range cl.Elts {
			v := evalConst(p, el, 0, 0)
			if !v.isStr {
				die("strlist: field %s of %s has a non-string element", f, ls.Func)
			}
			items = append(items, leanStr(v.s))
		}
		fmt.Fprintf(out, "def %s : List String := [%s]\n", leanIdent(f), strings.Join(items, ", "))
	}
	fmt.Fprintf(out, "end %s\n\n", ls.NS)
}
