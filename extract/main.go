// extract: regenerates the Lean `Gen` modules from the Go source of tunnox-core.
//
// T1  constants (ints, durations, strings, string tables)  -> Gen/Consts.lean
// T1b straight-line decision predicates (if/return chains) -> Gen/Pred.lean
// T2  call skeletons and lock facts of listed functions    -> Gen/Skel.lean
//
// Only go/parser + go/ast are used; the repository is never compiled here.
// Every construct outside the translated fragment is a loud error (exit 2).
package main

import (
	"encoding/json"
	"flag"
	"fmt"
	"go/ast"
	"go/parser"
	"go/printer"
	"go/token"
	"os"
	"path/filepath"
	"sort"
	"strconv"
	"strings"
)

type ConstSpec struct {
	Dir   string   `json:"dir"`
	NS    string   `json:"ns"`
	Names []string `json:"names"`
}

type PredSpec struct {
	Dir     string            `json:"dir"`
	NS      string            `json:"ns"`
	Recv    string            `json:"recv"`     // receiver type name ("" for plain funcs)
	RecvTy  string            `json:"recv_ty"`  // Lean type of receiver
	Methods []string          `json:"methods"`  // method / func names, in emission order
	ParamTy map[string]string `json:"param_ty"` // Go param name -> Lean type
	RetTy   map[string]string `json:"ret_ty"`   // method -> Lean return type (default Bool)
	ConstNS string            `json:"const_ns"` // namespace for same-package constants
	// ErrAsBool lists methods returning `error` that are translated to Bool:
	// `return nil` ↦ true, `return fmt.Errorf(…)` / `errors.New(…)` ↦ false.
	ErrAsBool []string `json:"err_as_bool"`
	// ForceNow lists methods that get the `(now : Nat)` clock parameter even if their current body does not
	// read the clock, so that a model calling them keeps compiling when a time check is dropped from the source
	// (the correspondence run then shows the difference instead of a build failure).
	ForceNow []string `json:"force_now"`
}

type SkelSpec struct {
	Dir   string   `json:"dir"`
	Recv  string   `json:"recv"`
	Func  string   `json:"func"`
	Name  string   `json:"name"`  // Lean name
	Calls []string `json:"calls"` // selector suffixes that count as effectful (e.g. "storage.Get", "mu.Lock")
	Lits  bool     `json:"lits"`  // also emit <Name>_lits: every integer literal of the body, in source order
	// Optional lock-fact extras (all off by default, so existing skeletons are unchanged):
	Touch     []string `json:"touch"`      // identifiers / selectors whose every occurrence is emitted as "@<sel>" (guarded data)
	MarkDefer bool     `json:"mark_defer"` // deferred calls are emitted as "defer <call>"
	Blocks    bool     `json:"blocks"`     // a block ending in `return` is bracketed by "{ret" … "}" (its lock state does not fall through)
}

// RouteSpec: a tag-less `switch { case cond: return recv.handler(...) … default: … }` inside Func becomes
//
//	def <Name> (<var> : <VarTy>) : String := if cond₁ then "handler₁" else … else "default"
type RouteSpec struct {
	Dir      string            `json:"dir"`
	Recv     string            `json:"recv"`
	Func     string            `json:"func"`
	Name     string            `json:"name"`
	Var      string            `json:"var"`       // the local the conditions are about
	VarTy    string            `json:"var_ty"`    // its Lean type
	MethodNS string            `json:"method_ns"` // namespace of methods called on Var (e.g. "packet.Type")
	ConstNS  string            `json:"const_ns"`
	PkgNS    map[string]string `json:"pkg_ns"` // Go package selector -> Gen namespace (e.g. "packet" -> "packet")
}

// LocalSpec: constants that live INSIDE a function body (C12: the window sizes of iocopy.UDP).
//
//	consts: `const name = <const expr>` declared anywhere in the body (func literals included)
//	makes:  `name := make([]T, <const expr>)`                       -> the length
//	cmps:   nth `<lhs> <op> <const expr>` comparison in the body    -> the right-hand side
//
// A name that occurs k > 1 times is emitted as name_0 … name_{k-1} in source order.
type LocalCmp struct {
	Name string `json:"name"`
	LHS  string `json:"lhs"`
	Op   string `json:"op"`
	Nth  int    `json:"nth"` // which occurrence in source order (0 = first)
}

type LocalSpec struct {
	Dir    string     `json:"dir"`
	Recv   string     `json:"recv"`
	Func   string     `json:"func"`
	NS     string     `json:"ns"`
	Consts []string   `json:"consts"`
	Makes  []string   `json:"makes"`
	Cmps   []LocalCmp `json:"cmps"`
}

// CondSpec: the source text of every `if` condition of a function, in source order
// (ties inline decision expressions that are not functions of their own).
type CondSpec struct {
	Dir  string `json:"dir"`
	Recv string `json:"recv"`
	Func string `json:"func"`
	Name string `json:"name"` // Lean name
}

type Spec struct {
	ExtSpec                    // additive kinds, see ext.go
	Module      string         `json:"module"`       // output file Gen/<Module>.lean
	Imports     []string       `json:"imports"`      // other Gen modules this one refers to
	LeanImports []string       `json:"lean_imports"` // hand-written Lean modules (receiver structures of translated predicates)
	Lits        []LitSpec      `json:"lits"`
	CfgTables   []CfgTableSpec `json:"cfgtables"` // see cfgtable.go
	StrLists    []StrListSpec  `json:"strlists"`  // see strlist.go
	Consts      []ConstSpec    `json:"consts"`
	Locals      []LocalSpec    `json:"locals"`
	Preds       []PredSpec     `json:"preds"`
	Skels       []SkelSpec     `json:"skels"`
	Routes      []RouteSpec    `json:"routes"`
	Flows       []FlowSpec     `json:"flows"` // control skeletons, see flow.go
	// additive extensions, see tables.go
	Enums        []EnumSpec    `json:"enums"`
	SelSets      []SelSetSpec  `json:"selsets"`
	CallArgs     []CallArgSpec `json:"callargs"`
	JSONKeys     []JSONKeySpec `json:"jsonkeys"` // see tables.go
	Guards       []SkelSpec    `json:"guards"`   // functions whose `if` conditions are emitted as source text (Gen.Guard.<name>)
	Conds        []CondSpec    `json:"conds"`
	ModelImports []string      `json:"model_imports"` // hand-written Model modules (receiver structures of translated predicates)
}

var fset = token.NewFileSet()

func die(format string, a ...any) {
	fmt.Fprintf(os.Stderr, "extract: "+format+"\n", a...)
	os.Exit(2)
}

type pkgInfo struct {
	files  []*ast.File
	consts map[string]*constDecl
	funcs  map[string]*ast.FuncDecl // "Recv.Name" or "Name"
}

type constDecl struct {
	expr ast.Expr
	iota int
}

var pkgCache = map[string]*pkgInfo{}

func loadPkg(root, dir string) *pkgInfo {
	if p, ok := pkgCache[dir]; ok {
		return p
	}
	full := filepath.Join(root, dir)
	ents, err := os.ReadDir(full)
	if err != nil {
		die("cannot read %s: %v", full, err)
	}
	p := &pkgInfo{consts: map[string]*constDecl{}, funcs: map[string]*ast.FuncDecl{}}
	for _, e := range ents {
		n := e.Name()
		if e.IsDir() || !strings.HasSuffix(n, ".go") || strings.HasSuffix(n, "_test.go") {
			continue
		}
		f, err := parser.ParseFile(fset, filepath.Join(full, n), nil, parser.SkipObjectResolution)
		if err != nil {
			die("parse %s: %v", n, err)
		}
		p.files = append(p.files, f)
		for _, d := range f.Decls {
			switch d := d.(type) {
			case *ast.GenDecl:
				if d.Tok != token.CONST && d.Tok != token.VAR {
					continue
				}
				var last ast.Expr
				for i, s := range d.Specs {
					vs := s.(*ast.ValueSpec)
					for j, nm := range vs.Names {
						var e ast.Expr
						if j < len(vs.Values) {
							e = vs.Values[j]
							last = e
						} else if d.Tok == token.CONST {
							e = last
						}
						if e != nil {
							p.consts[nm.Name] = &constDecl{expr: e, iota: i}
						}
					}
				}
			case *ast.FuncDecl:
				key := d.Name.Name
				if d.Recv != nil && len(d.Recv.List) == 1 {
					key = recvName(d.Recv.List[0].Type) + "." + key
				}
				p.funcs[key] = d
			}
		}
	}
	pkgCache[dir] = p
	return p
}

func recvName(e ast.Expr) string {
	switch e := e.(type) {
	case *ast.StarExpr:
		return recvName(e.X)
	case *ast.Ident:
		return e.Name
	case *ast.IndexExpr:
		return recvName(e.X)
	case *ast.IndexListExpr:
		return recvName(e.X)
	}
	return "?"
}

// ---------------------------------------------------------------- constants

var timeUnits = map[string]int64{
	"Nanosecond": 1, "Microsecond": 1e3, "Millisecond": 1e6, "Second": 1e9, "Minute": 60e9, "Hour": 3600e9,
}

type cval struct {
	isStr bool
	s     string
	i     int64
	isF   bool
	f     float64
}

func evalConst(p *pkgInfo, e ast.Expr, iota int, depth int) cval {
	if depth > 50 {
		die("constant evaluation too deep")
	}
	switch e := e.(type) {
	case *ast.BasicLit:
		switch e.Kind {
		case token.INT:
			v, err := strconv.ParseInt(e.Value, 0, 64)
			if err != nil {
				die("bad int %s", e.Value)
			}
			return cval{i: v}
		case token.STRING:
			s, err := strconv.Unquote(e.Value)
			if err != nil {
				die("bad string %s", e.Value)
			}
			return cval{isStr: true, s: s}
		case token.FLOAT:
			f, _ := strconv.ParseFloat(e.Value, 64)
			return cval{isF: true, f: f}
		case token.CHAR:
			s, _ := strconv.Unquote(e.Value)
			return cval{i: int64([]rune(s)[0])}
		}
	case *ast.ParenExpr:
		return evalConst(p, e.X, iota, depth+1)
	case *ast.Ident:
		if e.Name == "iota" {
			return cval{i: int64(iota)}
		}
		if c, ok := p.consts[e.Name]; ok {
			return evalConst(p, c.expr, c.iota, depth+1)
		}
		die("unknown constant identifier %s", e.Name)
	case *ast.SelectorExpr:
		if x, ok := e.X.(*ast.Ident); ok && x.Name == "time" {
			if u, ok := timeUnits[e.Sel.Name]; ok {
				return cval{i: u}
			}
		}
		die("unsupported selector constant %s", exprStr(e))
	case *ast.CallExpr: // type conversion T(x)
		if len(e.Args) == 1 {
			return evalConst(p, e.Args[0], iota, depth+1)
		}
	case *ast.UnaryExpr:
		v := evalConst(p, e.X, iota, depth+1)
		if e.Op == token.SUB {
			v.i = -v.i
			return v
		}
	case *ast.BinaryExpr:
		a := evalConst(p, e.X, iota, depth+1)
		b := evalConst(p, e.Y, iota, depth+1)
		if a.isStr && b.isStr && e.Op == token.ADD {
			return cval{isStr: true, s: a.s + b.s}
		}
		switch e.Op {
		case token.ADD:
			return cval{i: a.i + b.i}
		case token.SUB:
			return cval{i: a.i - b.i}
		case token.MUL:
			return cval{i: a.i * b.i}
		case token.QUO:
			if b.i == 0 {
				die("division by zero in constant")
			}
			return cval{i: a.i / b.i}
		case token.SHL:
			return cval{i: a.i << uint(b.i)}
		case token.SHR:
			return cval{i: a.i >> uint(b.i)}
		case token.OR:
			return cval{i: a.i | b.i}
		case token.AND:
			return cval{i: a.i & b.i}
		}
	}
	die("unsupported constant expression %s", exprStr(e))
	return cval{}
}

func exprStr(e ast.Expr) string {
	var sb strings.Builder
	ast.Fprint(&sb, fset, e, nil)
	s := sb.String()
	if len(s) > 200 {
		s = s[:200]
	}
	return s
}

func leanStr(s string) string {
	return strconv.Quote(s) // Go quoting of printable ASCII is Lean-compatible
}

// leanVar renames Go identifiers that are Lean keywords (e.g. the loop variable `prefix`).
func leanVar(s string) string {
	switch s {
	case "prefix", "infix", "postfix", "end", "from", "at", "fun", "open", "section", "namespace", "instance", "deriving", "macro", "syntax":
		return s + "_"
	}
	return s
}

func leanIdent(s string) string {
	return strings.ReplaceAll(s, "-", "_")
}

// ---------------------------------------------------------------- predicates

type predCtx struct {
	p       *pkgInfo
	spec    *PredSpec
	recv    string // receiver variable name
	locals  map[string]bool
	methods map[string]bool
	errBool bool // current method returns error, translated to Bool
}

func (c *predCtx) expr(e ast.Expr) string {
	switch e := e.(type) {
	case *ast.ParenExpr:
		return "(" + c.expr(e.X) + ")"
	case *ast.BasicLit:
		switch e.Kind {
		case token.INT:
			return e.Value
		case token.STRING:
			s, _ := strconv.Unquote(e.Value)
			return leanStr(s)
		}
	case *ast.Ident:
		switch e.Name {
		case "true", "false":
			return e.Name
		case "nil":
			return "none"
		}
		if e.Name == c.recv || c.locals[e.Name] {
			return leanVar(e.Name)
		}
		if _, ok := c.p.consts[e.Name]; ok {
			return c.spec.ConstNS + "." + e.Name
		}
		die("pred %s: unknown identifier %s", c.spec.NS, e.Name)
	case *ast.SelectorExpr:
		if x, ok := e.X.(*ast.Ident); ok {
			if x.Name == c.recv || c.locals[x.Name] {
				return x.Name + "." + e.Sel.Name
			}
			// pkg.Const: resolved by the hand-listed import namespaces
			return "Gen." + x.Name + "." + e.Sel.Name
		}
		return c.expr(e.X) + "." + e.Sel.Name
	case *ast.StarExpr:
		return c.expr(e.X)
	case *ast.UnaryExpr:
		if e.Op == token.NOT {
			return "(!" + c.expr(e.X) + ")"
		}
	case *ast.BinaryExpr:
		op := map[token.Token]string{
			token.LAND: "&&", token.LOR: "||", token.EQL: "==", token.NEQ: "!=",
			token.LSS: "<", token.LEQ: "<=", token.GTR: ">", token.GEQ: ">=",
			token.AND: "&&&", token.OR: "|||", token.ADD: "+", token.SUB: "-", token.MUL: "*",
		}[e.Op]
		if op == "" {
			die("pred %s: unsupported operator %s", c.spec.NS, e.Op)
		}
		x, y := c.expr(e.X), c.expr(e.Y)
		// nil comparisons on optional fields
		if id, ok := e.Y.(*ast.Ident); ok && id.Name == "nil" {
			if e.Op == token.EQL {
				return "(" + x + ").isNone"
			}
			if e.Op == token.NEQ {
				return "(" + x + ").isSome"
			}
		}
		switch e.Op {
		case token.LSS, token.LEQ, token.GTR, token.GEQ:
			return "decide (" + x + " " + op + " " + y + ")"
		}
		return "(" + x + " " + op + " " + y + ")"
	case *ast.CallExpr:
		// len(x)
		if id, ok := e.Fun.(*ast.Ident); ok {
			if id.Name == "len" && len(e.Args) == 1 {
				return "(" + c.expr(e.Args[0]) + ").length"
			}
			if c.methods[id.Name] {
				args := []string{}
				for _, a := range e.Args {
					args = append(args, "("+c.expr(a)+")")
				}
				return "(" + id.Name + " " + strings.Join(args, " ") + ")"
			}
		}
		if sel, ok := e.Fun.(*ast.SelectorExpr); ok {
			// time.Now().After(x)  -> (now > x) ; time.Now().Before(x) -> (now < x)
			if inner, ok := sel.X.(*ast.CallExpr); ok {
				if is, ok := inner.Fun.(*ast.SelectorExpr); ok {
					if pk, ok := is.X.(*ast.Ident); ok && pk.Name == "time" && is.Sel.Name == "Now" && len(e.Args) == 0 && sel.Sel.Name == "Unix" {
						return "now" // time.Now().Unix(): the clock parameter, in seconds
					}
					if pk, ok := is.X.(*ast.Ident); ok && pk.Name == "time" && is.Sel.Name == "Now" && len(e.Args) == 1 {
						a := c.expr(e.Args[0])
						switch sel.Sel.Name {
						case "After":
							return "(timeAfter now " + a + ")"
						case "Before":
							return "(timeBefore now " + a + ")"
						}
					}
				}
			}
			// strings.HasPrefix(k, p)
			if pk, ok := sel.X.(*ast.Ident); ok && pk.Name == "strings" && sel.Sel.Name == "HasPrefix" && len(e.Args) == 2 {
				return "(hasPrefix " + c.expr(e.Args[0]) + " " + c.expr(e.Args[1]) + ")"
			}
			// recv.Method(args) where Method is in the fragment
			if x, ok := sel.X.(*ast.Ident); ok && x.Name == c.recv && c.methods[sel.Sel.Name] {
				args := []string{c.recv}
				for _, a := range e.Args {
					args = append(args, "("+c.expr(a)+")")
				}
				extra := ""
				if c.usesNow(sel.Sel.Name) {
					extra = " now"
				}
				return "(" + sel.Sel.Name + extra + " " + strings.Join(args, " ") + ")"
			}
			// x.IsZero() on time fields
			if sel.Sel.Name == "IsZero" && len(e.Args) == 0 {
				return "(timeIsZero " + c.expr(sel.X) + ")"
			}
			// T(x) conversions handled below
		}
		// conversion T(x)
		if len(e.Args) == 1 {
			switch f := e.Fun.(type) {
			case *ast.Ident:
				if f.Name == "int" || f.Name == "int64" || f.Name == "uint32" || f.Name == "byte" || f.Name == "string" {
					return c.expr(e.Args[0])
				}
			}
		}
	}
	die("pred %s: unsupported expression %s", c.spec.NS, exprStr(e))
	return ""
}

var usesNowMemo = map[string]bool{}

func (c *predCtx) usesNow(method string) bool {
	for _, f := range c.spec.ForceNow {
		if f == method {
			return true
		}
	}
	key := c.spec.NS + "." + method
	if v, ok := usesNowMemo[key]; ok {
		return v
	}
	usesNowMemo[key] = false
	fd := c.lookup(method)
	found := false
	ast.Inspect(fd.Body, func(n ast.Node) bool {
		if ce, ok := n.(*ast.CallExpr); ok {
			if s, ok := ce.Fun.(*ast.SelectorExpr); ok {
				if x, ok := s.X.(*ast.Ident); ok {
					if x.Name == "time" && s.Sel.Name == "Now" {
						found = true
					}
					if c.methods[s.Sel.Name] && s.Sel.Name != method && c.usesNow(s.Sel.Name) {
						found = true
					}
				}
			}
		}
		return true
	})
	usesNowMemo[key] = found
	return found
}

func (c *predCtx) lookup(method string) *ast.FuncDecl {
	key := method
	if c.spec.Recv != "" {
		key = c.spec.Recv + "." + method
	}
	fd, ok := c.p.funcs[key]
	if !ok {
		die("pred %s: function %s not found in %s", c.spec.NS, key, c.spec.Dir)
	}
	return fd
}

func isIgnorableStmt(s ast.Stmt) bool {
	// logging calls and lock/unlock (incl. deferred) are dropped
	var call *ast.CallExpr
	switch s := s.(type) {
	case *ast.ExprStmt:
		call, _ = s.X.(*ast.CallExpr)
	case *ast.DeferStmt:
		call = s.Call
	}
	if call == nil {
		return false
	}
	if sel, ok := call.Fun.(*ast.SelectorExpr); ok {
		switch sel.Sel.Name {
		case "RLock", "RUnlock", "Lock", "Unlock", "Debugf", "Infof", "Warnf", "Errorf", "Debug", "Info", "Warn", "Error":
			return true
		}
		if x, ok := sel.X.(*ast.Ident); ok && (x.Name == "corelog" || x.Name == "log" || x.Name == "utils") {
			return strings.HasPrefix(sel.Sel.Name, "Log") || strings.HasSuffix(sel.Sel.Name, "f")
		}
	}
	return false
}

// stmts translates a statement list that must end in a return on every path.
func (c *predCtx) stmts(list []ast.Stmt, indent string) string {
	if len(list) == 0 {
		die("pred %s: control reaches end of function without return", c.spec.NS)
	}
	s := list[0]
	rest := list[1:]
	if isIgnorableStmt(s) {
		return c.stmts(rest, indent)
	}
	switch s := s.(type) {
	case *ast.ReturnStmt:
		if len(s.Results) != 1 {
			die("pred %s: return with %d results", c.spec.NS, len(s.Results))
		}
		if c.errBool {
			if id, ok := s.Results[0].(*ast.Ident); ok && id.Name == "nil" {
				return indent + "true"
			}
			if ce, ok := s.Results[0].(*ast.CallExpr); ok {
				if f := selStr(ce.Fun); f == "fmt.Errorf" || f == "errors.New" {
					return indent + "false"
				}
			}
			die("pred %s: unsupported error result %s", c.spec.NS, exprStr(s.Results[0]))
		}
		return indent + c.expr(s.Results[0])
	case *ast.IfStmt:
		if s.Init != nil {
			die("pred %s: if with init statement", c.spec.NS)
		}
		thenPart := c.block(s.Body.List, rest, indent+"  ")
		var elsePart string
		switch el := s.Else.(type) {
		case nil:
			elsePart = c.stmts(rest, indent+"  ")
		case *ast.BlockStmt:
			elsePart = c.block(el.List, rest, indent+"  ")
		case *ast.IfStmt:
			elsePart = c.stmts(append([]ast.Stmt{el}, rest...), indent+"  ")
		}
		return indent + "if " + c.expr(s.Cond) + " then\n" + thenPart + "\n" + indent + "else\n" + elsePart
	case *ast.AssignStmt:
		if len(s.Lhs) == 1 && len(s.Rhs) == 1 && s.Tok == token.DEFINE {
			id := s.Lhs[0].(*ast.Ident)
			v := c.expr(s.Rhs[0])
			c.locals[id.Name] = true
			return indent + "let " + id.Name + " := " + v + "\n" + c.stmts(rest, indent)
		}
	case *ast.SwitchStmt:
		// tagged switch whose clauses compare the tag with constants:
		//   switch x { case A, B: return e1; default: return e2 }  ->  if (x == A || x == B) then e1 else e2
		// a clause (or a missing default) that falls out of the switch continues with the rest
		if s.Init != nil || s.Tag == nil {
			die("pred %s: unsupported switch at %s", c.spec.NS, fset.Position(s.Pos()))
		}
		tag := c.expr(s.Tag)
		var def []ast.Stmt
		type arm struct {
			cond string
			body []ast.Stmt
		}
		var arms []arm
		for _, cl := range s.Body.List {
			cc := cl.(*ast.CaseClause)
			if cc.List == nil {
				def = cc.Body
				continue
			}
			var alts []string
			for _, v := range cc.List {
				alts = append(alts, "("+tag+" == "+c.expr(v)+")")
			}
			arms = append(arms, arm{strings.Join(alts, " || "), cc.Body})
		}
		res := c.block(def, rest, indent+"  ")
		for i := len(arms) - 1; i >= 0; i-- {
			res = indent + "if " + arms[i].cond + " then\n" + c.block(arms[i].body, rest, indent+"  ") + "\n" + indent + "else\n" + res
		}
		return res
	case *ast.RangeStmt:
		// for _, p := range xs { if strings.HasPrefix(k, p) { return true } }  ->  if xs.any (hasPrefix k) then true else ...
		if len(s.Body.List) == 1 {
			if is, ok := s.Body.List[0].(*ast.IfStmt); ok && is.Else == nil && len(is.Body.List) == 1 {
				if rs, ok := is.Body.List[0].(*ast.ReturnStmt); ok && len(rs.Results) == 1 {
					v := s.Value.(*ast.Ident).Name
					c.locals[v] = true
					cond := c.expr(is.Cond)
					res := c.expr(rs.Results[0])
					delete(c.locals, v)
					return indent + "if (" + c.expr(s.X) + ").any (fun " + leanVar(v) + " => " + cond + ") then " + res + "\n" + indent + "else\n" + c.stmts(rest, indent+"  ")
				}
			}
		}
	}
	die("pred %s: unsupported statement at %s", c.spec.NS, fset.Position(s.Pos()))
	return ""
}

func (c *predCtx) block(body []ast.Stmt, after []ast.Stmt, indent string) string {
	// a block that falls through continues with `after`
	all := append(append([]ast.Stmt{}, body...), after...)
	return c.stmts(all, indent)
}

func genPred(root string, ps *PredSpec, out *strings.Builder) {
	p := loadPkg(root, ps.Dir)
	ms := map[string]bool{}
	for _, m := range ps.Methods {
		ms[m] = true
	}
	fmt.Fprintf(out, "namespace %s\n", ps.NS)
	for _, m := range ps.Methods {
		c := &predCtx{p: p, spec: ps, locals: map[string]bool{}, methods: ms}
		for _, eb := range ps.ErrAsBool {
			if eb == m {
				c.errBool = true
			}
		}
		fd := c.lookup(m)
		params := []string{}
		if fd.Recv != nil && len(fd.Recv.List[0].Names) == 1 {
			c.recv = fd.Recv.List[0].Names[0].Name
			params = append(params, fmt.Sprintf("(%s : %s)", c.recv, ps.RecvTy))
		}
		for _, f := range fd.Type.Params.List {
			for _, n := range f.Names {
				ty, ok := ps.ParamTy[n.Name]
				if !ok {
					die("pred %s.%s: no Lean type given for parameter %s", ps.NS, m, n.Name)
				}
				c.locals[n.Name] = true
				params = append(params, fmt.Sprintf("(%s : %s)", n.Name, ty))
			}
		}
		ret := "Bool"
		if r, ok := ps.RetTy[m]; ok {
			ret = r
		}
		now := ""
		if c.usesNow(m) {
			now = "(now : Nat) "
		}
		body := c.stmts(fd.Body.List, "  ")
		fmt.Fprintf(out, "def %s %s%s : %s :=\n%s\n", m, now, strings.Join(params, " "), ret, body)
	}
	fmt.Fprintf(out, "end %s\n\n", ps.NS)
}

// ---------------------------------------------------------------- skeletons

func genSkel(root string, ss *SkelSpec, out *strings.Builder) {
	p := loadPkg(root, ss.Dir)
	key := ss.Func
	if ss.Recv != "" {
		key = ss.Recv + "." + ss.Func
	}
	fd, ok := p.funcs[key]
	if !ok {
		die("skel: function %s not found in %s", key, ss.Dir)
	}
	var calls []string
	deferred := map[*ast.CallExpr]bool{}
	if ss.MarkDefer {
		ast.Inspect(fd.Body, func(n ast.Node) bool {
			if d, ok := n.(*ast.DeferStmt); ok {
				deferred[d.Call] = true
			}
			return true
		})
	}
	var stack []ast.Node
	retBlock := func(n ast.Node) bool {
		b, ok := n.(*ast.BlockStmt)
		if !ok || !ss.Blocks || b == fd.Body || len(b.List) == 0 {
			return false
		}
		_, isRet := b.List[len(b.List)-1].(*ast.ReturnStmt)
		return isRet
	}
	ast.Inspect(fd.Body, func(n ast.Node) bool {
		if n == nil {
			top := stack[len(stack)-1]
			stack = stack[:len(stack)-1]
			if retBlock(top) {
				calls = append(calls, "}")
			}
			return true
		}
		stack = append(stack, n)
		if retBlock(n) {
			calls = append(calls, "{ret")
		}
		if len(ss.Touch) > 0 {
			switch e := n.(type) {
			case *ast.Ident, *ast.SelectorExpr:
				full := selStr(e.(ast.Expr))
				for _, want := range ss.Touch {
					if full == want {
						calls = append(calls, "@"+want)
						break
					}
				}
			}
		}
		ce, ok := n.(*ast.CallExpr)
		if !ok {
			return true
		}
		full := selStr(ce.Fun)
		for _, want := range ss.Calls {
			if full == want || strings.HasSuffix(full, "."+want) {
				if deferred[ce] {
					calls = append(calls, "defer "+want)
				} else {
					calls = append(calls, want)
				}
				break
			}
		}
		return true
	})
	// ast.Inspect visits outer calls before their arguments; order by position
	// is what we want (source order of the call's opening token is not the
	// evaluation order for nested calls, but it is stable).
	qs := make([]string, len(calls))
	for i, c := range calls {
		qs[i] = leanStr(c)
	}
	fmt.Fprintf(out, "def %s : List String := [%s]\n", ss.Name, strings.Join(qs, ", "))
	if ss.Lits {
		// buffer sizes, offsets and length bounds written as literals (not named constants) in parsers
		var lits []string
		ast.Inspect(fd.Body, func(n ast.Node) bool {
			if bl, ok := n.(*ast.BasicLit); ok && bl.Kind == token.INT {
				v, err := strconv.ParseInt(bl.Value, 0, 64)
				if err != nil || v < 0 {
					die("skel %s: bad integer literal %s", ss.Name, bl.Value)
				}
				lits = append(lits, strconv.FormatInt(v, 10))
			}
			return true
		})
		fmt.Fprintf(out, "def %s_lits : List Nat := [%s]\n", ss.Name, strings.Join(lits, ", "))
	}
}

func (rs *RouteSpec) cond(e ast.Expr) string {
	switch e := e.(type) {
	case *ast.ParenExpr:
		return "(" + rs.cond(e.X) + ")"
	case *ast.BasicLit:
		if e.Kind == token.INT {
			return e.Value
		}
	case *ast.Ident:
		if e.Name == rs.Var {
			return e.Name
		}
		if e.Name == "true" || e.Name == "false" {
			return e.Name
		}
		return rs.ConstNS + "." + e.Name
	case *ast.SelectorExpr:
		if x, ok := e.X.(*ast.Ident); ok {
			if ns, ok := rs.PkgNS[x.Name]; ok {
				return ns + "." + e.Sel.Name
			}
		}
	case *ast.UnaryExpr:
		if e.Op == token.NOT {
			return "(!" + rs.cond(e.X) + ")"
		}
	case *ast.BinaryExpr:
		op := map[token.Token]string{token.LAND: "&&", token.LOR: "||", token.EQL: "==", token.NEQ: "!=", token.AND: "&&&", token.OR: "|||"}[e.Op]
		if op != "" {
			return "(" + rs.cond(e.X) + " " + op + " " + rs.cond(e.Y) + ")"
		}
	case *ast.CallExpr:
		if sel, ok := e.Fun.(*ast.SelectorExpr); ok && len(e.Args) == 0 {
			if x, ok := sel.X.(*ast.Ident); ok && x.Name == rs.Var {
				return "(" + rs.MethodNS + "." + sel.Sel.Name + " " + rs.Var + ")"
			}
		}
	}
	die("route %s: unsupported condition %s", rs.Name, exprStr(e))
	return ""
}

func genRoute(root string, rs *RouteSpec, out *strings.Builder) {
	p := loadPkg(root, rs.Dir)
	key := rs.Func
	if rs.Recv != "" {
		key = rs.Recv + "." + rs.Func
	}
	fd, ok := p.funcs[key]
	if !ok {
		die("route: function %s not found in %s", key, rs.Dir)
	}
	var sw *ast.SwitchStmt
	for _, st := range fd.Body.List {
		if s, ok := st.(*ast.SwitchStmt); ok && s.Tag == nil {
			if sw != nil {
				die("route %s: more than one tag-less switch", rs.Name)
			}
			sw = s
		}
	}
	if sw == nil {
		die("route %s: no tag-less switch in %s", rs.Name, key)
	}
	handlerOf := func(body []ast.Stmt) string {
		for _, st := range body {
			var call *ast.CallExpr
			switch st := st.(type) {
			case *ast.ReturnStmt:
				if len(st.Results) == 1 {
					call, _ = st.Results[0].(*ast.CallExpr)
				}
			case *ast.ExprStmt:
				call, _ = st.X.(*ast.CallExpr)
			}
			if call != nil {
				if sel, ok := call.Fun.(*ast.SelectorExpr); ok {
					if x, ok := sel.X.(*ast.Ident); ok && fd.Recv != nil && len(fd.Recv.List[0].Names) == 1 && x.Name == fd.Recv.List[0].Names[0].Name {
						return sel.Sel.Name
					}
				}
			}
		}
		return "default"
	}
	fmt.Fprintf(out, "def %s (%s : %s) : String :=\n", rs.Name, rs.Var, rs.VarTy)
	def := "default"
	for _, cc := range sw.Body.List {
		c := cc.(*ast.CaseClause)
		if c.List == nil {
			def = handlerOf(c.Body)
			continue
		}
		conds := []string{}
		for _, e := range c.List {
			conds = append(conds, rs.cond(e))
		}
		fmt.Fprintf(out, "  if %s then %s else\n", strings.Join(conds, " || "), leanStr(handlerOf(c.Body)))
	}
	fmt.Fprintf(out, "  %s\n", leanStr(def))
}

// genConds emits the `if` conditions (and `x := <bool expr>` of && / || / comparison shape) of a function as source text.
func genConds(root string, cs *CondSpec, out *strings.Builder) {
	p := loadPkg(root, cs.Dir)
	key := cs.Func
	if cs.Recv != "" {
		key = cs.Recv + "." + cs.Func
	}
	fd, ok := p.funcs[key]
	if !ok {
		die("conds: function %s not found in %s", key, cs.Dir)
	}
	src := func(e ast.Expr) string {
		var sb strings.Builder
		printer.Fprint(&sb, fset, e)
		return strings.Join(strings.Fields(sb.String()), " ")
	}
	var conds []string
	ast.Inspect(fd.Body, func(n ast.Node) bool {
		switch n := n.(type) {
		case *ast.IfStmt:
			c := src(n.Cond)
			if n.Init != nil {
				var sb strings.Builder
				printer.Fprint(&sb, fset, n.Init)
				c = strings.Join(strings.Fields(sb.String()), " ") + "; " + c
			}
			conds = append(conds, leanStr(c))
		case *ast.AssignStmt:
			if len(n.Lhs) == 1 && len(n.Rhs) == 1 {
				if be, ok := n.Rhs[0].(*ast.BinaryExpr); ok {
					switch be.Op {
					case token.LAND, token.LOR, token.EQL, token.NEQ:
						conds = append(conds, leanStr(src(n.Lhs[0])+" := "+src(n.Rhs[0])))
					}
				}
			}
		}
		return true
	})
	fmt.Fprintf(out, "def %s : List String := [%s]\n", cs.Name, strings.Join(conds, ", "))
}

func selStr(e ast.Expr) string {
	switch e := e.(type) {
	case *ast.Ident:
		return e.Name
	case *ast.SelectorExpr:
		return selStr(e.X) + "." + e.Sel.Name
	case *ast.CallExpr:
		return selStr(e.Fun) + "()"
	case *ast.ParenExpr:
		return selStr(e.X)
	case *ast.StarExpr:
		return selStr(e.X)
	case *ast.IndexExpr:
		return selStr(e.X)
	}
	return "?"
}

// ---------------------------------------------------------------- function-local constants

// srcStr renders an expression as Go source text.
func srcStr(e ast.Expr) string {
	var sb strings.Builder
	printer.Fprint(&sb, fset, e)
	return sb.String()
}

func genLocals(root string, ls *LocalSpec, out *strings.Builder) {
	p := loadPkg(root, ls.Dir)
	key := ls.Func
	if ls.Recv != "" {
		key = ls.Recv + "." + ls.Func
	}
	fd, ok := p.funcs[key]
	if !ok {
		die("locals: function %s not found in %s", key, ls.Dir)
	}
	// local constants shadow/extend the package constants while evaluating
	lp := &pkgInfo{consts: map[string]*constDecl{}, funcs: p.funcs}
	for k, v := range p.consts {
		lp.consts[k] = v
	}
	type hit struct {
		name string
		val  int64
	}
	var hits []hit
	want := func(xs []string, n string) bool {
		for _, x := range xs {
			if x == n {
				return true
			}
		}
		return false
	}
	cmpSeen := map[string]int{}
	ast.Inspect(fd.Body, func(n ast.Node) bool {
		switch n := n.(type) {
		case *ast.GenDecl:
			if n.Tok != token.CONST {
				return true
			}
			for i, s := range n.Specs {
				vs := s.(*ast.ValueSpec)
				for j, nm := range vs.Names {
					if j >= len(vs.Values) {
						continue
					}
					lp.consts[nm.Name] = &constDecl{expr: vs.Values[j], iota: i}
					if want(ls.Consts, nm.Name) {
						hits = append(hits, hit{nm.Name, evalConst(lp, vs.Values[j], i, 0).i})
					}
				}
			}
		case *ast.AssignStmt:
			if len(n.Lhs) == 1 && len(n.Rhs) == 1 {
				id, ok1 := n.Lhs[0].(*ast.Ident)
				ce, ok2 := n.Rhs[0].(*ast.CallExpr)
				if ok1 && ok2 && want(ls.Makes, id.Name) {
					if f, ok := ce.Fun.(*ast.Ident); ok && f.Name == "make" && len(ce.Args) >= 2 {
						hits = append(hits, hit{id.Name, evalConst(lp, ce.Args[1], 0, 0).i})
					}
				}
			}
		case *ast.BinaryExpr:
			for _, c := range ls.Cmps {
				if n.Op.String() != c.Op || srcStr(n.X) != c.LHS {
					continue
				}
				cmpSeen[c.Name]++
				if cmpSeen[c.Name]-1 != c.Nth {
					continue
				}
				hits = append(hits, hit{c.Name, evalConst(lp, n.Y, 0, 0).i})
			}
		}
		return true
	})
	count := map[string]int{}
	for _, h := range hits {
		count[h.name]++
	}
	for _, nm := range append(append(append([]string{}, ls.Consts...), ls.Makes...), func() []string {
		var r []string
		for _, c := range ls.Cmps {
			r = append(r, c.Name)
		}
		return r
	}()...) {
		if count[nm] == 0 {
			die("locals: %s not found in %s", nm, key)
		}
	}
	seen := map[string]int{}
	fmt.Fprintf(out, "namespace %s\n", ls.NS)
	for _, h := range hits {
		nm := h.name
		if count[h.name] > 1 {
			nm = fmt.Sprintf("%s_%d", h.name, seen[h.name])
			seen[h.name]++
		}
		if h.val < 0 {
			die("locals: negative value for %s", nm)
		}
		fmt.Fprintf(out, "def %s : Nat := %d\n", leanIdent(nm), h.val)
	}
	fmt.Fprintf(out, "end %s\n\n", ls.NS)
}

// ---------------------------------------------------------------- guards

// genGuards emits, in source order, the text of every `if` header (init; cond) and every
// `range` expression of the function, so that a dropped or altered guard changes a Gen
// definition that a theorem pins by `decide`.
func genGuards(root string, ss *SkelSpec, out *strings.Builder) {
	p := loadPkg(root, ss.Dir)
	key := ss.Func
	if ss.Recv != "" {
		key = ss.Recv + "." + ss.Func
	}
	fd, ok := p.funcs[key]
	if !ok {
		die("guards: function %s not found in %s", key, ss.Dir)
	}
	src := func(n ast.Node) string {
		var sb strings.Builder
		if err := printer.Fprint(&sb, fset, n); err != nil {
			die("guards: %v", err)
		}
		return strings.Join(strings.Fields(sb.String()), " ")
	}
	var conds []string
	ast.Inspect(fd.Body, func(n ast.Node) bool {
		switch st := n.(type) {
		case *ast.IfStmt:
			c := src(st.Cond)
			if st.Init != nil {
				c = src(st.Init) + "; " + c
			}
			conds = append(conds, leanStr("if "+c))
		case *ast.RangeStmt:
			conds = append(conds, leanStr("range "+src(st.X)))
		}
		return true
	})
	fmt.Fprintf(out, "def %s : List String := [%s]\n", ss.Name, strings.Join(conds, ", "))
}

// ---------------------------------------------------------------- main

func writeIfChanged(path, content string) {
	old, err := os.ReadFile(path)
	if err == nil && string(old) == content {
		return
	}
	if err := os.MkdirAll(filepath.Dir(path), 0o755); err != nil {
		die("%v", err)
	}
	if err := os.WriteFile(path, []byte(content), 0o644); err != nil {
		die("%v", err)
	}
	fmt.Printf("extract: wrote %s\n", path)
}

func genModule(repo string, spec *Spec, outDir string) {
	var cs strings.Builder
	cs.WriteString("/- GENERATED from the Go source by /verif/extract on every run. Do not edit. -/\nimport TunnoxModel.Model.PredPrelude\n")
	for _, im := range spec.Imports {
		cs.WriteString("import TunnoxModel.Gen." + im + "\n")
	}
	for _, im := range spec.LeanImports {
		cs.WriteString("import " + im + "\n")
	}
	for _, im := range spec.ModelImports {
		cs.WriteString("import TunnoxModel.Model." + im + "\n")
	}
	cs.WriteString("open Tunnox.PredPrelude\nnamespace Gen\n\n")
	for i := range spec.Lits {
		genLit(repo, &spec.Lits[i], &cs)
	}
	for i := range spec.CfgTables {
		genCfgTable(repo, &spec.CfgTables[i], &cs)
	}
	for i := range spec.StrLists {
		genStrList(repo, &spec.StrLists[i], &cs)
	}
	for _, c := range spec.Consts {
		p := loadPkg(repo, c.Dir)
		fmt.Fprintf(&cs, "namespace %s\n", c.NS)
		for _, n := range c.Names {
			d, ok := p.consts[n]
			if !ok {
				die("constant %s not found in %s", n, c.Dir)
			}
			v := evalConst(p, d.expr, d.iota, 0)
			switch {
			case v.isStr:
				fmt.Fprintf(&cs, "def %s : String := %s\n", leanIdent(n), leanStr(v.s))
			case v.isF:
				die("float constant %s unsupported", n)
			case v.i < 0:
				fmt.Fprintf(&cs, "def %s : Int := %d\n", leanIdent(n), v.i)
			default:
				fmt.Fprintf(&cs, "def %s : Nat := %d\n", leanIdent(n), v.i)
			}
		}
		fmt.Fprintf(&cs, "end %s\n\n", c.NS)
	}
	for i := range spec.Locals {
		genLocals(repo, &spec.Locals[i], &cs)
	}
	genTables(repo, spec, &cs)
	genExt(repo, spec.Module, &spec.ExtSpec, &cs)
	for i := range spec.Preds {
		genPred(repo, &spec.Preds[i], &cs)
	}
	if len(spec.Skels) > 0 {
		cs.WriteString("namespace Skel\n")
		sort.SliceStable(spec.Skels, func(i, j int) bool { return spec.Skels[i].Name < spec.Skels[j].Name })
		for i := range spec.Skels {
			genSkel(repo, &spec.Skels[i], &cs)
		}
		cs.WriteString("end Skel\n\n")
	}
	for i := range spec.Routes {
		genRoute(repo, &spec.Routes[i], &cs)
	}
	if len(spec.Flows) > 0 {
		cs.WriteString("namespace Flow\n")
		for i := range spec.Flows {
			genFlow(repo, &spec.Flows[i], &cs)
		}
		cs.WriteString("end Flow\n\n")
	}
	if len(spec.Guards) > 0 {
		cs.WriteString("namespace Guard\n")
		sort.SliceStable(spec.Guards, func(i, j int) bool { return spec.Guards[i].Name < spec.Guards[j].Name })
		for i := range spec.Guards {
			genGuards(repo, &spec.Guards[i], &cs)
		}
		cs.WriteString("end Guard\n\n")
	}
	if len(spec.Conds) > 0 {
		cs.WriteString("namespace Cond\n")
		sort.SliceStable(spec.Conds, func(i, j int) bool { return spec.Conds[i].Name < spec.Conds[j].Name })
		for i := range spec.Conds {
			genConds(repo, &spec.Conds[i], &cs)
		}
		cs.WriteString("end Cond\n\n")
	}
	cs.WriteString("end Gen\n")
	writeIfChanged(filepath.Join(outDir, spec.Module+".lean"), cs.String())
}

func main() {
	repo := flag.String("repo", "/repo", "repository root")
	specDir := flag.String("specs", "spec.d", "directory of extraction specs (*.json), one Gen module each")
	outDir := flag.String("out", "", "output directory (…/TunnoxModel/Gen)")
	only := flag.String("only", "", "only this module")
	flag.Parse()
	ents, err := os.ReadDir(*specDir)
	if err != nil {
		die("%v", err)
	}
	for _, e := range ents {
		if !strings.HasSuffix(e.Name(), ".json") {
			continue
		}
		raw, err := os.ReadFile(filepath.Join(*specDir, e.Name()))
		if err != nil {
			die("%v", err)
		}
		var spec Spec
		if err := json.Unmarshal(raw, &spec); err != nil {
			die("spec %s: %v", e.Name(), err)
		}
		if spec.Module == "" {
			die("spec %s: no module name", e.Name())
		}
		if *only != "" && *only != spec.Module {
			continue
		}
		genModule(*repo, &spec, *outDir)
	}
}
