// ext.go: additive extraction kinds (first used by C09).
//
//	structs      field table of a struct type: (Go name, Go type, json tag name)      -> List (String × String × String)
//	typeswitches case types of the first type switch of a function, in source order   -> List String
//	assigns      right-hand side of `v := e` / `v = e` inside a function: a constant
//	             (ints, durations) or a string concatenation over string parameters   -> Nat / String-valued def
//	returns      the single `return e` of a one-line string function (same fragment)  -> String-valued def
//	tables       fields of the composite literal returned by a function
//	             ([]string tables, int/duration scalars, bools)                       -> List String / Nat / Bool
//
// Anything outside these fragments is a loud error, as in main.go.
package main

import (
	"fmt"
	"go/ast"
	"go/token"
	"reflect"
	"strconv"
	"strings"
)

type StructSpec struct {
	Dir  string `json:"dir"`
	Type string `json:"type"`
	Name string `json:"name"`
}

type TypeSwitchSpec struct {
	Dir  string `json:"dir"`
	Recv string `json:"recv"`
	Func string `json:"func"`
	Name string `json:"name"`
}

type AssignSpec struct {
	Dir    string   `json:"dir"`
	Recv   string   `json:"recv"`
	Func   string   `json:"func"`
	Var    string   `json:"var"`    // assigned variable; "" = the function's single return expression
	Params []string `json:"params"` // free string variables of the expression, in Lean parameter order
	Name   string   `json:"name"`
}

type TableSpec struct {
	Dir    string   `json:"dir"`
	Func   string   `json:"func"`
	Fields []string `json:"fields"`
	Prefix string   `json:"prefix"` // Lean name prefix
}

type ExtSpec struct {
	LeanImports  []string         `json:"lean_imports"`
	Structs      []StructSpec     `json:"structs"`
	TypeSwitches []TypeSwitchSpec `json:"typeswitches"`
	Assigns      []AssignSpec     `json:"assigns"`
	Tables       []TableSpec      `json:"tables"`
}

func typeStr(e ast.Expr) string {
	switch e := e.(type) {
	case *ast.Ident:
		return e.Name
	case *ast.StarExpr:
		return "*" + typeStr(e.X)
	case *ast.SelectorExpr:
		return typeStr(e.X) + "." + e.Sel.Name
	case *ast.ArrayType:
		if e.Len == nil {
			return "[]" + typeStr(e.Elt)
		}
		return "[...]" + typeStr(e.Elt)
	case *ast.MapType:
		return "map[" + typeStr(e.Key) + "]" + typeStr(e.Value)
	case *ast.InterfaceType:
		if e.Methods == nil || len(e.Methods.List) == 0 {
			return "interface{}"
		}
	}
	die("unsupported type expression %s", exprStr(e))
	return ""
}

func findFunc(p *pkgInfo, dir, recv, fn string) *ast.FuncDecl {
	key := fn
	if recv != "" {
		key = recv + "." + fn
	}
	fd, ok := p.funcs[key]
	if !ok {
		die("ext: function %s not found in %s", key, dir)
	}
	return fd
}

func genStruct(root string, s *StructSpec, out *strings.Builder) {
	p := loadPkg(root, s.Dir)
	for _, f := range p.files {
		for _, d := range f.Decls {
			gd, ok := d.(*ast.GenDecl)
			if !ok || gd.Tok != token.TYPE {
				continue
			}
			for _, sp := range gd.Specs {
				ts := sp.(*ast.TypeSpec)
				st, ok := ts.Type.(*ast.StructType)
				if !ok || ts.Name.Name != s.Type {
					continue
				}
				var rows []string
				for _, fld := range st.Fields.List {
					if len(fld.Names) == 0 { // embedded field: its type is its name
						rows = append(rows, fmt.Sprintf("(%s, %s, %s)", leanStr(typeStr(fld.Type)), leanStr(typeStr(fld.Type)), leanStr("")))
						continue
					}
					tag := "" // the whole json tag, options included (the model's side condition pins it)
					if fld.Tag != nil {
						raw, _ := strconv.Unquote(fld.Tag.Value)
						tag = reflect.StructTag(raw).Get("json")
					}
					for _, n := range fld.Names {
						rows = append(rows, fmt.Sprintf("(%s, %s, %s)", leanStr(n.Name), leanStr(typeStr(fld.Type)), leanStr(tag)))
					}
				}
				fmt.Fprintf(out, "def %s : List (String × String × String) := [%s]\n", s.Name, strings.Join(rows, ", "))
				return
			}
		}
	}
	die("struct %s not found in %s", s.Type, s.Dir)
}

func genTypeSwitch(root string, s *TypeSwitchSpec, out *strings.Builder) {
	p := loadPkg(root, s.Dir)
	fd := findFunc(p, s.Dir, s.Recv, s.Func)
	var sw *ast.TypeSwitchStmt
	ast.Inspect(fd.Body, func(n ast.Node) bool {
		if t, ok := n.(*ast.TypeSwitchStmt); ok && sw == nil {
			sw = t
		}
		return sw == nil
	})
	if sw == nil {
		die("typeswitch: none in %s.%s", s.Recv, s.Func)
	}
	var cases []string
	for _, c := range sw.Body.List {
		cc := c.(*ast.CaseClause)
		if cc.List == nil {
			cases = append(cases, leanStr("default"))
		}
		for _, t := range cc.List {
			cases = append(cases, leanStr(typeStr(t)))
		}
	}
	fmt.Fprintf(out, "def %s : List String := [%s]\n", s.Name, strings.Join(cases, ", "))
}

// strExpr translates a string concatenation over literals and the listed parameters.
func strExpr(e ast.Expr, params map[string]bool, what string) string {
	switch e := e.(type) {
	case *ast.ParenExpr:
		return strExpr(e.X, params, what)
	case *ast.BasicLit:
		if e.Kind == token.STRING {
			s, _ := strconv.Unquote(e.Value)
			return leanStr(s)
		}
	case *ast.Ident:
		if params[e.Name] {
			return e.Name
		}
	case *ast.BinaryExpr:
		if e.Op == token.ADD {
			return "(" + strExpr(e.X, params, what) + " ++ " + strExpr(e.Y, params, what) + ")"
		}
	}
	die("%s: not a string concatenation over %v: %s", what, params, exprStr(e))
	return ""
}

func isConstExpr(p *pkgInfo, e ast.Expr) bool {
	switch e := e.(type) {
	case *ast.BasicLit:
		return e.Kind == token.INT
	case *ast.ParenExpr:
		return isConstExpr(p, e.X)
	case *ast.Ident:
		_, ok := p.consts[e.Name]
		return ok
	case *ast.SelectorExpr:
		x, ok := e.X.(*ast.Ident)
		_, unit := timeUnits[e.Sel.Name]
		return ok && x.Name == "time" && unit
	case *ast.BinaryExpr:
		return isConstExpr(p, e.X) && isConstExpr(p, e.Y)
	case *ast.UnaryExpr:
		return isConstExpr(p, e.X)
	}
	return false
}

func genAssign(root string, s *AssignSpec, out *strings.Builder) {
	p := loadPkg(root, s.Dir)
	fd := findFunc(p, s.Dir, s.Recv, s.Func)
	var rhs []ast.Expr
	ast.Inspect(fd.Body, func(n ast.Node) bool {
		switch st := n.(type) {
		case *ast.AssignStmt:
			if s.Var != "" && len(st.Lhs) == 1 && len(st.Rhs) == 1 {
				if id, ok := st.Lhs[0].(*ast.Ident); ok && id.Name == s.Var {
					rhs = append(rhs, st.Rhs[0])
				}
			}
		case *ast.ReturnStmt:
			if s.Var == "" && len(st.Results) == 1 {
				rhs = append(rhs, st.Results[0])
			}
		}
		return true
	})
	if len(rhs) != 1 {
		die("assign %s: expected exactly one assignment to %q in %s.%s, found %d", s.Name, s.Var, s.Recv, s.Func, len(rhs))
	}
	if isConstExpr(p, rhs[0]) {
		v := evalConst(p, rhs[0], 0, 0)
		fmt.Fprintf(out, "def %s : Nat := %d\n", s.Name, v.i)
		return
	}
	params := map[string]bool{}
	var ps []string
	for _, n := range s.Params {
		params[n] = true
		ps = append(ps, "("+n+" : String)")
	}
	fmt.Fprintf(out, "def %s %s : String := %s\n", s.Name, strings.Join(ps, " "), strExpr(rhs[0], params, "assign "+s.Name))
}

func genTable(root string, s *TableSpec, out *strings.Builder) {
	p := loadPkg(root, s.Dir)
	fd := findFunc(p, s.Dir, "", s.Func)
	var lit *ast.CompositeLit
	ast.Inspect(fd.Body, func(n ast.Node) bool {
		if r, ok := n.(*ast.ReturnStmt); ok && lit == nil && len(r.Results) == 1 {
			e := r.Results[0]
			if u, ok := e.(*ast.UnaryExpr); ok && u.Op == token.AND {
				e = u.X
			}
			if c, ok := e.(*ast.CompositeLit); ok {
				lit = c
			}
		}
		return lit == nil
	})
	if lit == nil {
		die("table: %s does not return a composite literal", s.Func)
	}
	vals := map[string]ast.Expr{}
	for _, el := range lit.Elts {
		kv, ok := el.(*ast.KeyValueExpr)
		if !ok {
			die("table %s: positional composite literal", s.Func)
		}
		vals[kv.Key.(*ast.Ident).Name] = kv.Value
	}
	for _, f := range s.Fields {
		v, ok := vals[f]
		if !ok {
			die("table %s: field %s not set in the literal", s.Func, f)
		}
		name := s.Prefix + f
		if c, ok := v.(*ast.CompositeLit); ok {
			var items []string
			for _, el := range c.Elts {
				items = append(items, strExpr(el, nil, "table "+name))
			}
			fmt.Fprintf(out, "def %s : List String := [%s]\n", name, strings.Join(items, ", "))
			continue
		}
		if id, ok := v.(*ast.Ident); ok && (id.Name == "true" || id.Name == "false") {
			fmt.Fprintf(out, "def %s : Bool := %s\n", name, id.Name)
			continue
		}
		if isConstExpr(p, v) {
			fmt.Fprintf(out, "def %s : Nat := %d\n", name, evalConst(p, v, 0, 0).i)
			continue
		}
		die("table %s: unsupported value %s", name, exprStr(v))
	}
}

func genExt(root string, ns string, e *ExtSpec, out *strings.Builder) {
	if len(e.Structs)+len(e.TypeSwitches)+len(e.Assigns)+len(e.Tables) == 0 {
		return
	}
	fmt.Fprintf(out, "namespace %s\n", ns)
	for i := range e.Structs {
		genStruct(root, &e.Structs[i], out)
	}
	for i := range e.TypeSwitches {
		genTypeSwitch(root, &e.TypeSwitches[i], out)
	}
	for i := range e.Assigns {
		genAssign(root, &e.Assigns[i], out)
	}
	for i := range e.Tables {
		genTable(root, &e.Tables[i], out)
	}
	fmt.Fprintf(out, "end %s\n\n", ns)
}
