// flow.go: "flows" — the control skeleton of a listed function as a list of
// normalized source lines (additive extension of the T2 tie, used by C10).
//
// For every statement of the function body, in source order and recursively:
//
//	if [init;] cond            -> "if <init; >cond" … "else" … "end"
//	for [init;] cond [; post]  -> "for <header>" … "end"      (range loops: "for <k, v> := range <x>")
//	switch [tag]               -> "switch <tag>", "case <list>" | "default", "end"
//	assignments, x++, x--      -> printed text
//	return / continue / break  -> printed text
//	expression statements, defer, go -> printed text, EXCEPT calls whose selector root is in `ignore`
//	                              (default: corelog) — logging is not behaviour; closures (`go func(){…}()`,
//	                              `x := func(){…}`, `f(func(){…})`) are entered, not printed wholesale
//	var declarations           -> printed text
//
// Comments never appear (the printer is run on the bare node).  A Lean theorem
// `Gen.Flow.X = [...] := rfl` then pins guards, their order, the arithmetic of
// offsets and the error-message strings of the function to the model that
// mirrors them: any edit of the function other than logging/comments breaks
// the proof and forces a re-check of the model.
package main

import (
	"bytes"
	"fmt"
	"go/ast"
	"go/printer"
	"strings"
)

type FlowSpec struct {
	Dir    string   `json:"dir"`
	Recv   string   `json:"recv"`
	Func   string   `json:"func"`
	Name   string   `json:"name"`   // Lean name
	Ignore []string `json:"ignore"` // selector roots of ignorable calls (default ["corelog"])
}

func nodeStr(n any) string {
	var b bytes.Buffer
	cfg := printer.Config{Mode: printer.RawFormat, Tabwidth: 1}
	if err := cfg.Fprint(&b, fset, n); err != nil {
		die("flow: cannot print node: %v", err)
	}
	// one line, single spaces
	return strings.Join(strings.Fields(b.String()), " ")
}

type flowCtx struct {
	ignore map[string]bool
	out    []string
}

func (c *flowCtx) ignorable(e ast.Expr) bool {
	ce, ok := e.(*ast.CallExpr)
	if !ok {
		return false
	}
	s := selStr(ce.Fun)
	root := s
	if i := strings.Index(s, "."); i >= 0 {
		root = s[:i]
	}
	return c.ignore[root]
}

// call emits "go f(x)" / "defer f(x)"; a closure called in place is entered.
func (c *flowCtx) call(kw string, ce *ast.CallExpr) {
	if c.ignorable(ce) {
		return
	}
	if fl, ok := ce.Fun.(*ast.FuncLit); ok {
		c.emit(kw + " func")
		c.block(fl.Body.List)
		c.emit("end()")
		return
	}
	c.emit(kw + " " + nodeStr(ce))
}

func (c *flowCtx) emit(s string) { c.out = append(c.out, s) }

func (c *flowCtx) block(list []ast.Stmt) {
	for _, s := range list {
		c.stmt(s)
	}
}

func (c *flowCtx) stmt(s ast.Stmt) {
	switch s := s.(type) {
	case *ast.BlockStmt:
		c.block(s.List)
	case *ast.IfStmt:
		h := "if "
		if s.Init != nil {
			h += nodeStr(s.Init) + "; "
		}
		c.emit(h + nodeStr(s.Cond))
		c.block(s.Body.List)
		if s.Else != nil {
			c.emit("else")
			c.stmt(s.Else)
		}
		c.emit("end")
	case *ast.ForStmt:
		h := "for"
		if s.Init != nil || s.Post != nil {
			i, p, k := "", "", ""
			if s.Init != nil {
				i = nodeStr(s.Init)
			}
			if s.Cond != nil {
				k = nodeStr(s.Cond)
			}
			if s.Post != nil {
				p = nodeStr(s.Post)
			}
			h += " " + i + "; " + k + "; " + p
		} else if s.Cond != nil {
			h += " " + nodeStr(s.Cond)
		}
		c.emit(h)
		c.block(s.Body.List)
		c.emit("end")
	case *ast.RangeStmt:
		h := "for "
		if s.Key != nil {
			h += nodeStr(s.Key)
			if s.Value != nil {
				h += ", " + nodeStr(s.Value)
			}
			h += " " + s.Tok.String() + " "
		}
		c.emit(h + "range " + nodeStr(s.X))
		c.block(s.Body.List)
		c.emit("end")
	case *ast.SwitchStmt:
		h := "switch"
		if s.Init != nil {
			h += " " + nodeStr(s.Init) + ";"
		}
		if s.Tag != nil {
			h += " " + nodeStr(s.Tag)
		}
		c.emit(h)
		for _, cc := range s.Body.List {
			cl := cc.(*ast.CaseClause)
			if cl.List == nil {
				c.emit("default")
			} else {
				var xs []string
				for _, e := range cl.List {
					xs = append(xs, nodeStr(e))
				}
				c.emit("case " + strings.Join(xs, ", "))
			}
			c.block(cl.Body)
		}
		c.emit("end")
	case *ast.TypeSwitchStmt:
		c.typeSwitch(s) // flow_typeswitch.go
	case *ast.ExprStmt:
		if c.ignorable(s.X) {
			break
		}
		// f(func() { … }): recurse into the closure instead of printing it (and its logging) wholesale
		if ce, ok := s.X.(*ast.CallExpr); ok && len(ce.Args) == 1 {
			if fl, ok := ce.Args[0].(*ast.FuncLit); ok {
				c.emit(nodeStr(ce.Fun) + "(func")
				c.block(fl.Body.List)
				c.emit("end)")
				break
			}
		}
		c.emit(nodeStr(s.X))
	case *ast.DeferStmt:
		c.call("defer", s.Call)
	case *ast.GoStmt:
		c.call("go", s.Call)
	case *ast.AssignStmt:
		if len(s.Rhs) == 1 && len(s.Lhs) == 1 {
			if fl, ok := s.Rhs[0].(*ast.FuncLit); ok {
				c.emit(nodeStr(s.Lhs[0]) + " " + s.Tok.String() + " func")
				c.block(fl.Body.List)
				c.emit("end")
				break
			}
		}
		c.emit(nodeStr(s))
	case *ast.IncDecStmt, *ast.ReturnStmt, *ast.BranchStmt, *ast.DeclStmt, *ast.SendStmt:
		c.emit(nodeStr(s))
	case *ast.EmptyStmt:
	default:
		die("flow: unsupported statement %T at %s", s, fset.Position(s.Pos()))
	}
}

func genFlow(root string, fs *FlowSpec, out *strings.Builder) {
	p := loadPkg(root, fs.Dir)
	key := fs.Func
	if fs.Recv != "" {
		key = fs.Recv + "." + fs.Func
	}
	fd, ok := p.funcs[key]
	if !ok {
		die("flow: function %s not found in %s", key, fs.Dir)
	}
	c := &flowCtx{ignore: map[string]bool{}}
	ign := fs.Ignore
	if ign == nil {
		ign = []string{"corelog"}
	}
	for _, i := range ign {
		c.ignore[i] = true
	}
	c.block(fd.Body.List)
	fmt.Fprintf(out, "def %s : List String := [\n", fs.Name)
	for i, l := range c.out {
		sep := ","
		if i == len(c.out)-1 {
			sep = ""
		}
		fmt.Fprintf(out, "  %s%s\n", leanStr(l), sep)
	}
	fmt.Fprintf(out, "]\n")
}
