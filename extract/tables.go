// Additive extension (C11): typed constant tables and identifier sets.
//
//	"enums":   all constants of a named type in a package, in source order  -> defs + `all : List (String × Nat)`
//	"selsets": the `pkg.X` selectors a function compares with `==`          -> List Nat (source order, deduplicated)
//	"callargs": the `pkg.X` selector passed as the n-th argument of every call to a named function
//	            in the listed package directories                           -> List Nat (source order, deduplicated)
package main

import (
	"fmt"
	"go/ast"
	"go/token"
	"reflect"
	"regexp"
	"sort"
	"strconv"
	"strings"
)

type EnumSpec struct {
	Dir  string `json:"dir"`
	Type string `json:"type"` // Go type name of the constants
	NS   string `json:"ns"`   // Lean namespace for the defs
	List string `json:"list"` // name of the List (String × Nat) def inside NS
}

type SelSetSpec struct {
	Name    string `json:"name"`
	Dir     string `json:"dir"`
	Recv    string `json:"recv"`
	Func    string `json:"func"`
	Pkg     string `json:"pkg"`      // package qualifier of the selectors (e.g. "packet")
	ConstNS string `json:"const_ns"` // Lean namespace the selector names resolve in
}

type CallArgSpec struct {
	Name    string   `json:"name"`
	Dirs    []string `json:"dirs"`
	Callee  string   `json:"callee"`
	Arg     int      `json:"arg"`
	Pkg     string   `json:"pkg"`
	ConstNS string   `json:"const_ns"`
}

// "jsonkeys": every `json:"key"` struct tag in the listed package directories whose key matches the pattern and whose
// field is a scalar (integer or string, possibly behind a pointer) -> List (String × Bool)  (key, value-is-a-string),
// sorted by key. A key that occurs with both kinds counts as a number.
type JSONKeySpec struct {
	Name    string   `json:"name"`
	NS      string   `json:"ns"`
	Dirs    []string `json:"dirs"`
	Pattern string   `json:"pattern"`
}

func genJSONKeys(root string, js *JSONKeySpec, out *strings.Builder) {
	re, err := regexp.Compile(js.Pattern)
	if err != nil {
		die("jsonkeys: bad pattern: %v", err)
	}
	kinds := map[string]string{}
	for _, dir := range js.Dirs {
		p := loadPkg(root, dir)
		for _, f := range p.files {
			ast.Inspect(f, func(n ast.Node) bool {
				st, ok := n.(*ast.StructType)
				if !ok || st.Fields == nil {
					return true
				}
				for _, fl := range st.Fields.List {
					if fl.Tag == nil {
						continue
					}
					tag, err := strconv.Unquote(fl.Tag.Value)
					if err != nil {
						continue
					}
					key := strings.Split(reflect.StructTag(tag).Get("json"), ",")[0]
					if key == "" || key == "-" || !re.MatchString(key) {
						continue
					}
					t := fl.Type
					if se, ok := t.(*ast.StarExpr); ok {
						t = se.X
					}
					kind := ""
					switch exprIdent(t) {
					case "int", "int32", "int64", "uint", "uint32", "uint64":
						kind = "num"
					case "string":
						kind = "str"
					default:
						continue // not a scalar: cannot carry a bare identity
					}
					if old, ok := kinds[key]; ok && old != kind {
						kind = "num" // used with both kinds somewhere: client identities are numbers, send a number
					}
					kinds[key] = kind
				}
				return true
			})
		}
	}
	if len(kinds) == 0 {
		die("jsonkeys: no key matches %s", js.Pattern)
	}
	keys := make([]string, 0, len(kinds))
	for k := range kinds {
		keys = append(keys, k)
	}
	sort.Strings(keys)
	var items []string
	for _, k := range keys {
		items = append(items, fmt.Sprintf("(%s, %v)", leanStr(k), kinds[k] == "str"))
	}
	fmt.Fprintf(out, "namespace %s\ndef %s : List (String × Bool) := [%s]\nend %s\n\n", js.NS, js.Name, strings.Join(items, ", "), js.NS)
}

func genEnum(root string, es *EnumSpec, out *strings.Builder) {
	p := loadPkg(root, es.Dir)
	type ent struct {
		name string
		pos  token.Pos
	}
	var ents []ent
	for _, f := range p.files {
		for _, d := range f.Decls {
			gd, ok := d.(*ast.GenDecl)
			if !ok || gd.Tok != token.CONST {
				continue
			}
			curType := ""
			for _, s := range gd.Specs {
				vs := s.(*ast.ValueSpec)
				if vs.Type != nil {
					curType = exprIdent(vs.Type)
				} else if len(vs.Values) > 0 {
					curType = "" // untyped explicit value ends an implicit repetition
				}
				if curType == es.Type {
					for _, nm := range vs.Names {
						if nm.Name != "_" {
							ents = append(ents, ent{nm.Name, nm.Pos()})
						}
					}
				}
			}
		}
	}
	if len(ents) == 0 {
		die("enum: no constants of type %s in %s", es.Type, es.Dir)
	}
	sort.SliceStable(ents, func(i, j int) bool {
		return fset.Position(ents[i].pos).Filename < fset.Position(ents[j].pos).Filename ||
			(fset.Position(ents[i].pos).Filename == fset.Position(ents[j].pos).Filename && ents[i].pos < ents[j].pos)
	})
	fmt.Fprintf(out, "namespace %s\n", es.NS)
	var pairs []string
	for _, e := range ents {
		d := p.consts[e.name]
		v := evalConst(p, d.expr, d.iota, 0)
		if v.isStr || v.isF || v.i < 0 {
			die("enum: constant %s is not a natural number", e.name)
		}
		fmt.Fprintf(out, "def %s : Nat := %d\n", leanIdent(e.name), v.i)
		pairs = append(pairs, fmt.Sprintf("(%s, %d)", leanStr(e.name), v.i))
	}
	fmt.Fprintf(out, "def %s : List (String × Nat) := [%s]\n", es.List, strings.Join(pairs, ", "))
	fmt.Fprintf(out, "end %s\n\n", es.NS)
}

func exprIdent(e ast.Expr) string {
	if id, ok := e.(*ast.Ident); ok {
		return id.Name
	}
	return ""
}

func pkgSel(e ast.Expr, pkg string) (string, bool) {
	se, ok := e.(*ast.SelectorExpr)
	if !ok {
		return "", false
	}
	x, ok := se.X.(*ast.Ident)
	if !ok || x.Name != pkg {
		return "", false
	}
	return se.Sel.Name, true
}

func emitNatList(out *strings.Builder, name, ns string, names []string) {
	seen := map[string]bool{}
	var qs []string
	for _, n := range names {
		if !seen[n] {
			seen[n] = true
			qs = append(qs, ns+"."+leanIdent(n))
		}
	}
	fmt.Fprintf(out, "def %s : List Nat := [%s]\n", name, strings.Join(qs, ", "))
}

func genSelSet(root string, ss *SelSetSpec, out *strings.Builder) {
	p := loadPkg(root, ss.Dir)
	key := ss.Func
	if ss.Recv != "" {
		key = ss.Recv + "." + ss.Func
	}
	fd, ok := p.funcs[key]
	if !ok {
		die("selset: function %s not found in %s", key, ss.Dir)
	}
	var names []string
	ast.Inspect(fd.Body, func(n ast.Node) bool {
		be, ok := n.(*ast.BinaryExpr)
		if !ok || be.Op != token.EQL {
			return true
		}
		if nm, ok := pkgSel(be.X, ss.Pkg); ok {
			names = append(names, nm)
		}
		if nm, ok := pkgSel(be.Y, ss.Pkg); ok {
			names = append(names, nm)
		}
		return true
	})
	emitNatList(out, ss.Name, ss.ConstNS, names)
}

func genCallArgs(root string, cs *CallArgSpec, out *strings.Builder) {
	var names []string
	for _, dir := range cs.Dirs {
		p := loadPkg(root, dir)
		files := append([]*ast.File(nil), p.files...)
		sort.SliceStable(files, func(i, j int) bool {
			return fset.Position(files[i].Pos()).Filename < fset.Position(files[j].Pos()).Filename
		})
		for _, f := range files {
			ast.Inspect(f, func(n ast.Node) bool {
				ce, ok := n.(*ast.CallExpr)
				if !ok {
					return true
				}
				full := selStr(ce.Fun)
				if full != cs.Callee && !strings.HasSuffix(full, "."+cs.Callee) {
					return true
				}
				if cs.Arg >= len(ce.Args) {
					die("callargs: call of %s at %s has no argument %d", cs.Callee, fset.Position(ce.Pos()), cs.Arg)
				}
				a := ce.Args[cs.Arg]
				if nm, ok := pkgSel(a, cs.Pkg); ok {
					names = append(names, nm)
					return true
				}
				if bl, ok := a.(*ast.BasicLit); ok && bl.Value == "0" {
					return true // the "unknown command" placeholder; Register refuses type 0
				}
				if id, ok := a.(*ast.Ident); ok && fdParam(f, ce, id.Name) {
					return true // the constructor's own pass-through parameter
				}
				die("callargs: argument %d of %s at %s is not a %s.X selector: %s", cs.Arg, cs.Callee,
					fset.Position(ce.Pos()), cs.Pkg, exprStr(a))
				return true
			})
		}
	}
	if len(names) == 0 {
		die("callargs: no call of %s found", cs.Callee)
	}
	emitNatList(out, cs.Name, cs.ConstNS, names)
}

// fdParam: is `name` a parameter of the function declaration enclosing the call?
func fdParam(f *ast.File, ce *ast.CallExpr, name string) bool {
	for _, d := range f.Decls {
		fd, ok := d.(*ast.FuncDecl)
		if !ok || fd.Body == nil || ce.Pos() < fd.Body.Pos() || ce.End() > fd.Body.End() {
			continue
		}
		for _, fl := range fd.Type.Params.List {
			for _, nm := range fl.Names {
				if nm.Name == name {
					return true
				}
			}
		}
	}
	return false
}

func genTables(repo string, spec *Spec, cs *strings.Builder) {
	for i := range spec.Enums {
		genEnum(repo, &spec.Enums[i], cs)
	}
	for i := range spec.JSONKeys {
		genJSONKeys(repo, &spec.JSONKeys[i], cs)
	}
	if len(spec.SelSets)+len(spec.CallArgs) > 0 {
		cs.WriteString("namespace Sel\n")
		for i := range spec.SelSets {
			genSelSet(repo, &spec.SelSets[i], cs)
		}
		for i := range spec.CallArgs {
			genCallArgs(repo, &spec.CallArgs[i], cs)
		}
		cs.WriteString("end Sel\n\n")
	}
}
