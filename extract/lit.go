package main

import (
	"fmt"
	"go/ast"
	"go/token"
	"strings"
)

// LitSpec: integer/duration fields of the composite literal returned by a
// configuration constructor (e.g. DefaultIPRateLimitConfig), emitted as constants.
type LitSpec struct {
	Dir    string   `json:"dir"`
	Func   string   `json:"func"`
	NS     string   `json:"ns"`
	Fields []string `json:"fields"`
}

// ---------------------------------------------------------------- literals

// genLit emits the listed fields of the (single) composite literal that the
// function returns, evaluated as constants.
func genLit(root string, ls *LitSpec, out *strings.Builder) {
	p := loadPkg(root, ls.Dir)
	fd, ok := p.funcs[ls.Func]
	if !ok {
		die("lit: function %s not found in %s", ls.Func, ls.Dir)
	}
	var lit *ast.CompositeLit
	n := 0
	ast.Inspect(fd.Body, func(nd ast.Node) bool {
		if rs, ok := nd.(*ast.ReturnStmt); ok && len(rs.Results) == 1 {
			e := rs.Results[0]
			if u, ok := e.(*ast.UnaryExpr); ok && u.Op == token.AND {
				e = u.X
			}
			if cl, ok := e.(*ast.CompositeLit); ok {
				lit = cl
				n++
			}
		}
		return true
	})
	if lit == nil || n != 1 {
		die("lit: %s must return exactly one composite literal (found %d)", ls.Func, n)
	}
	vals := map[string]ast.Expr{}
	for _, el := range lit.Elts {
		if kv, ok := el.(*ast.KeyValueExpr); ok {
			if k, ok := kv.Key.(*ast.Ident); ok {
				vals[k.Name] = kv.Value
			}
		}
	}
	fmt.Fprintf(out, "namespace %s\n", ls.NS)
	for _, f := range ls.Fields {
		e, ok := vals[f]
		if !ok {
			die("lit: field %s not set in the literal returned by %s", f, ls.Func)
		}
		v := evalConst(p, e, 0, 0)
		if v.isStr || v.isF || v.i < 0 {
			die("lit: field %s of %s is not a natural number", f, ls.Func)
		}
		fmt.Fprintf(out, "def %s : Nat := %d\n", leanIdent(f), v.i)
	}
	fmt.Fprintf(out, "end %s\n\n", ls.NS)
}
