package main

import (
	"fmt"
	"go/ast"
	"go/token"
	"strings"
)

// CfgTableSpec: fields of the composite literal returned by a configuration constructor
// (e.g. hybrid.DefaultConfig): string tables in source order (List String), integer /
// duration fields (Nat) and boolean fields (Bool).   Spec key: "cfgtables".
type CfgTableSpec struct {
	Dir    string   `json:"dir"`
	Func   string   `json:"func"`
	NS     string   `json:"ns"`
	Fields []string `json:"fields"`
}

// ---------------------------------------------------------------- tables

// genCfgTable emits the listed fields of the (single) composite literal that the
// function returns: []string{...} as List String, true/false as Bool, anything
// else evaluated as a natural-number constant.
func genCfgTable(root string, ts *CfgTableSpec, out *strings.Builder) {
	p := loadPkg(root, ts.Dir)
	fd, ok := p.funcs[ts.Func]
	if !ok {
		die("table: function %s not found in %s", ts.Func, ts.Dir)
	}
	var lit *ast.CompositeLit
	n := 0
	ast.Inspect(fd.Body, func(nd ast.Node) bool {
		if rs, ok := nd.(*ast.ReturnStmt); ok && len(rs.Results) == 1 {
			e := rs.Results[0]
			if u, ok := e.(*ast.UnaryExpr); ok && u.Op == token.AND {
				e = u.X
			}
			if cl, ok := e.(*ast.CompositeLit); ok {
				lit = cl
				n++
			}
		}
		return true
	})
	if lit == nil || n != 1 {
		die("table: %s must return exactly one composite literal (found %d)", ts.Func, n)
	}
	vals := map[string]ast.Expr{}
	for _, el := range lit.Elts {
		if kv, ok := el.(*ast.KeyValueExpr); ok {
			if k, ok := kv.Key.(*ast.Ident); ok {
				vals[k.Name] = kv.Value
			}
		}
	}
	fmt.Fprintf(out, "namespace %s\n", ts.NS)
	for _, f := range ts.Fields {
		e, ok := vals[f]
		if !ok {
			die("table: field %s not set in the literal returned by %s", f, ts.Func)
		}
		if cl, ok := e.(*ast.CompositeLit); ok {
			items := []string{}
			for _, el := range cl.Elts {
				v := evalConst(p, el, 0, 0)
				if !v.isStr {
					die("table: field %s of %s: non-string element", f, ts.Func)
				}
				items = append(items, leanStr(v.s))
			}
			fmt.Fprintf(out, "def %s : List String := [%s]\n", leanIdent(f), strings.Join(items, ", "))
			continue
		}
		if id, ok := e.(*ast.Ident); ok && (id.Name == "true" || id.Name == "false") {
			fmt.Fprintf(out, "def %s : Bool := %s\n", leanIdent(f), id.Name)
			continue
		}
		v := evalConst(p, e, 0, 0)
		if v.isStr || v.isF || v.i < 0 {
			die("table: field %s of %s is not a natural number", f, ts.Func)
		}
		fmt.Fprintf(out, "def %s : Nat := %d\n", leanIdent(f), v.i)
	}
	fmt.Fprintf(out, "end %s\n\n", ts.NS)
}
