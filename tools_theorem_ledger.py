#!/usr/bin/env python3
"""usage: tools_theorem_ledger.py [--prune]   (after a `lake build`)
Records the names of the property theorems currently stated in every property's Props modules in
checks/theorems/<ID>.txt.  Names are only ADDED (a run of ./check then requires each of them to be stated still);
--prune rewrites the files from what exists now and is meant for a reviewed rename/removal only."""
import glob, importlib.util, os, subprocess, sys
V = os.path.dirname(os.path.abspath(__file__))
prune = "--prune" in sys.argv
os.makedirs(os.path.join(V, "checks", "theorems"), exist_ok=True)
for f in sorted(glob.glob(os.path.join(V, "checks", "c??.py"))):
    sp = importlib.util.spec_from_file_location("m", f); m = importlib.util.module_from_spec(sp); sp.loader.exec_module(m)
    spec = m.SPEC
    subprocess.run(["lake", "build"] + spec["lean_props"], cwd=os.path.join(V, "lean"), stdout=subprocess.DEVNULL, stderr=subprocess.DEVNULL)
    out = subprocess.run(["lake", "env", "lean", "--run", "Audit.lean"] + spec["lean_props"], cwd=os.path.join(V, "lean"),
                         stdout=subprocess.PIPE, stderr=subprocess.STDOUT).stdout.decode()
    import re
    # equation lemmas (`f.eq_def`, `f.eq_1`) are generated on demand by the proofs that unfold f: not property theorems
    names = [l.split(" ")[2] for l in out.splitlines() if l.startswith("THEOREM ")
             and not re.search(r"\.(eq_def|eq_\d+|proof_\d+)$|match_\d+", l.split(" ")[2])]
    if not names:
        print(spec["id"], "no theorems listed (build first?)", out[-300:]); continue
    p = os.path.join(V, "checks", "theorems", spec["id"] + ".txt")
    old = [] if prune or not os.path.exists(p) else [l.strip() for l in open(p) if l.strip() and not l.startswith("#")]
    alln = old + [n for n in names if n not in old]
    open(p, "w").write("# property theorems of %s that every run of ./check requires to be stated (tools_theorem_ledger.py)\n" % spec["id"] + "\n".join(alln) + "\n")
    print(spec["id"], len(alln), "theorems (%d new)" % (len(alln) - len(old)), "MISSING NOW: %s" % [n for n in old if n not in names] if [n for n in old if n not in names] else "")
