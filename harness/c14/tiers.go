//go:build verif

package main

import (
	"errors"
	"fmt"
	"strconv"
	"strings"
	"sync"
	"time"

	"tunnox-core/internal/core/storage/memory"
	"tunnox-core/internal/core/storage/types"
)

var errInjected = errors.New("verif: injected tier failure")

// ---- values:  "-" absent | s<n> string | i<n> int64 | L<a>,<b>… []interface{}{"e<a>","e<b>",…}
//               J<a>,<b>… the same list as a JSON string `["e<a>","e<b>"]` (what remote storage / Redis answer)

func encVal(tok string) (interface{}, bool) {
	switch {
	case tok == "-":
		return nil, false
	case strings.HasPrefix(tok, "s"):
		return tok, true
	case strings.HasPrefix(tok, "i"):
		n, _ := strconv.ParseInt(tok[1:], 10, 64)
		return n, true
	case strings.HasPrefix(tok, "J"):
		parts := []string{}
		if len(tok) > 1 {
			for _, x := range strings.Split(tok[1:], ",") {
				parts = append(parts, `"e`+x+`"`)
			}
		}
		return "[" + strings.Join(parts, ",") + "]", true
	case strings.HasPrefix(tok, "L"):
		l := []interface{}{}
		if len(tok) > 1 {
			for _, x := range strings.Split(tok[1:], ",") {
				l = append(l, "e"+x)
			}
		}
		return l, true
	}
	panic("bad value token " + tok)
}

func decVal(v interface{}) string {
	switch x := v.(type) {
	case nil:
		return "?nil"
	case string:
		if strings.HasPrefix(x, "[") && strings.HasSuffix(x, "]") {
			inner := x[1 : len(x)-1]
			parts := []string{}
			if inner != "" {
				for _, e := range strings.Split(inner, ",") {
					e = strings.TrimSpace(e)
					if len(e) < 4 || !strings.HasPrefix(e, `"e`) || !strings.HasSuffix(e, `"`) {
						return "?json"
					}
					parts = append(parts, e[2:len(e)-1])
				}
			}
			return "J" + strings.Join(parts, ",")
		}
		if strings.HasPrefix(x, "s") {
			if _, err := strconv.Atoi(x[1:]); err == nil {
				return x
			}
		}
		return "?str"
	case int64:
		return fmt.Sprintf("i%d", x)
	case []interface{}:
		parts := make([]string, 0, len(x))
		for _, e := range x {
			es, ok := e.(string)
			if !ok || !strings.HasPrefix(es, "e") {
				return "?elem"
			}
			parts = append(parts, es[1:])
		}
		return "L" + strings.Join(parts, ",")
	}
	return fmt.Sprintf("?%T", v)
}

// ---- gated cache tier (wraps the real memory.Storage)

type gCache struct {
	name  string
	s     *sched
	inner *memory.Storage
}

func (g *gCache) Set(key string, value any, ttl time.Duration) error {
	fail, t := g.s.enter(g.name)
	act := fmt.Sprintf("set=%s=%d", decVal(value), int64(ttl))
	if fail {
		g.s.record(t, g.name, act, "fail")
		return errInjected
	}
	err := g.inner.Set(key, value, ttl)
	g.s.record(t, g.name, act, okStr(err))
	return err
}

func (g *gCache) Get(key string) (any, error) {
	fail, t := g.s.enter(g.name)
	if fail {
		g.s.record(t, g.name, "get", "fail")
		return nil, errInjected
	}
	v, err := g.inner.Get(key)
	if err != nil {
		g.s.record(t, g.name, "get", "miss")
	} else {
		g.s.record(t, g.name, "get", "hit="+decVal(v))
	}
	return v, err
}

func (g *gCache) Delete(key string) error {
	fail, t := g.s.enter(g.name)
	if fail {
		g.s.record(t, g.name, "del", "fail")
		return errInjected
	}
	err := g.inner.Delete(key)
	g.s.record(t, g.name, "del", okStr(err))
	return err
}

func (g *gCache) Exists(key string) (bool, error) {
	fail, t := g.s.enter(g.name)
	if fail {
		g.s.record(t, g.name, "ex", "fail")
		return false, errInjected
	}
	b, err := g.inner.Exists(key)
	if b {
		g.s.record(t, g.name, "ex", "b1")
	} else {
		g.s.record(t, g.name, "ex", "b0")
	}
	return b, err
}

func (g *gCache) Incr(key string) (int64, error) { return g.IncrBy(key, 1) }

func (g *gCache) IncrBy(key string, d int64) (int64, error) {
	fail, t := g.s.enter(g.name)
	if fail {
		g.s.record(t, g.name, "incr", "fail")
		return 0, errInjected
	}
	n, err := g.inner.IncrBy(key, d)
	if err != nil {
		g.s.record(t, g.name, "incr", "miss")
	} else {
		g.s.record(t, g.name, "incr", fmt.Sprintf("hit=i%d", n))
	}
	return n, err
}

func (g *gCache) SetNX(key string, value any, ttl time.Duration) (bool, error) {
	fail, t := g.s.enter(g.name)
	act := fmt.Sprintf("setnx=%s=%d", decVal(value), int64(ttl))
	if fail {
		g.s.record(t, g.name, act, "fail")
		return false, errInjected
	}
	b, err := g.inner.SetNX(key, value, ttl)
	if err != nil {
		g.s.record(t, g.name, act, "fail")
	} else if b {
		g.s.record(t, g.name, act, "b1")
	} else {
		g.s.record(t, g.name, act, "b0")
	}
	return b, err
}

func (g *gCache) Close() error { return nil }

func okStr(err error) string {
	if err != nil {
		return "fail"
	}
	return "ok"
}

// ---- gated persistent tier (a map; values are copied in and out like a database would)

type gPersist struct {
	s  *sched
	mu sync.Mutex
	m  map[string]any
}

func cp(v any) any {
	if l, ok := v.([]interface{}); ok {
		return append([]interface{}{}, l...)
	}
	return v
}

func (g *gPersist) Set(key string, value any) error {
	fail, t := g.s.enter("p")
	act := fmt.Sprintf("set=%s=0", decVal(value))
	if fail {
		g.s.record(t, "p", act, "fail")
		return errInjected
	}
	g.mu.Lock()
	g.m[key] = cp(value)
	g.mu.Unlock()
	g.s.record(t, "p", act, "ok")
	return nil
}

func (g *gPersist) Get(key string) (any, error) {
	fail, t := g.s.enter("p")
	if fail {
		g.s.record(t, "p", "get", "fail")
		return nil, errInjected
	}
	g.mu.Lock()
	v, ok := g.m[key]
	g.mu.Unlock()
	if !ok {
		g.s.record(t, "p", "get", "miss")
		return nil, types.ErrKeyNotFound
	}
	g.s.record(t, "p", "get", "hit="+decVal(v))
	return cp(v), nil
}

func (g *gPersist) Delete(key string) error {
	fail, t := g.s.enter("p")
	if fail {
		g.s.record(t, "p", "del", "fail")
		return errInjected
	}
	g.mu.Lock()
	delete(g.m, key)
	g.mu.Unlock()
	g.s.record(t, "p", "del", "ok")
	return nil
}

func (g *gPersist) Exists(key string) (bool, error) {
	fail, t := g.s.enter("p")
	if fail {
		g.s.record(t, "p", "ex", "fail")
		return false, errInjected
	}
	g.mu.Lock()
	_, ok := g.m[key]
	g.mu.Unlock()
	if ok {
		g.s.record(t, "p", "ex", "b1")
	} else {
		g.s.record(t, "p", "ex", "b0")
	}
	return ok, nil
}

func (g *gPersist) BatchSet(items map[string]any) error            { return errors.New("unsupported") }
func (g *gPersist) BatchGet(keys []string) (map[string]any, error) { return nil, errors.New("unsupported") }
func (g *gPersist) BatchDelete(keys []string) error                { return errors.New("unsupported") }
func (g *gPersist) QueryByField(p string, f string, v any) ([]string, error) {
	return nil, errors.New("unsupported")
}
func (g *gPersist) QueryByPrefix(prefix string, limit int) (map[string]string, error) {
	return nil, errors.New("unsupported")
}
func (g *gPersist) Close() error { return nil }

var _ types.CacheStorage = (*gCache)(nil)
var _ types.CounterStore = (*gCache)(nil)
var _ types.PersistentStorage = (*gPersist)(nil)
