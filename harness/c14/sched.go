//go:build verif

package main

import (
	"bytes"
	"fmt"
	"runtime"
	"sort"
	"strconv"
	"sync"
	"sync/atomic"
	"time"
)

// Gate scheduler: every call into a tier double parks its goroutine until the scheduler grants the
// step.  Exactly one goroutine advances per grant; after a grant the scheduler waits until the process
// is quiescent again (every goroutine that did not exist before the case started is parked at a gate,
// blocked on a lock, or gone).  Quiescence is read off the goroutine states reported by runtime.Stack,
// so no sleeps or timing thresholds decide what the schedule was.

type thr struct {
	tid     int
	gid     int64
	grant   chan string // fault tag: "", "c", "s", "p"
	parked  bool
	tier    string // tier of the pending call
	done    bool
	res     string
	first   int
	last    int
	spawned bool // not started by the harness: a goroutine spawned by the code under test
}

type sched struct {
	mu       sync.Mutex
	gated    atomic.Bool
	thrs     []*thr
	byGID    map[int64]*thr
	baseline map[int64]bool
	step     int
	trace    []string
	self     int64
	hint     *thr // the thread granted last
}

func curGID() int64 {
	var buf [64]byte
	n := runtime.Stack(buf[:], false)
	// "goroutine 123 [running]:"
	b := buf[:n]
	b = b[len("goroutine "):]
	i := bytes.IndexByte(b, ' ')
	id, _ := strconv.ParseInt(string(b[:i]), 10, 64)
	return id
}

var debugStates = false
var lastStates map[int64]string

var stackBuf = make([]byte, 1<<16)

// goStates returns goroutine id -> state ("running", "runnable", "chan receive", "sync.Mutex.Lock", …).
func goStates() map[int64]string {
	for {
		n := runtime.Stack(stackBuf, true)
		if n < len(stackBuf) {
			out := map[int64]string{}
			b := stackBuf[:n]
			for len(b) > 0 {
				i := bytes.IndexByte(b, '\n')
				var line []byte
				if i < 0 {
					line, b = b, nil
				} else {
					line, b = b[:i], b[i+1:]
				}
				if bytes.HasPrefix(line, []byte("goroutine ")) {
					rest := line[len("goroutine "):]
					sp := bytes.IndexByte(rest, ' ')
					if sp < 0 {
						continue
					}
					id, err := strconv.ParseInt(string(rest[:sp]), 10, 64)
					if err != nil {
						continue
					}
					st := rest[sp+1:]
					if o := bytes.IndexByte(st, '['); o >= 0 {
						st = st[o:]
						e := bytes.IndexAny(st, ",]")
						if e > 0 {
							out[id] = string(st[1:e])
						}
					}
				}
			}
			return out
		}
		stackBuf = make([]byte, 2*len(stackBuf))
	}
}

func newSched() *sched {
	s := &sched{byGID: map[int64]*thr{}, baseline: map[int64]bool{}}
	s.self = curGID()
	for id := range goStates() {
		s.baseline[id] = true
	}
	return s
}

// enter is called by a tier double at the start of every call.
func (s *sched) enter(tier string) (bool, *thr) {
	if !s.gated.Load() {
		return false, nil
	}
	gid := curGID()
	s.mu.Lock()
	t := s.byGID[gid]
	if t == nil {
		t = &thr{tid: len(s.thrs), gid: gid, grant: make(chan string), spawned: true}
		s.thrs = append(s.thrs, t)
		s.byGID[gid] = t
	}
	t.parked = true
	t.tier = tier
	s.mu.Unlock()
	tag := <-t.grant
	return tag == tier, t
}

func (s *sched) record(t *thr, tier, act, out string) {
	if t == nil {
		return
	}
	s.mu.Lock()
	s.trace = append(s.trace, fmt.Sprintf("%d/%s/%s/%s", t.tid, tier, act, out))
	s.mu.Unlock()
}

// start launches a harness thread (one facade call).
func (s *sched) start(body func() string) {
	t := &thr{tid: len(s.thrs), grant: make(chan string)}
	s.thrs = append(s.thrs, t)
	ready := make(chan struct{})
	go func() {
		t.gid = curGID()
		s.mu.Lock()
		s.byGID[t.gid] = t
		t.parked = true
		t.tier = "start"
		s.mu.Unlock()
		close(ready)
		<-t.grant // start gate: the call is issued when the thread is first scheduled
		res := safeCall(body)
		s.mu.Lock()
		t.res = res
		t.done = true
		s.mu.Unlock()
	}()
	<-ready
}

func safeCall(body func() string) (res string) {
	defer func() {
		if r := recover(); r != nil {
			res = "panic"
		}
	}()
	return body()
}

// settle waits for quiescence. false = watchdog expired.
func (s *sched) settle() bool {
	// cheap pre-wait: the thread that was just granted usually parks at its next gate or returns at once
	if h := s.hint; h != nil {
		for k := 0; k < 300; k++ {
			s.mu.Lock()
			settled := h.parked || h.done
			s.mu.Unlock()
			if settled {
				break
			}
			runtime.Gosched()
		}
		s.hint = nil
	}
	deadline := time.Now().Add(5 * time.Second)
	for iter := 0; ; iter++ {
		st := goStates()
		ok := true
		s.mu.Lock()
		for gid, state := range st {
			if gid == s.self || s.baseline[gid] {
				continue
			}
			if t := s.byGID[gid]; t != nil && t.parked {
				continue
			}
			switch state {
			case "sync.Mutex.Lock", "sync.RWMutex.Lock", "sync.RWMutex.RLock", "sync.Cond.Wait",
				"sync.WaitGroup.Wait", "chan receive", "chan send", "select", "chan receive (nil chan)", "select (no cases)":
				// blocked until somebody else moves
			default:
				// running, runnable, syscall, sleep, preempted, GC assist wait, semacquire (a goroutine that
				// starts a GC cycle waits for the world semaphore our own stack dump holds), …: still on its way
				ok = false
			}
		}
		s.mu.Unlock()
		if ok {
			lastStates = st
			return true
		}
		if iter > 50 && time.Now().After(deadline) {
			return false
		}
		if iter < 20 {
			runtime.Gosched()
		} else {
			time.Sleep(20 * time.Microsecond)
		}
	}
}

func (s *sched) parked() []*thr {
	s.mu.Lock()
	defer s.mu.Unlock()
	var ps []*thr
	for _, t := range s.thrs {
		if t.parked {
			ps = append(ps, t)
		}
	}
	sort.Slice(ps, func(i, j int) bool { return ps[i].tid < ps[j].tid })
	return ps
}

// blockedLeft reports whether goroutines of this case are still alive (all blocked) although nothing is parked.
func (s *sched) blockedLeft() bool {
	st := goStates()
	for gid, state := range st {
		if gid == s.self || s.baseline[gid] {
			continue
		}
		if debugStates {
			println("left:", gid, state)
			for g2, s2 := range lastStates {
				if !s.baseline[g2] {
					t := s.byGID[g2]
					println("   settle saw", g2, s2, t != nil, t != nil && t.parked)
				}
			}
		}
		return true
	}
	return false
}

func (s *sched) grantTo(t *thr, tag string) {
	s.mu.Lock()
	s.step++
	if t.first == 0 {
		t.first = s.step
	}
	t.last = s.step
	t.parked = false
	s.hint = t
	s.mu.Unlock()
	t.grant <- tag
}

// release opens the start gate of a thread (not a schedule step).
func (s *sched) release(t *thr) {
	s.mu.Lock()
	t.parked = false
	s.mu.Unlock()
	t.grant <- ""
}

func (s *sched) isParked(t *thr) bool {
	s.mu.Lock()
	defer s.mu.Unlock()
	return t.parked
}

func (s *sched) stutter() {
	s.mu.Lock()
	s.step++
	s.mu.Unlock()
}
