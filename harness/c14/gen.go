//go:build verif

package main

import (
	"fmt"
	"sort"
	"strings"

	"tunnox-core/internal/cloud/repos"
	"tunnox-core/internal/constants"
	"tunnox-core/internal/core/storage/hybrid"
	vc "tunnox-core/internal/verifharness/common"
)

// ---- schedule exploration: depth-first over the choices among parked threads (and fault variants)

type frame struct{ choice, n int }

type explorer struct {
	stack  []frame
	nondet int
	evTags []string // eviction entries ("E0c", "E0s", "E1c") that may be placed once, anywhere
}

type alt struct {
	t   *thr
	tag string
}

// chooser for one run: follows the stack, extends it with first choices.
func (x *explorer) chooser(budget int, faultTiers string) chooser {
	depth := 0
	evLeft := len(x.evTags) > 0
	return func(parked []*thr) (*thr, string) {
		alts := make([]alt, 0, 2*len(parked))
		for _, t := range parked {
			alts = append(alts, alt{t, ""})
		}
		if budget > 0 {
			for _, t := range parked {
				if t.tier == "start" {
					alts = append(alts, alt{t, "?" + faultTiers})
				} else if strings.Contains(faultTiers, t.tier) {
					alts = append(alts, alt{t, t.tier})
				}
			}
		}
		if evLeft {
			for _, e := range x.evTags {
				alts = append(alts, alt{nil, e})
			}
		}
		if depth == len(x.stack) {
			x.stack = append(x.stack, frame{0, len(alts)})
		}
		f := &x.stack[depth]
		if f.n != len(alts) {
			x.nondet++
			f.n = len(alts)
			if f.choice >= f.n {
				f.choice = f.n - 1
			}
		}
		depth++
		a := alts[f.choice]
		if a.t == nil {
			evLeft = false
		} else if a.tag != "" {
			budget--
		}
		return a.t, a.tag
	}
}

// next moves to the next unexplored schedule; false when the tree is exhausted.
func (x *explorer) next() bool {
	for len(x.stack) > 0 && x.stack[len(x.stack)-1].choice+1 >= x.stack[len(x.stack)-1].n {
		x.stack = x.stack[:len(x.stack)-1]
	}
	if len(x.stack) == 0 {
		return false
	}
	x.stack[len(x.stack)-1].choice++
	return true
}

var nondetTotal int

// explore runs every interleaving of the case (bounded by limit), with up to `budget` injected failures
// on the tiers named in faultTiers.
func explore(out *vc.Out, k *kase, budget int, faultTiers string, limit int, tag string) int {
	return exploreEv(out, k, budget, faultTiers, nil, limit, tag)
}

// exploreEv: as explore, and one eviction of the named cache entries at every position.
func exploreEv(out *vc.Out, k *kase, budget int, faultTiers string, evTags []string, limit int, tag string) int {
	x := &explorer{evTags: evTags}
	n := 0
	for {
		r := execCase(k, x.chooser(budget, faultTiers), 0)
		emit(out, r, tag)
		n++
		if n >= limit {
			out.Count(tag + "-truncated")
			break
		}
		if !x.next() {
			break
		}
	}
	nondetTotal += x.nondet
	return n
}

func randomChooser(r *vc.Rand, faultPct int, faultTiers string) chooser {
	return func(parked []*thr) (*thr, string) {
		t := parked[r.Intn(len(parked))]
		if r.Intn(100) < faultPct {
			if t.tier == "start" {
				return t, "?" + faultTiers
			}
			if strings.Contains(faultTiers, t.tier) {
				return t, t.tier
			}
		}
		return t, ""
	}
}

// ---- keys

var catKeys = []string{"tunnox:session:k1", "tunnox:user:k1", "tunnox:node:k1", "tunnox:client_mappings:k1"}

func routeKeys() []string {
	cfg := hybrid.DefaultConfig()
	seen := map[string]bool{}
	var ks []string
	add := func(k string) {
		if k != "" && !strings.ContainsAny(k, " \t") && !seen[k] {
			seen[k] = true
			ks = append(ks, k)
		}
	}
	for _, l := range [][]string{cfg.PersistentPrefixes, cfg.SharedPrefixes, cfg.SharedPersistentPrefixes, hybrid.RuntimePrefixes} {
		for _, p := range l {
			add(p + "x1")
			add(p)
			add(p[:len(p)-1])
		}
	}
	// keys as the code base builds them (internal/constants, internal/cloud/repos, distributed.StorageBasedLock,
	// cleanup manager, idgen, node allocator, session buffer)
	for _, k := range []string{
		constants.KeyPrefixPersistClientConfig + "10000001", constants.KeyPrefixPersistClientsList,
		constants.KeyPrefixPersistMapping + "pm_1", constants.KeyPrefixRuntimeClientState + "10000001",
		constants.KeyPrefixRuntimeClientToken + "10000001", constants.KeyPrefixRuntimeNodeClients + "node-1",
		constants.KeyPrefixRuntimeConnectionCodeByCode + "abc-def-ghi", constants.KeyPrefixRuntimeConnectionCodeByID + "cc_1",
		constants.KeyPrefixRuntimeConnectionCodeClaim + "abc-def-ghi", constants.KeyPrefixIndexConnectionCodeByTarget + "10000001",
		constants.KeyPrefixClientMappings + ":10000001", constants.KeyPrefixUserMappings + ":u1",
		constants.KeyPrefixPortMapping + ":pm_1", constants.KeyPrefixMappingList,
		constants.KeyPrefixClientList, constants.KeyPrefixUserList, constants.KeyPrefixNodeList,
		constants.KeyPrefixUser + ":u1", constants.KeyPrefixClient + ":10000001", constants.KeyPrefixNode + ":node-1",
		constants.KeyPrefixID + ":used:client:10000001", constants.KeyPrefixCleanup + ":cleanup_expired",
		constants.KeyPrefixTempVerifyCode + "x", constants.KeyPrefixAuthCode + "x",
		repos.KeyHTTPDomainMappingList, repos.KeyHTTPDomainNextID, repos.HTTPDomainMappingKey("hdm_1"),
		repos.HTTPDomainIndexKey("a.example.com"), repos.HTTPDomainDeleteClaimKey("hdm_1"), repos.HTTPDomainClientKey(10000001),
		"lock:cleanup_task:cleanup_expired", "lock:idgen", "tunnox:node:allocated:1", "tunnel:state:t1",
		"webhook:w1", "webhooks:list", "webhook_log:l1", "webhook_logs:w1"} {
		add(k)
	}
	for _, k := range []string{"other:key", "tunnox:", "webhook", "webhooks:1", "webhook_logs:7", "webhook_log:7",
		"tunnox:http_domain:next_id", "tunnox:http_domain:next_id_2", "tunnox:http_domain:other",
		"tunnox:runtime:conncode:abc", "tunnox:runtime:client:state:5", "tunnox:runtime:x", "tunnox:stats:x",
		"tunnox:persist:client:config:9", "tunnox:persist:x", "tunnox:mappings:list", "tunnox:mappings:listing", "TUNNOX:user:1"} {
		add(k)
	}
	sort.Strings(ks)
	return ks
}

var routeOps = []string{"get", "ex", "set:s1:0", "set:s2:7200000000000", "set:L5,6:0", "del", "getl", "app:1", "rem:1", "incr",
	"exp:7000000000000", "setnx:s1:7200000000000", "setnx:s1:0", "hset:s1", "hget", "hdel"}

func initFor(op string, variant int, sh bool) [3]string {
	v := "s9"
	switch {
	case strings.HasPrefix(op, "getl"), strings.HasPrefix(op, "app"), strings.HasPrefix(op, "rem"):
		v = "L1,2"
	case op == "incr":
		v = "i4"
	}
	s := "-"
	switch variant {
	case 0:
		return [3]string{"-", "-", "-"}
	case 1:
		if sh {
			s = v
		}
		return [3]string{v, s, v}
	case 2: // only the persistent tier holds it
		return [3]string{"-", "-", v}
	default: // wrong type for the operation
		if sh {
			s = "s3"
		}
		return [3]string{"s3", s, "s3"}
	}
}

func single(out *vc.Out, k *kase, tag string) {
	r := execCase(k, replayChooser(nil), 0)
	emit(out, r, tag)
}

func gen(out *vc.Out, r *vc.Rand, thorough bool) {
	// A. routing: every facade method alone, on keys around every prefix of the tables
	keys := routeKeys()
	for _, key := range keys {
		cfgis := []int{3, r.Intn(3)}
		if thorough {
			cfgis = []int{0, 1, 2, 3}
		}
		for _, cfgi := range cfgis {
			pe, sh := cfgi&1 == 1, cfgi&2 == 2
			for _, op := range routeOps {
				if strings.HasPrefix(op, "h") && !strings.Contains(key, ":") {
					continue // the hash methods address <key>:<field>
				}
				variants := []int{r.Intn(4)}
				if thorough {
					variants = []int{0, 1, 2, 3}
				}
				for _, v := range variants {
					k := &kase{variant: variantFlag, pe: pe, sh: sh, key: key, init: initFor(op, v, sh), ops: []string{op}}
					single(out, k, "route")
				}
			}
		}
	}
	// A'. custom, overlapping prefix tables
	customs := []struct{ P, S, SP []string }{
		{[]string{"a:", "ab"}, []string{"a:b", "x"}, []string{"a:b:c", "x:y"}},
		{[]string{"k"}, []string{"k"}, []string{"k"}},
		{[]string{}, []string{"q:"}, []string{}},
		{[]string{"p:"}, []string{}, []string{"p:s:"}},
	}
	ckeys := []string{"a:b:c:1", "a:b:1", "a:1", "ab1", "x:y1", "x1", "zz", "k1", "q:1", "p:s:1", "p:1"}
	for _, c := range customs {
		for _, key := range ckeys {
			for cfgi := 0; cfgi < 4; cfgi++ {
				for _, op := range []string{"get", "set:s1:0", "del", "ex", "incr", "app:3", "exp:9000000000000"} {
					k := &kase{variant: variantFlag, pe: cfgi&1 == 1, sh: cfgi&2 == 2, custom: true, P: c.P, S: c.S, SP: c.SP,
						key: key, init: initFor(op, r.Intn(3), cfgi&2 == 2), ops: []string{op}}
					single(out, k, "route-custom")
				}
			}
		}
	}

	// B. all interleavings of two (thorough: also three) get/exists/set/delete calls on one key
	kv := []string{"get", "ex", "set:s5:0", "del"}
	type cf struct{ pe, sh bool }
	cfgs := []cf{{true, false}, {true, true}, {false, false}}
	if thorough {
		cfgs = append(cfgs, cf{false, true})
	}
	inits := func(key string, sh bool, val string) [][3]string {
		s := "-"
		if sh {
			s = val
		}
		return [][3]string{{"-", "-", "-"}, {"-", "-", val}, {val, s, val}}
	}
	limit := 400
	if thorough {
		limit = 5000
	}
	for _, key := range catKeys {
		for _, c := range cfgs {
			for _, in := range inits(key, c.sh, "s1") {
				for _, a := range kv {
					for _, b := range kv {
						k := &kase{variant: variantFlag, pe: c.pe, sh: c.sh, key: key, init: in, ops: []string{a, b}}
						explore(out, k, 0, "", limit, "kv-pairs")
						if c.pe && (thorough || (a != b)) {
							explore(out, k, 1, "p", limit, "kv-pairs-pfault")
						}
					}
				}
			}
		}
	}
	// two writers and a reader, a write after a write, …
	triples := [][]string{{"get", "set:s5:0", "del"}, {"get", "get", "del"}, {"set:s5:0", "set:s6:0", "get"}, {"ex", "del", "set:s5:0"},
		{"get", "del", "get"}, {"set:s5:0", "get", "ex"}}
	for _, key := range catKeys[1:] {
		for _, c := range cfgs[:2] {
			for _, in := range inits(key, c.sh, "s1")[1:] {
				for _, t := range triples {
					k := &kase{variant: variantFlag, pe: c.pe, sh: c.sh, key: key, init: in, ops: t}
					lim := 60
					if thorough {
						lim = 3000
					}
					explore(out, k, 0, "", lim, "kv-triples")
					if thorough {
						explore(out, k, 1, "p", lim, "kv-triples-pfault")
					}
				}
			}
		}
	}

	// C. concurrent append/remove on one list
	lops := []string{"app:7", "app:8", "rem:1", "rem:2"}
	for _, key := range catKeys {
		for _, c := range cfgs {
			for _, in := range inits(key, c.sh, "L1,2") {
				if c.pe {
					// one call alone, a persistent-tier failure at each of its steps (a failed reload of the
					// list must fail the call, not be taken for an empty list)
					for _, a := range lops {
						k := &kase{variant: variantFlag, pe: c.pe, sh: c.sh, key: key, init: in, ops: []string{a}}
						explore(out, k, 1, "p", limit, "list-single-pfault")
					}
				}
				for i, a := range lops {
					for j, b := range lops {
						if j < i && !thorough {
							continue
						}
						k := &kase{variant: variantFlag, pe: c.pe, sh: c.sh, key: key, init: in, ops: []string{a, b}}
						explore(out, k, 0, "", limit, "list-pairs")
						persisted := key == catKeys[1] || key == catKeys[3]
						if c.pe && (thorough || (persisted && i != j)) {
							explore(out, k, 1, "p", limit, "list-pairs-pfault")
						}
					}
				}
			}
		}
	}
	for _, key := range []string{"tunnox:client_mappings:k1", "tunnox:index:conncode:target:k1"} {
		for _, in := range [][3]string{{"-", "-", "L1"}, {"-", "-", "-"}} {
			k := &kase{variant: variantFlag, pe: true, sh: true, key: key, init: in, ops: []string{"app:7", "app:8", "rem:1"}}
			lim := 80
			if thorough {
				lim = 4000
			}
			explore(out, k, 0, "", lim, "list-triples")
			if thorough {
				explore(out, k, 1, "p", lim, "list-triples-pfault")
			}
		}
	}

	// D. random histories: 3-4 calls, random schedule, failures of the persistent tier
	nRand := 300
	if thorough {
		nRand = 20000
	}
	for i := 0; i < nRand; i++ {
		key := vc.Pick(r, catKeys)
		c := vc.Pick(r, []cf{{true, false}, {true, true}, {false, false}, {false, true}})
		n := 3 + r.Intn(2)
		var ops []string
		kind := r.Intn(3)
		for j := 0; j < n; j++ {
			switch kind {
			case 0:
				ops = append(ops, vc.Pick(r, []string{"get", "ex", fmt.Sprintf("set:s%d:%d", 10+j, r.Intn(2)*5400000000000), "del", "get"}))
			case 1:
				ops = append(ops, vc.Pick(r, []string{fmt.Sprintf("app:%d", 10+j), fmt.Sprintf("rem:%d", 1+r.Intn(3)), fmt.Sprintf("app:%d", 20+j)}))
			default:
				ops = append(ops, vc.Pick(r, []string{"get", "getl", "set:s4:0", "set:L5:0", "del", "app:6", "rem:1", "incr", "exp:9000000000000", "ex"}))
			}
		}
		val := "s1"
		if kind == 1 || (kind == 2 && r.Bool()) {
			val = "L1,2,3"
		}
		in := vc.Pick(r, inits(key, c.sh, val))
		k := &kase{variant: variantFlag, pe: c.pe, sh: c.sh, key: key, init: in, ops: ops}
		res := execCase(k, randomChooser(r, 12, "p"), 0)
		emit(out, res, "random")
	}

	// H. plain GetList readers beside append/remove, with tiers that answer the list as a JSON string (remote
	// storage, data loaded after a restart, Redis): every interleaving, so that anything a reader writes
	// after it left the key lock lands after a complete concurrent mutation
	jsonCases := []struct {
		key    string
		pe, sh bool
		init   [3]string
	}{
		{"tunnox:persist:clients:list", true, false, [3]string{"-", "-", "J1,2"}},
		{catKeys[3], true, true, [3]string{"-", "-", "J1,2"}},
		{catKeys[3], true, true, [3]string{"-", "J1,2", "J1,2"}},
		{catKeys[3], true, false, [3]string{"-", "-", "J1,2"}},
		{catKeys[2], false, true, [3]string{"-", "J1,2", "-"}},
		{"tunnox:index:conncode:target:k1", false, true, [3]string{"-", "J1,2", "-"}},
		{catKeys[1], true, false, [3]string{"L1,2", "-", "L1,2"}},
	}
	for _, jc := range jsonCases {
		sets := [][]string{{"getl", "app:7"}, {"getl", "rem:1"}, {"app:7", "getl"}, {"getl", "getl"}}
		if thorough {
			sets = append(sets, []string{"getl", "app:7", "app:8"}, []string{"getl", "app:7", "getl"}, []string{"getl", "rem:1", "app:7"})
		}
		for _, ops := range sets {
			k := &kase{variant: variantFlag, pe: jc.pe, sh: jc.sh, key: jc.key, init: jc.init, ops: ops}
			explore(out, k, 0, "", limit, "list-readers-json")
			if jc.pe && thorough {
				explore(out, k, 1, "p", limit, "list-readers-json-pfault")
			}
		}
		for _, op := range []string{"get", "getl", "ex", "app:7", "rem:1", "del", "set:L5,6:0"} {
			k := &kase{variant: variantFlag, pe: jc.pe, sh: jc.sh, key: jc.key, init: jc.init, ops: []string{op}}
			single(out, k, "json-single")
		}
	}

	// I. a read-modify-write call (append / remove / TTL touch) beside a plain Set / SetList / Delete of the same key,
	// every key category and deployment, all interleavings: the plain write must not land between the tier read
	// and the tier write of the other call
	rmwKeys := append(append([]string{}, catKeys...), "tunnox:index:conncode:target:k1", "lock:cleanup_task:t1", "tunnox:conn_state:c1")
	for _, key := range rmwKeys {
		for _, c := range cfgs {
			for _, a := range []string{"app:7", "rem:1", "exp:7000000000000"} {
				val := "L1,2"
				if strings.HasPrefix(a, "exp") {
					val = "s1"
				}
				for _, in := range inits(key, c.sh, val)[1:] {
					for _, w := range []string{"set:L5,6:0", "set:s5:0", "del"} {
						k := &kase{variant: variantFlag, pe: c.pe, sh: c.sh, key: key, init: in, ops: []string{a, w}}
						explore(out, k, 0, "", limit, "rmw-vs-write")
						if thorough {
							k3 := &kase{variant: variantFlag, pe: c.pe, sh: c.sh, key: key, init: in, ops: []string{a, w, "get"}}
							explore(out, k3, 0, "", limit, "rmw-vs-write-read")
						}
					}
				}
			}
		}
	}

	// F. a cache entry expires / is evicted at any point of the schedule (persisted categories: the cache is
	// only a cache, nothing may be lost or resurrected)
	evKeys := []struct {
		key string
		sh  bool
		ev  string
	}{{catKeys[1], false, "E0c"}, {catKeys[3], true, "E0s"}, {catKeys[3], false, "E0c"}}
	for _, ek := range evKeys {
		for _, in := range inits(ek.key, ek.sh, "s1")[1:] {
			for _, ops := range [][]string{{"get", "set:s5:0"}, {"get", "del"}, {"set:s5:0", "ex"}, {"set:s5:0", "del"}, {"get", "get"}} {
				k := &kase{variant: variantFlag, pe: true, sh: ek.sh, key: ek.key, init: in, ops: ops}
				exploreEv(out, k, 0, "", []string{ek.ev}, limit, "evict-kv")
			}
		}
		for _, in := range inits(ek.key, ek.sh, "L1,2")[1:] {
			for _, ops := range [][]string{{"app:7", "app:8"}, {"app:7", "rem:1"}, {"rem:1", "rem:2"}} {
				k := &kase{variant: variantFlag, pe: true, sh: ek.sh, key: ek.key, init: in, ops: ops}
				exploreEv(out, k, 0, "", []string{ek.ev}, limit, "evict-list")
			}
		}
	}

	// G. two facade instances (nodes) on one shared cache and one persistent tier: the calls of a pair are
	// issued on different nodes, all interleavings
	twoKeys := []string{catKeys[1], catKeys[2], catKeys[3], "lock:cleanup_task:t1"}
	if thorough {
		twoKeys = append(append([]string{}, catKeys...), "tunnox:index:conncode:target:k1", "lock:cleanup_task:t1",
			repos.KeyHTTPDomainMappingList)
	}
	for _, key := range twoKeys {
		for _, c := range []cf{{false, true}, {true, true}, {true, false}} {
			for _, in := range inits(key, c.sh, "s1")[:2] {
				for _, ops := range [][]string{{"set:s5:0", "get"}, {"get", "del"}, {"set:s5:0", "ex"}, {"setnx:s5:0", "get"},
					{"set:s5:0", "set:s6:0"}, {"del", "get"}} {
					if !thorough && c.pe && !c.sh && ops[0] != "set:s5:0" {
						continue
					}
					k := &kase{variant: variantFlag, pe: c.pe, sh: c.sh, key: key, init: in, ops: ops, nodes: []int{0, 1}}
					explore(out, k, 0, "", limit, "two-node-kv")
				}
			}
			if c.sh {
				for _, in := range inits(key, c.sh, "L1,2")[:2] {
					for _, ops := range [][]string{{"app:7", "app:8"}, {"app:7", "rem:1"}} {
						k := &kase{variant: variantFlag, pe: c.pe, sh: c.sh, key: key, init: in, ops: ops, nodes: []int{0, 1}}
						explore(out, k, 0, "", limit, "two-node-list")
					}
				}
			}
		}
	}

	// E. excluded points: failures of a cache tier (the recorded findings live here), tiers that disagree initially
	for _, key := range catKeys {
		for _, c := range cfgs[:3] {
			for _, in := range inits(key, c.sh, "s1")[1:] {
				pairs := [][]string{{"set:s5:0", "get"}, {"get", "del"}, {"del", "ex"}, {"ex", "get"}}
				if thorough {
					pairs = append(pairs, []string{"set:s5:0", "set:s6:0"}, []string{"del", "get"}, []string{"get", "get"})
				}
				for _, p := range pairs {
					k := &kase{variant: variantFlag, pe: c.pe, sh: c.sh, key: key, init: in, ops: p}
					explore(out, k, 1, "cs", 200, "excluded-cache-fault")
				}
			}
		}
	}
	for _, key := range catKeys[1:] {
		for _, ops := range [][]string{{"get", "del"}, {"set:s5:0", "get"}, {"ex", "get"}} {
			k := &kase{variant: variantFlag, pe: true, sh: true, key: key, init: [3]string{"s2", "s3", "s1"}, ops: ops}
			explore(out, k, 0, "", 100, "excluded-incoherent-init")
		}
	}
	if nondetTotal > 0 {
		for i := 0; i < nondetTotal; i++ {
			out.Count("nondeterministic-branching")
		}
	}
}
