//go:build verif

// Harness for C14: the real hybrid.Storage facade over gated tier doubles (cache and shared cache wrap
// the real memory.Storage, the persistent tier is a map).  Facade calls run in goroutines; the scheduler
// lets exactly one of them perform one tier call per schedule entry, so the execution IS the interleaving
// named in the case line.
//
//	run [asfound] pe <0|1> sh <0|1> cfg (default | custom <nP> p… <nS> s… <nSP> sp…) key <key>
//	    init <c> <s> <p> ops <n> <op>… sch <m> <entry>…
//	## th <k> <inv>:<ret>:<res>… fin <c> <s> <p> fget <res> tr <j> <tid>/<tier>/<act>/<out>…
package main

import (
	"context"
	"errors"
	"flag"
	"fmt"
	"os"
	"strconv"
	"strings"
	"time"

	"tunnox-core/internal/core/storage/hybrid"
	"tunnox-core/internal/core/storage/memory"
	"tunnox-core/internal/core/storage/types"
	vc "tunnox-core/internal/verifharness/common"
)

type entry struct {
	tid int
	tag string
}

type kase struct {
	variant   string // "" or "asfound": which model variant the line is compared with
	pe, sh    bool
	custom    bool
	P, S, SP  []string
	key       string
	init      [3]string
	ops       []string
	nodes     []int // node of each call (nil = all on node 0)
	sch       []entry
}

func (k *kase) twoNode() bool {
	for _, n := range k.nodes {
		if n != 0 {
			return true
		}
	}
	return false
}

func b01(b bool) string {
	if b {
		return "1"
	}
	return "0"
}

func (k *kase) header() string {
	if !k.sh {
		k.init[1] = "-"
	}
	if !k.pe {
		k.init[2] = "-"
	}
	var sb strings.Builder
	sb.WriteString("run ")
	if k.variant != "" {
		sb.WriteString(k.variant + " ")
	}
	fmt.Fprintf(&sb, "pe %s sh %s cfg ", b01(k.pe), b01(k.sh))
	if k.custom {
		sb.WriteString("custom")
		for _, l := range [][]string{k.P, k.S, k.SP} {
			fmt.Fprintf(&sb, " %d", len(l))
			for _, p := range l {
				sb.WriteString(" " + p)
			}
		}
	} else {
		sb.WriteString("default")
	}
	fmt.Fprintf(&sb, " key %s init %s %s %s ops %d", k.key, k.init[0], k.init[1], k.init[2], len(k.ops))
	for _, o := range k.ops {
		sb.WriteString(" " + o)
	}
	if k.twoNode() {
		fmt.Fprintf(&sb, " nodes %d", len(k.nodes))
		for _, n := range k.nodes {
			fmt.Fprintf(&sb, " %d", n)
		}
	}
	return sb.String()
}

func (k *kase) line(sch []entry) string {
	var sb strings.Builder
	sb.WriteString(k.header())
	fmt.Fprintf(&sb, " sch %d", len(sch))
	for _, e := range sch {
		switch {
		case e.tag == "":
			fmt.Fprintf(&sb, " %d", e.tid)
		case strings.HasPrefix(e.tag, "E"):
			fmt.Fprintf(&sb, " E%d%s", e.tid, e.tag[1:]) // eviction: E<node><c|s>
		default:
			fmt.Fprintf(&sb, " %d!%s", e.tid, e.tag)
		}
	}
	return sb.String()
}

func takeCounted(ts []string) ([]string, []string, error) {
	if len(ts) == 0 {
		return nil, nil, errors.New("count expected")
	}
	n, err := strconv.Atoi(ts[0])
	if err != nil || n < 0 || n > len(ts)-1 {
		return nil, nil, errors.New("bad count")
	}
	return ts[1 : 1+n], ts[1+n:], nil
}

func parseCase(line string) (*kase, error) {
	ts := strings.Fields(line)
	k := &kase{}
	if len(ts) == 0 || ts[0] != "run" {
		return nil, errors.New("not a run case")
	}
	ts = ts[1:]
	if len(ts) > 0 && ts[0] == "asfound" {
		k.variant = "asfound"
		ts = ts[1:]
	}
	if len(ts) < 6 || ts[0] != "pe" || ts[2] != "sh" || ts[4] != "cfg" {
		return nil, errors.New("bad header")
	}
	k.pe, k.sh = ts[1] == "1", ts[3] == "1"
	switch ts[5] {
	case "default":
		ts = ts[6:]
	case "custom":
		k.custom = true
		ts = ts[6:]
		var err error
		for _, dst := range []*[]string{&k.P, &k.S, &k.SP} {
			*dst, ts, err = takeCounted(ts)
			if err != nil {
				return nil, err
			}
		}
	default:
		return nil, errors.New("bad cfg")
	}
	if len(ts) < 7 || ts[0] != "key" || ts[2] != "init" || ts[6] != "ops" {
		return nil, errors.New("bad key/init")
	}
	k.key = ts[1]
	k.init = [3]string{ts[3], ts[4], ts[5]}
	var err error
	k.ops, ts, err = takeCounted(ts[7:])
	if err != nil {
		return nil, err
	}
	if len(ts) > 0 && ts[0] == "nodes" {
		var ns []string
		ns, ts, err = takeCounted(ts[1:])
		if err != nil {
			return nil, err
		}
		for _, n := range ns {
			v, err := strconv.Atoi(n)
			if err != nil || v < 0 || v > 1 {
				return nil, errors.New("bad node")
			}
			k.nodes = append(k.nodes, v)
		}
	}
	if len(ts) < 1 || ts[0] != "sch" {
		return nil, errors.New("sch expected")
	}
	var es []string
	es, _, err = takeCounted(ts[1:])
	if err != nil {
		return nil, err
	}
	for _, e := range es {
		if strings.HasPrefix(e, "E") && len(e) == 3 {
			k.sch = append(k.sch, entry{int(e[1] - '0'), "E" + e[2:]})
			continue
		}
		parts := strings.Split(e, "!")
		tid, err := strconv.Atoi(parts[0])
		if err != nil {
			return nil, err
		}
		tag := ""
		if len(parts) == 2 {
			tag = parts[1]
		}
		k.sch = append(k.sch, entry{tid, tag})
	}
	return k, nil
}

// ---- one facade call

func errStr(err error) string {
	switch {
	case errors.Is(err, types.ErrKeyNotFound):
		return "nf"
	case errors.Is(err, types.ErrInvalidType):
		return "inv"
	}
	return "err"
}

func okOr(err error) string {
	if err != nil {
		return errStr(err)
	}
	return "ok"
}

// held keeps what a read returned, to look at it again after everything else has run (aliasing probe).
type held struct {
	v    interface{}
	seen string
}

func hashSplit(key string) (string, string) {
	i := strings.LastIndexByte(key, ':')
	if i < 0 {
		return key, ""
	}
	return key[:i], key[i+1:]
}

func doOp(h *hybrid.Storage, key, op string, keep *held) string {
	parts := strings.Split(op, ":")
	switch parts[0] {
	case "get":
		v, err := h.Get(key)
		if err != nil {
			return errStr(err)
		}
		keep.v, keep.seen = v, decVal(v)
		return "v=" + decVal(v)
	case "setnx":
		v, _ := encVal(parts[1])
		ttl, _ := strconv.ParseInt(parts[2], 10, 64)
		b, err := h.SetNX(key, v, time.Duration(ttl))
		if err != nil {
			return errStr(err)
		}
		return "b=" + b01(b)
	case "hset":
		v, _ := encVal(parts[1])
		base, field := hashSplit(key)
		return okOr(h.SetHash(base, field, v))
	case "hget":
		base, field := hashSplit(key)
		v, err := h.GetHash(base, field)
		if err != nil {
			return errStr(err)
		}
		return "v=" + decVal(v)
	case "hdel":
		base, field := hashSplit(key)
		return okOr(h.DeleteHash(base, field))
	case "ex":
		b, err := h.Exists(key)
		if err != nil {
			return errStr(err)
		}
		return "b=" + b01(b)
	case "set":
		v, _ := encVal(parts[1])
		ttl, _ := strconv.ParseInt(parts[2], 10, 64)
		if l, ok := v.([]interface{}); ok {
			return okOr(h.SetList(key, l, time.Duration(ttl))) // the list entry point of Set
		}
		return okOr(h.Set(key, v, time.Duration(ttl)))
	case "del":
		return okOr(h.Delete(key))
	case "getl":
		l, err := h.GetList(key)
		if err != nil {
			return errStr(err)
		}
		if l == nil {
			l = []interface{}{}
		}
		keep.v, keep.seen = l, decVal(l)
		return "v=" + decVal(l)
	case "app":
		return okOr(h.AppendToList(key, "e"+parts[1]))
	case "rem":
		return okOr(h.RemoveFromList(key, "e"+parts[1]))
	case "incr":
		n, err := h.Incr(key)
		if err != nil {
			return errStr(err)
		}
		return fmt.Sprintf("v=i%d", n)
	case "exp":
		ttl, _ := strconv.ParseInt(parts[1], 10, 64)
		return okOr(h.SetExpiration(key, time.Duration(ttl)))
	}
	return "bad-op"
}

// ---- executor

// chooser picks the next step among the parked threads: a thread (nil = the entry addresses a thread
// that cannot move: a stutter) and a fault tag; ok=false ends the schedule (only when nothing is parked).
type chooser func(parked []*thr) (t *thr, tag string)

func replayChooser(sch []entry) chooser {
	i := 0
	return func(parked []*thr) (*thr, string) {
		if i < len(sch) {
			e := sch[i]
			i++
			if strings.HasPrefix(e.tag, "E") {
				return nil, fmt.Sprintf("E%d%s", e.tid, e.tag[1:])
			}
			for _, t := range parked {
				if t.tid == e.tid {
					return t, e.tag
				}
			}
			return nil, e.tag
		}
		return parked[0], ""
	}
}

type result struct {
	line string
	obs  string
	key  string // K: key
}

func execCase(k *kase, choose chooser, replayLen int) result {
	ctx, cancel := context.WithCancel(context.Background())
	defer cancel()
	two := k.twoNode()
	cInner := []*memory.Storage{memory.New(ctx), memory.New(ctx)} // local cache of node 0 / node 1
	sInner := memory.New(ctx)
	sc := newSchedLater()
	var shared types.CacheStorage
	if k.sh {
		shared = &gCache{name: "s", s: sc, inner: sInner}
	}
	pers := &gPersist{s: sc, m: map[string]any{}}
	var pst types.PersistentStorage
	if k.pe {
		pst = pers
	}
	// one facade per node, on the same shared cache and persistent tier
	var hs []*hybrid.Storage
	for n := 0; n < 2; n++ {
		cfg := hybrid.DefaultConfig()
		if k.custom {
			cfg.PersistentPrefixes, cfg.SharedPrefixes, cfg.SharedPersistentPrefixes = k.P, k.S, k.SP
		}
		cfg.EnablePersistent = k.pe
		hs = append(hs, hybrid.NewWithSharedCache(ctx, &gCache{name: "c", s: sc, inner: cInner[n]}, shared, pst, cfg))
		if !two {
			break
		}
	}
	h := hs[0]
	if v, ok := encVal(k.init[0]); ok {
		cInner[0].Set(k.key, v, 0)
	}
	if v, ok := encVal(k.init[1]); ok && k.sh {
		sInner.Set(k.key, v, 0)
	}
	if v, ok := encVal(k.init[2]); ok && k.pe {
		pers.m[k.key] = v
	}
	sc.arm()
	keeps := make([]*held, len(k.ops))
	for i, op := range k.ops {
		op := op
		hn := h
		if i < len(k.nodes) && k.nodes[i] == 1 {
			hn = hs[1]
		}
		keep := &held{}
		keeps[i] = keep
		sc.start(func() string { return doOp(hn, k.key, op, keep) })
	}
	// an eviction (TTL expiry, cache restart) of the key in one cache tier: an environment step
	evict := func(e entry) {
		if e.tag == "Es" {
			sInner.Delete(k.key)
		} else if e.tid >= 0 && e.tid < 2 {
			cInner[e.tid].Delete(k.key)
		}
		sc.stutter()
	}
	var realized []entry
	status := ""
	for steps := 0; ; steps++ {
		if !sc.settle() {
			status = "timeout"
			break
		}
		parked := sc.parked()
		if len(parked) == 0 {
			if len(realized) < replayLen {
				// the replayed schedule continues after everything has returned: stutters / evictions
				e := k.sch[len(realized)]
				realized = append(realized, e)
				if strings.HasPrefix(e.tag, "E") {
					evict(e)
				} else {
					sc.stutter()
				}
				continue
			}
			if sc.blockedLeft() {
				status = "deadlock"
			}
			break
		}
		if steps > 400 {
			status = "runaway"
			break
		}
		t, tag := choose(parked)
		if t == nil && len(tag) == 3 && tag[0] == 'E' {
			e := entry{int(tag[1] - '0'), "E" + tag[2:]}
			realized = append(realized, e)
			evict(e)
			continue
		}
		if t == nil {
			realized = append(realized, k.sch[len(realized)])
			sc.stutter()
			continue
		}
		if t.tier == "start" {
			sc.release(t)
			if !sc.settle() {
				status = "timeout"
				break
			}
			if !sc.isParked(t) {
				// blocked on the key lock (or returned without any tier call): in a replayed schedule
				// the entry is a stutter; during exploration nothing was scheduled
				if replayLen > 0 {
					realized = append(realized, entry{t.tid, tag})
					sc.stutter()
				}
				continue
			}
		}
		if strings.HasPrefix(tag, "?") {
			if strings.Contains(tag[1:], t.tier) {
				tag = t.tier
			} else {
				tag = ""
			}
		}
		realized = append(realized, entry{t.tid, tag})
		sc.grantTo(t, tag)
	}
	sc.gated.Store(false)
	if status != "" {
		// drain whatever is still parked so that nothing leaks into the next case
		for i := 0; i < 1000; i++ {
			ps := sc.parked()
			if len(ps) == 0 {
				break
			}
			sc.grantTo(ps[0], "")
			time.Sleep(time.Millisecond)
		}
		return result{line: k.line(realized), obs: status}
	}
	// observation
	var sb strings.Builder
	sc.mu.Lock()
	fmt.Fprintf(&sb, "th %d", len(sc.thrs))
	for _, t := range sc.thrs {
		res := "-"
		if t.done {
			res = t.res
			// look again at what a read handed out: nobody may have changed it behind the caller's back
			if t.tid < len(keeps) && keeps[t.tid].seen != "" && decVal(keeps[t.tid].v) != keeps[t.tid].seen {
				res = "aliased:" + keeps[t.tid].seen + ">" + decVal(keeps[t.tid].v)
			}
		} else if t.spawned && t.first > 0 {
			res = "ok" // a goroutine of the code under test that ran to its end
		}
		fmt.Fprintf(&sb, " %d:%d:%s", t.first, t.last, res)
	}
	trace := append([]string{}, sc.trace...)
	thrs := append([]*thr{}, sc.thrs...)
	sc.mu.Unlock()
	fin := func(m *memory.Storage, present bool) string {
		if !present {
			return "-"
		}
		v, err := m.Get(k.key)
		if err != nil {
			return "-"
		}
		return decVal(v)
	}
	pfin := "-"
	if v, ok := pers.m[k.key]; ok && k.pe {
		pfin = decVal(v)
	}
	c1fin := fin(cInner[1], true)
	fmt.Fprintf(&sb, " fin %s %s %s", fin(cInner[0], true), fin(sInner, k.sh), pfin)
	fg, err := h.Get(k.key)
	if err != nil {
		fmt.Fprintf(&sb, " fget %s", errStr(err))
	} else {
		fmt.Fprintf(&sb, " fget v=%s", decVal(fg))
	}
	if two {
		fmt.Fprintf(&sb, " c1 %s", c1fin)
		fg1, err := hs[1].Get(k.key)
		if err != nil {
			fmt.Fprintf(&sb, " fget1 %s", errStr(err))
		} else {
			fmt.Fprintf(&sb, " fget1 v=%s", decVal(fg1))
		}
	}
	fmt.Fprintf(&sb, " tr %d", len(trace))
	for _, e := range trace {
		sb.WriteString(" " + e)
	}
	for _, hh := range hs {
		hh.Close()
	}
	return result{line: k.line(realized), obs: sb.String(), key: findingKey(k, thrs, trace, realized)}
}

// findingKey tags a case as a witness of ONE recorded finding (KNOWN_FINDINGS.txt) only when the run shows
// exactly the recorded mechanism; everything else — also in the same area — stays a plain case, so that a
// new violation there is reported.
//
//	cache-set-fault-swallowed  the only injected failure is the cache Set that ends a Set/Append/Remove which returned ok
//	cache-read-fault-masked    the only injected failure is a cache Get/Exists of a read that then reported "absent"
//	cross-node-list-update     no failure/eviction; append/remove calls of two nodes overlap in time
//	cross-node-writeback       no failure/eviction; between a call's persistent-tier operation and its later
//	                           shared-cache write, a call of the OTHER node that writes the persistent tier is in progress
//	cross-node-local-cache     no failure/eviction; a call of one node wrote the persistent tier while the other
//	                           node's local cache holds / is given a copy
func findingKey(k *kase, thrs []*thr, trace []string, sch []entry) string {
	faults, evicts := 0, 0
	for _, e := range sch {
		if strings.HasPrefix(e.tag, "E") {
			evicts++
		} else if e.tag != "" {
			faults++
		}
	}
	type ev struct {
		tid            int
		tier, act, out string
	}
	var evs []ev
	for _, e := range trace {
		f := strings.Split(e, "/")
		if len(f) != 4 {
			return ""
		}
		tid, _ := strconv.Atoi(f[0])
		evs = append(evs, ev{tid, f[1], f[2], f[3]})
	}
	nodeOf := func(tid int) int {
		if tid < len(k.nodes) {
			return k.nodes[tid]
		}
		return 0
	}
	opOf := func(tid int) string {
		if tid < len(k.ops) {
			return strings.Split(k.ops[tid], ":")[0]
		}
		return ""
	}
	pwrite := func(e ev) bool {
		return e.tier == "p" && e.out == "ok" && (strings.HasPrefix(e.act, "set=") || e.act == "del")
	}
	if k.twoNode() {
		if faults > 0 || evicts > 0 {
			return ""
		}
		listOnly := true
		for _, op := range k.ops {
			if !strings.HasPrefix(op, "app") && !strings.HasPrefix(op, "rem") {
				listOnly = false
			}
		}
		if listOnly {
			for a := 0; a < len(thrs) && a < len(k.ops); a++ {
				for b := a + 1; b < len(thrs) && b < len(k.ops); b++ {
					if nodeOf(a) != nodeOf(b) && thrs[a].first > 0 && thrs[b].first > 0 &&
						thrs[a].first < thrs[b].last && thrs[b].first < thrs[a].last {
						return "cross-node-list-update"
					}
				}
			}
			// not overlapping: only the local-cache mechanism below can explain a failure
		}
		// a foreign persistent write between a call's persistent operation and its later shared-cache write
		for i, e := range evs {
			if e.tier != "p" {
				continue
			}
			for kx := i + 1; kx < len(evs); kx++ {
				if evs[kx].tid == e.tid && evs[kx].tier == "s" && strings.HasPrefix(evs[kx].act, "set=") {
					// a call of the other node that writes the persistent tier is in progress during (i, kx)
					for b := range thrs {
						if b == e.tid || nodeOf(b) == nodeOf(e.tid) {
							continue
						}
						firstIdx, lastIdx, writes := -1, -1, false
						for j, f := range evs {
							if f.tid == b {
								if firstIdx < 0 {
									firstIdx = j
								}
								lastIdx = j
								writes = writes || pwrite(f)
							}
						}
						if writes && firstIdx < kx && lastIdx > i {
							return "cross-node-writeback"
						}
					}
				}
			}
		}
		// a persistent write on one node while the other node's local cache has / gets a copy
		for _, e := range evs {
			if !pwrite(e) {
				continue
			}
			other := 1 - nodeOf(e.tid)
			if other == 0 && k.init[0] != "-" {
				return "cross-node-local-cache"
			}
			for _, f := range evs {
				if f.tier == "c" && nodeOf(f.tid) == other && (strings.HasPrefix(f.act, "set=") || strings.HasPrefix(f.out, "hit") || f.out == "b1") {
					return "cross-node-local-cache"
				}
			}
		}
		return ""
	}
	if faults != 1 || evicts > 0 {
		return ""
	}
	lastOf := map[int]int{}
	for i, e := range evs {
		lastOf[e.tid] = i
	}
	for i, e := range evs {
		if e.out != "fail" || e.tier == "p" || e.tid >= len(k.ops) || e.tid >= len(thrs) {
			continue
		}
		op := opOf(e.tid)
		res := thrs[e.tid].res
		if strings.HasPrefix(e.act, "set=") && lastOf[e.tid] == i && res == "ok" && (op == "set" || op == "app" || op == "rem") {
			return "cache-set-fault-swallowed"
		}
		if (e.act == "get" || e.act == "ex") && ((op == "get" && res == "nf") || (op == "getl" && res == "nf") ||
			(op == "ex" && res == "b=0") || (op == "rem" && res == "nf") || (op == "app" && res == "ok")) {
			return "cache-read-fault-masked"
		}
	}
	return ""
}

func newSchedLater() *sched { return &sched{byGID: map[int64]*thr{}, baseline: map[int64]bool{}} }

// arm takes the goroutine baseline (everything that exists now is not part of the case) and closes the gates.
func (s *sched) arm() {
	s.self = curGID()
	for id := range goStates() {
		s.baseline[id] = true
	}
	s.gated.Store(true)
}

var variantFlag string

func emit(out *vc.Out, r result, tag string) {
	line := r.line
	if r.key != "" {
		line = "K:" + r.key + " " + line
	}
	out.Case(line, r.obs, r.line)
	out.Count(tag)
}

func runLine(out *vc.Out, line string) {
	if strings.HasPrefix(line, "K:") {
		if i := strings.IndexByte(line, ' '); i > 0 {
			line = line[i+1:]
		}
	}
	k, err := parseCase(line)
	if err != nil {
		out.Case(line, "bad-case "+err.Error(), "")
		return
	}
	r := execCase(k, replayChooser(k.sch), len(k.sch))
	emit(out, r, "corpus")
}

func main() {
	tier := flag.String("tier", "quick", "")
	seed := flag.Uint64("seed", 1, "")
	stats := flag.String("stats", "", "")
	noGen := flag.Bool("nogen", false, "")
	flag.StringVar(&variantFlag, "variant", "", "asfound: compare with the as-found model variant (development)")
	flag.BoolVar(&debugStates, "debug", false, "")
	flag.Parse()
	out := vc.NewOut()
	for _, f := range flag.Args() {
		data, err := os.ReadFile(f)
		if err != nil {
			fmt.Fprintln(os.Stderr, err)
			os.Exit(3)
		}
		for _, line := range strings.Split(string(data), "\n") {
			line = strings.TrimSpace(line)
			if line == "" || strings.HasPrefix(line, "#") {
				continue
			}
			if i := strings.Index(line, " ## "); i >= 0 {
				line = line[:i]
			}
			runLine(out, line)
		}
	}
	if !*noGen {
		gen(out, vc.NewRand(*seed), *tier == "thorough")
	}
	out.Finish(*stats, nil)
}
