//go:build verif

package main

import (
	"bytes"
	"encoding/binary"
	"errors"
	"fmt"
	"io"
	"runtime"
	"strconv"
	"strings"
	"time"

	"tunnox-core/internal/protocol/session/crossnode"
	vc "tunnox-core/internal/verifharness/common"
)

// kindOf classifies an error of ReadFrameFromReader the way the model's FErr does.
func kindOf(err error) string {
	if err == io.EOF {
		return "eof"
	}
	s := err.Error()
	tail := "other"
	switch {
	case errors.Is(err, io.ErrUnexpectedEOF) || errors.Is(err, io.EOF):
		tail = "eof"
	case errors.Is(err, vc.ErrInjected):
		tail = "err"
	default:
		var to interface{ Timeout() bool }
		if errors.As(err, &to) && to.Timeout() {
			tail = "err"
		}
	}
	switch {
	case strings.Contains(s, "frame too large"):
		return "toolarge"
	case strings.Contains(s, "failed to read frame header"):
		return "header-" + tail
	case strings.Contains(s, "failed to read frame data"):
		return "data-" + tail
	}
	return "other:" + strings.ReplaceAll(s, " ", "_")
}

type decObs struct {
	frames []string
	n      int
	stop   string
	left   int
	alloc  uint64
}

func (o decObs) String() string {
	s := "fr " + strconv.Itoa(o.n)
	if o.n > 0 {
		s += " " + strings.Join(o.frames, " ")
	}
	return fmt.Sprintf("%s stop %s left %d alloc %d", s, o.stop, o.left, o.alloc)
}

// decodeAll calls the real ReadFrameFromReader until it fails, under recover and a watchdog; the
// allocation of every single call is measured (TotalAlloc delta) and the maximum reported.
func decodeAll(data []byte, sizes []int, tailErr bool) (obs decObs, special string) {
	done := make(chan struct{})
	go func() {
		defer close(done)
		defer func() {
			if r := recover(); r != nil {
				special = "panic " + strings.ReplaceAll(fmt.Sprint(r), " ", "_")
			}
		}()
		cr := vc.NewChunkReader(data, sizes, tailErr)
		var m0, m1 runtime.MemStats
		for {
			runtime.ReadMemStats(&m0)
			id, ty, d, err := crossnode.ReadFrameFromReader(cr)
			runtime.ReadMemStats(&m1)
			if a := m1.TotalAlloc - m0.TotalAlloc; a > obs.alloc {
				obs.alloc = a
			}
			if err != nil {
				obs.stop = kindOf(err)
				obs.left = cr.Remaining()
				return
			}
			obs.frames = append(obs.frames, vc.Hex(id[:]), strconv.Itoa(int(ty)), vc.Hex(d))
			obs.n++
		}
	}()
	select {
	case <-done:
	case <-time.After(20 * time.Second):
		special = "timeout"
	}
	return
}

// execDec: dec <tail> st <hex> ch <k> sizes
func execDec(toks []string) string {
	tailErr := toks[1] == "err"
	if toks[2] != "st" {
		panic("st expected")
	}
	data := vc.UnHex(toks[3])
	sizes, _ := parseSizes("ch", toks, 4)
	o, special := decodeAll(data, sizes, tailErr)
	if special != "" {
		return special
	}
	return o.String()
}

type gframe struct {
	id   []byte
	ty   int
	n    int
	seed int
}

// execTm: tm <tidhex> <nodehex> -- the TargetReady payload through the real encoder and decoder
func execTm(toks []string) string {
	t, n, err := crossnode.DecodeTargetReadyMessage(crossnode.EncodeTargetReadyMessage(string(vc.UnHex(toks[1])), string(vc.UnHex(toks[2]))))
	if err != nil {
		return "invalid"
	}
	return "ok " + vc.Hex([]byte(t)) + " " + vc.Hex([]byte(n))
}

func genTm(r *vc.Rand, thorough bool) []caseLine {
	var out []caseLine
	ids := [][]byte{[]byte("tcp-tunnel-1759012345678901234-8080"), []byte("udp-tunnel-1759012345678901234-53"), {}, []byte("a"),
		[]byte("0123456789abcdef0123456789abcdef"), []byte("a|b"), []byte("|"), []byte("x\x00y"), []byte("世界-tunnel")}
	nodes := [][]byte{[]byte("node-1"), {}, []byte("n|1"), []byte("||"), []byte("node-0001-aaaaaaaaaaaaaaaaaaaaaaaaaaaaaaaa")}
	n := 40
	if thorough {
		n = 400
	}
	for _, t := range ids {
		for _, nd := range nodes {
			out = append(out, caseLine{text: "tm " + vc.Hex(t) + " " + vc.Hex(nd), dkey: "tm" + string(t) + "/" + string(nd), count: []string{"tm"}})
		}
	}
	for i := 0; i < n; i++ {
		t, nd := r.Bytes(r.Intn(40)), r.Bytes(r.Intn(20))
		out = append(out, caseLine{text: "tm " + vc.Hex(t) + " " + vc.Hex(nd), dkey: fmt.Sprintf("tm%x/%x", t, nd), count: []string{"tm"}})
	}
	return out
}

// execRt: rt <tail> fr <n> (<idhex> <ty> <len> <seed>)*n ch <k> sizes
func execRt(toks []string) string {
	tailErr := toks[1] == "err"
	if toks[2] != "fr" {
		panic("fr expected")
	}
	n := atoi(toks[3])
	i := 4
	var buf bytes.Buffer
	acc := "acc " + strconv.Itoa(n)
	for j := 0; j < n; j++ {
		idb := vc.UnHex(toks[i])
		if len(idb) != 16 {
			panic("rt: id must be 16 bytes")
		}
		var id [16]byte
		copy(id[:], idb)
		ty := atoi(toks[i+1])
		data := genBytes(atoi(toks[i+2]), atoi(toks[i+3]))
		i += 4
		if err := crossnode.WriteFrameToWriter(&buf, id, byte(ty), data); err != nil {
			acc += " 0"
		} else {
			acc += " 1"
		}
	}
	sizes, _ := parseSizes("ch", toks, i)
	o, special := decodeAll(buf.Bytes(), sizes, tailErr)
	if special != "" {
		return special
	}
	return acc + " " + o.String()
}

// ---- generators

const hdr = 21
const maxFrame = 64 * 1024

func encFrame(id []byte, ty byte, length uint32, data []byte) []byte {
	b := make([]byte, 0, hdr+len(data))
	var idb [16]byte
	copy(idb[:], id)
	b = append(b, idb[:]...)
	b = append(b, ty)
	var l [4]byte
	binary.BigEndian.PutUint32(l[:], length)
	b = append(b, l[:]...)
	return append(b, data...)
}

func randSizes(r *vc.Rand, total int, maxChunks int) []int {
	var out []int
	for total > 0 && len(out) < maxChunks {
		var n int
		switch r.Intn(4) {
		case 0:
			n = 1
		case 1:
			n = 1 + r.Intn(24)
		case 2:
			n = 1 + r.Intn(3000)
		default:
			n = 1 + r.Intn(total)
		}
		if n > total {
			n = total
		}
		out = append(out, n)
		total -= n
	}
	return out
}

func ones(n int) []int {
	s := make([]int, n)
	for i := range s {
		s[i] = 1
	}
	return s
}

func tailStr(e bool) string {
	if e {
		return "err"
	}
	return "eof"
}

func decCase(stream []byte, sizes []int, tailErr bool, kind string) caseLine {
	text := fmt.Sprintf("dec %s st %s %s", tailStr(tailErr), vc.Hex(stream), sizesStr("ch", sizes))
	dk := ""
	if len(stream) > 1 {
		pre := stream
		if len(pre) > 48 {
			pre = pre[:48]
		}
		dk = fmt.Sprintf("%x/%d/%v/%v", pre, len(stream), tailErr, sizes)
		if len(dk) > 300 {
			dk = dk[:300]
		}
	}
	return caseLine{text: text, dkey: dk, count: []string{"dec:" + kind}}
}

var someIDs = [][]byte{
	[]byte("tcp-tunnel-17590"), []byte("tcp-tunnel-17591"), make([]byte, 16), []byte("abc"),
	{0xff, 0xff, 0xff, 0xff, 0xff, 0xff, 0xff, 0xff, 0xff, 0xff, 0xff, 0xff, 0xff, 0xff, 0xff, 0xff},
}

var someTypes = []byte{1, 2, 3, 4, 5, 6, 7, 8, 9, 0x10, 0x11, 0, 0x7f, 0xff}

func validStream(r *vc.Rand, nframes int, pool []int) []byte {
	var s []byte
	for i := 0; i < nframes; i++ {
		n := vc.Pick(r, pool)
		s = append(s, encFrame(vc.Pick(r, someIDs), vc.Pick(r, someTypes), uint32(n), genBytes(n, r.Intn(256)))...)
	}
	return s
}

func genDec(r *vc.Rand, thorough bool) []caseLine {
	var out []caseLine
	small := []int{0, 0, 1, 2, 3, 5, 17}
	mid := []int{0, 1, 20, 21, 22, 255, 256, 257, 1000, 4096}
	big := []int{32768, 65535, 65536}
	// (1) every truncation point and every single cut of short valid streams, 1-byte reads
	for k := 0; k < 6; k++ {
		s := validStream(r, 2, small)
		for cut := 0; cut <= len(s); cut++ {
			out = append(out, decCase(s[:cut], nil, cut%2 == 1, "truncate"))
		}
		for cut := 1; cut < len(s); cut++ {
			out = append(out, decCase(s, []int{cut, len(s) - cut}, false, "single-cut"))
		}
		out = append(out, decCase(s, ones(len(s)), r.Bool(), "one-byte"))
	}
	// (2) adversarial length fields around the limit and around 2^32, with and without enough bytes
	lens := []uint32{0, 1, maxFrame - 1, maxFrame, maxFrame + 1, maxFrame + 2, 2 * maxFrame, 0x00ffffff, 0x01000000,
		0x7fffffff, 0x80000000, 0xfffffffe, 0xffffffff, 0x00010001, 0x01000100}
	for _, l := range lens {
		for _, avail := range []int{0, 1, 100, maxFrame, maxFrame + 1, maxFrame + 40} {
			if avail > 200 && l < maxFrame-1 {
				continue
			}
			if !thorough && avail > 200 && l > maxFrame+1 && l != 0xffffffff { // long streams: boundary lengths only in quick
				continue
			}
			s := encFrame(vc.Pick(r, someIDs), vc.Pick(r, someTypes), l, genBytes(avail, r.Intn(256)))
			out = append(out, decCase(s, randSizes(r, len(s), 12), r.Intn(3) == 0, "length-field"))
		}
	}
	// (2b) uint32 wrap windows: the top values of the length field (any "length + header" arithmetic wraps
	//      there) and the values around 2^31 and 2^16 multiples
	for _, base := range []uint32{0xffffffff, 0x80000000 + 40, 0x00020000 + 40, 0x01000000 + 40} {
		for d := uint32(0); d < 80; d++ {
			s := encFrame(vc.Pick(r, someIDs), vc.Pick(r, someTypes), base-d, genBytes(int(d%7), 3))
			out = append(out, decCase(s, randSizes(r, len(s), 4), d%5 == 0, "length-wrap"))
		}
	}
	// (3) every type byte, every header byte position perturbed
	for ty := 0; ty < 256; ty++ {
		s := encFrame(vc.Pick(r, someIDs), byte(ty), 3, []byte{1, 2, 3})
		s = append(s, encFrame(vc.Pick(r, someIDs), 1, 0, nil)...)
		out = append(out, decCase(s, randSizes(r, len(s), 8), false, "type-byte"))
	}
	base := validStream(r, 3, small)
	for pos := 0; pos < len(base) && pos < 70; pos++ {
		for _, v := range []byte{0x00, 0x01, 0x80, 0xff} {
			s := append([]byte{}, base...)
			s[pos] = v
			out = append(out, decCase(s, randSizes(r, len(s), 6), r.Intn(4) == 0, "byte-flip"))
		}
	}
	// (4) random: valid streams with structure-aware mutations, and plain random bytes
	rounds := 1500
	if thorough {
		rounds = 12000
	}
	for i := 0; i < rounds; i++ {
		pool := mid
		if r.Intn(15) == 0 {
			pool = big
		}
		s := validStream(r, 1+r.Intn(5), pool)
		kind := "valid"
		switch r.Intn(8) {
		case 0: // truncate
			s = s[:r.Intn(len(s)+1)]
			kind = "mut-truncate"
		case 1: // overwrite some bytes
			for k := 0; k < 1+r.Intn(4) && len(s) > 0; k++ {
				s[r.Intn(len(s))] = byte(r.Uint64())
			}
			kind = "mut-bytes"
		case 2: // corrupt a length field
			if len(s) >= hdr {
				binary.BigEndian.PutUint32(s[17:21], uint32(r.Uint64())>>uint(r.Intn(32)))
			}
			kind = "mut-length"
		case 3: // append garbage
			s = append(s, r.Bytes(r.Intn(60))...)
			kind = "mut-append"
		case 4:
			s = r.Bytes(r.Intn(120))
			kind = "random"
		}
		var sizes []int
		switch r.Intn(4) {
		case 0:
			if len(s) <= 6000 {
				sizes = ones(len(s))
				break
			}
			fallthrough
		default:
			sizes = randSizes(r, len(s), 400)
		}
		out = append(out, decCase(s, sizes, r.Intn(4) == 0, kind))
	}
	return out
}

// sweepSizes: payload sizes for the dense writer sweeps: every size 0..2048 (quick) / 0..4096 (thorough),
// +-32 around 4K/8K/16K/32K and below/at/above MaxFrameSize (sizes above the limit only if `over`).
func sweepSizes(thorough, over bool) []int {
	top := 2048
	if thorough {
		top = 4096
	}
	var out []int
	for n := 0; n <= top; n++ {
		out = append(out, n)
	}
	for _, p := range []int{4096, 8192, 16384, 32768, maxFrame} {
		for n := p - 32; n <= p+32; n++ {
			if n > top && (n <= maxFrame || over) {
				out = append(out, n)
			}
		}
	}
	return out
}

// lastChunkSizes: sizes of the LAST chunk of a multi-frame FrameStream.Write.
func lastChunkSizes(thorough bool) []int {
	seen := map[int]bool{}
	var out []int
	add := func(lo, hi, step int) {
		for n := lo; n <= hi; n += step {
			if n >= 0 && n < maxFrame && !seen[n] {
				seen[n] = true
				out = append(out, n)
			}
		}
	}
	if thorough {
		add(0, 2048, 1)
		for p := 4096; p <= 32768; p *= 2 {
			add(p-32, p+32, 1)
		}
		add(maxFrame-32, maxFrame-1, 1)
		return out
	}
	add(0, 40, 1)
	add(1400, 1500, 1) // MTU / MSS sized
	for p := 64; p <= 32768; p *= 2 {
		add(p-2, p+2, 1)
	}
	add(maxFrame-32, maxFrame-1, 4)
	return out
}

func rtCase(fs []gframe, sizes []int, tailErr bool, kind string) caseLine {
	var sb strings.Builder
	fmt.Fprintf(&sb, "rt %s fr %d", tailStr(tailErr), len(fs))
	dk := ""
	for _, f := range fs {
		var id [16]byte
		copy(id[:], f.id)
		fmt.Fprintf(&sb, " %s %d %d %d", vc.Hex(id[:]), f.ty, f.n, f.seed)
		dk += fmt.Sprintf("%x/%d/%d;", f.id, f.ty, f.n)
	}
	sb.WriteString(" " + sizesStr("ch", sizes))
	if len(sizes) < 2 {
		dk = ""
	} else {
		dk += fmt.Sprint(sizes)
		if len(dk) > 300 {
			dk = dk[:300]
		}
	}
	return caseLine{text: sb.String(), dkey: dk, count: []string{"rt:" + kind}}
}

func wireLenOf(fs []gframe) int {
	t := 0
	for _, f := range fs {
		if f.n <= maxFrame {
			t += hdr + f.n
		}
	}
	return t
}

func genRt(r *vc.Rand, thorough bool) []caseLine {
	var out []caseLine
	// (1) every frame type x boundary payload sizes, refused sizes included
	for ty := 0; ty < 256; ty++ {
		n := vc.Pick(r, []int{0, 1, 2, 20, 21, 255, 256, 1024})
		fs := []gframe{{vc.Pick(r, someIDs), ty, n, r.Intn(256)}, {vc.Pick(r, someIDs), 1, 2, 5}}
		out = append(out, rtCase(fs, randSizes(r, wireLenOf(fs), 10), false, "all-types"))
	}
	for _, n := range []int{maxFrame - 1, maxFrame, maxFrame + 1, maxFrame + 2, 2 * maxFrame, 3*maxFrame + 7} {
		fs := []gframe{{vc.Pick(r, someIDs), 1, 3, 1}, {vc.Pick(r, someIDs), 1, n, r.Intn(256)}, {vc.Pick(r, someIDs), 9, 0, 0}}
		out = append(out, rtCase(fs, randSizes(r, wireLenOf(fs), 20), false, "limit"))
		out = append(out, rtCase(fs, nil, true, "limit"))
	}
	// (2) every single cut of short sequences, one-byte reads
	for k := 0; k < 8; k++ {
		fs := []gframe{{r.Bytes(16), vc.Pick(r, []int{1, 3, 9, 2}), r.Intn(6), r.Intn(256)},
			{r.Bytes(16), int(vc.Pick(r, someTypes)), r.Intn(4), r.Intn(256)}}
		n := wireLenOf(fs)
		for cut := 1; cut < n; cut++ {
			out = append(out, rtCase(fs, []int{cut, n - cut}, false, "single-cut"))
		}
		out = append(out, rtCase(fs, ones(n), r.Bool(), "one-byte"))
	}
	// (2b) dense payload-size sweep through WriteFrameToWriter (refused sizes above the limit included)
	sw := sweepSizes(thorough, true)
	for i := 0; i < len(sw); i += 32 {
		var fs []gframe
		for _, n := range sw[i:min(i+32, len(sw))] {
			fs = append(fs, gframe{vc.Pick(r, someIDs), vc.Pick(r, []int{1, 1, 3, 9, 2, 0x10}), n, r.Intn(256)})
		}
		out = append(out, rtCase(fs, randSizes(r, wireLenOf(fs), 40), r.Intn(6) == 0, "size-sweep"))
	}
	// (3) random sequences and partitions
	rounds := 800
	if thorough {
		rounds = 6000
	}
	pool := []int{0, 0, 1, 7, 21, 100, 1023, 1024, 4097}
	big := []int{65535, 65536, 65537, 40000}
	for i := 0; i < rounds; i++ {
		var fs []gframe
		for j := 0; j < 1+r.Intn(6); j++ {
			p := pool
			if r.Intn(20) == 0 {
				p = big
			}
			id := vc.Pick(r, someIDs)
			if r.Intn(3) == 0 {
				id = r.Bytes(16)
			}
			fs = append(fs, gframe{id, int(vc.Pick(r, someTypes)), vc.Pick(r, p), r.Intn(256)})
		}
		n := wireLenOf(fs)
		if r.Intn(5) == 0 && n <= 6000 {
			out = append(out, rtCase(fs, ones(n), r.Bool(), "one-byte"))
		} else {
			out = append(out, rtCase(fs, randSizes(r, n, 400), r.Intn(4) == 0, "random"))
		}
	}
	return out
}
