//go:build verif

package main

import (
	"bytes"
	"context"
	"fmt"
	"io"
	"net"
	"strconv"
	"strings"
	"sync"
	"time"

	"tunnox-core/internal/protocol/session/crossnode"
	vc "tunnox-core/internal/verifharness/common"
)

type stEvent struct {
	kind string // w | cw | cl | f
	tid  []byte
	ty   int
	n    int
	seed int
}

// tkEntry scripts the tracker double: the string IsTunnelClosed is asked about -> closed?
type tkEntry struct {
	key    []byte
	closed bool
}

type stCase struct {
	tailErr bool
	rw      bool
	hasTk   bool      // case carries a "tk … pre …" segment
	tkNil   bool      // NewFrameStream (nil tracker); otherwise NewFrameStreamWithTracker(double)
	tk      []tkEntry // answers of the double; unlisted = unknown (not closed)
	pre     int       // the receiving stream is created only after the first `pre` events are on the wire
	hasRv   bool      // reverse phase: B's events, A's read sizes
	rv      []stEvent
	rr      []int
	hasCut  bool // the connection is lost after cutAt bytes of the wire
	cutAt   int
	me      []byte
	evs     []stEvent
	ch      []int
	rd      []int
}

func (c stCase) String() string {
	var sb strings.Builder
	rw := 0
	if c.rw {
		rw = 1
	}
	fmt.Fprintf(&sb, "st %s rw %d", tailStr(c.tailErr), rw)
	if c.hasTk {
		if c.tkNil {
			sb.WriteString(" tk nil")
		} else {
			fmt.Fprintf(&sb, " tk %d", len(c.tk))
			for _, e := range c.tk {
				st := "a"
				if e.closed {
					st = "c"
				}
				fmt.Fprintf(&sb, " %s %s", vc.Hex(e.key), st)
			}
		}
		fmt.Fprintf(&sb, " pre %d", c.pre)
	}
	fmt.Fprintf(&sb, " me %s ev %d", vc.Hex(c.me), len(c.evs))
	evStr(&sb, c.evs)
	sb.WriteString(" " + sizesStr("ch", c.ch))
	sb.WriteString(" " + sizesStr("rd", c.rd))
	if c.hasCut && !c.hasRv {
		fmt.Fprintf(&sb, " cut %d", c.cutAt)
	}
	if c.hasRv {
		fmt.Fprintf(&sb, " rv %d", len(c.rv))
		evStr(&sb, c.rv)
		sb.WriteString(" " + sizesStr("rr", c.rr))
	}
	return sb.String()
}

func evStr(sb *strings.Builder, evs []stEvent) {
	for _, e := range evs {
		switch e.kind {
		case "w":
			fmt.Fprintf(sb, " w %d %d", e.n, e.seed)
		case "cw", "cl":
			sb.WriteString(" " + e.kind)
		case "f":
			fmt.Fprintf(sb, " f %s %d %d %d", vc.Hex(e.tid), e.ty, e.n, e.seed)
		}
	}
}

func parseEvs(toks []string, i, n int) ([]stEvent, int) {
	var evs []stEvent
	for j := 0; j < n; j++ {
		switch toks[i] {
		case "w":
			evs = append(evs, stEvent{kind: "w", n: atoi(toks[i+1]), seed: atoi(toks[i+2])})
			i += 3
		case "cw", "cl":
			evs = append(evs, stEvent{kind: toks[i]})
			i++
		case "f":
			evs = append(evs, stEvent{kind: "f", tid: vc.UnHex(toks[i+1]), ty: atoi(toks[i+2]), n: atoi(toks[i+3]), seed: atoi(toks[i+4])})
			i += 5
		default:
			panic("st: unknown event " + toks[i])
		}
	}
	return evs, i
}

func parseSt(toks []string) stCase {
	// st <tail> rw <b> me <hex> ev <n> … ch <k> … rd <m> …
	var c stCase
	c.tailErr = toks[1] == "err"
	if toks[2] != "rw" {
		panic("st: malformed case")
	}
	c.rw = toks[3] == "1"
	i := 4
	c.tkNil = true
	if toks[i] == "tk" {
		c.hasTk = true
		if toks[i+1] == "nil" {
			i += 2
		} else {
			c.tkNil = false
			k := atoi(toks[i+1])
			i += 2
			for j := 0; j < k; j++ {
				c.tk = append(c.tk, tkEntry{vc.UnHex(toks[i]), toks[i+1] == "c"})
				i += 2
			}
		}
		if toks[i] != "pre" {
			panic("st: pre expected")
		}
		c.pre = atoi(toks[i+1])
		i += 2
	}
	if toks[i] != "me" || toks[i+2] != "ev" {
		panic("st: malformed case")
	}
	c.me = vc.UnHex(toks[i+1])
	n := atoi(toks[i+3])
	i += 4
	c.evs, i = parseEvs(toks, i, n)
	c.ch, i = parseSizes("ch", toks, i)
	c.rd, i = parseSizes("rd", toks, i)
	if i < len(toks) && toks[i] == "cut" {
		c.hasCut, c.cutAt = true, atoi(toks[i+1])
	}
	if i < len(toks) && toks[i] == "rv" {
		c.hasRv = true
		c.rv, i = parseEvs(toks, i+2, atoi(toks[i+1]))
		c.rr, _ = parseSizes("rr", toks, i)
		if c.tailErr || len(c.ch) > 0 {
			panic("st: a reverse phase needs a direct connection (tail eof, no ch)")
		}
	}
	return c
}

// refStream: payloads of all w events and of all injected data frames with our id string, in order.
func refStream(c stCase) []byte {
	var x []byte
	for _, e := range c.evs {
		if e.kind == "w" || (e.kind == "f" && bytes.Equal(e.tid, c.me) && e.ty == 1) {
			x = append(x, genBytes(e.n, e.seed)...)
		}
	}
	return x
}

// trackerDouble is the scripted TunnelStateTracker.
type trackerDouble struct{ closed map[string]bool }

func (t *trackerDouble) IsTunnelClosed(id string) bool { return t.closed[id] }

// ---- loopback TCP pairs

var (
	lnOnce sync.Once
	ln     *net.TCPListener
	lnMu   sync.Mutex
)

// tcpPair returns the two ends of a fresh loopback TCP connection.
func tcpPair() (*net.TCPConn, *net.TCPConn) {
	lnOnce.Do(func() {
		l, err := net.ListenTCP("tcp4", &net.TCPAddr{IP: net.IPv4(127, 0, 0, 1)})
		if err != nil {
			panic(err)
		}
		ln = l
	})
	lnMu.Lock()
	defer lnMu.Unlock()
	type res struct {
		c   *net.TCPConn
		err error
	}
	ch := make(chan res, 1)
	go func() {
		c, err := ln.AcceptTCP()
		ch <- res{c, err}
	}()
	a, err := net.DialTCP("tcp4", nil, ln.Addr().(*net.TCPAddr))
	if err != nil {
		panic(err)
	}
	r := <-ch
	if r.err != nil {
		panic(r.err)
	}
	return a, r.c
}

const errTailWait = 150 * time.Millisecond

// proxy forwards from -> to in the given chunk sizes (best effort: a short pause after every
// chunk lets the reader drain it), the remainder as it comes.  At EOF of `from` the close is
// propagated unless the case wants the connection to stay open (tail = err).
func proxy(from, to *net.TCPConn, sizes []int, propagateClose bool, limit int, done chan struct{}) {
	defer close(done)
	if limit >= 0 {
		// the connection is lost after `limit` bytes: forward exactly those (in the given chunk sizes),
		// end or stall the outbound side, keep draining the sender
		left := limit
		buf := make([]byte, 32*1024)
		idx := 0
		for left > 0 {
			n := left
			if idx < len(sizes) && sizes[idx] > 0 && sizes[idx] < n {
				n = sizes[idx]
			}
			idx++
			if n > len(buf) {
				n = len(buf)
			}
			m, err := io.ReadFull(from, buf[:n])
			if m > 0 {
				if _, werr := to.Write(buf[:m]); werr != nil {
					break
				}
				left -= m
				time.Sleep(40 * time.Microsecond)
			}
			if err != nil {
				break
			}
		}
		if propagateClose {
			to.CloseWrite()
		}
		go io.Copy(io.Discard, from)
		return
	}
	for _, s := range sizes {
		if s <= 0 {
			continue
		}
		buf := make([]byte, s)
		n, err := io.ReadFull(from, buf)
		if n > 0 {
			if _, werr := to.Write(buf[:n]); werr != nil {
				return
			}
			time.Sleep(40 * time.Microsecond)
		}
		if err != nil {
			if propagateClose {
				to.CloseWrite()
			}
			return
		}
	}
	io.Copy(to, from)
	if propagateClose {
		to.CloseWrite()
	}
}

// stSetup: the two ends of the connection a scenario runs on.
type stSetup struct {
	wT, rT   *net.TCPConn
	rc       *crossnode.Conn // receiving Conn if the setup already made one (pool), else nil
	useProxy bool
	fwdDone  chan struct{}
	prefix   string // prepended to the observation
}

// plainSetup: a fresh loopback pair, optionally through the re-chunking proxy.
func plainSetup(c *stCase, addCloser func(io.Closer)) stSetup {
	wT, pA := tcpPair()
	addCloser(wT)
	addCloser(pA)
	su := stSetup{wT: wT, rT: pA, fwdDone: make(chan struct{})}
	su.useProxy = c.tailErr || len(c.ch) > 0 || c.hasCut
	if su.useProxy {
		pB, r2 := tcpPair()
		addCloser(pB)
		addCloser(r2)
		su.rT = r2
		limit := -1
		if c.hasCut {
			limit = c.cutAt
		}
		go proxy(pA, pB, c.ch, !c.tailErr, limit, su.fwdDone)
	}
	return su
}

// execSt runs one stream scenario on real FrameStreams over loopback TCP.
func execSt(toks []string) string { return execStWith(toks, plainSetup) }

func execStWith(toks []string, setup func(*stCase, func(io.Closer)) stSetup) string {
	c := parseSt(toks)
	type result struct {
		obs string
	}
	resCh := make(chan string, 1)
	var closers []io.Closer
	var cmu sync.Mutex
	addCloser := func(x io.Closer) { cmu.Lock(); closers = append(closers, x); cmu.Unlock() }
	defer func() {
		cmu.Lock()
		for _, x := range closers {
			x.Close()
		}
		cmu.Unlock()
	}()
	go func() {
		defer func() {
			if r := recover(); r != nil {
				resCh <- "panic " + strings.ReplaceAll(fmt.Sprint(r), " ", "_")
			}
		}()
		su := setup(&c, addCloser)
		wT, rT, useProxy, fwdDone := su.wT, su.rT, su.useProxy, su.fwdDone
		ctx := context.Background()
		wc := crossnode.NewConn(ctx, "verif-w", wT, nil)
		rc := su.rc
		if rc == nil {
			rc = crossnode.NewConn(ctx, "verif-r", rT, nil)
		}
		id, _ := crossnode.TunnelIDFromString(string(c.me))
		W := crossnode.NewFrameStream(wc, id)
		preDone := make(chan struct{})
		mkReader := func() *crossnode.FrameStream {
			if c.pre > 0 { // residual frames are already queued when the stream is created
				select {
				case <-preDone:
					time.Sleep(300 * time.Microsecond)
				case <-time.After(20 * time.Millisecond): // sender blocked on full socket buffers: bytes are queued
				}
			}
			if c.tkNil {
				return crossnode.NewFrameStream(rc, id)
			}
			td := &trackerDouble{closed: map[string]bool{}}
			for _, e := range c.tk {
				td.closed[string(e.key)] = e.closed
			}
			return crossnode.NewFrameStreamWithTracker(rc, id, td)
		}

		// sending end
		var wres []string
		wpanic := make(chan string, 1)
		wdone := make(chan struct{})
		go func() {
			defer close(wdone)
			defer func() {
				if r := recover(); r != nil {
					wpanic <- "panic " + strings.ReplaceAll(fmt.Sprint(r), " ", "_")
				}
			}()
			if c.pre <= 0 || c.pre > len(c.evs) {
				close(preDone)
			}
			for ei, e := range c.evs {
				if c.pre > 0 && ei == c.pre {
					close(preDone)
				}
				switch e.kind {
				case "w":
					payload := genBytes(e.n, e.seed)
					n, err := W.Write(payload)
					for i := range payload { // the caller reuses its buffer as soon as Write returns
						payload[i] ^= 0xA5
					}
					switch {
					case err == nil:
						wres = append(wres, "ok:"+strconv.Itoa(n))
					case err == io.ErrClosedPipe && n == 0:
						wres = append(wres, "closed")
					default:
						wres = append(wres, "err:"+strconv.Itoa(n))
					}
				case "cw":
					W.CloseWrite()
				case "cl":
					W.Close()
				case "f":
					fid, _ := crossnode.TunnelIDFromString(string(e.tid))
					crossnode.WriteFrame(wT, fid, byte(e.ty), genBytes(e.n, e.seed))
				}
			}
			// end of the connection's outbound direction (the proxy decides whether the peer sees it)
			if useProxy || !c.tailErr {
				wT.CloseWrite()
			}
			if !useProxy {
				close(fwdDone)
			}
		}()

		// receiving end
		R := mkReader()
		if c.rw {
			R.CloseWrite()
		}
		if c.tailErr {
			go func() {
				<-fwdDone
				rT.SetReadDeadline(time.Now().Add(errTailWait))
			}()
		}
		// read results are written relative to the case's reference stream (Driver/C10.lean refStream):
		// "x:<n>" = the next n bytes of the reference at the cursor, anything else literally
		// Every buffer handed to Read is HELD until all reads are done and only then looked at (a stream
		// that kept a reference to a caller's buffer, or handed out memory it reuses, would show here).
		ref := refStream(c)
		var rres []string
		var held [][]byte
		for _, p := range c.rd {
			buf := make([]byte, p)
			if c.tailErr {
				select {
				case <-fwdDone:
					rT.SetReadDeadline(time.Now().Add(errTailWait))
				default:
				}
			}
			n, err := R.Read(buf)
			if err == nil {
				rres = append(rres, "")
				held = append(held, buf[:n:n])
				continue
			}
			held = append(held, nil)
			if n != 0 {
				rres = append(rres, fmt.Sprintf("data-and-error:%d", n))
				break
			}
			if err == io.EOF {
				rres = append(rres, "eof")
				continue
			}
			rres = append(rres, "err:"+kindOf(err))
			break
		}
		cur := 0
		for i, b := range held {
			if rres[i] != "" {
				continue
			}
			n := len(b)
			if n > 0 && cur+n <= len(ref) && bytes.Equal(ref[cur:cur+n], b) {
				rres[i] = "x:" + strconv.Itoa(n)
			} else {
				rres[i] = "d:" + vc.Hex(b)
			}
			cur += n
		}
		// unblock a sender stuck on a full socket buffer (reader stopped early), then collect
		select {
		case <-wdone:
		case <-time.After(50 * time.Millisecond):
			go io.Copy(io.Discard, rT)
			<-wdone
		}
		select {
		case p := <-wpanic:
			resCh <- p
			return
		default:
		}
		b2i := func(b bool) int {
			if b {
				return 1
			}
			return 0
		}
		var sb strings.Builder
		fmt.Fprintf(&sb, "wr %d", len(wres))
		for _, w := range wres {
			sb.WriteString(" " + w)
		}
		fmt.Fprintf(&sb, " rd %d", len(rres))
		for _, r := range rres {
			sb.WriteString(" " + r)
		}
		fmt.Fprintf(&sb, " rb %d wb %d", b2i(R.IsBroken()), b2i(W.IsBroken()))
		if c.hasRv {
			// reverse phase on the SAME two stream objects: B (=R) writes, A (=W) reads
			var bw []string
			bdone := make(chan struct{})
			go func() {
				defer close(bdone)
				defer func() { recover() }()
				for _, e := range c.rv {
					switch e.kind {
					case "w":
						n, err := R.Write(genBytes(e.n, e.seed))
						switch {
						case err == nil:
							bw = append(bw, "ok:"+strconv.Itoa(n))
						case err == io.ErrClosedPipe && n == 0:
							bw = append(bw, "closed")
						default:
							bw = append(bw, "err:"+strconv.Itoa(n))
						}
					case "cw":
						R.CloseWrite()
					case "cl":
						R.Close()
					case "f":
						fid, _ := crossnode.TunnelIDFromString(string(e.tid))
						crossnode.WriteFrame(rT, fid, byte(e.ty), genBytes(e.n, e.seed))
					}
				}
				rT.CloseWrite()
			}()
			ref2 := refStream(stCase{me: c.me, evs: c.rv})
			cur2 := 0
			var ar []string
			for _, p := range c.rr {
				buf := make([]byte, p)
				n, err := W.Read(buf)
				if err == nil {
					if n > 0 && cur2+n <= len(ref2) && bytes.Equal(ref2[cur2:cur2+n], buf[:n]) {
						ar = append(ar, "x:"+strconv.Itoa(n))
					} else {
						ar = append(ar, "d:"+vc.Hex(buf[:n]))
					}
					cur2 += n
					continue
				}
				if n != 0 {
					ar = append(ar, fmt.Sprintf("data-and-error:%d", n))
					break
				}
				if err == io.EOF {
					ar = append(ar, "eof")
					continue
				}
				ar = append(ar, "err:"+kindOf(err))
				break
			}
			select {
			case <-bdone:
			case <-time.After(50 * time.Millisecond):
				go io.Copy(io.Discard, wT)
				<-bdone
			}
			fmt.Fprintf(&sb, " rv wr %d", len(bw))
			for _, w := range bw {
				sb.WriteString(" " + w)
			}
			fmt.Fprintf(&sb, " rd %d", len(ar))
			for _, r := range ar {
				sb.WriteString(" " + r)
			}
			fmt.Fprintf(&sb, " rb %d wb %d", b2i(W.IsBroken()), b2i(R.IsBroken()))
		}
		resCh <- su.prefix + sb.String()
	}()
	select {
	case o := <-resCh:
		return o
	case <-time.After(30 * time.Second):
		return "timeout"
	}
}

// ---- generators

func mkReads(r *vc.Rand, c *stCase, pattern []int, extra int) {
	// size the read list: simulate frame-bounded reads over the frames our tunnel is expected to get
	// (generator-side sizing only; the oracle is the Lean predicate)
	var frames []int
	open := true
	term := false
	for _, e := range c.evs {
		if term {
			break
		}
		switch e.kind {
		case "w":
			if open {
				for n := e.n; n > 0; n -= maxFrame {
					frames = append(frames, min(n, maxFrame))
				}
			}
		case "cw", "cl":
			if open {
				term = true
			}
			open = false
		case "f":
			fid, _ := crossnode.TunnelIDFromString(string(e.tid))
			mid, _ := crossnode.TunnelIDFromString(string(c.me))
			if fid == mid {
				if e.ty == 1 && e.n > 0 && e.n <= maxFrame {
					frames = append(frames, e.n)
				} else if e.ty == 9 || e.ty == 3 {
					term = true
				}
			}
		}
	}
	owed := 0
	for _, f := range frames {
		owed += f
	}
	if owed > 5000 && pattern[0] < 50 {
		// many tiny reads of a large frame make the model walk its buffer again for every read:
		// keep the tiny sizes, interleaved with a mid-sized one
		pattern = append([]int{1000 + r.Intn(3000)}, pattern...)
	}
	var rd []int
	k := 0
	next := func() int { p := pattern[k%len(pattern)]; k++; return p }
	for _, f := range frames {
		zeros := 0
		for f > 0 && len(rd) < 5000 {
			p := next()
			rd = append(rd, p)
			if p == 0 {
				zeros++
				if zeros > 3 {
					p = 1 + r.Intn(100)
					rd[len(rd)-1] = p
				}
			}
			f -= min(p, f)
		}
	}
	for i := 0; i < extra; i++ {
		p := next()
		if p == 0 {
			p = 7
		}
		rd = append(rd, p)
	}
	c.rd = rd
}

// foreignKeys: the strings the tracker is asked about for the foreign frames of the case.
func foreignKeys(c stCase) [][]byte {
	mid, _ := crossnode.TunnelIDFromString(string(c.me))
	seen := map[string]bool{}
	var out [][]byte
	for _, e := range c.evs {
		if e.kind != "f" {
			continue
		}
		fid, _ := crossnode.TunnelIDFromString(string(e.tid))
		if fid == mid {
			continue
		}
		k := crossnode.TunnelIDToString(fid)
		if !seen[k] {
			seen[k] = true
			out = append(out, []byte(k))
		}
	}
	return out
}

var tkRound int

// withTracker gives a case its constructor/tracker dimension (round robin over: nil tracker, every
// foreign tunnel closed, every one active, none known, random mix) and sometimes a creation barrier.
func withTracker(r *vc.Rand, c *stCase) {
	if c.hasTk {
		return
	}
	c.hasTk = true
	tkRound++
	keys := foreignKeys(*c)
	switch mode := tkRound % 5; mode {
	case 0:
		c.tkNil = true
	case 1, 2:
		for _, k := range keys {
			c.tk = append(c.tk, tkEntry{k, mode == 1})
		}
	case 3: // tracker present, knows nothing
	default:
		for _, k := range keys {
			if x := r.Intn(3); x < 2 {
				c.tk = append(c.tk, tkEntry{k, x == 0})
			}
		}
	}
	if len(c.evs) > 0 && r.Intn(4) == 0 {
		c.pre = 1 + r.Intn(len(c.evs))
	}
}

// withReverse adds a reverse phase (B answers on the stream it has read from, A reads on the one it
// has written to) to a case that runs on a direct connection.
func withReverse(r *vc.Rand, c *stCase) {
	if c.hasRv || c.tailErr || len(c.ch) > 0 || c.hasCut {
		return
	}
	c.hasRv = true
	for j := 0; j < r.Intn(4); j++ {
		switch r.Intn(6) {
		case 0:
			c.rv = append(c.rv, stEvent{kind: "f", tid: foreignFor(r, c.me), ty: vc.Pick(r, []int{1, 3, 9}), n: r.Intn(30), seed: r.Intn(256)})
		case 1:
			c.rv = append(c.rv, stEvent{kind: "f", tid: c.me, ty: vc.Pick(r, unknownTypes), n: r.Intn(30), seed: r.Intn(256)})
		default:
			c.rv = append(c.rv, stEvent{kind: "w", n: vc.Pick(r, []int{0, 1, 5, 900, 1450, 70000}), seed: r.Intn(256)})
		}
	}
	if r.Intn(5) > 0 {
		c.rv = append(c.rv, stEvent{kind: vc.Pick(r, []string{"cw", "cl"})})
		if r.Intn(3) == 0 {
			c.rv = append(c.rv, stEvent{kind: "w", n: 3, seed: 1}, stEvent{kind: vc.Pick(r, []string{"cw", "cl"})})
		}
	}
	tmp := stCase{me: c.me, evs: c.rv}
	mkReads(r, &tmp, vc.Pick(r, [][]int{{maxFrame}, {1 + r.Intn(9)}, {1 + r.Intn(3000), maxFrame}}), 3)
	c.rr = tmp.rd
}

func stLine(r *vc.Rand, c stCase, kind string, key string) caseLine {
	withTracker(r, &c)
	if kind == "small-scope" || kind == "random" || kind == "duplex" {
		if kind == "duplex" || r.Intn(3) == 0 {
			withReverse(r, &c)
		}
	}
	var ek strings.Builder
	for _, e := range c.evs {
		fmt.Fprintf(&ek, "%s%x/%d/%d;", e.kind, e.tid, e.ty, e.n)
	}
	rdk := fmt.Sprint(c.rd)
	if len(rdk) > 80 {
		rdk = rdk[:80]
	}
	dk := fmt.Sprintf("%x|%s|%v|%v|%s|%v|%v%v%d", c.me, ek.String(), c.tailErr, c.rw, rdk, c.ch, c.tkNil, c.tk, c.pre) + fmt.Sprint(c.hasRv, len(c.rv), len(c.rr), c.hasCut, c.cutAt)
	if len(c.evs) < 2 {
		dk = ""
	}
	return caseLine{key: key, text: c.String(), dkey: dk, count: []string{"st:" + kind}}
}

var meIDs = [][]byte{
	[]byte("tcp-tunnel-1759012345678901234-8080"),
	[]byte("abc"),
	[]byte("0123456789abcdef"),
	[]byte("udp-tunnel-1759012345678901234-53"),
}

// foreignFor returns tunnel id strings whose 16-byte frame id differs from me's.
func foreignFor(r *vc.Rand, me []byte) []byte {
	cands := [][]byte{
		[]byte("tcp-tunnel-1859012345678901234-8080"),
		[]byte("tcp-tunneL-1759012345678901234-8080"),
		{}, // the all-zero id used by HTTP/DNS/command frames
		[]byte("abd"),
		[]byte("ab"),
		[]byte("0123456789abcdeF"),
		r.Bytes(16),
		r.Bytes(1 + r.Intn(40)),
	}
	mid, _ := crossnode.TunnelIDFromString(string(me))
	for {
		c := vc.Pick(r, cands)
		cid, _ := crossnode.TunnelIDFromString(string(c))
		if cid != mid {
			return c
		}
	}
}

var unknownTypes = []int{2, 4, 5, 6, 7, 8, 0x10, 0x11, 0, 0x7f, 0xff, 10}

func genSt(r *vc.Rand, thorough bool) []caseLine {
	var out []caseLine
	// (1) exhaustive small scope: every sequence of <= 3 events over a 8-letter alphabet, two read patterns
	me := meIDs[0]
	alpha := []func() stEvent{
		func() stEvent { return stEvent{kind: "w", n: 3, seed: r.Intn(256)} },
		func() stEvent { return stEvent{kind: "w", n: 0} },
		func() stEvent { return stEvent{kind: "cw"} },
		func() stEvent { return stEvent{kind: "cl"} },
		func() stEvent { return stEvent{kind: "f", tid: foreignFor(r, me), ty: 1, n: 2, seed: r.Intn(256)} },
		func() stEvent { return stEvent{kind: "f", tid: foreignFor(r, me), ty: vc.Pick(r, []int{3, 9}), n: 0} },
		func() stEvent {
			return stEvent{kind: "f", tid: me, ty: vc.Pick(r, unknownTypes), n: 2, seed: r.Intn(256)}
		},
		func() stEvent { return stEvent{kind: "f", tid: me, ty: 1, n: 0} },
	}
	var seqs [][]int
	for a := 0; a < len(alpha); a++ {
		seqs = append(seqs, []int{a})
		for b := 0; b < len(alpha); b++ {
			seqs = append(seqs, []int{a, b})
			for c := 0; c < len(alpha); c++ {
				seqs = append(seqs, []int{a, b, c})
			}
		}
	}
	for i, sq := range seqs {
		c := stCase{me: me}
		for _, a := range sq {
			c.evs = append(c.evs, alpha[a]())
		}
		pat := [][]int{{1}, {2, 0, 5}, {64}}[i%3]
		mkReads(r, &c, pat, 3)
		if i%7 == 0 {
			c.ch = []int{21, 1, 2}
		}
		out = append(out, stLine(r, c, "small-scope", ""))
	}
	// (2) segmentation boundaries: k*64KiB + {-1,0,+1}, read buffers below / at / above a frame
	for k := 1; k <= 3; k++ {
		for _, d := range []int{-1, 0, 1} {
			n := k*maxFrame + d
			pats := [][]int{{32768}, {65536}, {65537, 1}, {100000}, {4096, 1, 60000}}
			for pi, pat := range pats {
				if !thorough && (pi+2*k+d+1)%5 > 1 {
					continue
				}
				c := stCase{me: vc.Pick(r, meIDs)}
				c.evs = []stEvent{
					{kind: "f", tid: foreignFor(r, c.me), ty: 1, n: 5, seed: 9},
					{kind: "w", n: n, seed: r.Intn(256)},
					{kind: "f", tid: c.me, ty: vc.Pick(r, unknownTypes), n: 9, seed: 1},
					{kind: "w", n: vc.Pick(r, []int{0, 1, 700}), seed: r.Intn(256)},
					{kind: vc.Pick(r, []string{"cw", "cl"})},
					{kind: "w", n: 4, seed: 1},
				}
				mkReads(r, &c, pat, 3)
				if pi%2 == 0 {
					c.ch = randSizes(r, n, 12)
				}
				out = append(out, stLine(r, c, "segmentation", ""))
			}
		}
	}
	// (2b) dense payload-size sweeps through every conn-writing entry point:
	//      FrameStream.Write (one frame per size), WriteFrame called directly on the connection with our
	//      id (delivered) and with foreign ids / other types (must be skipped without desynchronising),
	//      and multi-frame Writes whose LAST chunk takes each small size
	sw := sweepSizes(thorough, true)
	for i, bi := 0, 0; i < len(sw); bi++ {
		bsz := 32
		if sw[i] > 4096 { // large payloads: small batches keep the model's wire short
			bsz = 4
		}
		batch := sw[i:min(i+bsz, len(sw))]
		i += len(batch)
		me := meIDs[bi%len(meIDs)]
		cw := stCase{me: me}
		ci := stCase{me: me}
		cf := stCase{me: me}
		for _, n := range batch {
			cw.evs = append(cw.evs, stEvent{kind: "w", n: n, seed: r.Intn(256)})
			if n <= maxFrame {
				ci.evs = append(ci.evs, stEvent{kind: "f", tid: me, ty: 1, n: n, seed: r.Intn(256)})
				ty := 1
				tid := foreignFor(r, me)
				if r.Intn(3) == 0 {
					ty, tid = vc.Pick(r, unknownTypes), me
				}
				cf.evs = append(cf.evs, stEvent{kind: "f", tid: tid, ty: ty, n: n, seed: r.Intn(256)},
					stEvent{kind: "w", n: 3, seed: r.Intn(256)})
			}
		}
		for k, c := range []*stCase{&cw, &ci, &cf} {
			if len(c.evs) == 0 {
				continue
			}
			c.evs = append(c.evs, stEvent{kind: []string{"cw", "cl"}[(bi+k)%2]})
			mkReads(r, c, []int{maxFrame}, 3)
			out = append(out, stLine(r, *c, []string{"sweep-write", "sweep-writeframe-own", "sweep-writeframe-foreign"}[k], ""))
		}
	}
	for i, n := range lastChunkSizes(thorough) {
		k := 1
		if i%16 == 0 {
			k = 2
		}
		c := stCase{me: meIDs[i%len(meIDs)]}
		c.evs = []stEvent{{kind: "w", n: k*maxFrame + n, seed: r.Intn(256)}, {kind: "w", n: 2, seed: 5}, {kind: []string{"cw", "cl"}[i%2]}}
		mkReads(r, &c, []int{maxFrame}, 3)
		out = append(out, stLine(r, c, "sweep-last-chunk", ""))
	}
	// (2c) request / response on the same stream objects: every way the request direction ends
	//      (half-close, close, nothing, peer-looking terminator frames) x B half-closed before or not
	for i := 0; i < 48; i++ {
		c := stCase{me: meIDs[i%len(meIDs)], rw: i%4 == 3}
		c.evs = []stEvent{{kind: "w", n: vc.Pick(r, []int{1, 100, 1450, 66000}), seed: r.Intn(256)}}
		switch i % 6 {
		case 0:
			c.evs = append(c.evs, stEvent{kind: "cw"})
		case 1:
			c.evs = append(c.evs, stEvent{kind: "cl"})
		case 2:
			c.evs = append(c.evs, stEvent{kind: "cw"}, stEvent{kind: "cl"})
		case 3:
			c.evs = append(c.evs, stEvent{kind: "f", tid: c.me, ty: 9, n: 0}, stEvent{kind: "w", n: 2, seed: 1})
		case 4:
			c.evs = append(c.evs, stEvent{kind: "f", tid: foreignFor(r, c.me), ty: 9, n: 0})
		}
		mkReads(r, &c, vc.Pick(r, [][]int{{maxFrame}, {7}, {700}}), 3)
		out = append(out, stLine(r, c, "duplex", ""))
	}
	// (2d) the connection is lost at EVERY byte offset of short wires (inside headers, inside payloads,
	//      between frames), ending (eof) or stalling (err); and at random offsets of longer ones
	for i := 0; i < 6; i++ {
		c := stCase{me: meIDs[i%len(meIDs)], tailErr: i%3 == 2}
		c.evs = []stEvent{
			{kind: "w", n: 3 + i, seed: r.Intn(256)},
			{kind: "f", tid: foreignFor(r, c.me), ty: 1, n: 2, seed: 7},
			{kind: "w", n: 2, seed: r.Intn(256)},
			{kind: vc.Pick(r, []string{"cw", "cl"})},
		}
		wire := 4*21 + 3 + i + 2 + 2
		step := 1
		if c.tailErr { // every stalled case waits for the time-out
			step = 9
		}
		for k := 0; k <= wire+1; k += step {
			cc := c
			cc.hasCut, cc.cutAt = true, k
			mkReads(r, &cc, [][]int{{1}, {64}, {2, 0, 5}}[k%3], 3)
			out = append(out, stLine(r, cc, "cut", ""))
		}
	}
	cuts := 40
	if thorough {
		cuts = 600
	}
	for i := 0; i < cuts; i++ {
		c := stCase{me: vc.Pick(r, meIDs), tailErr: r.Intn(10) == 0}
		total := 0
		for j := 0; j < 1+r.Intn(4); j++ {
			n := vc.Pick(r, []int{0, 1, 100, 1450, 5000, 66000})
			c.evs = append(c.evs, stEvent{kind: "w", n: n, seed: r.Intn(256)})
			total += n + 21*(1+n/maxFrame)
			if r.Intn(3) == 0 {
				c.evs = append(c.evs, stEvent{kind: "f", tid: foreignFor(r, c.me), ty: vc.Pick(r, []int{1, 3, 9}), n: r.Intn(50), seed: 1})
				total += 21 + 50
			}
		}
		c.evs = append(c.evs, stEvent{kind: vc.Pick(r, []string{"cw", "cl"})})
		c.hasCut, c.cutAt = true, r.Intn(total+30)
		mkReads(r, &c, vc.Pick(r, [][]int{{maxFrame}, {1 + r.Intn(2000), maxFrame}}), 3)
		if r.Intn(2) == 0 {
			c.ch = randSizes(r, c.cutAt+1, 10)
		}
		out = append(out, stLine(r, c, "cut", ""))
	}
	// (3) random scripts
	rounds := 450
	if thorough {
		rounds = 3500
	}
	for i := 0; i < rounds; i++ {
		c := stCase{me: vc.Pick(r, meIDs)}
		if r.Intn(6) == 0 {
			c.me = r.Bytes(r.Intn(30))
		}
		nev := 1 + r.Intn(8)
		wpool := []int{0, 1, 2, 100, 1000, 4096, 20000}
		if r.Intn(12) == 0 {
			wpool = []int{65535, 65536, 65537, 131072, 131073}
		}
		for j := 0; j < nev; j++ {
			switch x := r.Intn(20); {
			case x < 8:
				c.evs = append(c.evs, stEvent{kind: "w", n: vc.Pick(r, wpool), seed: r.Intn(256)})
			case x < 9:
				c.evs = append(c.evs, stEvent{kind: "cw"})
			case x < 10:
				c.evs = append(c.evs, stEvent{kind: "cl"})
			case x < 14:
				ty := 1
				if r.Intn(3) == 0 {
					ty = r.Intn(256)
				}
				c.evs = append(c.evs, stEvent{kind: "f", tid: foreignFor(r, c.me), ty: ty, n: vc.Pick(r, []int{0, 1, 50, 3000}), seed: r.Intn(256)})
			case x < 17:
				c.evs = append(c.evs, stEvent{kind: "f", tid: c.me, ty: vc.Pick(r, unknownTypes), n: vc.Pick(r, []int{0, 1, 50}), seed: r.Intn(256)})
			case x < 19:
				c.evs = append(c.evs, stEvent{kind: "f", tid: c.me, ty: 1, n: vc.Pick(r, []int{0, 0, 1, 300, 65536}), seed: r.Intn(256)})
			default:
				c.evs = append(c.evs, stEvent{kind: "f", tid: c.me, ty: vc.Pick(r, []int{3, 9}), n: vc.Pick(r, []int{0, 4}), seed: 3})
			}
		}
		if r.Intn(3) > 0 {
			c.evs = append(c.evs, stEvent{kind: vc.Pick(r, []string{"cw", "cl"})})
		}
		c.tailErr = r.Intn(8) == 0
		c.rw = r.Intn(5) == 0
		var pat []int
		switch r.Intn(5) {
		case 0:
			pat = []int{1 + r.Intn(3)}
		case 1:
			pat = []int{1 + r.Intn(100), r.Intn(3), 1 + r.Intn(5000)}
		case 2:
			pat = []int{65536}
		case 3:
			pat = []int{1 + r.Intn(70000)}
		default:
			pat = []int{1 + r.Intn(2000), 1 + r.Intn(70000)}
		}
		total := 0
		for _, e := range c.evs {
			total += e.n
		}
		if total > 5000 && pat[0] < 50 { // keep the observation line bounded
			pat = []int{1000 + r.Intn(3000), pat[0]}
		}
		mkReads(r, &c, pat, 3)
		if r.Intn(3) == 0 {
			if total <= 300 && r.Bool() {
				c.ch = ones(total + 21*len(c.evs))
			} else {
				c.ch = randSizes(r, total+21*len(c.evs), 30)
			}
		}
		out = append(out, stLine(r, c, "random", ""))
	}
	return out
}
