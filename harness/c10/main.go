//go:build verif

// Harness for C10 (cross-node frames and frame streams).
//
//	c10 -mode dec|rt|st|fw -tier quick|thorough -seed N [-stats file] [-nogen] [corpus files…]
//
// Output: one line per case   "[K:<key> ]<case tokens> ## <observation tokens>".
//
//	dec  arbitrary bytes -> real ReadFrameFromReader through a chunk-controlled reader
//	rt   frames -> real WriteFrameToWriter -> chunk-controlled reader -> real ReadFrameFromReader
//	st   two real FrameStreams over a loopback TCP pair (optionally through a re-chunking proxy):
//	     Write/CloseWrite/Close on one end, interleaved with frames of other tunnels / other types
//	     written by WriteFrame on the same connection; FrameStream.Read on the other end
//	fw   the real runBidirectionalForward between a TCP application connection and a FrameStream
//
// Generators only produce case strings; one executor per mode runs case strings (so that the
// corpus and replays go through the same code).
package main

import (
	"flag"
	"fmt"
	"os"
	"strconv"
	"strings"

	vc "tunnox-core/internal/verifharness/common"
)

// genBytes is the payload generator shared with the Lean driver (Driver/C10.lean genBytes).
func genBytes(n, seed int) []byte {
	b := make([]byte, n)
	for i := range b {
		b[i] = byte((seed + i*131 + i/256*7) % 256)
	}
	return b
}

func sizesStr(tag string, sizes []int) string {
	var sb strings.Builder
	fmt.Fprintf(&sb, "%s %d", tag, len(sizes))
	for _, s := range sizes {
		sb.WriteByte(' ')
		sb.WriteString(strconv.Itoa(s))
	}
	return sb.String()
}

func atoi(s string) int {
	n, err := strconv.Atoi(s)
	if err != nil {
		panic("bad number in case: " + s)
	}
	return n
}

// parseSizes reads "<tag> <k> <size>*k" at toks[i:], returns sizes and the next index.
func parseSizes(tag string, toks []string, i int) ([]int, int) {
	if i+1 >= len(toks) || toks[i] != tag {
		panic("expected " + tag)
	}
	k := atoi(toks[i+1])
	i += 2
	out := make([]int, 0, k)
	for j := 0; j < k; j++ {
		out = append(out, atoi(toks[i+j]))
	}
	return out, i + k
}

// caseLine is a generated or replayed case: optional finding key, the case tokens, the stats key.
type caseLine struct {
	key   string // K:<key> marker ("" = none)
	text  string
	dkey  string // distinct/non-trivial key ("" = not counted)
	count []string
}

func runCase(c caseLine) (obs string) {
	defer func() {
		if r := recover(); r != nil {
			obs = "panic " + strings.ReplaceAll(fmt.Sprint(r), " ", "_")
		}
	}()
	toks := strings.Fields(c.text)
	switch toks[0] {
	case "dec":
		return execDec(toks)
	case "rt":
		return execRt(toks)
	case "tm":
		return execTm(toks)
	case "st":
		return execSt(toks)
	case "fw":
		return execFw(toks)
	case "pl":
		return execPl(toks)
	case "ls":
		return execLs(toks)
	}
	return "bad-case"
}

func readCorpus(path string) []caseLine {
	data, err := os.ReadFile(path)
	if err != nil {
		fmt.Fprintln(os.Stderr, err)
		os.Exit(3)
	}
	var out []caseLine
	for _, line := range strings.Split(string(data), "\n") {
		line = strings.TrimSpace(line)
		if line == "" || strings.HasPrefix(line, "#") {
			continue
		}
		if i := strings.Index(line, " ## "); i >= 0 {
			line = line[:i]
		}
		c := caseLine{count: []string{"corpus"}}
		if strings.HasPrefix(line, "K:") {
			sp := strings.SplitN(line, " ", 2)
			c.key = sp[0][2:]
			line = sp[1]
		}
		c.text = line
		c.dkey = "corpus:" + line
		out = append(out, c)
	}
	return out
}

func main() {
	mode := flag.String("mode", "dec", "dec | rt | st | fw | pl | ls")
	tier := flag.String("tier", "quick", "quick | thorough")
	seed := flag.Uint64("seed", 1, "seed")
	stats := flag.String("stats", "", "stats file")
	noGen := flag.Bool("nogen", false, "only replay the corpus files")
	workers := flag.Int("workers", 6, "parallel workers (st mode)")
	flag.Parse()
	out := vc.NewOut()
	var cases []caseLine
	for _, f := range flag.Args() {
		for _, c := range readCorpus(f) {
			if strings.HasPrefix(c.text, *mode+" ") || (*mode == "rt" && strings.HasPrefix(c.text, "tm ")) {
				cases = append(cases, c)
			}
		}
	}
	if !*noGen {
		r := vc.NewRand(*seed)
		thorough := *tier == "thorough"
		switch *mode {
		case "dec":
			cases = append(cases, genDec(r, thorough)...)
		case "rt":
			cases = append(cases, genRt(r, thorough)...)
			cases = append(cases, genTm(r, thorough)...)
		case "st":
			cases = append(cases, genSt(r, thorough)...)
		case "fw":
			cases = append(cases, genFw(r, thorough)...)
		case "pl":
			cases = append(cases, genPl(r, thorough)...)
		case "ls":
			cases = append(cases, genLs(r, thorough)...)
		}
	}
	// dec/rt measure allocation with process-wide counters: they run on one goroutine.
	par := 1
	if *mode == "st" || *mode == "fw" || *mode == "pl" || *mode == "ls" {
		par = *workers
	}
	obs := make([]string, len(cases))
	idx := make(chan int)
	done := make(chan struct{})
	for w := 0; w < par; w++ {
		go func() {
			for i := range idx {
				obs[i] = runCase(cases[i])
			}
			done <- struct{}{}
		}()
	}
	for i := range cases {
		idx <- i
	}
	close(idx)
	for w := 0; w < par; w++ {
		<-done
	}
	for i, c := range cases {
		text := c.text
		if c.key != "" {
			text = "K:" + c.key + " " + text
		}
		out.Case(text, obs[i], c.dkey)
		for _, k := range c.count {
			out.Count(k)
		}
	}
	if out.Samples == nil {
		out.Samples = []string{} // a run without cases (replay of another mode) must not emit null
	}
	out.Finish(*stats, nil)
}
