//go:build verif

package main

import (
	"context"
	"io"
	"net"
	"strconv"
	"syscall"
	"time"
	"unsafe"

	"tunnox-core/internal/core/storage"
	"tunnox-core/internal/protocol/session/crossnode"
	vc "tunnox-core/internal/verifharness/common"
)

// execPl: pl <same tokens as an st case>, tail eof, no ch; the first `pre` events must be frames
// written directly on the connection (f …): they are the RESIDUAL frames of the tunnel that used the
// pooled connection before.
//
//	pool.Get -> conn #1 (previous tunnel) ; peer writes the residual frames ; conn.Release()
//	pool.Get -> the connection for OUR tunnel (reused #1, or a fresh one if the pool refused #1)
//	then the remaining events run as in an st case on whatever connection the pool handed out.
//
// Observation: "reused <0|1> " + the st observation of the remaining events.
func execPl(toks []string) string {
	return execStWith(toks, func(c *stCase, addCloser func(io.Closer)) stSetup {
		if c.tailErr || len(c.ch) > 0 || c.pre > len(c.evs) {
			panic("pl: unsupported case shape")
		}
		ln, err := net.ListenTCP("tcp4", &net.TCPAddr{IP: net.IPv4(127, 0, 0, 1)})
		if err != nil {
			panic(err)
		}
		addCloser(ln)
		accept := func() *net.TCPConn {
			ln.SetDeadline(time.Now().Add(2 * time.Second))
			p, err := ln.AcceptTCP()
			if err != nil {
				panic("pl: accept: " + err.Error())
			}
			addCloser(p)
			return p
		}
		ctx := context.Background()
		// two ways to the same node pool: NodeConnectionPool directly, or the top-level Pool that resolves
		// the node's address from storage (tunnox:node:<id>:addr) and creates the node pool on demand
		cfg := crossnode.PoolConfig{MinConns: 0, MaxConns: 4, IdleTimeout: time.Minute, DialTimeout: 2 * time.Second}
		viaTop := (c.pre+len(c.evs))%2 == 0
		var get func() (*crossnode.Conn, error)
		var put func(*crossnode.Conn)
		if viaTop {
			stor := storage.NewMemoryStorage(ctx)
			if err := stor.Set("tunnox:node:verif-node:addr", ln.Addr().String(), time.Hour); err != nil {
				panic(err)
			}
			top := crossnode.NewPool(ctx, stor, "verif-self", cfg)
			addCloser(closerFunc(func() error { top.Close(); return nil }))
			get = func() (*crossnode.Conn, error) { return top.Get(ctx, "verif-node") }
			put = func(x *crossnode.Conn) { top.Put(x) }
		} else {
			var created int64
			pool := crossnode.NewNodeConnectionPool(ctx, "verif-node", ln.Addr().String(), cfg, &created)
			addCloser(closerFunc(func() error { pool.CloseAll(); return nil }))
			get = func() (*crossnode.Conn, error) { return pool.Get(ctx) }
			put = func(x *crossnode.Conn) { x.Release() }
		}
		c1, err := get()
		if err != nil {
			panic("pl: get: " + err.Error())
		}
		peer := accept()
		want := 0
		for _, e := range c.evs[:c.pre] {
			if e.kind != "f" {
				panic("pl: residual events must be frames")
			}
			fid, _ := crossnode.TunnelIDFromString(string(e.tid))
			if err := crossnode.WriteFrame(peer, fid, byte(e.ty), genBytes(e.n, e.seed)); err == nil {
				want += crossnode.FrameHeaderSize + e.n
			}
		}
		// the residual bytes have arrived before the connection goes idle: wait until the kernel reports
		// them in the receive queue (a fixed sleep was not enough on a loaded machine: the probe then found
		// nothing pending and the pool reused the connection — a false alarm of the correspondence)
		waitArrived(c1.GetTCPConn(), want)
		put(c1)
		c2, err := get()
		if err != nil {
			panic("pl: second get: " + err.Error())
		}
		su := stSetup{fwdDone: make(chan struct{}), rc: c2, rT: c2.GetTCPConn(), prefix: "reused 0 "}
		if c2 == c1 {
			su.prefix = "reused 1 "
		} else {
			peer = accept()
		}
		su.wT = peer
		c.evs = c.evs[c.pre:]
		c.pre = 0
		return su
	})
}

// waitArrived polls FIONREAD until at least n bytes are queued on the socket (or 3 s passed).
func waitArrived(t *net.TCPConn, n int) {
	if t == nil || n <= 0 {
		time.Sleep(2 * time.Millisecond)
		return
	}
	rc, err := t.SyscallConn()
	if err != nil {
		time.Sleep(20 * time.Millisecond)
		return
	}
	deadline := time.Now().Add(3 * time.Second)
	for time.Now().Before(deadline) {
		var q int32
		rc.Control(func(fd uintptr) {
			syscall.Syscall(syscall.SYS_IOCTL, fd, 0x541B /* FIONREAD */, uintptr(unsafe.Pointer(&q)))
		})
		if int(q) >= n {
			return
		}
		time.Sleep(200 * time.Microsecond)
	}
}

type closerFunc func() error

func (f closerFunc) Close() error { return f() }

func genPl(r *vc.Rand, thorough bool) []caseLine {
	var out []caseLine
	rounds := 120
	if thorough {
		rounds = 1500
	}
	for i := 0; i < rounds; i++ {
		c := stCase{me: vc.Pick(r, meIDs)}
		prev := foreignFor(r, c.me) // the tunnel that used the pooled connection before
		nres := i % 4               // 0 = clean idle connection (reused), else residual frames
		for j := 0; j < nres; j++ {
			ty := vc.Pick(r, []int{1, 1, 3, 9})
			n := 0
			if ty == 1 {
				n = vc.Pick(r, []int{1, 5, 300, 3000})
			}
			c.evs = append(c.evs, stEvent{kind: "f", tid: prev, ty: ty, n: n, seed: r.Intn(256)})
		}
		for j := 0; j < 1+r.Intn(4); j++ {
			switch r.Intn(4) {
			case 0: // a late frame of the previous tunnel arriving while ours is running
				c.evs = append(c.evs, stEvent{kind: "f", tid: prev, ty: vc.Pick(r, []int{1, 3, 9}), n: r.Intn(40), seed: r.Intn(256)})
			default:
				c.evs = append(c.evs, stEvent{kind: "w", n: vc.Pick(r, []int{0, 1, 7, 1000, 70000}), seed: r.Intn(256)})
			}
		}
		c.evs = append(c.evs, stEvent{kind: vc.Pick(r, []string{"cw", "cl"})})
		c.rw = r.Intn(6) == 0
		withTracker(r, &c)
		c.pre = nres
		pat := vc.Pick(r, [][]int{{maxFrame}, {1 + r.Intn(50)}, {1 + r.Intn(5000), 1 + r.Intn(70000)}})
		total := 0
		for _, e := range c.evs {
			total += e.n
		}
		if total > 5000 && pat[0] < 50 { // keep the read list (and the model's buffer walks) bounded
			pat = []int{1000 + r.Intn(3000), pat[0]}
		}
		mkReads(r, &c, pat, 3)
		l := stLine(r, c, "pool", "")
		l.text = "pl" + l.text[2:]
		l.count = []string{"pl:residual-" + strconv.Itoa(nres)}
		out = append(out, l)
	}
	return out
}
