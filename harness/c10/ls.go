//go:build verif

package main

import (
	"bytes"
	"context"
	"fmt"
	"io"
	"strings"
	"time"

	"tunnox-core/internal/protocol/session"
	"tunnox-core/internal/protocol/session/crossnode"
	vc "tunnox-core/internal/verifharness/common"
)

// execLs: ls tid <hex> node <hex> br <hex> ty <n> hid <hex> pay <len> <seed> back <len> <seed> co <0|1|2>
//
// The real CrossNodeListener.handleConnection on an accepted cross-node connection whose first frame has
// type <ty>, header id TunnelIDFromString(<hid>), payload EncodeTargetReadyMessage(<tid>, <node>); the
// manager knows one bridge, for tunnel <br>.  After the frame the target side sends <pay> raw tunnel bytes
// and half-closes; the source side reads to end-of-stream, answers <back> and half-closes.
//
//	co 0: the tunnel bytes are written 5 ms after the frame   co 1: frame and tunnel bytes in ONE write
//	co 2: one write, but the connection delivers it byte by byte pieces (header cut)
//
// Observation: fwd <0|1> up <hex: what the source side received> down <hex: what the target side received>
func execLs(toks []string) string {
	if toks[1] != "tid" || toks[3] != "node" || toks[5] != "br" || toks[7] != "ty" || toks[9] != "hid" || toks[11] != "pay" || toks[14] != "back" || toks[17] != "co" {
		panic("ls: malformed case")
	}
	tid, node, br := vc.UnHex(toks[2]), vc.UnHex(toks[4]), vc.UnHex(toks[6])
	ty := atoi(toks[8])
	hid := vc.UnHex(toks[10])
	pay := genBytes(atoi(toks[12]), atoi(toks[13]))
	back := genBytes(atoi(toks[15]), atoi(toks[16]))
	co := atoi(toks[18])
	resCh := make(chan string, 1)
	var closers []io.Closer
	defer func() {
		for _, c := range closers {
			c.Close()
		}
	}()
	srcApp, srcConn := tcpPair() // srcConn is the bridge's source connection
	target, accepted := tcpPair()
	closers = append(closers, srcApp, srcConn, target, accepted)
	go func() {
		defer func() {
			if r := recover(); r != nil {
				resCh <- "panic " + strings.ReplaceAll(fmt.Sprint(r), " ", "_")
			}
		}()
		ctx, cancel := context.WithCancel(context.Background())
		defer cancel()
		rig := session.VerifNewListenerRig(ctx, string(br), srcConn)
		hdone := make(chan struct{})
		go func() {
			defer close(hdone)
			defer func() { recover() }()
			rig.HandleConnection(ctx, accepted)
		}()
		// target node: TargetReady frame, then raw tunnel bytes
		var fb bytes.Buffer
		id, _ := crossnode.TunnelIDFromString(string(hid))
		if err := crossnode.WriteFrameToWriter(&fb, id, byte(ty), crossnode.EncodeTargetReadyMessage(string(tid), string(node))); err != nil {
			resCh <- "frame-refused"
			return
		}
		go func() {
			switch co {
			case 0:
				target.Write(fb.Bytes())
				time.Sleep(5 * time.Millisecond)
				target.Write(pay)
			case 1:
				target.Write(append(append([]byte{}, fb.Bytes()...), pay...))
			default:
				all := append(append([]byte{}, fb.Bytes()...), pay...)
				for i := 0; i < len(all) && i < 64; i++ {
					target.Write(all[i : i+1])
					time.Sleep(30 * time.Microsecond)
				}
				if len(all) > 64 {
					target.Write(all[64:])
				}
			}
			target.CloseWrite()
		}()
		// source side: read what the listener forwards; if it forwards nothing it closes (or never touches) the source
		type rd struct {
			b   []byte
			err error
		}
		upCh := make(chan rd, 1)
		go func() {
			srcApp.SetReadDeadline(time.Now().Add(800 * time.Millisecond))
			b, err := io.ReadAll(srcApp)
			upCh <- rd{b, err}
		}()
		downCh := make(chan rd, 1)
		go func() {
			target.SetReadDeadline(time.Now().Add(1500 * time.Millisecond))
			b, err := io.ReadAll(target)
			downCh <- rd{b, err}
		}()
		up := <-upCh
		forwarded := up.err == nil
		if forwarded {
			srcApp.Write(back)
			srcApp.CloseWrite()
		}
		down := <-downCh
		_ = hdone
		fwd := 0
		if forwarded {
			fwd = 1
		}
		resCh <- fmt.Sprintf("fwd %d up %s down %s", fwd, vc.Hex(up.b), vc.Hex(down.b))
	}()
	select {
	case o := <-resCh:
		return o
	case <-time.After(8 * time.Second):
		return "timeout"
	}
}

func genLs(r *vc.Rand, thorough bool) []caseLine {
	var out []caseLine
	ids := [][]byte{[]byte("tcp-tunnel-1759012345678901234-8080"), []byte("abc"), []byte("victim|x"), []byte("0123456789abcdef")}
	rounds := 60
	if thorough {
		rounds = 600
	}
	mk := func(tid, node, br []byte, ty int, hid []byte, pl, bl, co int, kind string) {
		text := fmt.Sprintf("ls tid %s node %s br %s ty %d hid %s pay %d %d back %d %d co %d",
			vc.Hex(tid), vc.Hex(node), vc.Hex(br), ty, vc.Hex(hid), pl, r.Intn(256), bl, r.Intn(256), co)
		out = append(out, caseLine{text: text, dkey: fmt.Sprintf("%x/%x/%x/%d/%d/%d/%d", tid, node, br, ty, pl, bl, co), count: []string{"ls:" + kind}})
	}
	for i := 0; i < rounds; i++ {
		tid := ids[i%len(ids)]
		pl := vc.Pick(r, []int{0, 1, 5, 100, 1400, 4096, 5000, 70000})
		bl := vc.Pick(r, []int{0, 1, 300, 40000})
		mk(tid, []byte("node-b"), tid, 2, tid, pl, bl, i%3, "target-ready")
	}
	// not forwarded: unknown bridge, other frame types (nothing may reach the source), empty full id falls back to the header id
	for i, ty := range []int{0, 1, 3, 4, 6, 8, 9, 0x11, 0x7f, 0xff} {
		mk(ids[0], []byte("n"), ids[0], ty, ids[0], 20, 0, i%2, "other-type")
	}
	mk(ids[0], []byte("n"), ids[1], 2, ids[0], 20, 3, 1, "unknown-bridge")
	mk(nil, []byte("n"), []byte("abc"), 2, []byte("abc"), 20, 3, 1, "header-id-fallback")
	mk(nil, []byte("n"), ids[0][:16], 2, ids[0], 20, 3, 1, "header-id-fallback")
	return out
}
