//go:build verif

package main

import (
	"context"
	"errors"
	"fmt"
	"io"
	"net"
	"strings"
	"sync/atomic"
	"testing/iotest"
	"time"

	"tunnox-core/internal/protocol/session"
	"tunnox-core/internal/protocol/session/crossnode"
	vc "tunnox-core/internal/verifharness/common"
)

// execFw: fw me <hex> up <len> <seed> down <len> <seed> cs <k> <size>*k
//
// application <-TCP-> [LocalConn | runBidirectionalForward | RemoteConn = FrameStream] <-TCP-> peer FrameStream
//
// The application sends `up` in the given write sizes and half-closes; the peer reads until
// end-of-stream, answers with `down` and closes; the application reads until end-of-stream.
// Observation: up <hex received by peer> down <hex received by application> done <0|1>.
func execFw(toks []string) string {
	if toks[1] != "me" || toks[3] != "up" || toks[6] != "down" {
		panic("fw: malformed case")
	}
	me := vc.UnHex(toks[2])
	up := genBytes(atoi(toks[4]), atoi(toks[5]))
	down := genBytes(atoi(toks[7]), atoi(toks[8]))
	cs, oi := parseSizes("cs", toks, 9)
	ct, cl, ord, le, re := false, false, 0, 0, false
	if oi+3 < len(toks) && toks[oi] == "opt" {
		ct, cl, ord = toks[oi+1] == "1", toks[oi+2] == "1", atoi(toks[oi+3])
		if oi+5 < len(toks) {
			le, re = atoi(toks[oi+4]), toks[oi+5] == "1"
		}
	}
	resCh := make(chan string, 1)
	var sent, recv, closes atomic.Int64
	var closers []io.Closer
	defer func() {
		for _, c := range closers {
			c.Close()
		}
	}()
	app, local := tcpPair()
	t1, t2 := tcpPair()
	closers = append(closers, app, local, t1, t2)
	go func() {
		defer func() {
			if r := recover(); r != nil {
				resCh <- "panic " + strings.ReplaceAll(fmt.Sprint(r), " ", "_")
			}
		}()
		ctx := context.Background()
		id, _ := crossnode.TunnelIDFromString(string(me))
		F := crossnode.NewFrameStream(crossnode.NewConn(ctx, "verif-f", t1, nil), id)
		P := crossnode.NewFrameStream(crossnode.NewConn(ctx, "verif-p", t2, nil), id)
		fwdDone := make(chan struct{})
		go func() {
			defer close(fwdDone)
			defer func() { recover() }()
			cfg := &session.BidirectionalForwardConfig{TunnelID: string(me), LogPrefix: "verif", LocalConn: local, RemoteConn: F}
			if le != 0 {
				// a local connection that reports its end TOGETHER with its last bytes: (n > 0, io.EOF), or
				// (n > 0, some other error) for le = 2 -- legal for an io.Reader (QUIC streams, gzip, DataErrReader)
				var rd io.Reader = iotest.DataErrReader(local)
				if le == 2 {
					rd = eofAsError{rd}
				}
				cfg.LocalConn = &rwDouble{Reader: rd, w: local}
			}
			if re {
				cfg.RemoteConn = &streamDouble{Reader: iotest.DataErrReader(F), s: F}
			}
			if ct {
				cfg.BytesSentCounter, cfg.BytesReceivedCounter = &sent, &recv
			}
			if cl {
				cfg.LocalConnCloser = closerFunc(func() error { closes.Add(1); return local.Close() })
			}
			session.VerifRunBidirectionalForward(cfg)
		}()
		sendUp := func() {
			rest := up
			for _, s := range cs {
				if s <= 0 || len(rest) == 0 {
					continue
				}
				if s > len(rest) {
					s = len(rest)
				}
				app.Write(rest[:s])
				rest = rest[s:]
				time.Sleep(30 * time.Microsecond)
			}
			app.Write(rest)
			app.CloseWrite()
		}
		finish := func(upGot, downGot []byte) {
			done := 0
			select {
			case <-fwdDone:
				done = 1
			case <-time.After(3 * time.Second):
			}
			cnt, cls := "na na", "na"
			if ct {
				cnt = fmt.Sprintf("%d %d", sent.Load(), recv.Load())
			}
			if cl {
				cls = fmt.Sprint(closes.Load())
			}
			resCh <- fmt.Sprintf("up %s down %s done %d cnt %s closes %s", vc.Hex(upGot), vc.Hex(downGot), done, cnt, cls)
		}
		if ord == 1 {
			// the answer direction finishes first: the peer answers and closes before the application sends
			if _, err := P.Write(down); err != nil {
				resCh <- "peer-write-error " + strings.ReplaceAll(err.Error(), " ", "_")
				return
			}
			P.Close()
			downGot := make([]byte, len(down))
			if _, err := io.ReadFull(app, downGot); err != nil {
				resCh <- "app-read-error " + strings.ReplaceAll(err.Error(), " ", "_")
				return
			}
			go sendUp()
			upGot, uerr := io.ReadAll(P)
			if uerr != nil {
				resCh <- "peer-read-error " + strings.ReplaceAll(uerr.Error(), " ", "_")
				return
			}
			// the local connection is closed by the forwarder once both directions are done
			extra, _ := io.ReadAll(app)
			finish(upGot, append(downGot, extra...))
			return
		}
		// application: send, half-close
		go sendUp()
		// peer: read to end-of-stream, answer, close
		upGot, uerr := io.ReadAll(P)
		if uerr != nil {
			resCh <- "peer-read-error " + strings.ReplaceAll(uerr.Error(), " ", "_")
			return
		}
		if _, err := P.Write(down); err != nil {
			resCh <- "peer-write-error " + strings.ReplaceAll(err.Error(), " ", "_")
			return
		}
		P.Close()
		downGot, derr := io.ReadAll(app)
		if derr != nil {
			resCh <- "app-read-error " + strings.ReplaceAll(derr.Error(), " ", "_")
			return
		}
		finish(upGot, downGot)
	}()
	select {
	case o := <-resCh:
		return o
	case <-time.After(4 * time.Second):
		return "timeout"
	}
}

var errLocalRead = errors.New("verif: local read failed after the last bytes")

// eofAsError turns the io.EOF a reader returns (with or without data) into another error.
type eofAsError struct{ r io.Reader }

func (e eofAsError) Read(p []byte) (int, error) {
	n, err := e.r.Read(p)
	if err == io.EOF {
		err = errLocalRead
	}
	return n, err
}

// rwDouble: the local connection with a substituted read side.
type rwDouble struct {
	io.Reader
	w *net.TCPConn
}

func (d *rwDouble) Write(p []byte) (int, error) { return d.w.Write(p) }
func (d *rwDouble) Close() error                { return d.w.Close() }

// streamDouble: the FrameStream with a substituted read side; still a HalfCloser.
type streamDouble struct {
	io.Reader
	s *crossnode.FrameStream
}

func (d *streamDouble) Write(p []byte) (int, error) { return d.s.Write(p) }
func (d *streamDouble) Close() error                { return d.s.Close() }
func (d *streamDouble) CloseWrite() error           { return d.s.CloseWrite() }

func genFw(r *vc.Rand, thorough bool) []caseLine {
	var out []caseLine
	rounds := 144
	if thorough {
		rounds = 600
	}
	sizes := []int{0, 1, 2, 100, 4096, 32768, 32769, 65536, 65537, 100000}
	for i := 0; i < rounds; i++ {
		me := vc.Pick(r, meIDs)
		ul, dl := vc.Pick(r, sizes), vc.Pick(r, sizes)
		if i < len(sizes) {
			ul, dl = sizes[i], sizes[len(sizes)-1-i]
		}
		var cs []int
		if r.Intn(2) == 0 {
			cs = randSizes(r, ul, 10)
		}
		ct, cl, ord := i%2, (i/2)%2, (i/4)%2
		le, re := (i/8)%3, (i/3)%2
		text := fmt.Sprintf("fw me %s up %d %d down %d %d %s opt %d %d %d %d %d", vc.Hex(me), ul, r.Intn(256), dl, r.Intn(256), sizesStr("cs", cs), ct, cl, ord, le, re)
		dk := fmt.Sprintf("%x/%d/%d/%v/%d%d%d%d%d", me, ul, dl, cs, ct, cl, ord, le, re)
		if ul == 0 && dl == 0 {
			dk = ""
		}
		out = append(out, caseLine{text: text, dkey: dk, count: []string{"fw"}})
	}
	return out
}
