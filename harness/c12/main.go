//go:build verif

// Harness for C12 (client-side relays): drives the real iocopy.Bidirectional and iocopy.UDP
// between scripted, gated fake endpoints.
//
//	c12 -tier quick|thorough -seed N [-stats file] [-nogen] [corpus files…]
//
// Output: one line per case   "<case tokens> ## <observation tokens>"  (see lean/…/Driver/C12.lean).
//
// A case fixes the two endpoint scripts (what every Read returns, how the side ends, which Write
// is refused) and a SCHEDULE: the order in which the two relay goroutines are allowed to take
// their next Read.  Every Read of a fake endpoint blocks until the scheduler grants it, and the
// scheduler grants the next token only after the previous iteration has finished (the goroutine
// is back in Read, or has left its loop).  Generators only produce case strings; one executor
// runs them (corpus lines and replays take the same path).
package main

import (
	"errors"
	"flag"
	"fmt"
	"io"
	"net"
	"os"
	"strconv"
	"strings"
	"sync"
	"sync/atomic"
	"time"

	"bytes"
	"context"

	"tunnox-core/internal/client"
	"tunnox-core/internal/client/mapping"
	"tunnox-core/internal/client/tunnel"
	"tunnox-core/internal/utils/iocopy"
	vc "tunnox-core/internal/verifharness/common"
)

var (
	errRead  = errors.New("verif: injected read error")
	errWrite = errors.New("verif: injected write refusal")

	stallTimeout = 3 * time.Second
	watchdog     = 6 * time.Second
	timeouts     atomic.Int64 // relay runs that never returned (their goroutines may still spin)
	knownCase    atomic.Bool  // the case being executed is the witness of a recorded finding (K:<key>)
	unscheduledTicks atomic.Int64 // runs repeated because the real flush ticker fired outside the schedule
)

// ---------------------------------------------------------------- bytes tokens

func patBytes(n, seed int) []byte {
	b := make([]byte, n)
	for i := range b {
		b[i] = byte(seed + 31*i)
	}
	return b
}

func parseBytes(tok string) ([]byte, error) {
	if strings.HasPrefix(tok, "z") {
		parts := strings.Split(tok[1:], "x")
		if len(parts) != 2 {
			return nil, fmt.Errorf("bad pattern token %q", tok)
		}
		n, e1 := strconv.Atoi(parts[0])
		s, e2 := strconv.Atoi(parts[1])
		if e1 != nil || e2 != nil {
			return nil, fmt.Errorf("bad pattern token %q", tok)
		}
		return patBytes(n, s), nil
	}
	if tok == "-" {
		return []byte{}, nil
	}
	b := make([]byte, len(tok)/2)
	if len(tok)%2 != 0 {
		return nil, fmt.Errorf("odd hex %q", tok)
	}
	for i := range b {
		v, err := strconv.ParseUint(tok[2*i:2*i+2], 16, 8)
		if err != nil {
			return nil, err
		}
		b[i] = byte(v)
	}
	return b, nil
}

// ---------------------------------------------------------------- gated fake endpoint

type gconn struct {
	name     string
	datagram bool // Read hands out whole datagrams (truncated to len(p)), Write records datagrams
	tail     string
	fused    bool
	wfail    int
	cot      bool

	mu        sync.Mutex
	chunks    [][]byte
	tailSeen  bool
	nw        int
	stream    []byte
	dgrams    [][]byte
	wfEnv     bool
	bad       bool
	cw        bool
	closed    bool
	nreadDg   int
	closeCh   chan struct{}
	cwCh      chan struct{}
	grants    chan struct{}
	arrivals  atomic.Int64
	returns   atomic.Int64 // Reads that have returned
	kind      string       // cw | same | split | none: what the relay is handed for this side
	dataReads atomic.Int64 // Reads that returned n > 0
	tailOut   atomic.Bool  // a Read has returned the tail
	wReturned atomic.Int64 // Writes that have returned (accepted or refused)
	wRefused  atomic.Bool  // a Write was refused
	writerClosed bool      // the relay called Close on the WRITER object of a wrapper (never in the code as built)
	granted   int64
	free      atomic.Bool // gating abandoned (after a stall): Reads no longer wait

	// slow sink: the next accepted Write stays in progress, holding a REFERENCE to the caller's
	// slice; the bytes are read from it only when the scheduler lets the Write complete
	armHold     bool
	held        *heldWrite
	watch       bool // record Writes that arrive outside the windows in which the schedule expects one
	expectWrite bool
	tainted     bool
}

type heldWrite struct {
	p       []byte
	release chan struct{}
}

func newConn(name string, chunks [][]byte, tail string, fused bool, wfail int, cot bool, datagram bool) *gconn {
	cp := make([][]byte, len(chunks))
	copy(cp, chunks)
	return &gconn{name: name, chunks: cp, tail: tail, fused: fused, wfail: wfail, cot: cot, datagram: datagram,
		closeCh: make(chan struct{}), cwCh: make(chan struct{}), grants: make(chan struct{}, 1<<16)}
}

func (c *gconn) tailErr() error {
	if c.tail == "err" {
		return errRead
	}
	return io.EOF
}

func (c *gconn) exhausted() bool {
	c.mu.Lock()
	defer c.mu.Unlock()
	return len(c.chunks) == 0
}

func (c *gconn) Read(p []byte) (_ int, _ error) {
	c.arrivals.Add(1)
	defer c.returns.Add(1)
	return c.read(p)
}

func (c *gconn) read(p []byte) (n int, err error) {
	defer func() {
		if n > 0 {
			c.dataReads.Add(1)
		}
		if err != nil {
			c.tailOut.Store(true)
		}
	}()
	c.mu.Lock()
	if c.closed {
		c.mu.Unlock()
		return 0, net.ErrClosed
	}
	hold := len(c.chunks) == 0 && c.tail == "hold"
	c.mu.Unlock()
	if hold {
		// blocks until the relay closes (or, for a stream, half-closes) this endpoint
		select {
		case <-c.closeCh:
			return 0, net.ErrClosed
		case <-c.cwCh:
			c.mu.Lock()
			c.tailSeen = true
			c.mu.Unlock()
			return 0, io.EOF
		}
	}
	if !c.free.Load() {
		select {
		case <-c.grants:
		case <-c.closeCh:
			return 0, net.ErrClosed
		}
	}
	c.mu.Lock()
	defer c.mu.Unlock()
	if len(c.chunks) == 0 {
		if c.tail == "hold" {
			return 0, nil
		}
		c.tailSeen = true
		return 0, c.tailErr()
	}
	c0 := c.chunks[0]
	if c.datagram {
		n := copy(p, c0)
		c.chunks = c.chunks[1:]
		c.nreadDg++
		return n, nil
	}
	if len(c0) <= len(p) {
		n := copy(p, c0)
		c.chunks = c.chunks[1:]
		if len(c.chunks) == 0 && c.fused && c.tail != "hold" {
			c.tailSeen = true
			return n, c.tailErr()
		}
		return n, nil
	}
	n = copy(p, c0[:len(p)])
	c.chunks[0] = c0[len(p):]
	return n, nil
}

func (c *gconn) Write(p []byte) (n int, err error) {
	defer func() {
		if err != nil {
			c.wRefused.Store(true)
		}
		c.wReturned.Add(1)
	}()
	c.mu.Lock()
	if c.closed || c.cw {
		c.bad = true
		c.mu.Unlock()
		return 0, net.ErrClosed
	}
	k := c.nw
	c.nw++
	if k == c.wfail || (c.cot && c.tailSeen) {
		c.wfEnv = true
		c.mu.Unlock()
		return 0, errWrite
	}
	if c.watch && !c.expectWrite {
		c.tainted = true
	}
	if c.armHold {
		c.armHold = false
		h := &heldWrite{p: p, release: make(chan struct{})}
		c.held = h
		c.mu.Unlock()
		<-h.release
		c.mu.Lock()
		c.store(p) // a sink under back-pressure reads the caller's buffer late
		c.held = nil
		c.mu.Unlock()
		return len(p), nil
	}
	c.store(p)
	c.mu.Unlock()
	return len(p), nil
}

func (c *gconn) store(p []byte) {
	if c.datagram {
		c.dgrams = append(c.dgrams, append([]byte(nil), p...))
	} else {
		c.stream = append(c.stream, p...)
	}
}

func (c *gconn) arm(on bool)      { c.mu.Lock(); c.armHold = on; c.mu.Unlock() }
func (c *gconn) expect(on bool)   { c.mu.Lock(); c.expectWrite = on; c.mu.Unlock() }
func (c *gconn) setWatch(on bool) { c.mu.Lock(); c.watch = on; c.mu.Unlock() }
func (c *gconn) isHeld() bool     { c.mu.Lock(); defer c.mu.Unlock(); return c.held != nil }
func (c *gconn) isTainted() bool  { c.mu.Lock(); defer c.mu.Unlock(); return c.tainted }

// submitted = bytes handed to Write so far (delivered or still in progress)
func (c *gconn) submitted() int {
	c.mu.Lock()
	defer c.mu.Unlock()
	n := len(c.stream)
	if c.held != nil {
		n += len(c.held.p)
	}
	return n
}

// releaseHeld lets the Write in progress complete; false if there is none.
func (c *gconn) releaseHeld() bool {
	c.mu.Lock()
	h := c.held
	c.mu.Unlock()
	if h == nil {
		return false
	}
	close(h.release)
	return waitUntil(func() bool { return !c.isHeld() }, stallTimeout)
}

func (c *gconn) CloseWrite() error {
	c.mu.Lock()
	defer c.mu.Unlock()
	if !c.cw {
		c.cw = true
		close(c.cwCh)
	}
	return nil
}

func (c *gconn) Close() error {
	c.mu.Lock()
	defer c.mu.Unlock()
	if !c.closed {
		c.closed = true
		close(c.closeCh)
	}
	return nil
}

func (c *gconn) isCW() bool     { c.mu.Lock(); defer c.mu.Unlock(); return c.cw }
func (c *gconn) isClosed() bool { c.mu.Lock(); defer c.mu.Unlock(); return c.closed }
func (c *gconn) streamLen() int { c.mu.Lock(); defer c.mu.Unlock(); return len(c.stream) }

// ---- endpoint kinds: what the relay is handed for a side

// closeOnly: a transport connection with Close but no CloseWrite (websocket / KCP / QUIC style).
// Close on it closes the whole connection, both directions.
type closeOnly struct{ g *gconn }

func (c closeOnly) Read(p []byte) (int, error)  { return c.g.Read(p) }
func (c closeOnly) Write(p []byte) (int, error) { return c.g.Write(p) }
func (c closeOnly) Close() error {
	c.g.mu.Lock()
	c.g.writerClosed = true
	c.g.mu.Unlock()
	return c.g.Close()
}

// netConn: a transport connection (net.Conn) without CloseWrite, for the production constructors.
type netConn struct{ g *gconn }

func (c netConn) Read(p []byte) (int, error)       { return c.g.Read(p) }
func (c netConn) Write(p []byte) (int, error)      { return c.g.Write(p) }
func (c netConn) Close() error                     { return c.g.Close() }
func (c netConn) LocalAddr() net.Addr              { return fakeAddr("l") }
func (c netConn) RemoteAddr() net.Addr             { return fakeAddr("r") }
func (c netConn) SetDeadline(time.Time) error      { return nil }
func (c netConn) SetReadDeadline(time.Time) error  { return nil }
func (c netConn) SetWriteDeadline(time.Time) error { return nil }

type readSide struct{ g *gconn }

func (r readSide) Read(p []byte) (int, error) { return r.g.Read(p) }

// writeSideCloser: a separate writer object with Close (closing it ends the write half only).
type writeSideCloser struct{ g *gconn }

func (w writeSideCloser) Write(p []byte) (int, error) { return w.g.Write(p) }
func (w writeSideCloser) Close() error {
	w.g.mu.Lock()
	w.g.writerClosed = true
	w.g.mu.Unlock()
	return w.g.CloseWrite()
}

type writeOnly struct{ g *gconn }

func (w writeOnly) Write(p []byte) (int, error) { return w.g.Write(p) }

// endpoint builds the object handed to the relay exactly as the production callers do:
// mapping/base.go, target_handler.go createTunnelRWC and socks5_tunnel.go all call
// iocopy.NewReadWriteCloser(tunnelReader, tunnelWriter, closeFn) with reader and writer being the same
// transport connection and closeFn closing it.
func endpoint(g *gconn) io.ReadWriteCloser {
	closeFn := func() error { return g.Close() }
	var rwc io.ReadWriteCloser
	var err error
	switch g.kind {
	case "same":
		conn := closeOnly{g}
		rwc, err = iocopy.NewReadWriteCloser(conn, conn, closeFn)
	case "split":
		rwc, err = iocopy.NewReadWriteCloser(readSide{g}, writeSideCloser{g}, closeFn)
	case "none":
		rwc, err = iocopy.NewReadWriteCloser(readSide{g}, writeOnly{g}, closeFn)
	case "wcw":
		rwc, err = iocopy.NewReadWriteCloserWithCloseWrite(readSide{g}, writeOnly{g}, closeFn, func() error { return g.CloseWrite() })
	case "prod":
		rwc = client.VerifCreateTunnelRWC(netConn{g})
		if rwc == nil {
			panic("createTunnelRWC failed")
		}
	default:
		return g
	}
	if err != nil {
		panic(err)
	}
	return rwc
}

// loopLeft: the goroutine copying src -> sink has left its loop (needed for sinks on which no
// half-close is observable): the source has returned its tail and every chunk read has been through
// Write, or a Write was refused.
func loopLeft(src, sink *gconn) bool {
	if sink.wRefused.Load() {
		return true
	}
	return src.tailOut.Load() && src.dataReads.Load() == sink.wReturned.Load() && !sink.isHeld()
}

// udpOnly hides CloseWrite: a UDP socket has no half-close.
type udpOnly struct{ c *gconn }

func (u udpOnly) Read(p []byte) (int, error)  { return u.c.Read(p) }
func (u udpOnly) Write(p []byte) (int, error) { return u.c.Write(p) }
func (u udpOnly) Close() error                { return u.c.Close() }

// waitUntil polls cond; false = stalled.
func waitUntil(cond func() bool, d time.Duration) bool {
	dl := time.Now().Add(d)
	for i := 0; ; i++ {
		if cond() {
			return true
		}
		if time.Now().After(dl) {
			return false
		}
		if i < 200 {
			time.Sleep(5 * time.Microsecond)
		} else {
			time.Sleep(100 * time.Microsecond)
		}
	}
}

type sched struct {
	stalls int
	conns  []*gconn
}

func (s *sched) stall() {
	s.stalls++
	// a goroutine did not come back: stop gating so that the run can still end (or time out)
	for _, c := range s.conns {
		c.free.Store(true)
		c.arm(false)
		c.mu.Lock()
		if c.held != nil {
			select {
			case <-c.held.release:
			default:
				close(c.held.release)
			}
		}
		c.mu.Unlock()
		for i := 0; i < 1<<12; i++ {
			select {
			case c.grants <- struct{}{}:
			default:
			}
		}
	}
}

// grantOne lets the goroutine reading c take one Read (false: stalled or the direction is over).
func (s *sched) grantOne(c *gconn, finished func() bool) bool {
	if s.stalls > 0 {
		return false
	}
	if !waitUntil(func() bool { return c.arrivals.Load() > c.granted || finished() }, stallTimeout) {
		s.stall()
		return false
	}
	if finished() {
		return false
	}
	c.granted++
	c.grants <- struct{}{}
	return true
}

// waitIter waits until the loop iteration that took the last granted Read is over (the goroutine
// is back in Read or has left its loop) or until `also` holds.
func (s *sched) waitIter(c *gconn, finished func() bool, also func() bool) {
	if !waitUntil(func() bool { return c.arrivals.Load() > c.granted || finished() || (also != nil && also()) }, stallTimeout) {
		s.stall()
	}
}

// grant = one uninterrupted loop iteration.
func (s *sched) grant(c *gconn, finished func() bool) {
	if s.grantOne(c, finished) {
		s.waitIter(c, finished, nil)
	}
}

// grantHeld: one loop iteration whose Write on `sink` stays in progress (if it issues one).
func (s *sched) grantHeld(c, sink *gconn, finished func() bool) {
	sink.arm(true)
	if s.grantOne(c, finished) {
		s.waitIter(c, finished, sink.isHeld)
	}
	if !sink.isHeld() {
		sink.arm(false)
	}
}

// complete lets the Write in progress on `sink` return and waits for the rest of that iteration.
func (s *sched) complete(c, sink *gconn, finished func() bool) {
	if s.stalls > 0 || !sink.isHeld() {
		return
	}
	if !sink.releaseHeld() {
		s.stall()
		return
	}
	s.waitIter(c, finished, nil)
}

func errKind(err error) string {
	switch {
	case err == nil:
		return "none"
	case errors.Is(err, errRead):
		return "read"
	case errors.Is(err, errWrite):
		return "write"
	}
	return "other:" + strings.ReplaceAll(err.Error(), " ", "_")
}

func b01(b bool) string {
	if b {
		return "1"
	}
	return "0"
}

type relayRes struct {
	r     *iocopy.Result
	panic string
}

func runRelay(f func() *iocopy.Result, returned *atomic.Bool) chan relayRes {
	ch := make(chan relayRes, 1)
	go func() {
		defer func() {
			if x := recover(); x != nil {
				returned.Store(true)
				ch <- relayRes{panic: "panic " + strings.ReplaceAll(fmt.Sprint(x), " ", "_")}
			}
		}()
		r := f()
		returned.Store(true)
		ch <- relayRes{r: r}
	}()
	return ch
}

// ---------------------------------------------------------------- the relay run by a real tunnel.Tunnel

type tunnelRun struct {
	t      *tunnel.Tunnel
	ch     chan relayRes
	closed atomic.Int64
	mu     sync.Mutex
	rsn    string
}

func (tr *tunnelRun) reason() string { tr.mu.Lock(); defer tr.mu.Unlock(); return tr.rsn }

// startTunnel: NewTunnel + Start as the mapping handler does; Start launches runDataCopy, which runs the relay
// and closes the tunnel with the reason derived from the relay result. The "result" delivered on ch is empty:
// the tunnel keeps it to itself.
func startTunnel(proto string, local, tunnelRWC io.ReadWriteCloser, returned *atomic.Bool) *tunnelRun {
	tr := &tunnelRun{ch: make(chan relayRes, 1)}
	mgr := tunnel.NewTunnelManager(context.Background(), tunnel.TunnelRoleListen)
	tr.t = tunnel.NewTunnel(&tunnel.TunnelConfig{
		ID: "verif-c12", MappingID: "m", Role: tunnel.TunnelRoleListen, Protocol: proto,
		LocalConn: local, TunnelRWC: tunnelRWC, Manager: mgr,
		OnClosed: func(reason tunnel.CloseReason, err error) {
			tr.mu.Lock()
			tr.rsn = reason.String()
			tr.mu.Unlock()
			if tr.closed.Add(1) == 1 {
				returned.Store(true)
				tr.ch <- relayRes{r: &iocopy.Result{}}
			}
		},
	})
	if err := tr.t.Start(); err != nil {
		tr.ch <- relayRes{panic: "panic start:" + strings.ReplaceAll(err.Error(), " ", "_")}
	}
	return tr
}

// ---------------------------------------------------------------- TCP

type epSpec struct {
	kind   string
	tail   string
	fused  bool
	wfail  int
	cot    bool
	chunks [][]byte
}

func stepsFor(chunks [][]byte) int {
	n := len(chunks) + 1
	for _, c := range chunks {
		n += len(c)
	}
	return n
}

func parseEP(t []string) (epSpec, []string, error) {
	var e epSpec
	e.kind = "cw"
	if len(t) > 0 && (t[0] == "cw" || t[0] == "same" || t[0] == "split" || t[0] == "none" || t[0] == "prod" || t[0] == "wcw") {
		e.kind = t[0]
		t = t[1:]
	}
	if len(t) < 5 {
		return e, nil, errors.New("short endpoint")
	}
	e.tail = t[0]
	e.fused = t[1] == "1"
	e.wfail = -1
	if t[2] != "-" {
		e.wfail, _ = strconv.Atoi(t[2])
	}
	e.cot = t[3] == "1"
	k, err := strconv.Atoi(t[4])
	if err != nil || len(t) < 5+k {
		return e, nil, errors.New("bad chunk count")
	}
	for i := 0; i < k; i++ {
		b, err := parseBytes(t[5+i])
		if err != nil {
			return e, nil, err
		}
		e.chunks = append(e.chunks, b)
	}
	return e, t[5+k:], nil
}

func caseWatchdog(known bool) time.Duration {
	if known {
		return 1500 * time.Millisecond
	}
	return watchdog
}

func runTCP(toks []string, known bool) (string, error) {
	// tcp A <ep> B <ep> s <sched>
	if len(toks) < 3 || toks[1] != "A" {
		return "", errors.New("A expected")
	}
	ea, rest, err := parseEP(toks[2:])
	if err != nil {
		return "", err
	}
	if len(rest) < 1 || rest[0] != "B" {
		return "", errors.New("B expected")
	}
	eb, rest, err := parseEP(rest[1:])
	if err != nil {
		return "", err
	}
	if len(rest) != 2 || rest[0] != "s" {
		return "", errors.New("s expected")
	}
	sc := rest[1]
	if sc == "-" {
		sc = ""
	}
	A := newConn("A", ea.chunks, ea.tail, ea.fused, ea.wfail, ea.cot, false)
	B := newConn("B", eb.chunks, eb.tail, eb.fused, eb.wfail, eb.cot, false)
	A.kind, B.kind = ea.kind, eb.kind
	var returned atomic.Bool
	connA, connB := endpoint(A), endpoint(B)
	viaTunnel := toks[0] == "tcpt"
	var tun *tunnelRun
	var ch chan relayRes
	if viaTunnel {
		tun = startTunnel("tcp", connA, connB, &returned)
		ch = tun.ch
	} else if len(sc)%2 == 1 {
		// the SOCKS5 path calls the relay through iocopy.Simple
		ch = runRelay(func() *iocopy.Result { return iocopy.Simple(connA, connB, "verif") }, &returned)
	} else {
		ch = runRelay(func() *iocopy.Result { return iocopy.Bidirectional(connA, connB, nil) }, &returned)
	}
	s := &sched{conns: []*gconn{A, B}}
	// a direction is over when its half-close reached the sink; for a sink on which no half-close is
	// observable: when the goroutine has left its loop (plus a moment for what it does on the way out)
	settled := map[*gconn]bool{}
	leftAt := map[*gconn]time.Time{}
	fin := func(src, sink *gconn) bool {
		if sink.isCW() || returned.Load() {
			return true
		}
		if loopLeft(src, sink) {
			if sink.kind != "cw" && sink.kind != "wcw" {
				if !settled[sink] {
					settled[sink] = true
					time.Sleep(300 * time.Microsecond)
				}
				return true
			}
			// a sink with CloseWrite is half-closed right after the loop is left; if that does not happen
			// (it always does in the code as built) do not wait for it longer than this
			if t0, ok := leftAt[sink]; !ok {
				leftAt[sink] = time.Now()
			} else if time.Since(t0) > 100*time.Millisecond {
				return true
			}
		}
		return false
	}
	finAB := func() bool { return fin(A, B) }
	finBA := func() bool { return fin(B, A) }
	// one turn of a copy goroutine; a goroutine whose source is a passive peer (script exhausted, tail
	// "hold") sits in a Read that only returns after the relay has told that peer (half-close): no grant then
	turn := func(src, sink *gconn, spec epSpec, fin func() bool, hold bool) {
		if sink.isHeld() || fin() || s.stalls > 0 {
			return
		}
		if src.exhausted() && spec.tail == "hold" {
			if src.isCW() { // told: the Read returns EOF by itself, the goroutine leaves its loop
				if !waitUntil(fin, stallTimeout) {
					s.stall()
				}
			}
			return
		}
		if hold {
			s.grantHeld(src, sink, fin)
		} else {
			s.grant(src, fin)
		}
	}
	for _, t := range sc {
		switch t {
		case 'a':
			turn(A, B, ea, finAB, false)
		case 'b':
			turn(B, A, eb, finBA, false)
		case 'A': // slow sink B: the Write of this iteration stays in progress
			turn(A, B, ea, finAB, true)
		case 'B':
			turn(B, A, eb, finBA, true)
		case 'x':
			s.complete(A, B, finAB)
		case 'y':
			s.complete(B, A, finBA)
		}
	}
	s.complete(A, B, finAB)
	s.complete(B, A, finBA)
	for i := 0; i < stepsFor(ea.chunks) && !finAB(); i++ {
		turn(A, B, ea, finAB, false)
	}
	for i := 0; i < stepsFor(eb.chunks) && !finBA(); i++ {
		turn(B, A, eb, finBA, false)
	}
	turn(A, B, ea, finAB, false)
	select {
	case rr := <-ch:
		if rr.panic != "" {
			return rr.panic, nil
		}
		if viaTunnel {
			// the relay result is not handed out by the tunnel: what it made of it is
			st := tun.t.GetStats()
			se, re := "none", "none"
			if A.tailOut.Load() && ea.tail == "err" {
				se = "read"
			}
			if B.wRefused.Load() {
				se = "write"
			}
			if B.tailOut.Load() && eb.tail == "err" {
				re = "read"
			}
			if A.wRefused.Load() {
				re = "write"
			}
			return fmt.Sprintf("ret 1 toB %s toA %s wfB %s wfA %s bad %s cwB %s cwA %s cl %s sent %d recv %d serr %s rerr %s reason %s st %d %d closed %d",
				vc.Hex(B.stream), vc.Hex(A.stream), b01(B.wfEnv), b01(A.wfEnv), b01(A.bad || B.bad || A.writerClosed || B.writerClosed), b01(B.cw), b01(A.cw),
				b01(A.closed && B.closed), st.BytesSent, st.BytesRecv, se, re, tun.reason(), st.BytesSent, st.BytesRecv, tun.closed.Load()), nil
		}
		r := rr.r
		return fmt.Sprintf("ret 1 toB %s toA %s wfB %s wfA %s bad %s cwB %s cwA %s cl %s sent %d recv %d serr %s rerr %s",
			vc.Hex(B.stream), vc.Hex(A.stream), b01(B.wfEnv), b01(A.wfEnv), b01(A.bad || B.bad || A.writerClosed || B.writerClosed), b01(B.cw), b01(A.cw),
			b01(A.closed && B.closed), r.BytesSent, r.BytesReceived, errKind(r.SendError), errKind(r.ReceiveError)), nil
	case <-time.After(caseWatchdog(known)):
		if !known {
			timeouts.Add(1)
		}
		// nobody will ever end these two: release the blocked goroutines
		s.stall()
		A.Close()
		B.Close()
		return fmt.Sprintf("timeout stalls %d toB %d toA %d", s.stalls, B.streamLen(), A.streamLen()), nil
	}
}

// ---------------------------------------------------------------- UDP

func encodeAll(ds [][]byte) []byte {
	var out []byte
	for _, d := range ds {
		out = append(out, byte(len(d)>>8), byte(len(d)))
		out = append(out, d...)
	}
	return out
}

type uev struct {
	tick bool
	d    []byte
}

func runUDP(toks []string) (string, error) {
	// udp U <tail> <k> ev*k T <tail> <fused> tds <m> d*m cut <n> junk <b> ch <k> sizes s <sched>
	i := 1
	need := func(s string) error {
		if i >= len(toks) || toks[i] != s {
			return fmt.Errorf("%s expected at %d", s, i)
		}
		i++
		return nil
	}
	num := func() (int, error) {
		if i >= len(toks) {
			return 0, errors.New("number expected")
		}
		v, err := strconv.Atoi(toks[i])
		i++
		return v, err
	}
	if err := need("U"); err != nil {
		return "", err
	}
	utail := toks[i]
	i++
	uwfail := -1
	if i < len(toks) && strings.HasPrefix(toks[i], "wf") {
		uwfail, _ = strconv.Atoi(toks[i][2:])
		i++
	}
	k, err := num()
	if err != nil {
		return "", err
	}
	var evs []uev
	var dgs [][]byte
	for j := 0; j < k; j++ {
		if toks[i] == "t" {
			evs = append(evs, uev{tick: true})
		} else {
			b, err := parseBytes(toks[i])
			if err != nil {
				return "", err
			}
			evs = append(evs, uev{d: b})
			dgs = append(dgs, b)
		}
		i++
	}
	if err := need("T"); err != nil {
		return "", err
	}
	ttail := toks[i]
	tfused := toks[i+1] == "1"
	i += 2
	if err := need("tds"); err != nil {
		return "", err
	}
	m, err := num()
	if err != nil {
		return "", err
	}
	var tds [][]byte
	for j := 0; j < m; j++ {
		b, err := parseBytes(toks[i])
		if err != nil {
			return "", err
		}
		tds = append(tds, b)
		i++
	}
	if err := need("cut"); err != nil {
		return "", err
	}
	cut, err := num()
	if err != nil {
		return "", err
	}
	if err := need("junk"); err != nil {
		return "", err
	}
	junk, err := parseBytes(toks[i])
	if err != nil {
		return "", err
	}
	i++
	if err := need("ch"); err != nil {
		return "", err
	}
	nch, err := num()
	if err != nil {
		return "", err
	}
	var sizes []int
	for j := 0; j < nch; j++ {
		v, err := num()
		if err != nil {
			return "", err
		}
		sizes = append(sizes, v)
	}
	if err := need("s"); err != nil {
		return "", err
	}
	sc := toks[i]
	if sc == "-" {
		sc = ""
	}
	stream := encodeAll(tds)
	if cut < len(stream) {
		stream = stream[:cut]
	}
	stream = append(append([]byte(nil), stream...), junk...)
	// chunkBy: zero sizes skipped, remainder is one last chunk
	var tchunks [][]byte
	rest := stream
	for _, sz := range sizes {
		if len(rest) == 0 {
			break
		}
		if sz == 0 {
			continue
		}
		if sz > len(rest) {
			sz = len(rest)
		}
		tchunks = append(tchunks, rest[:sz])
		rest = rest[sz:]
	}
	if len(rest) > 0 {
		tchunks = append(tchunks, rest)
	}

	if toks[0] == "udpr" {
		return execUDPR(tchunks, ttail), nil
	}
	if toks[0] == "udpv" {
		return execUDPV(dgs, tchunks, ttail, sc), nil
	}
	hasHold := strings.ContainsAny(sc, "U")
	var obs string
	for attempt := 0; attempt < 5; attempt++ {
		var tainted bool
		obs, tainted = execUDP(evs, dgs, utail, uwfail, tchunks, ttail, tfused, sc)
		// the real 20 ms ticker fired outside the windows of the schedule before a scheduled slow write:
		// the run did not execute the schedule of the case; run it again
		if !(tainted && hasHold) {
			break
		}
		unscheduledTicks.Add(1)
	}
	return obs, nil
}

const (
	halfFullMark = 128 * 1024 // `batchPos > batchBufSize/2`
	udpReadBuf   = 65536
)

func execUDP(evs []uev, dgs [][]byte, utail string, uwfail int, tchunks [][]byte, ttail string, tfused bool, sc string) (string, bool) {
	U := newConn("U", dgs, utail, false, uwfail, false, true)
	T := newConn("T", tchunks, ttail, tfused, -1, false, false)
	T.setWatch(true)
	var returned atomic.Bool
	ch := runRelay(func() *iocopy.Result { return iocopy.UDP(udpOnly{U}, T, nil) }, &returned)
	s := &sched{conns: []*gconn{U, T}}
	finEnc := func() bool { return T.isCW() || returned.Load() }
	finDec := func() bool { return U.isClosed() || returned.Load() }
	evIdx := 0
	expected := 0        // bytes the tunnel must have been handed once everything encoded so far is flushed
	parkedBytes := 0     // encoding of the datagram the main loop holds while it waits for batchMu
	parkedMain := false  // the main loop took a Read during a ticker write in progress and has not come back
	holdsLeft := strings.Count(sc, "U")
	tickerHeld := false  // the write in progress was issued by the flush goroutine
	pendingBytes := func() int { return expected - T.submitted() }
	window := func(f func()) { // a tunnel Write is expected while f runs
		T.expect(true)
		f()
		T.expect(false)
	}
	// stepBlocked: somebody's tunnel Write is in progress (its caller holds batchMu)
	stepBlocked := func() {
		if evIdx < len(evs) && evs[evIdx].tick {
			evIdx++ // the ticker is busy or waits for the lock
			return
		}
		if !tickerHeld || parkedMain {
			return // the main loop itself is blocked
		}
		if U.isClosed() {
			parkedMain = true
			return
		}
		if evIdx < len(evs) {
			e := evs[evIdx]
			evIdx++
			n := len(e.d)
			if n > udpReadBuf {
				n = udpReadBuf
			}
			if !s.grantOne(U, finEnc) {
				return
			}
			if n == 0 {
				s.waitIter(U, finEnc, nil) // `continue`: straight back to Read
				return
			}
			parkedBytes = 2 + n
			// the Read returns; the main loop must now wait for batchMu (if it does not, it is back in Read at once)
			waitUntil(func() bool { return U.returns.Load() >= U.granted }, stallTimeout)
			if waitUntil(func() bool { return U.arrivals.Load() > U.granted }, 3*time.Millisecond) {
				expected += parkedBytes // it did not wait
				parkedBytes = 0
			} else {
				parkedMain = true
			}
			return
		}
		if utail == "hold" {
			return
		}
		if s.grantOne(U, finEnc) {
			waitUntil(func() bool { return U.returns.Load() >= U.granted }, stallTimeout)
			parkedMain = true
		}
	}
	stepU := func(hold bool) {
		if finEnc() || s.stalls > 0 {
			return
		}
		if hold {
			holdsLeft--
			if holdsLeft == 0 {
				defer T.setWatch(false)
			}
		}
		if T.isHeld() {
			stepBlocked()
			return
		}
		if U.isClosed() {
			window(func() {
				if !waitUntil(finEnc, stallTimeout) {
					s.stall()
				}
			})
			return
		}
		if evIdx < len(evs) {
			e := evs[evIdx]
			evIdx++
			if e.tick {
				// "the ticker fires now": wait for the real 20 ms ticker to flush what is pending
				window(func() {
					if hold {
						T.arm(true)
					}
					ok := waitUntil(func() bool { return T.isHeld() || pendingBytes() <= 0 || finEnc() }, stallTimeout)
					if !T.isHeld() {
						T.arm(false)
					}
					if T.isHeld() {
						tickerHeld = true
					}
					if !ok {
						s.stall()
					}
				})
				return
			}
			n := len(e.d)
			if n > udpReadBuf {
				n = udpReadBuf
			}
			willFlush := n > 0 && pendingBytes()+2+n > halfFullMark
			if n > 0 {
				expected += 2 + n
			}
			if willFlush {
				window(func() {
					if hold {
						s.grantHeld(U, T, finEnc)
						tickerHeld = false
					} else {
						s.grant(U, finEnc)
					}
				})
			} else {
				s.grant(U, finEnc)
			}
			return
		}
		if utail == "hold" {
			return
		}
		window(func() {
			if hold && pendingBytes() > 0 {
				s.grantHeld(U, T, finEnc)
				tickerHeld = false
			} else {
				s.grant(U, finEnc)
			}
		})
	}
	stepW := func() {
		if s.stalls > 0 || !T.isHeld() {
			return
		}
		window(func() {
			if !T.releaseHeld() {
				s.stall()
				return
			}
			if !tickerHeld || parkedMain {
				// the writer was the main loop, or the main loop was waiting for the lock: it runs on
				// to its next Read (or leaves the loop)
				s.waitIter(U, finEnc, nil)
			}
			expected += parkedBytes
			parkedBytes = 0
			parkedMain = false
			tickerHeld = false
		})
	}
	stepT := func(hold bool) {
		if finDec() || s.stalls > 0 || U.isHeld() {
			return
		}
		if T.exhausted() && ttail == "hold" {
			if T.isCW() {
				if !waitUntil(finDec, stallTimeout) {
					s.stall()
				}
			}
			return
		}
		if hold {
			s.grantHeld(T, U, finDec)
		} else {
			s.grant(T, finDec)
		}
	}
	for _, t := range sc {
		switch t {
		case 'u':
			stepU(false)
		case 'U':
			stepU(true)
		case 't':
			stepT(false)
		case 'T':
			stepT(true)
		case 'w':
			stepW()
		case 'v':
			s.complete(T, U, finDec)
		}
	}
	T.setWatch(false)
	stepW()
	s.complete(T, U, finDec)
	for j := 0; j < len(evs)+1; j++ {
		stepU(false)
	}
	for j := 0; j < stepsFor(tchunks) && !finDec(); j++ {
		stepT(false)
	}
	stepU(false)
	select {
	case rr := <-ch:
		if rr.panic != "" {
			return rr.panic, T.isTainted()
		}
		r := rr.r
		var sb strings.Builder
		fmt.Fprintf(&sb, "ret 1 tun %s udp %d", vc.Hex(T.stream), len(U.dgrams))
		for _, d := range U.dgrams {
			sb.WriteString(" " + vc.Hex(d))
		}
		fmt.Fprintf(&sb, " nread %d wfu %s serr %s rerr %s sent %d recv %d", U.nreadDg, b01(U.wfEnv), b01(r.SendError != nil), b01(r.ReceiveError != nil),
			r.BytesSent, r.BytesReceived)
		return sb.String(), T.isTainted()
	case <-time.After(watchdog):
		timeouts.Add(1)
		s.stall()
		return fmt.Sprintf("timeout stalls %d udp %d tun %d", s.stalls, len(U.dgrams), T.streamLen()), false
	}
}

// ---------------------------------------------------------------- UDP relay with the real asynchronous local socket

// gpc: the UDP socket under mapping.UDPVirtualConn. Every WriteTo (issued by the session's writeLoop)
// waits until the scheduler lets the socket accept it; the bytes are read from the caller's slice only then.
type gpc struct {
	mu      sync.Mutex
	waiting atomic.Int64
	done    atomic.Int64
	grants  chan struct{}
	free    atomic.Bool
	sent    [][]byte
}

type fakeAddr string

func (a fakeAddr) Network() string { return "udp" }
func (a fakeAddr) String() string  { return string(a) }

func (g *gpc) WriteTo(p []byte, _ net.Addr) (int, error) {
	g.waiting.Add(1)
	if !g.free.Load() {
		<-g.grants
	}
	g.mu.Lock()
	g.sent = append(g.sent, append([]byte(nil), p...))
	g.mu.Unlock()
	g.waiting.Add(-1)
	g.done.Add(1)
	return len(p), nil
}
func (g *gpc) ReadFrom(p []byte) (int, net.Addr, error) { select {} }
func (g *gpc) Close() error                             { return nil }
func (g *gpc) LocalAddr() net.Addr                      { return fakeAddr("local") }
func (g *gpc) SetDeadline(time.Time) error              { return nil }
func (g *gpc) SetReadDeadline(time.Time) error          { return nil }
func (g *gpc) SetWriteDeadline(time.Time) error         { return nil }

// countConn passes everything through to the virtual connection and counts the datagrams it accepted.
type countConn struct {
	v      *mapping.UDPVirtualConn
	writes atomic.Int64
}

func (c *countConn) Read(p []byte) (int, error) { return c.v.Read(p) }
func (c *countConn) Write(p []byte) (int, error) {
	n, err := c.v.Write(p)
	if err == nil {
		c.writes.Add(1)
	}
	return n, err
}
func (c *countConn) Close() error { return c.v.Close() }

// execUDPV: udpv U hold 0 T <tail> 0 tds … s <schedule over t,s>
// iocopy.UDP between the REAL mapping.UDPVirtualConn (as tunnel.runDataCopy uses it) and a gated tunnel double.
// t: one iteration of the tunnel->UDP goroutine; s: the socket accepts the next datagram of the send loop.
func execUDPV(dgs [][]byte, tchunks [][]byte, ttail string, sc string) string {
	sock := &gpc{grants: make(chan struct{}, 1<<16)}
	sess := mapping.VerifNewSession(sock, fakeAddr("app"))
	vconn := sess.Conn
	T := newConn("T", tchunks, ttail, false, -1, false, false)
	var returned atomic.Bool
	cc := &countConn{v: vconn}
	ch := runRelay(func() *iocopy.Result { return iocopy.UDP(cc, T, nil) }, &returned)
	s := &sched{conns: []*gconn{T}}
	finDec := func() bool { return vconn.VerifClosed() || returned.Load() }
	pending := func() int { return int(cc.writes.Load() - sock.done.Load()) }
	send := func() {
		if pending() == 0 || s.stalls > 0 {
			return
		}
		if !waitUntil(func() bool { return sock.waiting.Load() > 0 }, stallTimeout) {
			s.stall()
			return
		}
		d := sock.done.Load()
		sock.grants <- struct{}{}
		if !waitUntil(func() bool { return sock.done.Load() > d }, stallTimeout) {
			s.stall()
		}
	}
	// local -> tunnel: the datagram arrives on the listener socket; the adapter's read loop hands it to the session
	// (processPacket); the relay reads it from the virtual connection, batches it, the 20 ms ticker flushes it
	ui, expected := 0, 0
	stepU := func() {
		if ui >= len(dgs) || finDec() || s.stalls > 0 {
			return
		}
		d := dgs[ui]
		ui++
		if len(d) > 0 {
			expected += 2 + len(d)
		}
		sess.Deliver(d)
		if !waitUntil(func() bool { return sess.ReadQueued() == 0 }, stallTimeout) {
			s.stall()
		}
	}
	flushed := func() {
		// everything delivered so far must be on the tunnel before the tunnel's end closes the session
		if !waitUntil(func() bool { return T.streamLen() >= expected }, stallTimeout) {
			s.stall()
		}
	}
	stepT := func() {
		if finDec() || s.stalls > 0 {
			return
		}
		if T.exhausted() {
			for ui < len(dgs) {
				stepU()
			}
			flushed()
			// the end of the tunnel is about to be delivered: the relay will close the session, which stops its
			// send loop (a datagram still queued then may be dropped: UDP teardown) - let the socket take the queue first
			for pending() > 0 && s.stalls == 0 {
				send()
			}
		}
		s.grant(T, finDec)
	}
	for _, t := range sc {
		switch t {
		case 't':
			stepT()
		case 's':
			send()
		case 'u':
			stepU()
		}
	}
	for j := 0; j < stepsFor(tchunks) && !finDec(); j++ {
		stepT()
	}
	select {
	case rr := <-ch:
		sock.free.Store(true)
		if rr.panic != "" {
			return rr.panic
		}
		r := rr.r
		sock.mu.Lock()
		defer sock.mu.Unlock()
		var sb strings.Builder
		fmt.Fprintf(&sb, "ret 1 tun %s udp %d", vc.Hex(T.stream), len(sock.sent))
		for _, d := range sock.sent {
			sb.WriteString(" " + vc.Hex(d))
		}
		fmt.Fprintf(&sb, " nread %d wfu 0 serr %s rerr %s sent %d recv %d", len(dgs), b01(r.SendError != nil), b01(r.ReceiveError != nil),
			r.BytesSent, r.BytesReceived)
		return sb.String()
	case <-time.After(watchdog):
		timeouts.Add(1)
		s.stall()
		sock.free.Store(true)
		return fmt.Sprintf("timeout stalls %d udp %d", s.stalls, len(sock.sent))
	}
}

// ---------------------------------------------------------------- UDP relay with a real *net.UDPConn (sendmmsg batch writer)

// execUDPR: udpr U hold 0 T <tail> 0 tds … : the local side is a real connected UDP socket on loopback, so iocopy.UDP
// takes its udpBatchWriter path (ipv4.PacketConn.WriteBatch / sendmmsg, 32 messages per call); the datagrams are
// collected from the peer socket.
func execUDPR(tchunks [][]byte, ttail string) string {
	app, err := net.ListenUDP("udp", &net.UDPAddr{IP: net.IPv4(127, 0, 0, 1)})
	if err != nil {
		return "nosocket " + strings.ReplaceAll(err.Error(), " ", "_")
	}
	defer app.Close()
	_ = app.SetReadBuffer(4 << 20)
	relaySock, err := net.DialUDP("udp", nil, app.LocalAddr().(*net.UDPAddr))
	if err != nil {
		return "nosocket " + strings.ReplaceAll(err.Error(), " ", "_")
	}
	T := newConn("T", tchunks, ttail, false, -1, false, false)
	T.free.Store(true)
	// the application reads all the time (a burst larger than its receive buffer would otherwise be dropped by the kernel)
	var mu sync.Mutex
	var got [][]byte
	var lastRx atomic.Int64
	lastRx.Store(time.Now().UnixNano())
	stop := make(chan struct{})
	rdone := make(chan struct{})
	go func() {
		defer close(rdone)
		buf := make([]byte, 70000)
		for {
			app.SetReadDeadline(time.Now().Add(20 * time.Millisecond))
			n, _, err := app.ReadFromUDP(buf)
			if err == nil {
				mu.Lock()
				got = append(got, append([]byte(nil), buf[:n]...))
				mu.Unlock()
				lastRx.Store(time.Now().UnixNano())
				continue
			}
			select {
			case <-stop:
				return
			default:
			}
		}
	}()
	var returned atomic.Bool
	ch := runRelay(func() *iocopy.Result { return iocopy.UDP(relaySock, T, nil) }, &returned)
	select {
	case rr := <-ch:
		// nothing more is sent after the relay has returned: wait until the socket has been quiet for a while
		waitUntil(func() bool { return time.Now().UnixNano()-lastRx.Load() > int64(150*time.Millisecond) }, 3*time.Second)
		close(stop)
		<-rdone
		if rr.panic != "" {
			return rr.panic
		}
		r := rr.r
		var sb strings.Builder
		fmt.Fprintf(&sb, "ret 1 tun %s udp %d", vc.Hex(T.stream), len(got))
		for _, d := range got {
			sb.WriteString(" " + vc.Hex(d))
		}
		fmt.Fprintf(&sb, " nread 0 wfu 0 serr %s rerr %s sent %d recv %d", b01(r.SendError != nil), b01(r.ReceiveError != nil),
			r.BytesSent, r.BytesReceived)
		return sb.String()
	case <-time.After(watchdog):
		timeouts.Add(1)
		close(stop)
		relaySock.Close()
		return "timeout"
	}
}

// ---------------------------------------------------------------- SOCKS5 UDP tunnel codec

// runS5: s5 <eof|err> ds <k> d*k cut <n> ch <k> sizes
// The REAL udpTunnelConn.SendPacket produces the wire bytes; they are cut at `cut`, handed out in the
// given read sizes (several records per Read when a size spans them) and read back by the REAL
// udpTunnelConn.ReceivePacket until it fails.
func runS5(toks []string) (string, error) {
	if len(toks) < 4 || toks[2] != "ds" {
		return "", errors.New("ds expected")
	}
	tailErr := toks[1] == "err"
	k, err := strconv.Atoi(toks[3])
	if err != nil || len(toks) < 4+k+4 {
		return "", errors.New("bad datagram count")
	}
	var ds [][]byte
	for i := 0; i < k; i++ {
		b, err := parseBytes(toks[4+i])
		if err != nil {
			return "", err
		}
		ds = append(ds, b)
	}
	rest := toks[4+k:]
	if rest[0] != "cut" || rest[2] != "ch" {
		return "", errors.New("cut/ch expected")
	}
	cut, _ := strconv.Atoi(rest[1])
	nch, _ := strconv.Atoi(rest[3])
	var sizes []int
	for i := 0; i < nch && 4+i < len(rest); i++ {
		v, _ := strconv.Atoi(rest[4+i])
		sizes = append(sizes, v)
	}
	type res struct {
		obs string
	}
	ch := make(chan res, 1)
	go func() {
		defer func() {
			if x := recover(); x != nil {
				ch <- res{"panic " + strings.ReplaceAll(fmt.Sprint(x), " ", "_")}
			}
		}()
		var wire bytes.Buffer
		sender := client.VerifNewUDPTunnelConn(bytes.NewReader(nil), &wire)
		for _, d := range ds {
			if err := sender.SendPacket(d); err != nil {
				ch <- res{"senderr " + strings.ReplaceAll(err.Error(), " ", "_")}
				return
			}
		}
		sender.Close()
		w := append([]byte(nil), wire.Bytes()...)
		stream := w
		if cut < len(stream) {
			stream = stream[:cut]
		}
		var cleanSizes []int
		for _, sz := range sizes { // chunkBy skips zero sizes
			if sz > 0 {
				cleanSizes = append(cleanSizes, sz)
			}
		}
		cr := vc.NewChunkReader(stream, cleanSizes, tailErr)
		recv := client.VerifNewUDPTunnelConn(cr, io.Discard)
		defer recv.Close()
		var sb strings.Builder
		n := 0
		var pk []string
		stop := ""
		for {
			d, err := recv.ReceivePacket()
			if err != nil {
				switch {
				case strings.Contains(err.Error(), "failed to read packet length"):
					stop = "len"
				case strings.Contains(err.Error(), "failed to read packet data"):
					stop = "data"
				case strings.Contains(err.Error(), "packet too large"):
					stop = "toolarge"
				default:
					stop = "other:" + strings.ReplaceAll(err.Error(), " ", "_")
				}
				break
			}
			n++
			pk = append(pk, vc.Hex(d))
			if n > len(stream)+2 {
				stop = "runaway"
				break
			}
		}
		fmt.Fprintf(&sb, "wire %s pk %d", vc.Hex(w), n)
		if n > 0 {
			sb.WriteString(" " + strings.Join(pk, " "))
		}
		sb.WriteString(" stop " + stop)
		ch <- res{sb.String()}
	}()
	select {
	case r := <-ch:
		return r.obs, nil
	case <-time.After(watchdog):
		timeouts.Add(1)
		return "timeout", nil
	}
}

// ---------------------------------------------------------------- executor

type job struct {
	line string
	cat  string
	key  string
	obs  string
}

type runner struct {
	out  *vc.Out
	jobs []*job
}

func (r *runner) add(line, cat string) {
	r.jobs = append(r.jobs, &job{line: line, cat: cat})
}

func execLine(line string) string {
	toks := strings.Fields(line)
	known := false
	if len(toks) > 0 && strings.HasPrefix(toks[0], "K:") {
		toks = toks[1:]
		known = true
	}
	if len(toks) == 0 {
		return "bad-case"
	}
	if timeouts.Load() >= 1 {
		// a relay run never returned: its goroutines may spin forever and every further hit would cost a full
		// watchdog period; the first confirmed one is the failing input, stop here
		return "skipped-after-timeouts"
	}
	var obs string
	var err error
	switch toks[0] {
	case "tcp", "tcpt":
		obs, err = runTCP(toks, known)
	case "udp", "udpv", "udpr":
		obs, err = runUDP(toks)
	case "s5":
		obs, err = runS5(toks)
	default:
		err = errors.New("unknown case kind")
	}
	if err != nil {
		return "bad-case " + strings.ReplaceAll(err.Error(), " ", "_")
	}
	return obs
}

func (r *runner) flush(workers int) {
	var wg sync.WaitGroup
	idx := atomic.Int64{}
	for w := 0; w < workers; w++ {
		wg.Add(1)
		go func() {
			defer wg.Done()
			for {
				i := int(idx.Add(1)) - 1
				if i >= len(r.jobs) {
					return
				}
				r.jobs[i].obs = execLine(r.jobs[i].line)
			}
		}()
	}
	wg.Wait()
	for _, j := range r.jobs {
		if j.obs == "skipped-after-timeouts" {
			r.out.Count("skipped-after-timeouts")
			continue
		}
		key := ""
		if j.cat != "trivial" {
			key = j.line
		}
		r.out.Case(j.line, j.obs, key)
		r.out.Count(j.cat)
	}
	r.jobs = nil
}

func replayFile(r *runner, path string) {
	data, err := os.ReadFile(path)
	if err != nil {
		fmt.Fprintln(os.Stderr, err)
		os.Exit(3)
	}
	for _, line := range strings.Split(string(data), "\n") {
		line = strings.TrimSpace(line)
		if line == "" || strings.HasPrefix(line, "#") {
			continue
		}
		if i := strings.Index(line, " ## "); i >= 0 {
			line = line[:i]
		}
		r.add(line, "corpus")
	}
}

func main() {
	tier := flag.String("tier", "quick", "quick | thorough")
	seed := flag.Uint64("seed", 1, "seed")
	stats := flag.String("stats", "", "stats file")
	noGen := flag.Bool("nogen", false, "only replay the given files")
	workers := flag.Int("workers", 6, "parallel cases")
	flag.Parse()
	out := vc.NewOut()
	r := &runner{out: out}
	for _, f := range flag.Args() {
		replayFile(r, f)
	}
	r.flush(*workers)
	if !*noGen {
		rng := vc.NewRand(*seed)
		genTCP(r, rng, *tier == "thorough")
		r.flush(*workers)
		genUDP(r, rng, *tier == "thorough")
		r.flush(*workers)
		genS5(r, rng, *tier == "thorough")
		r.flush(*workers)
	}
	out.Finish(*stats, map[string]any{"relay_timeouts": timeouts.Load(), "reruns_unscheduled_tick": unscheduledTicks.Load()})
}
