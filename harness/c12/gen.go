//go:build verif

package main

import (
	"fmt"
	"strings"

	vc "tunnox-core/internal/verifharness/common"
)

// ---------------------------------------------------------------- helpers

func epStr(tail string, fused bool, wfail int, cot bool, chunks []string) string {
	wf := "-"
	if wfail >= 0 {
		wf = fmt.Sprint(wfail)
	}
	s := fmt.Sprintf("%s %s %s %s %d", tail, b01(fused), wf, b01(cot), len(chunks))
	if len(chunks) > 0 {
		s += " " + strings.Join(chunks, " ")
	}
	return s
}

// interleavings of n x and m y tokens
func interleavings(x, y byte, n, m int) []string {
	var out []string
	var rec func(pre []byte, n, m int)
	rec = func(pre []byte, n, m int) {
		if n == 0 && m == 0 {
			out = append(out, string(pre))
			return
		}
		if n > 0 {
			rec(append(append([]byte(nil), pre...), x), n-1, m)
		}
		if m > 0 {
			rec(append(append([]byte(nil), pre...), y), n, m-1)
		}
	}
	rec(nil, n, m)
	return out
}

func randSched(r *vc.Rand, x, y byte, n, m int) string {
	var b []byte
	for n > 0 || m > 0 {
		if m == 0 || (n > 0 && r.Bool()) {
			b = append(b, x)
			n--
		} else {
			b = append(b, y)
			m--
		}
	}
	// sometimes only a prefix: the rest is completed by the fixed drain order
	if r.Intn(3) == 0 && len(b) > 0 {
		b = b[:r.Intn(len(b)+1)]
	}
	if len(b) == 0 {
		return "-"
	}
	return string(b)
}

func randHex(r *vc.Rand, n int) string { return vc.Hex(r.Bytes(n)) }

func schedOrDash(s string) string {
	if s == "" {
		return "-"
	}
	return s
}


// mergeAll: every interleaving of the token strings a and b (each keeps its own order).
func mergeAll(a, b string) []string {
	var out []string
	var rec func(pre []byte, i, j int)
	rec = func(pre []byte, i, j int) {
		if i == len(a) && j == len(b) {
			out = append(out, string(pre))
			return
		}
		if i < len(a) {
			rec(append(append([]byte(nil), pre...), a[i]), i+1, j)
		}
		if j < len(b) {
			rec(append(append([]byte(nil), pre...), b[j]), i, j+1)
		}
	}
	rec(nil, 0, 0)
	return out
}

// dirSeqs: token strings of one goroutine for n loop iterations: each iteration either runs through
// (step) or its Write stays in progress (hold) until the release token that follows it.
func dirSeqs(step, hold, rel byte, n int) []string {
	out := []string{""}
	for i := 0; i < n; i++ {
		var next []string
		for _, p := range out {
			next = append(next, p+string(step), p+string(hold)+string(rel))
		}
		out = next
	}
	return out
}

// sample: at most k elements, chosen by r (all of them if there are no more than k).
func sample(r *vc.Rand, xs []string, k int) []string {
	if len(xs) <= k {
		return xs
	}
	out := make([]string, 0, k)
	for i := 0; i < k; i++ {
		out = append(out, xs[r.Intn(len(xs))])
	}
	return out
}

// encSeqs: token strings over u (next event), U (next event, its tunnel Write stays in progress) and
// w (that Write completes) of length n; U only while no write is in progress, w only while one may be.
func encSeqs(n int) []string {
	var out []string
	var rec func(pre []byte, open bool)
	rec = func(pre []byte, open bool) {
		if len(pre) == n {
			out = append(out, string(pre))
			return
		}
		rec(append(append([]byte(nil), pre...), 'u'), open)
		if open {
			rec(append(append([]byte(nil), pre...), 'w'), false)
		} else {
			rec(append(append([]byte(nil), pre...), 'U'), true)
		}
	}
	rec(nil, false)
	return out
}

// withHolds turns some tokens of a plain schedule into their slow-write variant and inserts the
// release token somewhere later (or leaves it to the completion of the run).
func withHolds(r *vc.Rand, sc string, up map[byte]byte, rel map[byte]byte) string {
	if sc == "-" {
		return sc
	}
	b := []byte(sc)
	var out []byte
	pendingRel := map[int][]byte{}
	for i, c := range b {
		out = append(out, pendingRel[i]...)
		if h, ok := up[c]; ok && r.Intn(4) == 0 {
			out = append(out, h)
			if r.Intn(5) != 0 {
				at := i + 1 + r.Intn(len(b)-i)
				pendingRel[at] = append(pendingRel[at], rel[c])
			}
		} else {
			out = append(out, c)
		}
	}
	out = append(out, pendingRel[len(b)]...)
	return string(out)
}

// ---------------------------------------------------------------- TCP generators

// kind pairs (A = local application side, B = tunnel side); the production shape — a socket with
// CloseWrite against iocopy.NewReadWriteCloser(conn, conn, closeFn) — is the most frequent one,
// every other combination of the four kinds follows in rotation.
var kindPairs = func() [][2]string {
	ks := []string{"cw", "same", "split", "none", "prod", "wcw"}
	var out [][2]string
	for _, a := range ks {
		for _, b := range ks {
			out = append(out, [2]string{a, b}, [2]string{"cw", "same"})
		}
	}
	return out
}()

var kindCounter int

func tcpLine(a, b, sc string) string {
	kp := kindPairs[kindCounter%len(kindPairs)]
	kindCounter++
	return fmt.Sprintf("tcp A %s %s B %s %s s %s", kp[0], a, kp[1], b, sc)
}

func tcpLineK(ka, a, kb, b, sc string) string {
	return fmt.Sprintf("tcp A %s %s B %s %s s %s", ka, a, kb, b, sc)
}

func genTCP(rn *runner, r *vc.Rand, thorough bool) {
	type shape struct {
		chunks []string
		tail   string
		fused  bool
	}
	lists := [][]string{{}, {"6162"}, {"6162", "63"}, {"-", "6566"}}
	if thorough {
		lists = append(lists, []string{"61", "62", "6364"})
	}
	var shapes []shape
	for _, l := range lists {
		for _, tl := range []string{"eof", "err"} {
			shapes = append(shapes, shape{l, tl, false})
			if len(l) > 0 {
				shapes = append(shapes, shape{l, tl, true})
			}
		}
	}
	// (1) small scope, exhaustive: every pair of scripts x every interleaving of the two goroutines
	for _, a := range shapes {
		for _, b := range shapes {
			for _, sc := range interleavings('a', 'b', len(a.chunks)+1, len(b.chunks)+1) {
				bl := make([]string, len(b.chunks))
				for i, c := range b.chunks { // distinct payloads per direction
					bl[i] = strings.ReplaceAll(c, "6", "7")
				}
				rn.add(tcpLine(epStr(a.tail, a.fused, -1, false, a.chunks),
					epStr(b.tail, b.fused, -1, false, bl), sc), "tcp:interleave-all")
			}
		}
	}
	// (1c) every pair of endpoint kinds x every interleaving, for the half-close orders that matter: one side
	// reaches EOF first while the other still has data to send (then the reverse), with and without slow Writes
	for _, ka := range []string{"cw", "same", "split", "none", "prod", "wcw"} {
		for _, kb := range []string{"cw", "same", "split", "none", "prod", "wcw"} {
			a := epStr("eof", false, -1, false, []string{"6162"})
			b := epStr("eof", false, -1, false, []string{"7172", "7374"})
			for _, sc := range interleavings('a', 'b', 2, 3) {
				rn.add(tcpLineK(ka, a, kb, b, sc), "tcp:kinds-all")
				rn.add(tcpLineK(ka, b, kb, a, strings.Map(func(r rune) rune { return 'a' + 'b' - r }, sc)), "tcp:kinds-all")
			}
			for _, sc := range []string{"aaBbyb", "Aaxbbab", "aAxaBbybb", "bBaay"} {
				rn.add(tcpLineK(ka, a, kb, b, sc), "tcp:kinds-all")
			}
			rn.add(tcpLineK(ka, epStr("err", true, -1, false, []string{"6162", "63"}), kb, epStr("eof", false, -1, false, []string{"7172", "73", "74"}), "aabbbb"), "tcp:kinds-all")
			// the same relay run by a real tunnel.Tunnel (Start -> runDataCopy -> Close): close reason, statistics, closed once
			for _, sc := range []string{"aabbb", "babab", "bbbaa"} {
				rn.add("tcpt"+strings.TrimPrefix(tcpLineK(ka, a, kb, b, sc), "tcp"), "tcpt:tunnel-lifecycle")
			}
			rn.add("tcpt"+strings.TrimPrefix(tcpLineK(ka, epStr("err", false, -1, false, []string{"6162"}), kb, epStr("eof", false, 0, false, []string{"7172"}), "abab"), "tcp"), "tcpt:tunnel-lifecycle")
			rn.add("tcpt"+strings.TrimPrefix(tcpLineK(ka, epStr("eof", true, 1, false, []string{"6162", "63"}), kb, epStr("err", true, -1, false, []string{"7172"}), "bAaxb"), "tcp"), "tcpt:tunnel-lifecycle")
		}
	}
	// (1d) one side FAILS (read error, alone or fused with data; refused Write) while the other side is PASSIVE:
	// it ends only after the relay has signalled the end of the other direction to it. Every interleaving.
	for _, kOther := range []string{"cw", "same", "split", "none", "prod", "wcw"} {
		fails := []string{
			epStr("err", false, -1, false, []string{}),
			epStr("err", false, -1, false, []string{"6162"}),
			epStr("err", true, -1, false, []string{"6162", "63"}),
			epStr("eof", false, -1, false, []string{"6162"}),
		}
		for fi, f := range fails {
			nf := []int{1, 2, 3, 2}[fi]
			for _, pas := range [][]string{{}, {"7172"}} {
				p := epStr("hold", false, -1, false, pas)
				for _, sc := range interleavings('a', 'b', nf, len(pas)+1) {
					rn.add(tcpLineK(kOther, f, "cw", p, sc), "tcp:passive-peer")
					rn.add(tcpLineK("cw", p, kOther, f, strings.Map(func(r rune) rune { return 'a' + 'b' - r }, sc)), "tcp:passive-peer")
				}
			}
		}
		// the passive side refuses a Write: that direction ends with a write error, the passive side must still be told
		rn.add(tcpLineK(kOther, epStr("eof", false, -1, false, []string{"6162", "63"}), "cw", epStr("hold", false, 0, false, []string{"7172"}), "abab"), "tcp:passive-peer")
		rn.add(tcpLineK(kOther, epStr("eof", false, -1, false, []string{"6162", "63"}), "cw", epStr("hold", false, 1, false, nil), "aAxb"), "tcp:passive-peer")
		rn.add(tcpLineK("cw", epStr("hold", false, 0, false, nil), kOther, epStr("err", false, -1, false, []string{"7172"}), "bab"), "tcp:passive-peer")
	}
	// (2) faults: refused writes at every index, full close (writes refused once the side's tail was seen)
	rounds := 500
	if thorough {
		rounds = 25000
	}
	for i := 0; i < rounds; i++ {
		mk := func() (string, int) {
			n := r.Intn(4)
			var ch []string
			for j := 0; j < n; j++ {
				switch r.Intn(8) {
				case 0:
					ch = append(ch, "-")
				default:
					ch = append(ch, randHex(r, 1+r.Intn(6)))
				}
			}
			tail := vc.Pick(r, []string{"eof", "eof", "err"})
			wf := -1
			if r.Intn(3) == 0 {
				wf = r.Intn(4)
			}
			return epStr(tail, n > 0 && r.Intn(3) == 0, wf, r.Intn(4) == 0, ch), n
		}
		a, na := mk()
		b, nb := mk()
		sc := randSched(r, 'a', 'b', na+1, nb+1)
		if i%2 == 1 {
			sc = withHolds(r, sc, map[byte]byte{'a': 'A', 'b': 'B'}, map[byte]byte{'a': 'x', 'b': 'y'})
		}
		rn.add(tcpLine(a, b, sc), "tcp:faults-random")
	}
	// (2b) slow sinks: a Write of one direction stays in progress (the sink reads the relay's buffer only
	// when it completes) while the other direction runs, half-closes, finishes, gets refused
	type pair struct{ a, b string; na, nb int }
	pairs := []pair{
		{epStr("eof", false, -1, true, []string{"6162", "63"}), epStr("eof", false, -1, false, []string{"7172"}), 3, 2},
		{epStr("err", true, -1, false, []string{"6162", "63"}), epStr("eof", false, 1, true, []string{"7172", "73"}), 3, 3},
	}
	if thorough {
		pairs = append(pairs,
			pair{epStr("eof", true, 1, false, []string{"61", "6263"}), epStr("err", false, -1, true, []string{"71", "-", "72"}), 3, 4})
	}
	// a chunk larger than the copy buffer: the second piece is read while the Write of the first is still in progress elsewhere
	for _, sc := range []string{"AbBxya", "ABxyAbxb", "AbbbxAx"} {
		rn.add(tcpLine(epStr("eof", false, -1, false, []string{"z40000x3"}),
			epStr("eof", false, -1, false, []string{"7172", "z33000x9"}), sc), "tcp:slow-write")
	}
	for _, p := range pairs {
		for _, sa := range dirSeqs('a', 'A', 'x', p.na) {
			for _, sb := range dirSeqs('b', 'B', 'y', p.nb) {
				all := mergeAll(sa, sb)
				k := 12
				if thorough {
					k = 120
				}
				for _, sc := range sample(r, all, k) {
					rn.add(tcpLine(p.a, p.b, sc), "tcp:slow-write")
				}
			}
		}
	}
	// (3) buffer boundary: chunks around the 32 KiB copy buffer are handed out in pieces
	for _, sz := range []int{32767, 32768, 32769, 70000} {
		a := epStr("eof", false, -1, false, []string{fmt.Sprintf("z%dx%d", sz, sz%251), "0102"})
		b := epStr("eof", sz%2 == 0, -1, false, []string{"aabb", fmt.Sprintf("z%dx7", sz/2)})
		rn.add(tcpLine(a, b, vc.Pick(r, []string{"-", "ab", "bbbbaaaa", "abababab"})), "tcp:buffer-boundary")
	}
}

// ---------------------------------------------------------------- UDP generators

func udpLine(utail string, uevs []string, ttail string, tfused bool, tds []string, cut int, junk string, sizes []int, sc string) string {
	var sb strings.Builder
	fmt.Fprintf(&sb, "udp U %s %d", utail, len(uevs))
	for _, e := range uevs {
		sb.WriteString(" " + e)
	}
	fmt.Fprintf(&sb, " T %s %s tds %d", ttail, b01(tfused), len(tds))
	for _, d := range tds {
		sb.WriteString(" " + d)
	}
	fmt.Fprintf(&sb, " cut %d junk %s ch %d", cut, junk, len(sizes))
	for _, s := range sizes {
		fmt.Fprintf(&sb, " %d", s)
	}
	sb.WriteString(" s " + schedOrDash(sc))
	return sb.String()
}

func tokLen(tok string) int {
	b, err := parseBytes(tok)
	if err != nil {
		panic(err)
	}
	return len(b)
}

func encLen(tds []string) int {
	n := 0
	for _, d := range tds {
		n += 2 + tokLen(d)
	}
	return n
}

func ones(n int) []int {
	s := make([]int, n)
	for i := range s {
		s[i] = 1
	}
	return s
}

func randSizes(r *vc.Rand, n int) []int {
	var s []int
	for n > 0 {
		k := 1 + r.Intn(n)
		if r.Intn(3) == 0 {
			k = 1 + r.Intn(3)
		}
		if k > n {
			k = n
		}
		s = append(s, k)
		n -= k
	}
	return s
}

const uncut = 1 << 30

func genUDP(rn *runner, r *vc.Rand, thorough bool) {
	// (1) every cut offset x every single split position (and one-byte reads) of short encodings, both tails
	sets := [][]string{{"61"}, {"61", "6263"}, {"616263", "64", "6566"}}
	if thorough {
		sets = append(sets, []string{"6162636465666768", "69", "6a6b6c", "6d6e"}, []string{"z300x5", "7a"})
	}
	for _, tds := range sets {
		total := encLen(tds)
		for cut := 0; cut <= total; cut++ {
			for _, ttail := range []string{"eof", "err"} {
				maxSplit := cut
				if total > 40 {
					maxSplit = 0
				}
				for p := 0; p <= maxSplit; p++ {
					var sizes []int
					if p > 0 && p < cut {
						sizes = []int{p}
					} else if p == cut && cut > 0 {
						sizes = ones(cut)
					}
					utail, uevs := "hold", []string{}
					switch (cut + p) % 3 {
					case 1:
						utail = "eof"
					case 2:
						uevs = []string{"7172"}
					}
					rn.add(udpLine(utail, uevs, ttail, (cut+p)%4 == 3, tds, cut, "-", sizes, ""), "udp:cut-every-offset")
				}
			}
		}
	}
	// (1b) reads that end inside / right after the 2-byte prefix of records whose high length byte is not 0
	lens := []int{1, 255, 256, 257, 300, 1000}
	nps := 12
	if thorough {
		nps = 150
	}
	for i := 0; i < nps; i++ {
		var tds []string
		var bounds []int
		off := 0
		for j := 0; j < 2+r.Intn(3); j++ {
			l := lens[(i+j*5+r.Intn(2))%len(lens)]
			tds = append(tds, fmt.Sprintf("z%dx%d", l, 1+r.Intn(250)))
			bounds = append(bounds, off)
			off += 2 + l
		}
		for delta := 0; delta <= 2; delta++ {
			// every record boundary + delta is a read boundary
			var sizes []int
			prev := 0
			for _, b := range bounds {
				if b+delta > prev {
					sizes = append(sizes, b+delta-prev)
					prev = b + delta
				}
			}
			rn.add(udpLine("hold", nil, vc.Pick(r, []string{"eof", "err"}), r.Intn(3) == 0, tds, uncut, "-", sizes, ""), "udp:prefix-split")
			cut := bounds[len(bounds)-1] + delta
			rn.add(udpLine("eof", []string{"7172"}, "eof", false, tds, cut, "-", sizes[:len(sizes)-1], "ut"), "udp:prefix-split")
		}
		if i%4 == 0 {
			rn.add(udpLine("hold", nil, "eof", false, tds[:2], uncut, "-", ones(encLen(tds[:2])), ""), "udp:prefix-split")
		}
	}
	// (2) malformed streams: illegal zero length after / instead of records, random bytes with small length fields
	for _, tds := range [][]string{{}, {"6162"}, {"61", "626364"}} {
		for _, junk := range []string{"0000", "00", "000061", "0000ffff", "0001", "0003aabb", "ffff01"} {
			for _, ttail := range []string{"eof", "err"} {
				n := encLen(tds) + tokLen(junk)
				rn.add(udpLine("hold", nil, ttail, false, tds, uncut, junk, randSizes(r, n), ""), "udp:malformed")
				rn.add(udpLine("eof", []string{"7172"}, ttail, r.Bool(), tds, uncut, junk, ones(n), "t"), "udp:malformed")
			}
		}
	}
	rounds := 200
	if thorough {
		rounds = 12000
	}
	for i := 0; i < rounds; i++ {
		n := r.Intn(14)
		raw := r.Bytes(n)
		for j := 0; j+1 < n; j += 1 + r.Intn(4) { // plausible small length fields
			if r.Intn(2) == 0 {
				raw[j], raw[j+1] = 0, byte(r.Intn(5))
			}
		}
		rn.add(udpLine(vc.Pick(r, []string{"hold", "eof", "err"}), nil, vc.Pick(r, []string{"eof", "err"}), r.Intn(4) == 0,
			nil, uncut, vc.Hex(raw), randSizes(r, n), ""), "udp:raw-random")
	}
	// (3) UDP -> tunnel: ticks at every position of short datagram sequences (the flush schedule), every way the side ends
	dsets := [][]string{{"6162"}, {"61", "626364"}, {"61", "-", "6263"}}
	if thorough {
		dsets = append(dsets, []string{"6162", "63", "646566"})
	}
	for _, ds := range dsets {
		for mask := 0; mask < 1<<(len(ds)+1); mask++ {
			var evs []string
			for j := 0; j <= len(ds); j++ {
				if mask&(1<<j) != 0 {
					evs = append(evs, "t")
				}
				if j < len(ds) {
					evs = append(evs, ds[j])
				}
			}
			utail := []string{"eof", "err", "hold"}[mask%3]
			ttail := "hold"
			if utail == "hold" {
				ttail = []string{"eof", "err"}[mask%2]
			}
			rn.add(udpLine(utail, evs, ttail, false, []string{"78"}, uncut, "-", nil, ""), "udp:flush-schedule")
		}
	}
	// (4) size boundaries of the prefix arithmetic and of the buffers
	for _, sz := range []int{1, 255, 256, 257, 511, 512, 65535} {
		d := fmt.Sprintf("z%dx%d", sz, sz%7)
		rn.add(udpLine("eof", []string{d, "6162"}, "hold", false, []string{d, "63"}, uncut, "-", []int{1, 1, 1}, "utut"), "udp:size-boundary")
		rn.add(udpLine("hold", nil, "eof", false, []string{d, "63"}, 2+sz-1, "-", []int{2, sz / 2}, ""), "udp:size-boundary")
	}
	for k := 3; k <= 15; k++ {
		for d := -2; d <= 2; d++ {
			sz := (1 << k) + d
			if !thorough && d != 0 && d != -2 && k > 8 && k != 11 {
				continue
			}
			dd := fmt.Sprintf("z%dx%d", sz, 1+(k*5+d+2)%200)
			rn.add(udpLine("eof", []string{dd, "6162"}, "eof", false, []string{dd, "63"}, uncut, "-", nil, "uutt"), "udp:size-edge")
		}
	}
	// 65536-byte and longer datagrams cannot be carried (the length does not fit the prefix): outside WF, replayed to decide
	rn.add(udpLine("eof", []string{"z65536x3"}, "hold", false, nil, uncut, "-", nil, ""), "udp:outside-wf")
	rn.add(udpLine("eof", []string{"z65537x3", "61"}, "hold", false, nil, uncut, "-", nil, ""), "udp:outside-wf")
	// batch buffer: enough 60 KB datagrams to cross the half-full mark without any tick
	big := []string{"z60000x1", "z60000x2", "z60000x3", "z1000x4", "z60000x5"}
	rn.add(udpLine("eof", big, "hold", false, nil, uncut, "-", nil, ""), "udp:batch-half-full")
	// window: a 300 KB chunk in one Read, and records straddling many reads
	win := []string{"z65535x1", "z65535x2", "z65535x3", "z65535x4", "z40000x5"}
	rn.add(udpLine("hold", nil, "eof", false, win, uncut, "-", nil, ""), "udp:window")
	rn.add(udpLine("hold", nil, "err", true, win, 250000, "-", []int{100000, 100000}, ""), "udp:window")
	if thorough {
		var huge []string
		for i := 0; i < 10; i++ {
			huge = append(huge, fmt.Sprintf("z65535x%d", i))
		}
		rn.add(udpLine("hold", nil, "eof", false, huge, uncut, "-", nil, ""), "udp:window")
		rn.add(udpLine("hold", nil, "eof", false, huge, 600000, "-", []int{530000}, ""), "udp:window")
	}
	// batch size of the UDP-side flush (32 datagrams): 31 / 32 / 33 / 64 / 70 records in one read, and split over reads
	for _, n := range []int{31, 32, 33, 64, 70} {
		var many []string
		for i := 0; i < n; i++ {
			many = append(many, fmt.Sprintf("%02x%02x", 0x40+i%50, i))
		}
		rn.add(udpLine("hold", nil, "eof", false, many, uncut, "-", nil, ""), "udp:flush-batch-32")
		rn.add(udpLine("hold", nil, "err", false, many, 4*n-1, "-", []int{4*30 + 1, 9}, ""), "udp:flush-batch-32")
	}
	// the UDP socket refuses a Write (at every index, also inside / at the edge of a 32-datagram flush batch): the datagrams
	// before it have arrived, the error is reported, the relay returns; with an illegal length behind it the error is ignored
	for _, tds := range [][]string{{"41", "4243", "44"}, {"41", "42", "43", "44", "45"}} {
		for wf := 0; wf <= len(tds); wf++ {
			for _, sizes := range [][]int{nil, {4}, ones(encLen(tds))} {
				line := udpLine("hold", nil, []string{"eof", "err"}[wf%2], false, tds, uncut, "-", sizes, "")
				rn.add(strings.Replace(line, "udp U hold ", fmt.Sprintf("udp U hold wf%d ", wf), 1), "udp:socket-write-refused")
			}
			line := udpLine("eof", []string{"7172"}, "eof", false, tds, uncut, "0000", []int{5}, "tut")
			rn.add(strings.Replace(line, "udp U eof ", fmt.Sprintf("udp U eof wf%d ", wf), 1), "udp:socket-write-refused")
		}
	}
	{
		var many []string
		for i := 0; i < 40; i++ {
			many = append(many, fmt.Sprintf("%02x", 0x30+i))
		}
		for _, wf := range []int{0, 30, 31, 32, 33, 39} {
			line := udpLine("hold", nil, "eof", false, many, uncut, "-", nil, "")
			rn.add(strings.Replace(line, "udp U hold ", fmt.Sprintf("udp U hold wf%d ", wf), 1), "udp:socket-write-refused")
		}
	}
	// the local side is a REAL connected UDP socket: iocopy.UDP sends through its sendmmsg batch writer (32 per call)
	for _, n := range []int{1, 5, 31, 32, 33, 64, 70} {
		var many []string
		for i := 0; i < n; i++ {
			many = append(many, fmt.Sprintf("%02x%02x%02x", 0x40+i%50, i, n))
		}
		for _, sizes := range [][]int{nil, {7}, {3*n + 1, 2}} {
			line := udpLine("hold", nil, []string{"eof", "err"}[n%2], false, many, uncut, "-", sizes, "")
			rn.add("udpr"+strings.TrimPrefix(line, "udp"), "udpr:real-udp-socket")
		}
		line := udpLine("hold", nil, "eof", false, append(append([]string{}, many...), "z1400x3", "z9000x5"), 5*n+2+1400+700, "-", []int{11}, "")
		rn.add("udpr"+strings.TrimPrefix(line, "udp"), "udpr:real-udp-socket")
	}
	// bursts of LARGE datagrams decoded from one tunnel read: the payloads of one sendmmsg batch total more than
	// 64 KiB / 128 KiB / the socket send buffer (10 x 8000, 32 x 4000, 2 x 40000, mixed sizes up to the UDP maximum 65507)
	bursts := [][]string{}
	rep := func(n, sz int) []string {
		var out []string
		for i := 0; i < n; i++ {
			out = append(out, fmt.Sprintf("z%dx%d", sz, 1+i*7%250))
		}
		return out
	}
	bursts = append(bursts, rep(10, 8000), rep(32, 4000), rep(2, 40000), rep(9, 8192), rep(33, 2100),
		[]string{"z65507x1", "z1x2", "z65507x3", "z30000x4", "z1472x5", "z65507x6"},
		[]string{"z100x1", "z60000x2", "z5000x3", "z700x4", "z60000x5", "z9000x6", "z1x7"})
	if thorough {
		bursts = append(bursts, rep(32, 9000), rep(64, 3000), rep(5, 65507))
	}
	for bi, b := range bursts {
		line := udpLine("hold", nil, []string{"eof", "err"}[bi%2], false, b, uncut, "-", nil, "")
		rn.add("udpr"+strings.TrimPrefix(line, "udp"), "udpr:large-burst")
		// the same burst, but the tunnel read ends inside the third datagram: two decode batches
		line = udpLine("hold", nil, "eof", false, b, uncut, "-", []int{2*2 + tokLen(b[0]) + tokLen(b[1]) + 7}, "")
		rn.add("udpr"+strings.TrimPrefix(line, "udp"), "udpr:large-burst")
		// fake UDP side (per-datagram Write path) for the same burst
		rn.add(udpLine("hold", nil, "eof", false, b, uncut, "-", nil, ""), "udp:large-burst")
	}
	// (5) schedules: every interleaving of the two goroutines for short scripts, every combination of endings
	for _, utail := range []string{"eof", "err", "hold"} {
		for _, ttail := range []string{"eof", "err", "hold"} {
			if utail == "hold" && ttail == "hold" {
				continue // nobody ever ends: the relay rightly never returns
			}
			for _, sc := range interleavings('u', 't', 3, 3) {
				rn.add(udpLine(utail, []string{"6162", "63"}, ttail, false, []string{"78", "797a"}, uncut, "-", []int{4}, sc), "udp:interleave-all")
			}
			if thorough {
				for _, sc := range interleavings('u', 't', 4, 4) {
					rn.add(udpLine(utail, []string{"6162", "t", "63"}, ttail, false, []string{"78", "797a", "7b"}, 9, "-", []int{3, 4}, sc), "udp:interleave-all")
				}
			}
			for _, sc := range interleavings('u', 't', 2, 3) {
				rn.add(udpLine(utail, []string{"61"}, ttail, sc[0] == 'u', []string{"78", "797a"}, 5, "-", []int{2}, sc), "udp:interleave-all")
			}
		}
	}
	// (5b) slow tunnel: a flush Write stays in progress (the tunnel reads the batch buffer only when the
	// Write completes) x datagram arrival x the next flush trigger (tick / EOF / read error)
	type encCase struct {
		evs          []string
		utail, ttail string
		tds          []string
		full         bool
	}
	encCases := []encCase{
		{[]string{"41414141", "t", "42424242"}, "eof", "hold", nil, true},
		{[]string{"41414141", "t", "-", "4242", "t"}, "hold", "eof", []string{"78"}, true},
		{[]string{"4141", "4242", "t", "434343434343", "t"}, "err", "hold", nil, thorough},
	}
	for _, ec := range encCases {
		seqs := encSeqs(len(ec.evs) + 2)
		if !ec.full {
			seqs = sample(r, seqs, 40)
		}
		for _, sc := range seqs {
			if !strings.Contains(sc, "U") {
				continue
			}
			rn.add(udpLine(ec.utail, ec.evs, ec.ttail, false, ec.tds, uncut, "-", nil, sc), "udp:slow-tunnel-write")
		}
	}
	// ... with the tunnel->UDP goroutine running in between
	for _, sc := range sample(r, mergeAll("uUuwu", "tTvt"), map[bool]int{false: 40, true: 126}[thorough]) {
		rn.add(udpLine("eof", []string{"41414141", "t", "42424242"}, "eof", false, []string{"78", "797a"}, uncut, "-", []int{3}, sc), "udp:slow-tunnel-write")
	}
	// half-full flush of the main loop in progress, then more datagrams, a tick, the end
	bigEv := []string{"z60000x1", "z60000x2", "z60000x3", "6162", "t"}
	for _, sc := range []string{"uuUuw", "uuUwuu", "uuUuuwu", "uUuuwuu"} {
		rn.add(udpLine("eof", bigEv, "hold", false, nil, uncut, "-", nil, sc), "udp:slow-tunnel-write")
	}
	// (5c) slow UDP socket: the first Write of a tunnel->UDP iteration stays in progress
	for _, st := range dirSeqs('t', 'T', 'v', 3) {
		for _, ttail := range []string{"eof", "err"} {
			for _, sc := range sample(r, mergeAll(st, "uu"), map[bool]int{false: 6, true: 60}[thorough]) {
				rn.add(udpLine("hold", []string{"6162"}, ttail, false, []string{"78", "797a", "7b"}, 8, "-", []int{3, 4}, sc), "udp:slow-udp-write")
			}
		}
	}
	// (5d) the REAL asynchronous local socket (mapping.UDPVirtualConn): Write only queues, a send loop delivers later.
	// Reads that end inside the next record (so the window is compacted over bytes just handed to Write) x sends
	// delayed past the following reads: every split position, every interleaving of t and s for short streams
	vsets := [][]string{{"41", "4243"}, {"414141", "42", "434343"}}
	if thorough {
		vsets = append(vsets, []string{"41", "z300x7", "4243", "z260x9"})
	}
	for _, tds := range vsets {
		total := encLen(tds)
		step := 1
		if total > 40 {
			step = 37
		}
		for p := 1; p < total; p += step {
			for _, sizes := range [][]int{{p}, {p, 1}} {
				nt := len(sizes) + 2
				all := interleavings('t', 's', nt, len(tds))
				for _, sc := range sample(r, all, map[bool]int{false: 8, true: 40}[thorough]) {
					line := udpLine("hold", nil, []string{"eof", "err"}[p%2], false, tds, uncut, "-", sizes, sc)
					rn.add("udpv"+strings.TrimPrefix(line, "udp"), "udpv:async-socket")
				}
			}
		}
		// local datagrams arrive through the adapter's receive path (processPacket, pooled buffers, UDPVirtualConn.Read)
		for _, uevs := range [][]string{{"6162"}, {"61", "-", "626364", "65"}, {"z300x3", "6162", "z255x8"}} {
			line := udpLine("hold", uevs, "eof", false, tds, uncut, "-", []int{total / 2}, "utuutsu")
			rn.add("udpv"+strings.TrimPrefix(line, "udp"), "udpv:adapter-receive")
		}
		for cut := 0; cut <= total && total <= 40; cut++ {
			line := udpLine("hold", nil, "eof", false, tds, cut, "-", []int{3, 2, 4}, "ttstts")
			rn.add("udpv"+strings.TrimPrefix(line, "udp"), "udpv:async-socket")
		}
	}
	// (6) random mix
	rounds = 300
	if thorough {
		rounds = 25000
	}
	for i := 0; i < rounds; i++ {
		var evs []string
		ne := r.Intn(4)
		for j := 0; j < ne; j++ {
			switch r.Intn(10) {
			case 0:
				evs = append(evs, "t")
			case 1:
				evs = append(evs, "-")
			default:
				evs = append(evs, randHex(r, 1+r.Intn(5)))
			}
		}
		var tds []string
		nt := r.Intn(4)
		for j := 0; j < nt; j++ {
			tds = append(tds, randHex(r, 1+r.Intn(6)))
		}
		total := encLen(tds)
		cut := uncut
		eff := total
		if r.Intn(2) == 0 {
			cut = r.Intn(total + 1)
			eff = cut
		}
		junk := "-"
		if cut == uncut && r.Intn(6) == 0 {
			junk = vc.Pick(r, []string{"0000", "00", "0002ff"})
			eff += tokLen(junk)
		}
		utail := vc.Pick(r, []string{"eof", "err", "hold"})
		ttail := vc.Pick(r, []string{"eof", "err", "hold"})
		if utail == "hold" && ttail == "hold" {
			ttail = "eof"
		}
		sizes := randSizes(r, eff)
		nch := len(sizes)
		sc := randSched(r, 'u', 't', ne+1, nch+1)
		if i%3 == 1 {
			sc = withHolds(r, sc, map[byte]byte{'u': 'U', 't': 'T'}, map[byte]byte{'u': 'w', 't': 'v'})
		}
		rn.add(udpLine(utail, evs, ttail, r.Intn(4) == 0, tds, cut, junk, sizes, sc), "udp:random")
	}
}

// ---------------------------------------------------------------- SOCKS5 UDP tunnel codec generators

func s5Line(tail string, ds []string, cut int, sizes []int) string {
	var sb strings.Builder
	fmt.Fprintf(&sb, "s5 %s ds %d", tail, len(ds))
	for _, d := range ds {
		sb.WriteString(" " + d)
	}
	fmt.Fprintf(&sb, " cut %d ch %d", cut, len(sizes))
	for _, s := range sizes {
		fmt.Fprintf(&sb, " %d", s)
	}
	return sb.String()
}

func genS5(rn *runner, r *vc.Rand, thorough bool) {
	sets := [][]string{{"61"}, {"61", "6263"}, {"616263", "-", "64", "6566"}, {"-", "61"}}
	if thorough {
		sets = append(sets, []string{"6162636465666768", "69", "6a6b6c", "6d6e"}, []string{"z300x5", "7a", "z257x9"})
	}
	// (1) coalescing: the whole burst in ONE read, k records per read, every single split position, one-byte
	// reads — for every cut offset, both tails
	for _, ds := range sets {
		total := encLen(ds)
		for cut := 0; cut <= total; cut++ {
			if total > 40 && cut%7 != 0 && cut != total {
				continue
			}
			tail := []string{"eof", "err"}[cut%2]
			rn.add(s5Line(tail, ds, cut, nil), "s5:coalesced-one-read")
			rn.add(s5Line(tail, ds, cut, ones(cut)), "s5:one-byte-reads")
			maxSplit := cut
			if total > 40 {
				maxSplit = 0
			}
			for p := 1; p < maxSplit; p++ {
				rn.add(s5Line(tail, ds, cut, []int{p}), "s5:split-every-offset")
			}
		}
		// record-aligned reads: j records per read
		for j := 1; j <= len(ds); j++ {
			var sizes []int
			acc, cnt := 0, 0
			for _, d := range ds {
				acc += 2 + tokLen(d)
				cnt++
				if cnt == j {
					sizes = append(sizes, acc)
					acc, cnt = 0, 0
				}
			}
			rn.add(s5Line("eof", ds, uncut, sizes), "s5:records-per-read")
		}
	}
	// (2) what the peer's iocopy.UDP really sends: bursts of many datagrams in one tunnel write, sizes around the
	// prefix boundaries
	for _, sz := range []int{255, 256, 257, 1000, 65535} {
		d := fmt.Sprintf("z%dx%d", sz, sz%11)
		rn.add(s5Line("eof", []string{"6162", d, "63", d}, uncut, nil), "s5:burst")
		rn.add(s5Line("err", []string{d, "6162"}, uncut, []int{2 + sz + 1}), "s5:burst")
		rn.add(s5Line("eof", []string{d, "6162"}, 2+sz+3, []int{1, sz}), "s5:burst")
	}
	// (2b) payload sizes around every power of two and the usual buffer / MTU sizes (scratch-buffer limits, off-by-one
	// and off-by-header guards): the datagram of that size is followed by a short one, so a lost or extra byte desynchronises
	var edge []int
	for k := 3; k <= 16; k++ {
		for d := -3; d <= 3; d++ {
			if v := (1 << k) + d; v >= 1 && v <= 65535 {
				edge = append(edge, v)
			}
		}
	}
	edge = append(edge, 1200, 1350, 1400, 1470, 1471, 1472, 1473, 1498, 1499, 1500, 1501, 8998, 9000, 65505, 65506, 65507)
	for i, sz := range edge {
		if !thorough && sz > 5000 && (sz%4096 != 0 && sz != 65535 && sz != 65507) {
			continue // quick: exact limits only for the big sizes
		}
		d := fmt.Sprintf("z%dx%d", sz, 1+i%200)
		rn.add(s5Line("eof", []string{d, "6162"}, uncut, nil), "s5:size-edge")
		rn.add(s5Line("err", []string{"63", d, d, "64"}, uncut, []int{3 + 2 + sz + 1}), "s5:size-edge")
	}
	// (3) random bursts and partitions
	rounds := 300
	if thorough {
		rounds = 8000
	}
	for i := 0; i < rounds; i++ {
		var ds []string
		n := 1 + r.Intn(6)
		for j := 0; j < n; j++ {
			switch r.Intn(12) {
			case 0:
				ds = append(ds, "-")
			case 1:
				ds = append(ds, fmt.Sprintf("z%dx%d", 250+r.Intn(20), r.Intn(200)))
			default:
				ds = append(ds, randHex(r, 1+r.Intn(8)))
			}
		}
		total := encLen(ds)
		cut := uncut
		eff := total
		if r.Intn(3) == 0 {
			cut = r.Intn(total + 1)
			eff = cut
		}
		var sizes []int
		switch r.Intn(4) {
		case 0: // everything in one read
		case 1:
			sizes = ones(eff)
		default:
			sizes = randSizes(r, eff)
		}
		rn.add(s5Line(vc.Pick(r, []string{"eof", "err"}), ds, cut, sizes), "s5:random")
	}
}
