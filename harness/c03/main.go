//go:build verif

// Harness for C03: sequences of handshake messages against the REAL ServerAuthHandler +
// SessionManager + built-in CloudControl (memory storage) + SecretKeyManager +
// BruteForceProtector + IPManager + RateLimiter. One fresh stack per sequence.
//
// case:  seq ips <i0,i1,..> nc <n> rl <B> : <ev> ; <ev> ; ...
//   ev:  fc <c> <ty>                      first connection (ClientID 0, token "new-client"; ty a: token "anonymous:x")
//        hs <c> <ty> <k|z> <resp>         ClientID of client #k (k >= table size: an id that does not exist; z: id 0, token "x")
//             resp: -  (phase 1)  |  j (junk)  |  h<key>.L<d> / h<key>.P<d>
//                   = HMAC-SHA256(secret of client #key, latest / previous challenge the client received on connection d)
//        mal <c> | emp <c>                not-JSON payload | empty payload
//        ban <ip> | unban <ip> | bl <ip> | unbl <ip> | refill <ip>
//        banp <ip> | bans <ip>            permanent ban | temporary ban that has lapsed before the next event
//        reban <ip> <p|t>                 lapsed ban, IsBanned starts its async unban, the address is banned anew (permanently |
//                                         for 1 h) before that unban runs
//        blr <g> | unblr <g>               blacklist / remove the CIDR range g (covers addresses 2g and 2g+1)
//        restart                          a new IPManager over the same storage replaces the live one
//        exp <k> | del <k> | strip <k>    credential expiry | config deleted | config without encrypted key
//        claim <k> | bind <k> | ext <k>   UpdateClient with a UserID (ExpiresAt kept) | BindToUser (cleared) | ExtendExpiration(30)
//        sec <k> <u|d|e|l>                stored secret becomes usable | undecryptable (sealed under another master key) |
//                                         empty ciphertext | legacy (only the deprecated plaintext field)
//   nc:  number of pre-provisioned clients (all usable) or one letter u|d|e|l per client
//   key: <k> secret client #k was given | E the empty key | C<k> stored ciphertext bytes of #k | P<k> deprecated plaintext field of #k
//   ty:  c control | t tunnel | e "" | x "weird" | a (fc only) control with token "anonymous:x"
// obs:   per event  <resp> c <conn>.. r <lookup>.. b <bits> l <bits>   joined by " ; "
//   resp: ok | new<k> | ch<j> | fail | none | -        conn: - | <auth>/<id|->/<pending|->
package main

import (
	"bytes"
	"context"
	"crypto/hmac"
	"crypto/sha256"
	"encoding/base64"
	"encoding/hex"
	"encoding/json"
	"flag"
	"fmt"
	"io"
	"net"
	"os"
	"reflect"
	"runtime"
	"strconv"
	"strings"
	"sync"
	"time"

	"github.com/sirupsen/logrus"

	"tunnox-core/internal/app/server"
	"tunnox-core/internal/cloud/factories"
	"tunnox-core/internal/cloud/managers"
	"tunnox-core/internal/cloud/repos"
	"tunnox-core/internal/core/idgen"
	corelog "tunnox-core/internal/core/log"
	"tunnox-core/internal/core/storage"
	"tunnox-core/internal/core/types"
	"tunnox-core/internal/packet"
	"tunnox-core/internal/protocol/session"
	"tunnox-core/internal/security"
	"tunnox-core/internal/stream"
	vc "tunnox-core/internal/verifharness/common"
)

// ---- scripted transport: a net.Conn that records what the server writes

type fconn struct {
	mu   sync.Mutex
	buf  bytes.Buffer
	addr net.Addr
}

func (c *fconn) Read(p []byte) (int, error) { return 0, io.EOF }
func (c *fconn) Write(p []byte) (int, error) {
	c.mu.Lock()
	defer c.mu.Unlock()
	return c.buf.Write(p)
}
func (c *fconn) take() []byte {
	c.mu.Lock()
	defer c.mu.Unlock()
	b := append([]byte(nil), c.buf.Bytes()...)
	c.buf.Reset()
	return b
}
func (c *fconn) Close() error                       { return nil }
func (c *fconn) LocalAddr() net.Addr                { return &net.TCPAddr{IP: net.IPv4(127, 0, 0, 1), Port: 7000} }
func (c *fconn) RemoteAddr() net.Addr               { return c.addr }
func (c *fconn) SetDeadline(t time.Time) error      { return nil }
func (c *fconn) SetReadDeadline(t time.Time) error  { return nil }
func (c *fconn) SetWriteDeadline(t time.Time) error { return nil }

// address i lies in range i/2: addresses 2g and 2g+1 are 10.7.g.1 and 10.7.g.2, range g is 10.7.g.0/24
type strAddr string

func (a strAddr) Network() string { return "verif" }
func (a strAddr) String() string  { return string(a) }

func ipStr(i int) string    { return fmt.Sprintf("10.7.%d.%d", i/2, i%2+1) }
func rangeStr(g int) string { return fmt.Sprintf("10.7.%d.0/24", g) }

// ---- one server stack

type client struct {
	id     int64
	secret string
}

type stack struct {
	cancel  context.CancelFunc
	ctx     context.Context
	sm      *session.SessionManager
	cc      *managers.BuiltinCloudControl
	cfg     *repos.ClientConfigRepository
	skm     *security.SecretKeyManager
	clientSvc interface{} // the client service behind the cloud control (claim / bind / extend go through its API)
	stor    storage.Storage
	skmAlt  *security.SecretKeyManager // another master key: what it seals the server cannot open
	skmIss  *security.SecretKeyManager // the instance the anonymous-credential service seals new secrets with (same master key)
	bfp     *security.BruteForceProtector
	ipm     *security.IPManager
	rl      *security.RateLimiter
	conns   []*fconn
	connIDs []string
	ips     []int
	nIPs    int
	table   []client
	chals   []string
	lastCh  []int
	prevCh  []int
}

var rebanMu sync.Mutex

var masterKey = base64.StdEncoding.EncodeToString(bytes.Repeat([]byte{0x5a}, 32))
var otherMasterKey = base64.StdEncoding.EncodeToString(bytes.Repeat([]byte{0xa5}, 32))

// setSecret rewrites what is stored for the client's secret.
func (st *stack) setSecret(k int, state byte) error {
	id := st.table[k].id
	cfg, err := st.cfg.GetConfig(id)
	if err != nil || cfg == nil {
		return nil // config deleted: nothing to rewrite
	}
	plain := st.table[k].secret
	cfg.SecretKey = ""
	switch state {
	case 'u':
		cfg.SecretKeyEncrypted, err = st.skm.Encrypt(plain)
	case 'd':
		cfg.SecretKeyEncrypted, err = st.skmAlt.Encrypt(plain)
	case 'e':
		cfg.SecretKeyEncrypted = ""
	case 'l':
		cfg.SecretKeyEncrypted = ""
		cfg.SecretKey = plain
	default:
		return fmt.Errorf("bad secret state %q", state)
	}
	if err != nil {
		return err
	}
	return st.cfg.SaveConfig(cfg)
}

func newStack(ips []int, kinds string, nc int, secs string, burst int) (*stack, error) {
	ctx, cancel := context.WithCancel(context.Background())
	st := &stack{cancel: cancel, ctx: ctx, ips: ips}
	stor := storage.NewMemoryStorage(ctx)
	st.stor = stor
	repo := repos.NewRepository(stor)
	deps := factories.CreateBuiltinCloudControlDepsWithRepo(stor, repo, ctx)
	st.clientSvc = deps.ClientService
	st.cc = managers.NewBuiltinCloudControlWithDeps(ctx, managers.DefaultConfig(), stor, deps)
	st.cfg = repos.NewClientConfigRepository(repo)
	skm, err := security.NewSecretKeyManager(&security.SecretKeyConfig{MasterKey: masterKey})
	if err != nil {
		return nil, err
	}
	st.skm = skm
	if st.skmAlt, err = security.NewSecretKeyManager(&security.SecretKeyConfig{MasterKey: otherMasterKey}); err != nil {
		return nil, err
	}
	if st.skmIss, err = security.NewSecretKeyManager(&security.SecretKeyConfig{MasterKey: masterKey}); err != nil {
		return nil, err
	}
	st.cc.SetSecretKeyManager(st.skmIss)
	st.sm = session.NewSessionManager(idgen.NewIDManager(stor, ctx), ctx)
	st.bfp = security.NewBruteForceProtector(nil, ctx)
	st.ipm = security.NewIPManager(stor, ctx)
	// Rate 0: no refill while the sequence runs; "refill" events model elapsed time.
	st.rl = security.NewRateLimiter(&security.RateLimitConfig{Rate: 0, Burst: burst, TTL: time.Hour}, nil, ctx)
	st.sm.SetAuthHandler(server.NewServerAuthHandler(st.cc, st.sm, st.bfp, st.ipm, st.rl, skm))
	st.sm.SetCloudControl(session.NewCloudControlAdapter(st.cc))
	st.sm.SetNodeID("verif-node")
	for i, ip := range ips {
		if ip+1 > st.nIPs {
			st.nIPs = ip + 1
		}
		var addr net.Addr = &net.TCPAddr{IP: net.ParseIP(ipStr(ip)), Port: 40000 + i}
		if i < len(kinds) {
			switch kinds[i] {
			case 'u':
				addr = &net.UDPAddr{IP: net.ParseIP(ipStr(ip)), Port: 40000 + i}
			case 's': // a transport adapter's own address type: only String() "host:port" is available
				addr = strAddr(fmt.Sprintf("%s:%d", ipStr(ip), 40000+i))
			case 'm': // the same IPv4 address as a 16-byte IPv4-mapped IPv6 address
				addr = &net.TCPAddr{IP: net.ParseIP(ipStr(ip)).To16(), Port: 40000 + i}
			}
		}
		fc := &fconn{addr: addr}
		conn, err := st.sm.CreateConnection(fc, fc)
		if err != nil {
			return nil, err
		}
		st.conns = append(st.conns, fc)
		st.connIDs = append(st.connIDs, conn.ID)
		st.lastCh = append(st.lastCh, -1)
		st.prevCh = append(st.prevCh, -1)
	}
	for i := 0; i < nc; i++ {
		cl, err := st.cc.GenerateAnonymousCredentials()
		if err != nil {
			return nil, err
		}
		st.table = append(st.table, client{cl.ID, cl.SecretKeyPlaintext})
		if i < len(secs) && secs[i] != 'u' {
			if err := st.setSecret(i, secs[i]); err != nil {
				return nil, err
			}
		}
	}
	return st, nil
}

func (st *stack) close() {
	st.sm.Close()
	st.cancel()
}

func (st *stack) clientIdx(id int64) string {
	if id == 0 {
		return "-"
	}
	for i, c := range st.table {
		if c.id == id {
			return strconv.Itoa(i)
		}
	}
	return "?"
}

func (st *stack) chalIdx(s string, add bool) string {
	if s == "" {
		return "-"
	}
	for i, c := range st.chals {
		if c == s {
			return strconv.Itoa(i)
		}
	}
	if add {
		st.chals = append(st.chals, s)
		return strconv.Itoa(len(st.chals) - 1)
	}
	return "?"
}

func (st *stack) connIdx(id string) string {
	for i, c := range st.connIDs {
		if c == id {
			return strconv.Itoa(i)
		}
	}
	return "?"
}

// pendingOf reads the connection's pending challenge without depending on the exact shape of the accessor
// (GetPendingChallenge() string, or a variant that also returns who the challenge was issued for): the first string
// result of the method, else the exported field.
func pendingOf(ctl interface{}) string {
	v := reflect.ValueOf(ctl)
	if m := v.MethodByName("GetPendingChallenge"); m.IsValid() && m.Type().NumIn() == 0 {
		for _, r := range m.Call(nil) {
			if r.Kind() == reflect.String {
				return r.String()
			}
		}
	}
	if v.Kind() == reflect.Ptr && !v.IsNil() {
		if f := v.Elem().FieldByName("PendingChallenge"); f.IsValid() && f.Kind() == reflect.String {
			return f.String()
		}
	}
	return ""
}

func hmacHex(secret, challenge string) string {
	h := hmac.New(sha256.New, []byte(secret))
	h.Write([]byte(challenge))
	return hex.EncodeToString(h.Sum(nil))
}

func tyString(ty string) string {
	switch ty {
	case "c", "a", "b":
		return "control"
	case "t":
		return "tunnel"
	case "e":
		return ""
	}
	return "weird"
}

// respTerm turns the symbolic response of the case into the concrete string.
func (st *stack) respTerm(r string) (string, error) {
	switch {
	case r == "-":
		return "", nil
	case r == "j":
		return "6a756e6b2d726573706f6e7365", nil
	case len(r) >= 3 && r[0] == 'e' && (r[1] == 'L' || r[1] == 'P'):
		// not an HMAC at all: the challenge string itself, echoed back
		d, err := strconv.Atoi(r[2:])
		if err != nil || d < 0 {
			return "", fmt.Errorf("bad response term %q", r)
		}
		ch := -1
		if d < len(st.lastCh) {
			ch = st.lastCh[d]
			if r[1] == 'P' {
				ch = st.prevCh[d]
			}
		}
		if ch < 0 {
			return "echo-of-nothing", nil
		}
		return st.chals[ch], nil
	case strings.HasPrefix(r, "h"):
		parts := strings.SplitN(r[1:], ".", 2)
		if len(parts) != 2 || len(parts[1]) < 2 {
			return "", fmt.Errorf("bad response term %q", r)
		}
		d, err2 := strconv.Atoi(parts[1][1:])
		if err2 != nil {
			return "", fmt.Errorf("bad response term %q", r)
		}
		stored := func(k int) (enc, plain string) {
			if k < len(st.table) {
				if cfg, err := st.cfg.GetConfig(st.table[k].id); err == nil && cfg != nil {
					return cfg.SecretKeyEncrypted, cfg.SecretKey
				}
			}
			return fmt.Sprintf("no-such-ciphertext-%d", k), fmt.Sprintf("no-such-plaintext-%d", k)
		}
		var secret string
		switch ks := parts[0]; {
		case ks == "E":
			secret = ""
		case strings.HasPrefix(ks, "C") || strings.HasPrefix(ks, "P"):
			k, err := strconv.Atoi(ks[1:])
			if err != nil || k < 0 {
				return "", fmt.Errorf("bad response term %q", r)
			}
			enc, plain := stored(k)
			secret = enc
			if ks[0] == 'P' {
				secret = plain
			}
		default:
			key, err := strconv.Atoi(ks)
			if err != nil || key < 0 {
				return "", fmt.Errorf("bad response term %q", r)
			}
			secret = fmt.Sprintf("no-such-secret-%d", key)
			if key < len(st.table) {
				secret = st.table[key].secret
			}
		}
		ch := -1
		if d < len(st.lastCh) {
			switch parts[1][0] {
			case 'L':
				ch = st.lastCh[d]
			case 'P':
				ch = st.prevCh[d]
			default:
				return "", fmt.Errorf("bad response term %q", r)
			}
		}
		chal := fmt.Sprintf("never-issued-%d", d)
		if ch >= 0 {
			chal = st.chals[ch]
		}
		return hmacHex(secret, chal), nil
	}
	return "", fmt.Errorf("bad response term %q", r)
}

// deliver hands one Handshake packet to the real SessionManager and classifies what was written back.
func (st *stack) deliver(c int, payload []byte, isFC bool) string {
	connID := fmt.Sprintf("no-such-connection-%d", c)
	if c < len(st.connIDs) {
		connID = st.connIDs[c]
		st.conns[c].take()
	}
	_ = st.sm.HandlePacket(&types.StreamPacket{ConnectionID: connID,
		Packet: &packet.TransferPacket{PacketType: packet.Handshake, Payload: payload}})
	if c >= len(st.connIDs) {
		return "none"
	}
	// every challenge issued is pending on this connection right after the step: number it in order of issue
	ctl := st.sm.GetControlConnection(connID)
	if ctl != nil {
		st.chalIdx(pendingOf(ctl), true)
		if id := ctl.GetClientID(); isFC && id != 0 && st.clientIdx(id) == "?" {
			// a new identity was issued: the client learns the secret from the response; if the response
			// could not be delivered we still record the server-side secret so that later terms are defined
			secret := ""
			if cfg, err := st.cfg.GetConfig(id); err == nil && cfg != nil {
				secret, _ = st.skm.Decrypt(cfg.SecretKeyEncrypted)
			}
			st.table = append(st.table, client{id, secret})
		}
	}
	written := st.conns[c].take()
	if len(written) == 0 {
		return "none"
	}
	sp := stream.NewStreamProcessor(bytes.NewReader(written), nil, context.Background())
	defer sp.Close()
	for {
		p, _, err := sp.ReadPacket()
		if err != nil || p == nil {
			return "unreadable"
		}
		if p.PacketType&0x3F != packet.HandshakeResp {
			continue
		}
		var r packet.HandshakeResponse
		if err := json.Unmarshal(p.Payload, &r); err != nil {
			return "unreadable"
		}
		switch {
		case r.Success && r.Challenge == "" && !r.NeedResponse && r.ClientID != 0:
			k := st.clientIdx(r.ClientID)
			if k != "?" {
				i, _ := strconv.Atoi(k)
				if r.SecretKey != "" {
					st.table[i].secret = r.SecretKey
				}
			}
			return "new" + k
		case r.Success && r.Challenge == "" && !r.NeedResponse:
			return "ok"
		case !r.Success && r.NeedResponse && r.Challenge != "":
			j := st.chalIdx(r.Challenge, true)
			n, _ := strconv.Atoi(j)
			st.prevCh[c] = st.lastCh[c]
			st.lastCh[c] = n
			return "ch" + j
		case !r.Success && !r.NeedResponse && r.Challenge == "" && r.ClientID == 0 && r.SecretKey == "":
			return "fail"
		}
		return "weird"
	}
}

func (st *stack) observe() string {
	var sb strings.Builder
	sb.WriteString(" c")
	for _, id := range st.connIDs {
		ctl := st.sm.GetControlConnection(id)
		if ctl == nil {
			sb.WriteString(" -")
			continue
		}
		a := "0"
		if ctl.IsAuthenticated() {
			a = "1"
		}
		fmt.Fprintf(&sb, " %s/%s/%s", a, st.clientIdx(ctl.GetClientID()), st.chalIdx(pendingOf(ctl), false))
	}
	sb.WriteString(" r")
	for _, cl := range st.table {
		ctl := st.sm.GetControlConnectionByClientID(cl.id)
		if ctl == nil {
			sb.WriteString(" -")
		} else {
			sb.WriteString(" " + st.connIdx(ctl.GetConnID()))
		}
	}
	sb.WriteString(" b ")
	for i := 0; i < st.nIPs; i++ {
		if banned, _ := st.bfp.IsBanned(ipStr(i)); banned {
			sb.WriteString("1")
		} else {
			sb.WriteString("0")
		}
	}
	sb.WriteString(" l ")
	for i := 0; i < st.nIPs; i++ {
		if ok, _ := st.ipm.IsAllowed(ipStr(i)); ok {
			sb.WriteString("0")
		} else {
			sb.WriteString("1")
		}
	}
	return sb.String()
}

func (st *stack) clientID(ref string) (int64, string, error) {
	switch ref {
	case "z":
		return 0, "x", nil
	case "y": // id 0 with a token that only looks like a first-connection token
		return 0, "anonymous", nil
	case "m": // a negative id
		return -1, "", nil
	}
	k, err := strconv.Atoi(ref)
	if err != nil || k < 0 {
		return 0, "", fmt.Errorf("bad client reference %q", ref)
	}
	if k < len(st.table) {
		return st.table[k].id, "", nil
	}
	return 100000000 + int64(k), "", nil // outside the range GenerateClientID draws from
}

func (st *stack) step(ev []string) (string, error) {
	argn := func(i int) (int, error) {
		if i >= len(ev) {
			return 0, fmt.Errorf("event %v: missing argument", ev)
		}
		return strconv.Atoi(ev[i])
	}
	if len(ev) == 0 {
		return "", fmt.Errorf("empty event")
	}
	switch ev[0] {
	case "fc":
		c, err := argn(1)
		if err != nil || len(ev) != 3 {
			return "", fmt.Errorf("bad event %v", ev)
		}
		tok := "new-client"
		if ev[2] == "a" {
			tok = "anonymous:x"
		} else if ev[2] == "b" {
			tok = "anonymous:"
		}
		req := packet.HandshakeRequest{ClientID: 0, Token: tok, Version: "3", Protocol: "tcp", ConnectionType: tyString(ev[2])}
		b, _ := json.Marshal(req)
		return st.deliver(c, b, true), nil
	case "hs":
		c, err := argn(1)
		if err != nil || len(ev) != 5 {
			return "", fmt.Errorf("bad event %v", ev)
		}
		id, tok, err := st.clientID(ev[3])
		if err != nil {
			return "", err
		}
		resp, err := st.respTerm(ev[4])
		if err != nil {
			return "", err
		}
		if ev[2] == "x" && id != 0 {
			tok = "new-client" // a first-connection token together with a client id is not a first connection
		}
		req := packet.HandshakeRequest{ClientID: id, Token: tok, Version: "3", Protocol: "tcp", ConnectionType: tyString(ev[2]), ChallengeResponse: resp}
		b, _ := json.Marshal(req)
		return st.deliver(c, b, false), nil
	case "mal":
		c, err := argn(1)
		if err != nil {
			return "", err
		}
		return st.deliver(c, []byte(`{"client_id": "not-a-number"`), false), nil
	case "emp":
		c, err := argn(1)
		if err != nil {
			return "", err
		}
		return st.deliver(c, nil, false), nil
	case "wl", "unwl":
		i, err := argn(1)
		if err != nil || i < 0 {
			return "", fmt.Errorf("bad event %v", ev)
		}
		if ev[0] == "wl" {
			return "-", st.ipm.AddToWhitelist(ipStr(i), "verif", "verif")
		}
		st.ipm.RemoveFromWhitelist(ipStr(i))
		return "-", nil
	case "issue":
		if len(ev) != 2 || (ev[1] != "fail" && ev[1] != "ok") {
			return "", fmt.Errorf("bad event %v", ev)
		}
		st.skmIss.VerifSetBroken(ev[1] == "fail", bytes.Repeat([]byte{0x5a}, 32))
		return "-", nil
	case "claim", "bind", "ext":
		k, err := argn(1)
		if err != nil || k < 0 {
			return "", fmt.Errorf("bad event %v", ev)
		}
		if k >= len(st.table) {
			return "-", nil
		}
		id := st.table[k].id
		if cfg, err := st.cfg.GetConfig(id); err != nil || cfg == nil {
			return "-", nil // deleted
		}
		switch ev[0] {
		case "claim": // the management API's update path: sets the UserID, keeps ExpiresAt
			cl, err := st.cc.GetClient(id)
			if err != nil || cl == nil {
				return "", fmt.Errorf("claim: GetClient: %v", err)
			}
			cl.UserID = "verif-user"
			return "-", st.cc.UpdateClient(cl)
		case "bind":
			svc, ok := st.clientSvc.(interface{ BindToUser(int64, string) error })
			if !ok {
				return "", fmt.Errorf("client service has no BindToUser")
			}
			return "-", svc.BindToUser(id, "verif-user")
		default:
			svc, ok := st.clientSvc.(interface{ ExtendExpiration(int64, int) error })
			if !ok {
				return "", fmt.Errorf("client service has no ExtendExpiration")
			}
			return "-", svc.ExtendExpiration(id, 30)
		}
	case "unexp":
		k, err := argn(1)
		if err != nil || k < 0 {
			return "", fmt.Errorf("bad event %v", ev)
		}
		if k >= len(st.table) {
			return "-", nil
		}
		cfg, err := st.cfg.GetConfig(st.table[k].id)
		if err != nil || cfg == nil {
			return "-", nil
		}
		cfg.ExpiresAt = nil
		return "-", st.cfg.SaveConfig(cfg)
	case "restart":
		// the process restarts / another instance takes over: a new IPManager loads the lists from the same storage
		st.ipm = security.NewIPManager(st.stor, st.ctx)
		st.sm.SetAuthHandler(server.NewServerAuthHandler(st.cc, st.sm, st.bfp, st.ipm, st.rl, st.skm))
		return "-", nil
	case "blr", "unblr":
		g, err := argn(1)
		if err != nil || g < 0 {
			return "", fmt.Errorf("bad event %v", ev)
		}
		if ev[0] == "blr" {
			return "-", st.ipm.AddToBlacklist(rangeStr(g), time.Hour, "verif", "verif")
		}
		st.ipm.RemoveFromBlacklist(rangeStr(g))
		return "-", nil
	case "reban":
		// the interleaving "expired temporary ban not yet swept; IsBanned says no and starts its asynchronous unban; the
		// address is banned anew BEFORE that unban runs; then the unban runs": the new ban must survive.
		// One P and no yield between IsBanned and BanIP keep the spawned goroutine from running in between.
		i, err := argn(1)
		if err != nil || i < 0 || len(ev) != 3 || (ev[2] != "p" && ev[2] != "t") {
			return "", fmt.Errorf("bad event %v", ev)
		}
		ip := ipStr(i)
		st.bfp.BanIP(ip, time.Nanosecond, "verif-short")
		for t0 := time.Now(); time.Since(t0) < 5*time.Microsecond; {
		}
		rebanMu.Lock()
		old := runtime.GOMAXPROCS(1)
		st.bfp.IsBanned(ip)
		if ev[2] == "p" {
			st.bfp.BanIP(ip, 0, "verif-permanent")
		} else {
			st.bfp.BanIP(ip, time.Hour, "verif")
		}
		runtime.GOMAXPROCS(old)
		rebanMu.Unlock()
		for j := 0; j < 20; j++ { // let the asynchronous unban run
			runtime.Gosched()
		}
		time.Sleep(300 * time.Microsecond)
		return "-", nil
	case "banp", "bans":
		i, err := argn(1)
		if err != nil || i < 0 {
			return "", fmt.Errorf("bad event %v", ev)
		}
		if ev[0] == "banp" {
			st.bfp.BanIP(ipStr(i), 0, "verif-permanent")
		} else {
			// a temporary ban whose duration has run out by the time anybody looks again
			st.bfp.BanIP(ipStr(i), time.Nanosecond, "verif-short")
			time.Sleep(20 * time.Microsecond)
		}
		return "-", nil
	case "ban", "unban", "bl", "unbl", "refill":
		i, err := argn(1)
		if err != nil {
			return "", err
		}
		switch ev[0] {
		case "ban":
			st.bfp.BanIP(ipStr(i), time.Hour, "verif")
		case "unban":
			st.bfp.UnbanIP(ipStr(i))
		case "bl":
			if err := st.ipm.AddToBlacklist(ipStr(i), time.Hour, "verif", "verif"); err != nil {
				return "", err
			}
		case "unbl":
			st.ipm.RemoveFromBlacklist(ipStr(i))
		case "refill":
			st.rl.VerifRefillIP(ipStr(i))
		}
		return "-", nil
	case "sec":
		k, err := argn(1)
		if err != nil || len(ev) != 3 || len(ev[2]) != 1 {
			return "", fmt.Errorf("bad event %v", ev)
		}
		if k >= len(st.table) {
			return "-", nil
		}
		return "-", st.setSecret(k, ev[2][0])
	case "exp", "del", "strip":
		k, err := argn(1)
		if err != nil {
			return "", err
		}
		if k >= len(st.table) {
			return "-", nil
		}
		id := st.table[k].id
		if ev[0] == "del" {
			return "-", st.cfg.DeleteConfig(id)
		}
		cfg, err := st.cfg.GetConfig(id)
		if err != nil || cfg == nil {
			return "-", nil // already deleted
		}
		if ev[0] == "exp" {
			past := time.Now().Add(-time.Hour)
			cfg.ExpiresAt = &past
		} else {
			cfg.SecretKeyEncrypted = ""
		}
		return "-", st.cfg.SaveConfig(cfg)
	}
	return "", fmt.Errorf("unknown event %v", ev)
}

// ---- case execution

func parseHeader(toks []string) (ips []int, kinds string, nc int, secs string, burst int, rest []string, err error) {
	if len(toks) < 8 || toks[0] != "seq" || toks[1] != "ips" || toks[3] != "nc" || toks[5] != "rl" || toks[7] != ":" {
		return nil, "", 0, "", 0, nil, fmt.Errorf("bad header")
	}
	for _, s := range strings.Split(toks[2], ",") {
		kind := byte('t')
		if n := len(s); n > 0 && strings.ContainsRune("tusm", rune(s[n-1])) {
			kind, s = s[n-1], s[:n-1]
		}
		kinds += string(kind)
		v, e := strconv.Atoi(s)
		if e != nil {
			return nil, "", 0, "", 0, nil, e
		}
		ips = append(ips, v)
	}
	if nc, err = strconv.Atoi(toks[4]); err != nil {
		secs = toks[4]
		nc = len(secs)
		err = nil
		for _, ch := range secs {
			if !strings.ContainsRune("udel", ch) {
				return nil, "", 0, "", 0, nil, fmt.Errorf("bad client table %q", secs)
			}
		}
	}
	if burst, err = strconv.Atoi(toks[6]); err != nil {
		return
	}
	return ips, kinds, nc, secs, burst, toks[8:], nil
}

func runSeq(caseStr string) string {
	res := make(chan string, 1)
	go func() {
		defer func() {
			if r := recover(); r != nil {
				res <- "panic " + strings.ReplaceAll(fmt.Sprint(r), " ", "_")
			}
		}()
		ips, kinds, nc, secs, burst, rest, err := parseHeader(strings.Fields(caseStr))
		if err != nil {
			res <- "bad-case " + strings.ReplaceAll(err.Error(), " ", "_")
			return
		}
		st, err := newStack(ips, kinds, nc, secs, burst)
		if err != nil {
			res <- "setup-failed " + strings.ReplaceAll(err.Error(), " ", "_")
			return
		}
		defer st.close()
		var obs []string
		var ev []string
		flush := func() bool {
			if len(ev) == 0 {
				return true
			}
			r, err := st.step(ev)
			ev = nil
			if err != nil {
				res <- "bad-case " + strings.ReplaceAll(err.Error(), " ", "_")
				return false
			}
			obs = append(obs, r+st.observe())
			return true
		}
		for _, t := range rest {
			if t == ";" {
				if !flush() {
					return
				}
				continue
			}
			ev = append(ev, t)
		}
		if !flush() {
			return
		}
		res <- strings.Join(obs, " ; ")
	}()
	select {
	case s := <-res:
		return s
	case <-time.After(30 * time.Second):
		return "timeout"
	}
}

// ---- generators (produce case strings only)

const hdr2 = "seq ips 0,1 nc 2 rl 20 : "

// the exhaustive alphabet: 2 connections on 2 addresses, clients A=#0 and B=#1
func alphabet() []string {
	var a []string
	for c := 0; c < 2; c++ {
		o := 1 - c
		a = append(a,
			fmt.Sprintf("fc %d c", c),
			fmt.Sprintf("hs %d c 0 -", c),
			fmt.Sprintf("hs %d c 1 -", c),
			fmt.Sprintf("hs %d c 0 h0.L%d", c, c),
			fmt.Sprintf("hs %d c 1 h1.L%d", c, c),
			fmt.Sprintf("hs %d c 0 h0.P%d", c, c),
			fmt.Sprintf("hs %d c 0 h1.L%d", c, c),
			fmt.Sprintf("hs %d c 0 h0.L%d", c, o),
			fmt.Sprintf("hs %d c 0 j", c),
			fmt.Sprintf("hs %d t 0 -", c),
			fmt.Sprintf("hs %d t 0 h0.L%d", c, c),
			fmt.Sprintf("mal %d", c),
		)
	}
	a = append(a, "ban 0", "unban 0", "bl 0", "exp 0", "blr 0", "restart", "wl 0", "issue fail", "banp 0", "bans 0")
	return a
}

func genExhaustive(depth int, emit func(string, string)) {
	al := alphabet()
	var rec func(prefix []string, d int)
	rec = func(prefix []string, d int) {
		if len(prefix) > 0 {
			emit(hdr2+strings.Join(prefix, " ; "), fmt.Sprintf("exhaustive-len%d", len(prefix)))
		}
		if d == 0 {
			return
		}
		for _, e := range al {
			rec(append(prefix[:len(prefix):len(prefix)], e), d-1)
		}
	}
	rec(nil, depth)
}

// second exhaustive family: client A=#0 usable, V=#1 with an unusable stored secret (state given in the header);
// one connection is enough (connections are symmetric), every key term against V and the degenerate ones against A
func alphabetUnusable() []string {
	return []string{
		"hs 0 c 0 -", "hs 0 c 1 -",
		"hs 0 c 1 hE.L0", "hs 0 c 1 hC1.L0", "hs 0 c 1 hP1.L0", "hs 0 c 1 h0.L0", "hs 0 c 1 h1.L0",
		"hs 0 c 0 h0.L0", "hs 0 c 0 hE.L0", "hs 0 t 1 hE.L0",
		"sec 1 u", "sec 0 d",
	}
}

func genExhaustiveUnusable(depth int, emit func(string, string)) {
	al := alphabetUnusable()
	for _, v := range []string{"d", "e", "l"} {
		hdr := "seq ips 0,1 nc u" + v + " rl 20 : "
		var rec func(prefix []string, d int)
		rec = func(prefix []string, d int) {
			if len(prefix) > 0 {
				emit(hdr+strings.Join(prefix, " ; "), fmt.Sprintf("exhaustive-unusable-len%d", len(prefix)))
			}
			if d == 0 {
				return
			}
			for _, e := range al {
				rec(append(prefix[:len(prefix):len(prefix)], e), d-1)
			}
		}
		rec(nil, depth)
	}
}

// third exhaustive family: the expiry gate against every other way a config changes (one connection, client #0)
func genExhaustiveExpiry(depth int, emit func(string, string)) {
	al := []string{"hs 0 c 0 -", "hs 0 c 0 h0.L0", "exp 0", "unexp 0", "claim 0", "bind 0", "ext 0", "sec 0 d", "sec 0 u"}
	var rec func(prefix []string, d int)
	rec = func(prefix []string, d int) {
		if len(prefix) > 0 {
			emit("seq ips 0,1 nc 2 rl 20 : "+strings.Join(prefix, " ; "), fmt.Sprintf("exhaustive-expiry-len%d", len(prefix)))
		}
		if d == 0 {
			return
		}
		for _, e := range al {
			rec(append(prefix[:len(prefix):len(prefix)], e), d-1)
		}
	}
	rec(nil, depth)
}

func randKey(r *vc.Rand, ncl int, k int) string {
	switch r.Intn(8) {
	case 0:
		return "E"
	case 1:
		return fmt.Sprintf("C%d", k)
	case 2:
		return fmt.Sprintf("P%d", k)
	case 3:
		return strconv.Itoa(r.Intn(ncl + 2))
	}
	return strconv.Itoa(k)
}

// long runs of phase-1 requests: server challenges must stay pairwise distinct however many are issued, and a response
// recorded for an early challenge must not be accepted later (lengths around the powers of two where a pool would wrap)
func genLong(r *vc.Rand, thorough bool, emit func(string, string)) {
	lens := []int{63, 64, 65, 127, 128, 129, 130, 255, 256, 257, 300}
	if thorough {
		lens = append(lens, 383, 384, 511, 512, 513, 640, 1023, 1024, 1025, 1500, 2047, 2048, 2049)
	}
	for _, n := range lens {
		for variant := 0; variant < 3; variant++ {
			n := n + r.Intn(2)*r.Intn(4)
			prefix := 0
			if variant == 2 {
				prefix = r.Intn(40)
			}
			var evs []string
			for i := 0; i < prefix; i++ {
				evs = append(evs, "hs 2 c 1 -")
			}
			// the observed legitimate handshake of client #0 on connection 0
			evs = append(evs, "hs 0 c 0 -", "hs 0 c 0 h0.L0")
			for i := 0; i < n; i++ {
				c := 1
				if variant >= 1 && i%3 == 2 {
					c = 2
				}
				k := 0
				if variant == 1 && i%5 == 4 {
					k = 1
				}
				evs = append(evs, fmt.Sprintf("hs %d c %d -", c, k))
				if i == n-2 || i == n-1 || i == n/2 {
					// the recorded response replayed on the attacker's connection at several offsets
					evs = append(evs, "hs 1 c 0 h0.L0")
				}
			}
			evs = append(evs, "hs 1 c 0 -", "hs 1 c 0 h0.L0", "hs 2 c 0 h0.L0", "hs 1 c 0 -", "hs 1 c 0 h0.L1")
			emit("seq ips 0,1,2 nc 2 rl 20 : "+strings.Join(evs, " ; "), "long-phase1-runs")
		}
	}
}

var tys = []string{"c", "c", "c", "c", "t", "e", "x"}

func randResp(r *vc.Rand, c, nconn, ncl int, target string) string {
	k, err := strconv.Atoi(target)
	if err != nil {
		k = r.Intn(ncl + 1)
	}
	switch r.Intn(13) {
	case 12:
		return fmt.Sprintf("e%s%d", vc.Pick(r, []string{"L", "P"}), r.Intn(nconn))
	case 10, 11:
		return fmt.Sprintf("h%s.L%d", randKey(r, ncl, k), c)
	case 0:
		return "j"
	case 1:
		return fmt.Sprintf("h%d.P%d", k, c)
	case 2:
		return fmt.Sprintf("h%d.L%d", r.Intn(ncl+2), c)
	case 3:
		return fmt.Sprintf("h%d.L%d", k, r.Intn(nconn))
	case 4:
		return fmt.Sprintf("h%d.%s%d", r.Intn(ncl+2), vc.Pick(r, []string{"L", "P"}), r.Intn(nconn+1))
	}
	return fmt.Sprintf("h%d.L%d", k, c)
}

func genRandom(r *vc.Rand, n int, emit func(string, string)) {
	for i := 0; i < n; i++ {
		nconn := 2 + r.Intn(2)
		nip := 1 + r.Intn(nconn)
		ips := make([]string, nconn)
		for j := range ips {
			ips[j] = strconv.Itoa(r.Intn(nip))
			if r.Intn(3) == 0 {
				ips[j] += vc.Pick(r, []string{"u", "s", "m"})
			}
		}
		ncl := 1 + r.Intn(3)
		nctok := strconv.Itoa(ncl)
		if r.Intn(3) == 0 {
			b := make([]byte, ncl)
			for j := range b {
				b[j] = "uuudel"[r.Intn(6)]
			}
			nctok = string(b)
		}
		burst := 20
		if r.Intn(4) == 0 {
			burst = 1 + r.Intn(3)
		}
		ln := 2 + r.Intn(11)
		var evs []string
		issued := 0
		for len(evs) < ln {
			c := r.Intn(nconn)
			ty := vc.Pick(r, tys)
			known := ncl + issued
			pickClient := func() string {
				switch r.Intn(14) {
				case 12:
					return "y"
				case 13:
					return "m"
				case 0:
					return "z"
				case 1:
					return strconv.Itoa(known + r.Intn(3))
				}
				return strconv.Itoa(r.Intn(known))
			}
			switch x := r.Intn(100); {
			case x < 30: // a complete, mostly valid handshake: phase 1 then phase 2
				k := pickClient()
				evs = append(evs, fmt.Sprintf("hs %d %s %s -", c, ty, k))
				if r.Intn(5) == 0 { // something in between
					evs = append(evs, fmt.Sprintf("hs %d %s %s -", r.Intn(nconn), vc.Pick(r, tys), pickClient()))
				}
				ty2 := ty
				if r.Intn(6) == 0 {
					ty2 = vc.Pick(r, tys)
				}
				evs = append(evs, fmt.Sprintf("hs %d %s %s %s", c, ty2, k, randResp(r, c, nconn, known, k)))
				if r.Intn(4) == 0 { // replay
					evs = append(evs, evs[len(evs)-1])
				}
			case x < 42:
				t := ty
				if r.Intn(5) == 0 {
					t = vc.Pick(r, []string{"a", "b"})
				}
				evs = append(evs, fmt.Sprintf("fc %d %s", c, t))
				issued++
			case x < 55:
				evs = append(evs, fmt.Sprintf("hs %d %s %s -", c, ty, pickClient()))
			case x < 72:
				evs = append(evs, fmt.Sprintf("hs %d %s %s %s", c, ty, pickClient(), randResp(r, c, nconn, known, "")))
			case x < 76:
				evs = append(evs, fmt.Sprintf("mal %d", c))
			case x < 79:
				evs = append(evs, fmt.Sprintf("emp %d", c))
			case x < 82:
				bk := vc.Pick(r, []string{"ban", "unban", "ban", "unban", "bl", "unbl", "banp", "bans", "bans", "reban"})
				if bk == "reban" {
					evs = append(evs, fmt.Sprintf("reban %d %s", r.Intn(nip), vc.Pick(r, []string{"p", "t"})))
				} else {
					evs = append(evs, fmt.Sprintf("%s %d", bk, r.Intn(nip)))
				}
			case x < 84:
				switch r.Intn(4) {
				case 0:
					evs = append(evs, "restart")
				case 1:
					evs = append(evs, fmt.Sprintf("unblr %d", r.Intn(nip/2+1)))
				default:
					evs = append(evs, fmt.Sprintf("blr %d", r.Intn(nip/2+1)))
					if r.Bool() {
						evs = append(evs, "restart")
					}
				}
			case x < 85:
				evs = append(evs, fmt.Sprintf("refill %d", r.Intn(nip)))
			case x < 86:
				evs = append(evs, fmt.Sprintf("%s %d", vc.Pick(r, []string{"wl", "wl", "unwl"}), r.Intn(nip)))
			case x < 87:
				evs = append(evs, "issue "+vc.Pick(r, []string{"fail", "fail", "ok"}))
			case x < 89:
				evs = append(evs, fmt.Sprintf("%s %d", vc.Pick(r, []string{"exp", "exp", "del", "strip", "unexp", "claim", "claim", "bind", "ext"}), r.Intn(known+1)))
			case x < 92:
				evs = append(evs, fmt.Sprintf("sec %d %s", r.Intn(known+1), vc.Pick(r, []string{"u", "d", "e", "l"})))
			case x < 96: // a message on a connection the server does not know
				evs = append(evs, fmt.Sprintf("hs %d c 0 -", nconn+r.Intn(2)))
			default: // repeated failures on one address: the brute-force counter
				for j := 0; j < 3+r.Intn(4); j++ {
					evs = append(evs, fmt.Sprintf("hs %d c %d j", c, known+1))
				}
			}
		}
		if len(evs) > 14 {
			evs = evs[:14]
		}
		emit(fmt.Sprintf("seq ips %s nc %s rl %d : %s", strings.Join(ips, ","), nctok, burst, strings.Join(evs, " ; ")), "random")
	}
}

func main() {
	tier := flag.String("tier", "quick", "")
	seed := flag.Uint64("seed", 1, "")
	stats := flag.String("stats", "", "")
	noGen := flag.Bool("nogen", false, "")
	workers := flag.Int("workers", 0, "")
	flag.Parse()
	lg := logrus.New()
	lg.SetOutput(io.Discard)
	lg.SetLevel(logrus.PanicLevel)
	corelog.SetDefaultFromLogrus(lg)

	out := vc.NewOut()
	type job struct{ key, cs, cat string }
	var jobs []job
	add := func(cs, cat string) { jobs = append(jobs, job{"", cs, cat}) }
	for _, f := range flag.Args() {
		data, err := os.ReadFile(f)
		if err != nil {
			fmt.Fprintln(os.Stderr, err)
			os.Exit(3)
		}
		for _, line := range strings.Split(string(data), "\n") {
			line = strings.TrimSpace(line)
			if line == "" || strings.HasPrefix(line, "#") {
				continue
			}
			if i := strings.Index(line, " ## "); i >= 0 {
				line = line[:i]
			}
			key := ""
			if strings.HasPrefix(line, "K:") {
				sp := strings.SplitN(line, " ", 2)
				key, line = sp[0]+" ", sp[1]
			}
			jobs = append(jobs, job{key, line, "corpus"})
		}
	}
	if !*noGen {
		r := vc.NewRand(*seed)
		if *tier == "thorough" {
			genExhaustive(4, add)
			genExhaustiveUnusable(4, add)
			genExhaustiveExpiry(5, add)
			genRandom(r, 60000, add)
			genLong(r, true, add)
		} else {
			genExhaustive(3, add)
			genExhaustiveUnusable(3, add)
			genExhaustiveExpiry(4, add)
			genRandom(r, 12000, add)
			genLong(r, false, add)
		}
	}
	n := *workers
	if n <= 0 {
		n = runtime.NumCPU()
		if n > 16 {
			n = 16
		}
	}
	results := make([]string, len(jobs))
	var wg sync.WaitGroup
	next := make(chan int, 1024)
	for w := 0; w < n; w++ {
		wg.Add(1)
		go func() {
			defer wg.Done()
			for i := range next {
				results[i] = runSeq(jobs[i].cs)
			}
		}()
	}
	for i := range jobs {
		next <- i
	}
	close(next)
	wg.Wait()
	for i, j := range jobs {
		key := ""
		if strings.Count(j.cs, ";") >= 1 {
			key = j.cs
		}
		out.Case(j.key+j.cs, results[i], key)
		out.Count(j.cat)
		padded := " " + results[i]
		if strings.Contains(padded, " ok c") {
			out.Count("has:phase2-accepted")
		}
		if strings.Contains(padded, " new") {
			out.Count("has:identity-issued")
		}
		if strings.Contains(padded, " none c") {
			out.Count("has:no-response-written")
		}
		if strings.Contains(padded, " fail c") {
			out.Count("has:failure-response")
		}
		if strings.Contains(j.cs, " h") && strings.Contains(j.cs, ".P") {
			out.Count("has:stale-challenge-response")
		}
	}
	out.Finish(*stats, nil)
}
