//go:build verif

package main

import (
	"context"
	"errors"
	"strconv"

	"tunnox-core/internal/cloud/models"
	"tunnox-core/internal/cloud/repos"
	"tunnox-core/internal/cloud/services/client"
	"tunnox-core/internal/cloud/stats"
	"tunnox-core/internal/core/storage"
	"tunnox-core/internal/packet"
	"tunnox-core/internal/protocol/session"
)

// The cloud side of every node: a REAL client.Service over a REAL ClientStateRepository on the node's handle of
// the shared store.  The session manager reaches it through the CloudControlAPI it is given (heartbeat:
// EnsureClientOnline; RemoveControlConnection / sweep: DisconnectClientIfMatch); the auth handler double calls
// ConnectClient exactly where ServerAuthHandler.updateClientRuntimeState does (after it accepted a handshake).

type noStats struct{}

func (noStats) GetCounter() *stats.StatsCounter { return nil }
func (noStats) GetUserStats(string) (*stats.UserStats, error) {
	return nil, errors.New("verif: no stats")
}
func (noStats) GetClientStats(int64) (*stats.ClientStats, error) {
	return nil, errors.New("verif: no stats")
}

type cloudNode struct {
	svc  *client.Service
	repo *repos.ClientStateRepository
}

func newCloudNode(ctx context.Context, st storage.Storage) *cloudNode {
	repo := repos.NewClientStateRepository(ctx, st)
	return &cloudNode{repo: repo, svc: client.NewService(nil, repo, nil, nil, nil, nil, noStats{}, ctx)}
}

// session.CloudControlAPI
func (c *cloudNode) GetPortMapping(string) (*models.PortMapping, error) {
	return nil, errors.New("verif: no mappings")
}
func (c *cloudNode) UpdatePortMappingStats(string, *stats.TrafficStats) error { return nil }
func (c *cloudNode) GetClientPortMappings(int64) ([]*models.PortMapping, error) {
	return nil, nil
}
func (c *cloudNode) TouchClient(int64)               {}
func (c *cloudNode) DisconnectClient(id int64) error { return c.svc.DisconnectClient(id) }
func (c *cloudNode) DisconnectClientIfMatch(id int64, nodeID, connID string) (bool, error) {
	return c.svc.DisconnectClientIfMatch(id, nodeID, connID)
}
func (c *cloudNode) EnsureClientOnline(id int64, nodeID, connID, ip, proto, ver string) error {
	return c.svc.EnsureClientOnline(id, nodeID, connID, ip, proto, ver)
}

// stateTok: what this node reads from the shared runtime state of client x.
func (c *cloudNode) stateTok(x int64) string {
	st, err := c.repo.GetState(x)
	if err != nil {
		return "err:" + sanitize(err.Error())
	}
	if st == nil {
		return "-"
	}
	j, ok := nodeIndex(st.NodeID)
	if !ok {
		return "err:node_" + sanitize(st.NodeID)
	}
	if _, err := parseConn(st.ConnID); err != nil {
		return "err:conn_" + sanitize(st.ConnID)
	}
	return sanitizeTok(j, st.ConnID)
}

func sanitizeTok(j int, conn string) string { return strconv.Itoa(j) + "@" + conn }

// cloudAuth accepts a handshake whose token is "ok", identifies the connection as req.ClientID and — for a
// control-type handshake of a known client, like ServerAuthHandler — records the connection in the runtime state.
type cloudAuth struct {
	cloud  *cloudNode
	nodeID string
}

func (a cloudAuth) HandleHandshake(c session.ControlConnectionInterface, req *packet.HandshakeRequest) (*packet.HandshakeResponse, error) {
	if req.Token != "ok" {
		return nil, errors.New("verif: refused")
	}
	c.SetClientID(req.ClientID)
	c.SetAuthenticated(true)
	if req.ConnectionType != "tunnel" && req.ClientID > 0 {
		a.cloud.svc.ConnectClient(req.ClientID, a.nodeID, c.GetConnID(), "10.0.0.1", "tcp", req.Version)
	}
	return &packet.HandshakeResponse{Success: true, ClientID: req.ClientID}, nil
}

func (cloudAuth) GetClientConfig(c session.ControlConnectionInterface) (string, error) {
	return "", nil
}
