//go:build verif

package main

import (
	"strings"
	"sync"
	"time"

	"tunnox-core/internal/core/storage"
)

// Storage-call granularity (exploration beyond the event-level property):
//
//	sched <01-string> <ordinary case>
//
// The last two events of the case run CONCURRENTLY on two nodes (thread 0 = the second to last
// event, thread 1 = the last one; they must belong to different nodes).  Every Get/Set/Delete the
// two handlers issue on the shared store is one step; the 01-string says which thread takes the
// next step (a finished thread is skipped; when the string is used up thread 0 runs to its end, then thread 1).
// The observation of both events is the one taken after both handlers returned.

type gate struct {
	mu      sync.Mutex
	cond    *sync.Cond
	active  bool
	waiting [2]bool
	granted [2]bool
	done    [2]bool
	trace   []string // executed steps: "<tid>:<op>:<key>"
}

func newGate() *gate {
	g := &gate{}
	g.cond = sync.NewCond(&g.mu)
	return g
}

func (g *gate) enter(t int, op, key string) {
	g.mu.Lock()
	defer g.mu.Unlock()
	if t < 0 {
		return
	}
	if !g.active { // the schedule is used up: the rest runs freely, but stays in the trace
		g.trace = append(g.trace, string(rune('0'+t))+":"+op+":"+key)
		return
	}
	g.waiting[t] = true
	g.cond.Broadcast()
	for g.active && !g.granted[t] {
		g.cond.Wait()
	}
	g.granted[t] = false
	g.waiting[t] = false
	g.trace = append(g.trace, string(rune('0'+t))+":"+op+":"+key)
	g.cond.Broadcast()
}

func (g *gate) finish(t int) {
	g.mu.Lock()
	g.done[t] = true
	g.cond.Broadcast()
	g.mu.Unlock()
}

// step lets thread t execute one storage call (no-op when it has finished).
func (g *gate) step(t int) {
	g.mu.Lock()
	defer g.mu.Unlock()
	for !g.waiting[t] && !g.done[t] {
		g.cond.Wait()
	}
	if g.done[t] {
		return
	}
	g.granted[t] = true
	g.cond.Broadcast()
	for g.granted[t] {
		g.cond.Wait()
	}
	// wait until the thread reaches its next call or returns, so that steps do not overlap
	for !g.waiting[t] && !g.done[t] {
		g.cond.Wait()
	}
}

func (g *gate) isDone(t int) bool {
	g.mu.Lock()
	defer g.mu.Unlock()
	return g.done[t]
}

func (g *gate) release() {
	g.mu.Lock()
	g.active = false
	g.cond.Broadcast()
	g.mu.Unlock()
}

// gatedStore: the node's handle on the shared store; tid is set while the node runs a scheduled handler.
type gatedStore struct {
	storage.Storage
	g   *gate
	tid *int
}

func (s *gatedStore) Get(key string) (interface{}, error) {
	s.g.enter(*s.tid, "get", key)
	return s.Storage.Get(key)
}
func (s *gatedStore) Set(key string, v interface{}, ttl time.Duration) error {
	s.g.enter(*s.tid, "set", key)
	return s.Storage.Set(key, v, ttl)
}
func (s *gatedStore) Delete(key string) error {
	s.g.enter(*s.tid, "del", key)
	return s.Storage.Delete(key)
}

// gatedStoreCAS: the handle keeps the capabilities of what it wraps — a store that offers storage.CASStore (memory,
// redis and also hybrid, whose CompareAndSwap is a stub) must still offer it through the wrapper, or code that
// type-asserts for it would silently take another path under test than in production.
type gatedStoreCAS struct {
	*gatedStore
	cas storage.CASStore
}

func (s *gatedStoreCAS) SetNX(key string, v interface{}, ttl time.Duration) (bool, error) {
	s.g.enter(*s.tid, "set", key)
	return s.cas.SetNX(key, v, ttl)
}
func (s *gatedStoreCAS) CompareAndSwap(key string, o, n interface{}, ttl time.Duration) (bool, error) {
	s.g.enter(*s.tid, "set", key)
	return s.cas.CompareAndSwap(key, o, n, ttl)
}

func newGatedStore(st storage.Storage, g *gate, tid *int) storage.Storage {
	gs := &gatedStore{Storage: st, g: g, tid: tid}
	if c, ok := st.(storage.CASStore); ok {
		return &gatedStoreCAS{gatedStore: gs, cas: c}
	}
	return gs
}

// racy reports whether the executed trace has a check-then-act window on a per-client key (the connstate client
// index or the cloud runtime state): one thread read it, the other thread wrote it, then the first thread
// deleted/overwrote it.
func racy(trace []string) bool {
	for _, fam := range []string{":tunnox:client_conn:", ":tunnox:runtime:client:state:"} {
		if racyOn(trace, fam) {
			return true
		}
	}
	return false
}

func racyOn(trace []string, fam string) bool {
	for i, a := range trace {
		if !strings.Contains(a, ":get"+fam) {
			continue
		}
		t := a[0]
		seenOther := false
		for _, b := range trace[i+1:] {
			if !strings.Contains(b, fam) {
				continue
			}
			if b[0] != t && strings.Contains(b, ":set:") {
				seenOther = true
			}
			if b[0] == t && seenOther && (strings.Contains(b, ":del:") || strings.Contains(b, ":set:")) {
				return true
			}
			if b[0] == t && strings.Contains(b, ":get:") {
				break
			}
		}
	}
	return false
}

func genSched(tier string, emit func(string)) {
	n := 7
	if tier == "thorough" {
		n = 9
	}
	fam := []string{
		// node 1 registers the reconnected client while node 0 cleans the old connection up
		"o:0.7.0 h:0.7.0 o:1.7.0 h:1.7.0 c:0.7.0",
		// … while the old connection's heartbeat refreshes its records
		"o:0.7.0 h:0.7.0 o:1.7.0 h:1.7.0 b:0.7.0",
		// … while the heartbeat-timeout sweep of node 0 closes the old connection
		"o:0.7.0 h:0.7.0 o:1.7.0 h:1.7.0 s:0.7.0",
		// two nodes register the same client at once (no check-then-act involved: last writer wins, both records exist)
		"o:0.7.0 o:1.7.0 o:0.9.0 h:0.9.0 h:1.7.0 c:0.9.0",
	}
	for _, be := range []string{"red", "mem"} {
		for _, f := range fam {
			for m := 0; m < 1<<n; m++ {
				var sb strings.Builder
				for i := 0; i < n; i++ {
					sb.WriteByte(byte('0' + (m>>i)&1))
				}
				emit("sched " + sb.String() + " " + header(be, 1000, 2, []int{7}) + " " + f)
			}
		}
	}
}
