//go:build verif

package main

import (
	"fmt"
	"sort"
	"strings"

	"tunnox-core/internal/verifharness/common"
)

func header(backend string, ttl int64, nn int, clients []int) string {
	cs := make([]string, len(clients))
	for i, c := range clients {
		cs[i] = fmt.Sprint(c)
	}
	return fmt.Sprintf("%s ttl=%d nn=%d cl=%s", backend, ttl, nn, strings.Join(cs, ","))
}

// every word over `alpha` of length 1..maxLen, appended to `prefix`
func words(alpha []string, maxLen int, f func([]string)) {
	var rec func(cur []string)
	rec = func(cur []string) {
		if len(cur) > 0 {
			f(cur)
		}
		if len(cur) == maxLen {
			return
		}
		for _, a := range alpha {
			rec(append(cur, a))
		}
	}
	rec(nil)
}

// tick sizes relative to the effective lifetime, chosen so that no sum of them equals it
// (300a + 450b + 1300c = 1000 has no solution): the boundary instant itself is never observed.
// The cloud runtime state has its own fixed lifetime (90 s): sums of the ticks must not hit that either
// (default lifetime: 80 s / 135 s / 390 s; 70 s lifetime: 21 s / 31.5 s / 91 s).
func ticks(ttl int64) (short1, short2, long int64) {
	if ttl == 0 {
		return 80000, 135000, 390000
	}
	return ttl * 3 / 10, ttl * 45 / 100, ttl * 13 / 10
}

// ---- A: exhaustive small scopes
//
// A1: one client, two nodes, one connection per node (reconnect to the other node, late cleanup,
//
//	heartbeats, expiry): every word of length <= L over {h,b,c} x {conn0, conn1} + {short, long tick}.
//
// A2: one client, two connections on node 0 and one on node 1 (same-node kick + cross-node reconnect).
// A4: one client registered on node 0: all connection-ending paths (c e d s k x) x reconnects, <= 3 / 4 steps.
// A5: one client registered on node 0: split lookups (q … r) on both nodes around reconnects, cleanups, expiry, <= 4 / 5 steps.
// A6: split consumers (HTTP-proxy request y … z, command m … n) around handshakes, reconnects, close, expiry, <= 4 / 5 steps.
// A3: one client registered on node 0: heartbeats / reconnect / late close / ticks of 0.45 and 0.7 lifetimes, up to 5 steps in the thorough tier.
func genExhaustive(tier string, emit func(string)) {
	lenTick, lenNoTick, lenA2 := 3, 3, 3
	if tier == "thorough" {
		lenTick, lenNoTick, lenA2 = 4, 4, 4
	}
	s1, _, lg := ticks(1000)
	a1 := []string{"h:0.7.0", "h:1.7.0", "b:0.7.0", "b:1.7.0", "c:0.7.0", "c:1.7.0"}
	a1t := append(append([]string{}, a1...), fmt.Sprintf("t:%d", s1+150), fmt.Sprintf("t:%d", lg))
	for _, be := range []string{"red", "hyr"} {
		words(a1t, lenTick, func(w []string) {
			emit(header(be, 1000, 2, []int{7}) + " o:0.7.0 o:1.7.0 " + strings.Join(w, " "))
		})
	}
	for _, be := range []string{"mem", "hyl", "map", "byt"} {
		words(a1, lenNoTick, func(w []string) {
			emit(header(be, 1000, 2, []int{7}) + " o:0.7.0 o:1.7.0 " + strings.Join(w, " "))
		})
	}
	// A3: keep-alive: the client is registered on node 0; heartbeats of both connections, a reconnect, the late
	// cleanup and two tick sizes (0.45 and 0.7 lifetimes: 9a + 14b = 20 has no solution either)
	a3 := []string{"b:0.7.0", "b:1.7.0", "h:1.7.0", "c:0.7.0", "t:450", "t:700"}
	lenA3 := 3
	if tier == "thorough" {
		lenA3 = 5
	}
	for _, be := range []string{"red", "hyr"} { // hyr: the tiered backend the server builds in production
		l := lenA3
		if be == "hyr" && l > 4 {
			l = 4
		}
		words(a3, l, func(w []string) {
			emit(header(be, 1000, 2, []int{7}) + " o:0.7.0 o:1.7.0 h:0.7.0 " + strings.Join(w, " "))
		})
	}
	// A4: every path by which a connection ends: the client is registered on 0.7.0; direct close, adapter read-loop
	// end, Disconnect command, heartbeat-timeout sweep, duplicate-login eviction, node shutdown, against a same-node
	// and a cross-node reconnect and the old connection's heartbeat
	a4 := []string{"h:0.7.1", "h:1.7.0", "k:0.7.1", "x:0", "c:0.7.0", "e:0.7.0", "d:0.7.0", "s:0.7.0", "b:0.7.0"}
	for _, be := range []string{"red", "mem"} {
		words(a4, lenA2, func(w []string) {
			emit(header(be, 1000, 2, []int{7}) + " o:0.7.0 o:0.7.1 o:1.7.0 h:0.7.0 " + strings.Join(w, " "))
		})
	}
	// A5: lookups as two storage round trips with other events in between: the client is registered on 0.7.0; a
	// lookup on node 1 / node 0 begins (q) and ends (r) around a same-node or cross-node reconnect, the old
	// connection's cleanup, heartbeats and the expiry
	a5 := []string{"q:1.7", "r:1.7", "q:0.7", "r:0.7", "h:0.7.1", "h:1.7.0", "c:0.7.0", "s:0.7.0", "b:1.7.0", "t:1300"}
	lenA5 := 4
	if tier == "thorough" {
		lenA5 = 5
	}
	for _, be := range []string{"red", "mem"} {
		tk := be == "red"
		words(a5, lenA5, func(w []string) {
			// well-formed and interesting only: every r ends a lookup in flight, at least one lookup spans an event
			inflight := map[string]int{}
			span := false
			for i, t := range w {
				switch t[0] {
				case 'q':
					if _, ok := inflight[t[2:]]; ok {
						return
					}
					inflight[t[2:]] = i
				case 'r':
					b, ok := inflight[t[2:]]
					if !ok {
						return
					}
					if i > b+1 {
						span = true
					}
					delete(inflight, t[2:])
				case 't':
					if !tk {
						return
					}
				}
			}
			if !span {
				return
			}
			emit(header(be, 1000, 2, []int{7}) + " o:0.7.0 o:0.7.1 o:1.7.0 h:0.7.0 " + strings.Join(w, " "))
		})
	}
	// A6: consumers of the lookup as two steps (registry read … store read + decision) with other events in between:
	// an HTTP-proxy request / a command for the client starts on node 0 or 1 around the client's first handshake on node 0,
	// a same-node and a cross-node reconnect, the close, heartbeats and the expiry
	a6 := []string{"y:0.7", "z:0.7", "m:1.7", "n:1.7", "y:1.7", "z:1.7", "h:0.7.0", "h:0.7.1", "h:1.7.0", "c:0.7.0", "b:0.7.0", "t:1300"}
	lenA6 := 4
	if tier == "thorough" {
		lenA6 = 5
	}
	for _, be := range []string{"red", "mem"} {
		tk := be == "red"
		words(a6, lenA6, func(w []string) {
			// well-formed and interesting only: every end ends a request in flight, at least one request spans an event
			inflight := map[string]int{}
			span := false
			for i, t := range w {
				switch t[0] {
				case 'y', 'm':
					k := t[:1] + t[2:]
					if _, ok := inflight[k]; ok {
						return
					}
					inflight[k] = i
				case 'z', 'n':
					k := map[byte]string{'z': "y", 'n': "m"}[t[0]] + t[2:]
					b, ok := inflight[k]
					if !ok {
						return
					}
					if i > b+1 {
						span = true
					}
					delete(inflight, k)
				case 't':
					if !tk {
						return
					}
				}
			}
			if !span {
				return
			}
			emit(header(be, 1000, 2, []int{7}) + " o:0.7.0 o:0.7.1 o:1.7.0 " + strings.Join(w, " "))
		})
	}
	a2 := []string{"h:0.7.0", "h:0.7.1", "h:1.7.0", "c:0.7.0", "c:0.7.1", "c:1.7.0", "b:0.7.0"}
	for _, be := range []string{"red", "mem"} {
		words(a2, lenA2, func(w []string) {
			emit(header(be, 0, 2, []int{7}) + " o:0.7.0 o:0.7.1 o:1.7.0 " + strings.Join(w, " "))
		})
	}
}

// ---- B: random structured histories (mostly valid session flows, some stray events)

type simConn struct {
	c      conn
	open   bool
	authed bool
}

func genRandom(r *common.Rand, backend string, withTicks bool, emit func(string)) {
	nn := 2 + r.Intn(2)
	if r.Intn(8) == 0 {
		nn = 4
	}
	pool := []int{7, 9, 12}
	ncl := 1 + r.Intn(3)
	clients := append([]int{}, pool[:ncl]...)
	if r.Intn(6) == 0 {
		clients = append(clients, 0)
	}
	ttl := common.Pick(r, []int64{1000, 1000, 70000, 0})
	s1, s2, lg := ticks(ttl)
	var conns []*simConn
	serial := map[[2]int]int{}
	var evs []string
	newConn := func() *simConn {
		x := common.Pick(r, clients)
		n := r.Intn(nn)
		k := serial[[2]int{n, x}]
		serial[[2]int{n, x}] = k + 1
		sc := &simConn{c: conn{n, x, k}, open: true}
		conns = append(conns, sc)
		evs = append(evs, "o:"+sc.c.String())
		return sc
	}
	pickConn := func(pred func(*simConn) bool) *simConn {
		var cand []*simConn
		for _, sc := range conns {
			if pred(sc) {
				cand = append(cand, sc)
			}
		}
		if len(cand) == 0 {
			return nil
		}
		return common.Pick(r, cand)
	}
	inflight := map[string]bool{}
	reqInflight := map[string]bool{}
	downNodes := map[int]bool{}
	endOf := map[byte]string{'y': "z", 'm': "n"}
	n := 6 + r.Intn(18)
	for len(evs) < n {
		for _, rk := range sortedKeys(reqInflight) {
			if r.Intn(3) == 0 {
				evs = append(evs, endOf[rk[0]]+rk[1:])
				reqInflight[rk] = false
			}
		}
		// lookups in flight end with some probability after every event
		for _, lk := range sortedKeys(inflight) {
			if r.Intn(3) == 0 {
				evs = append(evs, "r:"+lk)
				inflight[lk] = false
			}
		}
		switch w := r.Intn(100); {
		case w < 22: // connect + authenticate (a reconnect if the client already has a connection)
			sc := newConn()
			switch q := r.Intn(20); {
			case q < 16:
				evs = append(evs, "h:"+sc.c.String())
				sc.authed = true
			case q < 17:
				evs = append(evs, "f:"+sc.c.String())
			case q < 18:
				evs = append(evs, "u:"+sc.c.String())
			}
		case w < 47: // heartbeat of an authenticated open connection
			if sc := pickConn(func(s *simConn) bool { return s.open && s.authed }); sc != nil {
				evs = append(evs, "b:"+sc.c.String())
			}
		case w < 62: // close: the oldest open connection first (the old node notices late)
			var sc *simConn
			if r.Intn(3) > 0 {
				for _, s := range conns {
					if s.open {
						sc = s
						break
					}
				}
			} else {
				sc = pickConn(func(s *simConn) bool { return s.open })
			}
			if sc != nil {
				// by any path; the Disconnect command and the sweep only act on a connection the registry holds,
				// so they are followed by the read loop's close
				kind := common.Pick(r, []string{"c:", "c:", "e:", "e:", "d:", "s:", "s:"})
				evs = append(evs, kind+sc.c.String())
				if kind == "d:" || kind == "s:" {
					if r.Intn(4) > 0 {
						evs = append(evs, "e:"+sc.c.String())
						sc.open = false
					}
				} else {
					sc.open = false
				}
			}
		case w < 82:
			if withTicks {
				evs = append(evs, fmt.Sprintf("t:%d", common.Pick(r, []int64{s1, s1, s2, s2, lg})))
			}
		case w < 88: // late handshake on an existing connection (re-authentication / first authentication)
			if sc := pickConn(func(s *simConn) bool { return s.open }); sc != nil {
				evs = append(evs, common.Pick(r, []string{"h:", "h:", "f:", "u:", "v:"})+sc.c.String())
				if strings.HasPrefix(evs[len(evs)-1], "h:") {
					sc.authed = true
				}
			}
		case w < 92: // stray: heartbeat / handshake / close of a connection that is closed or was never opened
			c := conn{r.Intn(nn), common.Pick(r, clients), 5 + r.Intn(2)}
			if sc := pickConn(func(s *simConn) bool { return !s.open }); sc != nil && r.Bool() {
				c = sc.c
			}
			evs = append(evs, common.Pick(r, []string{"b:", "h:", "c:", "u:", "e:", "d:", "s:", "k:"})+c.String())
		case w < 93: // duplicate-login eviction / node shutdown; the read loops of the affected connections end later
			if r.Intn(3) == 0 {
				n := r.Intn(nn)
				evs = append(evs, fmt.Sprintf("x:%d", n))
				downNodes[n] = true
				for _, sc := range conns {
					if sc.c.node == n {
						sc.authed = false
					}
				}
			} else if sc := pickConn(func(s *simConn) bool { return s.open }); sc != nil {
				evs = append(evs, "k:"+sc.c.String())
			}
		case w < 94 && len(evs) > 2: // a lookup begins; it ends a few events later (or stays in flight)
			lk := fmt.Sprintf("%d.%d", r.Intn(nn), common.Pick(r, clients))
			if !inflight[lk] {
				evs = append(evs, "q:"+lk)
				inflight[lk] = true
			} else {
				evs = append(evs, "r:"+lk)
				inflight[lk] = false
			}
		case w < 95 && len(evs) > 1: // a consumer of the lookup starts on some node; it goes on a few events later
			nd := r.Intn(nn)
			if !downNodes[nd] {
				kind := common.Pick(r, []string{"y", "m"})
				rk := fmt.Sprintf("%s:%d.%d", kind, nd, common.Pick(r, clients))
				if !reqInflight[rk] {
					evs = append(evs, rk)
					reqInflight[rk] = true
				}
			}
		case w < 96: // the same id offered again
			if sc := pickConn(func(s *simConn) bool { return true }); sc != nil {
				evs = append(evs, "o:"+sc.c.String())
			}
		default: // heartbeat of any open connection (authenticated or not)
			if sc := pickConn(func(s *simConn) bool { return s.open }); sc != nil {
				evs = append(evs, "b:"+sc.c.String())
			}
		}
	}
	emit(header(backend, ttl, nn, clients) + " " + strings.Join(evs, " "))
}

// lookups in flight, in a deterministic order (map iteration order must not leak into the case)
func sortedKeys(m map[string]bool) []string {
	var ks []string
	for k, on := range m {
		if on {
			ks = append(ks, k)
		}
	}
	sort.Strings(ks)
	return ks
}

// ---- C: real-clock lifetimes on the backends that cannot be fast-forwarded (ttl 300 ms, sleeps of 110 / 400 ms)

// C2: wall-clock lifetimes on EVERY backend (`w:`): the records' ExpiresAt is stamped from the wall clock, so a session
// that outlives the lifetime on heartbeats and then authenticates again on the same connection (handleHandshake's
// existing-connection path) must be findable for a full lifetime from that handshake
func genWall(tier string, emit func(string)) {
	tpl := []string{
		// re-handshake on the registered connection after more than one lifetime, then kept alive again
		"o:0.7.0 h:0.7.0 w:110 b:0.7.0 w:110 b:0.7.0 w:110 b:0.7.0 h:0.7.0 w:110 b:0.7.0 w:110 b:0.7.0 w:110",
		// … within the first lifetime; and a refused / tunnel-type handshake in between changes nothing
		"o:0.7.0 h:0.7.0 w:110 h:0.7.0 w:110 f:0.7.0 b:0.7.0 w:110 u:0.7.0 b:0.7.0 w:110 h:0.7.0 w:110 w:110",
		// re-handshake on the old connection after the client moved and came back (same-node kick in between)
		"o:0.7.0 h:0.7.0 o:1.7.0 w:110 b:0.7.0 w:110 b:0.7.0 w:110 h:1.7.0 b:1.7.0 w:110 b:1.7.0 w:110 b:1.7.0 w:110 h:1.7.0 w:110 e:0.7.0 w:110",
	}
	bes := []string{"mem", "red", "hyl"}
	if tier == "thorough" {
		bes = []string{"mem", "red", "hyr", "hyl", "map", "byt"}
	}
	for _, be := range bes {
		for i, t := range tpl {
			if tier != "thorough" && i > 0 && be != "mem" {
				continue
			}
			emit(header(be, 300, 2, []int{7}) + " " + t)
		}
	}
}

func genTimed(r *common.Rand, backends []string, perBackend int, emit func(string)) {
	tpl := []string{
		// kept alive by heartbeats across more than one lifetime, then left alone
		"o:0.7.0 h:0.7.0 t:110 b:0.7.0 t:110 b:0.7.0 t:110 b:0.7.0 t:110 t:400",
		// reconnect to the other node, old node cleans up late, new connection kept alive
		"o:0.7.0 h:0.7.0 t:110 o:1.7.0 h:1.7.0 t:110 c:0.7.0 b:1.7.0 t:110 t:110 b:1.7.0 t:110 c:1.7.0",
		// no heartbeat: the registration lapses; a late heartbeat does not resurrect it
		"o:0.7.0 h:0.7.0 t:110 t:110 t:110 b:0.7.0 t:110 h:0.7.0 t:110",
		// the old connection keeps heartbeating after the client moved
		"o:0.7.0 h:0.7.0 o:1.7.0 h:1.7.0 t:110 b:0.7.0 t:110 b:0.7.0 b:1.7.0 t:110 b:0.7.0 t:110 c:0.7.0",
	}
	for _, be := range backends {
		for i := 0; i < perBackend; i++ {
			emit(header(be, 300, 2, []int{7}) + " " + tpl[(i+r.Intn(len(tpl)))%len(tpl)])
		}
	}
}

// ---- D: boundary / malformed
func genBoundary(emit func(string)) {
	for _, be := range []string{"mem", "red", "hyr", "hyl", "map", "byt"} {
		h := func(nn int, cl ...int) string { return header(be, 1000, nn, cl) }
		emit(h(2, 7) + " h:0.7.0 b:0.7.0 c:0.7.0")                                 // nothing was ever opened
		emit(h(2, 7, 0) + " o:0.0.0 h:0.0.0 b:0.0.0 c:0.0.0")                      // anonymous client id 0
		emit(h(2, 7) + " o:0.7.0 f:0.7.0 b:0.7.0 u:0.7.0 b:0.7.0 v:0.7.0 c:0.7.0") // never a successful control handshake
		emit(h(2, 7) + " o:0.7.0 h:0.7.0 h:0.7.0 f:0.7.0 u:0.7.0 c:0.7.0 c:0.7.0") // repeated handshakes, double close
		emit(h(2, 7) + " o:0.7.0 h:0.7.0 c:0.7.0 o:0.7.0 h:0.7.0 b:0.7.0")         // id reuse after close
		emit(h(1, 7) + " o:0.7.0 h:0.7.0 o:0.7.1 h:0.7.1 c:0.7.0 b:0.7.1 c:0.7.1") // single node
		emit(h(3, 7, 9) + " o:0.7.0 h:0.7.0 o:1.9.0 h:1.9.0 o:2.7.0 h:2.7.0 o:0.9.0 h:0.9.0 c:0.7.0 c:1.9.0 c:2.7.0 c:0.9.0")
		emit(header(be, 0, 2, []int{7}) + " o:0.7.0 h:0.7.0 o:1.7.0 h:1.7.0 c:0.7.0 b:1.7.0") // default lifetime
		// every ending path, alone and as the old node's late cleanup after a reconnect
		for _, k := range []string{"c", "e", "d", "s"} {
			emit(h(2, 7) + " o:0.7.0 h:0.7.0 " + k + ":0.7.0 " + k + ":0.7.0")
			emit(h(2, 7) + " o:0.7.0 h:0.7.0 o:1.7.0 h:1.7.0 " + k + ":0.7.0 b:1.7.0 " + k + ":1.7.0")
			emit(h(2, 7) + " o:0.7.0 " + k + ":0.7.0 f:0.7.0 " + k + ":0.7.0 " + k + ":0.7.5") // never registered / unknown id
		}
		// split lookups: around a same-node / cross-node reconnect, never ended, ended twice, for client 0, for nobody
		emit(h(2, 7) + " o:0.7.0 h:0.7.0 q:1.7 o:0.7.1 h:0.7.1 r:1.7 b:0.7.1 r:1.7")
		emit(h(3, 7) + " o:0.7.0 h:0.7.0 q:2.7 q:0.7 o:1.7.0 h:1.7.0 c:0.7.0 r:2.7 r:0.7 b:1.7.0 q:1.7")
		emit(h(2, 7, 0) + " q:0.0 r:0.0 q:1.7 r:1.7 o:0.7.0 q:0.7 h:0.7.0 r:0.7 q:0.7 q:0.7 c:0.7.0 r:0.7")
		// split consumers: around the first handshake, a same-node reconnect, never ended, ended twice, client 0, a stopped node
		emit(h(2, 7) + " o:0.7.0 y:0.7 h:0.7.0 z:0.7 b:0.7.0 z:0.7 m:0.7 o:0.7.1 h:0.7.1 n:0.7 y:1.7 c:0.7.1 z:1.7")
		emit(h(2, 7, 0) + " y:0.0 z:0.0 m:1.0 n:1.0 o:1.7.0 m:1.7 y:1.7 h:1.7.0 n:1.7 z:1.7 y:0.7 x:1 z:0.7 m:0.7")
		emit(h(2, 7) + " o:0.7.0 h:0.7.0 o:0.7.1 k:0.7.1 d:0.7.0 s:0.7.0 e:0.7.0 h:0.7.1 k:0.7.1 k:0.7.0 e:0.7.1")                            // eviction, then the read loop ends
		emit(h(2, 7, 9) + " o:0.7.0 h:0.7.0 o:0.9.0 h:0.9.0 o:1.9.1 h:1.9.1 x:0 b:0.7.0 s:0.7.0 e:0.7.0 e:0.9.0 o:0.7.1 h:0.7.1 x:1 e:1.9.1") // shutdown
	}
	// the 5 minute default, fast-forwarded
	for _, be := range []string{"red", "hyr"} {
		emit(header(be, 0, 2, []int{7}) + " o:0.7.0 h:0.7.0 t:200000 b:0.7.0 t:200000 b:0.7.0 t:200000 t:200000")
		emit(header(be, 0, 2, []int{7}) + " o:0.7.0 h:0.7.0 t:290000 o:1.7.0 h:1.7.0 t:20000 c:0.7.0 t:270000 b:1.7.0 t:290000 c:1.7.0")
	}
}

func generate(r *common.Rand, tier string, emit func(string)) {
	genBoundary(emit)
	genExhaustive(tier, emit)
	nFF, nReal, nTimed := 500, 120, 1
	if tier == "thorough" {
		nFF, nReal, nTimed = 12000, 3000, 12
	}
	for i := 0; i < nFF; i++ {
		genRandom(r.Fork(), []string{"red", "hyr"}[i%2], true, emit)
	}
	for i := 0; i < nReal; i++ {
		genRandom(r.Fork(), []string{"mem", "hyl", "map", "byt"}[i%4], false, emit)
	}
	genTimed(r, []string{"mem", "hyl", "map", "byt"}, nTimed, emit)
	genWall(tier, emit)
	genSched(tier, emit)
}
