//go:build verif

package main

import (
	"context"
	"fmt"
	"sync"
	"time"

	"tunnox-core/internal/core/storage"
	"tunnox-core/internal/packet"
	"tunnox-core/internal/protocol/httptypes"
)

// Consumers of the lookup as two-step operations: `y:<node>.<client>` starts a REAL SendHTTPProxyRequest on the
// node (`m:` a real SendCommandToClient): it reads the node-local registry at once; when that misses, its first call
// on the node's connstate store handle (the index read of FindClientNode) parks.  `z:` / `n:` lets it go on (store
// lookup, decision, whatever else it does) and waits for it to return.  Any events may be delivered in between —
// the handshake of that client on that node in particular.

// parkStore is the handle under every node's connstate.Store: when armed, the next call parks (one shot).
type parkStore struct {
	storage.Storage
	mu  sync.Mutex
	cur *pendingRequest // the request whose next call parks (nil: nothing armed)
}

func newParkStore(s storage.Storage) *parkStore { return &parkStore{Storage: s} }

func (p *parkStore) arm(r *pendingRequest) {
	p.mu.Lock()
	p.cur = r
	p.mu.Unlock()
}

func (p *parkStore) gate(op, key string) {
	p.mu.Lock()
	r := p.cur
	p.cur = nil
	p.mu.Unlock()
	if r != nil {
		r.arrived <- op + ":" + key
		<-r.permit
	}
}

func (p *parkStore) Get(key string) (interface{}, error) {
	p.gate("get", key)
	return p.Storage.Get(key)
}
func (p *parkStore) Set(key string, v interface{}, ttl time.Duration) error {
	p.gate("set", key)
	return p.Storage.Set(key, v, ttl)
}
func (p *parkStore) Delete(key string) error {
	p.gate("del", key)
	return p.Storage.Delete(key)
}

// parkStoreCAS: like gatedStoreCAS — the parking handle offers storage.CASStore iff what it wraps does.
type parkStoreCAS struct {
	*parkStore
	cas storage.CASStore
}

func (p *parkStoreCAS) SetNX(key string, v interface{}, ttl time.Duration) (bool, error) {
	p.gate("set", key)
	return p.cas.SetNX(key, v, ttl)
}
func (p *parkStoreCAS) CompareAndSwap(key string, o, n interface{}, ttl time.Duration) (bool, error) {
	p.gate("set", key)
	return p.cas.CompareAndSwap(key, o, n, ttl)
}

// handle is what the node's connstate.Store is built on.
func (p *parkStore) handle() storage.Storage {
	if c, ok := p.Storage.(storage.CASStore); ok {
		return &parkStoreCAS{parkStore: p, cas: c}
	}
	return p
}

var requestSerial int

type pendingRequest struct {
	arrived chan string
	permit  chan struct{}
	n       *nodeEnv
	http    bool
	id      string
	done    chan error
	parked  bool
	fin     bool
	err     error
}

func startRequest(n *nodeEnv, http bool, x int64) *pendingRequest {
	requestSerial++
	r := &pendingRequest{n: n, http: http, id: fmt.Sprintf("verif-req-%d", requestSerial), done: make(chan error, 1),
		arrived: make(chan string), permit: make(chan struct{})}
	local := n.sm.GetControlConnectionByClientID(x)
	hit := local != nil
	var rw *fakeRW
	var before int64
	if hit {
		if rw = n.rws[local.GetConnID()]; rw != nil {
			before = rw.writes.Load()
		}
	} else {
		n.park.arm(r)
	}
	go func() {
		if http {
			_, err := n.sm.SendHTTPProxyRequest(x, &httptypes.HTTPProxyRequest{RequestID: r.id, Method: "GET", URL: "http://verif.local/", Timeout: 2})
			r.done <- err
		} else {
			_, err := n.sm.SendCommandToClient(context.Background(), x, &packet.CommandPacket{CommandType: packet.ConfigGet, CommandId: r.id}, 2*time.Second)
			r.done <- err
		}
	}()
	if hit && rw != nil && !n.down {
		// sent on the node's own connection: wait until the packet is on its way, so that later events
		// (a close of that connection) cannot overtake the send
		for i := 0; i < 2000 && rw.writes.Load() == before; i++ {
			select {
			case err := <-r.done:
				r.fin, r.err = true, err
				return r
			case <-time.After(time.Millisecond):
			}
		}
	}
	if !hit {
		select {
		case <-r.arrived:
			r.parked = true
		case err := <-r.done: // returned without touching the store (invalid client id)
			r.fin, r.err = true, err
			n.park.arm(nil)
		}
	}
	return r
}

func (r *pendingRequest) finish() error {
	if r.fin {
		return r.err
	}
	if r.parked {
		r.permit <- struct{}{}
		r.parked = false
	}
	for {
		select {
		case err := <-r.done:
			r.fin, r.err = true, err
			return err
		case <-time.After(time.Millisecond):
			// sent on the node's own connection: play the client's answer
			if r.http {
				r.n.sm.HandleHTTPProxyResponse(&httptypes.HTTPProxyResponse{RequestID: r.id, StatusCode: 200})
			} else {
				r.n.sm.DeliverCommandResponse(r.id, &packet.CommandPacket{CommandType: packet.ConfigSet, CommandId: r.id})
			}
		}
	}
}
