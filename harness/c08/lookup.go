//go:build verif

package main

import (
	"context"
	"time"

	"tunnox-core/internal/core/storage"
	"tunnox-core/internal/protocol/session/connstate"
)

// Split lookups: `q:<node>.<client>` starts a REAL connstate.Store.FindClientNode on a store handle whose
// every Get/Set/Delete waits for a permit, and lets exactly its first storage call (the index read) run;
// `r:<node>.<client>` lets the rest run (the record read — and whatever else the lookup decides to do) and
// takes the answer.  Any events may be delivered in between.

type stepStore struct {
	storage.Storage
	arrived chan string
	permit  chan struct{}
}

func (s *stepStore) wait(op, key string) {
	s.arrived <- op + ":" + key
	<-s.permit
}

func (s *stepStore) Get(key string) (interface{}, error) {
	s.wait("get", key)
	return s.Storage.Get(key)
}
func (s *stepStore) Set(key string, v interface{}, ttl time.Duration) error {
	s.wait("set", key)
	return s.Storage.Set(key, v, ttl)
}
func (s *stepStore) Delete(key string) error {
	s.wait("del", key)
	return s.Storage.Delete(key)
}

type lookupResult struct {
	node, conn string
	err        error
}

type pendingLookup struct {
	ss       *stepStore
	done     chan lookupResult
	finished bool
	waiting  bool // parked at a storage call
	res      lookupResult
}

// advance waits until the lookup either parks at its next storage call or returns.
func (p *pendingLookup) advance() {
	select {
	case <-p.ss.arrived:
		p.waiting = true
	case r := <-p.done:
		p.finished, p.waiting, p.res = true, false, r
	}
}

func startLookup(ctx context.Context, under storage.Storage, nodeID string, ttl time.Duration, x int64) *pendingLookup {
	p := &pendingLookup{ss: &stepStore{Storage: under, arrived: make(chan string), permit: make(chan struct{})},
		done: make(chan lookupResult, 1)}
	cs := connstate.NewStore(p.ss, nodeID, ttl)
	go func() {
		n, c, err := cs.FindClientNode(ctx, x)
		p.done <- lookupResult{n, c, err}
	}()
	p.advance() // reached the index read (or returned: invalid id)
	if p.waiting {
		p.ss.permit <- struct{}{} // the index read runs now
		p.advance()               // parked at the record read (or returned: no index entry)
	}
	return p
}

func (p *pendingLookup) finish() lookupResult {
	for !p.finished {
		p.ss.permit <- struct{}{}
		p.advance()
	}
	return p.res
}
