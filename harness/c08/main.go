//go:build verif

// Harness for C08 (cross-node lookup finds a connected client at its current node).
//
//	c08 -tier quick|thorough -seed N [-stats file] [-nogen file] [corpus files…]
//
// A case is one history of session events on 2..4 nodes sharing one store (grammar:
// lean/TunnoxModel/Driver/C08.lean).  Every node is a REAL session.SessionManager with its own
// connstate.Store; events are delivered through the real entry points (CreateConnection,
// HandlePacket(Handshake|Heartbeat), CloseConnection); after every event every node is asked
// FindClientNode for every watched client and SendCommandToClient's routing decision is recorded.
//
// Backends: mem (memory.Storage), red (redis.Storage over miniredis), hyr (hybrid: local memory per
// node + shared redis), hyl (hybrid with the local cache only), map / byt (memory behind a double
// that hands back map[string]interface{} / []byte).  Clock: `t:<ms>` is miniredis.FastForward on
// red/hyr and a real sleep on the others.
package main

import (
	"context"
	"encoding/json"
	"errors"
	"flag"
	"fmt"
	"io"
	"os"
	"strconv"
	"strings"
	"sync"
	"sync/atomic"
	"time"

	"github.com/alicebob/miniredis/v2"

	corelog "tunnox-core/internal/core/log"

	"tunnox-core/internal/core/idgen"
	"tunnox-core/internal/core/storage"
	"tunnox-core/internal/core/types"
	"tunnox-core/internal/packet"
	"tunnox-core/internal/protocol/adapter"
	"tunnox-core/internal/protocol/session"
	"tunnox-core/internal/protocol/session/connstate"
	"tunnox-core/internal/verifharness/common"
)

// ------------------------------------------------------------------ case

type conn struct{ node, client, k int }

func (c conn) String() string { return fmt.Sprintf("%d.%d.%d", c.node, c.client, c.k) }

func parseConn(s string) (conn, error) {
	p := strings.Split(s, ".")
	if len(p) != 3 {
		return conn{}, errors.New("bad conn")
	}
	var v [3]int
	for i := range p {
		n, err := strconv.Atoi(p[i])
		if err != nil || n < 0 {
			return conn{}, errors.New("bad conn")
		}
		v[i] = n
	}
	return conn{v[0], v[1], v[2]}, nil
}

type event struct {
	code byte
	c    conn
	dt   int64
}

type kase struct {
	sched   string // "" = sequential; else the 01-schedule of the last two events (sched.go)
	backend string
	ttl     int64
	nn      int
	clients []int64
	evs     []event
}

func kvInt(tok, key string) (int64, error) {
	if !strings.HasPrefix(tok, key+"=") {
		return 0, errors.New("expected " + key)
	}
	return strconv.ParseInt(tok[len(key)+1:], 10, 64)
}

func parseCase(s string) (*kase, error) {
	f := strings.Fields(s)
	sched := ""
	if len(f) > 2 && f[0] == "sched" {
		sched = f[1]
		if sched == "" || strings.Trim(sched, "01") != "" {
			return nil, errors.New("bad schedule")
		}
		f = f[2:]
	}
	if len(f) < 4 {
		return nil, errors.New("short case")
	}
	k := &kase{backend: f[0], sched: sched}
	switch k.backend {
	case "mem", "red", "hyr", "hyl", "map", "byt":
	default:
		return nil, errors.New("bad backend")
	}
	var err error
	if k.ttl, err = kvInt(f[1], "ttl"); err != nil || k.ttl < 0 {
		return nil, errors.New("bad ttl")
	}
	nn, err := kvInt(f[2], "nn")
	if err != nil || nn < 1 || nn > 8 {
		return nil, errors.New("bad nn")
	}
	k.nn = int(nn)
	if !strings.HasPrefix(f[3], "cl=") {
		return nil, errors.New("bad cl")
	}
	for _, x := range strings.Split(f[3][3:], ",") {
		v, err := strconv.ParseInt(x, 10, 64)
		if err != nil || v < 0 {
			return nil, errors.New("bad client")
		}
		k.clients = append(k.clients, v)
	}
	for _, t := range f[4:] {
		if len(t) < 3 || t[1] != ':' {
			return nil, errors.New("bad event " + t)
		}
		e := event{code: t[0]}
		switch t[0] {
		case 't', 'w':
			if e.dt, err = strconv.ParseInt(t[2:], 10, 64); err != nil || e.dt < 0 {
				return nil, errors.New("bad tick")
			}
		case 'q', 'r', 'y', 'z', 'm', 'n': // split lookup / split consumer: <node>.<client>
			p := strings.Split(t[2:], ".")
			if len(p) != 2 {
				return nil, errors.New("bad lookup")
			}
			n, err1 := strconv.Atoi(p[0])
			x, err2 := strconv.Atoi(p[1])
			if err1 != nil || err2 != nil || n < 0 || n >= k.nn || x < 0 {
				return nil, errors.New("bad lookup")
			}
			e.c.node, e.c.client = n, x
		case 'x':
			n, err := strconv.Atoi(t[2:])
			if err != nil || n < 0 || n >= k.nn {
				return nil, errors.New("bad node")
			}
			e.c.node = n
		case 'o', 'h', 'f', 'u', 'v', 'b', 'c', 'e', 'd', 's', 'k':
			if e.c, err = parseConn(t[2:]); err != nil {
				return nil, err
			}
			if e.c.node >= k.nn {
				return nil, errors.New("node out of range")
			}
		default:
			return nil, errors.New("bad event " + t)
		}
		k.evs = append(k.evs, e)
	}
	if k.sched != "" {
		n := len(k.evs)
		bad := func(c byte) bool { return strings.IndexByte("twqrxyzmn", c) >= 0 }
		if n < 2 || bad(k.evs[n-1].code) || bad(k.evs[n-2].code) || k.evs[n-1].c.node == k.evs[n-2].c.node {
			return nil, errors.New("sched: the last two events must be handler calls on different nodes")
		}
	}
	return k, nil
}

func realClock(backend string) bool { return backend != "red" && backend != "hyr" }

// ------------------------------------------------------------------ doubles

// shapeStore hands back a stored non-string value as map[string]interface{} or []byte
// (the two decoder branches of GetConnectionState that no shipped backend exercises).
type shapeStore struct {
	storage.Storage
	asBytes bool
}

func (s *shapeStore) Set(key string, value interface{}, ttl time.Duration) error {
	if !strings.HasPrefix(key, "tunnox:conn_state:") && !strings.HasPrefix(key, "tunnox:client_conn:") {
		return s.Storage.Set(key, value, ttl) // only the connstate decoder has alternative shapes
	}
	if str, ok := value.(string); ok {
		if s.asBytes {
			return s.Storage.Set(key, []byte(str), ttl)
		}
		return s.Storage.Set(key, str, ttl)
	}
	data, err := json.Marshal(value)
	if err != nil {
		return err
	}
	if s.asBytes {
		return s.Storage.Set(key, data, ttl)
	}
	var m map[string]interface{}
	if err := json.Unmarshal(data, &m); err != nil {
		return s.Storage.Set(key, string(data), ttl)
	}
	return s.Storage.Set(key, m, ttl)
}

// recorder is the storage handed to the CrossNodePool: it records which node's address is asked
// for (= the routing decision) and refuses, so that no network connection is attempted.
type recorder struct {
	storage.Storage
	mu   sync.Mutex
	keys []string
}

var errNoAddr = errors.New("verif: no address")

func (r *recorder) Get(key string) (interface{}, error) {
	r.mu.Lock()
	r.keys = append(r.keys, key)
	r.mu.Unlock()
	return nil, errNoAddr
}

func (r *recorder) take() []string {
	r.mu.Lock()
	defer r.mu.Unlock()
	k := r.keys
	r.keys = nil
	return k
}

// fakeRW is the transport of a connection: nothing to read, writes are swallowed.
type fakeRW struct {
	id     string
	writes atomic.Int64 // number of Write calls (a packet sent to the client)
}

func (f *fakeRW) Read(p []byte) (int, error) { return 0, io.EOF }
func (f *fakeRW) Write(p []byte) (int, error) {
	f.writes.Add(1)
	return len(p), nil
}
func (f *fakeRW) GetConnectionID() string { return f.id }

// ------------------------------------------------------------------ shared miniredis

var (
	mr       *miniredis.Miniredis
	redisCli []storage.Storage
)

func redisStore(i int) storage.Storage {
	if mr == nil {
		var err error
		if mr, err = miniredis.Run(); err != nil {
			panic(err)
		}
	}
	for len(redisCli) <= i {
		s, err := storage.NewRedisStorage(context.Background(), &storage.RedisConfig{Addr: mr.Addr()})
		if err != nil {
			panic(err)
		}
		redisCli = append(redisCli, s)
	}
	return redisCli[i]
}

// ------------------------------------------------------------------ executor

type nodeEnv struct {
	down  bool // the session manager was shut down: its routing decision is not observed any more
	id    string
	park  *parkStore
	rws   map[string]*fakeRW // transports of the connections created on this node
	cloud *cloudNode
	sm    *session.SessionManager
	cs    *connstate.Store
	rec   *recorder
}

func nodeName(j int) string { return "n" + strconv.Itoa(j) }

func nodeIndex(s string) (int, bool) {
	if !strings.HasPrefix(s, "n") {
		return 0, false
	}
	n, err := strconv.Atoi(s[1:])
	return n, err == nil
}

func sanitize(s string) string {
	s = strings.Map(func(r rune) rune {
		if r == ' ' || r == '\n' || r == '\t' || r == '#' || r == ';' || r == ',' || r == '/' || r == '=' {
			return '_'
		}
		return r
	}, s)
	if len(s) > 100 {
		s = s[:100]
	}
	return s
}

func lookTok(node, connID string, err error) string {
	if err != nil {
		switch {
		case errors.Is(err, connstate.ErrConnectionNotFound), errors.Is(err, connstate.ErrConnectionExpired),
			err == connstate.ErrConnectionNotFound, err == connstate.ErrConnectionExpired:
			return "-"
		}
		msg := err.Error()
		switch {
		case strings.Contains(msg, "invalid client_id"):
			return "inv"
		case strings.Contains(msg, "connection not found in state store"), strings.Contains(msg, "connection state expired"):
			return "-"
		case strings.Contains(msg, "unexpected value type"), strings.Contains(msg, "unmarshal"):
			return "bad"
		}
		return "err:" + sanitize(msg)
	}
	j, ok := nodeIndex(node)
	if !ok {
		return "err:node_" + sanitize(node)
	}
	return fmt.Sprintf("%d@%s", j, connID)
}

func routeTok(n *nodeEnv, x int64) string {
	if n.down {
		return "X"
	}
	n.rec.take()
	_, err := n.sm.SendCommandToClient(context.Background(), x, &packet.CommandPacket{CommandType: packet.ConfigGet, CommandId: "verif"}, 0)
	asked := n.rec.take()
	if err == nil {
		return "err:answered"
	}
	msg := err.Error()
	switch {
	case len(asked) > 0:
		// tunnox:node:<id>:addr
		p := strings.Split(asked[0], ":")
		if len(p) == 4 {
			if j, ok := nodeIndex(p[2]); ok {
				return "R" + strconv.Itoa(j)
			}
		}
		return "err:asked_" + sanitize(asked[0])
	case strings.Contains(msg, "state inconsistent"):
		return "I"
	case strings.Contains(msg, "not connected"):
		return "N"
	case strings.Contains(msg, "timeout waiting for command response"), strings.Contains(msg, "failed to send command to client"):
		return "L"
	}
	return "err:" + sanitize(msg)
}

type runResult struct {
	key      string // "K:<finding> " when the executed schedule is a witness of a known finding
	obs      string
	overshot bool // a real sleep took much longer than asked (timing-sensitive case must be rerun)
}

func runCase(k *kase) (res runResult) {
	ctx, cancel := context.WithCancel(context.Background())
	defer cancel()

	// the shared store, one handle per node
	stores := make([]storage.Storage, k.nn)
	switch k.backend {
	case "mem", "map", "byt":
		var s storage.Storage = storage.NewMemoryStorage(ctx)
		if k.backend != "mem" {
			s = &shapeStore{Storage: s, asBytes: k.backend == "byt"}
		}
		for j := range stores {
			stores[j] = s
		}
	case "hyl":
		local := storage.NewMemoryStorage(ctx)
		s := storage.NewHybridStorageWithSharedCache(ctx, local.(storage.CacheStorage), nil, nil, nil)
		for j := range stores {
			stores[j] = s
		}
	case "red":
		for j := range stores {
			stores[j] = redisStore(j)
		}
		mr.FlushAll()
	case "hyr":
		for j := range stores {
			local := storage.NewMemoryStorage(ctx)
			stores[j] = storage.NewHybridStorageWithSharedCache(ctx, local.(storage.CacheStorage), redisStore(j).(storage.CacheStorage), nil, nil)
		}
		mr.FlushAll()
	}

	g := newGate()
	tids := make([]int, k.nn)
	for j := range stores {
		tids[j] = -1
		stores[j] = newGatedStore(stores[j], g, &tids[j])
	}

	nodes := make([]*nodeEnv, k.nn)
	idStore := storage.NewMemoryStorage(ctx)
	for j := range nodes {
		n := &nodeEnv{id: nodeName(j), rec: &recorder{Storage: idStore}}
		n.sm = session.NewSessionManager(idgen.NewIDManager(idStore, ctx), ctx)
		n.sm.SetNodeID(n.id)
		n.cloud = newCloudNode(ctx, stores[j])
		n.sm.SetAuthHandler(cloudAuth{cloud: n.cloud, nodeID: n.id})
		n.sm.SetCloudControl(n.cloud)
		n.park = newParkStore(stores[j])
		n.rws = map[string]*fakeRW{}
		n.cs = session.NewConnectionStateStore(n.park.handle(), n.id, time.Duration(k.ttl)*time.Millisecond)
		n.sm.SetConnectionStateStore(n.cs)
		n.sm.SetCrossNodePool(session.NewCrossNodePool(ctx, n.rec, n.id, session.DefaultCrossNodePoolConfig()))
		nodes[j] = n
	}
	defer func() {
		for _, n := range nodes {
			n.sm.Close()
		}
	}()

	lookups := map[[2]int]*pendingLookup{}
	defer func() {
		for _, p := range lookups {
			p.finish()
		}
	}()
	requests := map[[3]int]*pendingRequest{}
	defer func() {
		for _, r := range requests {
			r.finish()
		}
	}()
	deliver := func(e event) error {
		var herr error
		switch e.code {
		case 'y', 'm':
			kind := 0
			if e.code == 'm' {
				kind = 1
			}
			key := [3]int{kind, e.c.node, e.c.client}
			if old := requests[key]; old != nil {
				old.finish()
			}
			requests[key] = startRequest(nodes[e.c.node], kind == 0, int64(e.c.client))
		case 'z', 'n':
			kind := 0
			if e.code == 'n' {
				kind = 1
			}
			key := [3]int{kind, e.c.node, e.c.client}
			r := requests[key]
			if r == nil {
				herr = errors.New("no request in flight")
				break
			}
			delete(requests, key)
			herr = r.finish()
		case 'q':
			key := [2]int{e.c.node, e.c.client}
			if old := lookups[key]; old != nil {
				old.finish()
			}
			lookups[key] = startLookup(ctx, stores[e.c.node], nodeName(e.c.node), time.Duration(k.ttl)*time.Millisecond, int64(e.c.client))
		case 'r':
			key := [2]int{e.c.node, e.c.client}
			p := lookups[key]
			if p == nil {
				herr = errors.New("no lookup in flight")
				break
			}
			delete(lookups, key)
			herr = p.finish().err
		case 'o':
			rw := &fakeRW{id: e.c.String()}
			_, herr = nodes[e.c.node].sm.CreateConnection(rw, rw)
			if herr == nil {
				nodes[e.c.node].rws[rw.id] = rw
			}
		case 'h', 'f', 'u', 'v':
			req := packet.HandshakeRequest{ClientID: int64(e.c.client), Version: "verif", Protocol: "tcp", Token: "ok", ConnectionType: "control"}
			if e.code == 'f' || e.code == 'v' {
				req.Token = "bad"
			}
			if e.code == 'u' || e.code == 'v' {
				req.ConnectionType = "tunnel"
			}
			body, _ := json.Marshal(&req)
			herr = nodes[e.c.node].sm.HandlePacket(&types.StreamPacket{ConnectionID: e.c.String(), Timestamp: time.Now(),
				Packet: &packet.TransferPacket{PacketType: packet.Handshake, Payload: body}})
		case 'b':
			herr = nodes[e.c.node].sm.HandlePacket(&types.StreamPacket{ConnectionID: e.c.String(), Timestamp: time.Now(),
				Packet: &packet.TransferPacket{PacketType: packet.Heartbeat}})
		case 'c': // CloseConnection called directly
			herr = nodes[e.c.node].sm.CloseConnection(e.c.String())
		case 'e': // the adapter's read loop ended
			adapter.VerifCleanupConnection(nodes[e.c.node].sm, e.c.String())
		case 'd', 's': // Disconnect command / heartbeat-timeout sweep; reported: did this call close the connection
			sm := nodes[e.c.node].sm
			_, before := sm.GetConnection(e.c.String())
			if e.code == 'd' {
				sm.HandlePacket(&types.StreamPacket{ConnectionID: e.c.String(), Timestamp: time.Now(),
					Packet: &packet.TransferPacket{PacketType: packet.JsonCommand,
						CommandPacket: &packet.CommandPacket{CommandType: packet.Disconnect, CommandId: "verif-disc"}}})
			} else {
				sm.VerifSweepStale(e.c.String())
			}
			_, after := sm.GetConnection(e.c.String())
			if !(before && !after) {
				herr = errors.New("not closed by this call")
			}
		case 'k': // duplicate-login eviction of the node's other connection of the client
			nodes[e.c.node].sm.KickOldControlConnection(int64(e.c.client), e.c.String())
		case 'x': // session manager shutdown
			nodes[e.c.node].sm.Close()
			nodes[e.c.node].down = true
		case 'w': // wall time passes on every backend: storage deadlines AND the records' ExpiresAt move
			d := time.Duration(e.dt) * time.Millisecond
			t0 := time.Now()
			time.Sleep(d)
			if time.Since(t0)-d > 25*time.Millisecond {
				res.overshot = true
			}
			if !realClock(k.backend) {
				mr.FastForward(d)
			}
		case 't':
			d := time.Duration(e.dt) * time.Millisecond
			if realClock(k.backend) {
				t0 := time.Now()
				time.Sleep(d)
				if time.Since(t0)-d > 25*time.Millisecond {
					res.overshot = true
				}
			} else {
				mr.FastForward(d)
			}
		}
		return herr
	}
	observe := func() string {
		var per []string
		for _, x := range k.clients {
			var ans []string
			for _, n := range nodes {
				node, cid, err := n.cs.FindClientNode(ctx, x)
				ans = append(ans, lookTok(node, cid, err)+"/"+routeTok(n, x)+"/"+n.cloud.stateTok(x))
			}
			per = append(per, strconv.FormatInt(x, 10)+"="+strings.Join(ans, ","))
		}
		return strings.Join(per, ";")
	}
	flagOf := func(err error) string {
		if err != nil {
			return "er|"
		}
		return "ok|"
	}

	var toks []string
	seq := k.evs
	if k.sched != "" {
		seq = k.evs[:len(k.evs)-2]
	}
	for _, e := range seq {
		herr := deliver(e)
		toks = append(toks, flagOf(herr)+observe())
	}
	if k.sched != "" {
		pair := k.evs[len(k.evs)-2:]
		var errs [2]error
		g.mu.Lock()
		g.active = true
		g.mu.Unlock()
		for t := 0; t < 2; t++ {
			tids[pair[t].c.node] = t
		}
		var wg sync.WaitGroup
		for t := 0; t < 2; t++ {
			wg.Add(1)
			go func(t int) {
				defer wg.Done()
				defer g.finish(t)
				defer func() {
					if r := recover(); r != nil {
						errs[t] = fmt.Errorf("panic: %v", r)
					}
				}()
				errs[t] = deliver(pair[t])
			}(t)
		}
		for _, ch := range k.sched {
			g.step(int(ch - '0'))
		}
		// the schedule is used up: the rest runs one thread after the other (deterministic, and the trace stays exact)
		for t := 0; t < 2; t++ {
			for !g.isDone(t) {
				g.step(t)
			}
		}
		g.release()
		wg.Wait()
		for j := range tids {
			tids[j] = -1
		}
		if racy(g.trace) {
			res.key = "K:index-check-then-act "
		}
		o := observe()
		toks = append(toks, flagOf(errs[0])+o, flagOf(errs[1])+o)
	}
	res.obs = strings.Join(toks, " ")
	return res
}
func totalTicks(k *kase) time.Duration {
	var s int64
	for _, e := range k.evs {
		if e.code == 'w' || (e.code == 't' && realClock(k.backend)) {
			s += e.dt
		}
	}
	return time.Duration(s) * time.Millisecond
}

// execCase runs a case line under recover and a watchdog.
func execCase(cs string) (string, string) {
	k, err := parseCase(cs)
	if err != nil {
		return "", "bad-case:" + sanitize(err.Error())
	}
	if totalTicks(k) > 20*time.Second {
		return "", "bad-case:sleeps_too_long"
	}
	for attempt := 0; ; attempt++ {
		done := make(chan runResult, 1)
		go func() {
			defer func() {
				if r := recover(); r != nil {
					done <- runResult{obs: "panic:" + sanitize(fmt.Sprint(r))}
				}
			}()
			done <- runCase(k)
		}()
		select {
		case r := <-done:
			if r.overshot && attempt < 5 {
				continue
			}
			return r.key, r.obs
		case <-time.After(15*time.Second + totalTicks(k)):
			return "", "timeout"
		}
	}
}

// ------------------------------------------------------------------ main

func main() {
	tier := flag.String("tier", "quick", "")
	seed := flag.Uint64("seed", 1, "")
	stats := flag.String("stats", "", "")
	nogen := flag.String("nogen", "", "only replay the cases of this file")
	flag.Parse()
	corelog.SetDefault(corelog.NewNopLogger())

	out := common.NewOut()
	emit := func(line string) {
		line = strings.TrimSpace(line)
		if line == "" || strings.HasPrefix(line, "#") {
			return
		}
		key, cs := "", line
		if strings.HasPrefix(cs, "K:") {
			i := strings.Index(cs, " ")
			key, cs = cs[:i+1], cs[i+1:]
		}
		if i := strings.Index(cs, " ## "); i >= 0 {
			cs = cs[:i]
		}
		wkey, obs := execCase(cs)
		if key == "" {
			key = wkey
		}
		f := strings.Fields(cs)
		dk := ""
		if len(f) > 5 {
			dk = cs
		}
		out.Case(key+cs, obs, dk)
		if len(f) > 2 && f[0] == "sched" {
			out.Count("sched/" + f[2])
			if wkey != "" {
				out.Count("sched/check-then-act-window")
			}
		} else if len(f) > 0 {
			out.Count("backend/" + f[0])
		}
		switch {
		case strings.Contains(obs, "@") && strings.Contains(obs, "/R"):
			out.Count("outcome/found-cross-node")
		case strings.Contains(obs, "@"):
			out.Count("outcome/found")
		default:
			out.Count("outcome/never-found")
		}
		if strings.Contains(cs, " t:") {
			out.Count("clock/ticks")
		}
	}
	files := flag.Args()
	if *nogen != "" {
		files = []string{*nogen}
	}
	for _, f := range files {
		b, err := os.ReadFile(f)
		if err != nil {
			fmt.Fprintln(os.Stderr, err)
			os.Exit(2)
		}
		for _, l := range strings.Split(string(b), "\n") {
			emit(l)
		}
	}
	if *nogen == "" {
		generate(common.NewRand(*seed), *tier, emit)
	}
	out.Finish(*stats, nil)
	if mr != nil {
		mr.Close()
	}
}
