//go:build verif

package domainproxy

import (
	"tunnox-core/internal/cloud/models"
	"tunnox-core/internal/httpservice"
)

// Export shims for the verification harness (injected by -overlay; never committed to the repo).

// VerifNewForLookup builds a module that has only its dependencies set (lookupMapping reads nothing else).
func VerifNewForLookup(deps *httpservice.ModuleDependencies) *DomainProxyModule {
	return &DomainProxyModule{deps: deps}
}

func (m *DomainProxyModule) VerifLookupMapping(host string) (*models.PortMapping, error) {
	return m.lookupMapping(host)
}

func VerifExtractDomain(host string) string { return extractDomain(host) }

// VerifNewForServe builds a module that can run ServeHTTP's small-request path (dependencies and config only).
func VerifNewForServe(deps *httpservice.ModuleDependencies, config *httpservice.DomainProxyModuleConfig) *DomainProxyModule {
	return &DomainProxyModule{deps: deps, config: config}
}
