//go:build verif

package httpservice

// Export shims for the verification harness (injected by -overlay; never committed to the repo).

// VerifHoldWrite takes the registry's write lock; every Register / Unregister / Lookup call made meanwhile parks at
// its first lock acquisition.  VerifReleaseWrite lets all of them go at once — the C19 harness uses the pair as a
// starting barrier *inside* the registry, so that simultaneous claimants really are simultaneous.
func (r *DomainRegistry) VerifHoldWrite()    { r.mu.Lock() }
func (r *DomainRegistry) VerifReleaseWrite() { r.mu.Unlock() }
