//go:build verif

package stream

// Export shims for the verification harness (injected by -overlay; never committed to the repo).

func (ps *StreamProcessor) VerifCompress(b []byte) ([]byte, error) { return ps.compressData(b) }
func (ps *StreamProcessor) VerifDecompress(b []byte) ([]byte, error) {
	return ps.decompressData(b)
}
