//go:build verif

package socks5

import "net"

// Export shims for the verification harness (injected by -overlay; never committed to the repo).

// VerifParseUDPHeader calls the real parseUDPHeader (it uses no relay state).
func VerifParseUDPHeader(data []byte) (string, int, []byte, error) {
	r := &UDPRelay{}
	return r.parseUDPHeader(data)
}

// VerifBuildUDPHeader calls the real buildUDPHeader (it uses no relay state).
func VerifBuildUDPHeader(dstHost string, dstPort int, payload []byte) []byte {
	r := &UDPRelay{}
	return r.buildUDPHeader(dstHost, dstPort, payload)
}

// VerifHandleConnection runs the real per-connection handler (what acceptLoop starts for an accepted conn).
func (l *Listener) VerifHandleConnection(conn net.Conn) { l.handleConnection(conn) }
