//go:build verif

package security

// Export shim for the C03 harness (injected by -overlay; never committed to the repo).

// VerifRefillIP models the passage of time for the anonymous-connection limiter:
// the address gets a full bucket again (a dropped bucket is recreated full by allow()).
func (r *RateLimiter) VerifRefillIP(ip string) {
	r.ipMu.Lock()
	delete(r.ipBuckets, ip)
	r.ipMu.Unlock()
}
