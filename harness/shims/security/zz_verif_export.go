//go:build verif

package security

// Export shims for the verification harness (C18): the periodic clean-up passes and the lazily
// spawned removal steps, so that the harness can run them at a modelled instant.

func (p *BruteForceProtector) VerifCleanup()                   { p.cleanup() }
func (p *BruteForceProtector) VerifUnbanIfExpired(ip string)   { p.unbanIfExpired(ip) }
func (m *IPManager) VerifCleanup()                             { m.cleanup() }
func (m *IPManager) VerifRemoveExpiredFromBlacklist(ip string) { m.removeExpiredFromBlacklist(ip) }
func (r *RateLimiter) VerifCleanup()                           { r.cleanup() }

// C18, AllowIP cut at its lock boundaries: the table lock (to park callers in front of the lookup),
// and the lookup section itself (what allow() does under RLock before it calls Take on the result).
func (r *RateLimiter) VerifLockIPTable()   { r.ipMu.Lock() }
func (r *RateLimiter) VerifUnlockIPTable() { r.ipMu.Unlock() }
func (r *RateLimiter) VerifBucket(ip string) *TokenBucket {
	r.ipMu.RLock()
	defer r.ipMu.RUnlock()
	return r.ipBuckets[ip]
}
