//go:build verif

package security

// Export shims for the verification harness (C18): the periodic clean-up passes and the lazily
// spawned removal steps, so that the harness can run them at a modelled instant.

func (p *BruteForceProtector) VerifCleanup()                   { p.cleanup() }
func (p *BruteForceProtector) VerifUnbanIfExpired(ip string)   { p.unbanIfExpired(ip) }
func (m *IPManager) VerifCleanup()                             { m.cleanup() }
func (m *IPManager) VerifRemoveExpiredFromBlacklist(ip string) { m.removeExpiredFromBlacklist(ip) }
func (r *RateLimiter) VerifCleanup()                           { r.cleanup() }
