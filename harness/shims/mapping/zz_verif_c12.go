//go:build verif

package mapping

import "net"

// VerifNewUDPVirtualConn creates a session exactly as the adapter's read loop does for the first datagram
// of a new source address (getOrCreateSession starts the session's writeLoop), over the given socket.
func VerifNewUDPVirtualConn(listener net.PacketConn, remote net.Addr) *UDPVirtualConn {
	a := NewUDPMappingAdapter()
	return a.getOrCreateSession(remote.String(), remote, listener)
}

// VerifQueued: datagrams accepted by Write and not yet taken by the writeLoop.
func (c *UDPVirtualConn) VerifQueued() int { return len(c.writeChan) }

// VerifClosed: Close has been called.
func (c *UDPVirtualConn) VerifClosed() bool {
	select {
	case <-c.closeCh:
		return true
	default:
		return false
	}
}

// VerifSession: an adapter plus the session of one source address, for driving the adapter's receive path.
type VerifSession struct {
	A    *UDPMappingAdapter
	Conn *UDPVirtualConn
	l    net.PacketConn
	addr net.Addr
}

func VerifNewSession(listener net.PacketConn, remote net.Addr) *VerifSession {
	a := NewUDPMappingAdapter()
	return &VerifSession{A: a, Conn: a.getOrCreateSession(remote.String(), remote, listener), l: listener, addr: remote}
}

// Deliver hands one received datagram to the adapter the way its read loop does (pooled buffer, processPacket).
func (s *VerifSession) Deliver(d []byte) {
	buf := getBuffer()
	n := copy(buf, d)
	s.A.processPacket(buf, n, s.addr, s.l)
}

// ReadQueued: datagrams delivered and not yet taken by Read.
func (s *VerifSession) ReadQueued() int { return len(s.Conn.readChan) }
