//go:build verif

package mapping

import "net"

// VerifNewUDPVirtualConn creates a session exactly as the adapter's read loop does for the first datagram
// of a new source address (getOrCreateSession starts the session's writeLoop), over the given socket.
func VerifNewUDPVirtualConn(listener net.PacketConn, remote net.Addr) *UDPVirtualConn {
	a := NewUDPMappingAdapter()
	return a.getOrCreateSession(remote.String(), remote, listener)
}

// VerifQueued: datagrams accepted by Write and not yet taken by the writeLoop.
func (c *UDPVirtualConn) VerifQueued() int { return len(c.writeChan) }

// VerifClosed: Close has been called.
func (c *UDPVirtualConn) VerifClosed() bool {
	select {
	case <-c.closeCh:
		return true
	default:
		return false
	}
}
