//go:build verif

package mapping

import "io"

// VerifHandleConnection runs the real per-connection handler synchronously (C17 harness).
func (h *BaseMappingHandler) VerifHandleConnection(c io.ReadWriteCloser) { h.handleConnection(c) }
