//go:build verif

package mapping

import (
	"io"

	"tunnox-core/internal/client/tunnel"
)

// VerifHandleConnection runs the real per-connection handler synchronously (C17 harness).
func (h *BaseMappingHandler) VerifHandleConnection(c io.ReadWriteCloser) { h.handleConnection(c) }

// VerifSetTunnelManager replaces the handler's tunnel manager (C17 slot scenarios: a wrapper whose
// RegisterTunnel is a gate, so that a tunnel can be closed between RegisterTunnel and Start).
func (h *BaseMappingHandler) VerifSetTunnelManager(m tunnel.TunnelManager) { h.tunnelManager = m }
