//go:build verif

package mapping

import (
	"io"

	"tunnox-core/internal/client/tunnel"
)

// VerifHandleConnection runs the real per-connection handler synchronously (C17 harness).
func (h *BaseMappingHandler) VerifHandleConnection(c io.ReadWriteCloser) { h.handleConnection(c) }

// VerifSetTunnelManager replaces the handler's tunnel manager (C17 slot scenarios: a wrapper whose
// RegisterTunnel is a gate, so that a tunnel can be closed between RegisterTunnel and Start).
func (h *BaseMappingHandler) VerifSetTunnelManager(m tunnel.TunnelManager) { h.tunnelManager = m }

// VerifAcquireSlot / VerifReleaseSlot: the two halves of the per-mapping slot protocol, callable in a
// tight loop (C17 counter stress: no injectable call sits between the Load and the CompareAndSwap of
// an acquisition, nor inside a release, so only real parallelism at full speed reaches those windows).
func (h *BaseMappingHandler) VerifAcquireSlot() error { return h.acquireConnectionSlot() }
func (h *BaseMappingHandler) VerifReleaseSlot()       { h.releaseConnectionSlot() }
