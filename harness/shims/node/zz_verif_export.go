//go:build verif

package node

// VerifRenew performs one heartbeat renewal of the currently held node id (what
// heartbeatLoop does on every tick).
func (a *NodeIDAllocator) VerifRenew() error {
	return a.renewNodeID(NodeIDKeyPrefix+a.nodeID, a.nodeID)
}
