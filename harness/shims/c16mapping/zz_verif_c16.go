//go:build verif

package mapping

import "time"

// Export shims for the C16 harness (overlay-injected, never part of a normal build).

// VerifReportStats drives the unexported reportStats (what a ticker tick and the close cleanup run).
func (h *BaseMappingHandler) VerifReportStats() { h.reportStats() }

// VerifAddTraffic is what the OnClosed callback of a finished tunnel does.
func (h *BaseMappingHandler) VerifAddTraffic(sent, received int64) {
	h.trafficStats.BytesSent.Add(sent)
	h.trafficStats.BytesReceived.Add(received)
}

// VerifPending returns the totals not yet reported.
func (h *BaseMappingHandler) VerifPending() (int64, int64) {
	return h.trafficStats.BytesSent.Load(), h.trafficStats.BytesReceived.Load()
}

// VerifResetStatsTicker lets a tick of reportStatsLoop fire now instead of after 30 s.
func (h *BaseMappingHandler) VerifResetStatsTicker(d time.Duration) { h.statsReportTicker.Reset(d) }
