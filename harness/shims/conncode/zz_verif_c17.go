//go:build verif

package conncode

// VerifCodeQuotaLocked reports whether the critical section of CreateConnectionCode is occupied
// (probe of the real mutex; called by the C17 scheduler only while every thread is parked).
func (s *Service) VerifCodeQuotaLocked() bool {
	if s.codeQuotaMu.TryLock() {
		s.codeQuotaMu.Unlock()
		return false
	}
	return true
}

// VerifMappingQuotaLocked: the same for ActivateConnectionCode.
func (s *Service) VerifMappingQuotaLocked() bool {
	if s.mappingQuotaMu.TryLock() {
		s.mappingQuotaMu.Unlock()
		return false
	}
	return true
}
