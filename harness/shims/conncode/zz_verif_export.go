//go:build verif

package conncode

// VerifSetGenerator installs a code generator with a small code space, so that the verification harness can
// make CreateConnectionCode draw codes that already exist (the default space has 33^9 codes).
func (s *Service) VerifSetGenerator(g *Generator) { s.generator = g }
