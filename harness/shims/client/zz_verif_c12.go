//go:build verif

package client

import (
	"context"
	"io"
	"net"

	"tunnox-core/internal/stream"
)

// VerifUDPTunnelConn is the (unexported) SOCKS5 UDP-ASSOCIATE tunnel codec.
type VerifUDPTunnelConn interface {
	SendPacket(data []byte) error
	ReceivePacket() ([]byte, error)
	Close() error
}

// VerifNewUDPTunnelConn builds a udpTunnelConn the way CreateUDPTunnel does, over the given tunnel
// reader/writer (the stream processor hands them out unchanged via GetReader/GetWriter).
func VerifNewUDPTunnelConn(r io.Reader, w io.Writer) VerifUDPTunnelConn {
	a, b := net.Pipe()
	_ = b
	return &udpTunnelConn{
		tunnelID:     "verif-c12",
		serverConn:   a,
		tunnelStream: stream.NewStreamProcessor(r, w, context.Background()),
	}
}

// VerifCreateTunnelRWC builds the tunnel side of a TCP relay exactly as handleTCPTargetTunnel does:
// a stream processor over the tunnel connection, getTunnelReaderWriter, createTunnelRWC.
func VerifCreateTunnelRWC(conn net.Conn) io.ReadWriteCloser {
	sp := stream.NewStreamProcessor(conn, conn, context.Background())
	r, w, ok := getTunnelReaderWriter(sp, conn, "verif", "c12")
	if !ok {
		return nil
	}
	rwc, ok := createTunnelRWC(r, w, sp, conn, "verif", "c12")
	if !ok {
		return nil
	}
	return rwc
}
