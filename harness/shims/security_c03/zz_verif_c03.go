//go:build verif

package security

// Export shim for the C03 harness (injected by -overlay; never committed to the repo).

// VerifRefillIP models the passage of time for the anonymous-connection limiter:
// the address gets a full bucket again (a dropped bucket is recreated full by allow()).
func (r *RateLimiter) VerifRefillIP(ip string) {
	r.ipMu.Lock()
	delete(r.ipBuckets, ip)
	r.ipMu.Unlock()
}

// VerifSetBroken makes every later Encrypt/Decrypt of THIS manager fail (a master key of the wrong length makes
// aes.NewCipher fail) or restores it: a fault in credential generation, injected into the instance that the
// anonymous-credential service uses, not into the one the auth handler verifies with.
func (m *SecretKeyManager) VerifSetBroken(broken bool, good []byte) {
	if broken {
		m.masterKey = []byte{1, 2, 3}
	} else {
		m.masterKey = append([]byte(nil), good...)
	}
}
