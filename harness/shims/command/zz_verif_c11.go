//go:build verif

package command

import "time"

// VerifSetRPCTimeout sets how long executeDuplex waits for a handler before it gives up (default 30 s), through the
// RPC manager's own setter; the harness uses it to let a gated handler outlive the wait without sleeping for 30 s.
func (ce *CommandExecutor) VerifSetRPCTimeout(d time.Duration) { ce.rpcManager.SetTimeout(d) }
