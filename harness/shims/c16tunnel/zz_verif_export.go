//go:build verif

package tunnel

// Export shims for the C16 harness (overlay-injected, never part of a normal build).

// VerifReportTrafficStats drives the unexported reportTrafficStats.
func (b *Bridge) VerifReportTrafficStats() { b.reportTrafficStats() }

// VerifLastReported returns the last reported (sent, received) totals.
func (b *Bridge) VerifLastReported() (int64, int64) {
	return b.lastReportedSent.Load(), b.lastReportedReceived.Load()
}
