//go:build verif

package session

// Export shims for the C07 harness (injected by -overlay; never committed to the repo).
// Everything else the harness drives is exported API of SessionManager.

// VerifCleanupStale runs one sweep exactly as the cleanup ticker does.
func (s *SessionManager) VerifCleanupStale() int { return s.cleanupStaleConnections() }

// VerifUnregister is what removeFromControlConnMap / the tunnel handlers call.
func (s *SessionManager) VerifUnregister(connID string) { s.clientRegistry.Unregister(connID) }

func (s *SessionManager) VerifListAuthenticated() []*ControlConnection {
	return s.clientRegistry.ListAuthenticated()
}

func (s *SessionManager) VerifControlCount() int { return s.clientRegistry.Count() }

func (s *SessionManager) VerifHasTunnelConn(connID string) bool {
	return s.tunnelRegistry.GetByConnID(connID) != nil
}

// VerifKickWithHook is KickOldControlConnection with a hook at the point where KickOldConnection
// has released the registry lock and is about to send the kick command and close the stream.
func (s *SessionManager) VerifKickWithHook(clientID int64, newConnID string, hook func()) {
	s.clientRegistry.KickOldConnection(clientID, newConnID, func(c *ControlConnection, reason, code string) {
		hook()
		s.sendKickCommand(c, reason, code)
	})
}

func (s *SessionManager) VerifControlListLen() int { return len(s.clientRegistry.List()) }
