//go:build verif

package session

import (
	"time"

	"tunnox-core/internal/core/types"
	"tunnox-core/internal/stream"
)

// Export shims for the C11 harness (injected by -overlay; never committed to the repo).

// VerifAddConnection puts a connection with the given (fake) stream into the
// session's connection map, exactly as CreateConnection leaves it, and — when
// control is true — registers a control connection for it, as the accept path
// does; clientID > 0 then binds the identity the way a successful handshake does
// (UpdateControlConnectionAuth).
func (s *SessionManager) VerifAddConnection(connID string, st stream.PackageStreamer, control bool, clientID int64) error {
	now := time.Now()
	s.connLock.Lock()
	s.connMap[connID] = &types.Connection{ID: connID, State: types.StateConnected, Stream: st, CreatedAt: now, UpdatedAt: now, Protocol: "tcp"}
	s.connLock.Unlock()
	if !control {
		return nil
	}
	cc := NewControlConnection(connID, st, nil, "tcp")
	s.RegisterControlConnection(cc)
	if clientID > 0 {
		return s.UpdateControlConnectionAuth(connID, clientID, "")
	}
	return nil
}

// VerifNotificationService builds the real NotificationService over the
// session's client registry (the router of SendNotifyToClientHandler).
func (s *SessionManager) VerifNotificationService() *NotificationService {
	return NewNotificationService(s.Ctx(), s.clientRegistry)
}

// VerifHasConn reports whether the connection is still in the connection map /
// registered as control connection.
func (s *SessionManager) VerifHasConn(connID string) (inMap bool, control bool) {
	s.connLock.RLock()
	_, inMap = s.connMap[connID]
	s.connLock.RUnlock()
	return inMap, s.clientRegistry.GetByConnID(connID) != nil
}

// VerifAddr is the address the cross-node listener accepts frames on (port 0 = picked by the kernel).
func (l *CrossNodeListener) VerifAddr() string {
	if l.listener == nil {
		return ""
	}
	return l.listener.Addr().String()
}
