//go:build verif

package session

import (
	"context"
	"net"

	"tunnox-core/internal/core/types"
	"tunnox-core/internal/packet"
)

// Export shims for the C09 harness (injected by -overlay; never committed to the repo).

// VerifStartSourceBridge calls the real startSourceBridge (bridge map insert, routing registration,
// target notification, lifecycle goroutine).
func (s *SessionManager) VerifStartSourceBridge(req *packet.TunnelOpenRequest, src net.Conn) error {
	return s.startSourceBridge(req, src, nil)
}

// VerifCloseBridge closes the bridge of a tunnel, which makes Bridge.Start return and
// runBridgeLifecycle run its cleanup.
func (s *SessionManager) VerifCloseBridge(tunnelID string) bool {
	s.bridgeLock.RLock()
	b := s.tunnelBridges[tunnelID]
	s.bridgeLock.RUnlock()
	if b == nil {
		return false
	}
	b.Close()
	return true
}

// VerifLookupTunnelRouting is the polling lookup of the target node.
func (s *SessionManager) VerifLookupTunnelRouting(ctx context.Context, tunnelID string) (*TunnelWaitingState, error) {
	return s.lookupTunnelRouting(ctx, tunnelID)
}

// VerifBridgeIDs lists the tunnel ids that currently have a bridge on this node.
func (s *SessionManager) VerifBridgeIDs() []string {
	s.bridgeLock.RLock()
	defer s.bridgeLock.RUnlock()
	ids := make([]string, 0, len(s.tunnelBridges))
	for id := range s.tunnelBridges {
		ids = append(ids, id)
	}
	return ids
}

// VerifHandleCrossNodeTarget: the cross-node branch of handleTunnelOpen (the caller has looked the
// tunnel up successfully): the real polling lookup, processCrossNodeForward, handleLocalBridgeWait /
// forwardToSourceNode.
func (s *SessionManager) VerifHandleCrossNodeTarget(req *packet.TunnelOpenRequest, conn *types.Connection) error {
	return s.handleCrossNodeTargetConnection(req, conn, s.extractNetConn(conn))
}
