//go:build verif

package session

// Export shims for the C04 harness (injected by -overlay; never committed to the repo).

// VerifBridgeEnds reports, for the bridge registered under tunnelID, the mapping it was
// created for and the connection ids it currently holds as source and as target.
func (s *SessionManager) VerifBridgeEnds(tunnelID string) (mappingID, sourceConnID, targetConnID string, ok bool) {
	s.bridgeLock.RLock()
	b, exists := s.tunnelBridges[tunnelID]
	s.bridgeLock.RUnlock()
	if !exists {
		return "", "", "", false
	}
	return b.GetMappingID(), b.GetSourceConnectionID(), b.GetTargetConnectionID(), true
}

// VerifBridgeReady reports whether the bridge registered under tunnelID has been told that its target side is
// there (a local target attached, or a cross-node TargetReady arrived for it).
func (s *SessionManager) VerifBridgeReady(tunnelID string) (ready, exists bool) {
	s.bridgeLock.RLock()
	b, ok := s.tunnelBridges[tunnelID]
	s.bridgeLock.RUnlock()
	if !ok {
		return false, false
	}
	return b.IsTargetReady(), true
}
