//go:build verif

package session

import "time"

// Export shim for the C08 harness (injected by -overlay; never committed to the repo).

// VerifSweepStale lets the control connection connID look silent for two days and runs the real
// heartbeat-timeout sweep (cleanupStaleConnections) once; it returns the sweep's own count.
func (s *SessionManager) VerifSweepStale(connID string) int {
	if conn := s.clientRegistry.GetByConnID(connID); conn != nil {
		conn.LastActiveAt = time.Now().Add(-48 * time.Hour)
	}
	return s.cleanupStaleConnections()
}
