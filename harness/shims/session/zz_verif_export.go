//go:build verif

package session

import (
	"net"

	"tunnox-core/internal/packet"
	"tunnox-core/internal/protocol/session/tunnel"
	"tunnox-core/internal/stream"
)

// Export shims for the verification harness (injected by -overlay; never committed to the repo).

// VerifStartBridge registers a bridge exactly as the tail of startSourceBridge does
// (map insert under bridgeLock, then `go runBridgeLifecycle`).
func (s *SessionManager) VerifStartBridge(tunnelID, mappingID string, src net.Conn, limit int64) *TunnelBridge {
	bridge := NewTunnelBridge(s.Ctx(), &TunnelBridgeConfig{
		TunnelID:       tunnelID,
		MappingID:      mappingID,
		SourceConn:     src,
		BandwidthLimit: limit,
	})
	s.bridgeLock.Lock()
	s.tunnelBridges[tunnelID] = bridge
	s.bridgeLock.Unlock()
	go s.runBridgeLifecycle(tunnelID, bridge)
	return bridge
}

func (s *SessionManager) VerifHasBridge(tunnelID string) bool {
	s.bridgeLock.RLock()
	defer s.bridgeLock.RUnlock()
	_, ok := s.tunnelBridges[tunnelID]
	return ok
}

func (s *SessionManager) VerifBridgeCount() int {
	s.bridgeLock.RLock()
	defer s.bridgeLock.RUnlock()
	return len(s.tunnelBridges)
}

// VerifStartBridgeCC is VerifStartBridge with a cloud control (traffic statistics backend), as
// startSourceBridge passes s.cloudControl.
func (s *SessionManager) VerifStartBridgeCC(tunnelID, mappingID string, src net.Conn, limit int64, cc tunnel.CloudControlAPI) *TunnelBridge {
	bridge := NewTunnelBridge(s.Ctx(), &TunnelBridgeConfig{
		TunnelID:       tunnelID,
		MappingID:      mappingID,
		SourceConn:     src,
		BandwidthLimit: limit,
		CloudControl:   cc,
	})
	s.bridgeLock.Lock()
	s.tunnelBridges[tunnelID] = bridge
	s.bridgeLock.Unlock()
	go s.runBridgeLifecycle(tunnelID, bridge)
	return bridge
}

// VerifStartSourceBridgeStream runs the real startSourceBridge (what handleTunnelOpen calls for the source end).
func (s *SessionManager) VerifStartSourceBridgeStream(tunnelID, mappingID string, src net.Conn, srcStream stream.PackageStreamer) error {
	return s.startSourceBridge(&packet.TunnelOpenRequest{TunnelID: tunnelID, MappingID: mappingID}, src, srcStream)
}

func (s *SessionManager) VerifGetBridge(tunnelID string) *TunnelBridge {
	s.bridgeLock.RLock()
	defer s.bridgeLock.RUnlock()
	return s.tunnelBridges[tunnelID]
}
