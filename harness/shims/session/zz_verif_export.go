//go:build verif

package session

import (
	"context"
	"net"
	"time"

	"tunnox-core/internal/core/types"
	"tunnox-core/internal/packet"
	"tunnox-core/internal/protocol/session/tunnel"
	"tunnox-core/internal/stream"
)

// Export shims for the verification harness (injected by -overlay; never committed to the repo).

// VerifStartBridge registers a bridge exactly as the tail of startSourceBridge does
// (map insert under bridgeLock, then `go runBridgeLifecycle`).
func (s *SessionManager) VerifStartBridge(tunnelID, mappingID string, src net.Conn, limit int64) *TunnelBridge {
	bridge := NewTunnelBridge(s.Ctx(), &TunnelBridgeConfig{
		TunnelID:       tunnelID,
		MappingID:      mappingID,
		SourceConn:     src,
		BandwidthLimit: limit,
	})
	s.bridgeLock.Lock()
	s.tunnelBridges[tunnelID] = bridge
	s.bridgeLock.Unlock()
	go s.runBridgeLifecycle(tunnelID, bridge)
	return bridge
}

func (s *SessionManager) VerifHasBridge(tunnelID string) bool {
	s.bridgeLock.RLock()
	defer s.bridgeLock.RUnlock()
	_, ok := s.tunnelBridges[tunnelID]
	return ok
}

func (s *SessionManager) VerifBridgeCount() int {
	s.bridgeLock.RLock()
	defer s.bridgeLock.RUnlock()
	return len(s.tunnelBridges)
}

// VerifStartBridgeCC is VerifStartBridge with a cloud control (traffic statistics backend), as
// startSourceBridge passes s.cloudControl.
func (s *SessionManager) VerifStartBridgeCC(tunnelID, mappingID string, src net.Conn, limit int64, cc tunnel.CloudControlAPI) *TunnelBridge {
	bridge := NewTunnelBridge(s.Ctx(), &TunnelBridgeConfig{
		TunnelID:       tunnelID,
		MappingID:      mappingID,
		SourceConn:     src,
		BandwidthLimit: limit,
		CloudControl:   cc,
	})
	s.bridgeLock.Lock()
	s.tunnelBridges[tunnelID] = bridge
	s.bridgeLock.Unlock()
	go s.runBridgeLifecycle(tunnelID, bridge)
	return bridge
}

// VerifStartSourceBridgeStream runs the real startSourceBridge (what handleTunnelOpen calls for the source end).
func (s *SessionManager) VerifStartSourceBridgeStream(tunnelID, mappingID string, src net.Conn, srcStream stream.PackageStreamer) error {
	return s.startSourceBridge(&packet.TunnelOpenRequest{TunnelID: tunnelID, MappingID: mappingID}, src, srcStream)
}

func (s *SessionManager) VerifGetBridge(tunnelID string) *TunnelBridge {
	s.bridgeLock.RLock()
	defer s.bridgeLock.RUnlock()
	return s.tunnelBridges[tunnelID]
}

// ---- C02 xnode: the target-node side of a cross-node tunnel (forwardToSourceNode + the dedicated data forward)

// VerifNewXnodeTarget: a SessionManager that has exactly what forwardToSourceNode and
// runCrossNodeDataForwardDedicated use: its node id and either the dedicated-connection manager or the pool.
func VerifNewXnodeTarget(nodeID string, mgr *TunnelConnectionManager, pool *CrossNodePool) *SessionManager {
	return &SessionManager{nodeID: nodeID, tunnelConnMgr: mgr, crossNodePool: pool,
		tunnelBridges: map[string]*TunnelBridge{}, closedTunnels: map[string]time.Time{}}
}

// VerifForwardToSourceNode runs the real forwardToSourceNode for a target connection whose TunnelOpen has
// already been acknowledged (ackSent), under the caller's attach context.
func (s *SessionManager) VerifForwardToSourceNode(ctx context.Context, tunnelID, sourceNode string, conn *types.Connection, netConn net.Conn) error {
	return s.forwardToSourceNode(ctx, &packet.TunnelOpenRequest{TunnelID: tunnelID}, conn, netConn,
		&TunnelWaitingState{TunnelID: tunnelID, SourceNodeID: sourceNode}, true)
}

// VerifNewListenerRigStream: as VerifNewListenerRig (C10's shim), but the source end is attached the way the
// production path attaches it: with the connection's StreamProcessor, so that the forwarder is the iocopy
// reader/writer adapter over the stream's reader and writer (half-close only if the transport offers it).
func VerifNewListenerRigStream(ctx context.Context, tunnelID string, source net.Conn) *VerifListenerRig {
	sm := &SessionManager{tunnelBridges: map[string]*TunnelBridge{}, closedTunnels: map[string]time.Time{}}
	sp := stream.NewStreamProcessor(source, source, ctx)
	b := NewTunnelBridge(ctx, &TunnelBridgeConfig{TunnelID: tunnelID, SourceConn: source, SourceStream: sp})
	sm.tunnelBridges[tunnelID] = b
	return &VerifListenerRig{L: NewCrossNodeListener(sm, 0), Bridge: b}
}
