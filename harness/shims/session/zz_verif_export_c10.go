//go:build verif

package session

import (
	"context"
	"net"
	"time"
)

// Export shim for the C10 harness (injected by -overlay; never committed to the repo).

// VerifRunBidirectionalForward runs the unexported half-close aware forwarder.
func VerifRunBidirectionalForward(c *BidirectionalForwardConfig) { runBidirectionalForward(c) }

// VerifListenerRig: a CrossNodeListener over a SessionManager that knows exactly one bridge, whose source
// side is the given connection (the listener's TargetReady path needs nothing else of the manager).
type VerifListenerRig struct {
	L      *CrossNodeListener
	Bridge *TunnelBridge
}

func VerifNewListenerRig(ctx context.Context, tunnelID string, source net.Conn) *VerifListenerRig {
	sm := &SessionManager{tunnelBridges: map[string]*TunnelBridge{}, closedTunnels: map[string]time.Time{}}
	b := NewTunnelBridge(ctx, &TunnelBridgeConfig{TunnelID: tunnelID, SourceConn: source})
	sm.tunnelBridges[tunnelID] = b
	return &VerifListenerRig{L: NewCrossNodeListener(sm, 0), Bridge: b}
}

// HandleConnection runs the unexported per-connection handler of the listener (what acceptLoop starts).
func (r *VerifListenerRig) HandleConnection(ctx context.Context, c net.Conn) {
	r.L.handleConnection(ctx, c)
}
