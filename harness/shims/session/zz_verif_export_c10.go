//go:build verif

package session

// Export shim for the C10 harness (injected by -overlay; never committed to the repo).

// VerifRunBidirectionalForward runs the unexported half-close aware forwarder.
func VerifRunBidirectionalForward(c *BidirectionalForwardConfig) { runBidirectionalForward(c) }
