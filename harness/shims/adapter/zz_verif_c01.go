//go:build verif

package adapter

import (
	"net"

	"github.com/gorilla/websocket"
)

// Export shims for the C01 harness (WebSocket message -> stream adaptation).

func VerifNewWSServerConn(conn *websocket.Conn) net.Conn { return newWSServerConn(conn, "verif") }
func VerifNewWSClientConn(conn *websocket.Conn) net.Conn { return newWSClientConn(conn) }
