//go:build verif

package adapter

import (
	"context"
	"io"
	"net"

	"tunnox-core/internal/core/types"

	"github.com/gorilla/websocket"
)

// Export shims for the C01 harness (WebSocket message -> stream adaptation).

func VerifNewWSServerConn(conn *websocket.Conn) net.Conn { return newWSServerConn(conn, "verif") }
func VerifNewWSClientConn(conn *websocket.Conn) net.Conn { return newWSClientConn(conn) }

// VerifHandleConnection runs the generic per-connection logic (accept, read loop, cleanup) of a TCP
// adapter on the given connection, as TcpAdapter's accept loop does.
func VerifHandleConnection(ctx context.Context, sess types.Session, conn io.ReadWriteCloser) {
	a := NewTcpAdapter(ctx, sess)
	a.BaseAdapter.handleConnection(a, conn)
}

// VerifQuicAddr / VerifKcpAddr: the address a listening adapter was bound to (port 0 = picked by the kernel).
func VerifQuicAddr(a *QuicAdapter) string { return a.listener.Addr().String() }
func VerifKcpAddr(k *KcpAdapter) string   { return k.listener.Addr().String() }

// VerifQuicFinish ends the sending direction of a QUIC stream connection (FIN) without closing the QUIC
// connection: the first half of QuicStreamConn.Close. The peer then sees the stream's last bytes together with,
// or followed by, io.EOF — the (n > 0, io.EOF) result a QUIC stream read is allowed to return.
func VerifQuicFinish(c io.ReadWriteCloser) error {
	q, ok := c.(*QuicStreamConn)
	if !ok || q.stream == nil {
		return io.ErrClosedPipe
	}
	return (*q.stream).Close()
}
