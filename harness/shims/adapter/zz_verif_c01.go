//go:build verif

package adapter

import (
	"context"
	"io"
	"net"

	"tunnox-core/internal/core/types"

	"github.com/gorilla/websocket"
)

// Export shims for the C01 harness (WebSocket message -> stream adaptation).

func VerifNewWSServerConn(conn *websocket.Conn) net.Conn { return newWSServerConn(conn, "verif") }
func VerifNewWSClientConn(conn *websocket.Conn) net.Conn { return newWSClientConn(conn) }

// VerifHandleConnection runs the generic per-connection logic (accept, read loop, cleanup) of a TCP
// adapter on the given connection, as TcpAdapter's accept loop does.
func VerifHandleConnection(ctx context.Context, sess types.Session, conn io.ReadWriteCloser) {
	a := NewTcpAdapter(ctx, sess)
	a.BaseAdapter.handleConnection(a, conn)
}
