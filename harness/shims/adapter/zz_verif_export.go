//go:build verif

package adapter

import "net"

// Export shims for the verification harness (injected by -overlay; never committed to the repo).

// VerifNegotiate runs the two parsing steps of handleSocksConnection in its order:
// handleHandshake, then handleRequest. phase tells which of them returned the error.
func (s *SocksAdapter) VerifNegotiate(conn net.Conn) (target string, phase string, err error) {
	if err := s.handleHandshake(conn); err != nil {
		return "", "handshake", err
	}
	target, err = s.handleRequest(conn)
	if err != nil {
		return "", "request", err
	}
	return target, "", nil
}

// VerifHandleSocksConnection runs the real per-connection function (what Accept starts in a goroutine).
func (s *SocksAdapter) VerifHandleSocksConnection(conn net.Conn) { s.handleSocksConnection(conn) }
