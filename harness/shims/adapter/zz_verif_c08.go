//go:build verif

package adapter

import (
	"io"

	"tunnox-core/internal/core/types"
	"tunnox-core/internal/protocol/session"
)

// Export shim for the C08 harness (injected by -overlay; never committed to the repo).

type verifNopConn struct{}

func (verifNopConn) Read(p []byte) (int, error)  { return 0, io.EOF }
func (verifNopConn) Write(p []byte) (int, error) { return len(p), nil }
func (verifNopConn) Close() error                { return nil }

// VerifCleanupConnection runs the deferred tail of BaseAdapter.handleConnection (what happens when the
// read loop of connection connID ends: peer EOF, read error, failed initialisation).
func VerifCleanupConnection(sess session.Session, connID string) {
	b := &BaseAdapter{}
	b.SetSession(sess)
	b.cleanupConnection(&connectionState{streamConn: &types.StreamConnection{ID: connID}, shouldCloseConn: true}, verifNopConn{})
}
