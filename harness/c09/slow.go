//go:build verif

package main

import (
	"context"
	"strconv"
	"strings"
	"sync"
	"time"

	goredis "github.com/redis/go-redis/v9"

	"tunnox-core/internal/core/storage"
	"tunnox-core/internal/protocol/session/tunnel"
)

// Slow storage replies.  slook starts a lookup whose storage Get is served by the store and whose
// reply is then held back (a latency spike between the node and the store); send lets the reply
// through.  Everything between the two events runs while that lookup is in flight.
//
// Redis-backed configurations: a go-redis hook on the node's client holds the reply of the first
// GET of the key after the command has been executed by the server — inside redis.Storage.Get,
// where request coalescing / caching of the client would live.  Other configurations: the slow
// lookup runs through its own routing table over a wrapper that holds the answer of the node's
// storage object.

type slowCtl struct {
	reached chan struct{} // closed when the store has answered
	release chan struct{} // closed to let the answer through
}

func newSlowCtl() *slowCtl { return &slowCtl{reached: make(chan struct{}), release: make(chan struct{})} }

type replyHook struct {
	mu  sync.Mutex
	key string
	ctl *slowCtl
}

func (h *replyHook) arm(key string, ctl *slowCtl) {
	h.mu.Lock()
	h.key, h.ctl = key, ctl
	h.mu.Unlock()
}

func (h *replyHook) disarm() {
	h.mu.Lock()
	h.key, h.ctl = "", nil
	h.mu.Unlock()
}

func (h *replyHook) DialHook(next goredis.DialHook) goredis.DialHook { return next }
func (h *replyHook) ProcessPipelineHook(next goredis.ProcessPipelineHook) goredis.ProcessPipelineHook {
	return next
}
func (h *replyHook) ProcessHook(next goredis.ProcessHook) goredis.ProcessHook {
	return func(ctx context.Context, cmd goredis.Cmder) error {
		err := next(ctx, cmd)
		args := cmd.Args()
		if len(args) > 1 && strings.EqualFold(cmd.Name(), "get") {
			h.mu.Lock()
			var ctl *slowCtl
			if k, ok := args[1].(string); ok && h.ctl != nil && k == h.key {
				ctl, h.ctl, h.key = h.ctl, nil, ""
			}
			h.mu.Unlock()
			if ctl != nil {
				close(ctl.reached)
				<-ctl.release
			}
		}
		return err
	}
}

// slowStore holds the answer of one Get of the wrapped storage object.
type slowStore struct {
	storage.Storage
	ctl  *slowCtl
	once sync.Once
}

func (s *slowStore) Get(key string) (any, error) {
	v, err := s.Storage.Get(key)
	s.once.Do(func() {
		close(s.ctl.reached)
		<-s.ctl.release
	})
	return v, err
}

type slowLookup struct {
	ctl *slowCtl
	res chan pollResult
}

func (e *env) slowBegin(n int, tid string) string {
	if tid == "" {
		_, err := e.tables[n].LookupWaitingTunnel(e.ctx, tid)
		if err == nil {
			return "err:empty_id_resolved"
		}
		return errTok(err)
	}
	key := strconv.Itoa(n) + "/" + tid
	if e.slow == nil {
		e.slow = map[string]*slowLookup{}
	}
	if old := e.slow[key]; old != nil { // one in flight per node and id: let the older one finish first
		select {
		case <-old.ctl.release:
		default:
			close(old.ctl.release)
		}
		<-old.res
		delete(e.slow, key)
	}
	ctl := newSlowCtl()
	table := e.tables[n]
	if e.pool != nil {
		e.pool.hooks[n].arm("tunnox:tunnel_waiting:"+tid, ctl)
	} else {
		table = tunnel.NewRoutingTable(&slowStore{Storage: e.stores[n], ctl: ctl}, time.Duration(e.ttls[n])*time.Millisecond)
	}
	sl := &slowLookup{ctl: ctl, res: make(chan pollResult, 1)}
	go func() {
		st, err := table.LookupWaitingTunnel(e.ctx, tid)
		sl.res <- pollResult{st, err}
	}()
	select {
	case <-ctl.reached:
	case <-time.After(3 * time.Second):
		e.unstable = true
	}
	e.slow[key] = sl
	return "pending"
}

func (e *env) slowEnd(n int, tid string) string {
	key := strconv.Itoa(n) + "/" + tid
	sl := e.slow[key]
	if sl == nil {
		return "skip"
	}
	delete(e.slow, key)
	select {
	case <-sl.ctl.release: // already let through by a lookup that was found waiting for it
	default:
		close(sl.ctl.release)
	}
	select {
	case r := <-sl.res:
		if r.err != nil {
			return errTok(r.err)
		}
		return foundTok(r.st)
	case <-time.After(3 * time.Second):
		return "err:slow_lookup_never_returned"
	}
}

// dropSlow: the lookups in flight on node n die with the process (n < 0: all, at the end of the case).
func (e *env) dropSlow(n int) {
	for k, sl := range e.slow {
		if n < 0 || strings.HasPrefix(k, strconv.Itoa(n)+"/") {
			select {
			case <-sl.ctl.release:
			default:
				close(sl.ctl.release)
			}
			select {
			case <-sl.res:
			case <-time.After(2 * time.Second):
			}
			delete(e.slow, k)
		}
	}
	if e.pool != nil {
		for i, h := range e.pool.hooks {
			if n < 0 || i == n {
				h.disarm()
			}
		}
	}
}

// guardedLookup: an ordinary lookup while another one of the same node is in flight must not wait
// for it; if it does (it joined the older request), that is reported instead of hanging the case.
func (e *env) guardedLookup(n int, tid string) (*tunnel.WaitingState, error, bool) {
	if len(e.slow) == 0 {
		st, err := e.tables[n].LookupWaitingTunnel(e.ctx, tid)
		return st, err, true
	}
	ch := make(chan pollResult, 1)
	go func() {
		st, err := e.tables[n].LookupWaitingTunnel(e.ctx, tid)
		ch <- pollResult{st, err}
	}()
	select {
	case r := <-ch:
		return r.st, r.err, true
	case <-time.After(1500 * time.Millisecond):
	}
	// It waits for the lookup that is in flight (it did not ask the store itself).  Let the held replies of
	// this node through and report what this lookup — which started after everything before it completed —
	// finally answers.
	for k, sl := range e.slow {
		if strings.HasPrefix(k, strconv.Itoa(n)+"/") {
			select {
			case <-sl.ctl.release:
			default:
				close(sl.ctl.release)
			}
		}
	}
	select {
	case r := <-ch:
		return r.st, r.err, true
	case <-time.After(3 * time.Second):
		return nil, nil, false
	}
}
