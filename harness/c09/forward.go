//go:build verif

package main

import (
	"context"
	"fmt"
	"net"
	"strings"
	"sync"
	"time"

	"tunnox-core/internal/protocol/session"
)

// Cross-node endpoints.  The case strings name node addresses symbolically: "@0".."@3" are four TCP
// listeners of this process (shared by all cases; every one accepts, like the cross-node port of a
// live node), any other string is registered verbatim.  rega substitutes the real listener address,
// geta / fwd translate it back, so the model only ever sees the symbolic names.
var (
	epOnce  sync.Once
	epAddrs []string // index k -> "127.0.0.1:port"
)

func endpoints() []string {
	epOnce.Do(func() {
		for k := 0; k < 4; k++ {
			ln, err := net.Listen("tcp", "127.0.0.1:0")
			if err != nil {
				panic(err)
			}
			epAddrs = append(epAddrs, ln.Addr().String())
			go func() {
				for {
					c, err := ln.Accept()
					if err != nil {
						time.Sleep(time.Millisecond) // transient (aborted handshake …): keep accepting
						continue
					}
					// the endpoint closes first: the TIME_WAIT socket stays on the listener's side and no
					// ephemeral port of the dialling side is held
					c.Close()
				}
			}()
		}
	})
	return epAddrs
}

func realAddr(sym string) string {
	if len(sym) == 2 && sym[0] == '@' && sym[1] >= '0' && sym[1] <= '3' {
		return endpoints()[sym[1]-'0']
	}
	return sym
}

func symAddr(real string) string {
	for k, a := range endpoints() {
		if a == real {
			return fmt.Sprintf("@%d", k)
		}
	}
	return real
}

// mgr: the TunnelConnectionManager of node n, wired as in components_session.go
// (getNodeAddr = the node's RoutingTable.GetNodeAddress).  One manager per node for the whole case.
func (e *env) mgr(n int) *session.TunnelConnectionManager {
	for len(e.mgrs) <= n {
		e.mgrs = append(e.mgrs, nil)
	}
	if e.mgrs[n] == nil {
		e.mgrs[n] = session.NewTunnelConnectionManager(e.tables[n].GetNodeAddress,
			session.TunnelConnectionManagerConfig{DialTimeout: 2 * time.Second, IdleTimeout: 5 * time.Minute})
	}
	return e.mgrs[n]
}

// forward: a target connection for tid arrives on node n — resolve the tunnel, open the dedicated
// connection to its source node, report where it was actually connected to, end the tunnel.
func (e *env) forward(n int, tid string) string {
	st, err := e.tables[n].LookupWaitingTunnel(e.ctx, tid)
	if err != nil {
		return errTok(err)
	}
	ctx, cancel := context.WithTimeout(e.ctx, 3*time.Second)
	defer cancel()
	m := e.mgr(n)
	conn, err := m.CreateDedicatedConnection(ctx, tid, st.SourceNodeID, "verif-client", "")
	if err != nil {
		if strings.Contains(err.Error(), "failed to get node address") {
			return "enoaddr"
		}
		return "edial:" + strings.ReplaceAll(strings.ReplaceAll(err.Error(), " ", "_"), ":", ".")
	}
	to := conn.RemoteAddr().String()
	// wait for the endpoint's close before closing our side
	conn.SetReadDeadline(time.Now().Add(300 * time.Millisecond))
	var b [1]byte
	conn.Read(b[:])
	m.CloseTunnel(tid)
	return "fwd:" + hx(st.SourceNodeID) + ":" + hx(symAddr(to))
}
