//go:build verif

package main

import (
	"errors"
	"fmt"
	"io"
	"net"
	"strconv"
	"strings"
	"sync"
	"time"

	coreerrors "tunnox-core/internal/core/errors"
	"tunnox-core/internal/packet"
	"tunnox-core/internal/protocol/session"
	"tunnox-core/internal/protocol/session/crossnode"
)

// Cross-node endpoints.  The case strings name node addresses symbolically: "@0".."@3" are four TCP
// listeners of this process (shared by all cases; every one accepts, like the cross-node port of a
// live node), any other string is registered verbatim.  rega substitutes the real listener address,
// geta / fwd translate it back, so the model only ever sees the symbolic names.
//
// An endpoint reads the first frame of every accepted connection (the TargetReady message of the
// forwarding node), files it under the dialling side's address and keeps the connection open until
// the case has read the record — so the forwarding node's per-tunnel connection is still there to
// be identified.
type arrival struct {
	ep       int
	tunnelID string
	fromNode string
	frameErr string
	conn     net.Conn
}

var (
	epOnce   sync.Once
	epAddrs  []string // index k -> "127.0.0.1:port"
	arrMu    sync.Mutex
	arrivals = map[string]*arrival{} // dialler's local address -> what the endpoint received
)

func endpoints() []string {
	epOnce.Do(func() {
		for k := 0; k < 4; k++ {
			var ln net.Listener
			var err error
			for try := 0; try < 50; try++ { // a busy machine may be short of ports for a moment
				if ln, err = net.Listen("tcp", "127.0.0.1:0"); err == nil {
					break
				}
				time.Sleep(200 * time.Millisecond)
			}
			if err != nil {
				panic(err)
			}
			epAddrs = append(epAddrs, ln.Addr().String())
			k := k
			go func() {
				for {
					c, err := ln.Accept()
					if err != nil {
						time.Sleep(time.Millisecond) // transient (aborted handshake …): keep accepting
						continue
					}
					go func() {
						a := &arrival{ep: k, conn: c}
						c.SetReadDeadline(time.Now().Add(2 * time.Second))
						_, ty, data, err := crossnode.ReadFrameFromReader(c)
						switch {
						case err != nil:
							a.frameErr = "noframe"
						case ty != crossnode.FrameTypeTargetReady:
							a.frameErr = "frametype" + strconv.Itoa(int(ty))
						default:
							t, nid, derr := crossnode.DecodeTargetReadyMessage(data)
							if derr != nil {
								a.frameErr = "baddata"
							}
							a.tunnelID, a.fromNode = t, nid
						}
						arrMu.Lock()
						arrivals[c.RemoteAddr().String()] = a
						arrMu.Unlock()
						// released (closed) by the case; a case that never asks leaves it to this timer
						time.AfterFunc(5*time.Second, func() {
							arrMu.Lock()
							mine := arrivals[c.RemoteAddr().String()] == a // the port may have been reused by a later connection
							arrMu.Unlock()
							if mine {
								dropArrival(c.RemoteAddr().String())
							} else {
								c.Close()
							}
						})
					}()
				}
			}()
		}
	})
	return epAddrs
}

func dropArrival(key string) {
	arrMu.Lock()
	a := arrivals[key]
	delete(arrivals, key)
	arrMu.Unlock()
	if a != nil {
		a.conn.Close() // the endpoint closes first: no ephemeral port of the dialling side stays in TIME_WAIT
	}
}

func takeArrival(key string, wait time.Duration) *arrival {
	deadline := time.Now().Add(wait)
	for {
		arrMu.Lock()
		a := arrivals[key]
		arrMu.Unlock()
		if a != nil || time.Now().After(deadline) {
			return a
		}
		time.Sleep(200 * time.Microsecond)
	}
}

func realAddr(sym string) string {
	if len(sym) == 2 && sym[0] == '@' && sym[1] >= '0' && sym[1] <= '3' {
		return endpoints()[sym[1]-'0']
	}
	return sym
}

func symAddr(real string) string {
	for k, a := range endpoints() {
		if a == real {
			return fmt.Sprintf("@%d", k)
		}
	}
	return real
}

// mgr: the TunnelConnectionManager of node n, wired as in components_session.go
// (getNodeAddr = the node's RoutingTable.GetNodeAddress) and installed in the node's SessionManager.
func (e *env) mgr(n int) *session.TunnelConnectionManager {
	for len(e.mgrs) <= n {
		e.mgrs = append(e.mgrs, nil)
	}
	if e.mgrs[n] == nil {
		e.mgrs[n] = session.NewTunnelConnectionManager(e.tables[n].GetNodeAddress,
			session.TunnelConnectionManagerConfig{DialTimeout: 2 * time.Second, IdleTimeout: 5 * time.Minute})
		e.sm(n).SetTunnelConnectionManager(e.mgrs[n])
	}
	return e.mgrs[n]
}

// sinkConn: the target client's connection — swallows what the server writes to it (the
// TunnelOpenAck), delivers nothing, reports EOF once closed.
type sinkConn struct {
	once     sync.Once
	done     chan struct{}
	readOnce sync.Once
	reading  chan struct{} // closed at the first Read: somebody has started to forward from this connection
}

func newSink() *sinkConn { return &sinkConn{done: make(chan struct{}), reading: make(chan struct{})} }
func (s *sinkConn) Read(p []byte) (int, error) {
	s.readOnce.Do(func() { close(s.reading) })
	<-s.done
	return 0, io.EOF
}
func (s *sinkConn) Write(p []byte) (int, error)    { return len(p), nil }
func (s *sinkConn) Close() error                   { s.once.Do(func() { close(s.done) }); return nil }
func (s *sinkConn) LocalAddr() net.Addr            { return sinkAddr("sink-local") }
func (s *sinkConn) RemoteAddr() net.Addr           { return sinkAddr("203.0.113.7:4242") }
func (s *sinkConn) SetDeadline(time.Time) error      { return nil }
func (s *sinkConn) SetReadDeadline(time.Time) error  { return nil }
func (s *sinkConn) SetWriteDeadline(time.Time) error { return nil }

type sinkAddr string

func (a sinkAddr) Network() string { return "verif" }
func (a sinkAddr) String() string  { return string(a) }

// forward: a target connection for tid arrives on node n.  As handleTunnelOpen does, the routing
// table is asked first; on success the REAL cross-node handler of the node's SessionManager runs
// (polling lookup → processCrossNodeForward → handleLocalBridgeWait | forwardToSourceNode →
// CreateDedicatedConnection → TargetReady frame).  Reported: which endpoint received the frame.
func (e *env) forward(n int, tid string) string {
	st, err, returned := e.guardedLookup(n, tid)
	if !returned {
		return "err:lookup_waits_for_the_one_in_flight"
	}
	if err != nil {
		return errTok(err)
	}
	sm := e.sm(n)
	m := e.mgr(n)
	local := st.SourceNodeID == "node-"+strconv.Itoa(n)
	if local && !sm.VerifHasBridge(tid) {
		return "localwait" // the real handler would wait 5 s for the bridge to appear: not run
	}
	akey := strconv.Itoa(n) + "/" + tid
	if local {
		// one target per bridge: a second target for a bridge that is already served is the business of
		// handleExistingBridge (C04), not of the cross-node handler — the real attach runs once per bridge
		if e.attached[akey] {
			return "local"
		}
		if e.attached == nil {
			e.attached = map[string]bool{}
		}
		e.attached[akey] = true
	}
	sink := newSink()
	e.conns = append(e.conns, sink)
	conn, err := sm.CreateConnection(sink, sink)
	if err != nil {
		return "err:createconn"
	}
	herr := sm.VerifHandleCrossNodeTarget(&packet.TunnelOpenRequest{TunnelID: tid, MappingID: st.MappingID, SecretKey: st.SecretKey}, conn)
	if local {
		if herr != nil {
			return "err:local_" + strings.ReplaceAll(herr.Error(), " ", "_")
		}
		// Bridge.Start builds its forwarders without a lock; closing the bridge at that very moment (the next
		// event may be `end`) is a shutdown race that belongs to C16, not to this property: wait until the
		// bridge has begun to read from the target
		select {
		case <-sink.reading:
		case <-time.After(time.Second):
		}
		return "local"
	}
	if coreerrors.GetCode(herr) != coreerrors.CodeTunnelModeSwitch {
		if herr != nil && strings.Contains(herr.Error(), "failed to get node address") {
			return "enoaddr"
		}
		return "edial:" + strings.ReplaceAll(strings.ReplaceAll(fmt.Sprint(herr), " ", "_"), ":", ".")
	}
	tc := m.GetConnection(tid)
	if tc == nil || tc.CrossConn == nil {
		return "err:no_dedicated_connection"
	}
	key := tc.CrossConn.LocalAddr().String()
	to := symAddr(tc.CrossConn.RemoteAddr().String())
	a := takeArrival(key, 2*time.Second)
	if a == nil {
		return "err:nothing_arrived_at_" + to
	}
	res := "fwd:" + hx(st.SourceNodeID) + ":" + hx(fmt.Sprintf("@%d", a.ep))
	if a.frameErr != "" || a.tunnelID != tid || a.fromNode != "node-"+strconv.Itoa(n) {
		res = "err:bad_ready_frame_" + a.frameErr + "_" + hx(a.tunnelID) + "_" + hx(a.fromNode)
	}
	// the tunnel ends: the endpoint closes, the forwarding goroutine winds down and drops the per-tunnel connection
	dropArrival(key)
	sink.Close()
	deadline := time.Now().Add(2 * time.Second)
	for m.GetConnection(tid) != nil && time.Now().Before(deadline) {
		time.Sleep(200 * time.Microsecond)
	}
	if m.GetConnection(tid) != nil {
		m.CloseTunnel(tid)
	}
	return res
}

var _ = errors.New
