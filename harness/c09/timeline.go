//go:build verif

package main

import (
	"strconv"
	"strings"
	"time"
)

// Real time enters a case in exactly one way: a registration (reg/open through a table with ttl T)
// stamps "now + T" with the real clock, and a later lookup of the same id compares the real clock
// with that deadline (explicit check; also the expiry of the in-memory store).  The model orders
// every such (write, read) pair relative to T using its own clock (the sum of the adv/advw steps).
// A case is judged only if the measured timeline agrees with the model's on every pair with a
// safety margin on both sides; otherwise it is retried and finally dropped (never reported).

type span struct{ before, after time.Duration } // real time since case start, around the call

type tpair struct {
	w, r int // event indices
	ttl  int // ms
}

func ttlOf(ttls []int, n int) int {
	if n < 0 || n >= len(ttls) || ttls[n] == 0 {
		return 30000
	}
	return ttls[n]
}

// timePairs lists every (registration, later lookup of the same id) pair.
func timePairs(ttls []int, evs []string) []tpair {
	var ps []tpair
	for i, w := range evs {
		fw := strings.Split(w, ":")
		if (fw[0] != "reg" && fw[0] != "open") || len(fw) < 3 {
			continue
		}
		n, err := strconv.Atoi(fw[1])
		if err != nil {
			continue
		}
		for j := i + 1; j < len(evs); j++ {
			fr := strings.Split(evs[j], ":")
			if (fr[0] == "look" || fr[0] == "fwd" || fr[0] == "pend" || fr[0] == "poll" || fr[0] == "slook" || fr[0] == "send") && len(fr) >= 3 && fr[2] == fw[2] {
				ps = append(ps, tpair{w: i, r: j, ttl: ttlOf(ttls, n)})
			}
		}
	}
	return ps
}

// modelTimes: the model's wall clock (ms since case start) at each event.
func modelTimes(evs []string) []int {
	ts := make([]int, len(evs))
	t := 0
	for i, e := range evs {
		ts[i] = t
		f := strings.Split(e, ":")
		if (f[0] == "adv" || f[0] == "advw") && len(f) == 2 {
			d, _ := strconv.Atoi(f[1])
			t += d
		}
	}
	return ts
}

// modelSafe: by construction every pair is probed at ≤ 0.5·ttl or at ≥ 1.6·ttl.
func modelSafe(ttls []int, evs []string) bool {
	ts := modelTimes(evs)
	for _, p := range timePairs(ttls, evs) {
		dm := ts[p.r] - ts[p.w]
		if !(2*dm <= p.ttl || 10*dm >= 16*p.ttl) {
			return false
		}
	}
	return true
}

func marginOf(ttl int) time.Duration {
	m := time.Duration(ttl) * time.Millisecond / 5
	if m < 25*time.Millisecond {
		m = 25 * time.Millisecond
	}
	return m
}

// realConsistent: on every pair the measured interval lies on the model's side of the deadline by
// at least the margin, whatever instant inside the two call windows the code read the clock at.
func realConsistent(ttls []int, evs []string, sp []span) bool {
	ts := modelTimes(evs)
	for _, p := range timePairs(ttls, evs) {
		T := time.Duration(p.ttl) * time.Millisecond
		m := marginOf(p.ttl)
		if ts[p.r]-ts[p.w] <= p.ttl {
			if sp[p.r].after-sp[p.w].before > T-m { // model: still waiting
				return false
			}
		} else if sp[p.r].before-sp[p.w].after < T+m { // model: lapsed
			return false
		}
	}
	return true
}
