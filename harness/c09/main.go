//go:build verif

// Harness for C09: the real tunnel.RoutingTable (register / lookup / remove, node addresses) and the
// real SessionManager.startSourceBridge / runBridgeLifecycle over the real storage backends:
// memory, Redis (miniredis), the tiered store with and without a shared Redis cache, plus two
// doubles around memory.Storage that hand back the remaining value shapes of the lookup's type switch
// (map[string]interface{} and []byte).
//
// case:  [X] <backend> <ttl0,ttl1,…(ms; 0 = default)> <event>…     one routing table (and node) per ttl
//
//	reg:<n>:<tid>:<map>:<sec>:<src>:<sc>:<tc>:<host>:<port>   RegisterWaitingTunnel through node n
//	open:<n>:<tid>:<map>:<sec>:-:<sc>:<tc>:<host>:<port>      startSourceBridge on node n (source node = "node-<n>")
//	look:<n>:<tid>  rem:<n>:<tid>  end:<n>:<tid>               Lookup / Remove / end of the bridge lifecycle
//	adv:<ms>   real sleep + Redis FastForward     advw:<ms> real sleep only     advs:<ms> Redis FastForward only
//	rega:<n>:<nid>:<addr>  geta:<n>:<nid>                      RegisterNodeAddress / GetNodeAddress ("@0".."@3" = live endpoints)
//	fwd:<n>:<tid>                                              target arrives on node n: Lookup + TunnelConnectionManager.CreateDedicatedConnection
//
//	poll:<n>:<tid>:<k>  pend:<n>:<tid>                         SessionManager.lookupTunnelRouting behind a gated store: first k polls / one more poll, then ctx ends
//	remc:<n>:<tid>  remd:<n>:<tid>                            RemoveWaitingTunnel with a cancelled / deadline-exceeded context
//	slook:<n>:<tid>  send:<n>:<tid>                            a lookup whose storage reply is held back / let through
//	restart:<n>                                                node n crashes and restarts over the same storage
//
// obs: one token per event (ok eparam nf exp eint estore edata exists skip addr:<hex> found:<fields>:<ttl ms>).
package main

import (
	"context"
	"encoding/json"
	"errors"
	"flag"
	"fmt"
	"net"
	"os"
	"strconv"
	"strings"
	"sync"
	"time"

	"github.com/alicebob/miniredis/v2"

	"tunnox-core/internal/cloud/models"
	"tunnox-core/internal/cloud/stats"
	coreerrors "tunnox-core/internal/core/errors"
	"tunnox-core/internal/core/idgen"
	"tunnox-core/internal/core/storage"
	"tunnox-core/internal/packet"
	"tunnox-core/internal/protocol/session"
	"tunnox-core/internal/protocol/session/tunnel"
	vc "tunnox-core/internal/verifharness/common"
)

// ---- doubles

// dblStore wraps a memory.Storage and hands values back in another Go shape.
type dblStore struct {
	storage.Storage
	mode string // "map": JSON-decoding store; "bytes": []byte-returning store
}

func (d *dblStore) Set(key string, value any, ttl time.Duration) error {
	if d.mode == "map" {
		data, err := json.Marshal(value)
		if err != nil {
			return err
		}
		return d.Storage.Set(key, string(data), ttl)
	}
	var data []byte
	switch v := value.(type) {
	case string:
		data = []byte(v)
	case []byte:
		data = v
	default:
		var err error
		if data, err = json.Marshal(value); err != nil {
			return err
		}
	}
	return d.Storage.Set(key, data, ttl)
}

func (d *dblStore) Get(key string) (any, error) {
	v, err := d.Storage.Get(key)
	if err != nil {
		return nil, err
	}
	if d.mode == "map" {
		var out any
		if err := json.Unmarshal([]byte(v.(string)), &out); err != nil {
			return nil, err
		}
		return out, nil
	}
	return v, nil
}

// countStore counts Delete calls per key (to know when runBridgeLifecycle has cleaned up).
type countStore struct {
	storage.Storage
	mu   sync.Mutex
	cond *sync.Cond
	dels map[string]int
}

func newCountStore(s storage.Storage) *countStore {
	c := &countStore{Storage: s, dels: map[string]int{}}
	c.cond = sync.NewCond(&c.mu)
	return c
}

func (c *countStore) Delete(key string) error {
	err := c.Storage.Delete(key)
	c.mu.Lock()
	c.dels[key]++
	c.cond.Broadcast()
	c.mu.Unlock()
	return err
}

func (c *countStore) count(key string) int {
	c.mu.Lock()
	defer c.mu.Unlock()
	return c.dels[key]
}

func (c *countStore) waitAbove(key string, n int, d time.Duration) bool {
	deadline := time.Now().Add(d)
	for {
		if c.count(key) > n {
			return true
		}
		if time.Now().After(deadline) {
			return false
		}
		time.Sleep(200 * time.Microsecond)
	}
}

type fakeCC struct {
	mu sync.Mutex
	m  map[string]*models.PortMapping
}

func (f *fakeCC) GetPortMapping(id string) (*models.PortMapping, error) {
	f.mu.Lock()
	defer f.mu.Unlock()
	if p, ok := f.m[id]; ok {
		return p, nil
	}
	return nil, errors.New("mapping not found")
}
func (f *fakeCC) UpdatePortMappingStats(string, *stats.TrafficStats) error       { return nil }
func (f *fakeCC) GetClientPortMappings(int64) ([]*models.PortMapping, error)     { return nil, nil }
func (f *fakeCC) TouchClient(int64)                                             {}
func (f *fakeCC) DisconnectClient(int64) error                                  { return nil }
func (f *fakeCC) DisconnectClientIfMatch(int64, string, string) (bool, error)   { return false, nil }
func (f *fakeCC) EnsureClientOnline(int64, string, string, string, string, string) error { return nil }

// ---- Redis servers and clients are reused across cases (a fresh listener and fresh client
// connections per case exhaust the ephemeral ports of a shared machine)

type redisPool struct {
	mr      *miniredis.Miniredis
	ctx     context.Context
	clients []storage.Storage
	hooks   []*replyHook // one per client: holds back the reply of a GET when armed (slow.go)
}

var (
	poolMu    sync.Mutex
	freePools []*redisPool
)

func acquireRedis() (*redisPool, error) {
	poolMu.Lock()
	if n := len(freePools); n > 0 {
		p := freePools[n-1]
		freePools = freePools[:n-1]
		poolMu.Unlock()
		p.mr.FlushAll()
		return p, nil
	}
	poolMu.Unlock()
	mr, err := miniredis.Run()
	if err != nil {
		return nil, err
	}
	return &redisPool{mr: mr, ctx: context.Background()}, nil
}

func releaseRedis(p *redisPool) {
	p.mr.FlushAll()
	poolMu.Lock()
	freePools = append(freePools, p)
	poolMu.Unlock()
}

func (p *redisPool) client(i int) (storage.Storage, error) {
	for len(p.clients) <= i {
		c, err := storage.NewRedisStorage(p.ctx, &storage.RedisConfig{Addr: p.mr.Addr()})
		if err != nil {
			return nil, err
		}
		h := &replyHook{}
		c.Client().AddHook(h)
		p.clients = append(p.clients, c)
		p.hooks = append(p.hooks, h)
	}
	return p.clients[i], nil
}

// keepOpen shields a reused Redis client from the Close of a per-case tiered store.
type keepOpen struct{ storage.Storage }

func (keepOpen) Close() error { return nil }

// ---- environment of one case

type oldNode struct {
	sm *session.SessionManager
	cs *countStore
}

type env struct {
	backend string
	ctx     context.Context
	cancel  context.CancelFunc
	mr      *miniredis.Miniredis
	pool    *redisPool
	tables  []*tunnel.RoutingTable
	stores  []*countStore
	sms     []*session.SessionManager
	mgrs    []*session.TunnelConnectionManager
	ccs     []*fakeCC
	conns   []net.Conn
	ttls    []int
	shared  storage.Storage
	old     []oldNode // components of crashed nodes: quiesced and closed at the end of the case
	pollers map[string]*poller
	slow    map[string]*slowLookup
	attached map[string]bool // bridges (node/tid) that already got their target through the local branch
	unstable bool // a gated schedule could not be forced exactly: the run must not be judged
	start   time.Time
	elapsed time.Duration // model time since start
}

func newEnv(backend string, ttls []int) (*env, error) {
	e := &env{backend: backend}
	e.ctx, e.cancel = context.WithCancel(context.Background())
	var shared storage.Storage
	switch backend {
	case "memory":
		shared = storage.NewMemoryStorage(e.ctx)
	case "dblMap":
		shared = &dblStore{Storage: storage.NewMemoryStorage(e.ctx), mode: "map"}
	case "dblBytes":
		shared = &dblStore{Storage: storage.NewMemoryStorage(e.ctx), mode: "bytes"}
	case "redis", "hybridRedis":
		p, err := acquireRedis()
		if err != nil {
			return nil, err
		}
		e.pool, e.mr = p, p.mr
	case "hybridLocal":
	default:
		return nil, fmt.Errorf("unknown backend %s", backend)
	}
	e.shared, e.ttls = shared, ttls
	for i := range ttls {
		cs, err := e.buildStore(i)
		if err != nil {
			return nil, err
		}
		e.stores = append(e.stores, cs)
		e.tables = append(e.tables, tunnel.NewRoutingTable(cs, time.Duration(ttls[i])*time.Millisecond))
		e.sms = append(e.sms, nil)
		e.ccs = append(e.ccs, nil)
	}
	e.start = time.Now()
	return e, nil
}

// buildStore: the storage object of node i as a starting process builds it (own Redis client / own
// tiered store with an empty local cache; the in-memory configurations share one store object).
func (e *env) buildStore(i int) (*countStore, error) {
	var st storage.Storage
	switch e.backend {
	case "redis":
		r, err := e.pool.client(i)
		if err != nil {
			return nil, err
		}
		st = r
	case "hybridRedis":
		r, err := e.pool.client(i)
		if err != nil {
			return nil, err
		}
		st = storage.NewHybridStorageWithSharedCache(e.ctx, storage.NewMemoryStorage(e.ctx), keepOpen{r}, nil, nil)
	case "hybridLocal":
		st = storage.NewHybridStorage(e.ctx, storage.NewMemoryStorage(e.ctx), nil, nil)
	default:
		st = e.shared
	}
	return newCountStore(st), nil
}

// restart: node n crashes and comes back — new storage object, routing table, session manager and
// connection manager over the same shared storage; nothing of the old process runs any cleanup now.
func (e *env) restart(n int) string {
	e.dropSlow(n)
	for k, p := range e.pollers { // a lookup that was polling in the crashed process dies with it
		if strings.HasPrefix(k, strconv.Itoa(n)+"/") {
			p.abort()
			delete(e.pollers, k)
		}
	}
	for k := range e.attached {
		if strings.HasPrefix(k, strconv.Itoa(n)+"/") {
			delete(e.attached, k)
		}
	}
	if e.sms[n] != nil {
		e.old = append(e.old, oldNode{e.sms[n], e.stores[n]})
		e.sms[n] = nil
	}
	if n < len(e.mgrs) && e.mgrs[n] != nil {
		e.mgrs[n].Close()
		e.mgrs[n] = nil
	}
	cs, err := e.buildStore(n)
	if err != nil {
		return "err:restart"
	}
	e.stores[n] = cs
	e.tables[n] = tunnel.NewRoutingTable(cs, time.Duration(e.ttls[n])*time.Millisecond)
	return "skip"
}

func (e *env) close() {
	e.dropSlow(-1)
	for _, p := range e.pollers {
		p.abort()
	}
	for _, o := range e.old {
		for _, tid := range o.sm.VerifBridgeIDs() {
			endBridgeOf(o.sm, o.cs, tid)
		}
		o.sm.Close()
	}
	for _, m := range e.mgrs {
		if m != nil {
			m.Close()
		}
	}
	// let every lifecycle goroutine finish its cleanup before the (reused) Redis server goes to the next case
	for n, sm := range e.sms {
		if sm == nil {
			continue
		}
		for _, tid := range sm.VerifBridgeIDs() {
			e.endBridge(n, tid)
		}
	}
	for _, sm := range e.sms {
		if sm != nil {
			sm.Close()
		}
	}
	for _, c := range e.conns {
		c.Close()
	}
	e.cancel()
	if e.pool != nil {
		releaseRedis(e.pool)
	}
}

func (e *env) sm(n int) *session.SessionManager {
	if e.sms[n] == nil {
		idm := idgen.NewIDManager(storage.NewMemoryStorage(e.ctx), e.ctx)
		sm := session.NewSessionManager(idm, e.ctx)
		sm.SetNodeID("node-" + strconv.Itoa(n))
		sm.SetTunnelRoutingTable(e.tables[n])
		e.ccs[n] = &fakeCC{m: map[string]*models.PortMapping{}}
		sm.SetCloudControl(e.ccs[n])
		e.sms[n] = sm
	}
	return e.sms[n]
}

// endBridge closes the bridge and waits until runBridgeLifecycle has removed it from the map and
// has issued the removal of the routing record.
func (e *env) endBridge(n int, tid string) string {
	delete(e.attached, strconv.Itoa(n)+"/"+tid)
	return endBridgeOf(e.sms[n], e.stores[n], tid)
}

func endBridgeOf(sm *session.SessionManager, cs *countStore, tid string) string {
	key := "tunnox:tunnel_waiting:" + tid
	before := cs.count(key)
	sm.VerifCloseBridge(tid)
	deadline := time.Now().Add(3 * time.Second)
	for sm.VerifHasBridge(tid) && time.Now().Before(deadline) {
		time.Sleep(200 * time.Microsecond)
	}
	if sm.VerifHasBridge(tid) {
		return "err:bridge_not_removed"
	}
	if tid != "" {
		cs.waitAbove(key, before, 400*time.Millisecond)
	}
	return "ok"
}

func (e *env) sleep(ms int) {
	e.elapsed += time.Duration(ms) * time.Millisecond
	if d := time.Until(e.start.Add(e.elapsed)); d > 0 {
		time.Sleep(d)
	}
}

type rec struct {
	tid, mp, sec, src, host string
	sc, tc                  int64
	port                    int
}

func hx(s string) string { return vc.Hex([]byte(s)) }
func uh(s string) string { return string(vc.UnHex(s)) }

func parseRec(f []string) (rec, error) {
	if len(f) != 8 {
		return rec{}, fmt.Errorf("record needs 8 fields")
	}
	sc, e1 := strconv.ParseInt(f[4], 10, 64)
	tc, e2 := strconv.ParseInt(f[5], 10, 64)
	port, e3 := strconv.ParseInt(f[7], 10, 64)
	if e1 != nil || e2 != nil || e3 != nil {
		return rec{}, fmt.Errorf("bad integer")
	}
	return rec{tid: uh(f[0]), mp: uh(f[1]), sec: uh(f[2]), src: uh(f[3]), sc: sc, tc: tc, host: uh(f[6]), port: int(port)}, nil
}

func fmtRec(kind string, n int, r rec) string {
	return fmt.Sprintf("%s:%d:%s:%s:%s:%s:%d:%d:%s:%d", kind, n, hx(r.tid), hx(r.mp), hx(r.sec), hx(r.src), r.sc, r.tc, hx(r.host), r.port)
}

func foundTok(st *tunnel.WaitingState) string {
	return fmt.Sprintf("found:%s:%s:%s:%s:%d:%d:%s:%d:%d", hx(st.TunnelID), hx(st.MappingID), hx(st.SecretKey), hx(st.SourceNodeID),
		st.SourceClientID, st.TargetClientID, hx(st.TargetHost), st.TargetPort, st.ExpiresAt.Sub(st.CreatedAt).Milliseconds())
}

func errTok(err error) string {
	switch {
	case err == tunnel.ErrNotFound || err == storage.ErrKeyNotFound:
		return "nf"
	case err == tunnel.ErrExpired:
		return "exp"
	}
	switch coreerrors.GetCode(err) {
	case coreerrors.CodeInvalidParam:
		return "eparam"
	case coreerrors.CodeStorageError:
		return "estore"
	case coreerrors.CodeInvalidData:
		return "edata"
	case coreerrors.CodeAlreadyExists:
		return "exists"
	case coreerrors.CodeInternal:
		var ce *coreerrors.Error
		if errors.As(err, &ce) {
			return "eint"
		}
	}
	return "err:" + strings.ReplaceAll(strings.ReplaceAll(err.Error(), " ", "_"), ":", ".")
}

func (e *env) exec(tok string) string {
	f := strings.Split(tok, ":")
	node := func() int {
		n, err := strconv.Atoi(f[1])
		if err != nil || n < 0 || n >= len(e.tables) {
			panic("bad node in " + tok)
		}
		return n
	}
	ctx := e.ctx
	switch f[0] {
	case "reg":
		n := node()
		r, err := parseRec(f[2:])
		if err != nil {
			panic(err)
		}
		st := &tunnel.WaitingState{TunnelID: r.tid, MappingID: r.mp, SecretKey: r.sec, SourceNodeID: r.src,
			SourceClientID: r.sc, TargetClientID: r.tc, TargetHost: r.host, TargetPort: r.port}
		if err := e.tables[n].RegisterWaitingTunnel(ctx, st); err != nil {
			return errTok(err)
		}
		return "ok"
	case "look":
		n := node()
		st, err, returned := e.guardedLookup(n, uh(f[2]))
		if !returned {
			return "err:lookup_waits_for_the_one_in_flight"
		}
		if err != nil {
			return errTok(err)
		}
		o := foundTok(st)
		// the caller owns what it got: scribbling over it must not reach the stored record
		*st = tunnel.WaitingState{TunnelID: "scribbled", MappingID: "scribbled", SourceNodeID: "scribbled", SourceClientID: -1, TargetPort: -1}
		return o
	case "rem":
		n := node()
		if err := e.tables[n].RemoveWaitingTunnel(ctx, uh(f[2])); err != nil {
			return errTok(err)
		}
		return "ok"
	case "remc", "remd":
		// the caller's context is dead (cancelled / past its deadline), as the session manager's is at shutdown
		n := node()
		dctx, cancel := context.WithCancel(ctx)
		if f[0] == "remd" {
			cancel()
			dctx, cancel = context.WithDeadline(ctx, time.Now().Add(-time.Second))
		}
		cancel()
		if err := e.tables[n].RemoveWaitingTunnel(dctx, uh(f[2])); err != nil {
			return errTok(err)
		}
		return "ok"
	case "open":
		n := node()
		r, err := parseRec(f[2:])
		if err != nil {
			panic(err)
		}
		sm := e.sm(n)
		e.ccs[n].mu.Lock()
		e.ccs[n].m[r.mp] = &models.PortMapping{ID: r.mp, ListenClientID: r.sc, TargetClientID: r.tc, TargetHost: r.host, TargetPort: r.port}
		e.ccs[n].mu.Unlock()
		a, b := net.Pipe()
		e.conns = append(e.conns, a, b)
		if err := sm.VerifStartSourceBridge(&packet.TunnelOpenRequest{TunnelID: r.tid, MappingID: r.mp, SecretKey: r.sec}, a); err != nil {
			return errTok(err)
		}
		return "ok"
	case "end":
		n := node()
		tid := uh(f[2])
		sm := e.sm(n)
		if !sm.VerifHasBridge(tid) {
			return "skip"
		}
		return e.endBridge(n, tid)
	case "adv", "advw", "advs":
		ms, err := strconv.Atoi(f[1])
		if err != nil {
			panic(err)
		}
		if f[0] != "advs" {
			e.sleep(ms)
		}
		if f[0] != "advw" && e.mr != nil {
			e.mr.FastForward(time.Duration(ms) * time.Millisecond)
		}
		return "skip"
	case "rega":
		n := node()
		if err := e.tables[n].RegisterNodeAddress(uh(f[2]), realAddr(uh(f[3]))); err != nil {
			return errTok(err)
		}
		return "ok"
	case "geta":
		n := node()
		a, err := e.tables[n].GetNodeAddress(uh(f[2]))
		if err != nil {
			return errTok(err)
		}
		return "addr:" + hx(symAddr(a))
	case "fwd":
		return e.forward(node(), uh(f[2]))
	case "poll":
		k, err := strconv.Atoi(f[3])
		if err != nil {
			panic(err)
		}
		return e.pollStart(node(), uh(f[2]), k)
	case "pend":
		return e.pollEnd(node(), uh(f[2]))
	case "restart":
		return e.restart(node())
	case "slook":
		return e.slowBegin(node(), uh(f[2]))
	case "send":
		return e.slowEnd(node(), uh(f[2]))
	}
	panic("unknown event " + tok)
}

// runCase executes one case string; ok=false: the measured timeline does not agree with the model's
// clock with the required margins (see timeline.go) — the run must not be judged.
func runCase(caseStr string) (obs string, ok bool) {
	toks := strings.Fields(caseStr)
	if len(toks) > 0 && toks[0] == "X" {
		toks = toks[1:]
	}
	if len(toks) < 2 {
		return "bad-case", true
	}
	var ttls []int
	for _, s := range strings.Split(toks[1], ",") {
		v, err := strconv.Atoi(s)
		if err != nil {
			return "bad-case", true
		}
		ttls = append(ttls, v)
	}
	type result struct {
		obs string
		ok  bool
	}
	ch := make(chan result, 1)
	go func() {
		defer func() {
			if r := recover(); r != nil {
				ch <- result{"panic " + strings.ReplaceAll(fmt.Sprint(r), " ", "_"), true}
			}
		}()
		e, err := newEnv(toks[0], ttls)
		if err != nil {
			ch <- result{"err:setup_" + strings.ReplaceAll(err.Error(), " ", "_"), true}
			return
		}
		defer e.close()
		var out []string
		spans := make([]span, 0, len(toks)-2)
		for _, t := range toks[2:] {
			before := time.Since(e.start)
			out = append(out, e.exec(t))
			spans = append(spans, span{before, time.Since(e.start)})
		}
		ch <- result{strings.Join(out, " "), realConsistent(ttls, toks[2:], spans) && !e.unstable}
	}()
	select {
	case r := <-ch:
		return r.obs, r.ok
	case <-time.After(60 * time.Second):
		return "timeout", true
	}
}

// ---- execution of batches (parallel, output in generation order)

type job struct {
	key   string // K:<key> prefix or ""
	cs    string
	count string
}

type runner struct {
	out     *vc.Out
	replay  bool
	skipped int
	retried int
}

func (r *runner) runAll(jobs []job, workers int) {
	obs := make([]string, len(jobs))
	good := make([]bool, len(jobs))
	var wg sync.WaitGroup
	var mu sync.Mutex
	next := 0
	for w := 0; w < workers; w++ {
		wg.Add(1)
		go func() {
			defer wg.Done()
			for {
				mu.Lock()
				i := next
				next++
				mu.Unlock()
				if i >= len(jobs) {
					return
				}
				for attempt := 0; attempt < 5; attempt++ {
					o, ok := runCase(jobs[i].cs)
					obs[i], good[i] = o, ok
					if ok {
						break
					}
					mu.Lock()
					r.retried++
					mu.Unlock()
				}
			}
		}()
	}
	wg.Wait()
	for i, j := range jobs {
		if !good[i] {
			r.skipped++ // no attempt had a timeline consistent with the model's clock: dropped, never reported
			continue
		}
		cs := j.cs
		if j.key != "" {
			cs = "K:" + j.key + " " + cs
		}
		key := j.cs
		if len(key) > 300 {
			key = key[:300] + strconv.Itoa(len(j.cs))
		}
		if strings.Count(j.cs, " ") < 3 {
			key = ""
		}
		r.out.Case(cs, obs[i], key)
		if j.count != "" {
			r.out.Count(j.count)
		}
		for _, t := range strings.Fields(obs[i]) {
			if k := strings.IndexByte(t, ':'); k >= 0 {
				t = t[:k]
			}
			r.out.Count("obs:" + t)
		}
	}
}

func isTimed(cs string) bool { return strings.Contains(cs, " adv:") || strings.Contains(cs, " advw:") }

func main() {
	tier := flag.String("tier", "quick", "")
	seed := flag.Uint64("seed", 1, "")
	statsPath := flag.String("stats", "", "")
	noGen := flag.Bool("nogen", false, "")
	flag.Parse()
	out := vc.NewOut()
	r := &runner{out: out, replay: *noGen}
	var corpus []job
	for _, f := range flag.Args() {
		data, err := os.ReadFile(f)
		if err != nil {
			fmt.Fprintln(os.Stderr, err)
			os.Exit(3)
		}
		for _, line := range strings.Split(string(data), "\n") {
			line = strings.TrimSpace(line)
			if line == "" || strings.HasPrefix(line, "#") {
				continue
			}
			if i := strings.Index(line, " ## "); i >= 0 {
				line = line[:i]
			}
			j := job{cs: line, count: "corpus"}
			if strings.HasPrefix(line, "K:") {
				k, rest, _ := strings.Cut(line, " ")
				j.key, j.cs = k[2:], rest
			}
			corpus = append(corpus, j)
		}
	}
	r.runAll(corpus, 8)
	if !*noGen {
		untimed, timed := gen(vc.NewRand(*seed), *tier == "thorough")
		r.runAll(untimed, 8)
		r.runAll(timed, 32)
	}
	out.Finish(*statsPath, map[string]any{"dropped_timing_unstable": r.skipped, "timing_retries": r.retried})
}
