//go:build verif

package main

import (
	"context"
	"strconv"
	"sync"
	"time"

	coreerrors "tunnox-core/internal/core/errors"
	"tunnox-core/internal/core/idgen"
	"tunnox-core/internal/core/storage"
	"tunnox-core/internal/protocol/session"
	"tunnox-core/internal/protocol/session/tunnel"
)

// gatedStore: every Get of the polling lookup waits until the schedule grants it.  The poller gets
// its own routing table over this wrapper (around the node's real storage object), so only its
// polls are gated, not the other events of the case.
type gatedStore struct {
	storage.Storage
	mu      sync.Mutex
	cond    *sync.Cond
	allowed int  // Gets granted so far
	started int  // Gets that reached the gate
	done    int  // Gets that returned
	open    bool // gate removed (poller is being wound down)
}

func (g *gatedStore) Get(key string) (any, error) {
	g.mu.Lock()
	idx := g.started
	g.started++
	g.cond.Broadcast()
	for idx >= g.allowed && !g.open {
		g.cond.Wait()
	}
	g.mu.Unlock()
	v, err := g.Storage.Get(key)
	g.mu.Lock()
	g.done++
	g.cond.Broadcast()
	g.mu.Unlock()
	return v, err
}

type pollResult struct {
	st  *session.TunnelWaitingState
	err error
}

type poller struct {
	g      *gatedStore
	sm     *session.SessionManager
	cancel context.CancelFunc
	res    chan pollResult
	got    *pollResult
	k      int
}

func (p *poller) finished(wait time.Duration) bool {
	if p.got != nil {
		return true
	}
	select {
	case r := <-p.res:
		p.got = &r
		return true
	case <-time.After(wait):
		return false
	}
}

func (p *poller) abort() {
	p.cancel()
	p.g.mu.Lock()
	p.g.open = true
	p.g.cond.Broadcast()
	p.g.mu.Unlock()
	p.finished(2 * time.Second)
	p.sm.Close()
}

func pollTok(r *pollResult, onMiss string) string {
	if r.err == nil {
		return foundTok(r.st)
	}
	if coreerrors.GetCode(r.err) == coreerrors.CodeTimeout {
		return onMiss // the context ended while the id was still missing
	}
	return errTok(r.err)
}

func (e *env) newPoller(n int, tid string, k int) *poller {
	g := &gatedStore{Storage: e.stores[n], allowed: k}
	g.cond = sync.NewCond(&g.mu)
	idm := idgen.NewIDManager(storage.NewMemoryStorage(e.ctx), e.ctx)
	sm := session.NewSessionManager(idm, e.ctx)
	sm.SetNodeID("node-" + strconv.Itoa(n))
	sm.SetTunnelRoutingTable(tunnel.NewRoutingTable(g, time.Duration(e.ttls[n])*time.Millisecond))
	ctx, cancel := context.WithCancel(e.ctx)
	p := &poller{g: g, sm: sm, cancel: cancel, res: make(chan pollResult, 1), k: k}
	go func() {
		st, err := sm.VerifLookupTunnelRouting(ctx, tid)
		p.res <- pollResult{st, err}
	}()
	return p
}

// waitGate: until `done` polls have returned and the next one stands at the gate, or the poller finished.
func (p *poller) waitGate(done int) bool {
	deadline := time.Now().Add(5 * time.Second)
	for time.Now().Before(deadline) {
		if p.finished(0) {
			return true
		}
		p.g.mu.Lock()
		ok := p.g.done >= done && p.g.started > done
		p.g.mu.Unlock()
		if ok {
			return true
		}
		time.Sleep(500 * time.Microsecond)
	}
	return false
}

func (e *env) pollStart(n int, tid string, k int) string {
	key := strconv.Itoa(n) + "/" + tid
	if e.pollers == nil {
		e.pollers = map[string]*poller{}
	}
	if old := e.pollers[key]; old != nil {
		old.abort()
		delete(e.pollers, key)
	}
	p := e.newPoller(n, tid, k)
	if !p.waitGate(k) {
		e.unstable = true
	}
	if p.finished(0) {
		p.sm.Close()
		return pollTok(p.got, "ptimeout") // nobody ended its context: a lookup that gave up by itself is not "pending"
	}
	e.pollers[key] = p
	return "pending"
}

func (e *env) pollEnd(n int, tid string) string {
	key := strconv.Itoa(n) + "/" + tid
	p := e.pollers[key]
	if p == nil {
		p = e.newPoller(n, tid, 0)
		if !p.waitGate(0) {
			e.unstable = true
		}
	}
	delete(e.pollers, key)
	// grant exactly one more poll
	p.g.mu.Lock()
	p.g.allowed = p.k + 1
	p.g.cond.Broadcast()
	p.g.mu.Unlock()
	deadline := time.Now().Add(5 * time.Second)
	for time.Now().Before(deadline) {
		if p.finished(0) {
			break
		}
		p.g.mu.Lock()
		d := p.g.done
		p.g.mu.Unlock()
		if d >= p.k+1 {
			break
		}
		time.Sleep(200 * time.Microsecond)
	}
	if !p.finished(2 * time.Millisecond) {
		// the poll missed and the lookup sleeps before the next one: end its context now
		p.cancel()
		p.g.mu.Lock()
		raced := p.g.started > p.k+1 // it already stands at the gate again: the schedule was not forced exactly
		p.g.open = true
		p.g.cond.Broadcast()
		p.g.mu.Unlock()
		if raced {
			e.unstable = true
		}
		if !p.finished(3 * time.Second) {
			p.sm.Close()
			return "err:poll_hangs"
		}
	}
	p.sm.Close()
	return pollTok(p.got, "ptimeout")
}
