//go:build verif

package main

import (
	"fmt"
	"strings"

	vc "tunnox-core/internal/verifharness/common"
)

var backends = []string{"memory", "redis", "hybridRedis", "hybridLocal", "dblMap", "dblBytes"}

var idPool = []string{
	"t1", "t2", "tunnel-αβγ-隧道-😀", "a:b c\"\\<>&\u2028\u2029\x00\x1f\x7fé", "tunnox:node:x:addr", ":addr",
	"client-12345678-1700000000000000000", " ", "{\"tunnel_id\":\"x\"}",
}

var strPool = []string{
	"", "m", "mapping-001", "密钥/ключ/🔑", "a\"b\\c\n\r\t\b\f</script>&amp;", "\u0000\u0001", "10.0.0.1", "host.example.com",
	"::1", "\ufffd", "\U0010ffff", "null", "0", "{}",
}

var intPool = []int64{
	0, 1, -1, 80, 65535, 12345678, -80, 1 << 31, 1<<53 - 1, 1 << 53, 1<<53 + 1, 1<<53 + 2, 1<<53 + 3, -(1 << 53), -(1<<53 + 1),
	1<<62 + 1, 1<<63 - 1, -1 << 63, 1<<63 - 513, 1<<63 - 512, 4611686018427387905,
}

var smallInts = []int64{0, 1, 80, 443, 65535, 12345678, 87654321, -1}

func big(r *vc.Rand, n int) string {
	var sb strings.Builder
	al := []string{"a", "Z", "0", "é", "隧", "😀", "\"", "\\", " ", "<"}
	for sb.Len() < n {
		sb.WriteString(al[r.Intn(len(al))])
	}
	return sb.String()
}

func genRec(r *vc.Rand, tid string, exotic bool) rec {
	ints := smallInts
	if exotic {
		ints = intPool
	}
	return rec{tid: tid, mp: vc.Pick(r, strPool), sec: vc.Pick(r, strPool), src: vc.Pick(r, []string{"node-0", "node-1", "node-2", "", "节点"}),
		sc: vc.Pick(r, ints), tc: vc.Pick(r, ints), host: vc.Pick(r, strPool), port: int(vc.Pick(r, ints))}
}

func mk(backend, ttls string, evs []string) string {
	return backend + " " + ttls + " " + strings.Join(evs, " ")
}

func look(n int, tid string) string { return fmt.Sprintf("look:%d:%s", n, hx(tid)) }
var remSeq uint64

// rem: two of five removals run under a dead context (cancelled / past its deadline), as at node shutdown
func rem(n int, tid string) string {
	remSeq++
	kind := []string{"rem", "remc", "rem", "remd", "rem"}[remSeq%5]
	return fmt.Sprintf("%s:%d:%s", kind, n, hx(tid))
}
func end(n int, tid string) string  { return fmt.Sprintf("end:%d:%s", n, hx(tid)) }

// gen returns the untimed and the timed (real sleeps) cases.
func gen(r *vc.Rand, thorough bool) (untimed, timed []job) {
	add := func(cs, count string) { untimed = append(untimed, job{cs: cs, count: count}) }

	// --- 1. field fidelity: every record comes back unchanged from every node, on every backend
	nFid := 40
	if thorough {
		nFid = 600
	}
	for _, b := range backends {
		for i := 0; i < nFid; i++ {
			tid := vc.Pick(r, idPool)
			rc := genRec(r, tid, r.Intn(3) != 0)
			if i == 0 {
				rc.tid, rc.sec, rc.host = big(r, 65536), big(r, 65536), big(r, 70000)
			}
			if i == 1 {
				rc.tid = ""
			}
			evs := []string{fmtRec("reg", r.Intn(3), rc), look(0, rc.tid), look(1, rc.tid), look(2, rc.tid)}
			if r.Bool() {
				evs = append(evs, rem(r.Intn(3), rc.tid), look(r.Intn(3), rc.tid))
			}
			add(mk(b, "0,0,0", evs), "gen:fidelity")
		}
		// integers at the float64 / int64 boundaries, one by one
		for _, v := range intPool {
			rc := rec{tid: "t-int", mp: "m", sc: v, tc: -v, port: int(v)}
			add(mk(b, "0,0", []string{fmtRec("reg", 0, rc), look(1, "t-int")}), "gen:int-boundary")
		}
	}

	// --- 2. exhaustive small scope: every sequence over an alphabet of operations on two ids and two nodes
	a, bb := rec{tid: "A", mp: "mA", sec: "s", src: "node-0", sc: 1, tc: 2, host: "h", port: 80},
		rec{tid: "B", mp: "mB", sec: "", src: "node-1", sc: 3, tc: 4, host: "", port: 0}
	a2 := rec{tid: "A", mp: "mA2", sec: "s2", src: "node-1", sc: 5, tc: 6, host: "h2", port: 81}
	alpha := []string{fmtRec("reg", 0, a), fmtRec("reg", 1, a2), look(0, "A"), look(1, "A"), rem(1, "A"), "advs:30000",
		fmtRec("open", 0, a), end(0, "A"), fmtRec("reg", 1, bb), look(0, "B"), "advs:29999"}
	depth, width := 3, 8
	if thorough {
		depth, width = 4, 10
	}
	var rec_ func(prefix []string, d int)
	for _, b := range backends {
		rec_ = func(prefix []string, d int) {
			if len(prefix) > 0 {
				add(mk(b, "0,0", prefix), "gen:exhaustive")
			}
			if d == 0 {
				return
			}
			for _, s := range alpha[:width] {
				rec_(append(append([]string{}, prefix...), s), d-1)
			}
		}
		rec_(nil, depth)
	}

	// --- 3. random histories, Redis clock only (no real time passes)
	nHist := 700
	if thorough {
		nHist = 12000
	}
	nids := []string{"node-0", "node-1", "", "n:addr", "节点-2"}
	addrs := []string{"10.0.0.1:7000", "", "[::1]:9", "主机:1", "a"}
	for i := 0; i < nHist; i++ {
		b := vc.Pick(r, backends)
		tids := []string{vc.Pick(r, idPool), vc.Pick(r, idPool), "t3"}
		ttls := vc.Pick(r, []string{"0,0,0", "0,60000,2000", "5000,0,0"})
		n := 5 + r.Intn(10)
		var evs []string
		for k := 0; k < n; k++ {
			node := r.Intn(3)
			tid := vc.Pick(r, tids)
			switch r.Intn(13) {
			case 0, 1, 2:
				evs = append(evs, fmtRec("reg", node, genRec(r, tid, r.Intn(4) == 0)))
			case 3, 4, 5, 6:
				evs = append(evs, look(node, tid))
			case 7:
				evs = append(evs, rem(node, tid))
			case 8:
				evs = append(evs, fmtRec("open", node, genRec(r, tid, false)))
			case 9:
				evs = append(evs, end(node, tid))
			case 10:
				evs = append(evs, fmt.Sprintf("advs:%d", vc.Pick(r, []int{1, 1999, 2000, 4999, 5000, 29999, 30000, 59999, 60000, 86399999, 86400000})))
			case 11:
				evs = append(evs, fmt.Sprintf("rega:%d:%s:%s", node, hx(vc.Pick(r, nids)), hx(vc.Pick(r, addrs))))
			case 12:
				evs = append(evs, fmt.Sprintf("geta:%d:%s", node, hx(vc.Pick(r, nids))))
			}
		}
		add(mk(b, ttls, evs), "gen:history")
	}

	// --- 3b. key injectivity end to end: families of ids that share a long prefix and differ late, ids made of
	// the key separators / the key prefixes themselves, ids equal up to case, trailing NUL, unicode normal form;
	// three of them waiting at the same time on different nodes, every one must resolve to its own record, and
	// removing one must not touch the others.  The same for node ids (GetNodeAddress keys).
	for _, b := range backends {
		for _, fam := range idFamilies(r, thorough) {
			for _, cs := range collideCases(r, b, fam) {
				add(cs, "gen:id-family")
			}
		}
	}

	// --- 3c. forwarding: a target arrives on a node, the tunnel is resolved and the dedicated connection goes to the
	// address the source node has registered last.  Addresses change between tunnels (restart / reschedule), the old
	// address keeps accepting (taken over by another node), several tunnels are forwarded by the same node.
	for _, b := range backends {
		for _, cs := range forwardScenarios(r, b) {
			add(cs, "gen:forward-scenario")
		}
	}
	nFwd := 500
	if thorough {
		nFwd = 6000
	}
	for i := 0; i < nFwd; i++ {
		b := vc.Pick(r, backends)
		add(forwardHistory(r, b), "gen:forward-history")
	}

	// --- 3d. the polling lookup of the target node (real lookupTunnelRouting behind a gated store): registrations,
	// removals, lapses and restarts land between two of its polls; crash-restarts of nodes over the same storage.
	for _, b := range backends {
		for _, cs := range pollScenarios(r, b) {
			add(cs, "gen:poll-restart-scenario")
		}
	}
	nPoll := 60
	if thorough {
		nPoll = 900
	}
	for i := 0; i < nPoll; i++ {
		add(pollHistory(r, vc.Pick(r, backends)), "gen:poll-restart-history")
	}

	// --- 3e. overlapping lookups: the storage reply of one lookup is held back while the tunnel is removed, lapses, is
	// re-registered, ends; lookups that start afterwards (same node, other nodes) must see the state at their own start.
	for _, b := range backends {
		for _, cs := range overlapScenarios(r, b) {
			add(cs, "gen:overlap-scenario")
		}
	}
	nOv := 150
	if thorough {
		nOv = 2500
	}
	for i := 0; i < nOv; i++ {
		add(overlapHistory(r, vc.Pick(r, backends)), "gen:overlap-history")
	}

	// --- 3f. the tunnel ends while the owner's context is already dead (shutdown): the record must go all the same
	for _, b := range backends {
		for _, kind := range []string{"remc", "remd"} {
			rc := genRec(r, "T1", false)
			s0 := r.Intn(3)
			add(mk(b, "0,0,0", []string{fmtRec("reg", s0, rc), look((s0+1)%3, "T1"), fmt.Sprintf("%s:%d:%s", kind, s0, hx("T1")),
				look((s0+1)%3, "T1"), look((s0+2)%3, "T1"), look(s0, "T1"), fmtRec("reg", (s0+1)%3, rc), fmt.Sprintf("%s:%d:%s", kind, (s0+2)%3, hx("T1")), fwd(s0, "T1"), fmt.Sprintf("%s:%d:%s", kind, s0, hx(""))}), "gen:remove-dead-context")
		}
	}

	// --- 4. excluded points: strings that are not valid UTF-8 (JSON replaces the bytes)
	for _, b := range backends {
		bad := rec{tid: "t\xff\xfe", mp: "\xc3(", sec: "ok", src: "node-0", host: "\x80"}
		untimed = append(untimed, job{cs: "X " + mk(b, "0,0", []string{fmtRec("reg", 0, bad), look(1, bad.tid)}), count: "gen:excluded-invalid-utf8"})
	}

	// --- 5. real time.  Only the nodes' clock needs real sleeping (the Redis clock is FastForward).
	// ttl 300/400 ms; every lookup of an id is at most 0.5·ttl or at least 1.6·ttl after each
	// registration of that id (modelSafe), and the harness judges a run only if the measured
	// timeline confirms that with margin (timeline.go).
	addT := func(b, ttls string, evs []string, count string) {
		var tt []int
		for _, x := range strings.Split(ttls, ",") {
			v := 0
			fmt.Sscanf(x, "%d", &v)
			tt = append(tt, v)
		}
		if !modelSafe(tt, evs) {
			panic("generator produced a timed case without margins: " + mk(b, ttls, evs))
		}
		timed = append(timed, job{cs: mk(b, ttls, evs), count: count})
	}
	reps := 1
	if thorough {
		reps = 4
	}
	for _, b := range backends {
		for rep := 0; rep < reps; rep++ {
			rc := genRec(r, "T", false)
			n, m := r.Intn(2), r.Intn(3)
			// the nodes' clock passes the waiting period while the Redis key is still there: explicit check, then the record is gone
			addT(b, "300,300,0", []string{fmtRec("reg", n, rc), look(m, "T"), "advw:500", look(m, "T"), look((m+1)%3, "T")}, "gen:timed-explicit-check")
			// everything ages together: live at 0.5·ttl, lapsed at 650 ms
			addT(b, "300,300,0", []string{fmtRec("reg", n, rc), "adv:150", look(m, "T"), "adv:500", look(m, "T")}, "gen:timed-lapse")
			addT(b, "400,400,0", []string{fmtRec("reg", n, rc), "adv:100", look(m, "T"), "adv:100", look((m+1)%3, "T"), "adv:500", look(m, "T")}, "gen:timed-lapse")
			// re-registration after the lapse starts a new waiting period (and a replayed id does not see the old data)
			rc2 := genRec(r, "T", false)
			addT(b, "300,300,0", []string{fmtRec("reg", n, rc), "adv:500", look(m, "T"), fmtRec("reg", 1-n, rc2), look(m, "T"), "adv:150", look(m, "T"), "advw:500", look(m, "T")}, "gen:timed-reregister")
			// bridge opened, never served, waiting period lapses; the bridge end afterwards is harmless
			addT(b, "300,300,0", []string{fmtRec("open", n, rc), look(m, "T"), "adv:500", look(m, "T"), end(n, "T"), look(m, "T")}, "gen:timed-open")
			// a lookup holds a lapsed record in its hand while the id is registered anew: its "expired" must not touch the new record
			addT(b, "300,300,0", []string{fmtRec("reg", n, rc), "advw:500", slook(m, "T"), fmtRec("reg", 1-n, rc2), send(m, "T"), look(m, "T"), look((m+1)%3, "T")}, "gen:timed-overlap")
			// the polling lookup meets a record whose waiting period lapsed on the nodes' clock only: "expired" means keep polling
			addT(b, "300,300,0", []string{fmtRec("reg", n, rc), "advw:500", poll(m, "T", 1), fmtRec("reg", 1-n, rc2), pend(m, "T")}, "gen:timed-poll")
		}
	}
	nTimed := 120
	if thorough {
		nTimed = 2400
	}
	for i := 0; i < nTimed; {
		b := vc.Pick(r, backends)
		ttls := vc.Pick(r, []string{"300,400,0", "400,300,300", "300,300,300", "0,300,400"})
		tids := []string{"T", "T", vc.Pick(r, idPool)}
		n := 5 + r.Intn(7)
		evs := []string{fmtRec("reg", r.Intn(3), genRec(r, "T", false))}
		slept := 0
		for k := 0; k < n; k++ {
			node := r.Intn(3)
			tid := vc.Pick(r, tids)
			switch r.Intn(14) {
			case 0, 1:
				evs = append(evs, fmtRec("reg", node, genRec(r, tid, false)))
			case 2, 3, 4, 5:
				evs = append(evs, look(node, tid))
			case 6:
				evs = append(evs, rem(node, tid))
			case 7:
				evs = append(evs, fmtRec("open", node, genRec(r, tid, false)))
			case 8, 9, 10, 11:
				if slept < 1500 {
					d := vc.Pick(r, []int{100, 150, 650, 700})
					slept += d
					evs = append(evs, fmt.Sprintf("%s:%d", vc.Pick(r, []string{"adv", "advw", "advw"}), d), look(node, tid))
				}
			case 12:
				evs = append(evs, fmt.Sprintf("advs:%d", vc.Pick(r, []int{100, 299, 300, 400, 30000})))
			case 13:
				evs = append(evs, end(node, tid))
			}
		}
		if slept == 0 {
			evs = append(evs, "advw:700", look(r.Intn(3), "T"))
		}
		var tt []int
		for _, x := range strings.Split(ttls, ",") {
			v := 0
			fmt.Sscanf(x, "%d", &v)
			tt = append(tt, v)
		}
		if !modelSafe(tt, evs) {
			continue // a lookup would fall between 0.5·ttl and 1.6·ttl after a registration: draw again
		}
		addT(b, ttls, evs, "gen:timed")
		i++
	}
	return untimed, timed
}

// family of three ids of length n that differ only at byte position pos
func famAt(r *vc.Rand, n, pos int) []string {
	base := make([]byte, n)
	al := "abcdefghijklmnopqrstuvwxyz0123456789-"
	for i := range base {
		base[i] = al[r.Intn(len(al))]
	}
	if n > 12 {
		copy(base, "server-udp-")
	}
	out := make([]string, 3)
	for k := 0; k < 3; k++ {
		x := append([]byte{}, base...)
		x[pos] = "XYZ"[k]
		out[k] = string(x)
	}
	return out
}

func idFamilies(r *vc.Rand, thorough bool) [][]string {
	fams := [][]string{
		{"", "\x00", "\x00\x00"},
		{"t", "t\x00", "t "},
		{"Tunnel-A", "tunnel-a", "TUNNEL-A"},
		{"caf\u00e9", "cafe\u0301", "cafe"},                // NFC / NFD / stripped
		{"\u212b", "\u00c5", "A\u030a"},                    // Angstrom sign / A-ring / decomposed
		{"tunnox:tunnel_waiting:", "tunnox:tunnel_waiting:tunnox:tunnel_waiting:", "tunnox:node:"},
		{":addr", "x:addr", "tunnox:node:x:addr"},
		{"a:b", "a|b", "a:b:"},
		{"a", "a:", ":a"},
		{"|", "||", ":"},
	}
	lens := []int{1, 40, 106, 107, 128, 129, 140, 255, 1024}
	poss := []int{0, 100, 106, 117, 128}
	if thorough {
		poss = []int{0, 100, 105, 106, 107, 110, 117, 127, 128, 130}
	}
	if thorough {
		lens = []int{1, 2, 40, 105, 106, 107, 108, 109, 110, 120, 127, 128, 129, 130, 131, 139, 140, 255, 256, 1024, 4096}
	} else if r.Bool() {
		lens = append(lens, 4096)
	}
	for _, n := range lens {
		seen := map[int]bool{}
		for _, pos := range append(append([]int{}, poss...), n/2, n-2, n-1) {
			if pos < 0 || pos >= n || seen[pos] {
				continue
			}
			seen[pos] = true
			fams = append(fams, famAt(r, n, pos))
		}
		// one id is a proper prefix of the next
		if n > 3 {
			f := famAt(r, n, n-1)
			fams = append(fams, []string{f[0][:n-1], f[0], f[0] + "x"})
		}
	}
	return fams
}

func collideCases(r *vc.Rand, b string, fam []string) []string {
	recs := make([]rec, 3)
	for k := range recs {
		recs[k] = rec{tid: fam[k], mp: fmt.Sprintf("mapping-%d", k), sec: fmt.Sprintf("secret-%d", k), src: fmt.Sprintf("node-%d", k),
			sc: int64(100 + k), tc: int64(200 + k), host: fmt.Sprintf("10.0.0.%d", k+1), port: 8000 + k}
	}
	p := r.Intn(3) // rotation: which node looks up whom
	// all three waiting together; cross-node lookups; one ends, the others stay; a replayed id of the ended one
	tun := []string{
		fmtRec("reg", 0, recs[0]), fmtRec("reg", 1, recs[1]), look((1+p)%3, fam[0]), fmtRec("reg", 2, recs[2]),
		look((2+p)%3, fam[0]), look((0+p)%3, fam[1]), look((1+p)%3, fam[2]),
		rem(2, fam[1]), look(0, fam[0]), look(0, fam[1]), look(1, fam[2]),
		rem(0, fam[2]), look(2, fam[0]), look(1, fam[1]), look(1, fam[2]),
		fmtRec("reg", 1, recs[2]), look(0, fam[1]), look(2, fam[2]), look(1, fam[0]),
	}
	// the same through the session layer: three bridges on three nodes, the second one ends
	ses := []string{
		fmtRec("open", 0, recs[0]), fmtRec("open", 1, recs[1]), fmtRec("open", 2, recs[2]),
		look(1, fam[0]), look(2, fam[1]), look(0, fam[2]), end(1, fam[1]), look(2, fam[0]), look(0, fam[1]), look(1, fam[2]),
	}
	// node ids
	adr := []string{}
	for k := 0; k < 3; k++ {
		adr = append(adr, fmt.Sprintf("rega:%d:%s:%s", k, hx(fam[k]), hx(fmt.Sprintf("10.1.0.%d:7000", k+1))))
	}
	for k := 0; k < 3; k++ {
		adr = append(adr, fmt.Sprintf("geta:%d:%s", (k+1+p)%3, hx(fam[k])))
	}
	adr = append(adr, fmt.Sprintf("rega:%d:%s:%s", 2, hx(fam[0]), hx("10.9.9.9:1")), fmt.Sprintf("geta:0:%s", hx(fam[0])),
		fmt.Sprintf("geta:0:%s", hx(fam[1])), fmt.Sprintf("geta:1:%s", hx(fam[2])),
		// ids and node ids never meet
		fmtRec("reg", 0, recs[0]), fmt.Sprintf("geta:1:%s", hx(fam[0])), look(2, fam[0]))
	return []string{mk(b, "0,0,0", tun), mk(b, "0,0,0", ses), mk(b, "0,0,0", adr)}
}

func fwd(n int, tid string) string { return fmt.Sprintf("fwd:%d:%s", n, hx(tid)) }
func rega(n int, nid, addr string) string {
	return fmt.Sprintf("rega:%d:%s:%s", n, hx(nid), hx(addr))
}
func geta(n int, nid string) string { return fmt.Sprintf("geta:%d:%s", n, hx(nid)) }

func fwdRec(r *vc.Rand, tid, src string) rec {
	rc := genRec(r, tid, false)
	rc.src = src
	return rc
}

func forwardScenarios(r *vc.Rand, b string) []string {
	var out []string
	for f := 0; f < 3; f++ { // the forwarding node
		s := (f + 1 + r.Intn(2)) % 3 // the source node
		o := 3 - f - s               // the third node
		sn, on := fmt.Sprintf("node-%d", s), fmt.Sprintf("node-%d", o)
		// 1. forward, source re-registers elsewhere while the old endpoint stays alive (taken over), forward the next tunnel
		out = append(out, mk(b, "0,0,0", []string{
			rega(s, sn, "@0"), rega(o, on, "@1"), fmtRec("reg", s, fwdRec(r, "T1", sn)), fwd(f, "T1"),
			rega(s, sn, "@2"), rega(o, on, "@0"), fmtRec("reg", s, fwdRec(r, "T2", sn)), fwd(f, "T2"), geta(f, sn),
			fmtRec("reg", o, fwdRec(r, "T3", on)), fwd(f, "T3"), fwd(f, "T2")}))
		// 2. the same through real bridges (source node id comes from the session manager), several moves
		out = append(out, mk(b, "0,0,0", []string{
			rega(s, sn, "@3"), fmtRec("open", s, fwdRec(r, "T1", "")), fwd(f, "T1"), fwd(o, "T1"),
			rega(s, sn, "@1"), fmtRec("open", s, fwdRec(r, "T2", "")), fwd(f, "T2"),
			rega(s, sn, "@0"), fmtRec("open", s, fwdRec(r, "T3", "")), fwd(f, "T3"), fwd(o, "T3"), end(s, "T3"), fwd(f, "T3")}))
		// 3. no address / empty address / address expired on the Redis clock / re-registered after expiry
		out = append(out, mk(b, "0,0,0", []string{
			fmtRec("reg", s, fwdRec(r, "T1", sn)), fwd(f, "T1"), rega(s, sn, ""), fwd(f, "T1"), rega(s, sn, "@1"), fwd(f, "T1"),
			"advs:29000", fmtRec("reg", s, fwdRec(r, "T2", sn)), fwd(f, "T2"), "advs:86371000", fmtRec("reg", s, fwdRec(r, "T3", sn)), fwd(f, "T3"),
			rega(o, sn, "@2"), fwd(f, "T3")}))
		// 4. two source nodes swap their addresses between tunnels
		out = append(out, mk(b, "0,0,0", []string{
			rega(s, sn, "@0"), rega(o, on, "@1"), fmtRec("reg", s, fwdRec(r, "A1", sn)), fmtRec("reg", o, fwdRec(r, "B1", on)),
			fwd(f, "A1"), fwd(f, "B1"), rega(s, sn, "@1"), rega(o, on, "@0"),
			fmtRec("reg", s, fwdRec(r, "A2", sn)), fmtRec("reg", o, fwdRec(r, "B2", on)), fwd(f, "A2"), fwd(f, "B2"), fwd(f, "A1")}))
	}
	return out
}

func forwardHistory(r *vc.Rand, b string) string {
	nodes := []string{"node-0", "node-1", "node-2"}
	eps := []string{"@0", "@1", "@2", "@3", "@0", "@1", ""}
	tids := []string{"T1", "T2", "T3", vc.Pick(r, idPool)}
	n := 8 + r.Intn(12)
	evs := []string{rega(0, "node-0", vc.Pick(r, eps)), rega(1, "node-1", vc.Pick(r, eps))}
	for k := 0; k < n; k++ {
		node := r.Intn(3)
		tid := vc.Pick(r, tids)
		switch r.Intn(16) {
		case 0, 1, 2:
			evs = append(evs, fmtRec("reg", node, fwdRec(r, tid, vc.Pick(r, nodes))))
		case 3:
			evs = append(evs, fmtRec("open", node, fwdRec(r, tid, "")))
		case 4, 5, 6, 7, 8:
			evs = append(evs, fwd(node, tid))
		case 9:
			evs = append(evs, look(node, tid))
		case 10:
			evs = append(evs, rem(node, tid))
		case 11:
			evs = append(evs, end(node, tid))
		case 12, 13, 14:
			evs = append(evs, rega(node, vc.Pick(r, nodes), vc.Pick(r, eps)))
		case 15:
			if r.Intn(3) == 0 {
				evs = append(evs, restart(node))
			} else if r.Bool() {
				evs = append(evs, geta(node, vc.Pick(r, nodes)))
			} else {
				evs = append(evs, fmt.Sprintf("advs:%d", vc.Pick(r, []int{1, 29999, 30000, 86399999, 86400000})))
			}
		}
	}
	return mk(b, "0,0,0", evs)
}

func poll(n int, tid string, k int) string { return fmt.Sprintf("poll:%d:%s:%d", n, hx(tid), k) }
func pend(n int, tid string) string        { return fmt.Sprintf("pend:%d:%s", n, hx(tid)) }
func restart(n int) string                 { return fmt.Sprintf("restart:%d", n) }

func pollScenarios(r *vc.Rand, b string) []string {
	s, f := r.Intn(3), 0
	f = (s + 1 + r.Intn(2)) % 3
	sn := fmt.Sprintf("node-%d", s)
	t1, t2 := fwdRec(r, "T1", sn), fwdRec(r, "T1", "node-x")
	return []string{
		// the registration lands between the 2nd and the 3rd poll
		mk(b, "0,0,0", []string{poll(f, "T1", 2), fmtRec("reg", s, t1), pend(f, "T1")}),
		// already waiting: the first poll returns it; nothing waiting: polls, then times out
		mk(b, "0,0,0", []string{fmtRec("reg", s, t1), poll(f, "T1", 1), pend(f, "T1"), poll(f, "T2", 1), pend(f, "T2")}),
		// registered and removed again before the next poll; re-registered with other data before the last one
		mk(b, "0,0,0", []string{poll(f, "T1", 1), fmtRec("reg", s, t1), rem(f, "T1"), poll(f, "T1", 1), fmtRec("reg", (s+1)%3, t2), pend(f, "T1")}),
		// the record lapses on the Redis clock between two polls; a new registration is found
		mk(b, "0,0,0", []string{fmtRec("reg", s, t1), "advs:30000", poll(f, "T1", 2), fmtRec("reg", s, t2), pend(f, "T1"), "advs:29999", poll(f, "T1", 1), "advs:1", pend(f, "T1")}),
		// a bridge opens between polls; it ends before the last poll
		mk(b, "0,0,0", []string{poll(f, "T1", 1), fmtRec("open", s, t1), poll(f, "T1", 1), end(s, "T1"), pend(f, "T1")}),
		// zero polls, empty id
		mk(b, "0,0,0", []string{fmtRec("reg", s, t1), poll(f, "T1", 0), pend(f, "T1"), poll(f, "", 1), pend(f, "")}),
		// crash-restart of the source node: its record keeps resolving from everywhere (and from itself), a new bridge for the id can open
		mk(b, "0,0,0", []string{fmtRec("open", s, t1), rega(s, sn, "@1"), restart(s), look(f, "T1"), look(s, "T1"), geta(s, sn), fwd(f, "T1"),
			fmtRec("open", s, t1), end(s, "T1"), look(f, "T1")}),
		// crash-restart of the looking-up / forwarding node: nothing it knew survives, everything in storage does
		mk(b, "0,0,0", []string{fmtRec("reg", s, t1), rega(s, sn, "@2"), look(f, "T1"), fwd(f, "T1"), restart(f), look(f, "T1"), rem(s, "T1"), look(f, "T1"),
			fmtRec("reg", s, t2), rega(s, "node-x", "@3"), restart(f), fwd(f, "T1"), poll(f, "T1", 1)}),
		// the node address is refreshed: its 24 h run from the last registration
		mk(b, "0,0,0", []string{rega(s, sn, "@0"), "advs:50000000", rega(s, sn, "@0"), "advs:50000000", geta(f, sn), "advs:36399999", geta(f, sn), "advs:1", geta(f, sn)}),
	}
}

func pollHistory(r *vc.Rand, b string) string {
	tids := []string{"T1", "T2", vc.Pick(r, idPool)}
	nodes := []string{"node-0", "node-1", "node-2"}
	n := 6 + r.Intn(9)
	var evs []string
	polls := 0
	for k := 0; k < n; k++ {
		node := r.Intn(3)
		tid := vc.Pick(r, tids)
		switch r.Intn(14) {
		case 0, 1, 2:
			evs = append(evs, fmtRec("reg", node, fwdRec(r, tid, vc.Pick(r, nodes))))
		case 3:
			evs = append(evs, fmtRec("open", node, fwdRec(r, tid, "")))
		case 4:
			evs = append(evs, rem(node, tid))
		case 5:
			evs = append(evs, end(node, tid))
		case 6, 7:
			if polls < 3 {
				polls++
				evs = append(evs, poll(node, tid, r.Intn(3)))
			}
		case 8, 9:
			if polls < 4 {
				polls++
				evs = append(evs, pend(node, tid))
			}
		case 10:
			evs = append(evs, restart(node))
		case 11:
			evs = append(evs, look(node, tid))
		case 12:
			evs = append(evs, fmt.Sprintf("advs:%d", vc.Pick(r, []int{1, 29999, 30000})))
		case 13:
			evs = append(evs, rega(node, vc.Pick(r, nodes), vc.Pick(r, []string{"@0", "@1", "@2"})), fwd(r.Intn(3), tid))
		}
	}
	return mk(b, "0,0,0", evs)
}

func slook(n int, tid string) string { return fmt.Sprintf("slook:%d:%s", n, hx(tid)) }
func send(n int, tid string) string  { return fmt.Sprintf("send:%d:%s", n, hx(tid)) }

func overlapScenarios(r *vc.Rand, b string) []string {
	s := r.Intn(3)
	f := (s + 1 + r.Intn(2)) % 3
	o := 3 - s - f
	sn := fmt.Sprintf("node-%d", s)
	t1, t2 := fwdRec(r, "T1", sn), fwdRec(r, "T1", fmt.Sprintf("node-%d", o))
	return []string{
		// served, reply held; the tunnel is removed; later lookups (same node, other node) must not resolve it; the late reply still carries it
		mk(b, "0,0,0", []string{fmtRec("reg", s, t1), slook(f, "T1"), rem(s, "T1"), look(f, "T1"), look(o, "T1"), look(f, "T1"), send(f, "T1"), look(f, "T1")}),
		// a miss in flight; the tunnel is registered; later lookups find it
		mk(b, "0,0,0", []string{slook(f, "T1"), fmtRec("reg", s, t1), look(f, "T1"), look(o, "T1"), send(f, "T1"), look(f, "T1")}),
		// the key lapses on the Redis clock while the reply is held
		mk(b, "0,0,0", []string{fmtRec("reg", s, t1), slook(f, "T1"), "advs:30000", look(f, "T1"), send(f, "T1"), look(f, "T1")}),
		// replaced by a registration from another node while in flight: later lookups see the new record, the late reply the old one
		mk(b, "0,0,0", []string{fmtRec("reg", s, t1), slook(f, "T1"), fmtRec("reg", o, t2), look(f, "T1"), send(f, "T1"), look(f, "T1"), look(s, "T1")}),
		// the bridge ends while the reply is held; the target that arrives afterwards is not forwarded
		mk(b, "0,0,0", []string{rega(s, sn, "@1"), fmtRec("open", s, t1), slook(f, "T1"), end(s, "T1"), fwd(f, "T1"), look(f, "T1"), send(f, "T1")}),
		// lookups in flight on two nodes, removed, re-registered
		mk(b, "0,0,0", []string{fmtRec("reg", s, t1), slook(f, "T1"), slook(o, "T1"), rem(f, "T1"), look(o, "T1"), fmtRec("reg", s, t2), send(o, "T1"), look(f, "T1"), send(f, "T1")}),
		// the polling lookup runs while another lookup of the node is in flight
		mk(b, "0,0,0", []string{fmtRec("reg", s, t1), slook(f, "T1"), rem(o, "T1"), poll(f, "T1", 1), fmtRec("reg", s, t2), pend(f, "T1"), send(f, "T1")}),
		// in flight across a crash of the node; nothing in flight; empty id
		mk(b, "0,0,0", []string{fmtRec("reg", s, t1), slook(f, "T1"), restart(f), send(f, "T1"), look(f, "T1"), send(o, "T9"), slook(f, ""), send(f, "")}),
	}
}

func overlapHistory(r *vc.Rand, b string) string {
	tids := []string{"T1", "T1", "T2", vc.Pick(r, idPool)}
	nodes := []string{"node-0", "node-1", "node-2"}
	n := 6 + r.Intn(10)
	var evs []string
	for k := 0; k < n; k++ {
		node := r.Intn(3)
		tid := vc.Pick(r, tids)
		switch r.Intn(15) {
		case 0, 1, 2:
			evs = append(evs, fmtRec("reg", node, fwdRec(r, tid, vc.Pick(r, nodes))))
		case 3:
			evs = append(evs, fmtRec("open", node, fwdRec(r, tid, "")))
		case 4, 5:
			evs = append(evs, rem(node, tid))
		case 6:
			evs = append(evs, end(node, tid))
		case 7, 8, 9:
			evs = append(evs, slook(node, tid))
		case 10, 11:
			evs = append(evs, send(node, tid))
		case 12, 13:
			evs = append(evs, look(node, tid))
		case 14:
			evs = append(evs, fmt.Sprintf("advs:%d", vc.Pick(r, []int{1, 29999, 30000})))
		}
	}
	// let every reply through in the end
	for _, t := range tids[1:] {
		for nd := 0; nd < 3; nd++ {
			evs = append(evs, send(nd, t))
		}
	}
	return mk(b, "0,0,0", evs)
}
