//go:build verif

package main

import (
	"fmt"
	"strings"

	vc "tunnox-core/internal/verifharness/common"
)

var backends = []string{"memory", "redis", "hybridRedis", "hybridLocal", "dblMap", "dblBytes"}

var idPool = []string{
	"t1", "t2", "tunnel-αβγ-隧道-😀", "a:b c\"\\<>&\u2028\u2029\x00\x1f\x7fé", "tunnox:node:x:addr", ":addr",
	"client-12345678-1700000000000000000", " ", "{\"tunnel_id\":\"x\"}",
}

var strPool = []string{
	"", "m", "mapping-001", "密钥/ключ/🔑", "a\"b\\c\n\r\t\b\f</script>&amp;", "\u0000\u0001", "10.0.0.1", "host.example.com",
	"::1", "\ufffd", "\U0010ffff", "null", "0", "{}",
}

var intPool = []int64{
	0, 1, -1, 80, 65535, 12345678, -80, 1 << 31, 1<<53 - 1, 1 << 53, 1<<53 + 1, 1<<53 + 2, 1<<53 + 3, -(1 << 53), -(1<<53 + 1),
	1<<62 + 1, 1<<63 - 1, -1 << 63, 1<<63 - 513, 1<<63 - 512, 4611686018427387905,
}

var smallInts = []int64{0, 1, 80, 443, 65535, 12345678, 87654321, -1}

func big(r *vc.Rand, n int) string {
	var sb strings.Builder
	al := []string{"a", "Z", "0", "é", "隧", "😀", "\"", "\\", " ", "<"}
	for sb.Len() < n {
		sb.WriteString(al[r.Intn(len(al))])
	}
	return sb.String()
}

func genRec(r *vc.Rand, tid string, exotic bool) rec {
	ints := smallInts
	if exotic {
		ints = intPool
	}
	return rec{tid: tid, mp: vc.Pick(r, strPool), sec: vc.Pick(r, strPool), src: vc.Pick(r, []string{"node-0", "node-1", "node-2", "", "节点"}),
		sc: vc.Pick(r, ints), tc: vc.Pick(r, ints), host: vc.Pick(r, strPool), port: int(vc.Pick(r, ints))}
}

func mk(backend, ttls string, evs []string) string {
	return backend + " " + ttls + " " + strings.Join(evs, " ")
}

func look(n int, tid string) string { return fmt.Sprintf("look:%d:%s", n, hx(tid)) }
func rem(n int, tid string) string  { return fmt.Sprintf("rem:%d:%s", n, hx(tid)) }
func end(n int, tid string) string  { return fmt.Sprintf("end:%d:%s", n, hx(tid)) }

// gen returns the untimed and the timed (real sleeps) cases.
func gen(r *vc.Rand, thorough bool) (untimed, timed []job) {
	add := func(cs, count string) { untimed = append(untimed, job{cs: cs, count: count}) }

	// --- 1. field fidelity: every record comes back unchanged from every node, on every backend
	nFid := 40
	if thorough {
		nFid = 600
	}
	for _, b := range backends {
		for i := 0; i < nFid; i++ {
			tid := vc.Pick(r, idPool)
			rc := genRec(r, tid, r.Intn(3) != 0)
			if i == 0 {
				rc.tid, rc.sec, rc.host = big(r, 65536), big(r, 65536), big(r, 70000)
			}
			if i == 1 {
				rc.tid = ""
			}
			evs := []string{fmtRec("reg", r.Intn(3), rc), look(0, rc.tid), look(1, rc.tid), look(2, rc.tid)}
			if r.Bool() {
				evs = append(evs, rem(r.Intn(3), rc.tid), look(r.Intn(3), rc.tid))
			}
			add(mk(b, "0,0,0", evs), "gen:fidelity")
		}
		// integers at the float64 / int64 boundaries, one by one
		for _, v := range intPool {
			rc := rec{tid: "t-int", mp: "m", sc: v, tc: -v, port: int(v)}
			add(mk(b, "0,0", []string{fmtRec("reg", 0, rc), look(1, "t-int")}), "gen:int-boundary")
		}
	}

	// --- 2. exhaustive small scope: every sequence over an alphabet of operations on two ids and two nodes
	a, bb := rec{tid: "A", mp: "mA", sec: "s", src: "node-0", sc: 1, tc: 2, host: "h", port: 80},
		rec{tid: "B", mp: "mB", sec: "", src: "node-1", sc: 3, tc: 4, host: "", port: 0}
	a2 := rec{tid: "A", mp: "mA2", sec: "s2", src: "node-1", sc: 5, tc: 6, host: "h2", port: 81}
	alpha := []string{fmtRec("reg", 0, a), fmtRec("reg", 1, a2), look(0, "A"), look(1, "A"), rem(1, "A"), "advs:30000",
		fmtRec("open", 0, a), end(0, "A"), fmtRec("reg", 1, bb), look(0, "B"), "advs:29999"}
	depth, width := 3, 8
	if thorough {
		depth, width = 4, 10
	}
	var rec_ func(prefix []string, d int)
	for _, b := range backends {
		rec_ = func(prefix []string, d int) {
			if len(prefix) > 0 {
				add(mk(b, "0,0", prefix), "gen:exhaustive")
			}
			if d == 0 {
				return
			}
			for _, s := range alpha[:width] {
				rec_(append(append([]string{}, prefix...), s), d-1)
			}
		}
		rec_(nil, depth)
	}

	// --- 3. random histories, Redis clock only (no real time passes)
	nHist := 700
	if thorough {
		nHist = 12000
	}
	nids := []string{"node-0", "node-1", "", "n:addr", "节点-2"}
	addrs := []string{"10.0.0.1:7000", "", "[::1]:9", "主机:1", "a"}
	for i := 0; i < nHist; i++ {
		b := vc.Pick(r, backends)
		tids := []string{vc.Pick(r, idPool), vc.Pick(r, idPool), "t3"}
		ttls := vc.Pick(r, []string{"0,0,0", "0,60000,2000", "5000,0,0"})
		n := 5 + r.Intn(10)
		var evs []string
		for k := 0; k < n; k++ {
			node := r.Intn(3)
			tid := vc.Pick(r, tids)
			switch r.Intn(13) {
			case 0, 1, 2:
				evs = append(evs, fmtRec("reg", node, genRec(r, tid, r.Intn(4) == 0)))
			case 3, 4, 5, 6:
				evs = append(evs, look(node, tid))
			case 7:
				evs = append(evs, rem(node, tid))
			case 8:
				evs = append(evs, fmtRec("open", node, genRec(r, tid, false)))
			case 9:
				evs = append(evs, end(node, tid))
			case 10:
				evs = append(evs, fmt.Sprintf("advs:%d", vc.Pick(r, []int{1, 1999, 2000, 4999, 5000, 29999, 30000, 59999, 60000, 86399999, 86400000})))
			case 11:
				evs = append(evs, fmt.Sprintf("rega:%d:%s:%s", node, hx(vc.Pick(r, nids)), hx(vc.Pick(r, addrs))))
			case 12:
				evs = append(evs, fmt.Sprintf("geta:%d:%s", node, hx(vc.Pick(r, nids))))
			}
		}
		add(mk(b, ttls, evs), "gen:history")
	}

	// --- 3b. key injectivity end to end: families of ids that share a long prefix and differ late, ids made of
	// the key separators / the key prefixes themselves, ids equal up to case, trailing NUL, unicode normal form;
	// three of them waiting at the same time on different nodes, every one must resolve to its own record, and
	// removing one must not touch the others.  The same for node ids (GetNodeAddress keys).
	for _, b := range backends {
		for _, fam := range idFamilies(r, thorough) {
			for _, cs := range collideCases(r, b, fam) {
				add(cs, "gen:id-family")
			}
		}
	}

	// --- 4. excluded points: strings that are not valid UTF-8 (JSON replaces the bytes)
	for _, b := range backends {
		bad := rec{tid: "t\xff\xfe", mp: "\xc3(", sec: "ok", src: "node-0", host: "\x80"}
		untimed = append(untimed, job{cs: "X " + mk(b, "0,0", []string{fmtRec("reg", 0, bad), look(1, bad.tid)}), count: "gen:excluded-invalid-utf8"})
	}

	// --- 5. real time.  Only the nodes' clock needs real sleeping (the Redis clock is FastForward).
	// ttl 300/400 ms; every lookup of an id is at most 0.5·ttl or at least 1.6·ttl after each
	// registration of that id (modelSafe), and the harness judges a run only if the measured
	// timeline confirms that with margin (timeline.go).
	addT := func(b, ttls string, evs []string, count string) {
		var tt []int
		for _, x := range strings.Split(ttls, ",") {
			v := 0
			fmt.Sscanf(x, "%d", &v)
			tt = append(tt, v)
		}
		if !modelSafe(tt, evs) {
			panic("generator produced a timed case without margins: " + mk(b, ttls, evs))
		}
		timed = append(timed, job{cs: mk(b, ttls, evs), count: count})
	}
	reps := 1
	if thorough {
		reps = 4
	}
	for _, b := range backends {
		for rep := 0; rep < reps; rep++ {
			rc := genRec(r, "T", false)
			n, m := r.Intn(2), r.Intn(3)
			// the nodes' clock passes the waiting period while the Redis key is still there: explicit check, then the record is gone
			addT(b, "300,300,0", []string{fmtRec("reg", n, rc), look(m, "T"), "advw:500", look(m, "T"), look((m+1)%3, "T")}, "gen:timed-explicit-check")
			// everything ages together: live at 0.5·ttl, lapsed at 650 ms
			addT(b, "300,300,0", []string{fmtRec("reg", n, rc), "adv:150", look(m, "T"), "adv:500", look(m, "T")}, "gen:timed-lapse")
			addT(b, "400,400,0", []string{fmtRec("reg", n, rc), "adv:100", look(m, "T"), "adv:100", look((m+1)%3, "T"), "adv:500", look(m, "T")}, "gen:timed-lapse")
			// re-registration after the lapse starts a new waiting period (and a replayed id does not see the old data)
			rc2 := genRec(r, "T", false)
			addT(b, "300,300,0", []string{fmtRec("reg", n, rc), "adv:500", look(m, "T"), fmtRec("reg", 1-n, rc2), look(m, "T"), "adv:150", look(m, "T"), "advw:500", look(m, "T")}, "gen:timed-reregister")
			// bridge opened, never served, waiting period lapses; the bridge end afterwards is harmless
			addT(b, "300,300,0", []string{fmtRec("open", n, rc), look(m, "T"), "adv:500", look(m, "T"), end(n, "T"), look(m, "T")}, "gen:timed-open")
		}
	}
	nTimed := 120
	if thorough {
		nTimed = 2400
	}
	for i := 0; i < nTimed; {
		b := vc.Pick(r, backends)
		ttls := vc.Pick(r, []string{"300,400,0", "400,300,300", "300,300,300", "0,300,400"})
		tids := []string{"T", "T", vc.Pick(r, idPool)}
		n := 5 + r.Intn(7)
		evs := []string{fmtRec("reg", r.Intn(3), genRec(r, "T", false))}
		slept := 0
		for k := 0; k < n; k++ {
			node := r.Intn(3)
			tid := vc.Pick(r, tids)
			switch r.Intn(14) {
			case 0, 1:
				evs = append(evs, fmtRec("reg", node, genRec(r, tid, false)))
			case 2, 3, 4, 5:
				evs = append(evs, look(node, tid))
			case 6:
				evs = append(evs, rem(node, tid))
			case 7:
				evs = append(evs, fmtRec("open", node, genRec(r, tid, false)))
			case 8, 9, 10, 11:
				if slept < 1500 {
					d := vc.Pick(r, []int{100, 150, 650, 700})
					slept += d
					evs = append(evs, fmt.Sprintf("%s:%d", vc.Pick(r, []string{"adv", "advw", "advw"}), d), look(node, tid))
				}
			case 12:
				evs = append(evs, fmt.Sprintf("advs:%d", vc.Pick(r, []int{100, 299, 300, 400, 30000})))
			case 13:
				evs = append(evs, end(node, tid))
			}
		}
		if slept == 0 {
			evs = append(evs, "advw:700", look(r.Intn(3), "T"))
		}
		var tt []int
		for _, x := range strings.Split(ttls, ",") {
			v := 0
			fmt.Sscanf(x, "%d", &v)
			tt = append(tt, v)
		}
		if !modelSafe(tt, evs) {
			continue // a lookup would fall between 0.5·ttl and 1.6·ttl after a registration: draw again
		}
		addT(b, ttls, evs, "gen:timed")
		i++
	}
	return untimed, timed
}

// family of three ids of length n that differ only at byte position pos
func famAt(r *vc.Rand, n, pos int) []string {
	base := make([]byte, n)
	al := "abcdefghijklmnopqrstuvwxyz0123456789-"
	for i := range base {
		base[i] = al[r.Intn(len(al))]
	}
	if n > 12 {
		copy(base, "server-udp-")
	}
	out := make([]string, 3)
	for k := 0; k < 3; k++ {
		x := append([]byte{}, base...)
		x[pos] = "XYZ"[k]
		out[k] = string(x)
	}
	return out
}

func idFamilies(r *vc.Rand, thorough bool) [][]string {
	fams := [][]string{
		{"", "\x00", "\x00\x00"},
		{"t", "t\x00", "t "},
		{"Tunnel-A", "tunnel-a", "TUNNEL-A"},
		{"caf\u00e9", "cafe\u0301", "cafe"},                // NFC / NFD / stripped
		{"\u212b", "\u00c5", "A\u030a"},                    // Angstrom sign / A-ring / decomposed
		{"tunnox:tunnel_waiting:", "tunnox:tunnel_waiting:tunnox:tunnel_waiting:", "tunnox:node:"},
		{":addr", "x:addr", "tunnox:node:x:addr"},
		{"a:b", "a|b", "a:b:"},
		{"a", "a:", ":a"},
		{"|", "||", ":"},
	}
	lens := []int{1, 40, 106, 107, 128, 129, 140, 255, 1024}
	poss := []int{0, 100, 106, 117, 128}
	if thorough {
		poss = []int{0, 100, 105, 106, 107, 110, 117, 127, 128, 130}
	}
	if thorough {
		lens = []int{1, 2, 40, 105, 106, 107, 108, 109, 110, 120, 127, 128, 129, 130, 131, 139, 140, 255, 256, 1024, 4096}
	} else if r.Bool() {
		lens = append(lens, 4096)
	}
	for _, n := range lens {
		seen := map[int]bool{}
		for _, pos := range append(append([]int{}, poss...), n/2, n-2, n-1) {
			if pos < 0 || pos >= n || seen[pos] {
				continue
			}
			seen[pos] = true
			fams = append(fams, famAt(r, n, pos))
		}
		// one id is a proper prefix of the next
		if n > 3 {
			f := famAt(r, n, n-1)
			fams = append(fams, []string{f[0][:n-1], f[0], f[0] + "x"})
		}
	}
	return fams
}

func collideCases(r *vc.Rand, b string, fam []string) []string {
	recs := make([]rec, 3)
	for k := range recs {
		recs[k] = rec{tid: fam[k], mp: fmt.Sprintf("mapping-%d", k), sec: fmt.Sprintf("secret-%d", k), src: fmt.Sprintf("node-%d", k),
			sc: int64(100 + k), tc: int64(200 + k), host: fmt.Sprintf("10.0.0.%d", k+1), port: 8000 + k}
	}
	p := r.Intn(3) // rotation: which node looks up whom
	// all three waiting together; cross-node lookups; one ends, the others stay; a replayed id of the ended one
	tun := []string{
		fmtRec("reg", 0, recs[0]), fmtRec("reg", 1, recs[1]), look((1+p)%3, fam[0]), fmtRec("reg", 2, recs[2]),
		look((2+p)%3, fam[0]), look((0+p)%3, fam[1]), look((1+p)%3, fam[2]),
		rem(2, fam[1]), look(0, fam[0]), look(0, fam[1]), look(1, fam[2]),
		rem(0, fam[2]), look(2, fam[0]), look(1, fam[1]), look(1, fam[2]),
		fmtRec("reg", 1, recs[2]), look(0, fam[1]), look(2, fam[2]), look(1, fam[0]),
	}
	// the same through the session layer: three bridges on three nodes, the second one ends
	ses := []string{
		fmtRec("open", 0, recs[0]), fmtRec("open", 1, recs[1]), fmtRec("open", 2, recs[2]),
		look(1, fam[0]), look(2, fam[1]), look(0, fam[2]), end(1, fam[1]), look(2, fam[0]), look(0, fam[1]), look(1, fam[2]),
	}
	// node ids
	adr := []string{}
	for k := 0; k < 3; k++ {
		adr = append(adr, fmt.Sprintf("rega:%d:%s:%s", k, hx(fam[k]), hx(fmt.Sprintf("10.1.0.%d:7000", k+1))))
	}
	for k := 0; k < 3; k++ {
		adr = append(adr, fmt.Sprintf("geta:%d:%s", (k+1+p)%3, hx(fam[k])))
	}
	adr = append(adr, fmt.Sprintf("rega:%d:%s:%s", 2, hx(fam[0]), hx("10.9.9.9:1")), fmt.Sprintf("geta:0:%s", hx(fam[0])),
		fmt.Sprintf("geta:0:%s", hx(fam[1])), fmt.Sprintf("geta:1:%s", hx(fam[2])),
		// ids and node ids never meet
		fmtRec("reg", 0, recs[0]), fmt.Sprintf("geta:1:%s", hx(fam[0])), look(2, fam[0]))
	return []string{mk(b, "0,0,0", tun), mk(b, "0,0,0", ses), mk(b, "0,0,0", adr)}
}
