//go:build verif

package main

import (
	"fmt"
	"strings"

	"tunnox-core/internal/core/idgen"
	"tunnox-core/internal/core/node"
	rnd "tunnox-core/internal/utils/random"
	"tunnox-core/internal/verifharness/common"
)

type thrSpec struct {
	inst int
	ops  []string
}

func b01(b bool) int {
	if b {
		return 1
	}
	return 0
}

func mkCase(free bool, store string, cas bool, ttl int64, pre []preEnt, thr []thrSpec, sched [][2]int64) string {
	var sb strings.Builder
	if free {
		sb.WriteString("free ")
	}
	fmt.Fprintf(&sb, "st %s cas %d ttl %d pre %d", store, b01(cas), ttl, len(pre))
	for _, p := range pre {
		fmt.Fprintf(&sb, " %d %d %d", p.kind, p.id, p.exp)
	}
	fmt.Fprintf(&sb, " thr %d", len(thr))
	for _, t := range thr {
		fmt.Fprintf(&sb, " %d %d", t.inst, len(t.ops))
		for _, o := range t.ops {
			sb.WriteString(" " + o)
		}
	}
	fmt.Fprintf(&sb, " sch %d", len(sched))
	for _, s := range sched {
		fmt.Fprintf(&sb, " %d %d", s[0], s[1])
	}
	return sb.String()
}

func genOp(kind int, pat []uint64) string {
	s := fmt.Sprintf("g %d %d", kind, len(pat))
	for _, p := range pat {
		s += fmt.Sprintf(" %d", p)
	}
	return s
}

// id as it appears in the store for candidate value p of `kind`
func candID(kind int, p uint64) uint64 {
	if kind == 0 {
		return clientCand(p)
	}
	return p
}

var rndCharset = rnd.Charset

var defTTL = idgen.DefaultIDTTL.Milliseconds()

func tickable(store string) bool { return store == "dbl" || store == "red" || store == "hyr" }

// ---- A: exhaustive small scope — 2 threads, candidate space of 3 ids, every
// pattern of pre-existing ids, every schedule of the given length.
func genExhaustive(emit func(string)) {
	pats := [][]uint64{{1}, {1, 2}, {2, 1}, {1, 2, 3}}
	for preMask := 0; preMask < 8; preMask++ {
		var pre []preEnt
		for i := 0; i < 3; i++ {
			if preMask>>i&1 == 1 {
				pre = append(pre, preEnt{0, clientCand(uint64(i + 1)), 0})
			}
		}
		for _, p0 := range pats {
			for _, p1 := range pats {
				for m := 0; m < 16; m++ {
					var sch [][2]int64
					for j := 0; j < 4; j++ {
						sch = append(sch, [2]int64{0, int64(m >> j & 1)})
					}
					emit(mkCase(false, "dbl", true, 1000, pre,
						[]thrSpec{{0, []string{genOp(0, p0)}}, {1, []string{genOp(0, p1)}}}, sch))
				}
			}
		}
	}
	// generate / release-own / generate again against a second thread, every schedule of length 5
	pats2 := [][]uint64{{1}, {1, 2}, {2, 1}}
	for preMask := 0; preMask < 4; preMask++ {
		var pre []preEnt
		for i := 0; i < 2; i++ {
			if preMask>>i&1 == 1 {
				pre = append(pre, preEnt{2, uint64(i + 1), 0})
			}
		}
		for _, p0 := range pats2 {
			for _, p1 := range pats2 {
				for m := 0; m < 32; m++ {
					var sch [][2]int64
					for j := 0; j < 5; j++ {
						sch = append(sch, [2]int64{0, int64(m >> j & 1)})
					}
					emit(mkCase(false, "dbl", true, 1000, pre,
						[]thrSpec{{0, []string{genOp(2, p0), "o", genOp(2, p0)}}, {1, []string{genOp(2, p1)}}}, sch))
				}
			}
		}
	}
}

// boundary candidates: raw 64-bit values at the edges of random.Int64's modulo (0, range-1 -> ClientIDMax,
// range -> wraps to ClientIDMin, 2^63, 2^64-1) and the smallest / largest 8-character ids
func boundaryCand(r *common.Rand, kind int) uint64 {
	if kind == 0 {
		rng := uint64(idgen.ClientIDMax - idgen.ClientIDMin + 1)
		return common.Pick(r, []uint64{0, rng - 1, rng, 1 << 63, ^uint64(0), ^uint64(0) - ^uint64(0)%rng})
	}
	n := uint64(len(rndCharset))
	top := uint64(1)
	for i := 0; i < idgen.RandomPartLength; i++ {
		top *= n
	}
	return common.Pick(r, []uint64{0, top - 1, n - 1, top - n})
}

// ---- B: random structured histories
func genRandom(r *common.Rand, n int, emit func(string), stores []string, cas bool, maxThreads int, oneThreadPerInst bool, tag string) {
	for c := 0; c < n; c++ {
		store := common.Pick(r, stores)
		ttl := common.Pick(r, []int64{1000, 5000, defTTL})
		if !tickable(store) {
			ttl = common.Pick(r, []int64{3600000, defTTL})
		}
		kinds := []int{r.Intn(4)}
		if r.Intn(3) == 0 {
			kinds = append(kinds, r.Intn(4))
		}
		space := 2 + r.Intn(3) // ids 1..space per kind
		var pre []preEnt
		for _, k := range kinds {
			for i := 1; i <= space; i++ {
				if r.Intn(3) == 0 {
					exp := common.Pick(r, []int64{0, 500, ttl})
					if !tickable(store) {
						exp = common.Pick(r, []int64{0, 3600000})
					}
					pre = append(pre, preEnt{k, candID(k, uint64(i)), exp})
				}
			}
		}
		nt := 1 + r.Intn(maxThreads)
		var thr []thrSpec
		steps := 0
		for t := 0; t < nt; t++ {
			ts := thrSpec{inst: r.Intn(3)}
			if oneThreadPerInst {
				ts.inst = t
			}
			no := 1 + r.Intn(4)
			for o := 0; o < no; o++ {
				k := common.Pick(r, kinds)
				switch x := r.Intn(10); {
				case x < 6:
					pl := 1 + r.Intn(4)
					var pat []uint64
					for i := 0; i < pl; i++ {
						v := uint64(1 + r.Intn(space))
						if r.Intn(8) == 0 {
							v = boundaryCand(r, k)
						}
						if k == 0 && r.Intn(4) == 0 {
							// same id through the modulo of random.Int64
							v += uint64(idgen.ClientIDMax-idgen.ClientIDMin+1) * uint64(1+r.Intn(1000))
						}
						pat = append(pat, v)
					}
					ts.ops = append(ts.ops, genOp(k, pat))
					steps += 3
				case x < 8:
					ts.ops = append(ts.ops, fmt.Sprintf("r %d %d", k, candID(k, uint64(1+r.Intn(space)))))
					steps++
				default:
					if r.Intn(3) == 0 {
						ts.ops = append(ts.ops, "c")
					} else {
						ts.ops = append(ts.ops, "o")
					}
					steps++
				}
			}
			thr = append(thr, ts)
		}
		ns := 1 + r.Intn(steps+3)
		var sch [][2]int64
		for i := 0; i < ns; i++ {
			if tickable(store) && r.Intn(10) == 0 {
				sch = append(sch, [2]int64{1, common.Pick(r, []int64{1, 499, 500, 501, ttl - 1, ttl, ttl + 1})})
			} else {
				sch = append(sch, [2]int64{0, int64(r.Intn(nt))})
			}
		}
		if r.Intn(3) == 0 {
			injectFault(r, sch)
		}
		emit(tag + mkCase(false, store, cas, ttl, pre, thr, sch))
	}
}

// injectFault turns one step of the schedule into a step whose storage call fails.
func injectFault(r *common.Rand, sch [][2]int64) {
	var idx []int
	for i, s := range sch {
		if s[0] == 0 {
			idx = append(idx, i)
		}
	}
	if len(idx) > 0 {
		sch[common.Pick(r, idx)][0] = 2
	}
}

// withFaultAt copies the schedule with step p faulted.
func withFaultAt(sch [][2]int64, p int) [][2]int64 {
	c := append([][2]int64(nil), sch...)
	if c[p][0] == 0 {
		c[p][0] = 2
	}
	return c
}

// ---- single storage fault, exhaustive for small scopes: every fault position x every schedule x
// the multi-node configurations (each node its own hybrid store over one shared tier; the fault is a
// transient error of the shared tier on SetNX / Set / Delete / Exists)
func genFaultExhaustive(emit func(string)) {
	stores := []string{"hyr", "hyb", "dbl", "red", "mem"}
	// node ids: two/three nodes claim, renew, release
	nodeProgs := [][]thrSpec{
		{{0, []string{"g 9 0", "w", "o"}}, {1, []string{"g 9 0", "w"}}},
		{{0, []string{"g 9 0"}}, {1, []string{"g 9 0", "o", "g 9 0"}}},
		{{0, []string{"g 9 0", "o"}}, {1, []string{"g 9 0"}}, {2, []string{"g 9 0"}}},
	}
	for pi, progs := range nodeProgs {
		nt := len(progs)
		L := 5
		if nt == 3 {
			L = 4
		}
		total := 1
		for i := 0; i < L; i++ {
			total *= nt
		}
		for m := 0; m < total; m++ {
			var sch [][2]int64
			x := m
			for j := 0; j < L; j++ {
				sch = append(sch, [2]int64{0, int64(x % nt)})
				x /= nt
			}
			for p := 0; p < L; p++ {
				store := stores[(m+p+pi)%2] // hyr / hyb: the multi-node hybrid configurations
				if (m+p)%7 == 0 {
					store = stores[2+(m+p+pi)%3]
				}
				var pre []preEnt
				if m%3 == 1 {
					pre = []preEnt{{nodeKind, 1, 0}}
				}
				emit(mkCase(false, store, true, defTTL, pre, progs, withFaultAt(sch, p)))
			}
		}
	}
	// generated ids: two instances, 2 ids, every pre-existing subset, every schedule of length 4
	pats := [][]uint64{{1}, {1, 2}, {2, 1}}
	n := 0
	for preMask := 0; preMask < 4; preMask++ {
		for _, p0 := range pats {
			for _, p1 := range pats {
				for m := 0; m < 16; m++ {
					var sch [][2]int64
					for j := 0; j < 4; j++ {
						sch = append(sch, [2]int64{0, int64(m >> j & 1)})
					}
					for p := 0; p < 4; p++ {
						n++
						kind := n % 4
						var pre []preEnt
						for i := 0; i < 2; i++ {
							if preMask>>i&1 == 1 {
								pre = append(pre, preEnt{kind, candID(kind, uint64(i+1)), 0})
							}
						}
						store := stores[n%5]
						emit(mkCase(false, store, true, defTTL, pre,
							[]thrSpec{{0, []string{genOp(kind, p0), "o"}}, {1, []string{genOp(kind, p1)}}}, withFaultAt(sch, p)))
					}
				}
			}
		}
	}
	// fallback path, one instance: fault on Exists and on Set
	for _, pat := range pats {
		for p := 0; p < 4; p++ {
			sch := [][2]int64{{0, 0}, {0, 0}, {0, 0}, {0, 0}}
			emit(mkCase(false, "dbl", false, 1000, []preEnt{{2, 2, 0}}, []thrSpec{{0, []string{genOp(2, pat), "o"}}}, withFaultAt(sch, p)))
		}
	}
}

// ---- C: exhaustion — every candidate taken for MaxAttempts attempts
func genExhaustion(r *common.Rand, n int, emit func(string)) {
	for c := 0; c < n; c++ {
		store := common.Pick(r, []string{"dbl", "dbl", "mem", "red", "hyr", "hy1"})
		kind := r.Intn(4)
		space := 1 + r.Intn(3)
		var pre []preEnt
		var pat []uint64
		for i := 1; i <= space; i++ {
			pre = append(pre, preEnt{kind, candID(kind, uint64(i)), 0})
			pat = append(pat, uint64(i))
		}
		thr := []thrSpec{{0, []string{genOp(kind, pat), genOp(kind, pat)}}}
		var sch [][2]int64
		variant := c % 4
		total := idgen.MaxAttempts
		switch variant {
		case 1:
			total = idgen.MaxAttempts - 1 // one attempt short: no result yet
		case 2:
			total = idgen.MaxAttempts + 5 // exhausted, second call already running
		}
		relAt := -1
		if variant == 3 {
			// another caller releases a taken id while the generator is retrying
			thr = append(thr, thrSpec{1, []string{fmt.Sprintf("r %d %d", kind, candID(kind, uint64(1+r.Intn(space))))}})
			relAt = r.Intn(idgen.MaxAttempts)
		}
		for i := 0; i < total; i++ {
			if i == relAt {
				sch = append(sch, [2]int64{0, 1})
			}
			sch = append(sch, [2]int64{0, 0})
		}
		emit(mkCase(false, store, true, defTTL, pre, thr, sch))
	}
}

// ---- D: fallback path (store without SetNX)
func genFallback(r *common.Rand, n int, emit func(string)) {
	// the two-instance interleaving: both check, both set
	for _, kind := range []int{0, 2} {
		emit("K:fallback-multi-instance " + mkCase(false, "dbl", false, 1000, nil,
			[]thrSpec{{0, []string{genOp(kind, []uint64{1})}}, {1, []string{genOp(kind, []uint64{1})}}},
			[][2]int64{{0, 0}, {0, 1}, {0, 0}, {0, 1}}))
	}
	genRandom(r, n, emit, []string{"dbl"}, false, 1, true, "")
	genRandom(r, n, emit, []string{"dbl"}, false, 3, true, "K:fallback-multi-instance ")
}

// ---- free-running contention (no gates): real parallelism, only Generate calls
func genFree(r *common.Rand, n int, emit func(string)) {
	for c := 0; c < n; c++ {
		store := common.Pick(r, []string{"dbl", "dbl", "mem", "red", "hyr", "hyb", "hy1"})
		cas := true
		sameInst := r.Bool()
		if store == "dbl" && r.Bool() {
			cas = false
			sameInst = true // the fallback path promises uniqueness for one instance only
		}
		kind := r.Intn(4)
		space := 2 + r.Intn(5)
		nt := 2 + r.Intn(7)
		var thr []thrSpec
		for t := 0; t < nt; t++ {
			inst := t
			if sameInst {
				inst = 0
			}
			var ops []string
			for o := 0; o < 1+r.Intn(3); o++ {
				var pat []uint64
				for i := 0; i < 1+r.Intn(space); i++ {
					pat = append(pat, uint64(1+r.Intn(space)))
				}
				ops = append(ops, genOp(kind, pat))
			}
			thr = append(thr, thrSpec{inst, ops})
		}
		var pre []preEnt
		if r.Bool() {
			pre = append(pre, preEnt{kind, candID(kind, uint64(1+r.Intn(space))), 0})
		}
		emit(mkCase(true, store, cas, defTTL, pre, thr, nil))
	}
}

// ---- free-running contention over pre-existing markers in the three states {absent, live,
// expired-not-yet-swept}: N in {2,4,8} allocators / generators are released behind a spin barrier onto
// the same tiny candidate space of every real store kind.  Expired markers are written with a 1 ms
// TTL and the case waits 3 ms (really, on the memory-backed stores, whose deletion is lazy).
func genFreeStates(r *common.Rand, rounds int, emit func(string)) {
	stores := []string{"mem", "hyb", "hy1", "hyb", "red", "hyr", "dbl", "mem"}
	for c := 0; c < rounds; c++ {
		store := stores[c%len(stores)]
		nt := []int{2, 4, 8}[c%3]
		node := c%2 == 0
		kind := nodeKind
		if !node {
			kind = r.Intn(4)
		}
		space := 1 + r.Intn(6)
		if !node {
			space = 4 + r.Intn(9)
		}
		var pre []preEnt
		for i := 1; i <= space; i++ {
			switch st := (c/6 + i) % 6; st { // state of candidate i: mostly expired, also live / absent
			case 0:
				pre = append(pre, preEnt{kind, candID(kind, uint64(i)), 0}) // live
			case 1: // absent
			default:
				pre = append(pre, preEnt{kind, candID(kind, uint64(i)), 1}) // expired after the wait
			}
		}
		var thr []thrSpec
		for t := 0; t < nt; t++ {
			inst := t
			if !node && r.Intn(3) == 0 {
				inst = 0
			}
			if node {
				thr = append(thr, thrSpec{inst, []string{"g 9 0"}})
				continue
			}
			// every thread walks the contended candidates in the same order; a loser falls back to a
			// private id at once, so the threads stay in step and every candidate is a fresh race
			var ops []string
			for i := 1; i <= space; i++ {
				ops = append(ops, genOp(kind, []uint64{uint64(i), uint64(1000 + 100*t + i)}))
			}
			thr = append(thr, thrSpec{inst, ops})
		}
		emit(mkCase(true, store, true, defTTL, pre, thr, [][2]int64{{1, 3}}))
	}
}

// ---- release clause: an allocator that released its id is released again (deferred shutdown
// clean-up) while other nodes claim; every schedule of length 6 over three nodes, every store kind.
func genDoubleRelease(emit func(string)) {
	stores := []string{"dbl", "mem", "hyb", "hyr", "red"}
	progs := [][]thrSpec{
		{{0, []string{"g 9 0", "o", "o"}}, {1, []string{"g 9 0"}}, {2, []string{"g 9 0"}}},
		{{0, []string{"g 9 0", "o", "o", "g 9 0"}}, {1, []string{"g 9 0", "o", "o"}}, {2, []string{"g 9 0", "w"}}},
		// ticks of the heartbeat before and after the Release (it must stop with the Release)
		{{0, []string{"g 9 0", "o", "w"}}, {1, []string{"g 9 0", "w", "o", "w"}}, {2, []string{"g 9 0"}}},
	}
	for pi, pr := range progs {
		for m := 0; m < 729; m++ {
			var sch [][2]int64
			x := m
			for j := 0; j < 6; j++ {
				sch = append(sch, [2]int64{0, int64(x % 3)})
				x /= 3
			}
			emit(mkCase(false, stores[(m+pi)%len(stores)], true, defTTL, nil, pr, sch))
		}
	}
}

// ---- expiry GC passes racing with claims of ids whose previous marker has lapsed, then further
// claimants.  Gated (the pass is one step): every schedule of length 5 over two claimants and a
// sweeper, on the tickable stores.  Free-running: N claimants and 1-2 sweepers released together onto
// expired-unswept markers of the real memory-backed stores (claim store = memory, hybrid shared tier,
// single-node hybrid).
func genSweep(r *common.Rand, rounds int, emit func(string)) {
	gated := []string{"dbl", "red", "hyr"}
	for pi, progs := range [][]thrSpec{
		{{0, []string{"g 9 0"}}, {1, []string{"g 9 0"}}, {2, []string{"c", "c"}}},
		{{0, []string{genOp(2, []uint64{1, 2})}}, {1, []string{genOp(2, []uint64{1, 2}), "o", "c"}}, {2, []string{"c", genOp(2, []uint64{1, 3})}}},
	} {
		kind := nodeKind
		if pi == 1 {
			kind = 2
		}
		for m := 0; m < 243; m++ {
			sch := [][2]int64{{1, 3}}
			x := m
			for j := 0; j < 5; j++ {
				sch = append(sch, [2]int64{0, int64(x % 3)})
				x /= 3
			}
			pre := []preEnt{{kind, 1, 1}}
			if m%2 == 1 {
				pre = append(pre, preEnt{kind, 2, 1})
			}
			emit(mkCase(false, gated[(m+pi)%3], true, defTTL, pre, progs, sch))
		}
	}
	stores := []string{"mem", "hyb", "hy1", "mem", "hyb", "hy1", "red", "hyr", "dbl"}
	for c := 0; c < rounds; c++ {
		store := stores[c%len(stores)]
		nt := []int{3, 4, 8}[c%3]
		node := c%2 == 0
		kind := nodeKind
		if !node {
			kind = r.Intn(4)
		}
		space := 2 + r.Intn(5)
		var pre []preEnt
		for i := 1; i <= space; i++ {
			pre = append(pre, preEnt{kind, candID(kind, uint64(i)), 1})
		}
		var thr []thrSpec
		for t := 0; t < nt; t++ {
			if node {
				thr = append(thr, thrSpec{t, []string{"g 9 0"}})
				continue
			}
			var ops []string
			for i := 1; i <= space; i++ {
				ops = append(ops, genOp(kind, []uint64{uint64(i), uint64(1000 + 100*t + i)}))
			}
			thr = append(thr, thrSpec{t, ops})
		}
		for sw := 0; sw < 1+c%2; sw++ {
			thr = append(thr, thrSpec{nt + sw, []string{"c", "c", "c"}})
		}
		emit(mkCase(true, store, true, defTTL, pre, thr, [][2]int64{{1, 3}}))
	}
}

// ---- E: node id allocation, renewal, release, lease expiry
func genNode(r *common.Rand, n int, emit func(string)) {
	lock := node.NodeIDLockTTL.Milliseconds()
	for c := 0; c < n; c++ {
		store := common.Pick(r, []string{"hyr", "hyr", "red", "dbl", "mem", "hyb", "hy1"})
		var pre []preEnt
		for i := 1; i <= 3; i++ {
			if r.Intn(3) == 0 {
				exp := common.Pick(r, []int64{0, 30000, lock})
				if !tickable(store) {
					exp = 0
				}
				pre = append(pre, preEnt{nodeKind, uint64(i), exp})
			}
		}
		nt := 1 + r.Intn(4)
		var thr []thrSpec
		steps := 0
		for t := 0; t < nt; t++ {
			ts := thrSpec{inst: t}
			for o := 0; o < 1+r.Intn(5); o++ {
				switch x := r.Intn(10); {
				case x < 4:
					ts.ops = append(ts.ops, "g 9 0")
					steps += 3
				case x < 8:
					ts.ops = append(ts.ops, "w")
					steps++
				default:
					ts.ops = append(ts.ops, "o")
					steps++
				}
			}
			if r.Bool() {
				ts.ops = append([]string{"g 9 0"}, ts.ops...)
				steps += 3
			}
			thr = append(thr, ts)
		}
		var sch [][2]int64
		for i := 0; i < 1+r.Intn(steps+3); i++ {
			if tickable(store) && r.Intn(4) == 0 {
				sch = append(sch, [2]int64{1, common.Pick(r, []int64{30000, 45000, lock - 1, lock, lock + 1, 60000})})
			} else {
				sch = append(sch, [2]int64{0, int64(r.Intn(nt))})
			}
		}
		if r.Intn(3) == 0 {
			injectFault(r, sch)
		}
		emit(mkCase(false, store, true, defTTL, pre, thr, sch))
	}
	// the heartbeat discipline: claim, then renew every 30 s for a long time while another node keeps trying
	// on every backend (the stores with a real clock get the same programme without the waits)
	for _, store := range []string{"hyr", "red", "dbl", "hyb", "hy1", "mem"} {
		var ops0 []string
		ops0 = append(ops0, "g 9 0")
		var ops1 []string
		var sch [][2]int64
		sch = append(sch, [2]int64{0, 0})
		for i := 0; i < 8; i++ {
			ops0 = append(ops0, "w")
			ops1 = append(ops1, "g 9 0", "o")
			if tickable(store) {
				sch = append(sch, [2]int64{1, 30000})
			}
			sch = append(sch, [2]int64{0, 0}, [2]int64{0, 1}, [2]int64{0, 1}, [2]int64{0, 1})
		}
		emit(mkCase(false, store, true, defTTL, nil, []thrSpec{{0, ops0}, {1, ops1}}, sch))
		// two holders renewing in turn, a third node arriving after 4 lease periods
		var a, b []string
		a, b = append(a, "g 9 0"), append(b, "g 9 0")
		sch2 := [][2]int64{{0, 0}, {0, 1}, {0, 1}}
		for i := 0; i < 12; i++ {
			a, b = append(a, "w"), append(b, "w")
			if tickable(store) {
				sch2 = append(sch2, [2]int64{1, 30000})
			}
			sch2 = append(sch2, [2]int64{0, 0}, [2]int64{0, 1})
		}
		sch2 = append(sch2, [2]int64{0, 2}, [2]int64{0, 2}, [2]int64{0, 2})
		emit(mkCase(false, store, true, defTTL, nil, []thrSpec{{0, a}, {1, b}, {2, []string{"g 9 0"}}}, sch2))
	}
}

func genNodeExhaustion(emit func(string)) {
	var pre []preEnt
	for i := node.NodeIDMin; i <= node.NodeIDMax; i++ {
		pre = append(pre, preEnt{nodeKind, uint64(i), 0})
	}
	var sch [][2]int64
	for i := 0; i < node.NodeIDMax-node.NodeIDMin+1; i++ {
		sch = append(sch, [2]int64{0, 0})
	}
	emit(mkCase(false, "dbl", true, defTTL, pre, []thrSpec{{0, []string{"g 9 0"}}}, sch))
	// one slot free in the middle
	pre2 := append([]preEnt(nil), pre[:499]...)
	pre2 = append(pre2, pre[500:]...)
	sch2 := append([][2]int64(nil), sch...)
	for range sch {
		sch2 = append(sch2, [2]int64{0, 1})
	}
	emit(mkCase(false, "dbl", true, defTTL, pre2, []thrSpec{{0, []string{"g 9 0"}}, {1, []string{"g 9 0"}}}, sch2))
}

// thorough only: 3 threads, 2 ids, every subset of pre-existing ids, every schedule of length 5
func genExhaustive3(emit func(string)) {
	pats := [][]uint64{{1}, {1, 2}, {2, 1}}
	for preMask := 0; preMask < 4; preMask++ {
		var pre []preEnt
		for i := 0; i < 2; i++ {
			if preMask>>i&1 == 1 {
				pre = append(pre, preEnt{3, uint64(i + 1), 0})
			}
		}
		for _, p0 := range pats {
			for _, p1 := range pats {
				for _, p2 := range pats {
					for m := 0; m < 243; m++ {
						var sch [][2]int64
						x := m
						for j := 0; j < 5; j++ {
							sch = append(sch, [2]int64{0, int64(x % 3)})
							x /= 3
						}
						emit(mkCase(false, "dbl", true, 1000, pre,
							[]thrSpec{{0, []string{genOp(3, p0), "o"}}, {1, []string{genOp(3, p1)}}, {1, []string{genOp(3, p2)}}}, sch))
					}
				}
			}
		}
	}
}

func generate(r *common.Rand, tier string, emit func(string)) {
	emit("caps")
	scale := 1
	if tier == "thorough" {
		scale = 30
		genExhaustive3(emit)
	}
	genExhaustive(emit)
	genFaultExhaustive(emit)
	genDoubleRelease(emit)
	real := []string{"dbl", "dbl", "dbl", "mem", "hyb", "red", "hyr", "hy1"}
	genRandom(r.Fork(), 900*scale, emit, real, true, 4, false, "")
	genExhaustion(r.Fork(), 16*scale, emit)
	genFallback(r.Fork(), 150*scale, emit)
	genFree(r.Fork(), 120*scale, emit)
	genFreeStates(r.Fork(), 700*(1+scale/3), emit)
	genSweep(r.Fork(), 200*(1+scale/3), emit)
	genNode(r.Fork(), 300*scale, emit)
	genNodeExhaustion(emit)
}
