//go:build verif

// Harness for C15: drives the real idgen.StorageIDGenerator / IDManager and
// node.NodeIDAllocator over gated stores.  A case string fixes the store kind,
// the pre-existing markers, the candidate streams (served through a scripted
// crypto/rand.Reader, so the real random.Int64/random.String code computes the
// candidates), the per-thread programs and the schedule.  One schedule step =
// one storage call of the chosen thread (gated wrapper), so every interleaving
// of atomic steps can be forced.
package main

import (
	"bytes"
	"context"
	"crypto/rand"
	"encoding/binary"
	"errors"
	"flag"
	"fmt"
	"io"
	"os"
	"runtime"
	"runtime/pprof"
	"sort"
	"strconv"
	"strings"
	"sync"
	"sync/atomic"
	"time"

	"github.com/alicebob/miniredis/v2"

	"tunnox-core/internal/core/idgen"
	corelog "tunnox-core/internal/core/log"
	"tunnox-core/internal/core/node"
	"tunnox-core/internal/core/storage"
	legacystore "tunnox-core/internal/core/store/legacy"
	rnd "tunnox-core/internal/utils/random"
	"tunnox-core/internal/verifharness/common"
)

const nodeKind = 9

var keyPrefixes = map[int]string{0: "tunnox:id:used:client", 1: "tunnox:id:used:node", 2: "tunnox:id:used:pmap", 3: "tunnox:id:used:user"}
var idPrefixes = map[int]string{0: "", 1: idgen.PrefixNodeID, 2: idgen.PrefixPortMappingID, 3: idgen.PrefixUserID}

// ------------------------------------------------------------------ goroutine ids

func goid() uint64 {
	var buf [64]byte
	n := runtime.Stack(buf[:], false)
	f := strings.Fields(string(buf[:n]))
	if len(f) < 2 {
		return 0
	}
	id, _ := strconv.ParseUint(f[1], 10, 64)
	return id
}

// ------------------------------------------------------------------ store double (fake clock, ms)

type dbl struct {
	mu    sync.Mutex
	exp   map[string]int64 // 0 = never
	val   map[string]any
	now   int64
	yield bool
}

func newDbl() *dbl { return &dbl{exp: map[string]int64{}, val: map[string]any{}} }

func (d *dbl) liveLocked(k string) bool {
	e, ok := d.exp[k]
	return ok && (e == 0 || d.now < e)
}
func (d *dbl) expOf(ttl time.Duration) int64 {
	if ttl <= 0 {
		return 0
	}
	return d.now + ttl.Milliseconds()
}
func (d *dbl) gosched() {
	if d.yield {
		runtime.Gosched()
	}
}
func (d *dbl) Set(k string, v any, ttl time.Duration) error {
	d.gosched()
	d.mu.Lock()
	defer d.mu.Unlock()
	d.exp[k] = d.expOf(ttl)
	d.val[k] = v
	return nil
}
func (d *dbl) Get(k string) (any, error) {
	d.mu.Lock()
	defer d.mu.Unlock()
	if !d.liveLocked(k) {
		return nil, storage.ErrKeyNotFound
	}
	return d.val[k], nil
}
func (d *dbl) Delete(k string) error {
	d.mu.Lock()
	defer d.mu.Unlock()
	delete(d.exp, k)
	delete(d.val, k)
	return nil
}
func (d *dbl) Exists(k string) (bool, error) {
	d.mu.Lock()
	r := d.liveLocked(k)
	d.mu.Unlock()
	d.gosched()
	return r, nil
}
func (d *dbl) SetExpiration(k string, ttl time.Duration) error { return nil }
func (d *dbl) GetExpiration(k string) (time.Duration, error)   { return 0, nil }
func (d *dbl) CleanupExpired() error {
	d.mu.Lock()
	defer d.mu.Unlock()
	for k := range d.exp {
		if !d.liveLocked(k) {
			delete(d.exp, k)
			delete(d.val, k)
		}
	}
	return nil
}
func (d *dbl) Close() error { return nil }

type dblCAS struct{ *dbl }

func (d dblCAS) SetNX(k string, v any, ttl time.Duration) (bool, error) {
	d.gosched()
	d.mu.Lock()
	defer d.mu.Unlock()
	if d.liveLocked(k) {
		return false, nil
	}
	d.exp[k] = d.expOf(ttl)
	d.val[k] = v
	return true, nil
}
func (d dblCAS) CompareAndSwap(k string, o, n any, ttl time.Duration) (bool, error) {
	return false, errors.New("unsupported")
}

// ------------------------------------------------------------------ gate

type thread struct {
	tid, inst int
	ops       []op
	state     int // 0 running, 1 parked, 2 done
	granted   bool
	gid       uint64
	calls     int  // storage calls that reached the gate (only touched by the thread itself)
	pass      bool // storage calls run ungated (late second Release: it must not make any)
	// scripted randomness of the current Generate call
	kind int
	pat  []uint64
	att  int
}

type op struct {
	code byte
	kind int
	id   uint64
	pat  []uint64
}

type gate struct {
	mu        sync.Mutex
	cond      *sync.Cond
	free      bool
	byGid     map[uint64]*thread
	byGidSync sync.Map
	events    []string
	timeout   bool
}

func newGate() *gate {
	g := &gate{byGid: map[uint64]*thread{}}
	g.cond = sync.NewCond(&g.mu)
	return g
}

func (g *gate) me() *thread {
	// lock-free: the lookup must not serialise free-running callers
	if v, ok := g.byGidSync.Load(goid()); ok {
		return v.(*thread)
	}
	return nil
}

// enter blocks the calling thread until the scheduler grants its next storage call.
func (g *gate) enter() {
	if g.free {
		return
	}
	th := g.me()
	if th == nil {
		return
	}
	th.calls++
	if th.pass {
		return // the schedule step was already taken at the operation's own gate
	}
	g.mu.Lock()
	th.state = 1
	g.cond.Broadcast()
	for !th.granted && !g.timeout {
		g.cond.Wait()
	}
	if g.timeout {
		// the case is over: this thread's remaining operations are not part of the observation
		g.mu.Unlock()
		runtime.Goexit()
	}
	th.granted = false
	th.state = 0
	g.cond.Broadcast()
	g.mu.Unlock()
}

func (g *gate) ev(s string) {
	g.mu.Lock()
	g.events = append(g.events, s)
	g.mu.Unlock()
}

// settle waits until the thread is parked at a gate or finished.
func (g *gate) settleLocked(th *thread) {
	for th.state == 0 && !g.timeout {
		g.cond.Wait()
	}
}

func (g *gate) grant(th *thread) {
	g.mu.Lock()
	defer g.mu.Unlock()
	g.settleLocked(th)
	if th.state != 1 {
		return
	}
	th.granted = true
	g.cond.Broadcast()
	for th.granted && !g.timeout {
		g.cond.Wait()
	}
	g.settleLocked(th)
}

// gated wrappers: the dynamic capabilities of the wrapped store are preserved.
type gatedPlain struct {
	in storage.Storage
	g  *gate
}

func (w *gatedPlain) Set(k string, v any, ttl time.Duration) error {
	w.g.enter()
	return w.in.Set(k, v, ttl)
}
func (w *gatedPlain) Get(k string) (any, error) { w.g.enter(); return w.in.Get(k) }
func (w *gatedPlain) Delete(k string) error     { w.g.enter(); return w.in.Delete(k) }
func (w *gatedPlain) Exists(k string) (bool, error) {
	w.g.enter()
	return w.in.Exists(k)
}
func (w *gatedPlain) SetExpiration(k string, ttl time.Duration) error {
	w.g.enter()
	return w.in.SetExpiration(k, ttl)
}
func (w *gatedPlain) GetExpiration(k string) (time.Duration, error) { return w.in.GetExpiration(k) }
func (w *gatedPlain) CleanupExpired() error                         { w.g.enter(); return w.in.CleanupExpired() }
func (w *gatedPlain) Close() error                                  { return nil }

type gatedCAS struct{ gatedPlain }

func (w *gatedCAS) SetNX(k string, v any, ttl time.Duration) (bool, error) {
	w.g.enter()
	return w.in.(storage.CASStore).SetNX(k, v, ttl)
}
func (w *gatedCAS) CompareAndSwap(k string, o, n any, ttl time.Duration) (bool, error) {
	w.g.enter()
	return w.in.(storage.CASStore).CompareAndSwap(k, o, n, ttl)
}

type runtimeTier interface {
	SetNXRuntime(key string, value interface{}, ttl time.Duration) (bool, error)
	SetRuntime(key string, value interface{}, ttl time.Duration) error
}

type gatedHyb struct{ gatedCAS }

func (w *gatedHyb) SetNXRuntime(k string, v interface{}, ttl time.Duration) (bool, error) {
	w.g.enter()
	return w.in.(runtimeTier).SetNXRuntime(k, v, ttl)
}
func (w *gatedHyb) SetRuntime(k string, v interface{}, ttl time.Duration) error {
	w.g.enter()
	return w.in.(runtimeTier).SetRuntime(k, v, ttl)
}

// ---- single-fault injection below the gate (for hybrid stores: in the shared tier)

var errInjected = errors.New("verif: injected transient storage fault")

type faultCtl struct {
	armed atomic.Bool
	fired atomic.Int64 // injected faults consumed so far
}

func (f *faultCtl) arm(v bool) { f.armed.Store(v) }

// hit is lock-free so that the injector does not serialise free-running callers.
func (f *faultCtl) hit() bool {
	if f.armed.Load() && f.armed.CompareAndSwap(true, false) {
		f.fired.Add(1)
		return true
	}
	return false
}

type faultyPlain struct {
	in storage.Storage
	f  *faultCtl
}

func (w *faultyPlain) Set(k string, v any, ttl time.Duration) error {
	if w.f.hit() {
		return errInjected
	}
	return w.in.Set(k, v, ttl)
}
func (w *faultyPlain) Get(k string) (any, error) {
	if w.f.hit() {
		return nil, errInjected
	}
	return w.in.Get(k)
}
func (w *faultyPlain) Delete(k string) error {
	if w.f.hit() {
		return errInjected
	}
	return w.in.Delete(k)
}
func (w *faultyPlain) Exists(k string) (bool, error) {
	if w.f.hit() {
		return false, errInjected
	}
	return w.in.Exists(k)
}
func (w *faultyPlain) SetExpiration(k string, ttl time.Duration) error {
	return w.in.SetExpiration(k, ttl)
}
func (w *faultyPlain) GetExpiration(k string) (time.Duration, error) { return w.in.GetExpiration(k) }
func (w *faultyPlain) CleanupExpired() error {
	if w.f.hit() {
		return errInjected
	}
	return w.in.CleanupExpired()
}
func (w *faultyPlain) Close() error { return nil }

type faultyCAS struct{ faultyPlain }

func (w *faultyCAS) SetNX(k string, v any, ttl time.Duration) (bool, error) {
	if w.f.hit() {
		return false, errInjected
	}
	return w.in.(storage.CASStore).SetNX(k, v, ttl)
}
func (w *faultyCAS) CompareAndSwap(k string, o, n any, ttl time.Duration) (bool, error) {
	if w.f.hit() {
		return false, errInjected
	}
	return w.in.(storage.CASStore).CompareAndSwap(k, o, n, ttl)
}

func wrapFault(in storage.Storage, f *faultCtl) storage.Storage {
	p := faultyPlain{in: in, f: f}
	if _, ok := in.(storage.CASStore); ok {
		return &faultyCAS{p}
	}
	return &p
}

func wrap(in storage.Storage, g *gate) storage.Storage {
	p := gatedPlain{in: in, g: g}
	if _, ok := in.(runtimeTier); ok {
		if _, ok2 := in.(storage.CASStore); ok2 {
			return &gatedHyb{gatedCAS{p}}
		}
	}
	if _, ok := in.(storage.CASStore); ok {
		return &gatedCAS{p}
	}
	return &p
}

// ------------------------------------------------------------------ scripted crypto/rand

type scriptReader struct {
	orig io.Reader
	g    *gate
}

var curGate struct {
	mu sync.Mutex
	g  *gate
}

func (r *scriptReader) Read(p []byte) (int, error) {
	curGate.mu.Lock()
	g := curGate.g
	curGate.mu.Unlock()
	if g != nil {
		if th := g.me(); th != nil && len(th.pat) > 0 && len(p) == 8 {
			c := th.pat[th.att%len(th.pat)]
			a := th.att
			th.att++
			if th.kind == 0 {
				binary.BigEndian.PutUint64(p, c)
			} else {
				// base-62 digits of c, most significant first; multiples of 62 are added so that
				// the `% len(charset)` of random.StringWithCharset is exercised
				n := uint64(len(rnd.Charset))
				for i := 7; i >= 0; i-- {
					d := c % n
					c /= n
					m := uint64((a + i) % 4)
					if d+m*n > 255 {
						m = 0
					}
					p[i] = byte(d + m*n)
				}
			}
			return 8, nil
		}
	}
	return r.orig.Read(p)
}

// ------------------------------------------------------------------ case

type preEnt struct {
	kind int
	id   uint64
	exp  int64
}

type kase struct {
	free    bool
	store   string
	cas     bool
	ttl     int64
	pre     []preEnt
	threads []*thread
	sched   [][2]int64
}

func atoi(s string) (int64, bool) {
	v, err := strconv.ParseUint(s, 10, 64)
	if err != nil || v > 1<<62 {
		return 0, false
	}
	return int64(v), true
}

type toks struct {
	t []string
	i int
	e bool
}

func (t *toks) next() string {
	if t.i >= len(t.t) {
		t.e = true
		return ""
	}
	s := t.t[t.i]
	t.i++
	return s
}
func (t *toks) num() int64 {
	v, ok := atoi(t.next())
	if !ok {
		t.e = true
	}
	return v
}
func (t *toks) u64() uint64 {
	v, err := strconv.ParseUint(t.next(), 10, 64)
	if err != nil {
		t.e = true
	}
	return v
}
func (t *toks) want(s string) {
	if t.next() != s {
		t.e = true
	}
}

func parseCase(s string) (*kase, bool) {
	t := &toks{t: strings.Fields(s)}
	k := &kase{}
	if len(t.t) > 0 && t.t[0] == "free" {
		k.free = true
		t.i = 1
	} else if len(t.t) > 0 && t.t[0] == "strict" {
		t.i = 1 // judged under "live until released" by the driver; executed like any gated case
	}
	t.want("st")
	k.store = t.next()
	t.want("cas")
	k.cas = t.num() == 1
	t.want("ttl")
	k.ttl = t.num()
	t.want("pre")
	np := t.num()
	for i := int64(0); i < np && !t.e; i++ {
		k.pre = append(k.pre, preEnt{int(t.num()), t.u64(), t.num()})
	}
	t.want("thr")
	nt := t.num()
	for i := int64(0); i < nt && !t.e; i++ {
		th := &thread{tid: int(i), inst: int(t.num())}
		nops := t.num()
		for j := int64(0); j < nops && !t.e; j++ {
			c := t.next()
			switch c {
			case "g":
				o := op{code: 'g', kind: int(t.num())}
				pl := t.num()
				for x := int64(0); x < pl && !t.e; x++ {
					o.pat = append(o.pat, t.u64())
				}
				if o.kind != nodeKind && len(o.pat) == 0 {
					t.e = true
				}
				th.ops = append(th.ops, o)
			case "r":
				th.ops = append(th.ops, op{code: 'r', kind: int(t.num()), id: t.u64()})
			case "o":
				th.ops = append(th.ops, op{code: 'o', kind: -1})
			case "w":
				th.ops = append(th.ops, op{code: 'w', kind: -1})
			case "c":
				th.ops = append(th.ops, op{code: 'c', kind: -1})
			default:
				t.e = true
			}
		}
		k.threads = append(k.threads, th)
	}
	t.want("sch")
	ns := t.num()
	for i := int64(0); i < ns && !t.e; i++ {
		k.sched = append(k.sched, [2]int64{t.num(), t.num()})
		if c := k.sched[len(k.sched)-1][0]; c > 2 {
			t.e = true
		}
	}
	if t.e || t.i != len(t.t) || nt > 64 {
		return nil, false
	}
	for _, th := range k.threads {
		hasW, hasIDGen := false, false
		for _, o := range th.ops {
			if o.code == 'o' || o.code == 'w' || o.code == 'c' {
				hasW = hasW || o.code == 'w'
				continue
			}
			if _, ok := keyPrefixes[o.kind]; !ok && o.kind != nodeKind {
				return nil, false
			}
			if o.code == 'r' && o.kind == nodeKind {
				return nil, false // NodeIDAllocator has no release-by-id
			}
			if o.code == 'g' && o.kind != nodeKind {
				hasIDGen = true
			}
		}
		if hasW && hasIDGen {
			return nil, false // only node-id claims are renewed
		}
	}
	for _, p := range k.pre {
		if _, ok := keyPrefixes[p.kind]; !ok && p.kind != nodeKind {
			return nil, false
		}
	}
	return k, true
}

// ------------------------------------------------------------------ ids

func clientCand(u uint64) uint64 {
	return uint64(idgen.ClientIDMin) + u%uint64(idgen.ClientIDMax-idgen.ClientIDMin+1)
}

func idString(kind int, id uint64) string {
	switch {
	case kind == 0:
		return strconv.FormatUint(id, 10)
	case kind == nodeKind:
		return fmt.Sprintf("node-%04d", id)
	}
	n := uint64(len(rnd.Charset))
	b := make([]byte, idgen.RandomPartLength)
	for i := len(b) - 1; i >= 0; i-- {
		b[i] = rnd.Charset[id%n]
		id /= n
	}
	return idPrefixes[kind] + string(b)
}

func storeKey(kind int, id uint64) string {
	if kind == nodeKind {
		return node.NodeIDKeyPrefix + idString(kind, id)
	}
	return keyPrefixes[kind] + ":" + idString(kind, id)
}

// ------------------------------------------------------------------ shared miniredis

var mr *miniredis.Miniredis

// number of cases that hit the watchdog; generation stops after a few (each costs seconds)
var timeouts int

func redisStore(ctx context.Context) storage.Storage {
	if mr == nil {
		var err error
		mr, err = miniredis.Run()
		if err != nil {
			panic(err)
		}
	}
	s, err := storage.NewRedisStorage(ctx, &storage.RedisConfig{Addr: mr.Addr()})
	if err != nil {
		panic(err)
	}
	return s
}

// ------------------------------------------------------------------ heartbeat liveness

var caseSerial int

// hbState looks for the heartbeat goroutine carrying the given pprof label.
func hbState(label string) (present, waiting bool) {
	var buf bytes.Buffer
	pprof.Lookup("goroutine").WriteTo(&buf, 1)
	needle := `"verifhb":"` + label + `"`
	for _, blk := range strings.Split(buf.String(), "\n\n") {
		if strings.Contains(blk, needle) && strings.Contains(blk, "heartbeatLoop") {
			present = true
			if strings.Contains(blk, "selectgo") {
				waiting = true
			}
		}
	}
	return
}

// hbAlive: the heartbeat goroutine of a claim is alive if it shows up in two goroutine profiles
// taken 300 us apart (a goroutine whose ctx is already cancelled leaves its select at once and is
// gone), dead if it is missing from five consecutive profiles (a single profile can miss a goroutine
// that was created a moment ago).
func hbAlive(label string) bool {
	t0 := time.Now()
	present, absent := 0, 0
	for {
		p, _ := hbState(label)
		if p {
			present++
			absent = 0
			if present >= 2 {
				return true
			}
		} else {
			absent++
			present = 0
			if absent >= 5 {
				return false
			}
		}
		if time.Since(t0) > 300*time.Millisecond {
			return p
		}
		time.Sleep(300 * time.Microsecond)
	}
}

// ------------------------------------------------------------------ executor

type env struct {
	k        *kase
	g        *gate
	ctx      context.Context
	cancel   context.CancelFunc
	bottom   storage.Storage // where markers must live (behind the fault injector)
	inner    storage.Storage // the same store without the fault injector (set-up and final view)
	flt      *faultCtl
	hy1      storage.Storage
	d        *dbl
	perInst  map[int]storage.Storage
	gens64   map[[2]int]*idgen.StorageIDGenerator[int64]
	gensStr  map[[2]int]*idgen.StorageIDGenerator[string]
	managers map[int]*idgen.IDManager
}

func (e *env) instStore(inst int) storage.Storage {
	if s, ok := e.perInst[inst]; ok {
		return s
	}
	var s storage.Storage
	switch e.k.store {
	case "hy1":
		// the default single-node configuration: hybrid storage without a shared cache; every
		// "instance" is a component of the same node and uses the same storage object
		if e.hy1 == nil {
			e.hy1 = wrap(storage.NewHybridStorage(e.ctx, e.bottom.(storage.CacheStorage), nil, nil), e.g)
		}
		e.perInst[inst] = e.hy1
		return e.hy1
	case "hyb", "hyr":
		local := storage.NewMemoryStorage(e.ctx)
		s = storage.NewHybridStorageWithSharedCache(e.ctx, local.(storage.CacheStorage), e.bottom.(storage.CacheStorage), nil, nil)
	default:
		s = e.bottom
	}
	s = wrap(s, e.g)
	e.perInst[inst] = s
	return s
}

func (e *env) setup() error {
	k := e.k
	switch k.store {
	case "dbl":
		e.d = newDbl()
		e.d.yield = k.free
		if k.cas {
			e.bottom = dblCAS{e.d}
		} else {
			e.bottom = e.d
		}
	case "mem", "hyb", "hy1":
		e.bottom = storage.NewMemoryStorage(e.ctx)
	case "red", "hyr":
		e.bottom = redisStore(e.ctx)
		mr.FlushAll()
	default:
		return errors.New("bad store")
	}
	if k.store != "dbl" && !k.cas {
		return errors.New("bad store/cas")
	}
	e.inner = e.bottom
	e.flt = &faultCtl{}
	e.bottom = wrapFault(e.inner, e.flt)
	// the model looks a key up in the first matching entry: write in reverse so the first entry wins
	for i := len(k.pre) - 1; i >= 0; i-- {
		p := k.pre[i]
		ttl := time.Duration(p.exp) * time.Millisecond
		if err := e.inner.Set(storeKey(p.kind, p.id), "pre", ttl); err != nil {
			return err
		}
	}
	// free-running cases with GC passes: unrelated live keys make a pass over the map last long
	// enough for claims to arrive while it is scanning (they are not part of the observation)
	if k.free && k.store != "dbl" {
		sweeps := false
		for _, th := range k.threads {
			for _, o := range th.ops {
				sweeps = sweeps || o.code == 'c'
			}
		}
		if sweeps {
			for i := 0; i < 3000; i++ {
				if err := e.inner.Set(fmt.Sprintf("verif:filler:%d", i), "x", 0); err != nil {
					return err
				}
			}
		}
	}
	return nil
}

func (e *env) tick(dt int64) bool {
	switch e.k.store {
	case "dbl":
		e.d.mu.Lock()
		e.d.now += dt
		e.d.mu.Unlock()
	case "red", "hyr":
		mr.FastForward(time.Duration(dt) * time.Millisecond)
	default:
		// real clock (memory, hybrid over memory): only the free-running cases may wait, and they wait
		// for real; the expired markers stay in the map (lazy deletion) — "expired, not yet swept"
		if !e.k.free || dt > 50 {
			return false
		}
		time.Sleep(time.Duration(dt+2) * time.Millisecond)
	}
	return true
}

func (e *env) gen(th *thread, kind int) (uint64, string, error) {
	inst := th.inst
	st := e.instStore(inst)
	useMgr := e.k.ttl == idgen.DefaultIDTTL.Milliseconds()
	if useMgr {
		if _, ok := e.managers[inst]; !ok {
			e.managers[inst] = idgen.NewIDManager(st, e.ctx)
		}
	}
	ttl := time.Duration(e.k.ttl) * time.Millisecond
	if kind == 0 {
		var v int64
		var err error
		if useMgr {
			v, err = e.managers[inst].GenerateClientID()
		} else {
			key := [2]int{inst, kind}
			if _, ok := e.gens64[key]; !ok {
				e.gens64[key] = idgen.NewStorageIDGeneratorWithTTL[int64](st, "", keyPrefixes[0], ttl, e.ctx)
			}
			v, err = e.gens64[key].Generate()
		}
		if err != nil {
			if v != 0 {
				return 0, "", fmt.Errorf("nonzero-with-error")
			}
			return 0, "", err
		}
		return uint64(v), strconv.FormatInt(v, 10), nil
	}
	var s string
	var err error
	if useMgr {
		switch kind {
		case 1:
			s, err = e.managers[inst].GenerateNodeID()
		case 2:
			s, err = e.managers[inst].GeneratePortMappingID()
		default:
			s, err = e.managers[inst].GenerateUserID()
		}
	} else {
		key := [2]int{inst, kind}
		if _, ok := e.gensStr[key]; !ok {
			e.gensStr[key] = idgen.NewStorageIDGeneratorWithTTL[string](st, idPrefixes[kind], keyPrefixes[kind], ttl, e.ctx)
		}
		s, err = e.gensStr[key].Generate()
	}
	if err != nil {
		if s != "" {
			return 0, "", fmt.Errorf("nonzero-with-error")
		}
		return 0, "", err
	}
	return 0, s, nil
}

func (e *env) release(th *thread, kind int, idstr string, id uint64) error {
	inst := th.inst
	st := e.instStore(inst)
	ttl := time.Duration(e.k.ttl) * time.Millisecond
	if m := e.managers[inst]; m != nil && e.k.ttl == idgen.DefaultIDTTL.Milliseconds() {
		// the production path: IDManager.Release*ID
		switch kind {
		case 0:
			v, err := strconv.ParseInt(idstr, 10, 64)
			if err != nil {
				return err
			}
			return m.ReleaseClientID(v)
		case 1:
			return m.ReleaseNodeID(idstr)
		case 2:
			return m.ReleasePortMappingID(idstr)
		default:
			return m.ReleaseUserID(idstr)
		}
	}
	if kind == 0 {
		v, err := strconv.ParseInt(idstr, 10, 64)
		if err != nil {
			return err
		}
		key := [2]int{inst, kind}
		if _, ok := e.gens64[key]; !ok {
			e.gens64[key] = idgen.NewStorageIDGeneratorWithTTL[int64](st, "", keyPrefixes[0], ttl, e.ctx)
		}
		return e.gens64[key].Release(v)
	}
	key := [2]int{inst, kind}
	if _, ok := e.gensStr[key]; !ok {
		e.gensStr[key] = idgen.NewStorageIDGeneratorWithTTL[string](st, idPrefixes[kind], keyPrefixes[kind], ttl, e.ctx)
	}
	return e.gensStr[key].Release(idstr)
}

func (e *env) runThread(th *thread, barrier func()) {
	g := e.g
	defer func() {
		if r := recover(); r != nil {
			g.ev(fmt.Sprintf("panic.%d:%s", th.tid, strings.ReplaceAll(fmt.Sprint(r), " ", "_")))
		}
		g.mu.Lock()
		th.state = 2
		g.cond.Broadcast()
		g.mu.Unlock()
	}()
	own, ownKind := "", -1
	var alloc, released *node.NodeIDAllocator
	var firstCtx context.Context
	var firstCancel, hbCancel context.CancelFunc
	hbLabel, hbSerial := "", 0
	relLabel, relID := "", ""
	if len(th.ops) > 0 && th.ops[0].code == 'g' && th.ops[0].kind == nodeKind {
		// everything except the allocation itself happens before the barrier
		alloc = node.NewNodeIDAllocator(e.instStore(th.inst))
		firstCtx, firstCancel = context.WithCancel(e.ctx)
	}
	barrier()
	for _, o := range th.ops {
		switch o.code {
		case 'g':
			if o.kind == nodeKind {
				if alloc == nil {
					alloc = node.NewNodeIDAllocator(e.instStore(th.inst))
				}
				ctx, cancel := firstCtx, firstCancel
				if ctx == nil {
					ctx, cancel = context.WithCancel(e.ctx)
				}
				firstCtx, firstCancel = nil, nil
				// The caller's ctx stays live for as long as the node "runs" (until its Release or the
				// end of the case).  The heartbeat goroutine started by the claim inherits the pprof
				// label, so that its liveness can be observed; its 30 s ticker is driven by `w`.
				hbSerial++
				label := fmt.Sprintf("c%d-t%d-n%d", caseSerial, th.tid, hbSerial)
				var id string
				var err error
				pprof.Do(ctx, pprof.Labels("verifhb", label), func(lctx context.Context) {
					id, err = alloc.AllocateNodeID(lctx)
				})
				if hbCancel != nil {
					hbCancel()
				}
				hbLabel, hbCancel = label, cancel
				if err != nil {
					if id == "" && strings.Contains(err.Error(), "no available node ID") {
						g.ev(fmt.Sprintf("exh.%d.%d", th.tid, o.kind))
					} else {
						g.ev(fmt.Sprintf("err.%d", th.tid))
					}
				} else {
					own, ownKind = id, o.kind
					g.ev(fmt.Sprintf("ok.%d.%d.%s", th.tid, o.kind, id))
				}
				continue
			}
			th.kind, th.pat, th.att = o.kind, o.pat, 0
			_, s, err := e.gen(th, o.kind)
			th.pat = nil
			if err != nil {
				if errors.Is(err, idgen.ErrIDExhausted) {
					g.ev(fmt.Sprintf("exh.%d.%d", th.tid, o.kind))
				} else {
					g.ev(fmt.Sprintf("err.%d", th.tid))
				}
			} else {
				own, ownKind = s, o.kind
				g.ev(fmt.Sprintf("ok.%d.%d.%s", th.tid, o.kind, s))
			}
		case 'c':
			// an expiry GC pass: through the instance's storage object (hybrid storage delegates to its
			// node-local cache) and, for the multi-node hybrids, directly on the shared claim store
			err := e.instStore(th.inst).CleanupExpired()
			if e.k.store == "hyb" || e.k.store == "hyr" {
				th.pass = true
				if err2 := e.bottom.CleanupExpired(); err == nil {
					err = err2
				}
				th.pass = false
			}
			if err != nil {
				g.ev(fmt.Sprintf("err.%d", th.tid))
			} else {
				g.ev(fmt.Sprintf("swp.%d", th.tid))
			}
		case 'r':
			s := idString(o.kind, o.id)
			if err := e.release(th, o.kind, s, o.id); err != nil {
				g.ev(fmt.Sprintf("err.%d", th.tid))
			} else {
				g.ev(fmt.Sprintf("rel.%d.%d.%s", th.tid, o.kind, s))
			}
		case 'o', 'w':
			if own == "" || (ownKind == nodeKind && alloc == nil) {
				g.enter() // an operation without a storage call still takes one schedule step
				if o.code == 'o' && released != nil && !g.free {
					// a further Release() of an allocator that already released its id (deferred
					// shutdown clean-up after an explicit release): the real code decides whether this
					// touches the store; it must not
					before := released.GetNodeID()
					calls := th.calls
					th.pass = true
					err := released.Release()
					th.pass = false
					switch {
					case th.calls == calls && err == nil:
						g.ev(fmt.Sprintf("nop.%d", th.tid))
					case err != nil:
						g.ev(fmt.Sprintf("err.%d", th.tid))
					default:
						g.ev(fmt.Sprintf("relo.%d.%d.%s", th.tid, nodeKind, before))
					}
					continue
				}
				if o.code == 'w' && relLabel != "" && !g.free && hbAlive(relLabel) {
					// the ticker of a heartbeat that survived its allocator's Release fires: it would
					// re-create the marker of the released id
					g.ev(fmt.Sprintf("rnw.%d.%d.%s", th.tid, nodeKind, relID))
					continue
				}
				g.ev(fmt.Sprintf("nop.%d", th.tid))
				continue
			}
			var err error
			if o.code == 'w' {
				// the holder's heartbeat ticker fires: the renewal happens iff the heartbeat goroutine
				// of this claim is still running (the renewal itself is the loop's own renewNodeID)
				g.enter()
				if !hbAlive(hbLabel) {
					g.ev(fmt.Sprintf("dead.%d.%d.%s", th.tid, ownKind, own))
					continue
				}
				fired := e.flt.fired.Load()
				th.pass = true
				err = alloc.VerifRenew()
				th.pass = false
				if err == nil {
					g.ev(fmt.Sprintf("rnw.%d.%d.%s", th.tid, ownKind, own))
				} else if e.flt.fired.Load() == fired {
					// the tick of a live holder renewed nothing although no storage fault was injected:
					// the claim will lapse while the node runs
					g.ev(fmt.Sprintf("dead.%d.%d.%s", th.tid, ownKind, own))
					continue
				}
			} else {
				if ownKind == nodeKind {
					err = alloc.Release()
					// the caller's ctx stays live: it is Release itself (stopCh) that must stop the heartbeat
					relLabel, relID = hbLabel, own
					if err == nil {
						released = alloc // kept for late second releases
					} else {
						released = nil // a retry after a failed Release is not driven (close of closed stopCh)
					}
					alloc = nil // a restarted node gets a fresh allocator
				} else {
					err = e.release(th, ownKind, own, 0)
				}
				if err == nil {
					g.ev(fmt.Sprintf("relo.%d.%d.%s", th.tid, ownKind, own))
				}
				own = "" // the caller does not retry a failed release (model: own := none)
			}
			if err != nil {
				g.ev(fmt.Sprintf("err.%d", th.tid))
			}
		}
	}
}

// universe of keys whose liveness is reported at the end
func (e *env) universe() [][2]uint64 {
	seen := map[[2]uint64]bool{}
	add := func(kind int, id uint64) { seen[[2]uint64{uint64(kind), id}] = true }
	slots := 1
	for _, p := range e.k.pre {
		add(p.kind, p.id)
		if p.kind == nodeKind {
			slots++
		}
	}
	for _, th := range e.k.threads {
		for _, o := range th.ops {
			switch {
			case o.code == 'g' && o.kind == nodeKind:
				slots++
			case o.code == 'g' && o.kind == 0:
				for _, p := range o.pat {
					add(0, clientCand(p))
				}
			case o.code == 'g':
				for _, p := range o.pat {
					add(o.kind, p)
				}
			case o.code == 'r':
				add(o.kind, o.id)
			}
		}
	}
	if slots > node.NodeIDMax {
		slots = node.NodeIDMax
	}
	for i := node.NodeIDMin; i <= slots; i++ {
		add(nodeKind, uint64(i))
	}
	var ks [][2]uint64
	for k := range seen {
		ks = append(ks, k)
	}
	sort.Slice(ks, func(i, j int) bool {
		if ks[i][0] != ks[j][0] {
			return ks[i][0] < ks[j][0]
		}
		return ks[i][1] < ks[j][1]
	})
	return ks
}

func execCase(cs string) (obs string) {
	caseSerial++
	k, ok := parseCase(cs)
	if !ok {
		return "bad-case"
	}
	if !k.free && !k.cas {
		seen := map[int]bool{}
		for _, th := range k.threads {
			if seen[th.inst] {
				return "bad-case" // the ungated mutex would make the schedule non-deterministic
			}
			seen[th.inst] = true
		}
	}
	ctx, cancel := context.WithCancel(context.Background())
	defer cancel()
	g := newGate()
	g.free = k.free
	e := &env{k: k, g: g, ctx: ctx, cancel: cancel, perInst: map[int]storage.Storage{},
		gens64: map[[2]int]*idgen.StorageIDGenerator[int64]{}, gensStr: map[[2]int]*idgen.StorageIDGenerator[string]{},
		managers: map[int]*idgen.IDManager{}}
	defer func() {
		if r := recover(); r != nil {
			obs = "panic " + strings.ReplaceAll(fmt.Sprint(r), "\n", " ")
		}
	}()
	if err := e.setup(); err != nil {
		return "bad-case"
	}
	curGate.mu.Lock()
	curGate.g = g
	curGate.mu.Unlock()
	// pre-create per-instance stores and generators on this goroutine (ungated, no shared-map writes later)
	for _, th := range k.threads {
		st := e.instStore(th.inst)
		ttl := time.Duration(k.ttl) * time.Millisecond
		if k.ttl == idgen.DefaultIDTTL.Milliseconds() {
			if _, ok := e.managers[th.inst]; !ok {
				e.managers[th.inst] = idgen.NewIDManager(st, e.ctx)
			}
		}
		if _, ok := e.gens64[[2]int{th.inst, 0}]; !ok {
			e.gens64[[2]int{th.inst, 0}] = idgen.NewStorageIDGeneratorWithTTL[int64](st, "", keyPrefixes[0], ttl, e.ctx)
			for kind := 1; kind <= 3; kind++ {
				e.gensStr[[2]int{th.inst, kind}] = idgen.NewStorageIDGeneratorWithTTL[string](st, idPrefixes[kind], keyPrefixes[kind], ttl, e.ctx)
			}
		}
	}
	done := make(chan struct{})
	go func() {
		defer close(done)
		var wg sync.WaitGroup
		var arrived, goFlag int32
		for _, th := range k.threads {
			th := th
			wg.Add(1)
			started := make(chan struct{})
			go func() {
				defer wg.Done()
				g.mu.Lock()
				th.gid = goid()
				g.byGid[th.gid] = th
				g.byGidSync.Store(th.gid, th)
				g.mu.Unlock()
				close(started)
				e.runThread(th, func() {
					if !k.free {
						return
					}
					// spin barrier: all threads are released at the same instant, after the ticks
					atomic.AddInt32(&arrived, 1)
					for n := 0; atomic.LoadInt32(&goFlag) == 0; n++ {
						if n&0xfff == 0xfff {
							runtime.Gosched()
						}
					}
				})
			}()
			<-started
			if !k.free {
				g.mu.Lock()
				g.settleLocked(th)
				g.mu.Unlock()
			}
		}
		for _, s := range k.sched {
			if k.free && s[0] != 1 {
				continue // free-running cases have no forced steps
			}
			if s[0] == 1 {
				if !e.tick(s[1]) {
					g.ev("badtick")
				} else {
					g.ev(fmt.Sprintf("tick.%d", s[1]))
				}
				continue
			}
			if s[1] < 0 || int(s[1]) >= len(k.threads) {
				continue
			}
			if s[0] == 2 {
				e.flt.arm(true) // the storage call of this step fails (if the step makes one)
			}
			g.grant(k.threads[s[1]])
			e.flt.arm(false)
		}
		if k.free {
			for atomic.LoadInt32(&arrived) < int32(len(k.threads)) {
				runtime.Gosched()
			}
			atomic.StoreInt32(&goFlag, 1)
			wg.Wait()
		}
	}()
	select {
	case <-done:
	case <-time.After(3 * time.Second):
		timeouts++
		g.mu.Lock()
		g.timeout = true
		g.cond.Broadcast()
		g.mu.Unlock()
		return "timeout"
	}
	// threads still parked are dismissed (Goexit at the gate, without performing the call)
	g.mu.Lock()
	evs := append([]string(nil), g.events...)
	g.timeout = true
	g.cond.Broadcast()
	g.mu.Unlock()
	var view []string
	var obsMgr *idgen.IDManager
	for _, u := range e.universe() {
		ex, err := e.inner.Exists(storeKey(int(u[0]), u[1]))
		if err != nil {
			return "view-error"
		}
		if ex {
			view = append(view, fmt.Sprintf("%d.%s", u[0], idString(int(u[0]), u[1])))
		}
		// second path to the same record: a fresh observer node's IDManager must see the same
		// markers through Is*IDUsed
		if kind := int(u[0]); kind != nodeKind {
			if obsMgr == nil {
				obsMgr = idgen.NewIDManager(e.instStore(1<<20), e.ctx)
			}
			var used bool
			var uerr error
			ids := idString(kind, u[1])
			switch kind {
			case 0:
				used, uerr = obsMgr.IsClientIDUsed(int64(u[1]))
			case 1:
				used, uerr = obsMgr.IsNodeIDUsed(ids)
			case 2:
				used, uerr = obsMgr.IsPortMappingIDUsed(ids)
			default:
				used, uerr = obsMgr.IsUserIDUsed(ids)
			}
			if uerr != nil || used != ex {
				view = append(view, fmt.Sprintf("isused-mismatch:%d.%s", kind, ids))
			}
		}
	}
	return strings.Join(append(append(evs, "|"), view...), " ")
}

// capabilities and constants as the compiled code has them (T1/T2 cross-check)
func execCaps() string {
	ctx := context.Background()
	b := func(x bool) string {
		if x {
			return "1"
		}
		return "0"
	}
	mem := storage.NewMemoryStorage(ctx)
	_, memCAS := mem.(storage.CASStore)
	hyb := storage.NewHybridStorage(ctx, mem.(storage.CacheStorage), nil, nil)
	_, hybCAS := interface{}(hyb).(storage.CASStore)
	_, hybRT := interface{}(hyb).(runtimeTier)
	red := redisStore(ctx)
	_, redCAS := red.(storage.CASStore)
	var leg interface{} = legacystore.NewLegacyStoreWrapper(nil, nil, ctx)
	_, legStore := leg.(storage.Storage)
	_, legCAS := leg.(storage.CASStore)
	return fmt.Sprintf("mem=%s red=%s hyb=%s hybrt=%s legacy=%s%s maxatt=%d ttlms=%d min=%d max=%d rlen=%d nodettlms=%d nodemin=%d nodemax=%d",
		b(memCAS), b(redCAS), b(hybCAS), b(hybRT), b(legStore), b(legCAS), idgen.MaxAttempts, idgen.DefaultIDTTL.Milliseconds(),
		idgen.ClientIDMin, idgen.ClientIDMax, idgen.RandomPartLength, node.NodeIDLockTTL.Milliseconds(), node.NodeIDMin, node.NodeIDMax)
}

func execAny(cs string) string {
	if strings.TrimSpace(cs) == "caps" {
		return execCaps()
	}
	return execCase(cs)
}

// ------------------------------------------------------------------ main

func main() {
	tier := flag.String("tier", "quick", "")
	seed := flag.Uint64("seed", 1, "")
	stats := flag.String("stats", "", "")
	nogen := flag.String("nogen", "", "")
	flag.Parse()
	rand.Reader = &scriptReader{orig: rand.Reader}
	// the default logrus logger serialises every log call on one mutex (even when discarding), which
	// staggers free-running callers; logging is orthogonal to the property
	corelog.SetDefault(corelog.NewNopLogger())
	out := common.NewOut()
	emit := func(line string) {
		line = strings.TrimSpace(line)
		if line == "" || strings.HasPrefix(line, "#") {
			return
		}
		key := ""
		cs := line
		if strings.HasPrefix(cs, "K:") {
			i := strings.Index(cs, " ")
			key, cs = cs[:i+1], cs[i+1:]
		}
		if i := strings.Index(cs, " ## "); i >= 0 {
			cs = cs[:i]
		}
		if timeouts >= 3 {
			return
		}
		obs := execAny(cs)
		dk := ""
		if strings.Contains(cs, "thr") {
			dk = cs
		}
		out.Case(key+cs, obs, dk)
		f := strings.Fields(cs)
		if len(f) > 2 {
			if f[0] == "free" {
				out.Count("free/" + f[2])
			} else {
				out.Count("store/" + f[1])
			}
		}
		switch {
		case strings.Contains(obs, "exh."):
			out.Count("outcome/exhausted")
		case strings.Contains(obs, "ok."):
			out.Count("outcome/ok")
		}
	}
	files := flag.Args()
	if *nogen != "" {
		files = []string{*nogen}
	}
	for _, f := range files {
		b, err := os.ReadFile(f)
		if err != nil {
			fmt.Fprintln(os.Stderr, err)
			os.Exit(2)
		}
		for _, l := range strings.Split(string(b), "\n") {
			emit(l)
		}
	}
	if *nogen == "" {
		generate(common.NewRand(*seed), *tier, emit)
	}
	out.Finish(*stats, nil)
	if mr != nil {
		mr.Close()
	}
}
