//go:build verif

package main

import (
	"fmt"
	"sort"
	"strings"
	"sync"

	vc "tunnox-core/internal/verifharness/common"
)

func fmtThreads(ths []tspec) string {
	var sb strings.Builder
	fmt.Fprintf(&sb, "th %d", len(ths))
	for _, t := range ths {
		f := t.fault
		if f == "" {
			f = "-"
		}
		k := t.kind
		if t.spell != 0 {
			k = fmt.Sprintf("%s%d", t.kind, t.spell)
		}
		fmt.Fprintf(&sb, " %s %d %d %s", k, t.listener, t.laddr, f)
	}
	return sb.String()
}

func hasFault(ths []tspec) bool {
	for _, t := range ths {
		if t.fault != "" {
			return true
		}
	}
	return false
}

func schedCase(tc int64, ta, key, max int, preC int64, preN int, ths []tspec, evs []string) string {
	return fmt.Sprintf("sched code %d %d key %d max %d pre %d %d %s ev %d %s", tc, ta, key, max, preC, preN, fmtThreads(ths), len(evs), strings.Join(evs, " "))
}

func fineCase(seed uint64, tc int64, ta, max int, preC int64, preN int, ths []tspec) string {
	return fmt.Sprintf("fine seed %d code %d %d max %d pre %d %d %s", seed%1000000007, tc, ta, max, preC, preN, fmtThreads(ths))
}

// words enumerates every event word of length n over threads 0..k-1.
func words(k, n int, f func([]string)) {
	w := make([]string, n)
	var rec func(i int)
	rec = func(i int) {
		if i == n {
			f(w)
			return
		}
		for t := 0; t < k; t++ {
			w[i] = fmt.Sprintf("t%d", t)
			rec(i + 1)
		}
	}
	rec(0)
}

// discoverWrites runs single-thread cases and returns the names of all write operations seen.
func discoverWrites(kind string) []string {
	seen := map[string]bool{}
	var order []string
	add := func(ws [][]string) {
		for _, w := range ws {
			for _, n := range w {
				if !seen[n] {
					seen[n] = true
					order = append(order, n)
				}
			}
		}
	}
	run := func(fault string) {
		s := caseSpec{tc: 500, ta: 1, key: 1, max: 50, ths: []tspec{{kind: kind, listener: 101, laddr: 1, fault: fault}}, evs: []string{"C"}}
		_, _, ws, err := runCaseW(s, 1)
		if err == nil {
			add(ws)
		}
	}
	run("-")
	for i := 0; i < len(order); i++ { // names reachable only after an earlier failure are found too
		run(order[i])
	}
	sort.Strings(order)
	return order
}

func gen(out *vc.Out, r *vc.Rand, thorough bool) {
	var fast, slow []string
	add := func(c string) {
		if strings.Contains(c, " X") || strings.Contains(c, " Z") || strings.HasPrefix(c, "snode") {
			slow = append(slow, c)
		} else {
			fast = append(fast, c)
		}
	}
	two := []tspec{{"a", 101, 1, "", 0}, {"a", 102, 2, "", 0}}
	three := []tspec{{"a", 101, 1, "", 0}, {"a", 102, 2, "", 0}, {"r", 0, 0, "", 0}}

	// A: two activations from two nodes, every interleaving of their phases
	la := 11
	if thorough {
		la = 13
	}
	words(2, la, func(w []string) {
		add(schedCase(500, 1, 1, 50, 0, 0, two, append([]string{"C"}, w...)))
		out.Count("exhaustive:2act")
	})
	// B: two activations and a revocation
	lb := 8
	if thorough {
		lb = 10
	}
	words(3, lb, func(w []string) {
		add(schedCase(500, 2, 1, 50, 0, 0, three, append([]string{"C"}, w...)))
		out.Count("exhaustive:2act+revoke")
	})
	// C: the same client activates twice (two nodes); two revocations
	words(2, 8, func(w []string) {
		add(schedCase(500, 1, 0, 50, 0, 0, []tspec{{"a", 101, 1, "", 0}, {"a", 101, 1, "", 0}}, append([]string{"C"}, w...)))
		add(schedCase(500, 1, 1, 50, 0, 0, []tspec{{"r", 0, 0, "", 0}, {"r", 0, 0, "", 0}}, append([]string{"C"}, w...)))
		out.Count("exhaustive:same-client,2revoke")
	})

	// S: the same code spelled differently by overlapping requests (upper case, surrounding blanks, another string):
	// claim key and record key must stay the same string for every request
	ls := 9
	if thorough {
		ls = 11
	}
	for _, sp := range [][2]int{{0, 1}, {1, 0}, {0, 2}, {1, 2}, {1, 1}, {3, 0}, {0, 4}} {
		pair := []tspec{{"a", 101, 1, "", sp[0]}, {"a", 102, 2, "", sp[1]}}
		words(2, ls, func(w []string) {
			add(schedCase(500, 1, 1, 50, 0, 0, pair, append([]string{"C"}, w...)))
			out.Count("exhaustive:2act-spellings")
		})
	}
	for _, sp := range [][3]int{{0, 1, 2}, {1, 0, 0}, {2, 2, 1}, {0, 0, 1}} {
		tri := []tspec{{"a", 101, 1, "", sp[0]}, {"a", 102, 2, "", sp[1]}, {"r", 0, 0, "", sp[2]}}
		words(3, 7, func(w []string) {
			add(schedCase(500, 2, 1, 50, 0, 0, tri, append([]string{"C"}, w...)))
			out.Count("exhaustive:2act+revoke-spellings")
		})
	}

	// N: the calls come through different cluster nodes: each call has its own HybridStorage (node-local cache)
	// over the cache all nodes share; what excludes the calls from each other must live in the shared one
	ln := 9
	if thorough {
		ln = 11
	}
	words(2, ln, func(w []string) {
		add("nodes" + strings.TrimPrefix(schedCase(500, 1, 1, 50, 0, 0, two, append([]string{"C"}, w...)), "sched"))
		out.Count("nodes:2act")
	})
	words(3, 7, func(w []string) {
		add("nodes" + strings.TrimPrefix(schedCase(500, 2, 1, 50, 0, 0, three, append([]string{"C"}, w...)), "sched"))
		out.Count("nodes:2act+revoke")
	})
	for i := 0; i < 40; i++ {
		// quota filled by mappings created on another node, expiry seen by every node
		evs := []string{"C", "t0", "t1", "t0", "t1", "t0"}
		if i%4 == 0 {
			evs = []string{"C", "t0", "t0", "X", "t1"}
		}
		add("nodes" + strings.TrimPrefix(schedCase(500, 1, i%2, 1+i%3, 101, i%3, two, evs), "sched"))
		out.Count("nodes:quota,expiry")
	}

	// P: several calls through ONE node (one service stack: whatever the code keeps in the process is shared) with
	// status polls whose storage read is answered early and returned late
	snode := func(ths []tspec, evs []string) string {
		return "snode" + strings.TrimPrefix(schedCase(500, 1, 1, 50, 0, 0, ths, evs), "sched")
	}
	rep := func(ev string, n int) []string {
		var r []string
		for i := 0; i < n; i++ {
			r = append(r, ev)
		}
		return r
	}
	for _, first := range []string{"a", "r"} {
		for _, last := range []string{"a", "r"} {
			ths := []tspec{{first, 101, 1, "", 0}, {"p", 0, 0, "", 0}, {last, 102, 2, "", 0}}
			for a := 0; a <= 6; a++ {
				for b := 0; b <= 4; b++ {
					evs := append([]string{"C"}, rep("t0", a)...)
					evs = append(evs, "t1")
					evs = append(evs, rep("t0", 7-a)...)
					evs = append(evs, rep("t2", b)...)
					evs = append(evs, "t1")
					add(snode(ths, evs))
					out.Count("samenode:poll-held-across-a-call")
				}
			}
		}
	}
	words(2, 8, func(w []string) {
		add(snode(two, append([]string{"C"}, w...)))
		out.Count("samenode:2act")
	})
	words(3, 6, func(w []string) {
		add(snode(three, append([]string{"C"}, w...)))
		out.Count("samenode:2act+revoke")
	})
	prounds := 200
	if thorough {
		prounds = 3000
	}
	for i := 0; i < prounds; i++ {
		kinds := []string{"a", "p", "a", "r", "p"}
		n := 3 + r.Intn(2)
		var ths []tspec
		for k := 0; k < n; k++ {
			kd := vc.Pick(r, kinds)
			if k == 0 {
				kd = "a"
			}
			ths = append(ths, tspec{kind: kd, listener: int64(101 + k), laddr: 1 + r.Intn(2)})
		}
		evs := []string{"C"}
		for k := 0; k < 6+r.Intn(8); k++ {
			evs = append(evs, fmt.Sprintf("t%d", r.Intn(n)))
		}
		add(snode(ths, evs))
		out.Count("samenode:random")
	}

	// L: a call stuck (for longer than a short lease would last) between taking the claim and writing: the mapping
	// write of node A is held while 3.5 s pass and node B activates / revokes the same code; the claim must still hold
	stuck := [][]string{
		{"C", "t0", "t0", "t0", "Z", "t1", "t1", "t1", "t1", "t1", "t1"},       // A stuck before the mapping write, B runs through
		{"C", "t0", "t0", "t0", "t0", "Z", "t1", "t1", "t1", "t1", "t1", "t1"}, // A stuck before the write-back
	}
	if thorough {
		stuck = append(stuck,
			[]string{"C", "t0", "Z", "t1", "t1", "t1", "Z", "t1", "t1", "t1"},       // two stalls (7 s) under one claim
			[]string{"C", "t0", "t0", "Z", "t1", "t0", "t0", "Z", "t1", "t1", "t1"}, // B retries after the second stall
			[]string{"C", "t0", "t0", "t0", "t0", "t0", "Z", "t1", "t1"},            // stuck before the release only
		)
	}
	for i, evs := range stuck {
		add(schedCase(500, 1, 1, 50, 0, 0, two, evs))
		out.Count("stuck-call:lease")
		if thorough || i == 0 {
			add(schedCase(500, 2, 1, 50, 0, 0, []tspec{{"a", 101, 1, "", 0}, {"r", 0, 0, "", 0}}, evs))
			add("nodes" + strings.TrimPrefix(schedCase(500, 1, 1, 50, 0, 0, two, evs), "sched"))
			out.Count("stuck-call:lease")
		}
	}

	// U: unique code generation on a tiny code space (the real CreateConnectionCode keeps drawing codes that exist)
	for n := 1; n <= 3; n++ {
		for i := 0; i < 12; i++ {
			var ops []string
			created := 0
			for k := 0; k < 4+n*2; k++ {
				if created == 0 || r.Intn(2) == 0 {
					ops = append(ops, "c")
					created++
				} else {
					ops = append(ops, fmt.Sprintf("a%d", r.Intn(created)))
				}
			}
			add(fmt.Sprintf("uniq cs %d ops %d %s", n, len(ops), strings.Join(ops, " ")))
			out.Count("unique:small-space")
		}
	}

	// D: every single write-failure position of one activation / one revocation
	aw, rw := discoverWrites("a"), discoverWrites("r")
	out.Count(fmt.Sprintf("faultpoints:activate=%d,revoke=%d", len(aw), len(rw)))
	for _, f := range append([]string{"get:Get:code"}, aw...) {
		one := []tspec{{"a", 101, 1, f, 0}}
		add(schedCase(500, 1, 1, 50, 0, 0, one, []string{"C"}))
		add(schedCase(500, 1, 0, 50, 0, 0, one, []string{"C"}))
		// followed by / interleaved with a second, fault-free activation
		pair := []tspec{{"a", 101, 1, f, 0}, {"a", 102, 2, "", 0}}
		words(2, 6, func(w []string) {
			add(schedCase(500, 1, 1, 50, 0, 0, pair, append([]string{"C"}, w...)))
		})
		// the activation period runs out between the check and the re-check (roll-back path)
		add(schedCase(500, 1, 1, 50, 0, 0, one, []string{"C", "t0", "t0", "X", "t0", "t0", "t0"}))
		add(schedCase(500, 1, 0, 50, 0, 0, one, []string{"C", "t0", "t0", "X"}))
		out.Count("fault:activate")
	}
	// a failing claim / look-up / release of one request while two others are in flight
	for _, f := range []string{"claim:SetNX:claim", "release:Delete:claim", "get:Get:code"} {
		tri := []tspec{{"a", 101, 1, f, 0}, {"a", 102, 2, "", 0}, {"a", 103, 1, "", 0}}
		words(3, 7, func(w []string) {
			add(schedCase(500, 1, 1, 50, 0, 0, tri, append([]string{"C"}, w...)))
			out.Count("fault:3act")
		})
	}
	for _, f := range append([]string{"get:Get:code"}, rw...) {
		pair := []tspec{{"r", 0, 0, f, 0}, {"a", 102, 2, "", 0}}
		add(schedCase(500, 1, 1, 50, 0, 0, pair[:1], []string{"C"}))
		words(2, 5, func(w []string) {
			add(schedCase(500, 1, 1, 50, 0, 0, pair, append([]string{"C"}, w...)))
		})
		out.Count("fault:revoke")
	}

	// histories: create / revoke / expire / activate in every order (sequential calls)
	for _, key := range []int{0, 1} {
		ops := []string{"C", "X", "A", "R", "A2"}
		var perm func(rest []string, acc []string)
		perm = func(rest []string, acc []string) {
			if len(rest) == 0 {
				var evs []string
				for _, o := range acc {
					switch o {
					case "C", "X":
						evs = append(evs, o)
					case "A":
						evs = append(evs, "t0", "t0", "t0", "t0", "t0", "t0", "t0")
					case "A2":
						evs = append(evs, "t1", "t1", "t1", "t1", "t1", "t1", "t1")
					case "R":
						evs = append(evs, "t2", "t2", "t2", "t2", "t2")
					}
				}
				add(schedCase(500, 1, key, 50, 0, 0, three, evs))
				out.Count("history:orders")
				return
			}
			for i := range rest {
				nr := append(append([]string{}, rest[:i]...), rest[i+1:]...)
				perm(nr, append(acc, rest[i]))
			}
		}
		perm(ops, nil)
	}

	// E: random structured cases (mostly valid requests, some malformed, quotas, faults, expiry)
	faults := append(append([]string{"get:Get:code", "update:w2", "update:w0", "update:w1"}, aw...), rw...)
	listeners := []int64{101, 102, 103, 500, 101, 102, 0}
	rounds := 1500
	xBudget := 60
	if thorough {
		rounds = 20000
		xBudget = 1500
	}
	for i := 0; i < rounds; i++ {
		n := 1 + r.Intn(4)
		var ths []tspec
		for k := 0; k < n; k++ {
			t := tspec{kind: "a", listener: vc.Pick(r, listeners), laddr: 1 + r.Intn(2)}
			if r.Intn(4) == 0 {
				t.kind = "r"
			}
			if r.Intn(12) == 0 {
				t.laddr = r.Intn(len(listenAddrs))
			}
			if r.Intn(8) == 0 {
				t.fault = vc.Pick(r, faults)
			}
			if r.Intn(4) == 0 {
				t.spell = 1 + r.Intn(len(spellings)-1)
			}
			if r.Intn(9) == 0 {
				t.kind, t.fault = "p", ""
			}
			ths = append(ths, t)
		}
		ta := 1 + r.Intn(2)
		if r.Intn(25) == 0 {
			ta = 3
		}
		max, preN := 50, 0
		if r.Intn(5) == 0 {
			max, preN = r.Intn(3), r.Intn(3) // 0 = nothing may be activated, 1/2 with 0..2 existing: below, at, above the limit
		}
		var evs []string
		cpos := 0
		if r.Intn(10) == 0 {
			cpos = r.Intn(6)
		}
		m := r.Intn(7 * n)
		for k := 0; k < m; k++ {
			evs = append(evs, fmt.Sprintf("t%d", r.Intn(n)))
		}
		if r.Intn(30) != 0 {
			if cpos > len(evs) {
				cpos = len(evs)
			}
			evs = append(evs[:cpos], append([]string{"C"}, evs[cpos:]...)...)
			if r.Intn(40) == 0 {
				evs = append(evs, "C")
			}
		}
		if xBudget > 0 && r.Intn(8) == 0 {
			xBudget--
			p := r.Intn(len(evs) + 1)
			evs = append(evs[:p], append([]string{"X"}, evs[p:]...)...)
			out.Count("random:with-expiry")
		}
		add(schedCase(500, ta, r.Intn(2), max, 101, preN, ths, evs))
		out.Count("random:sched")
	}

	// F: single-storage-operation granularity, random order
	frounds := 1500
	if thorough {
		frounds = 20000
	}
	for i := 0; i < frounds; i++ {
		n := 2 + r.Intn(3)
		var ths []tspec
		for k := 0; k < n; k++ {
			t := tspec{kind: "a", listener: vc.Pick(r, listeners[:6]), laddr: 1 + r.Intn(2)}
			if r.Intn(5) == 0 {
				t.kind = "r"
			}
			if r.Intn(3) == 0 {
				t.spell = 1 + r.Intn(len(spellings)-1)
			}
			ths = append(ths, t)
		}
		if r.Intn(6) == 0 {
			ths[r.Intn(n)].fault = vc.Pick(r, faults)
		}
		fc := fineCase(r.Uint64(), 500, 1+r.Intn(2), 50, 0, 0, ths)
		if i%3 == 0 && !hasFault(ths) {
			fc = "n" + fc // the same through separate cluster nodes
			out.Count("random:nfine")
		}
		add(fc)
		out.Count("random:fine")
	}

	for _, c := range fast {
		execCase(out, c)
	}
	// cases that wait for a real deadline run in parallel (each has its own storage)
	res := make([]func(), len(slow))
	var wg sync.WaitGroup
	sem := make(chan struct{}, 6)
	for i, c := range slow {
		wg.Add(1)
		sem <- struct{}{}
		go func(i int, c string) {
			defer wg.Done()
			defer func() { <-sem }()
			res[i] = execCaseDeferred(out, c)
		}(i, c)
	}
	wg.Wait()
	for _, f := range res {
		if f != nil {
			f()
		}
	}
}
