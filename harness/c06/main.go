//go:build verif

// Harness for C06: the real conncode.Service (ActivateConnectionCode / RevokeConnectionCode /
// CreateConnectionCode) over the real repositories, the real PortMappingService and the real memory
// storage.  Every activation/revocation runs as its own "node": its own service stack on a gated
// storage wrapper over ONE shared storage.  The gate blocks each storage operation until the
// scheduler grants it, so an interleaving is forced, not hoped for.
//
//	sched code <tc> <ta> key <0|1> max <M> pre <client> <n> th <n> (<a|r> <listener> <laddr> <fault>)* ev <m> (C|X|t<i>)*
//	nodes …  (same as sched)      nfine … (same as fine): every call on its own cluster node (real HybridStorage,
//	                              node-local cache + the cache shared by all nodes, default routing tables)
//	fine  seed <s> code <tc> <ta> max <M> pre <client> <n> th <n> (<a|r> <listener> <laddr> <fault>)*
//	     ## res <n> (<result>)* maps <k> (<listener>:<laddr>:<tc>:<ta>)* rec <absent | a<0|1>r<0|1>:by<id|->:m<tuple|x|->>
//
// Z (sched-like cases): 3.5 s of wall-clock time pass while all calls are parked (a stuck call; the claim lease ages).
// sched: phase granularity (claim / get / quota / create / update / rollback / release); an event t<i>
// lets thread i run its next phase; C creates the code; X lets the activation period run out (real
// time); after the events every thread is run to completion in index order.  The Lean model is run
// on the same events and must produce the same observation.
// fine: every single storage operation is a scheduling point; the order is drawn from the seed;
// only the property predicate is applied.
package main

import (
	"context"
	"encoding/json"
	"errors"
	"flag"
	"fmt"
	"os"
	"runtime"
	"sort"
	"strconv"
	"strings"
	"sync"
	"time"

	"tunnox-core/internal/cloud/models"
	"tunnox-core/internal/cloud/repos"
	"tunnox-core/internal/cloud/services"
	"tunnox-core/internal/constants"
	coreerrors "tunnox-core/internal/core/errors"
	"tunnox-core/internal/core/idgen"
	corelog "tunnox-core/internal/core/log"
	"tunnox-core/internal/core/storage"
	"tunnox-core/internal/core/storage/hybrid"
	"tunnox-core/internal/core/storage/memory"
	vc "tunnox-core/internal/verifharness/common"
)

// ---- fixed tables shared with the Lean driver (indices only travel in case strings)

var listenAddrs = []string{"", "0.0.0.0:9001", "127.0.0.1:9002", "no-port-here", "0.0.0.0:70000"}
var targetAddrs = []string{"", "tcp://10.0.0.5:8080", "udp://192.168.1.9:53", "bogus-target"}

const fixedCode = "vrf-c06-001"
const preTarget = int64(999999)

// spellings of the code a request may use (index 0 = exactly the generated string)
var spellings = []func(string) string{
	func(c string) string { return c },
	func(c string) string {
		if u := strings.ToUpper(c); u != c {
			return u
		}
		return c + "\t" // a generated code without letters: upper case would be the same string
	},
	func(c string) string { return c + " " },
	func(c string) string { return " " + strings.ToUpper(c[:1]) + c[1:] },
	func(c string) string { return "zz" + c },
}

func idxOf(tab []string, s string) int {
	for i, x := range tab {
		if x == s {
			return i
		}
	}
	return 99
}

var errInjected = errors.New("verif: injected storage failure")

// ---- which call is running?  Calls that share one service stack (same node) are told apart by goroutine.

func goid() uint64 {
	var b [64]byte
	n := runtime.Stack(b[:], false)
	f := strings.Fields(string(b[:n])) // "goroutine 123 [running]:"
	if len(f) < 2 {
		return 0
	}
	id, _ := strconv.ParseUint(f[1], 10, 64)
	return id
}

var byGoroutine sync.Map // goroutine id -> *thread

// shared marks wrappers of a stack used by several calls: the caller is looked up by goroutine
var sharedTh = &thread{}

func who(th *thread) *thread {
	if th != sharedTh {
		return th
	}
	if v, ok := byGoroutine.Load(goid()); ok {
		return v.(*thread)
	}
	return nil
}

// ---- gated storage

type thread struct {
	id       int
	spell    int
	kind     string
	listener int64
	laddr    int
	fault    string

	fine     bool
	override string // phase forced by the service wrappers
	cur      string
	tokens   int
	grant    chan struct{}
	report   chan string
	state    int // 0 not started, 1 blocked, 2 done
	result   string
	occ      map[string]int
	fired    bool
	updW     int
	claimKey string
	writes   []string // names of the write operations seen (for fault enumeration)
	c        *caseRun
}

type gstore struct {
	*memory.Storage
	th *thread
}

func keyClass(key string) string {
	switch {
	case strings.HasPrefix(key, "tunnox:runtime:conncode:claim:"):
		return "claim"
	case strings.HasPrefix(key, constants.KeyPrefixRuntimeConnectionCodeByCode):
		return "code"
	case strings.HasPrefix(key, constants.KeyPrefixRuntimeConnectionCodeByID):
		return "cid"
	case strings.HasPrefix(key, constants.KeyPrefixIndexConnectionCodeByTarget):
		return "cidx"
	case strings.HasPrefix(key, constants.KeyPrefixPortMapping+":"):
		return "pm"
	case key == constants.KeyPrefixMappingList:
		return "list"
	case strings.HasPrefix(key, constants.KeyPrefixClientMappings+":"):
		return "client"
	case strings.HasPrefix(key, "tunnox:id:"):
		return "idkey"
	}
	return "other"
}

func (g *gstore) gate(op, key string, write bool) error {
	th := who(g.th)
	if th == nil {
		return nil
	}
	class := keyClass(key)
	// the claim is whatever key the service itself takes with SetNX (outside the mapping service) and deletes
	// again; recognising it by behaviour keeps the phases right if the key is renamed or re-routed
	if th.override == "" && op == "SetNX" {
		th.claimKey = key
	}
	if th.claimKey != "" && key == th.claimKey {
		class = "claim"
	}
	phase := th.override
	if phase == "" {
		switch {
		case op == "SetNX" && class == "claim":
			phase = "claim"
		case op == "Delete" && class == "claim":
			phase = "release"
		case op == "Get" && class == "code":
			phase = "get"
		default:
			phase = "update"
		}
	}
	if th.fine || phase != th.cur {
		th.cur = phase
		if th.tokens > 0 {
			th.tokens--
		} else {
			th.report <- "blocked"
			<-th.grant
		}
	}
	name := phase + ":" + op + ":" + class
	if phase == "update" {
		// Update writes the record (Set, Set) or deletes it (Delete, Delete, RemoveFromList): name the writes by position
		if !write {
			name = "update:read"
		} else {
			name = fmt.Sprintf("update:w%d", th.updW)
			th.updW++
		}
	}
	if k := th.occ[name]; k > 0 {
		th.occ[name] = k + 1
		name = fmt.Sprintf("%s#%d", name, k)
	} else {
		th.occ[name] = 1
	}
	if write {
		th.writes = append(th.writes, name)
		th.c.noteWrite(op, class)
	}
	if (write || phase == "get") && !th.fired && th.fault == name {
		th.fired = true
		return errInjected
	}
	return nil
}

func (g *gstore) Set(key string, value any, ttl time.Duration) error {
	if err := g.gate("Set", key, true); err != nil {
		return err
	}
	return g.Storage.Set(key, value, ttl)
}
func (g *gstore) Get(key string) (any, error) {
	if err := g.gate("Get", key, false); err != nil {
		return nil, err
	}
	v, err := g.Storage.Get(key)
	// a status poll: the read has been performed (its answer is fixed); returning it is a scheduling point of its own
	if th := who(g.th); th != nil && th.kind == "p" && keyClass(key) == "code" {
		th.cur = "ret"
		th.report <- "blocked"
		<-th.grant
	}
	return v, err
}
func (g *gstore) Delete(key string) error {
	if err := g.gate("Delete", key, true); err != nil {
		return err
	}
	return g.Storage.Delete(key)
}
func (g *gstore) Exists(key string) (bool, error) {
	if err := g.gate("Exists", key, false); err != nil {
		return false, err
	}
	return g.Storage.Exists(key)
}
func (g *gstore) SetNX(key string, value any, ttl time.Duration) (bool, error) {
	if err := g.gate("SetNX", key, true); err != nil {
		return false, err
	}
	return g.Storage.SetNX(key, value, ttl)
}
func (g *gstore) SetList(key string, values []any, ttl time.Duration) error {
	if err := g.gate("SetList", key, true); err != nil {
		return err
	}
	return g.Storage.SetList(key, values, ttl)
}
func (g *gstore) GetList(key string) ([]any, error) {
	if err := g.gate("GetList", key, false); err != nil {
		return nil, err
	}
	return g.Storage.GetList(key)
}
func (g *gstore) AppendToList(key string, value any) error {
	if err := g.gate("AppendToList", key, true); err != nil {
		return err
	}
	return g.Storage.AppendToList(key, value)
}
func (g *gstore) RemoveFromList(key string, value any) error {
	if err := g.gate("RemoveFromList", key, true); err != nil {
		return err
	}
	return g.Storage.RemoveFromList(key, value)
}

// ---- service wrappers that label the phases

type pmSvc struct {
	services.PortMappingService
	th *thread
}

func (p *pmSvc) CreatePortMapping(m *models.PortMapping) (*models.PortMapping, error) {
	if th := who(p.th); th != nil {
		th.override = "create"
		defer func() { th.override = "" }()
	}
	return p.PortMappingService.CreatePortMapping(m)
}
func (p *pmSvc) DeletePortMapping(id string) error {
	if th := who(p.th); th != nil {
		th.override = "rollback"
		defer func() { th.override = "" }()
	}
	return p.PortMappingService.DeletePortMapping(id)
}

type pmRepo struct {
	repos.IPortMappingRepository
	th *thread
}

func (p *pmRepo) GetClientPortMappings(clientID string) ([]*models.PortMapping, error) {
	if th := who(p.th); th != nil {
		th.override = "quota"
		defer func() { th.override = "" }()
	}
	return p.IPortMappingRepository.GetClientPortMappings(clientID)
}

// ---- one case

type tspec struct {
	kind     string
	listener int64
	laddr    int
	fault    string
	spell    int
}

type caseSpec struct {
	fine      bool
	snode     bool // all calls through ONE service stack (same node, shared in-process state)
	nodes     bool // every call on its own node: HybridStorage with a node-local cache over the shared cache
	seed      uint64
	tc        int64
	ta        int
	key       int
	max       int
	preClient int64
	preN      int
	ths       []tspec
	evs       []string
}

type caseRun struct {
	spec     caseSpec
	mu       sync.Mutex
	afterX   bool
	staleTTL bool // a connection-code record was written after X (its TTL was computed before X)
}

func (c *caseRun) noteWrite(op, class string) {
	c.mu.Lock()
	if c.afterX && op == "Set" && (class == "code" || class == "cid") {
		c.staleTTL = true
	}
	c.mu.Unlock()
}

func parseCase(line string) (caseSpec, error) {
	t := strings.Fields(line)
	var s caseSpec
	bad := fmt.Errorf("bad case: %s", line)
	i := 0
	next := func() string {
		if i < len(t) {
			i++
			return t[i-1]
		}
		return ""
	}
	num := func() int64 {
		v, err := strconv.ParseInt(next(), 10, 64)
		if err != nil {
			bad = fmt.Errorf("bad number in case: %s", line)
			return -1 << 40
		}
		return v
	}
	switch next() {
	case "sched":
	case "nodes":
		s.nodes = true
	case "snode":
		s.snode = true
	case "nfine":
		s.nodes = true
		fallthrough
	case "fine":
		s.fine = true
		if next() != "seed" {
			return s, bad
		}
		s.seed = uint64(num())
	default:
		return s, bad
	}
	if next() != "code" {
		return s, bad
	}
	s.tc, s.ta = num(), int(num())
	if !s.fine {
		if next() != "key" {
			return s, bad
		}
		s.key = int(num())
	} else {
		s.key = 1
	}
	if next() != "max" {
		return s, bad
	}
	s.max = int(num())
	if next() != "pre" {
		return s, bad
	}
	s.preClient, s.preN = num(), int(num())
	if next() != "th" {
		return s, bad
	}
	n := int(num())
	if n < 0 || n > 64 {
		return s, bad
	}
	for k := 0; k < n; k++ {
		ts := tspec{kind: next()}
		// kind letter, optionally followed by the spelling number of the code in the request ("a", "r2", …)
		if len(ts.kind) > 1 {
			sp, err := strconv.Atoi(ts.kind[1:])
			if err != nil || sp < 0 || sp >= len(spellings) {
				return s, bad
			}
			ts.spell, ts.kind = sp, ts.kind[:1]
		}
		ts.listener, ts.laddr = num(), int(num())
		ts.fault = next()
		if ts.kind != "a" && ts.kind != "r" && ts.kind != "p" || ts.fault == "" {
			return s, bad
		}
		s.ths = append(s.ths, ts)
	}
	if !s.fine {
		if next() != "ev" {
			return s, bad
		}
		m := int(num())
		for k := 0; k < m; k++ {
			e := next()
			if e == "" {
				return s, bad
			}
			s.evs = append(s.evs, e)
		}
	}
	if s.ta < 1 || s.ta >= len(targetAddrs) || s.tc < 1 || s.preN < 0 || s.preN > 200 {
		return s, bad
	}
	for _, ts := range s.ths {
		if ts.laddr < 0 || ts.laddr >= len(listenAddrs) || ts.listener < 0 {
			return s, bad
		}
	}
	return s, nil
}

func classify(err error) string {
	switch coreerrors.GetCode(err) {
	case coreerrors.CodeMissingParam:
		return "missing"
	case coreerrors.CodeNotFound:
		return "notfound"
	case coreerrors.CodeForbidden:
		return "forbidden"
	case coreerrors.CodeConflict:
		return "conflict"
	case coreerrors.CodeExpired:
		return "expired"
	case coreerrors.CodeInvalidParam:
		return "badaddr"
	case coreerrors.CodeQuotaExceeded:
		return "quota"
	case coreerrors.CodeStorageError:
		return "storage"
	case coreerrors.CodeInternal:
		return "internal"
	}
	return "other:" + string(coreerrors.GetCode(err))
}

type env struct {
	ctx     context.Context
	inner   *memory.Storage
	ccRepo  *repos.ConnectionCodeRepository
	pmRepo  *repos.PortMappingRepo
	pmSvc   services.PortMappingService
	svc     *services.ConnectionCodeService
	created bool
	code    string
	expAt   time.Time
}

// hybridNode builds the storage of one node of a cluster: a node-local cache of its own and the cache shared by
// all nodes, behind the real HybridStorage with its default routing tables (what reaches other nodes is decided
// by the key prefix).
func hybridNode(ctx context.Context, shared *memory.Storage, th *thread) storage.Storage {
	return hybrid.NewWithSharedCache(ctx, &gstore{Storage: memory.New(ctx), th: th}, &gstore{Storage: shared, th: th}, nil, nil)
}

func newStack(ctx context.Context, st storage.Storage, th *thread, max int) (*services.ConnectionCodeService, *repos.ConnectionCodeRepository, *repos.PortMappingRepo, services.PortMappingService) {
	repo := repos.NewRepository(st)
	cc := repos.NewConnectionCodeRepository(repo)
	pr := repos.NewPortMappingRepo(repo)
	idm := idgen.NewIDManager(st, ctx)
	ps := services.NewPortMappingService(pr, idm, nil, ctx)
	var psI services.PortMappingService = ps
	var prI repos.IPortMappingRepository = pr
	if th != nil {
		psI = &pmSvc{PortMappingService: ps, th: th}
		prI = &pmRepo{IPortMappingRepository: pr, th: th}
	}
	cfg := &services.ConnectionCodeServiceConfig{MaxActiveCodesPerClient: 10, MaxActiveMappingsPerClient: max}
	svc := services.NewConnectionCodeService(cc, psI, prI, cfg, ctx)
	return svc, cc, pr, ps
}

func b2i(x bool) int {
	if x {
		return 1
	}
	return 0
}

// stallFor is the length of one Z event; Props/C06.lean (stallNanos) and the driver use the same number
const stallFor = 3500 * time.Millisecond

var errTiming = errors.New("timing")

// runCase executes one case; scale stretches the activation period (retries after a timing miss).
func runCase(s caseSpec, scale int) (obs string, skip string, err error) {
	obs, skip, _, err = runCaseW(s, scale)
	return
}

// runCaseW additionally returns, per thread, the names of the write operations it performed.
func runCaseW(s caseSpec, scale int) (obs string, skip string, writes [][]string, err error) {
	defer func() {
		if err != nil || obs == "timeout" {
			writes = nil
		}
	}()
	var ths []*thread
	defer func() {
		for _, th := range ths {
			writes = append(writes, th.writes)
		}
	}()
	obs, skip, err = runCaseT(s, scale, &ths)
	return
}

func runCaseT(s caseSpec, scale int, thsOut *[]*thread) (obs string, skip string, err error) {
	ctx, cancel := context.WithCancel(context.Background())
	defer cancel()
	c := &caseRun{spec: s}
	e := &env{ctx: ctx, inner: memory.New(ctx)}
	var adminSt storage.Storage = &gstore{Storage: e.inner}
	if s.nodes {
		adminSt = hybridNode(ctx, e.inner, nil)
	}
	e.svc, e.ccRepo, e.pmRepo, e.pmSvc = newStack(ctx, adminSt, nil, s.max)
	for k := 0; k < s.preN; k++ {
		now := time.Now()
		if _, err := e.pmSvc.CreatePortMapping(&models.PortMapping{ListenClientID: s.preClient, TargetClientID: preTarget,
			Protocol: models.ProtocolTCP, SourcePort: 7000 + k, TargetHost: "10.9.9.9", TargetPort: 80,
			ListenAddress: fmt.Sprintf("0.0.0.0:%d", 7000+k), TargetAddress: "tcp://10.9.9.9:80",
			Status: models.MappingStatusActive, CreatedAt: now, UpdatedAt: now, Type: models.MappingTypeAnonymous}); err != nil {
			return "", "", fmt.Errorf("setup: %v", err)
		}
	}
	hasX := false
	firstThreadEv, firstC := -1, -1
	for i, ev := range s.evs {
		if ev == "X" {
			hasX = true
		}
		if ev == "C" && firstC < 0 {
			firstC = i
		}
		if strings.HasPrefix(ev, "t") && firstThreadEv < 0 {
			firstThreadEv = i
		}
	}
	if s.fine {
		firstC = 0
	}
	period := time.Hour
	if hasX {
		period = time.Duration(scale) * 150 * time.Millisecond
	}
	realCreate := s.key == 1 && firstC >= 0 && (firstThreadEv < 0 || firstC < firstThreadEv)
	e.code = fixedCode

	ths := make([]*thread, len(s.ths))
	for i, ts := range s.ths {
		ths[i] = &thread{id: i, spell: ts.spell, kind: ts.kind, listener: ts.listener, laddr: ts.laddr, fault: ts.fault, fine: s.fine,
			grant: make(chan struct{}), report: make(chan string, 1), occ: map[string]int{}, c: c}
	}
	*thsOut = ths
	create := func() error {
		if e.created {
			return nil
		}
		e.created = true
		if realCreate {
			cc, err := e.svc.CreateConnectionCode(&services.CreateConnectionCodeRequest{TargetClientID: s.tc, TargetAddress: targetAddrs[s.ta],
				ActivationTTL: period, MappingDuration: time.Hour, CreatedBy: "verif"})
			if err != nil {
				return fmt.Errorf("create: %v", err)
			}
			e.code, e.expAt = cc.Code, cc.ActivationExpiresAt
			return nil
		}
		now := time.Now()
		ttl := period
		if s.key == 0 {
			ttl = time.Hour
		}
		rec := &models.TunnelConnectionCode{ID: "conncode_verif001", Code: e.code, TargetClientID: s.tc, TargetAddress: targetAddrs[s.ta],
			ActivationTTL: ttl, MappingDuration: time.Hour, CreatedAt: now, ActivationExpiresAt: now.Add(period), CreatedBy: "verif"}
		e.expAt = rec.ActivationExpiresAt
		if err := e.ccRepo.Create(rec); err != nil {
			return fmt.Errorf("create(repo): %v", err)
		}
		return nil
	}
	var sharedSvc *services.ConnectionCodeService
	if s.snode {
		sharedSvc, _, _, _ = newStack(ctx, &gstore{Storage: e.inner, th: sharedTh}, sharedTh, s.max)
	}
	start := func(th *thread) {
		th.tokens = 1
		if th.fine {
			th.tokens = 0
		}
		code := spellings[th.spell](e.code)
		go func() {
			defer func() {
				if r := recover(); r != nil {
					th.result = "panic"
				}
				th.report <- "done"
			}()
			var svc *services.ConnectionCodeService
			if s.snode {
				byGoroutine.Store(goid(), th)
				defer byGoroutine.Delete(goid())
				svc = sharedSvc
			} else {
				var st storage.Storage = &gstore{Storage: e.inner, th: th}
				if s.nodes {
					st = hybridNode(ctx, e.inner, th)
				}
				svc, _, _, _ = newStack(ctx, st, th, s.max)
			}
			if th.kind == "p" {
				rec, err := svc.GetConnectionCode(code)
				if err != nil {
					th.result = classify(err)
				} else {
					th.result = fmt.Sprintf("seen:a%dr%d", b2i(rec.IsActivated), b2i(rec.IsRevoked))
				}
			} else if th.kind == "a" {
				m, err := svc.ActivateConnectionCode(&services.ActivateConnectionCodeRequest{Code: code, ListenClientID: th.listener, ListenAddress: listenAddrs[th.laddr]})
				if err != nil {
					th.result = classify(err)
				} else {
					in := "out"
					if _, gerr := e.pmRepo.GetPortMapping(m.ID); gerr == nil {
						in = "in"
					}
					th.result = fmt.Sprintf("ok:%d:%d:%d:%d:%s", m.ListenClientID, idxOf(listenAddrs, m.ListenAddress), m.TargetClientID, idxOf(targetAddrs, m.TargetAddress), in)
				}
			} else {
				if err := svc.RevokeConnectionCode(code, "verif"); err != nil {
					th.result = classify(err)
				} else {
					th.result = "rok"
				}
			}
		}()
	}
	stallAfter := 10 * time.Second
	if s.snode {
		stallAfter = 1500 * time.Millisecond
	}
	wait := func(th *thread) error {
		select {
		case r := <-th.report:
			if r == "done" {
				th.state = 2
			} else {
				th.state = 1
			}
			return nil
		case <-time.After(stallAfter):
			if s.snode {
				// not parked at a gate and not finished: the call waits for another goroutine inside the
				// code under test (a coalesced read); go on with the other calls and come back
				th.state = 3
				return nil
			}
			return errors.New("timeout")
		}
	}
	stepThread := func(th *thread) error {
		if th.state == 3 {
			select {
			case r := <-th.report:
				th.state = 1
				if r == "done" {
					th.state = 2
				}
			case <-time.After(300 * time.Millisecond):
				return nil
			}
		}
		switch th.state {
		case 0:
			start(th)
			return wait(th)
		case 1:
			th.grant <- struct{}{}
			return wait(th)
		}
		return nil
	}
	finishAll := func() {
		// unblock whatever is still parked so that goroutines end (after a timeout)
		cancel()
	}

	if s.fine {
		if err := create(); err != nil {
			return "", "", err
		}
		r := vc.NewRand(s.seed)
		for _, th := range ths {
			if err := stepThread(th); err != nil {
				finishAll()
				return "timeout", "", nil
			}
		}
		for {
			var live []*thread
			for _, th := range ths {
				if th.state != 2 {
					live = append(live, th)
				}
			}
			if len(live) == 0 {
				break
			}
			if err := stepThread(live[r.Intn(len(live))]); err != nil {
				finishAll()
				return "timeout", "", nil
			}
		}
	} else {
		for _, ev := range s.evs {
			switch {
			case ev == "C":
				if err := create(); err != nil {
					return "", "", err
				}
			case ev == "X":
				if !e.created {
					continue
				}
				if !c.afterX && time.Until(e.expAt) < 8*time.Millisecond {
					return "", "", errTiming // the steps before X did not finish well before the deadline
				}
				if d := time.Until(e.expAt.Add(15 * time.Millisecond)); d > 0 {
					time.Sleep(d)
				}
				c.mu.Lock()
				c.afterX = true
				c.mu.Unlock()
			case ev == "Z":
				// wall-clock time passes while every call is parked where it is (a call stuck in a slow storage
				// operation): the claim key, a lease with a real TTL, gets older
				time.Sleep(stallFor)
			case strings.HasPrefix(ev, "t"):
				i, perr := strconv.Atoi(ev[1:])
				if perr != nil || i < 0 || i >= len(ths) {
					return "", "", fmt.Errorf("bad event %q", ev)
				}
				if err := stepThread(ths[i]); err != nil {
					finishAll()
					return "timeout", "", nil
				}
			default:
				return "", "", fmt.Errorf("bad event %q", ev)
			}
		}
		deadline := time.Now().Add(20 * time.Second)
		for pending := true; pending; {
			pending = false
			for _, th := range ths {
				for th.state != 2 {
					if err := stepThread(th); err != nil || time.Now().After(deadline) {
						finishAll()
						return "timeout", "", nil
					}
					if th.state == 3 { // still waiting for another call: finish the others first
						pending = true
						break
					}
				}
			}
		}
		if hasX && e.created && !c.afterX && time.Until(e.expAt) < 8*time.Millisecond {
			return "", "", errTiming
		}
	}
	if c.staleTTL {
		return "", "stale-ttl", nil
	}

	// ---- observation
	var sb strings.Builder
	fmt.Fprintf(&sb, "res %d", len(ths))
	for _, th := range ths {
		sb.WriteString(" " + th.result)
	}
	all, qerr := e.inner.QueryByPrefix(constants.KeyPrefixPortMapping+":", 0)
	if qerr != nil {
		return "", "", qerr
	}
	var tuples []string
	byID := map[string]string{}
	for _, js := range all {
		var m models.PortMapping
		if json.Unmarshal([]byte(js), &m) != nil {
			tuples = append(tuples, "undecodable")
			continue
		}
		if m.TargetClientID == preTarget {
			continue
		}
		tp := fmt.Sprintf("%d:%d:%d:%d", m.ListenClientID, idxOf(listenAddrs, m.ListenAddress), m.TargetClientID, idxOf(targetAddrs, m.TargetAddress))
		tuples = append(tuples, tp)
		byID[m.ID] = tp
	}
	sort.Strings(tuples)
	fmt.Fprintf(&sb, " maps %d", len(tuples))
	for _, tp := range tuples {
		sb.WriteString(" " + tp)
	}
	rec, gerr := e.ccRepo.GetByCode(e.code)
	switch {
	case gerr != nil && errors.Is(gerr, repos.ErrNotFound):
		sb.WriteString(" rec absent")
	case gerr != nil:
		sb.WriteString(" rec error")
	default:
		by, mp := "-", "-"
		if rec.ActivatedBy != nil {
			by = strconv.FormatInt(*rec.ActivatedBy, 10)
		}
		if rec.MappingID != nil {
			if tp, ok := byID[*rec.MappingID]; ok {
				mp = tp
			} else {
				mp = "x"
			}
		}
		b := func(x bool) int {
			if x {
				return 1
			}
			return 0
		}
		fmt.Fprintf(&sb, " rec a%dr%d:by%s:m%s", b(rec.IsActivated), b(rec.IsRevoked), by, mp)
	}
	return sb.String(), "", nil
}

func execCase(out *vc.Out, line string) { execCaseDeferred(out, line)() }

// execCaseDeferred runs the case now and returns the function that prints its line.
func execCaseDeferred(out *vc.Out, line string) func() {
	key := ""
	body := line
	if strings.HasPrefix(body, "K:") {
		i := strings.Index(body, " ")
		key, body = body[:i+1], body[i+1:]
	}
	if strings.HasPrefix(body, "uniq ") {
		obs, err := runUniq(body)
		if err != nil {
			return func() { out.Case(line, "bad-case", "") }
		}
		return func() { out.Case(key+body, obs, body) }
	}
	s, err := parseCase(body)
	if err != nil {
		return func() { out.Case(line, "bad-case", "") }
	}
	for scale := 1; scale <= 16; scale *= 2 {
		obs, skip, err := runCase(s, scale)
		if err == errTiming {
			out.Count("retry:timing")
			continue
		}
		if err != nil {
			return func() { out.Case(key+body, "harness-error "+strings.ReplaceAll(err.Error(), " ", "_"), "") }
		}
		if skip != "" {
			out.Count("skipped:" + skip)
			return func() {}
		}
		nt := ""
		if len(s.ths) > 1 || len(s.evs) > 2 {
			nt = body
		}
		return func() { out.Case(key+body, obs, nt) }
	}
	return func() { out.Case(key+body, "harness-error timing", "") }
}

func main() {
	tier := flag.String("tier", "quick", "")
	seed := flag.Uint64("seed", 1, "")
	stats := flag.String("stats", "", "")
	noGen := flag.Bool("nogen", false, "")
	flag.Parse()
	corelog.SetDefault(corelog.NewNopLogger())
	out := vc.NewOut()
	for _, f := range flag.Args() {
		data, err := os.ReadFile(f)
		if err != nil {
			fmt.Fprintln(os.Stderr, err)
			os.Exit(3)
		}
		for _, line := range strings.Split(string(data), "\n") {
			line = strings.TrimSpace(line)
			if line == "" || strings.HasPrefix(line, "#") {
				continue
			}
			if i := strings.Index(line, " ## "); i >= 0 {
				line = line[:i]
			}
			execCase(out, line)
			out.Count("corpus")
		}
	}
	if !*noGen {
		gen(out, vc.NewRand(*seed), *tier == "thorough")
	}
	out.Finish(*stats, nil)
}
