//go:build verif

package main

import (
	"context"
	"fmt"
	"strconv"
	"strings"
	"time"

	"tunnox-core/internal/cloud/models"
	"tunnox-core/internal/cloud/services"
	"tunnox-core/internal/cloud/services/conncode"
	coreerrors "tunnox-core/internal/core/errors"
	"tunnox-core/internal/core/storage/memory"
)

// uniq cs <n> ops <k> (c | a<j>)*
//
//	## res <k> (new | dup | exhausted | <error class> | ok | …)* percode <m> (<successful activations of code j>)*
//
// The real CreateConnectionCode with a code space of n one-letter codes: later creations must not hand out (and
// overwrite the record of) a code that still exists; a<j> activates the j-th code created.
func runUniq(line string) (string, error) {
	t := strings.Fields(line)
	if len(t) < 5 || t[0] != "uniq" || t[1] != "cs" || t[3] != "ops" {
		return "", fmt.Errorf("bad case")
	}
	n, err1 := strconv.Atoi(t[2])
	k, err2 := strconv.Atoi(t[4])
	if err1 != nil || err2 != nil || n < 1 || n > 8 || k != len(t)-5 {
		return "", fmt.Errorf("bad case")
	}
	ctx, cancel := context.WithCancel(context.Background())
	defer cancel()
	inner := memory.New(ctx)
	svc, _, pmRepo, _ := newStack(ctx, &gstore{Storage: inner}, nil, 50)
	svc.VerifSetGenerator(conncode.NewGenerator(&models.ConnectionCodeGenerator{SegmentLength: 1, SegmentCount: 1, Separator: "-", Charset: "abcdefgh"[:n]}))
	var codes []string
	var res []string
	for i, op := range t[5:] {
		switch {
		case op == "c":
			cc, err := svc.CreateConnectionCode(&services.CreateConnectionCodeRequest{TargetClientID: 500 + int64(len(codes)), TargetAddress: "tcp://10.0.0.5:8080",
				ActivationTTL: time.Hour, MappingDuration: time.Hour, CreatedBy: "verif"})
			switch {
			case err != nil && coreerrors.GetCode(err) == coreerrors.CodeInternal && strings.Contains(err.Error(), "unique"):
				res = append(res, "exhausted")
			case err != nil:
				res = append(res, classify(err))
			default:
				r := "new"
				for _, c := range codes {
					if c == cc.Code {
						r = "dup"
					}
				}
				codes = append(codes, cc.Code)
				res = append(res, r)
			}
		case strings.HasPrefix(op, "a"):
			j, err := strconv.Atoi(op[1:])
			if err != nil || j < 0 {
				return "", fmt.Errorf("bad case")
			}
			if j >= len(codes) {
				res = append(res, "nocode")
				continue
			}
			_, aerr := svc.ActivateConnectionCode(&services.ActivateConnectionCodeRequest{Code: codes[j], ListenClientID: 100 + int64(i), ListenAddress: "0.0.0.0:9001"})
			if aerr != nil {
				res = append(res, classify(aerr))
			} else {
				res = append(res, "ok")
			}
		default:
			return "", fmt.Errorf("bad case")
		}
	}
	// successful activations per created code = mappings whose target client is the creator of that code
	all, err := pmRepo.ListAllMappings()
	if err != nil {
		return "", err
	}
	per := make([]int, len(codes))
	for _, m := range all {
		if j := int(m.TargetClientID - 500); j >= 0 && j < len(per) {
			per[j]++
		}
	}
	var sb strings.Builder
	fmt.Fprintf(&sb, "res %d %s percode %d", len(res), strings.Join(res, " "), len(per))
	for _, c := range per {
		fmt.Fprintf(&sb, " %d", c)
	}
	return strings.Join(strings.Fields(sb.String()), " "), nil
}
