//go:build verif

// Harness for C19 (a public domain routes only to its single rightful owner).
//
//	c19 -tier quick|thorough -seed N [-stats file] [-nogen] [corpus files…]
//
// A case is a set of client threads (create / delete / update / lookup operations on the REAL
// HTTPDomainMappingRepository and the REAL DomainProxyModule.lookupMapping) plus a schedule.  Every
// storage call of the real code goes through a gated wrapper around the real memory.Storage (and a
// gated CloudControl double): a call blocks until the scheduler grants the calling thread one step,
// so the real execution IS the interleaving named by the schedule.  Output, one line per case:
//
//	c19 now N bases … reg … cloud … thr k T n op… S m t0 t1 …  ##  <slot tokens> | <final store digest>
//
// slot token: "-" thread has nothing to run, "." one step (operation continues), otherwise the
// result of the operation that returned in this slot.  After the schedule the threads are drained
// round-robin, so the observation has at least as many slots as the schedule.
package main

import (
	"context"
	"encoding/json"
	"errors"
	"runtime"
	"sync"
	"sync/atomic"
	"flag"
	"fmt"
	"os"
	"strconv"
	"strings"
	"time"

	"tunnox-core/internal/cloud/managers"
	"tunnox-core/internal/cloud/models"
	"tunnox-core/internal/cloud/repos"
	coreerrors "tunnox-core/internal/core/errors"
	"tunnox-core/internal/core/storage/memory"
	"tunnox-core/internal/httpservice"
	"tunnox-core/internal/httpservice/modules/domainproxy"
	vc "tunnox-core/internal/verifharness/common"
)

// ---------------------------------------------------------------- case

type op struct {
	kind   byte // 'c' create, 'd' delete, 'u' update, 'l' lookup
	client int64
	sub    string
	base   string
	thost  string
	tport  int
	id     int
	status string
	exp    int64
	host   string
}

type ext struct { // a PortMapping known to the old registry / to cloud control
	sub, base string
	client    int64
	thost     string
	tport     int
	status    string
	revoked   bool
	exp       int64 // 0 = no expiry
	id        string
}

type tcase struct {
	now     int64
	bases   []string
	reg     []ext
	cloud   []ext
	threads [][]op
	sched   []int
}

func hx(s string) string { return vc.Hex([]byte(s)) }
func uhx(s string) (string, error) {
	if s == "-" {
		return "", nil
	}
	b, err := hexDecode(s)
	return string(b), err
}

func hexDecode(s string) ([]byte, error) {
	if len(s)%2 != 0 {
		return nil, fmt.Errorf("odd hex")
	}
	out := make([]byte, len(s)/2)
	for i := 0; i < len(out); i++ {
		v, err := strconv.ParseUint(s[2*i:2*i+2], 16, 8)
		if err != nil {
			return nil, err
		}
		out[i] = byte(v)
	}
	return out, nil
}

func (o op) String() string {
	switch o.kind {
	case 'c':
		return fmt.Sprintf("c:%d:%s:%s:%s:%d", o.client, hx(o.sub), hx(o.base), hx(o.thost), o.tport)
	case 'd':
		return fmt.Sprintf("d:%d:%d", o.id, o.client)
	case 'u':
		return fmt.Sprintf("u:%d:%s:%d:%s:%d", o.id, hx(o.status), o.exp, hx(o.thost), o.tport)
	default:
		return "l:" + hx(o.host)
	}
}

func (e ext) String() string {
	r := 0
	if e.revoked {
		r = 1
	}
	return fmt.Sprintf("%s:%s:%d:%s:%d:%s:%d:%d:%s", hx(e.sub), hx(e.base), e.client, hx(e.thost), e.tport, hx(e.status), r, e.exp, hx(e.id))
}

func (c *tcase) String() string {
	var sb strings.Builder
	fmt.Fprintf(&sb, "c19 now %d bases %d", c.now, len(c.bases))
	for _, b := range c.bases {
		sb.WriteString(" " + hx(b))
	}
	fmt.Fprintf(&sb, " reg %d", len(c.reg))
	for _, e := range c.reg {
		sb.WriteString(" " + e.String())
	}
	fmt.Fprintf(&sb, " cloud %d", len(c.cloud))
	for _, e := range c.cloud {
		sb.WriteString(" " + e.String())
	}
	fmt.Fprintf(&sb, " thr %d", len(c.threads))
	for _, t := range c.threads {
		fmt.Fprintf(&sb, " T %d", len(t))
		for _, o := range t {
			sb.WriteString(" " + o.String())
		}
	}
	fmt.Fprintf(&sb, " S %d", len(c.sched))
	for _, t := range c.sched {
		fmt.Fprintf(&sb, " %d", t)
	}
	return sb.String()
}

type tokReader struct {
	toks []string
	i    int
	err  error
}

func (r *tokReader) next() string {
	if r.i >= len(r.toks) {
		r.err = fmt.Errorf("unexpected end of case")
		return ""
	}
	r.i++
	return r.toks[r.i-1]
}
func (r *tokReader) expect(s string) {
	if t := r.next(); t != s && r.err == nil {
		r.err = fmt.Errorf("expected %q got %q", s, t)
	}
}
func (r *tokReader) num() int64 {
	v, err := strconv.ParseInt(r.next(), 10, 64)
	if err != nil && r.err == nil {
		r.err = err
	}
	return v
}
func (r *tokReader) hex() string {
	s, err := uhx(r.next())
	if err != nil && r.err == nil {
		r.err = err
	}
	return s
}

func fieldsOf(tok string, n int) ([]string, error) {
	f := strings.Split(tok, ":")
	if len(f) != n {
		return nil, fmt.Errorf("token %q: want %d fields", tok, n)
	}
	return f, nil
}

func atoi(s string, perr *error) int64 {
	v, err := strconv.ParseInt(s, 10, 64)
	if err != nil && *perr == nil {
		*perr = err
	}
	return v
}
func unhexE(s string, perr *error) string {
	v, err := uhx(s)
	if err != nil && *perr == nil {
		*perr = err
	}
	return v
}

func parseOp(tok string) (op, error) {
	var err error
	if len(tok) < 2 || tok[1] != ':' {
		return op{}, fmt.Errorf("bad op %q", tok)
	}
	switch tok[0] {
	case 'c':
		f, e := fieldsOf(tok, 6)
		if e != nil {
			return op{}, e
		}
		return op{kind: 'c', client: atoi(f[1], &err), sub: unhexE(f[2], &err), base: unhexE(f[3], &err), thost: unhexE(f[4], &err), tport: int(atoi(f[5], &err))}, err
	case 'd':
		f, e := fieldsOf(tok, 3)
		if e != nil {
			return op{}, e
		}
		return op{kind: 'd', id: int(atoi(f[1], &err)), client: atoi(f[2], &err)}, err
	case 'u':
		f, e := fieldsOf(tok, 6)
		if e != nil {
			return op{}, e
		}
		return op{kind: 'u', id: int(atoi(f[1], &err)), status: unhexE(f[2], &err), exp: atoi(f[3], &err), thost: unhexE(f[4], &err), tport: int(atoi(f[5], &err))}, err
	case 'l':
		f, e := fieldsOf(tok, 2)
		if e != nil {
			return op{}, e
		}
		return op{kind: 'l', host: unhexE(f[1], &err)}, err
	}
	return op{}, fmt.Errorf("bad op %q", tok)
}

func parseExt(tok string) (ext, error) {
	var err error
	f, e := fieldsOf(tok, 9)
	if e != nil {
		return ext{}, e
	}
	return ext{sub: unhexE(f[0], &err), base: unhexE(f[1], &err), client: atoi(f[2], &err), thost: unhexE(f[3], &err), tport: int(atoi(f[4], &err)),
		status: unhexE(f[5], &err), revoked: f[6] == "1", exp: atoi(f[7], &err), id: unhexE(f[8], &err)}, err
}

func parseCase(toks []string) (*tcase, error) {
	r := &tokReader{toks: toks}
	c := &tcase{}
	r.expect("c19")
	r.expect("now")
	c.now = r.num()
	r.expect("bases")
	for n := r.num(); n > 0 && r.err == nil; n-- {
		c.bases = append(c.bases, r.hex())
	}
	r.expect("reg")
	for n := r.num(); n > 0 && r.err == nil; n-- {
		e, err := parseExt(r.next())
		if err != nil {
			return nil, err
		}
		c.reg = append(c.reg, e)
	}
	r.expect("cloud")
	for n := r.num(); n > 0 && r.err == nil; n-- {
		e, err := parseExt(r.next())
		if err != nil {
			return nil, err
		}
		c.cloud = append(c.cloud, e)
	}
	r.expect("thr")
	for n := r.num(); n > 0 && r.err == nil; n-- {
		r.expect("T")
		var ops []op
		for m := r.num(); m > 0 && r.err == nil; m-- {
			o, err := parseOp(r.next())
			if err != nil {
				return nil, err
			}
			ops = append(ops, o)
		}
		c.threads = append(c.threads, ops)
	}
	r.expect("S")
	for n := r.num(); n > 0 && r.err == nil; n-- {
		c.sched = append(c.sched, int(r.num()))
	}
	if r.err != nil {
		return nil, r.err
	}
	if r.i != len(toks) {
		return nil, fmt.Errorf("trailing tokens")
	}
	return c, nil
}

// ---------------------------------------------------------------- scheduler and gated doubles

type event struct {
	t    int
	done bool
}

type sched struct {
	grant   []chan struct{}
	events  chan event
	current int
	result  string // result of the operation that returned during the current slot
}

// park is called by the running thread (there is exactly one) before every storage / cloud call
// and before every operation: it hands control back to the scheduler and waits for the next grant.
func (s *sched) park() {
	if s == nil {
		return // sequential (fault-injection) cases run without a scheduler
	}
	t := s.current
	s.events <- event{t: t}
	<-s.grant[t]
}

// gatedStore wraps the real in-memory storage; every call is one scheduler step.
type gatedStore struct {
	*memory.Storage
	s    *sched
	keys map[string]bool
	ord  []string
	// single storage-failure injection: the failAt-th storage call (counted from the last reset) fails
	failAt int
	calls  int
}

var errInjected = errors.New("verif: injected storage failure")

func (g *gatedStore) hit() bool {
	g.calls++
	return g.failAt > 0 && g.calls == g.failAt
}

func (g *gatedStore) see(k string) {
	if !g.keys[k] {
		g.keys[k] = true
		g.ord = append(g.ord, k)
	}
}
func (g *gatedStore) Set(key string, value any, ttl time.Duration) error {
	g.s.park()
	g.see(key)
	if g.hit() {
		return errInjected
	}
	return g.Storage.Set(key, value, ttl)
}
func (g *gatedStore) Get(key string) (any, error) {
	g.s.park()
	g.see(key)
	if g.hit() {
		return nil, errInjected
	}
	return g.Storage.Get(key)
}
func (g *gatedStore) Delete(key string) error {
	g.s.park()
	g.see(key)
	if g.hit() {
		return errInjected
	}
	return g.Storage.Delete(key)
}
func (g *gatedStore) Exists(key string) (bool, error) {
	g.s.park()
	g.see(key)
	if g.hit() {
		return false, errInjected
	}
	return g.Storage.Exists(key)
}
func (g *gatedStore) GetList(key string) ([]any, error) {
	g.s.park()
	g.see(key)
	if g.hit() {
		return nil, errInjected
	}
	return g.Storage.GetList(key)
}
func (g *gatedStore) AppendToList(key string, value any) error {
	g.s.park()
	g.see(key)
	if g.hit() {
		return errInjected
	}
	return g.Storage.AppendToList(key, value)
}
func (g *gatedStore) RemoveFromList(key string, value any) error {
	g.s.park()
	g.see(key)
	if g.hit() {
		return errInjected
	}
	return g.Storage.RemoveFromList(key, value)
}
func (g *gatedStore) Incr(key string) (int64, error) {
	g.s.park()
	g.see(key)
	if g.hit() {
		return 0, errInjected
	}
	return g.Storage.Incr(key)
}
func (g *gatedStore) SetNX(key string, value any, ttl time.Duration) (bool, error) {
	g.s.park()
	g.see(key)
	if g.hit() {
		return false, errInjected
	}
	return g.Storage.SetNX(key, value, ttl)
}
func (g *gatedStore) CompareAndSwap(key string, oldValue, newValue any, ttl time.Duration) (bool, error) {
	g.s.park()
	g.see(key)
	if g.hit() {
		return false, errInjected
	}
	return g.Storage.CompareAndSwap(key, oldValue, newValue, ttl)
}

// cloudDouble answers GetPortMappingByDomain from the case's table; one scheduler step per call.
type cloudDouble struct {
	managers.CloudControlAPI
	s    *sched
	ents []*models.PortMapping
}

func (c *cloudDouble) GetPortMappingByDomain(fullDomain string) (*models.PortMapping, error) {
	c.s.park()
	for _, m := range c.ents {
		if m.FullDomain() != "" && m.FullDomain() == fullDomain {
			cp := *m
			return &cp, nil
		}
	}
	return nil, coreerrors.Newf(coreerrors.CodeNotFound, "no mapping for %s", fullDomain)
}

func (e ext) portMapping() *models.PortMapping {
	pm := &models.PortMapping{ID: e.id, TargetClientID: e.client, TargetHost: e.thost, TargetPort: e.tport, Protocol: models.ProtocolHTTP,
		HTTPSubdomain: e.sub, HTTPBaseDomain: e.base, Status: models.MappingStatus(e.status), IsRevoked: e.revoked}
	if e.exp != 0 {
		t := time.Unix(e.exp, 0)
		pm.ExpiresAt = &t
	}
	return pm
}

// ---------------------------------------------------------------- executor

func codeOf(err error) string {
	c := string(coreerrors.GetCode(err))
	if c == "" {
		c = "?" + strings.ReplaceAll(err.Error(), " ", "_")
	}
	return "e:" + c
}

func idNum(id string) string {
	if strings.HasPrefix(id, "hdm_") {
		if _, err := strconv.Atoi(id[4:]); err == nil {
			return id[4:]
		}
	}
	return "?" + hx(id)
}

type world struct {
	repo  *repos.HTTPDomainMappingRepository
	proxy *domainproxy.DomainProxyModule
	reg   *httpservice.DomainRegistry
	store *gatedStore
}

func (w *world) runOp(o op) string {
	ctx := context.Background()
	switch o.kind {
	case 'c':
		m, err := w.repo.CreateMapping(ctx, o.client, o.sub, o.base, o.thost, o.tport)
		if err != nil {
			return codeOf(err)
		}
		return "ok:" + idNum(m.ID)
	case 'd':
		if err := w.repo.DeleteMapping(ctx, fmt.Sprintf("hdm_%d", o.id), o.client); err != nil {
			return codeOf(err)
		}
		return "ok"
	case 'u':
		m, err := w.repo.GetMapping(ctx, fmt.Sprintf("hdm_%d", o.id))
		if err != nil {
			return codeOf(err)
		}
		m.Status = repos.HTTPDomainMappingStatus(o.status)
		m.ExpiresAt = o.exp
		m.TargetHost = o.thost
		m.TargetPort = o.tport
		if err := w.repo.UpdateMapping(ctx, m); err != nil {
			return codeOf(err)
		}
		return "ok"
	default:
		pm, err := w.proxy.VerifLookupMapping(o.host)
		if err != nil {
			return codeOf(err)
		}
		return fmt.Sprintf("r:%s:%d:%s:%d", hx(pm.ID), pm.TargetClientID, hx(pm.TargetHost), pm.TargetPort)
	}
}

const slotTimeout = 10 * time.Second

// execCase runs one case on the real code and returns the observation string.
func execCase(c *tcase) string {
	n := len(c.threads)
	s := &sched{grant: make([]chan struct{}, n), events: make(chan event), current: -1}
	for i := range s.grant {
		s.grant[i] = make(chan struct{})
	}
	mem := memory.New(context.Background())
	gs := &gatedStore{Storage: mem, s: s, keys: map[string]bool{}}
	repo := repos.NewHTTPDomainMappingRepository(repos.NewRepository(gs), c.bases)
	reg := httpservice.NewDomainRegistry(c.bases)
	for _, e := range c.reg {
		_ = reg.Register(e.portMapping())
	}
	cloud := &cloudDouble{s: s}
	for _, e := range c.cloud {
		cloud.ents = append(cloud.ents, e.portMapping())
	}
	deps := &httpservice.ModuleDependencies{HTTPDomainMappingRepo: repo, DomainRegistry: reg, CloudControl: cloud}
	w := &world{repo: repo, proxy: domainproxy.VerifNewForLookup(deps), reg: reg, store: gs}
	// a second repository instance and proxy module over the same storage (second node / restarted node): the odd
	// threads go through it
	repo2 := repos.NewHTTPDomainMappingRepository(repos.NewRepository(gs), c.bases)
	deps2 := &httpservice.ModuleDependencies{HTTPDomainMappingRepo: repo2, DomainRegistry: reg, CloudControl: cloud}
	w2 := &world{repo: repo2, proxy: domainproxy.VerifNewForLookup(deps2), reg: reg, store: gs}

	done := make([]bool, n)
	wait := func() (event, bool) {
		select {
		case ev := <-s.events:
			return ev, true
		case <-time.After(slotTimeout):
			return event{}, false
		}
	}
	// start the threads one after the other; each parks before its first operation
	for t := 0; t < n; t++ {
		t := t
		s.current = t
		go func() {
			defer func() {
				if r := recover(); r != nil {
					s.result = "panic:" + strings.ReplaceAll(fmt.Sprint(r), " ", "_")
				}
				s.events <- event{t: t, done: true}
			}()
			for _, o := range c.threads[t] {
				s.park()
				if t%2 == 1 {
					s.result = w2.runOp(o)
				} else {
					s.result = w.runOp(o)
				}
			}
		}()
		ev, ok := wait()
		if !ok {
			return "timeout-at-start"
		}
		done[t] = ev.done
	}
	var toks []string
	slot := func(t int) bool {
		if t < 0 || t >= n || done[t] {
			toks = append(toks, "-")
			return true
		}
		s.current = t
		s.result = ""
		s.grant[t] <- struct{}{}
		ev, ok := wait()
		if !ok {
			toks = append(toks, "timeout")
			return false
		}
		done[t] = ev.done
		if s.result != "" {
			toks = append(toks, s.result)
		} else {
			toks = append(toks, ".")
		}
		return true
	}
	for _, t := range c.sched {
		if !slot(t) {
			return strings.Join(toks, " ")
		}
	}
	// drain round-robin
	for guard := 0; guard < 100000; guard++ {
		all := true
		for t := 0; t < n; t++ {
			if !done[t] {
				all = false
				if !slot(t) {
					return strings.Join(toks, " ")
				}
			}
		}
		if all {
			break
		}
	}
	toks = append(toks, "|")
	toks = append(toks, w.digest(c)...)
	mem.Close()
	return strings.Join(toks, " ")
}

// digest prints the final store in the order the model uses: counter, index entries in order of
// first appearance of the domain in the case, records and delete claims by ascending id, client
// lists in order of first appearance of the client, the global list, the registry.
func (w *world) digest(c *tcase) []string {
	var out []string
	mem := w.store.Storage
	covered := map[string]bool{}
	next := int64(0)
	covered[repos.KeyHTTPDomainNextID] = true
	if v, err := mem.Get(repos.KeyHTTPDomainNextID); err == nil {
		if x, ok := v.(int64); ok {
			next = x
		}
	}
	out = append(out, fmt.Sprintf("n%d", next))
	seenDom := map[string]bool{}
	seenCl := map[int64]bool{}
	var doms []string
	var clients []int64
	for _, th := range c.threads {
		for _, o := range th {
			if o.kind == 'c' {
				d := o.sub + "." + o.base
				if !seenDom[d] {
					seenDom[d] = true
					doms = append(doms, d)
				}
			}
			if (o.kind == 'c' || o.kind == 'd') && !seenCl[o.client] {
				seenCl[o.client] = true
				clients = append(clients, o.client)
			}
		}
	}
	for _, d := range doms {
		k := repos.HTTPDomainIndexKey(d)
		covered[k] = true
		if v, err := mem.Get(k); err == nil {
			out = append(out, fmt.Sprintf("i:%s=%s", hx(d), idNum(fmt.Sprint(v))))
		}
	}
	for id := int64(1); id <= next; id++ {
		k := repos.HTTPDomainMappingKey(fmt.Sprintf("hdm_%d", id))
		covered[k] = true
		v, err := mem.Get(k)
		if err != nil {
			continue
		}
		var m repos.HTTPDomainMapping
		js, _ := v.(string)
		if json.Unmarshal([]byte(js), &m) != nil {
			out = append(out, fmt.Sprintf("m:%d:undecodable", id))
			continue
		}
		out = append(out, fmt.Sprintf("m:%s:%s:%d:%s:%d:%s:%d", idNum(m.ID), hx(m.FullDomain), m.ClientID, hx(m.TargetHost), m.TargetPort, hx(string(m.Status)), m.ExpiresAt))
	}
	listStr := func(k string) (string, bool) {
		l, err := mem.GetList(k)
		if err != nil {
			return "", false
		}
		if len(l) == 0 {
			return "-", true
		}
		var xs []string
		for _, v := range l {
			xs = append(xs, idNum(fmt.Sprint(v)))
		}
		return strings.Join(xs, "."), true
	}
	for _, cl := range clients {
		k := repos.HTTPDomainClientKey(cl)
		covered[k] = true
		if s, ok := listStr(k); ok {
			out = append(out, fmt.Sprintf("cl:%d=%s", cl, s))
		}
	}
	covered[repos.KeyHTTPDomainMappingList] = true
	if s, ok := listStr(repos.KeyHTTPDomainMappingList); ok {
		out = append(out, "gl="+s)
	}
	for _, k := range w.store.ord {
		if !covered[k] {
			if ok, _ := mem.Exists(k); ok {
				out = append(out, "?key:"+hx(k))
			}
		}
	}
	// registry (old in-memory source) in order of first appearance of the domain in reg ++ cloud
	all := w.reg.GetAllMappings()
	seenR := map[string]bool{}
	for _, e := range append(append([]ext{}, c.reg...), c.cloud...) {
		d := e.sub + "." + e.base
		if seenR[d] {
			continue
		}
		seenR[d] = true
		if m, ok := all[d]; ok {
			out = append(out, fmt.Sprintf("rg:%s=%s:%d", hx(d), hx(m.ID), m.TargetClientID))
			delete(all, d)
		}
	}
	for d := range all {
		out = append(out, "?rg:"+hx(d))
	}
	return out
}

// ---------------------------------------------------------------- single storage-failure cases
//
//	c19f now N bases k … pre n op… F k <create-op>   ##   <digest before> | <result> | <digest after>
//
// `pre` runs sequentially without failures; then the create runs with its k-th storage call failing once.

type fcase struct {
	now   int64
	bases []string
	pre   []op
	k     int
	op    op
}

func (f *fcase) String() string {
	var sb strings.Builder
	fmt.Fprintf(&sb, "c19f now %d bases %d", f.now, len(f.bases))
	for _, b := range f.bases {
		sb.WriteString(" " + hx(b))
	}
	fmt.Fprintf(&sb, " pre %d", len(f.pre))
	for _, o := range f.pre {
		sb.WriteString(" " + o.String())
	}
	fmt.Fprintf(&sb, " F %d %s", f.k, f.op.String())
	return sb.String()
}

func parseFCase(toks []string) (*fcase, error) {
	r := &tokReader{toks: toks}
	f := &fcase{}
	r.expect("c19f")
	r.expect("now")
	f.now = r.num()
	r.expect("bases")
	for n := r.num(); n > 0 && r.err == nil; n-- {
		f.bases = append(f.bases, r.hex())
	}
	r.expect("pre")
	for n := r.num(); n > 0 && r.err == nil; n-- {
		o, err := parseOp(r.next())
		if err != nil {
			return nil, err
		}
		f.pre = append(f.pre, o)
	}
	r.expect("F")
	f.k = int(r.num())
	o, err := parseOp(r.next())
	if err != nil {
		return nil, err
	}
	f.op = o
	if r.err != nil {
		return nil, r.err
	}
	if f.op.kind != 'c' || r.i != len(toks) {
		return nil, fmt.Errorf("bad fault case")
	}
	return f, nil
}

func execFCase(f *fcase) (obs string) {
	defer func() {
		if r := recover(); r != nil {
			obs = "panic:" + strings.ReplaceAll(fmt.Sprint(r), " ", "_")
		}
	}()
	mem := memory.New(context.Background())
	gs := &gatedStore{Storage: mem, keys: map[string]bool{}}
	repo := repos.NewHTTPDomainMappingRepository(repos.NewRepository(gs), f.bases)
	reg := httpservice.NewDomainRegistry(f.bases)
	deps := &httpservice.ModuleDependencies{HTTPDomainMappingRepo: repo, DomainRegistry: reg}
	w := &world{repo: repo, proxy: domainproxy.VerifNewForLookup(deps), reg: reg, store: gs}
	for _, o := range f.pre {
		w.runOp(o)
	}
	uni := &tcase{now: f.now, bases: f.bases, threads: [][]op{append(append([]op{}, f.pre...), f.op)}}
	before := w.digest(uni)
	gs.calls, gs.failAt = 0, f.k
	res := w.runOp(f.op)
	gs.failAt = 0
	after := w.digest(uni)
	mem.Close()
	return strings.Join(before, " ") + " | " + res + " | " + strings.Join(after, " ")
}

func emitF(out *vc.Out, f *fcase) {
	obs := execFCase(f)
	out.Count("kind:fault-create")
	out.Count(fmt.Sprintf("fault:k=%d", f.k))
	out.Case(f.String(), obs, f.String())
}

// ---------------------------------------------------------------- DomainRegistry cases
//
//	c19q bases k … ops n <op>…                       sequential history (r:<ext> Register, x:<dom> Unregister, l:<host> LookupByHost)
//	c19r bases k … cl n <ext>… hold h round j        n simultaneous Register calls, released by a barrier
//	                                                  (hold=1: the barrier is the registry's own write lock)
//	obs c19q: one result per op;  obs c19r: "<tid>=<res>" in order of return, then "L=<LookupByHost of claimant 0's name>"

func regRes(err error) string {
	if err == nil {
		return "ok"
	}
	return codeOf(err)
}

func lookRes(pm *models.PortMapping, ok bool) string {
	if !ok {
		return "nf"
	}
	return fmt.Sprintf("f:%s:%d", hx(pm.ID), pm.TargetClientID)
}

type rop struct {
	kind byte // 'r' Register, 'x' Unregister, 'l' LookupByHost, 'i' UnregisterByMappingID, 'b' Rebuild, 'a' IsSubdomainAvailable
	e    ext
	s    string
	s2   string
	es   []ext
}

func (o rop) String() string {
	switch o.kind {
	case 'r':
		return "r:" + o.e.String()
	case 'x':
		return "x:" + hx(o.s)
	case 'i':
		return "xi:" + hx(o.s)
	case 'a':
		return "av:" + hx(o.s) + ":" + hx(o.s2)
	case 'b':
		var xs []string
		for _, e := range o.es {
			xs = append(xs, e.String())
		}
		return "rb=" + strings.Join(xs, ",")
	}
	return "l:" + hx(o.s)
}

func basesStr(b []string) string {
	var sb strings.Builder
	fmt.Fprintf(&sb, "bases %d", len(b))
	for _, x := range b {
		sb.WriteString(" " + hx(x))
	}
	return sb.String()
}

func parseBases(r *tokReader) []string {
	var out []string
	r.expect("bases")
	for n := r.num(); n > 0 && r.err == nil; n-- {
		out = append(out, r.hex())
	}
	return out
}

func runRegSeq(toks []string) (string, string, error) {
	r := &tokReader{toks: toks}
	r.expect("c19q")
	bases := parseBases(r)
	r.expect("ops")
	var ops []rop
	for n := r.num(); n > 0 && r.err == nil; n-- {
		tok := r.next()
		switch {
		case strings.HasPrefix(tok, "r:"):
			e, err := parseExt(tok[2:])
			if err != nil {
				return "", "", err
			}
			ops = append(ops, rop{kind: 'r', e: e})
		case strings.HasPrefix(tok, "rb="):
			o := rop{kind: 'b'}
			if body := tok[3:]; body != "" {
				for _, et := range strings.Split(body, ",") {
					e, err := parseExt(et)
					if err != nil {
						return "", "", err
					}
					o.es = append(o.es, e)
				}
			}
			ops = append(ops, o)
		case strings.HasPrefix(tok, "xi:"):
			v, err := uhx(tok[3:])
			if err != nil {
				return "", "", err
			}
			ops = append(ops, rop{kind: 'i', s: v})
		case strings.HasPrefix(tok, "av:"):
			f := strings.Split(tok, ":")
			if len(f) != 3 {
				return "", "", fmt.Errorf("bad av")
			}
			a, err1 := uhx(f[1])
			b, err2 := uhx(f[2])
			if err1 != nil || err2 != nil {
				return "", "", fmt.Errorf("bad av")
			}
			ops = append(ops, rop{kind: 'a', s: a, s2: b})
		case strings.HasPrefix(tok, "x:"), strings.HasPrefix(tok, "l:"):
			v, err := uhx(tok[2:])
			if err != nil {
				return "", "", err
			}
			ops = append(ops, rop{kind: tok[0], s: v})
		default:
			return "", "", fmt.Errorf("bad registry op %q", tok)
		}
	}
	if r.err != nil || r.i != len(toks) {
		return "", "", fmt.Errorf("bad c19q case")
	}
	return strings.Join(toks, " "), execRegSeq(bases, ops), nil
}

func execRegSeq(bases []string, ops []rop) (obs string) {
	defer func() {
		if r := recover(); r != nil {
			obs = "panic:" + strings.ReplaceAll(fmt.Sprint(r), " ", "_")
		}
	}()
	reg := httpservice.NewDomainRegistry(bases)
	var out []string
	for _, o := range ops {
		switch o.kind {
		case 'r':
			out = append(out, regRes(reg.Register(o.e.portMapping())))
		case 'x':
			reg.Unregister(o.s)
			out = append(out, "ok")
		case 'i':
			reg.UnregisterByMappingID(o.s)
			out = append(out, "ok")
		case 'b':
			var pms []*models.PortMapping
			for _, e := range o.es {
				pms = append(pms, e.portMapping())
			}
			reg.Rebuild(pms)
			out = append(out, "ok")
		case 'a':
			if reg.IsSubdomainAvailable(o.s, o.s2) {
				out = append(out, "b:1")
			} else {
				out = append(out, "b:0")
			}
		default:
			out = append(out, lookRes(reg.LookupByHost(o.s)))
		}
	}
	return strings.Join(out, " ")
}

func regSeqCase(bases []string, ops []rop) string {
	var sb strings.Builder
	sb.WriteString("c19q " + basesStr(bases))
	fmt.Fprintf(&sb, " ops %d", len(ops))
	for _, o := range ops {
		sb.WriteString(" " + o.String())
	}
	return sb.String()
}

func raceCase(bases []string, cls []ext, hold bool, round int) string {
	var sb strings.Builder
	sb.WriteString("c19r " + basesStr(bases))
	fmt.Fprintf(&sb, " cl %d", len(cls))
	for _, e := range cls {
		sb.WriteString(" " + e.String())
	}
	h := 0
	if hold {
		h = 1
	}
	fmt.Fprintf(&sb, " hold %d round %d", h, round)
	return sb.String()
}

func parseRace(toks []string) ([]string, []ext, bool, error) {
	r := &tokReader{toks: toks}
	r.expect("c19r")
	bases := parseBases(r)
	r.expect("cl")
	var cls []ext
	for n := r.num(); n > 0 && r.err == nil; n-- {
		e, err := parseExt(r.next())
		if err != nil {
			return nil, nil, false, err
		}
		cls = append(cls, e)
	}
	r.expect("hold")
	hold := r.num() == 1
	r.expect("round")
	r.num()
	if r.err != nil || r.i != len(toks) {
		return nil, nil, false, fmt.Errorf("bad c19r case")
	}
	return bases, cls, hold, nil
}

// execRace: all claimants call the real Register at the same moment on a fresh registry.
func execRace(bases []string, cls []ext, hold bool) (obs string) {
	reg := httpservice.NewDomainRegistry(bases)
	n := len(cls)
	var ticket int64
	order := make([]string, n)
	start := make(chan struct{})
	var ready, done sync.WaitGroup
	if hold {
		reg.VerifHoldWrite()
	}
	for i := 0; i < n; i++ {
		ready.Add(1)
		done.Add(1)
		go func(i int, pm *models.PortMapping) {
			defer done.Done()
			res := "panic"
			defer func() {
				if r := recover(); r != nil {
					res = "panic:" + strings.ReplaceAll(fmt.Sprint(r), " ", "_")
				}
				k := atomic.AddInt64(&ticket, 1)
				order[k-1] = fmt.Sprintf("%d=%s", i, res)
			}()
			ready.Done()
			<-start
			res = regRes(reg.Register(pm))
		}(i, cls[i].portMapping())
	}
	ready.Wait()
	close(start)
	if hold {
		// let every claimant reach its first lock acquisition inside Register, then release them together
		for k := 0; k < 50; k++ {
			runtime.Gosched()
		}
		time.Sleep(200 * time.Microsecond)
		reg.VerifReleaseWrite()
	}
	fin := make(chan struct{})
	go func() { done.Wait(); close(fin) }()
	select {
	case <-fin:
	case <-time.After(slotTimeout):
		return "timeout"
	}
	d := cls[0].sub + "." + cls[0].base
	return strings.Join(order, " ") + " L=" + lookRes(reg.LookupByHost(d))
}

// ---------------------------------------------------------------- late / duplicate UnregisterByMappingID around a re-claim
//
//	c19u bases k … old <ext> new <ext> third <ext> round j
//
// Mapping `old` owns the name.  Two UnregisterByMappingID(old.id) calls (a retried DELETE /mappings/{id}) and one
// Register(new) for the same name start at the same moment (barrier = the registry's write lock, so all three sit at
// their first lock acquisition); afterwards, sequentially: LookupByHost, Register(third), LookupByHost.
// obs: "S=<setup>" then "U1=ok" "U2=ok" "R=<res>" in order of return, then "L=…" "R3=…" "L2=…".

func uraceCase(bases []string, old, nw, third ext, round int) string {
	return fmt.Sprintf("c19u %s old %s new %s third %s round %d", basesStr(bases), old.String(), nw.String(), third.String(), round)
}

func parseURace(toks []string) ([]string, ext, ext, ext, error) {
	r := &tokReader{toks: toks}
	r.expect("c19u")
	bases := parseBases(r)
	var es [3]ext
	for i, kw := range []string{"old", "new", "third"} {
		r.expect(kw)
		e, err := parseExt(r.next())
		if err != nil {
			return nil, ext{}, ext{}, ext{}, err
		}
		es[i] = e
	}
	r.expect("round")
	r.num()
	if r.err != nil || r.i != len(toks) {
		return nil, ext{}, ext{}, ext{}, fmt.Errorf("bad c19u case")
	}
	return bases, es[0], es[1], es[2], nil
}

func execURace(bases []string, old, nw, third ext) string {
	reg := httpservice.NewDomainRegistry(bases)
	setup := regRes(reg.Register(old.portMapping()))
	var ticket int64
	order := make([]string, 3)
	var ready, done sync.WaitGroup
	start := make(chan struct{})
	reg.VerifHoldWrite()
	run := func(name string, f func() string) {
		ready.Add(1)
		done.Add(1)
		go func() {
			defer done.Done()
			res := "panic"
			defer func() {
				if r := recover(); r != nil {
					res = "panic:" + strings.ReplaceAll(fmt.Sprint(r), " ", "_")
				}
				k := atomic.AddInt64(&ticket, 1)
				order[k-1] = name + "=" + res
			}()
			ready.Done()
			<-start
			res = f()
		}()
	}
	run("U1", func() string { reg.UnregisterByMappingID(old.id); return "ok" })
	run("U2", func() string { reg.UnregisterByMappingID(old.id); return "ok" })
	run("R", func() string { return regRes(reg.Register(nw.portMapping())) })
	ready.Wait()
	close(start)
	for k := 0; k < 50; k++ {
		runtime.Gosched()
	}
	time.Sleep(200 * time.Microsecond)
	reg.VerifReleaseWrite()
	fin := make(chan struct{})
	go func() { done.Wait(); close(fin) }()
	select {
	case <-fin:
	case <-time.After(slotTimeout):
		return "timeout"
	}
	d := old.sub + "." + old.base
	l1 := lookRes(reg.LookupByHost(d + ":443"))
	r3 := regRes(reg.Register(third.portMapping()))
	l2 := lookRes(reg.LookupByHost(d))
	return "S=" + setup + " " + strings.Join(order, " ") + " L=" + l1 + " R3=" + r3 + " L2=" + l2
}

// ---------------------------------------------------------------- main

func emit(out *vc.Out, key string, c *tcase, kind string) {
	cs := c.String()
	obs := execCase(c)
	out.Count("kind:" + kind)
	for _, tok := range strings.Fields(obs) {
		if tok == "|" {
			break
		}
		switch {
		case strings.HasPrefix(tok, "ok:"):
			out.Count("res:create-ok")
		case strings.HasPrefix(tok, "r:"):
			out.Count("res:routed")
		case tok == "ok":
			out.Count("res:ok")
		case strings.HasPrefix(tok, "e:"):
			out.Count("res:" + tok)
		case strings.HasPrefix(tok, "panic"), tok == "timeout":
			out.Count("res:abnormal")
		}
	}
	nontrivial := ""
	if len(c.threads) > 1 || len(c.sched) > 0 {
		nontrivial = cs
	}
	if key != "" {
		cs = "K:" + key + " " + cs
	}
	out.Case(cs, obs, nontrivial)
}

func replayFile(out *vc.Out, path string) {
	data, err := os.ReadFile(path)
	if err != nil {
		fmt.Fprintln(os.Stderr, err)
		os.Exit(3)
	}
	for _, line := range strings.Split(string(data), "\n") {
		line = strings.TrimSpace(line)
		if line == "" || strings.HasPrefix(line, "#") {
			continue
		}
		if i := strings.Index(line, " ## "); i >= 0 {
			line = line[:i]
		}
		key := ""
		if strings.HasPrefix(line, "K:") {
			sp := strings.IndexByte(line, ' ')
			key, line = line[2:sp], line[sp+1:]
		}
		if strings.HasPrefix(line, "c19h ") {
			hcs, err := parseHCase(strings.Fields(line))
			if err != nil {
				fmt.Fprintln(os.Stderr, "bad corpus line:", err)
				os.Exit(3)
			}
			emitH(out, hcs)
			continue
		}
		if strings.HasPrefix(line, "c19q ") {
			cs, obs, err := runRegSeq(strings.Fields(line))
			if err != nil {
				fmt.Fprintln(os.Stderr, "bad corpus line:", err)
				os.Exit(3)
			}
			out.Count("kind:registry-seq")
			out.Case(cs, obs, cs)
			continue
		}
		if strings.HasPrefix(line, "c19u ") {
			bases, old, nw, third, err := parseURace(strings.Fields(line))
			if err != nil {
				fmt.Fprintln(os.Stderr, "bad corpus line:", err)
				os.Exit(3)
			}
			cs := strings.Join(strings.Fields(line), " ")
			for k := 0; k < 300; k++ {
				out.Count("kind:registry-late-unregister")
				out.Case(cs, execURace(bases, old, nw, third), "")
			}
			continue
		}
		if strings.HasPrefix(line, "c19r ") {
			bases, cls, hold, err := parseRace(strings.Fields(line))
			if err != nil {
				fmt.Fprintln(os.Stderr, "bad corpus line:", err)
				os.Exit(3)
			}
			// a recorded race is replayed many times: the interleaving is up to the Go scheduler
			cs := strings.Join(strings.Fields(line), " ")
			for k := 0; k < 400; k++ {
				obs := execRace(bases, cls, hold)
				out.Count("kind:registry-race")
				out.Case(cs, obs, "")
			}
			continue
		}
		if strings.HasPrefix(line, "c19f ") {
			f, err := parseFCase(strings.Fields(line))
			if err != nil {
				fmt.Fprintln(os.Stderr, "bad corpus line:", err)
				os.Exit(3)
			}
			emitF(out, f)
			continue
		}
		c, err := parseCase(strings.Fields(line))
		if err != nil {
			fmt.Fprintln(os.Stderr, "bad corpus line:", err)
			os.Exit(3)
		}
		emit(out, key, c, "corpus")
	}
}

func main() {
	tier := flag.String("tier", "quick", "quick | thorough")
	seed := flag.Uint64("seed", 1, "seed")
	stats := flag.String("stats", "", "stats file")
	noGen := flag.Bool("nogen", false, "only replay the corpus files")
	flag.Parse()
	out := vc.NewOut()
	for _, f := range flag.Args() {
		replayFile(out, f)
	}
	if !*noGen {
		generate(out, vc.NewRand(*seed), *tier == "thorough")
	}
	out.Finish(*stats, nil)
}
