//go:build verif

package main

// Entry-point histories (sequential):
//
//	c19h now N bases k … ops n <hop>…   ##   <result per op> | <final store digest>
//
//	hc:<client>:<sub>:<base>:<scheme>:<host>:<port>:<ttl>   HTTPDomainCreateHandler.Handle (ctx.ClientID = client)
//	hd:<client>:<id>                                         HTTPDomainDeleteHandler.Handle
//	cu | la | ls:<client> | av:<sub>:<base>                  CleanupExpiredMappings, ListAllMappings, GetMappingsByClientID, IsSubdomainAvailable
//	s:<host>                                                 DomainProxyModule.ServeHTTP (GET /p) with a recording session manager
//	c:/d:/u:/l:                                              the direct operations of the main cases
//
// Two repository instances over the same storage (two nodes / a restarted node) serve the operations alternately.

import (
	"context"
	"encoding/json"
	"fmt"
	"net/http/httptest"
	"sort"
	"strconv"
	"strings"
	"time"

	"tunnox-core/internal/app/server"
	"tunnox-core/internal/cloud/repos"
	"tunnox-core/internal/command"
	"tunnox-core/internal/core/storage/memory"
	"tunnox-core/internal/httpservice"
	"tunnox-core/internal/httpservice/modules/domainproxy"
	"tunnox-core/internal/packet"
	"tunnox-core/internal/protocol/httptypes"
	vc "tunnox-core/internal/verifharness/common"
)

type hop struct {
	kind   string // hc hd cu la ls av s op
	client int64
	sub    string
	base   string
	scheme string
	host   string
	port   int
	ttl    int
	id     int
	o      op
}

func (h hop) String() string {
	switch h.kind {
	case "hc":
		return fmt.Sprintf("hc:%d:%s:%s:%s:%s:%d:%d", h.client, hx(h.sub), hx(h.base), hx(h.scheme), hx(h.host), h.port, h.ttl)
	case "hd":
		return fmt.Sprintf("hd:%d:%d", h.client, h.id)
	case "cu", "la":
		return h.kind
	case "ls":
		return fmt.Sprintf("ls:%d", h.client)
	case "av":
		return fmt.Sprintf("av:%s:%s", hx(h.sub), hx(h.base))
	case "s":
		return "s:" + hx(h.host)
	}
	return h.o.String()
}

func parseHop(tok string) (hop, error) {
	var err error
	f := strings.Split(tok, ":")
	switch f[0] {
	case "hc":
		if len(f) != 8 {
			return hop{}, fmt.Errorf("bad hc")
		}
		return hop{kind: "hc", client: atoi(f[1], &err), sub: unhexE(f[2], &err), base: unhexE(f[3], &err), scheme: unhexE(f[4], &err),
			host: unhexE(f[5], &err), port: int(atoi(f[6], &err)), ttl: int(atoi(f[7], &err))}, err
	case "hd":
		if len(f) != 3 {
			return hop{}, fmt.Errorf("bad hd")
		}
		return hop{kind: "hd", client: atoi(f[1], &err), id: int(atoi(f[2], &err))}, err
	case "cu", "la":
		return hop{kind: f[0]}, nil
	case "ls":
		if len(f) != 2 {
			return hop{}, fmt.Errorf("bad ls")
		}
		return hop{kind: "ls", client: atoi(f[1], &err)}, err
	case "av":
		if len(f) != 3 {
			return hop{}, fmt.Errorf("bad av")
		}
		return hop{kind: "av", sub: unhexE(f[1], &err), base: unhexE(f[2], &err)}, err
	case "s":
		if len(f) != 2 {
			return hop{}, fmt.Errorf("bad s")
		}
		return hop{kind: "s", host: unhexE(f[1], &err)}, err
	}
	o, e := parseOp(tok)
	return hop{kind: "op", o: o}, e
}

type hcase struct {
	now   int64
	bases []string
	ops   []hop
}

func (c *hcase) String() string {
	var sb strings.Builder
	fmt.Fprintf(&sb, "c19h now %d %s ops %d", c.now, basesStr(c.bases), len(c.ops))
	for _, o := range c.ops {
		sb.WriteString(" " + o.String())
	}
	return sb.String()
}

func parseHCase(toks []string) (*hcase, error) {
	r := &tokReader{toks: toks}
	c := &hcase{}
	r.expect("c19h")
	r.expect("now")
	c.now = r.num()
	c.bases = parseBases(r)
	r.expect("ops")
	for n := r.num(); n > 0 && r.err == nil; n-- {
		h, err := parseHop(r.next())
		if err != nil {
			return nil, err
		}
		c.ops = append(c.ops, h)
	}
	if r.err != nil || r.i != len(toks) {
		return nil, fmt.Errorf("bad c19h case")
	}
	return c, nil
}

// recording session manager: who gets the proxied request, and for which target
type recSession struct {
	httpservice.SessionManagerInterface
	client int64
	url    string
}
type fakeConn struct{}

func (fakeConn) GetConnID() string     { return "c" }
func (fakeConn) GetRemoteAddr() string { return "r" }

func (s *recSession) GetControlConnectionInterface(clientID int64) httpservice.ControlConnectionAccessor {
	return fakeConn{}
}
func (s *recSession) SendHTTPProxyRequest(clientID int64, req *httptypes.HTTPProxyRequest) (*httptypes.HTTPProxyResponse, error) {
	s.client, s.url = clientID, req.URL
	return &httptypes.HTTPProxyResponse{StatusCode: 200, Body: []byte("ok")}, nil
}

// codeIn extracts the first "[CODE]" of an error text.
func codeIn(s string) string {
	i := strings.IndexByte(s, '[')
	j := strings.IndexByte(s, ']')
	if i >= 0 && j > i {
		return "e:" + s[i+1:j]
	}
	return "e:?" + strings.ReplaceAll(s, " ", "_")
}

func idList(ms []*repos.HTTPDomainMapping) string {
	if len(ms) == 0 {
		return "ids:-"
	}
	var xs []string
	for _, m := range ms {
		xs = append(xs, idNum(m.ID))
	}
	return "ids:" + strings.Join(xs, ".")
}

func execHCase(c *hcase) (obs string) {
	defer func() {
		if r := recover(); r != nil {
			obs = "panic:" + strings.ReplaceAll(fmt.Sprint(r), " ", "_")
		}
	}()
	mem := memory.New(context.Background())
	gs := &gatedStore{Storage: mem, keys: map[string]bool{}}
	// two repository instances over one storage
	repoA := repos.NewHTTPDomainMappingRepository(repos.NewRepository(gs), c.bases)
	repoB := repos.NewHTTPDomainMappingRepository(repos.NewRepository(gs), c.bases)
	reg := httpservice.NewDomainRegistry(c.bases)
	sess := &recSession{}
	var out []string
	ttlOf := map[string]int64{}  // mapping id -> ttl given by the create handler
	bornAt := map[string]int64{} // mapping id -> wall clock at the call
	norm := func(id string, exp int64) int64 {
		// the handler stamps expiry with the wall clock; the model's clock is the case's `now`
		if ttl, ok := ttlOf[id]; ok {
			if d := exp - (bornAt[id] + ttl); d >= 0 && d <= 2 {
				return c.now + ttl
			}
		}
		return exp
	}
	for k, h := range c.ops {
		repo := repoA
		if k%2 == 1 {
			repo = repoB
		}
		adapter := server.NewHTTPDomainRepositoryAdapter(repo)
		deps := &httpservice.ModuleDependencies{HTTPDomainMappingRepo: repo, DomainRegistry: reg, SessionMgr: sess}
		w := &world{repo: repo, proxy: domainproxy.VerifNewForLookup(deps), reg: reg, store: gs}
		switch h.kind {
		case "hc":
			url := h.scheme + "://" + h.host
			if h.port != 0 {
				url += ":" + strconv.Itoa(h.port)
			}
			body, _ := json.Marshal(packet.HTTPDomainCreateRequest{TargetURL: url, Subdomain: h.sub, BaseDomain: h.base, MappingTTL: h.ttl})
			t0 := time.Now().Unix()
			resp, err := command.NewHTTPDomainCreateHandler(adapter, adapter).Handle(&command.CommandContext{ConnectionID: "conn", ClientID: h.client, RequestBody: string(body)})
			if err != nil || resp == nil {
				out = append(out, "e:?handler")
				continue
			}
			var r packet.HTTPDomainCreateResponse
			_ = json.Unmarshal([]byte(resp.Data), &r)
			switch {
			case r.Success:
				ttl := int64(h.ttl)
				if ttl <= 0 {
					ttl = 7 * 24 * 3600
				}
				ttlOf[r.MappingID], bornAt[r.MappingID] = ttl, t0
				out = append(out, "ok:"+idNum(r.MappingID))
			case strings.Contains(r.Error, "client not authenticated"):
				out = append(out, "x:AUTH")
			case strings.Contains(r.Error, "are required"):
				out = append(out, "x:REQ")
			case strings.Contains(r.Error, "base domain not allowed"):
				out = append(out, "x:BASE")
			case strings.Contains(r.Error, "subdomain already in use"):
				out = append(out, "x:INUSE")
			default:
				out = append(out, codeIn(strings.TrimPrefix(r.Error, "failed to create mapping: ")))
			}
		case "hd":
			body, _ := json.Marshal(packet.HTTPDomainDeleteRequest{MappingID: fmt.Sprintf("hdm_%d", h.id)})
			resp, err := command.NewHTTPDomainDeleteHandler(adapter).Handle(&command.CommandContext{ConnectionID: "conn", ClientID: h.client, RequestBody: string(body)})
			if err != nil || resp == nil {
				out = append(out, "e:?handler")
				continue
			}
			var r packet.HTTPDomainDeleteResponse
			_ = json.Unmarshal([]byte(resp.Data), &r)
			if r.Success {
				out = append(out, "ok")
			} else if strings.Contains(r.Error, "client not authenticated") {
				out = append(out, "x:AUTH")
			} else {
				out = append(out, codeIn(strings.TrimPrefix(r.Error, "failed to delete mapping: ")))
			}
		case "cu":
			before := recordsOf(mem)
			n, err := repo.CleanupExpiredMappings(context.Background())
			if err != nil {
				out = append(out, codeOf(err))
				continue
			}
			after := recordsOf(mem)
			var gone []string
			var ids []int
			for id := range before {
				if _, ok := after[id]; !ok {
					ids = append(ids, id)
				}
			}
			sort.Ints(ids)
			// the model lists them in deletion order = global list order = ascending ids
			for _, id := range ids {
				m := before[id]
				gone = append(gone, fmt.Sprintf("%d/%d/%d", id, m.ClientID, norm(m.ID, m.ExpiresAt)))
			}
			g := "-"
			if len(gone) > 0 {
				g = strings.Join(gone, ",")
			}
			out = append(out, fmt.Sprintf("cu:%d:%s", n, g))
		case "la":
			ms, err := repo.ListAllMappings(context.Background())
			if err != nil {
				out = append(out, codeOf(err))
			} else {
				out = append(out, idList(ms))
			}
		case "ls":
			ms, err := repo.GetMappingsByClientID(context.Background(), h.client)
			if err != nil {
				out = append(out, codeOf(err))
			} else {
				out = append(out, idList(ms))
			}
		case "av":
			if adapter.IsSubdomainAvailable(h.sub, h.base) {
				out = append(out, "b:1")
			} else {
				out = append(out, "b:0")
			}
		case "s":
			sess.client, sess.url = -1, ""
			mod := domainproxy.VerifNewForServe(deps, &httpservice.DomainProxyModuleConfig{CommandModeThreshold: 1 << 20, RequestTimeout: time.Second})
			req := httptest.NewRequest("GET", "http://placeholder/p", nil)
			req.Host = h.host
			rec := httptest.NewRecorder()
			mod.ServeHTTP(rec, req)
			if sess.client >= 0 {
				out = append(out, fmt.Sprintf("sv:%d:%s", sess.client, hx(sess.url)))
			} else {
				out = append(out, fmt.Sprintf("st:%d", rec.Code))
			}
		default:
			out = append(out, w.runOp(h.o))
		}
	}
	// digest over the names / clients of the history
	var flat []op
	for _, h := range c.ops {
		switch h.kind {
		case "hc":
			flat = append(flat, op{kind: 'c', client: h.client, sub: h.sub, base: h.base})
		case "hd":
			flat = append(flat, op{kind: 'd', client: h.client, id: h.id})
		case "op":
			flat = append(flat, h.o)
		}
	}
	uni := &tcase{now: c.now, bases: c.bases, threads: [][]op{flat}}
	w := &world{repo: repoA, reg: reg, store: gs}
	dig := w.digest(uni)
	for i, tok := range dig { // normalise the wall-clock expiry stamps
		if strings.HasPrefix(tok, "m:") {
			f := strings.Split(tok, ":")
			if len(f) == 8 {
				exp, _ := strconv.ParseInt(f[7], 10, 64)
				f[7] = strconv.FormatInt(norm("hdm_"+f[1], exp), 10)
				dig[i] = strings.Join(f, ":")
			}
		}
	}
	mem.Close()
	return strings.Join(out, " ") + " | " + strings.Join(dig, " ")
}

func recordsOf(mem *memory.Storage) map[int]repos.HTTPDomainMapping {
	out := map[int]repos.HTTPDomainMapping{}
	next := int64(0)
	if v, err := mem.Get(repos.KeyHTTPDomainNextID); err == nil {
		next, _ = v.(int64)
	}
	for id := int64(1); id <= next; id++ {
		v, err := mem.Get(repos.HTTPDomainMappingKey(fmt.Sprintf("hdm_%d", id)))
		if err != nil {
			continue
		}
		var m repos.HTTPDomainMapping
		js, _ := v.(string)
		if json.Unmarshal([]byte(js), &m) == nil {
			out[int(id)] = m
		}
	}
	return out
}

func emitH(out *vc.Out, c *hcase) {
	out.Count("kind:entry-points")
	out.Case(c.String(), execHCase(c), c.String())
}

// ---- generator

func genSys(out *vc.Out, r *vc.Rand, thorough bool) {
	bases := []string{baseA}
	hc := func(client int64, sub string, port, ttl int) hop {
		return hop{kind: "hc", client: client, sub: sub, base: baseA, scheme: vc.Pick(r, []string{"http", "https"}), host: fmt.Sprintf("h%d.lan", client), port: port, ttl: ttl}
	}
	d := "a." + baseA
	fixed := [][]hop{
		// create through the handler, route, foreign delete refused, owner delete, name free again
		{hc(1, "a", 8080, 0), {kind: "s", host: d}, {kind: "s", host: d + ":443"}, {kind: "av", sub: "a", base: baseA}, hc(2, "a", 81, 60),
			{kind: "hd", client: 2, id: 1}, {kind: "s", host: d}, {kind: "ls", client: 1}, {kind: "hd", client: 1, id: 1}, {kind: "s", host: d},
			{kind: "av", sub: "a", base: baseA}, hc(2, "a", 0, 60), {kind: "s", host: d}, {kind: "la"}, {kind: "ls", client: 1}, {kind: "ls", client: 2}},
		// expiry, cleanup (twice), re-claim; an unexpired mapping survives
		{hc(1, "a", 80, 0), hc(2, "b", 0, 5), {kind: "op", o: uOp(1, "active", 1000, "h1.lan", 80)}, {kind: "s", host: d}, {kind: "cu"}, {kind: "cu"},
			{kind: "s", host: d}, {kind: "s", host: "b." + baseA}, hc(3, "a", 80, 0), {kind: "s", host: d}, {kind: "la"}, {kind: "ls", client: 1}},
		// inactive is not expired: cleanup leaves it, lookups are refused
		{hc(1, "a", 80, 0), {kind: "op", o: uOp(1, "inactive", 0, "h1.lan", 80)}, {kind: "cu"}, {kind: "s", host: d}, hc(2, "a", 80, 0), {kind: "la"}},
		// refusals of the handler itself, bad inputs, delete of unknown ids
		{{kind: "hc", client: 1, sub: "", base: baseA, scheme: "http", host: "h", port: 80}, {kind: "hc", client: 1, sub: "a", base: "nope.net", scheme: "http", host: "h", port: 80},
			{kind: "hc", client: 0, sub: "a", base: baseA, scheme: "http", host: "h", port: 80}, {kind: "hc", client: 1, sub: "a", base: baseA, scheme: "http", host: "h", port: 70000},
			hc(1, "a", 80, 0), {kind: "hd", client: 0, id: 1}, {kind: "hd", client: 1, id: 7}, {kind: "hd", client: 1, id: 0}, {kind: "cu"}, {kind: "la"}, {kind: "ls", client: 9}},
		// direct repository calls mixed with the handlers (second path to the same record)
		{{kind: "op", o: cOp(1, "a", baseA, 80)}, {kind: "hd", client: 2, id: 1}, {kind: "hd", client: 1, id: 1}, hc(2, "a", 80, 0), {kind: "op", o: dOp(2, 1)},
			{kind: "op", o: dOp(2, 2)}, {kind: "op", o: lOp(d)}, {kind: "s", host: d}, {kind: "la"}},
	}
	for _, ops := range fixed {
		emitH(out, &hcase{now: nowFixed, bases: bases, ops: ops})
	}
	n := 300
	if thorough {
		n = 4000
	}
	subs := []string{"a", "b"}
	for k := 0; k < n; k++ {
		var ops []hop
		for j := 3 + r.Intn(10); j > 0; j-- {
			sub := vc.Pick(r, subs)
			cl := int64(1 + r.Intn(3))
			switch r.Intn(12) {
			case 0, 1, 2:
				ops = append(ops, hc(cl, sub, vc.Pick(r, []int{0, 80, 8080}), vc.Pick(r, []int{0, 0, 30})))
			case 3, 4:
				ops = append(ops, hop{kind: "hd", client: cl, id: 1 + r.Intn(4)})
			case 5:
				ops = append(ops, hop{kind: "cu"})
			case 6:
				ops = append(ops, hop{kind: "op", o: uOp(1+r.Intn(3), vc.Pick(r, []string{"active", "inactive"}), vc.Pick(r, []int64{0, 1000, 1000, 4000000000}), "u.lan", 90)})
			case 7:
				ops = append(ops, vc.Pick(r, []hop{{kind: "la"}, {kind: "ls", client: cl}, {kind: "av", sub: sub, base: baseA}}))
			case 8:
				ops = append(ops, hop{kind: "op", o: vc.Pick(r, []op{cOp(cl, sub, baseA, 80), dOp(1+r.Intn(4), cl)})})
			default:
				ops = append(ops, hop{kind: "s", host: sub + "." + baseA + vc.Pick(r, []string{"", ":80", ":8443"})})
			}
		}
		emitH(out, &hcase{now: nowFixed, bases: bases, ops: ops})
	}
}
