//go:build verif

package main

import (
	"fmt"
	"strings"

	vc "tunnox-core/internal/verifharness/common"
)

const nowFixed = 2000000000 // the model's clock; expiry values used are far below or far above the real clock

var (
	baseA = "tunnox.net"
	baseB = "t.example.com"
)

func mk(bases []string) *tcase { return &tcase{now: nowFixed, bases: bases} }

func cOp(client int64, sub, base string, port int) op {
	return op{kind: 'c', client: client, sub: sub, base: base, thost: fmt.Sprintf("h%d", client), tport: port}
}
func dOp(id int, client int64) op { return op{kind: 'd', id: id, client: client} }
func uOp(id int, status string, exp int64, thost string, tport int) op {
	return op{kind: 'u', id: id, status: status, exp: exp, thost: thost, tport: tport}
}
func lOp(host string) op { return op{kind: 'l', host: host} }

// slotsOf measures, on the real code, how many slots `ops` take when run alone after `setup`.
func slotsOf(base *tcase, setup []op, ops []op) int {
	c := *base
	c.threads = [][]op{append(append([]op{}, setup...), ops...)}
	c.sched = nil
	all := countSlots(execCase(&c))
	c.threads = [][]op{setup}
	return all - countSlots(execCase(&c))
}

func countSlots(obs string) int {
	n := 0
	for _, t := range strings.Fields(obs) {
		if t == "|" {
			break
		}
		n++
	}
	return n
}

// interleavings enumerates all sequences with counts[i] occurrences of i; stops after `limit` (0 = all).
func interleavings(counts []int, limit int, f func([]int)) int {
	total := 0
	for _, c := range counts {
		total += c
	}
	cur := make([]int, 0, total)
	left := append([]int{}, counts...)
	n := 0
	var rec func() bool
	rec = func() bool {
		if len(cur) == total {
			f(cur)
			n++
			return limit == 0 || n < limit
		}
		for i := range left {
			if left[i] > 0 {
				left[i]--
				cur = append(cur, i)
				ok := rec()
				cur = cur[:len(cur)-1]
				left[i]++
				if !ok {
					return false
				}
			}
		}
		return true
	}
	rec()
	return n
}

func binom(counts []int) float64 {
	r := 1.0
	n := 0
	for _, c := range counts {
		for k := 1; k <= c; k++ {
			n++
			r = r * float64(n) / float64(k)
		}
	}
	return r
}

func randomInterleaving(r *vc.Rand, counts []int) []int {
	left := append([]int{}, counts...)
	total := 0
	for _, c := range counts {
		total += c
	}
	out := make([]int, 0, total)
	for total > 0 {
		k := r.Intn(total)
		for i := range left {
			if k < left[i] {
				out = append(out, i)
				left[i]--
				break
			}
			k -= left[i]
		}
		total--
	}
	return out
}

// segmented: every thread is cut once at a random point; the 2k segments are ordered at random
// (few context switches: the shape of realistic races).
func segmentedInterleaving(r *vc.Rand, counts []int) []int {
	type seg struct{ t, n int }
	var firsts, seconds []seg
	for t, c := range counts {
		cut := r.Intn(c + 1)
		firsts = append(firsts, seg{t, cut})
		seconds = append(seconds, seg{t, c - cut})
	}
	// random order in which a thread's second segment never precedes its first
	pendingFirst := map[int]bool{}
	for t := range counts {
		pendingFirst[t] = true
	}
	var out []int
	remaining := 2 * len(counts)
	doneSecond := map[int]bool{}
	for remaining > 0 {
		t := r.Intn(len(counts))
		if pendingFirst[t] {
			for k := 0; k < firsts[t].n; k++ {
				out = append(out, t)
			}
			pendingFirst[t] = false
			remaining--
		} else if !doneSecond[t] && r.Intn(2) == 0 {
			for k := 0; k < seconds[t].n; k++ {
				out = append(out, t)
			}
			doneSecond[t] = true
			remaining--
		}
	}
	return out
}

type template struct {
	name    string
	bases   []string
	reg     []ext
	cloud   []ext
	setup   []op
	threads [][]op // concurrent part; thread 0 also runs the setup first
}

func (tp *template) instantiate(order []int, setupSlots int) *tcase {
	c := mk(tp.bases)
	c.reg, c.cloud = tp.reg, tp.cloud
	for i, th := range tp.threads {
		if i == 0 {
			c.threads = append(c.threads, append(append([]op{}, tp.setup...), th...))
		} else {
			c.threads = append(c.threads, th)
		}
	}
	for k := 0; k < setupSlots; k++ {
		c.sched = append(c.sched, 0)
	}
	c.sched = append(c.sched, order...)
	return c
}

func extOf(sub, base string, client int64, status string, revoked bool, exp int64, id string) ext {
	return ext{sub: sub, base: base, client: client, thost: fmt.Sprintf("x%d", client), tport: 9000 + int(client), status: status, revoked: revoked, exp: exp, id: id}
}

func templates() []*template {
	b := []string{baseA}
	d := "a." + baseA
	mkA := []op{cOp(1, "a", baseA, 80)}
	act := "active"
	return []*template{
		{name: "create||create", bases: b, threads: [][]op{{cOp(1, "a", baseA, 80)}, {cOp(2, "a", baseA, 81)}}},
		{name: "create||lookup", bases: b, threads: [][]op{{cOp(1, "a", baseA, 80)}, {lOp(d + ":8080")}}},
		{name: "delete||create", bases: b, setup: mkA, threads: [][]op{{dOp(1, 1)}, {cOp(2, "a", baseA, 81)}}},
		{name: "delete||lookup", bases: b, setup: mkA, threads: [][]op{{dOp(1, 1)}, {lOp(d)}}},
		{name: "delete||lookup+cloud", bases: b, cloud: []ext{extOf("a", baseA, 7, act, false, 0, "pm7")}, setup: mkA,
			threads: [][]op{{dOp(1, 1)}, {lOp(d), lOp(d)}}},
		{name: "foreign-delete||lookup", bases: b, setup: mkA, threads: [][]op{{dOp(1, 2)}, {lOp(d)}}},
		{name: "foreign-delete||delete", bases: b, setup: mkA, threads: [][]op{{dOp(1, 2)}, {dOp(1, 1)}}},
		{name: "update||lookup", bases: b, setup: mkA, threads: [][]op{{uOp(1, "inactive", 0, "h1", 80)}, {lOp(d)}}},
		{name: "expire||lookup", bases: b, setup: mkA, threads: [][]op{{uOp(1, act, 1000, "h1", 80)}, {lOp(d + ":80")}}},
		{name: "update||delete", bases: b, setup: mkA, threads: [][]op{{uOp(1, act, 0, "h9", 99)}, {dOp(1, 1), cOp(2, "a", baseA, 81)}}},
		{name: "update||update", bases: b, setup: mkA, threads: [][]op{{uOp(1, "inactive", 0, "h1", 80)}, {uOp(1, act, 4000000000, "h8", 88), lOp(d)}}},
		{name: "delete||delete", bases: b, setup: mkA, threads: [][]op{{dOp(1, 1)}, {dOp(1, 1)}}},
		{name: "delete||delete||create", bases: b, setup: mkA, threads: [][]op{{dOp(1, 1)}, {dOp(1, 1)}, {cOp(2, "a", baseA, 81)}}},
		{name: "delete||create||lookup", bases: b, setup: mkA, threads: [][]op{{dOp(1, 1)}, {cOp(2, "a", baseA, 81)}, {lOp(d)}}},
		{name: "double-delete-reclaim", bases: b, setup: mkA,
			threads: [][]op{{dOp(1, 1)}, {dOp(1, 1)}, {cOp(2, "a", baseA, 81)}, {cOp(3, "a", baseA, 82), lOp(d)}}},
		{name: "zombie-redelete", bases: b, setup: mkA,
			threads: [][]op{{dOp(1, 1), dOp(1, 1)}, {uOp(1, act, 0, "h9", 99)}, {cOp(2, "a", baseA, 81)}, {cOp(3, "a", baseA, 82), lOp(d)}}},
		{name: "create3", bases: b, threads: [][]op{{cOp(1, "a", baseA, 80)}, {cOp(2, "a", baseA, 81)}, {cOp(3, "a", baseA, 82), lOp(d)}}},
	}
}

func genTemplates(out *vc.Out, r *vc.Rand, thorough bool) {
	exhaustLimit := 3100.0
	samples := 700
	if thorough {
		exhaustLimit = 60000
		samples = 3000
	}
	for _, tp := range templates() {
		base := mk(tp.bases)
		base.reg, base.cloud = tp.reg, tp.cloud
		setupSlots := slotsOf(base, nil, tp.setup)
		counts := make([]int, len(tp.threads))
		for i, th := range tp.threads {
			counts[i] = slotsOf(base, tp.setup, th)
		}
		if binom(counts) <= exhaustLimit {
			interleavings(counts, 0, func(order []int) {
				emit(out, "", tp.instantiate(append([]int{}, order...), setupSlots), "exhaustive:"+tp.name)
			})
			continue
		}
		for k := 0; k < samples; k++ {
			var order []int
			if k%2 == 0 {
				order = segmentedInterleaving(r, counts)
			} else {
				order = randomInterleaving(r, counts)
			}
			emit(out, "", tp.instantiate(order, setupSlots), "sampled:"+tp.name)
		}
	}
}

// ---- host spellings (sequential cases: the whole program runs in the drain)

func spellings(d string) []string {
	up := strings.ToUpper(d)
	title := strings.ToUpper(d[:1]) + d[1:]
	return []string{d, d + ":80", d + ":8080", d + ":", d + ":http", d + ":80:90", up, up + ":80", title, d + ".", d + ".:80",
		" " + d, d + " ", "x" + d, "x." + d, d[1:], "[" + d + "]", "[" + d + "]:80", "[::1]", "[::1]:80", "[fe80::1%25eth0]:80",
		"::1", "", ":", ":80", d + "\x00", d + ":80\r\n", "é" + d, d + "/x", "http://" + d}
}

func genSpellings(out *vc.Out, r *vc.Rand, thorough bool) {
	type variant struct {
		name string
		pre  []op
	}
	act := "active"
	variants := []variant{
		{"active", nil},
		{"inactive", []op{uOp(1, "inactive", 0, "h1", 80)}},
		{"status-expired", []op{uOp(1, "expired", 0, "h1", 80)}},
		{"expired", []op{uOp(1, act, 1000, "h1", 80)}},
		{"future-expiry", []op{uOp(1, act, 4000000000, "h1", 80)}},
		{"inactive+expired", []op{uOp(1, "inactive", 1000, "h1", 80)}},
		{"retargeted", []op{uOp(1, act, 0, "other", 8443)}},
		{"deleted", []op{dOp(1, 1)}},
		{"foreign-delete", []op{dOp(1, 2)}},
		{"deleted-reclaimed", []op{dOp(1, 1), cOp(2, "a", baseA, 81)}},
		{"bad-update", []op{uOp(1, act, 0, "", 80)}},
		{"bad-update-port", []op{uOp(1, act, 0, "h1", 70000)}},
	}
	exts := [][]ext{nil,
		{extOf("a", baseA, 7, act, false, 0, "pm7")},
		{extOf("a", baseA, 7, "inactive", false, 0, "pm7")},
		{extOf("a", baseA, 7, act, true, 0, "pm7")},
		{extOf("a", baseA, 7, act, false, 1000, "pm7")},
		{extOf("a", baseA, 7, act, false, 4000000000, "pm7"), extOf("A", baseA, 8, act, false, 0, "pm8")},
		{extOf("b", baseB, 7, act, false, 0, "pm7")},
		{extOf("", baseA, 7, act, false, 0, "pm0")},
	}
	d := "a." + baseA
	for vi, v := range variants {
		for ei, e := range exts {
			for where := 0; where < 3; where++ { // the foreign entry in the registry, in cloud control, or in both
				if e == nil && where > 0 {
					continue
				}
				c := mk([]string{baseA, baseB})
				if where == 0 || where == 2 {
					c.reg = e
				}
				if where == 1 || where == 2 {
					c.cloud = e
				}
				ops := []op{cOp(1, "a", baseA, 80), cOp(3, "A", baseA, 83)}
				ops = append(ops, v.pre...)
				sp := spellings(d)
				if !thorough { // quick: a rotating third of the spellings per case, the plain ones always
					var pick []string
					for i, s := range sp {
						if i < 3 || (i+vi+ei+where)%3 == 0 {
							pick = append(pick, s)
						}
					}
					sp = pick
				}
				for _, h := range sp {
					ops = append(ops, lOp(h))
				}
				ops = append(ops, lOp("b."+baseB), lOp("b."+baseB+":443"))
				c.threads = [][]op{ops}
				emit(out, "", c, "spellings:"+v.name)
			}
		}
	}
}

// ---- boundary / malformed creates (sequential)

func genBoundary(out *vc.Out) {
	c := mk([]string{baseA})
	var ops []op
	add := func(o op) { ops = append(ops, o) }
	add(op{kind: 'c', client: 1, sub: "a", base: baseA, thost: "h", tport: 1})
	add(op{kind: 'c', client: 1, sub: "b", base: baseA, thost: "h", tport: 65535})
	add(op{kind: 'c', client: 1, sub: "c", base: baseA, thost: "h", tport: 65536})
	add(op{kind: 'c', client: 1, sub: "d", base: baseA, thost: "h", tport: 0})
	add(op{kind: 'c', client: 0, sub: "e", base: baseA, thost: "h", tport: 80})
	add(op{kind: 'c', client: 1, sub: "", base: baseA, thost: "h", tport: 80})
	add(op{kind: 'c', client: 1, sub: "f", base: "", thost: "h", tport: 80})
	add(op{kind: 'c', client: 1, sub: "g", base: "other.net", thost: "h", tport: 80})
	add(op{kind: 'c', client: 1, sub: "h", base: baseA, thost: "", tport: 80})
	add(op{kind: 'c', client: 1, sub: "a", base: baseA, thost: "h", tport: 80}) // taken
	add(op{kind: 'c', client: 2, sub: "a", base: baseA, thost: "h", tport: 80}) // taken by another client
	add(op{kind: 'c', client: 2, sub: "x.y", base: baseA, thost: "h", tport: 80})
	add(op{kind: 'c', client: 2, sub: "p:q", base: baseA, thost: "h", tport: 80}) // a colon in the name
	add(op{kind: 'c', client: 2, sub: "é", base: baseA, thost: "hôte", tport: 80})
	add(op{kind: 'c', client: 2, sub: "<&>", base: baseA, thost: "\"q\"", tport: 80})
	for _, h := range []string{"a." + baseA, "b." + baseA, "c." + baseA, "x.y." + baseA, "p:q." + baseA, "p", "é." + baseA, "<&>." + baseA + ":1", "h." + baseA} {
		add(lOp(h))
	}
	add(dOp(1, 2))
	add(dOp(99, 1))
	add(dOp(0, 1))
	add(uOp(99, "active", 0, "h", 80))
	add(dOp(1, 1))
	add(dOp(1, 1))
	add(lOp("a." + baseA))
	add(op{kind: 'c', client: 2, sub: "a", base: baseA, thost: "h2", tport: 82})
	add(lOp("a." + baseA))
	c.threads = [][]op{ops}
	emit(out, "", c, "boundary")
}

// ---- random programs and schedules

func genRandom(out *vc.Out, r *vc.Rand, n int) {
	subs := []string{"a", "b", "A"}
	for k := 0; k < n; k++ {
		c := mk([]string{baseA})
		if r.Intn(3) == 0 {
			e := extOf(vc.Pick(r, subs), baseA, 7, vc.Pick(r, []string{"active", "active", "inactive"}), r.Intn(5) == 0, vc.Pick(r, []int64{0, 0, 1000, 4000000000}), "pm7")
			if r.Bool() {
				c.reg = []ext{e}
			} else {
				c.cloud = []ext{e}
			}
		}
		nth := 2 + r.Intn(3)
		total := 0
		for t := 0; t < nth; t++ {
			var ops []op
			for j := 1 + r.Intn(3); j > 0; j-- {
				switch r.Intn(10) {
				case 0, 1, 2:
					o := cOp(int64(1+r.Intn(3)), vc.Pick(r, subs), baseA, 80+r.Intn(3))
					if r.Intn(12) == 0 {
						o.tport = vc.Pick(r, []int{0, 70000})
					}
					if r.Intn(15) == 0 {
						o.base = "nope.net"
					}
					ops = append(ops, o)
				case 3, 4, 5:
					ops = append(ops, dOp(1+r.Intn(3), int64(1+r.Intn(3))))
				case 6:
					ops = append(ops, uOp(1+r.Intn(3), vc.Pick(r, []string{"active", "inactive", "expired"}), vc.Pick(r, []int64{0, 0, 1000, 4000000000}), "u", 90+r.Intn(2)))
				default:
					s := vc.Pick(r, subs) + "." + baseA
					ops = append(ops, lOp(vc.Pick(r, []string{s, s + ":80", s + ":", strings.ToUpper(s)})))
				}
			}
			total += len(ops)
			c.threads = append(c.threads, ops)
		}
		// first mapping is usually created up front so that deletes and lookups have something to act on
		if r.Intn(4) != 0 {
			c.threads[0] = append([]op{cOp(int64(1+r.Intn(3)), vc.Pick(r, subs), baseA, 80)}, c.threads[0]...)
			for i := 0; i < 6; i++ {
				c.sched = append(c.sched, 0)
			}
		}
		for i := r.Intn(total*9 + 1); i > 0; i-- {
			t := r.Intn(nth + 1) // occasionally a thread id that does not exist
			rep := 1
			if r.Intn(3) == 0 {
				rep = 1 + r.Intn(6)
			}
			for ; rep > 0; rep-- {
				c.sched = append(c.sched, t)
			}
		}
		emit(out, "", c, "random")
	}
}

// ---- single storage-failure injection for CreateMapping: every position of the failure, with the name free,
// taken, after a delete, and with invalid inputs

func genFault(out *vc.Out) {
	pres := [][]op{
		nil,
		{cOp(1, "b", baseA, 80)},
		{cOp(1, "a", baseA, 80)},
		{cOp(1, "a", baseA, 80), dOp(1, 1)},
		{cOp(1, "a", baseA, 80), cOp(2, "b", baseA, 81), dOp(1, 2), uOp(2, "inactive", 0, "h", 80)},
	}
	creates := []op{cOp(2, "a", baseA, 81), cOp(2, "a", "nope.net", 81), cOp(2, "a", baseA, 0), cOp(0, "a", baseA, 81), cOp(1, "a", baseA, 80)}
	for _, pre := range pres {
		for _, c := range creates {
			for k := 0; k <= 7; k++ {
				emitF(out, &fcase{now: nowFixed, bases: []string{baseA}, pre: pre, k: k, op: c})
			}
		}
	}
}

// ---- DomainRegistry: sequential histories (compared with the model) and simultaneous claimants (single owner)

func genRegistry(out *vc.Out, r *vc.Rand, thorough bool) {
	bases := []string{baseA}
	act := "active"
	e := func(sub, base string, client int64, id string) ext { return extOf(sub, base, client, act, false, 0, id) }
	seqs := [][]rop{
		{{kind: 'r', e: e("a", baseA, 1, "m1")}, {kind: 'r', e: e("a", baseA, 2, "m2")}, {kind: 'l', s: "a." + baseA + ":80"},
			{kind: 'r', e: e("a", baseA, 1, "m1")}, {kind: 'x', s: "a." + baseA}, {kind: 'l', s: "a." + baseA},
			{kind: 'r', e: e("a", baseA, 2, "m2")}, {kind: 'l', s: "a." + baseA}, {kind: 'x', s: "nope"}},
		{{kind: 'r', e: e("", baseA, 1, "m1")}, {kind: 'r', e: e("a", "", 1, "m1")}, {kind: 'r', e: e("a", "other.net", 1, "m1")},
			{kind: 'l', s: "a.other.net"}, {kind: 'r', e: e("A", baseA, 3, "m3")}, {kind: 'l', s: "A." + baseA}, {kind: 'l', s: "a." + baseA}},
	}
	// restart / reload: Rebuild replaces the map (stale names must be gone, later list entries win), removal by
	// mapping id, availability of a name
	seqs = append(seqs,
		[]rop{{kind: 'r', e: e("a", baseA, 1, "m1")}, {kind: 'r', e: e("b", baseA, 2, "m2")}, {kind: 'a', s: "a", s2: baseA}, {kind: 'a', s: "c", s2: baseA},
			{kind: 'b', es: []ext{e("b", baseA, 2, "m2"), e("c", baseA, 3, "m3"), e("c", baseA, 4, "m4"), e("", baseA, 5, "m5")}},
			{kind: 'l', s: "a." + baseA}, {kind: 'l', s: "b." + baseA}, {kind: 'l', s: "c." + baseA}, {kind: 'r', e: e("a", baseA, 6, "m6")},
			{kind: 'r', e: e("c", baseA, 3, "m3")}, {kind: 'i', s: "m4"}, {kind: 'l', s: "c." + baseA}, {kind: 'a', s: "c", s2: baseA}, {kind: 'i', s: "nope"},
			{kind: 'r', e: e("c", baseA, 3, "m3")}, {kind: 'b'}, {kind: 'l', s: "c." + baseA}, {kind: 'a', s: "a", s2: baseA}})
	for _, ops := range seqs {
		cs := regSeqCase(bases, ops)
		out.Count("kind:registry-seq")
		out.Case(cs, execRegSeq(bases, ops), cs)
	}
	// no configured base domains: every base is allowed
	{
		ops := []rop{{kind: 'r', e: e("a", "any.net", 1, "m1")}, {kind: 'l', s: "a.any.net:1"}}
		cs := regSeqCase(nil, ops)
		out.Count("kind:registry-seq")
		out.Case(cs, execRegSeq(nil, ops), cs)
	}
	for k := 0; k < 200; k++ {
		var ops []rop
		for j := 2 + r.Intn(8); j > 0; j-- {
			sub := vc.Pick(r, []string{"a", "b"})
			switch r.Intn(7) {
			case 0, 1:
				// a mapping id belongs to one name (management never renames a mapping)
				id := 1 + r.Intn(3)
				ops = append(ops, rop{kind: 'r', e: e(sub, vc.Pick(r, []string{baseA, baseA, "x.net"}), int64(id), fmt.Sprintf("m%d%s", id, sub))})
			case 2:
				ops = append(ops, rop{kind: 'x', s: sub + "." + baseA})
			case 3:
				ops = append(ops, rop{kind: 'i', s: fmt.Sprintf("m%d%s", 1+r.Intn(3), sub)})
			case 4:
				ops = append(ops, rop{kind: 'a', s: sub, s2: baseA})
			case 5:
				if r.Intn(3) == 0 {
					var es []ext
					for q := r.Intn(3); q > 0; q-- {
						s2 := vc.Pick(r, []string{"a", "b"})
						id := 1 + r.Intn(3)
						es = append(es, e(s2, baseA, int64(id), fmt.Sprintf("m%d%s", id, s2)))
					}
					ops = append(ops, rop{kind: 'b', es: es})
				}
			default:
				ops = append(ops, rop{kind: 'l', s: sub + "." + baseA + vc.Pick(r, []string{"", ":80"})})
			}
		}
		cs := regSeqCase(bases, ops)
		out.Count("kind:registry-seq")
		out.Case(cs, execRegSeq(bases, ops), cs)
	}
	// a duplicate / late UnregisterByMappingID of the old mapping around a re-claim of the name by another client
	urounds := 1500
	if thorough {
		urounds = 12000
	}
	for j := 0; j < urounds; j++ {
		old := e("shared", baseA, 1, "m_old")
		nw := e("shared", baseA, 2, fmt.Sprintf("m_new%d", j%3))
		third := e("shared", baseA, 3, "m_third")
		cs := uraceCase(bases, old, nw, third, j)
		out.Count("kind:registry-late-unregister")
		out.Case(cs, execURace(bases, old, nw, third), "")
	}
	// simultaneous claimants of one unclaimed name, different mapping ids
	rounds := 1500
	if thorough {
		rounds = 20000
	}
	for j := 0; j < rounds; j++ {
		n := 2 + j%7
		var cls []ext
		for i := 0; i < n; i++ {
			cls = append(cls, e("shared", baseA, int64(1000+i), fmt.Sprintf("pm_%d", i)))
		}
		hold := j%2 == 0
		cs := raceCase(bases, cls, hold, j)
		out.Count(fmt.Sprintf("kind:registry-race:hold=%v", hold))
		out.Case(cs, execRace(bases, cls, hold), "")
	}
}

func generate(out *vc.Out, r *vc.Rand, thorough bool) {
	genBoundary(out)
	genFault(out)
	genRegistry(out, r.Fork(), thorough)
	genSys(out, r.Fork(), thorough)
	genSpellings(out, r, thorough)
	genTemplates(out, r.Fork(), thorough)
	if thorough {
		genRandom(out, r.Fork(), 40000)
	} else {
		genRandom(out, r.Fork(), 6000)
	}
}
