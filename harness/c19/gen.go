//go:build verif

package main

import (
	vc "tunnox-core/internal/verifharness/common"
)

func generate(out *vc.Out, r *vc.Rand, thorough bool) {
}
