//go:build verif

// Harness for C01 (packet framing round trip) and C05 (hostile byte streams).
//
//	c01 -mode rt|raw -tier quick|thorough -seed N [-stats file] [corpus files…]
//
// Output: one line per case   "<case tokens> ## <observation tokens>".
package main

import (
	"bytes"
	"context"
	"encoding/json"
	"errors"
	"flag"
	"fmt"
	"io"
	"os"
	"runtime"
	"strconv"
	"strings"
	"time"

	"tunnox-core/internal/packet"
	"tunnox-core/internal/stream"
	vc "tunnox-core/internal/verifharness/common"
)

type pkt struct {
	ty   int
	comp bool
	body []byte
}

func stageOf(err error) string {
	s := err.Error()
	switch {
	case strings.Contains(s, "[read_packet_type]"):
		return "type"
	case strings.Contains(s, "[read_packet_body_size]"):
		return "size"
	case strings.Contains(s, "[decompress]"):
		return "decompress"
	case strings.Contains(s, "[read_packet_body]") && strings.Contains(s, "exceeds maximum allowed"):
		return "toolarge"
	case strings.Contains(s, "[read_packet_body]"):
		return "body"
	case strings.Contains(s, "encryption not supported"):
		return "encrypted"
	case strings.Contains(s, "[decompress]"):
		return "decompress"
	case strings.Contains(s, "[json_unmarshal]"):
		return "json"
	case strings.Contains(strings.ToLower(s), "unexpected eof"), strings.Contains(s, "unexpected end of file"):
		return "shorttype"
	}
	return "other:" + strings.ReplaceAll(s, " ", "_")
}

// recWriter records the size of every Write call: on a message transport
// (WebSocket) each call is one message, i.e. one chunk on the reading side.
type recWriter struct {
	buf   bytes.Buffer
	sizes []int
}

func (w *recWriter) Write(p []byte) (int, error) {
	w.sizes = append(w.sizes, len(p))
	return w.buf.Write(p)
}

type readObs struct {
	pkts  []string
	n     int
	stop  string
	left  int
	alloc uint64
}

// readAll runs the real ReadPacket until the first error, under recover and a watchdog.
func readAll(data []byte, sizes []int, tailErr bool, measure bool) (obs readObs, special string) {
	done := make(chan struct{})
	var m0, m1 runtime.MemStats
	go func() {
		defer close(done)
		defer func() {
			if r := recover(); r != nil {
				special = "panic " + strings.ReplaceAll(fmt.Sprint(r), " ", "_")
			}
		}()
		cr := vc.NewChunkReader(data, sizes, tailErr)
		cr.EndWithData = endWithData
		sp := stream.NewStreamProcessor(cr, nil, context.Background())
		defer sp.Close()
		if measure {
			runtime.GC()
			runtime.ReadMemStats(&m0)
		}
		var held []*packet.TransferPacket
		for {
			p, _, err := sp.ReadPacket()
			if err != nil {
				obs.stop = stageOf(err)
				obs.left = cr.Remaining()
				break
			}
			// keep the decoded packets as the caller would and render them only after the
			// whole stream has been read: a body must not change once ReadPacket returned it
			held = append(held, p)
			obs.n++
		}
		for _, p := range held {
			var body []byte
			if p.CommandPacket != nil {
				body, _ = json.Marshal(p.CommandPacket)
			} else {
				body = p.Payload
			}
			obs.pkts = append(obs.pkts, strconv.Itoa(int(p.PacketType)), vc.Hex(body))
		}
		if measure {
			runtime.ReadMemStats(&m1)
			obs.alloc = m1.TotalAlloc - m0.TotalAlloc
		}
	}()
	select {
	case <-done:
	case <-time.After(20 * time.Second):
		special = "timeout"
		timeouts++
	}
	return
}

// endWithData: the chunk reader of the current case returns the end of the stream (EOF / error)
// together with the last bytes (tail token `eof+` / `err+`), as io.Reader allows and QUIC streams do.
var endWithData bool

func tailTok(tailErr bool) string {
	t := "eof"
	if tailErr {
		t = "err"
	}
	if endWithData {
		t += "+"
	}
	return t
}

// setTail parses a tail token and sets endWithData for the case about to be executed.
func setTail(tok string) (tailErr bool) {
	endWithData = strings.HasSuffix(tok, "+")
	return strings.TrimSuffix(tok, "+") == "err"
}

// timeouts counts watchdog verdicts. A reader that spins or blocks forever leaves its goroutine
// behind, so after two of them the run is cut short: the cases already printed are the replay.
var timeouts int
var statsPath string

func abortIfStuck(out *vc.Out) {
	if timeouts >= 2 {
		out.Count("aborted-after-timeouts")
		out.Finish(statsPath, nil)
		os.Exit(0)
	}
}

func (o readObs) String() string {
	s := "pk " + strconv.Itoa(o.n)
	if o.n > 0 {
		s += " " + strings.Join(o.pkts, " ")
	}
	return s + " stop " + o.stop + " left " + strconv.Itoa(o.left)
}

func isCmd(ty int) bool { b := ty & 0x3F; return b == 0x10 || b == 0x11 }

// runRT executes one round-trip case: real writer -> chunked transport -> real reader.
func runRT(pk []pkt, sizes []int, tailErr bool) (caseStr, obs string) {
	return runRTRate(pk, sizes, tailErr, 0)
}

// runRTRate: as runRT, with WritePacket's rateLimitBytesPerSecond = rate (case `rtl <rate> …`).
func runRTRate(pk []pkt, sizes []int, tailErr bool, rate int64) (caseStr, obs string) {
	var buf recWriter
	w := stream.NewStreamProcessor(nil, &buf, context.Background())
	var tbl []string
	werr := ""
	for _, p := range pk {
		tp := &packet.TransferPacket{PacketType: packet.Type(p.ty)}
		if isCmd(p.ty) {
			var cp packet.CommandPacket
			if err := json.Unmarshal(p.body, &cp); err == nil {
				tp.CommandPacket = &cp
			} else {
				tp.Payload = p.body
			}
		} else {
			tp.Payload = p.body
		}
		if p.comp {
			gz, err := w.VerifCompress(p.body)
			if err == nil {
				tbl = append(tbl, vc.Hex(p.body), vc.Hex(gz))
			}
		}
		if _, err := w.WritePacket(tp, p.comp, rate); err != nil {
			werr = "writeerr " + strings.ReplaceAll(err.Error(), " ", "_")
			break
		}
	}
	wire := append([]byte{}, buf.buf.Bytes()...)
	tail := tailTok(tailErr)
	var sb strings.Builder
	fmt.Fprintf(&sb, "rt %s tbl %d", tail, len(tbl)/2)
	if len(tbl) > 0 {
		sb.WriteString(" " + strings.Join(tbl, " "))
	}
	fmt.Fprintf(&sb, " pk %d", len(pk))
	for _, p := range pk {
		c := "0"
		if p.comp {
			c = "1"
		}
		fmt.Fprintf(&sb, " %d %s %s", p.ty, c, vc.Hex(p.body))
	}
	fmt.Fprintf(&sb, " ch %d", len(sizes))
	for _, s := range sizes {
		fmt.Fprintf(&sb, " %d", s)
	}
	caseStr = sb.String()
	if rate > 0 {
		caseStr = fmt.Sprintf("rtl %d %s", rate, strings.TrimPrefix(caseStr, "rt "))
	}
	if werr != "" {
		return caseStr, werr
	}
	ro, special := readAll(wire, sizes, tailErr, false)
	if special != "" {
		return caseStr, special
	}
	wc := make([]string, len(buf.sizes))
	for i, n := range buf.sizes {
		wc[i] = strconv.Itoa(n)
	}
	return caseStr, ro.String() + " wire " + vc.Hex(wire) + " wc " + strings.Join(wc, ",")
}

// capBody is the body of an `rtcap` case: mostly zeros (so that it compresses far below the wire
// limit) with markers that make a shifted, truncated or padded copy differ.
func capBody(size int) []byte {
	b := make([]byte, size)
	for i := 0; i < size; i += 4099 {
		b[i] = byte(i/4099%251 + 1)
	}
	if size > 0 {
		b[size-1] = 0xA5
	}
	return b
}

// runCap: `rtcap <ty> <comp> <size>`: one packet whose body has exactly <size> bytes, followed by a
// heartbeat, through the real writer and the real reader (chunks 3, 70000, 1, rest).  Bodies at the
// 16 MiB cap are too large for the Lean driver's list representation, so the comparison with what
// was written is made here and the observation is a summary:
//
//	ok <len> same|differ trailer <0|1>   |   writeerr <..>   |   fail <stage> after <n packets>
func runCap(ty int, comp bool, size int) (caseStr, obs string) {
	c := "0"
	if comp {
		c = "1"
	}
	caseStr = fmt.Sprintf("rtcap %d %s %d", ty, c, size)
	body := capBody(size)
	var buf recWriter
	w := stream.NewStreamProcessor(nil, &buf, context.Background())
	done := make(chan string, 1)
	go func() {
		defer func() {
			if r := recover(); r != nil {
				done <- "panic " + strings.ReplaceAll(fmt.Sprint(r), " ", "_")
			}
		}()
		if _, err := w.WritePacket(&packet.TransferPacket{PacketType: packet.Type(ty), Payload: body}, comp, 0); err != nil {
			done <- "writeerr " + strings.ReplaceAll(err.Error(), " ", "_")
			return
		}
		if _, err := w.WritePacket(&packet.TransferPacket{PacketType: packet.Type(0x03)}, false, 0); err != nil {
			done <- "writeerr-trailer " + strings.ReplaceAll(err.Error(), " ", "_")
			return
		}
		cr := vc.NewChunkReader(buf.buf.Bytes(), []int{3, 70000, 1}, false)
		sp := stream.NewStreamProcessor(cr, nil, context.Background())
		defer sp.Close()
		p, _, err := sp.ReadPacket()
		if err != nil {
			done <- "fail " + stageOf(err) + " after 0"
			return
		}
		same := "differ"
		if int(p.PacketType)&0x3F == ty && bytes.Equal(p.Payload, body) {
			same = "same"
		}
		n := len(p.Payload)
		t, _, err := sp.ReadPacket()
		trailer := "0"
		if err == nil && t.PacketType.IsHeartbeat() {
			trailer = "1"
		}
		done <- fmt.Sprintf("ok %d %s trailer %s", n, same, trailer)
	}()
	select {
	case o := <-done:
		return caseStr, o
	case <-time.After(60 * time.Second):
		timeouts++
		return caseStr, "timeout"
	}
}

func emitRTL(out *vc.Out, pk []pkt, sizes []int, tailErr bool, rate int64) {
	c, o := runRTRate(pk, sizes, tailErr, rate)
	out.Case(c, o, keyOf(pk, sizes)+fmt.Sprint("|rate", rate))
	abortIfStuck(out)
	out.Count("rate-limited-writer")
}

func emitCap(out *vc.Out, ty int, comp bool, size int) {
	c, o := runCap(ty, comp, size)
	out.Case(c, o, c)
	abortIfStuck(out)
	out.Count("cap-boundary")
}

// ---- generators

var definedTypes = []int{0x01, 0x02, 0x03, 0x10, 0x11, 0x20, 0x21, 0x22, 0x23, 0x24}

func genBody(r *vc.Rand, ty int, sizesPool []int) []byte {
	if ty&0x3F == 0x03 {
		return nil
	}
	if isCmd(ty) {
		n := vc.Pick(r, []int{0, 1, 7, 40, 300})
		cp := packet.CommandPacket{
			CommandType: packet.CommandType(r.Intn(130)),
			CommandId:   randText(r, r.Intn(12)),
			Token:       randText(r, r.Intn(5)),
			SenderId:    randText(r, r.Intn(5)),
			ReceiverId:  randText(r, r.Intn(5)),
			CommandBody: randText(r, n),
		}
		b, _ := json.Marshal(&cp)
		return b
	}
	n := vc.Pick(r, sizesPool)
	if r.Intn(3) == 0 { // compressible
		b := make([]byte, n)
		pat := r.Bytes(1 + r.Intn(4))
		for i := range b {
			b[i] = pat[i%len(pat)]
		}
		return b
	}
	return r.Bytes(n)
}

func randText(r *vc.Rand, n int) string {
	alpha := []rune("abcXYZ019 {}\":,\\/é世界\n\t<>&")
	var sb strings.Builder
	for i := 0; i < n; i++ {
		sb.WriteRune(alpha[r.Intn(len(alpha))])
	}
	return sb.String()
}

func randSizes(r *vc.Rand, total int) []int {
	var out []int
	for total > 0 {
		var n int
		switch r.Intn(4) {
		case 0:
			n = 1
		case 1:
			n = 1 + r.Intn(8)
		case 2:
			n = 1 + r.Intn(2000)
		default:
			n = 1 + r.Intn(total)
		}
		if n > total {
			n = total
		}
		out = append(out, n)
		total -= n
	}
	return out
}

func ones(n int) []int {
	s := make([]int, n)
	for i := range s {
		s[i] = 1
	}
	return s
}

func wireLen(pk []pkt) int { n, _ := wireCalls(pk); return n }

// wireCalls returns the wire length and the sizes of the writer's Write calls.
func wireCalls(pk []pkt) (int, []int) {
	var buf recWriter
	w := stream.NewStreamProcessor(nil, &buf, context.Background())
	for _, p := range pk {
		tp := &packet.TransferPacket{PacketType: packet.Type(p.ty)}
		if isCmd(p.ty) {
			var cp packet.CommandPacket
			if json.Unmarshal(p.body, &cp) == nil {
				tp.CommandPacket = &cp
			}
		} else {
			tp.Payload = p.body
		}
		w.WritePacket(tp, p.comp, 0)
	}
	return buf.buf.Len(), buf.sizes
}

func keyOf(pk []pkt, sizes []int) string {
	var sb strings.Builder
	for _, p := range pk {
		fmt.Fprintf(&sb, "%d/%v/%d;", p.ty, p.comp, len(p.body))
	}
	fmt.Fprintf(&sb, "|%v", sizes)
	return sb.String()
}

var emitSeq int

func emitRT(out *vc.Out, pk []pkt, sizes []int, tailErr bool, kind string) {
	if kind != "corpus" { // every third generated case ends the stream together with its last bytes
		emitSeq++
		endWithData = emitSeq%3 == 0
	}
	if endWithData {
		out.Count("end-with-data")
	}
	c, o := runRT(pk, sizes, tailErr)
	endWithData = false
	key := ""
	if len(sizes) > 1 && len(pk) > 0 { // non-trivial: at least one cut in the stream
		key = keyOf(pk, sizes)
	}
	out.Case(c, o, key)
	abortIfStuck(out)
	out.Count("chunking:" + kind)
	for _, p := range pk {
		out.Count(fmt.Sprintf("type:0x%02x", p.ty))
		if p.comp {
			out.Count("compressed")
		}
		switch n := len(p.body); {
		case n == 0:
			out.Count("body:0")
		case n < 16:
			out.Count("body:1-15")
		case n < 4096:
			out.Count("body:16-4095")
		case n < 65536:
			out.Count("body:4096-65535")
		default:
			out.Count("body:>=65536")
		}
	}
}

func genRT(out *vc.Out, r *vc.Rand, thorough bool) {
	small := []int{0, 0, 1, 2, 3, 4, 5, 9}
	mid := []int{0, 1, 5, 100, 1023, 1024, 1025, 4095, 4097}
	big := []int{32767, 32768, 32769, 65535, 65536, 65537}
	// (1) every single cut position, and 1-byte reads, for short sequences over every defined type x compression
	for _, t1 := range definedTypes {
		for _, c1 := range []bool{false, true} {
			for _, t2 := range []int{0x03, 0x22, 0x10} {
				pk := []pkt{{t1, c1, genBody(r, t1, small)}, {t2, r.Bool(), genBody(r, t2, small)}}
				n := wireLen(pk)
				for cut := 1; cut < n; cut++ {
					emitRT(out, pk, []int{cut, n - cut}, false, "single-cut")
				}
				emitRT(out, pk, ones(n), r.Bool(), "one-byte")
				emitRT(out, pk, nil, false, "whole")
				_, calls := wireCalls(pk)
				emitRT(out, pk, calls, false, "message-per-write")
			}
		}
	}
	// (1a) a packet the reader rejects by its flag bits (0x80 = encrypted, not supported here) in the middle of a
	// sequence: the packets before it are decoded, it is consumed exactly, and the following packets' bytes are
	// still unread (judged by holdsSeq / theorem C01_seq_main)
	for _, base := range []int{0x01, 0x10, 0x11, 0x20, 0x22, 0x24, 0x30} {
		for _, c1 := range []bool{false, true} {
			for _, pre := range []int{0, 2} {
				var pk []pkt
				for i := 0; i < pre; i++ {
					t := vc.Pick(r, definedTypes)
					pk = append(pk, pkt{t, r.Bool(), genBody(r, t, small)})
				}
				pk = append(pk, pkt{0x80 | base, c1, genBody(r, base, mid)})
				for i, m := 0, 1+r.Intn(3); i < m; i++ {
					t := vc.Pick(r, definedTypes)
					pk = append(pk, pkt{t, r.Bool(), genBody(r, t, small)})
				}
				n := wireLen(pk)
				emitRT(out, pk, nil, false, "rejected-flag")
				emitRT(out, pk, ones(n), false, "rejected-flag")
				emitRT(out, pk, randSizes(r, n), r.Bool(), "rejected-flag")
			}
		}
	}
	// (1a') an EMPTY read (a zero-length message of a message transport: Read returns (0, nil), legal for an
	// io.Reader) inside the length field and inside the body: io.ReadFull and the body loop just read on
	for _, t1 := range []int{0x01, 0x10, 0x22, 0x24} {
		for _, c1 := range []bool{false, true} {
			pk := []pkt{{t1, c1, genBody(r, t1, mid)}, {0x22, false, []byte{9, 8, 7}}}
			first := wireLen(pk[:1])
			n := wireLen(pk)
			if first >= 8 {
				emitRT(out, pk, []int{1, 2, 0, 2, 0, first - 5, n - first}, false, "empty-read")         // inside the length, before the body
				emitRT(out, pk, []int{5, 1, 0, first - 6, n - first}, false, "empty-read")                // after the first body byte
				emitRT(out, pk, []int{5, (first - 5) / 2, 0, 0, first - 5 - (first-5)/2, n - first}, false, "empty-read") // mid-body, twice
				emitRT(out, pk, []int{first - 1, 0, 1, n - first}, false, "empty-read")                   // before the last body byte
			}
		}
	}
	// (1b) empty bodies under message-per-write chunking (regression witness for the zero-length Write)
	for _, t1 := range definedTypes {
		pk := []pkt{{t1, false, nil}, {0x22, false, []byte{1, 2}}, {t1, true, nil}}
		if isCmd(t1) {
			continue
		}
		_, calls := wireCalls(pk)
		emitRT(out, pk, calls, false, "message-per-write")
	}
	// (2) all 64 base types, both compression settings
	for ty := 0; ty < 64; ty++ {
		for _, c := range []bool{false, true} {
			pk := []pkt{{ty, c, genBody(r, ty, small)}, {0x22, false, []byte{0xAA, 0xBB}}}
			n := wireLen(pk)
			emitRT(out, pk, randSizes(r, n), false, "random")
		}
	}
	// (3) random sequences and partitions
	rounds := 300
	if thorough {
		rounds = 6000
	}
	for i := 0; i < rounds; i++ {
		np := 1 + r.Intn(5)
		var pk []pkt
		for j := 0; j < np; j++ {
			ty := vc.Pick(r, definedTypes)
			if r.Intn(10) == 0 {
				ty = r.Intn(64)
			}
			pool := mid
			if r.Intn(12) == 0 {
				pool = big
			}
			pk = append(pk, pkt{ty, r.Intn(3) == 0, genBody(r, ty, pool)})
		}
		n := wireLen(pk)
		switch r.Intn(5) {
		case 0:
			if n <= 20000 {
				emitRT(out, pk, ones(n), r.Bool(), "one-byte")
				break
			}
			fallthrough
		default:
			emitRT(out, pk, randSizes(r, n), r.Intn(4) == 0, "random")
		}
	}
	// (3a) body-length sweep: every wire-body length 0..4300 (plain), windows around every power of two
	// and multiple of 1024 up to 128 KiB, and every compressed-body length the pattern reaches — a writer
	// or reader that treats one length window differently (coalescing, pooled buffers, MSS-sized paths)
	// shows up here; each case is followed by a trailer packet so that misalignment is visible
	sweep := func(n int, comp bool) {
		body := make([]byte, n)
		for i := range body {
			body[i] = byte(i*7 + n)
		}
		if comp { // barely compressible prefix so that the gzip output length varies with n
			for i := range body {
				if i%3 == 0 {
					body[i] = 0
				}
			}
		}
		pk := []pkt{{0x22, comp, body}, {0x20, false, []byte("trailer")}}
		sz := []int{3, 1500}
		if n%2 == 0 {
			sz = randSizes(r, wireLen(pk))
		}
		emitRT(out, pk, sz, false, "length-sweep")
	}
	step := 1
	if !thorough {
		step = 3
	}
	for n := r.Intn(step); n <= 4300; n += step {
		sweep(n, false)
	}
	for n := 1390; n <= 1410; n++ { // around one MSS, every length in both tiers
		sweep(n, false)
		sweep(n+600, true)
	}
	for k := 10; k <= 17; k++ {
		for d := -5; d <= 5; d++ {
			sweep(1<<k+d, false)
			if thorough {
				sweep(1<<k+d, true)
			}
		}
	}
	for m := 1; m <= 64; m++ {
		if thorough || m%4 == 0 {
			sweep(m*1024-4+r.Intn(8), r.Intn(4) == 0)
		}
	}
	// (3b) the same writer with a rate limit: the body goes through writeRateLimitedData in pieces
	nl := 60
	if thorough {
		nl = 600
	}
	for i := 0; i < nl; i++ {
		var pk []pkt
		for j, np := 0, 1+r.Intn(3); j < np; j++ {
			ty := vc.Pick(r, definedTypes)
			pk = append(pk, pkt{ty, r.Intn(3) == 0, genBody(r, ty, []int{0, 1, 1023, 1024, 1025, 2048, 3000, 5000})})
		}
		rate := vc.Pick(r, []int64{1 << 30, 1 << 30, 10_000_000, 400_000})
		emitRTL(out, pk, randSizes(r, wireLen(pk)), r.Intn(4) == 0, rate)
	}
	// (4) boundary: bodies of exactly the cap and one below it, plain and compressed (the inflated
	// size is then the cap)
	capSz := 16 * 1024 * 1024
	for _, sz := range []int{capSz - 1, capSz} {
		emitCap(out, 0x22, false, sz)
		emitCap(out, 0x22, true, sz)
	}
	// large bodies between 1 MiB and the cap, aligned and not aligned to 4 KiB (pooled buffers round their
	// capacity up), each followed by a trailer that arrives coalesced with the tail of the body
	for _, sz := range []int{1<<20 + 1, 1<<20 + 4095, 1<<20 + 4096, 1<<20 + 4097, 3<<20 + 5, 2 << 20} {
		emitCap(out, 0x22, false, sz)
	}
	emitCap(out, 0x22, true, 5<<20+123)
	if thorough {
		for _, ty := range []int{0x01, 0x20, 0x24, 0x3F} {
			emitCap(out, ty, true, capSz)
			emitCap(out, ty, false, capSz)
		}
	}
}

func parseCaseRT(toks []string) ([]pkt, []int, bool, error) {
	// rt <tail> tbl <n> … pk <m> (<ty> <comp> <body>)* ch <k> sizes
	if len(toks) < 4 || toks[0] != "rt" {
		return nil, nil, false, errors.New("not an rt case")
	}
	tailErr := setTail(toks[1])
	i := 2
	if toks[i] != "tbl" {
		return nil, nil, false, errors.New("tbl expected")
	}
	n, _ := strconv.Atoi(toks[i+1])
	i += 2 + 2*n
	if toks[i] != "pk" {
		return nil, nil, false, errors.New("pk expected")
	}
	m, _ := strconv.Atoi(toks[i+1])
	i += 2
	var pk []pkt
	for j := 0; j < m; j++ {
		ty, _ := strconv.Atoi(toks[i])
		pk = append(pk, pkt{ty, toks[i+1] == "1", vc.UnHex(toks[i+2])})
		i += 3
	}
	if toks[i] != "ch" {
		return nil, nil, false, errors.New("ch expected")
	}
	k, _ := strconv.Atoi(toks[i+1])
	i += 2
	var sizes []int
	for j := 0; j < k; j++ {
		s, _ := strconv.Atoi(toks[i+j])
		sizes = append(sizes, s)
	}
	return pk, sizes, tailErr, nil
}

func replayFile(out *vc.Out, path string) {
	data, err := os.ReadFile(path)
	if err != nil {
		fmt.Fprintln(os.Stderr, err)
		os.Exit(3)
	}
	for _, line := range strings.Split(string(data), "\n") {
		line = strings.TrimSpace(line)
		if line == "" || strings.HasPrefix(line, "#") {
			continue
		}
		if i := strings.Index(line, " ## "); i >= 0 {
			line = line[:i]
		}
		toks := strings.Fields(line)
		switch toks[0] {
		case "rt":
			pk, sizes, tailErr, err := parseCaseRT(toks)
			if err != nil {
				fmt.Fprintln(os.Stderr, "bad corpus line:", err)
				os.Exit(3)
			}
			emitRT(out, pk, sizes, tailErr, "corpus")
		case "raw":
			replayRaw(out, toks)
		case "rtl":
			rate, _ := strconv.ParseInt(toks[1], 10, 64)
			pk, sizes, tailErr, err := parseCaseRT(append([]string{"rt"}, toks[2:]...))
			if err != nil {
				fmt.Fprintln(os.Stderr, "bad corpus line:", err)
				os.Exit(3)
			}
			emitRTL(out, pk, sizes, tailErr, rate)
		case "dx":
			i := 0
			for i < len(toks) && toks[i] != "out" {
				i++
			}
			inb, sizes, tailErr, err := parseCaseRT(append([]string{"rt"}, toks[1:i]...))
			if err != nil || i >= len(toks) {
				fmt.Fprintln(os.Stderr, "bad corpus line:", err)
				os.Exit(3)
			}
			no, _ := strconv.Atoi(toks[i+1])
			var outb []pkt
			for j := 0; j < no; j++ {
				ty, _ := strconv.Atoi(toks[i+2+3*j])
				outb = append(outb, pkt{ty, toks[i+3+3*j] == "1", vc.UnHex(toks[i+4+3*j])})
			}
			emitDX(out, inb, sizes, tailErr, outb)
		case "rtcap":
			ty, _ := strconv.Atoi(toks[1])
			sz, _ := strconv.Atoi(toks[3])
			emitCap(out, ty, toks[2] == "1", sz)
		case "rtw":
			if strings.Contains("QqKkFf", toks[1]) {
				replayRTX(out, toks)
			} else {
				replayRTW(out, toks)
			}
		case "cw":
			replayCW(out, toks)
		}
	}
}

var _ = io.EOF

func main() {
	mode := flag.String("mode", "rt", "rt | raw")
	tier := flag.String("tier", "quick", "quick | thorough")
	seed := flag.Uint64("seed", 1, "seed")
	stats := flag.String("stats", "", "stats file")
	noGen := flag.Bool("nogen", false, "only replay the corpus files")
	flag.Parse()
	out := vc.NewOut()
	statsPath = *stats
	for _, f := range flag.Args() {
		replayFile(out, f)
	}
	if !*noGen {
		r := vc.NewRand(*seed)
		switch *mode {
		case "rt":
			genRT(out, r, *tier == "thorough")
			genDX(out, vc.NewRand(*seed+5), *tier == "thorough")
		case "ws":
			genRTW(out, r, *tier == "thorough")
		case "xport":
			genRTX(out, r, *tier == "thorough")
		case "cw":
			genCW(out, r, *tier == "thorough")
		case "raw":
			genRaw(out, r, *tier == "thorough")
		}
	}
	out.Finish(*stats, nil)
}
