//go:build verif

package main

import (
	"bytes"
	"compress/gzip"
	"encoding/binary"
	"encoding/json"
	"fmt"
	"io"
	"strconv"
	"strings"

	"tunnox-core/internal/packet"
	vc "tunnox-core/internal/verifharness/common"
)

const maxBody = 16 * 1024 * 1024

// inflateRef is the reference gzip behaviour (Go's compress/gzip, not the repo's
// wrapper), read with a hard limit so that the harness itself cannot be bombed.
// Returns (bytes, "ok") | (nil, "err") | (nil, "big").
func inflateRef(z []byte) ([]byte, string) {
	gr, err := gzip.NewReader(bytes.NewReader(z))
	if err != nil {
		return nil, "err"
	}
	defer gr.Close()
	out, err := io.ReadAll(io.LimitReader(gr, maxBody+1))
	if err != nil {
		return nil, "err"
	}
	if len(out) > maxBody {
		// distinguish "too big" from a late error: irrelevant for the model (both are refused)
		return nil, "big"
	}
	return out, "ok"
}

// walk frames the stream the way the wire format defines, to build the codec
// tables the model driver needs (gzip and JSON are parameters of the model).
func walk(data []byte) (ztbl []string, jtbl []string) {
	pos := 0
	for pos < len(data) {
		t := int(data[pos])
		pos++
		if t&0x3F == 0x03 {
			continue
		}
		if len(data)-pos < 4 {
			return
		}
		n := int(binary.BigEndian.Uint32(data[pos:]))
		pos += 4
		if n > maxBody || len(data)-pos < n {
			return
		}
		body := data[pos : pos+n]
		pos += n
		if t&0x80 != 0 {
			return
		}
		if t&0x40 != 0 {
			out, st := inflateRef(body)
			if st != "ok" {
				ztbl = append(ztbl, vc.Hex(body), "!")
				return
			}
			ztbl = append(ztbl, vc.Hex(body), "="+vc.Hex(out))
			body = out
		}
		if isCmd(t) {
			var cp packet.CommandPacket
			if err := json.Unmarshal(body, &cp); err != nil {
				jtbl = append(jtbl, vc.Hex(body), "!")
				return
			}
			nb, _ := json.Marshal(&cp)
			jtbl = append(jtbl, vc.Hex(body), "="+vc.Hex(nb))
		}
	}
	return
}

func runRaw(data []byte, sizes []int, tailErr bool, measure bool) (caseStr, obs string) {
	ztbl, jtbl := walk(data)
	tail := tailTok(tailErr)
	var sb strings.Builder
	fmt.Fprintf(&sb, "raw %s ztbl %d", tail, len(ztbl)/2)
	if len(ztbl) > 0 {
		sb.WriteString(" " + strings.Join(ztbl, " "))
	}
	fmt.Fprintf(&sb, " jtbl %d", len(jtbl)/2)
	if len(jtbl) > 0 {
		sb.WriteString(" " + strings.Join(jtbl, " "))
	}
	fmt.Fprintf(&sb, " st %s ch %d", vc.Hex(data), len(sizes))
	for _, s := range sizes {
		fmt.Fprintf(&sb, " %d", s)
	}
	caseStr = sb.String()
	ro, special := readAll(data, sizes, tailErr, measure)
	if special != "" {
		return caseStr, special
	}
	return caseStr, ro.String() + " alloc " + strconv.FormatUint(ro.alloc, 10)
}

func replayRaw(out *vc.Out, toks []string) {
	// raw <tail> ztbl n … jtbl m … st <hex> ch k sizes
	tailErr := setTail(toks[1])
	i := 2
	n, _ := strconv.Atoi(toks[i+1])
	i += 2 + 2*n
	m, _ := strconv.Atoi(toks[i+1])
	i += 2 + 2*m
	data := vc.UnHex(toks[i+1])
	i += 2
	k, _ := strconv.Atoi(toks[i+1])
	i += 2
	var sizes []int
	for j := 0; j < k; j++ {
		s, _ := strconv.Atoi(toks[i+j])
		sizes = append(sizes, s)
	}
	emitRaw(out, data, sizes, tailErr, "corpus")
}

func emitRaw(out *vc.Out, data []byte, sizes []int, tailErr bool, kind string) {
	if kind != "corpus" {
		emitSeq++
		endWithData = emitSeq%3 == 0
	}
	if endWithData {
		out.Count("end-with-data")
	}
	c, o := runRaw(data, sizes, tailErr, true)
	endWithData = false
	f := strings.Fields(o)
	stop := "?"
	for i, t := range f {
		if t == "stop" && i+1 < len(f) {
			stop = f[i+1]
		}
	}
	if f[0] == "panic" || f[0] == "timeout" {
		stop = f[0]
	}
	out.Count("stop:" + stop)
	out.Count("kind:" + kind)
	key := ""
	if len(data) > 1 {
		key = vc.Hex(data[:min(len(data), 64)]) + fmt.Sprint(len(data), sizes)
	}
	if len(c) > 300000 { // keep lines bounded: huge streams are summarised and checked by the alloc oracle only
		c = "rawbig " + strconv.Itoa(len(data))
	}
	out.Case(c, o, key)
	abortIfStuck(out)
}

func gz(b []byte) []byte {
	var buf bytes.Buffer
	w, _ := gzip.NewWriterLevel(&buf, gzip.BestCompression)
	w.Write(b)
	w.Close()
	return buf.Bytes()
}

func frame(t int, body []byte) []byte {
	out := []byte{byte(t)}
	var l [4]byte
	binary.BigEndian.PutUint32(l[:], uint32(len(body)))
	out = append(out, l[:]...)
	return append(out, body...)
}

func validStream(r *vc.Rand) []byte {
	var out []byte
	for i, n := 0, 1+r.Intn(4); i < n; i++ {
		ty := vc.Pick(r, definedTypes)
		if ty == 0x03 {
			out = append(out, 0x03)
			continue
		}
		body := genBody(r, ty, []int{0, 1, 5, 30, 200})
		if r.Intn(3) == 0 {
			out = append(out, frame(ty|0x40, gz(body))...)
		} else {
			out = append(out, frame(ty, body)...)
		}
	}
	return out
}

func genRaw(out *vc.Out, r *vc.Rand, thorough bool) {
	// (1) every type byte, with a small body and with nothing after it
	for t := 0; t < 256; t++ {
		emitRaw(out, frame(t, []byte("{}")), nil, false, "all-types")
		emitRaw(out, []byte{byte(t)}, nil, r.Bool(), "all-types-bare")
		emitRaw(out, frame(t, gz([]byte(`{"CommandType":10}`))), []int{1, 2, 3}, false, "all-types-gz")
	}
	// (1b) every type byte with tiny bodies — 0..5 bytes over an alphabet with a UTF-8 BOM and JSON
	// punctuation — plain and, when the compressed flag is set, also as a valid gzip member
	tiny := [][]byte{{}, {0xEF}, {0xEF, 0xBB}, {0xEF, 0xBB, 0xBF}, {'{'}, {'{', '}'}, {0}, []byte("null"),
		{0xEF, 0xBB, 0xBF, '{', '}'}, {'"'}, {'['}, {'1'}, {0xFF, 0xFE}}
	for t := 0; t < 256; t++ {
		for _, b := range tiny {
			emitRaw(out, append(frame(t, b), 0x03), nil, false, "tiny-body")
			if t&0x40 != 0 {
				emitRaw(out, append(frame(t, gz(b)), 0x03), nil, false, "tiny-body-gz")
			}
		}
	}
	// (2) adversarial length fields
	for _, n := range []uint32{0, 1, 0xFFFFFFFF, 0x80000000, maxBody, maxBody + 1, maxBody - 1, 0x01000000, 0x00FFFFFF} {
		for _, t := range []int{0x01, 0x10, 0x22, 0x62, 0x83} {
			b := []byte{byte(t), 0, 0, 0, 0}
			binary.BigEndian.PutUint32(b[1:], n)
			b = append(b, r.Bytes(r.Intn(40))...)
			emitRaw(out, b, randSizes(r, len(b)), r.Bool(), "length-field")
		}
	}
	// (3) truncations of valid streams at every offset
	for i := 0; i < 6; i++ {
		s := validStream(r)
		for cut := 0; cut <= len(s) && cut < 400; cut++ {
			emitRaw(out, s[:cut], randSizes(r, cut), cut%2 == 0, "truncation")
		}
	}
	// (4) structure-aware mutations
	rounds := 1500
	if thorough {
		rounds = 40000
	}
	for i := 0; i < rounds; i++ {
		s := append([]byte{}, validStream(r)...)
		for m, k := 0, 1+r.Intn(3); m < k && len(s) > 0; m++ {
			switch r.Intn(5) {
			case 0:
				s[r.Intn(len(s))] ^= byte(1 << r.Intn(8))
			case 1:
				s[r.Intn(len(s))] = byte(r.Uint64())
			case 2:
				p := r.Intn(len(s))
				s = append(s[:p], s[p+1:]...)
			case 3:
				p := r.Intn(len(s) + 1)
				s = append(s[:p], append(r.Bytes(1+r.Intn(3)), s[p:]...)...)
			case 4:
				s = s[:r.Intn(len(s)+1)]
			}
		}
		emitRaw(out, s, randSizes(r, len(s)), r.Intn(3) == 0, "mutation")
	}
	// (5) pure random
	for i := 0; i < rounds/3; i++ {
		s := r.Bytes(r.Intn(64))
		emitRaw(out, s, randSizes(r, len(s)), r.Bool(), "random")
	}
	// (6) gzip members with extreme expansion ratios: must be refused without inflating past the cap
	ratios := []int{maxBody - 1, maxBody, maxBody + 1, 4 * maxBody}
	if thorough {
		ratios = append(ratios, 32*maxBody)
	}
	for _, n := range ratios {
		z := gz(make([]byte, n))
		for _, t := range []int{0x62, 0x50} {
			emitRaw(out, append(frame(t, z), 0x03), []int{5, 100}, false, "gzip-bomb")
		}
	}
	// bombs whose inflated content is shaped like what each type's decoder expects (one huge JSON string)
	for _, n := range []int{maxBody + 1, 8 * maxBody} {
		j := append([]byte(`{"CommandType":10,"CommandId":"x","CommandBody":"`), bytes.Repeat([]byte("a"), n)...)
		j = append(j, []byte(`"}`)...)
		z := gz(j)
		for _, t := range []int{0x50, 0x51, 0x41, 0x60, 0x62} {
			emitRaw(out, append(frame(t, z), 0x03), []int{7, 4096}, false, "gzip-bomb-json")
		}
	}
	// nested/concatenated members
	z := append(gz(make([]byte, maxBody/2+1)), gz(make([]byte, maxBody/2+1))...)
	emitRaw(out, frame(0x62, z), nil, false, "gzip-multi-member")
}
