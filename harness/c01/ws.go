//go:build verif

package main

// WebSocket transport: the same round-trip cases, but the chunks are real WebSocket binary
// messages and the reader is the repository's message->stream adapter (wsServerConn /
// wsClientConn) under the real StreamProcessor.ReadPacket.
//
//	rtw <s|c> <tail> tbl … pk … ch …      (s: read on the server wrapper, c: on the client wrapper)

import (
	"bytes"
	"context"
	"encoding/json"
	"fmt"
	"net"
	"net/http"
	"net/http/httptest"
	"strconv"
	"strings"
	"sync"
	"time"

	"github.com/gorilla/websocket"

	"tunnox-core/internal/packet"
	"tunnox-core/internal/protocol/adapter"
	"tunnox-core/internal/stream"
	vc "tunnox-core/internal/verifharness/common"
)

type wsHub struct {
	srv   *httptest.Server
	conns chan *websocket.Conn
}

var (
	hubOnce sync.Once
	hub     *wsHub
)

func getHub() *wsHub {
	hubOnce.Do(func() {
		h := &wsHub{conns: make(chan *websocket.Conn, 16)}
		up := websocket.Upgrader{CheckOrigin: func(*http.Request) bool { return true }}
		h.srv = httptest.NewServer(http.HandlerFunc(func(w http.ResponseWriter, r *http.Request) {
			c, err := up.Upgrade(w, r, nil)
			if err != nil {
				return
			}
			h.conns <- c
		}))
		hub = h
	})
	return hub
}

type countConn struct {
	net.Conn
	n int
}

func (c *countConn) Read(p []byte) (int, error) {
	n, err := c.Conn.Read(p)
	c.n += n
	return n, err
}

// runRTW: real writer into a buffer (to learn the wire bytes), the bytes are then sent as WebSocket
// messages of the given sizes by a raw gorilla connection and read back through the adapter wrapper.
func runRTW(side string, pk []pkt, sizes []int) (caseStr, obs string) {
	var buf recWriter
	w := stream.NewStreamProcessor(nil, &buf, context.Background())
	var tbl []string
	for _, p := range pk {
		tp := &packet.TransferPacket{PacketType: packet.Type(p.ty)}
		if isCmd(p.ty) {
			var cp packet.CommandPacket
			if err := json.Unmarshal(p.body, &cp); err == nil {
				tp.CommandPacket = &cp
			} else {
				tp.Payload = p.body
			}
		} else {
			tp.Payload = p.body
		}
		if p.comp {
			if gz, err := w.VerifCompress(p.body); err == nil {
				tbl = append(tbl, vc.Hex(p.body), vc.Hex(gz))
			}
		}
		if _, err := w.WritePacket(tp, p.comp, 0); err != nil {
			return "rtw " + side + " eof tbl 0 pk 0 ch 0", "writeerr"
		}
	}
	wire := append([]byte{}, buf.buf.Bytes()...)
	var sb strings.Builder
	fmt.Fprintf(&sb, "rtw %s eof tbl %d", side, len(tbl)/2)
	if len(tbl) > 0 {
		sb.WriteString(" " + strings.Join(tbl, " "))
	}
	fmt.Fprintf(&sb, " pk %d", len(pk))
	for _, p := range pk {
		c := "0"
		if p.comp {
			c = "1"
		}
		fmt.Fprintf(&sb, " %d %s %s", p.ty, c, vc.Hex(p.body))
	}
	fmt.Fprintf(&sb, " ch %d", len(sizes))
	for _, s := range sizes {
		fmt.Fprintf(&sb, " %d", s)
	}
	caseStr = sb.String()

	h := getHub()
	url := "ws" + strings.TrimPrefix(h.srv.URL, "http")
	cli, _, err := websocket.DefaultDialer.Dial(url, nil)
	if err != nil {
		return caseStr, "dial-failed"
	}
	var srvConn *websocket.Conn
	select {
	case srvConn = <-h.conns:
	case <-time.After(5 * time.Second):
		cli.Close()
		return caseStr, "accept-timeout"
	}
	var rawWriter *websocket.Conn
	var reader net.Conn
	if side == "S" || side == "C" {
		// end to end: the real writer writes through the repository's wrapper of the opposite end (one
		// WebSocket message per Write call of WritePacket), the real reader reads through the other wrapper
		var wconn net.Conn
		if side == "S" {
			wconn, reader = adapter.VerifNewWSClientConn(cli), adapter.VerifNewWSServerConn(srvConn)
		} else {
			wconn, reader = adapter.VerifNewWSServerConn(srvConn), adapter.VerifNewWSClientConn(cli)
		}
		rawWriter = cli
		go func() {
			defer func() { recover() }()
			wsp := stream.NewStreamProcessor(nil, wconn, context.Background())
			for _, p := range pk {
				tp := &packet.TransferPacket{PacketType: packet.Type(p.ty)}
				if isCmd(p.ty) {
					var cp packet.CommandPacket
					if err := json.Unmarshal(p.body, &cp); err == nil {
						tp.CommandPacket = &cp
					} else {
						tp.Payload = p.body
					}
				} else {
					tp.Payload = p.body
				}
				if _, err := wsp.WritePacket(tp, p.comp, 0); err != nil {
					break
				}
			}
			time.Sleep(2 * time.Millisecond)
			wconn.Close()
		}()
	} else if side == "s" {
		rawWriter, reader = cli, adapter.VerifNewWSServerConn(srvConn)
	} else {
		rawWriter, reader = srvConn, adapter.VerifNewWSClientConn(cli)
	}
	if side == "s" || side == "c" {
		go func() {
			pos := 0
			for _, s := range sizes {
				if s <= 0 || pos >= len(wire) {
					continue
				}
				if s > len(wire)-pos {
					s = len(wire) - pos
				}
				rawWriter.WriteMessage(websocket.BinaryMessage, wire[pos:pos+s])
				pos += s
			}
			if pos < len(wire) {
				rawWriter.WriteMessage(websocket.BinaryMessage, wire[pos:])
			}
			rawWriter.WriteMessage(websocket.CloseMessage, websocket.FormatCloseMessage(websocket.CloseNormalClosure, ""))
		}()
	}
	res := make(chan string, 1)
	go func() {
		defer func() {
			if r := recover(); r != nil {
				res <- "panic " + strings.ReplaceAll(fmt.Sprint(r), " ", "_")
			}
		}()
		cc := &countConn{Conn: reader}
		sp := stream.NewStreamProcessor(cc, nil, context.Background())
		var held []*packet.TransferPacket
		stop := ""
		for {
			p, _, err := sp.ReadPacket()
			if err != nil {
				stop = stageOf(err)
				break
			}
			held = append(held, p)
		}
		var o bytes.Buffer
		fmt.Fprintf(&o, "pk %d", len(held))
		for _, p := range held {
			var body []byte
			if p.CommandPacket != nil {
				body, _ = json.Marshal(p.CommandPacket)
			} else {
				body = p.Payload
			}
			fmt.Fprintf(&o, " %s %s", strconv.Itoa(int(p.PacketType)), vc.Hex(body))
		}
		fmt.Fprintf(&o, " stop %s left %d", stop, len(wire)-cc.n)
		res <- o.String()
	}()
	select {
	case obs = <-res:
	case <-time.After(15 * time.Second):
		obs = "timeout"
		timeouts++
	}
	reader.Close()
	rawWriter.Close()
	return caseStr, obs
}

func emitRTW(out *vc.Out, side string, pk []pkt, sizes []int, kind string) {
	c, o := runRTW(side, pk, sizes)
	key := ""
	if len(sizes) > 0 {
		key = side + keyOf(pk, sizes)
	}
	out.Case(c, o, key)
	abortIfStuck(out)
	out.Count("ws:" + kind)
}

// genRTW: message boundaries that do NOT coincide with the reader's read sizes, repeatedly on one
// connection: whole packets in one message, several packets in one message, cuts inside every field.
func genRTW(out *vc.Out, r *vc.Rand, thorough bool) {
	small := []int{0, 1, 2, 3, 5, 9, 40}
	for _, side := range []string{"s", "c"} {
		for i := 0; i < 6; i++ {
			var pk []pkt
			for j, n := 0, 3+r.Intn(4); j < n; j++ {
				ty := vc.Pick(r, definedTypes)
				pk = append(pk, pkt{ty, r.Intn(4) == 0, genBody(r, ty, small)})
			}
			n, calls := wireCalls(pk)
			emitRTW(out, side, pk, calls, "message-per-write")
			emitRTW(out, side, pk, []int{n}, "one-message")
			// one message per packet (type+length+body coalesced): tails are buffered again and again
			var per []int
			for _, p := range pk {
				m, _ := wireCalls([]pkt{p})
				per = append(per, m)
			}
			emitRTW(out, side, pk, per, "message-per-packet")
			for cut := 1; cut < n && cut < 40; cut++ {
				emitRTW(out, side, pk, []int{cut, n - cut}, "single-cut")
			}
			for k := 0; k < 6; k++ {
				emitRTW(out, side, pk, randSizes(r, n), "random")
			}
		}
		rounds := 60
		if thorough {
			rounds = 1500
		}
		mid := []int{0, 1, 5, 100, 1023, 1025, 4097, 40000}
		for i := 0; i < rounds; i++ {
			var pk []pkt
			for j, n := 0, 1+r.Intn(5); j < n; j++ {
				ty := vc.Pick(r, definedTypes)
				pk = append(pk, pkt{ty, r.Intn(3) == 0, genBody(r, ty, mid)})
			}
			n := wireLen(pk)
			emitRTW(out, side, pk, randSizes(r, n), "random")
		}
	}
	// end to end through both wrappers: the writer's own Write calls are the messages
	e2e := 80
	if thorough {
		e2e = 1500
	}
	sizes := []int{0, 0, 1, 2, 5, 100, 1023, 1024, 1025, 4096, 4097, 40000, 65535, 65536, 65537, 70000, 131072, 196608}
	for i := 0; i < e2e; i++ {
		var pk []pkt
		for j, n := 0, 1+r.Intn(6); j < n; j++ {
			ty := vc.Pick(r, definedTypes)
			pk = append(pk, pkt{ty, r.Intn(3) == 0, genBody(r, ty, sizes)})
		}
		side := "S"
		if i%2 == 1 {
			side = "C"
		}
		emitRTW(out, side, pk, nil, "end-to-end")
	}
}

func replayRTW(out *vc.Out, toks []string) {
	side := toks[1]
	pk, sizes, _, err := parseCaseRT(append([]string{"rt"}, toks[2:]...))
	if err != nil {
		return
	}
	emitRTW(out, side, pk, sizes, "corpus")
}
