//go:build verif

package main

// QUIC and KCP transports, end to end through the repository's adapters: a listening adapter and a
// dialling adapter over loopback UDP, the real StreamProcessor writing on one end and reading on the other.
// The chunks the reader sees are whatever quic-go / kcp-go deliver (stream frames, KCP segments).
//
//	rtw <Q|q|K|k|F|f> eof tbl … pk … ch 0     Q/K/F: client writes, server reads; q/k/f: server writes, client reads;
//	F/f: QUIC, the writer ends its stream (FIN) right behind its last byte, the reader reads to the end

import (
	"bytes"
	"context"
	"encoding/json"
	"fmt"
	"io"
	"net"
	"strconv"
	"strings"
	"sync"
	"time"

	"tunnox-core/internal/packet"
	"tunnox-core/internal/protocol/adapter"
	"tunnox-core/internal/stream"
	vc "tunnox-core/internal/verifharness/common"
)

type xport struct {
	dial   func() (io.ReadWriteCloser, error)
	accept func() (io.ReadWriteCloser, error)
}

var (
	xpOnce sync.Once
	xpQ    *xport
	xpK    *xport
	xpErr  string
)

func getXports() {
	xpOnce.Do(func() {
		defer func() {
			if r := recover(); r != nil {
				xpErr = fmt.Sprint(r)
			}
		}()
		ctx := context.Background()
		ql, qd := adapter.NewQuicAdapter(ctx, nil), adapter.NewQuicAdapter(ctx, nil)
		if err := ql.Listen("127.0.0.1:0"); err != nil {
			xpErr = "quic listen: " + err.Error()
			return
		}
		qaddr := adapter.VerifQuicAddr(ql)
		xpQ = &xport{dial: func() (io.ReadWriteCloser, error) { return qd.Dial(qaddr) }, accept: ql.Accept}
		kl, kd := adapter.NewKcpAdapter(ctx, nil), adapter.NewKcpAdapter(ctx, nil)
		if err := kl.Listen("127.0.0.1:0"); err != nil {
			xpErr = "kcp listen: " + err.Error()
			return
		}
		kaddr := adapter.VerifKcpAddr(kl)
		xpK = &xport{dial: func() (io.ReadWriteCloser, error) { return kd.Dial(kaddr) }, accept: kl.Accept}
	})
}

type countRWC struct {
	io.ReadWriteCloser
	n int
}

func (c *countRWC) Read(p []byte) (int, error) {
	n, err := c.ReadWriteCloser.Read(p)
	c.n += n
	return n, err
}

func mkTP(p pkt) *packet.TransferPacket {
	tp := &packet.TransferPacket{PacketType: packet.Type(p.ty)}
	if isCmd(p.ty) {
		var cp packet.CommandPacket
		if err := json.Unmarshal(p.body, &cp); err == nil {
			tp.CommandPacket = &cp
			return tp
		}
	}
	tp.Payload = p.body
	return tp
}

func runRTX(side string, pk []pkt) (caseStr, obs string) {
	// the wire bytes and the case line, exactly as for the WebSocket end-to-end cases
	var buf recWriter
	w := stream.NewStreamProcessor(nil, &buf, context.Background())
	var tbl []string
	for _, p := range pk {
		if p.comp {
			if gz, err := w.VerifCompress(p.body); err == nil {
				tbl = append(tbl, vc.Hex(p.body), vc.Hex(gz))
			}
		}
		if _, err := w.WritePacket(mkTP(p), p.comp, 0); err != nil {
			return "rtw " + side + " eof tbl 0 pk 0 ch 0", "writeerr"
		}
	}
	wire := buf.buf.Len()
	var sb strings.Builder
	fmt.Fprintf(&sb, "rtw %s eof tbl %d", side, len(tbl)/2)
	if len(tbl) > 0 {
		sb.WriteString(" " + strings.Join(tbl, " "))
	}
	fmt.Fprintf(&sb, " pk %d", len(pk))
	for _, p := range pk {
		c := "0"
		if p.comp {
			c = "1"
		}
		fmt.Fprintf(&sb, " %d %s %s", p.ty, c, vc.Hex(p.body))
	}
	sb.WriteString(" ch 0")
	caseStr = sb.String()

	getXports()
	if xpErr != "" {
		return caseStr, "transport-setup-failed:" + strings.ReplaceAll(xpErr, " ", "_")
	}
	xp := xpQ
	if side == "K" || side == "k" {
		xp = xpK
	}
	fin := side == "F" || side == "f" // QUIC: the writer sends FIN right behind its last byte
	res := make(chan string, 1)
	var toClose []io.Closer
	var mu sync.Mutex
	addCloser := func(c io.Closer) { mu.Lock(); toClose = append(toClose, c); mu.Unlock() }
	go func() {
		defer func() {
			if r := recover(); r != nil {
				res <- "panic " + strings.ReplaceAll(fmt.Sprint(r), " ", "_")
			}
		}()
		cli, err := xp.dial()
		if err != nil {
			res <- "dial-failed"
			return
		}
		addCloser(cli)
		// neither transport announces a stream/session to the listener before its first bytes: a preamble
		// packet client -> server, consumed by the server through the real reader
		csp := stream.NewStreamProcessor(cli, cli, context.Background())
		if _, err := csp.WritePacket(&packet.TransferPacket{PacketType: packet.Heartbeat}, false, 0); err != nil {
			res <- "preamble-write-failed"
			return
		}
		// accept until the session of OUR dial comes up: late retransmissions of an earlier, already closed
		// KCP session make the listener create a ghost session for that old peer address
		type addrs interface {
			LocalAddr() net.Addr
			RemoteAddr() net.Addr
		}
		var srv io.ReadWriteCloser
		for {
			x, err := xp.accept()
			if err != nil {
				res <- "accept-failed"
				return
			}
			addCloser(x)
			ca, ok1 := cli.(addrs)
			sa, ok2 := x.(addrs)
			if !ok1 || !ok2 || ca.LocalAddr() == nil || sa.RemoteAddr() == nil || portOf(ca.LocalAddr()) == portOf(sa.RemoteAddr()) {
				srv = x
				break
			}
		}
		var rdEnd, wrEnd io.ReadWriteCloser = srv, cli
		if side == "q" || side == "k" || side == "f" {
			rdEnd, wrEnd = cli, srv
		}
		cs := &countRWC{ReadWriteCloser: srv}
		ssp := stream.NewStreamProcessor(cs, srv, context.Background())
		if p, _, err := ssp.ReadPacket(); err != nil || p.PacketType != packet.Heartbeat {
			res <- "preamble-read-failed"
			return
		}
		var rsp *stream.StreamProcessor
		var cc *countRWC
		if rdEnd == srv {
			cs.n = 0
			rsp, cc = ssp, cs
		} else {
			cc = &countRWC{ReadWriteCloser: cli}
			rsp = stream.NewStreamProcessor(cc, cli, context.Background())
		}
		var wsp *stream.StreamProcessor
		if wrEnd == cli {
			wsp = csp
		} else {
			wsp = stream.NewStreamProcessor(srv, srv, context.Background())
		}
		werr := make(chan error, 1)
		go func() {
			defer func() { recover() }()
			for _, p := range pk {
				if _, err := wsp.WritePacket(mkTP(p), p.comp, 0); err != nil {
					werr <- err
					return
				}
			}
			if fin {
				adapter.VerifQuicFinish(wrEnd)
			}
			werr <- nil
		}()
		var held []*packet.TransferPacket
		stop := ""
		for fin || len(held) < len(pk) {
			p, _, err := rsp.ReadPacket()
			if err != nil {
				stop = stageOf(err)
				break
			}
			held = append(held, p)
		}
		if stop == "" {
			// everything arrived: the writer closes, the reader must now see the end of the stream at a
			// packet boundary
			<-werr
			wrEnd.Close()
			if xp == xpK {
				// KCP has no end-of-stream signalling (closing a session tells the peer nothing): the reader's
				// own end is closed shortly afterwards; nothing but the end may be delivered until then
				tm := time.AfterFunc(300*time.Millisecond, func() { defer func() { recover() }(); rdEnd.Close() })
				defer tm.Stop()
			}
			if _, _, err := rsp.ReadPacket(); err != nil {
				stop = stageOf(err)
			} else {
				stop = "extra-packet"
			}
		}
		var o bytes.Buffer
		fmt.Fprintf(&o, "pk %d", len(held))
		for _, p := range held {
			var body []byte
			if p.CommandPacket != nil {
				body, _ = json.Marshal(p.CommandPacket)
			} else {
				body = p.Payload
			}
			fmt.Fprintf(&o, " %s %s", strconv.Itoa(int(p.PacketType)), vc.Hex(body))
		}
		fmt.Fprintf(&o, " stop %s left %d", stop, wire-cc.n)
		res <- o.String()
	}()
	select {
	case obs = <-res:
	case <-time.After(30 * time.Second):
		obs = "timeout"
		timeouts++
	}
	mu.Lock()
	for _, c := range toClose {
		func() { defer func() { recover() }(); c.Close() }()
	}
	mu.Unlock()
	return caseStr, obs
}

func emitRTX(out *vc.Out, side string, pk []pkt, kind string) {
	c, o := runRTX(side, pk)
	out.Case(c, o, side+keyOf(pk, nil))
	abortIfStuck(out)
	out.Count("xport:" + kind)
}

// genRTX: packet sequences with bodies around the transports' own segment sizes (QUIC ≈1.2 KiB packets,
// KCP MSS ≈1.4 KiB, stream windows of 64 KiB and more), both directions.
func genRTX(out *vc.Out, r *vc.Rand, thorough bool) {
	n := 60
	if thorough {
		n = 400
	}
	sizes := []int{0, 0, 1, 2, 5, 100, 1023, 1024, 1025, 1199, 1200, 1201, 1350, 1400, 1401, 4096, 4097, 40000, 65535, 65536, 65537, 131072, 300000}
	sides := []string{"Q", "q", "K", "k", "F", "f"}
	for i := 0; i < n; i++ {
		var pk []pkt
		for j, m := 0, 1+r.Intn(6); j < m; j++ {
			ty := vc.Pick(r, definedTypes)
			pk = append(pk, pkt{ty, r.Intn(3) == 0, genBody(r, ty, sizes)})
		}
		side := sides[i%6]
		kind := "quic"
		if side == "K" || side == "k" {
			kind = "kcp"
		} else if side == "F" || side == "f" {
			kind = "quic-fin"
		}
		emitRTX(out, side, pk, kind)
	}
}

func replayRTX(out *vc.Out, toks []string) {
	pk, _, _, err := parseCaseRT(append([]string{"rt"}, toks[2:]...))
	if err != nil {
		return
	}
	emitRTX(out, toks[1], pk, "corpus")
}

func portOf(a net.Addr) string {
	_, p, err := net.SplitHostPort(a.String())
	if err != nil {
		return a.String()
	}
	return p
}
