//go:build verif

package main

// dx cases: ONE StreamProcessor is used in both directions at once.  The inbound stream is an `rt` case
// (packets written by a separate processor, cut into chunks); while it is being read, the same
// processor writes the outbound packets — one during each inbound Read call (the reader's hook runs
// inside Read, i.e. between any two pieces of a split type byte, length field or body).
//
//	dx <tail> tbl … pk … ch …  out <n> (<ty> <comp> <hexbody>)*n
//	## pk … stop … left …  owire <hex of what the processor wrote>

import (
	"context"
	"encoding/json"
	"fmt"
	"strings"
	"time"

	"tunnox-core/internal/packet"
	"tunnox-core/internal/stream"
	vc "tunnox-core/internal/verifharness/common"
)

type hookReader struct {
	inner *vc.ChunkReader
	hook  func()
}

func (h *hookReader) Read(p []byte) (int, error) {
	h.hook()
	return h.inner.Read(p)
}

func mkPacket(p pkt) *packet.TransferPacket {
	tp := &packet.TransferPacket{PacketType: packet.Type(p.ty)}
	if isCmd(p.ty) {
		var cp packet.CommandPacket
		if err := json.Unmarshal(p.body, &cp); err == nil {
			tp.CommandPacket = &cp
			return tp
		}
	}
	tp.Payload = p.body
	return tp
}

func runDX(inb []pkt, sizes []int, tailErr bool, outb []pkt) (caseStr, obs string) {
	// inbound wire and codec table from a separate writer
	var ibuf recWriter
	w := stream.NewStreamProcessor(nil, &ibuf, context.Background())
	var tbl []string
	for _, p := range append(append([]pkt{}, inb...), outb...) {
		if p.comp {
			if gz, err := w.VerifCompress(p.body); err == nil {
				tbl = append(tbl, vc.Hex(p.body), vc.Hex(gz))
			}
		}
	}
	for _, p := range inb {
		if _, err := w.WritePacket(mkPacket(p), p.comp, 0); err != nil {
			return "dx eof tbl 0 pk 0 ch 0 out 0", "writeerr"
		}
	}
	wire := append([]byte{}, ibuf.buf.Bytes()...)
	var sb strings.Builder
	fmt.Fprintf(&sb, "dx %s tbl %d", tailTok(tailErr), len(tbl)/2)
	if len(tbl) > 0 {
		sb.WriteString(" " + strings.Join(tbl, " "))
	}
	wr := func(tag string, ps []pkt) {
		fmt.Fprintf(&sb, " %s %d", tag, len(ps))
		for _, p := range ps {
			c := "0"
			if p.comp {
				c = "1"
			}
			fmt.Fprintf(&sb, " %d %s %s", p.ty, c, vc.Hex(p.body))
		}
	}
	wr("pk", inb)
	fmt.Fprintf(&sb, " ch %d", len(sizes))
	for _, s := range sizes {
		fmt.Fprintf(&sb, " %d", s)
	}
	wr("out", outb)
	caseStr = sb.String()

	done := make(chan string, 1)
	go func() {
		defer func() {
			if r := recover(); r != nil {
				done <- "panic " + strings.ReplaceAll(fmt.Sprint(r), " ", "_")
			}
		}()
		cr := vc.NewChunkReader(wire, sizes, tailErr)
		cr.EndWithData = endWithData
		var obuf recWriter
		var sp *stream.StreamProcessor
		next := 0
		hr := &hookReader{inner: cr, hook: func() {
			if next < len(outb) {
				p := outb[next]
				next++
				sp.WritePacket(mkPacket(p), p.comp, 0)
			}
		}}
		sp = stream.NewStreamProcessor(hr, &obuf, context.Background())
		defer sp.Close()
		var held []*packet.TransferPacket
		ro := readObs{}
		for {
			p, _, err := sp.ReadPacket()
			if err != nil {
				ro.stop = stageOf(err)
				ro.left = cr.Remaining()
				break
			}
			held = append(held, p)
			ro.n++
		}
		for next < len(outb) {
			p := outb[next]
			next++
			sp.WritePacket(mkPacket(p), p.comp, 0)
		}
		for _, p := range held {
			var body []byte
			if p.CommandPacket != nil {
				body, _ = json.Marshal(p.CommandPacket)
			} else {
				body = p.Payload
			}
			ro.pkts = append(ro.pkts, fmt.Sprint(int(p.PacketType)), vc.Hex(body))
		}
		done <- ro.String() + " owire " + vc.Hex(obuf.buf.Bytes())
	}()
	select {
	case o := <-done:
		return caseStr, o
	case <-time.After(20 * time.Second):
		timeouts++
		return caseStr, "timeout"
	}
}

func emitDX(out *vc.Out, inb []pkt, sizes []int, tailErr bool, outb []pkt) {
	c, o := runDX(inb, sizes, tailErr, outb)
	out.Case(c, o, "dx"+keyOf(inb, sizes)+keyOf(outb, nil))
	abortIfStuck(out)
	out.Count("duplex")
}

func genDX(out *vc.Out, r *vc.Rand, thorough bool) {
	small := []int{0, 1, 2, 3, 5, 9, 40, 300}
	n := 150
	if thorough {
		n = 3000
	}
	for i := 0; i < n; i++ {
		var inb, outb []pkt
		for j, k := 0, 1+r.Intn(3); j < k; j++ {
			ty := vc.Pick(r, definedTypes)
			inb = append(inb, pkt{ty, r.Intn(4) == 0, genBody(r, ty, small)})
		}
		for j, k := 0, 1+r.Intn(6); j < k; j++ {
			ty := vc.Pick(r, definedTypes)
			outb = append(outb, pkt{ty, r.Intn(4) == 0, genBody(r, ty, small)})
		}
		total := wireLen(inb)
		var sizes []int
		switch r.Intn(3) {
		case 0:
			sizes = ones(total) // every byte its own Read: a write lands inside every field
		case 1:
			sizes = randSizes(r, total)
		default: // a single cut inside the first packet's length field
			if total > 3 {
				sizes = []int{1 + r.Intn(4), total}
			}
		}
		emitDX(out, inb, sizes, r.Intn(5) == 0, outb)
	}
}
