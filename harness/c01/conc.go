//go:build verif

package main

// Concurrent writers on one StreamProcessor.
//
//	cw hold <k> pk <m> (<ty> <comp> <body>)*m
//
// Goroutine 1 writes packet 0 through a gated writer that parks inside its k-th Write call (so the packet is
// in progress and writeLock is held); goroutine 2 then writes packets 1…m-1; only afterwards is the gate
// opened.  writeLock must make goroutine 2 wait, so the wire is enc(p0) ++ enc(p1) ++ …: the observation is
// what ReadPacket decodes from the wire (same format as rt, chunked byte by byte).

import (
	"context"
	"encoding/json"
	"fmt"
	"strings"
	"sync"
	"time"

	"tunnox-core/internal/packet"
	"tunnox-core/internal/stream"
	vc "tunnox-core/internal/verifharness/common"
)

type gateWriter struct {
	mu      sync.Mutex
	buf     []byte
	calls   int
	holdAt  int
	parked  chan struct{}
	release chan struct{}
}

func (g *gateWriter) Write(p []byte) (int, error) {
	g.mu.Lock()
	g.calls++
	k := g.calls
	g.mu.Unlock()
	if k == g.holdAt {
		close(g.parked)
		<-g.release
	}
	g.mu.Lock()
	g.buf = append(g.buf, p...)
	g.mu.Unlock()
	return len(p), nil
}

func tpOf(p pkt) *packet.TransferPacket {
	tp := &packet.TransferPacket{PacketType: packet.Type(p.ty)}
	if isCmd(p.ty) {
		var cp packet.CommandPacket
		if json.Unmarshal(p.body, &cp) == nil {
			tp.CommandPacket = &cp
			return tp
		}
	}
	tp.Payload = p.body
	return tp
}

func runCW(hold int, pk []pkt) (caseStr, obs string) {
	var sb strings.Builder
	fmt.Fprintf(&sb, "cw hold %d pk %d", hold, len(pk))
	var tbl []string
	for _, p := range pk {
		c := "0"
		if p.comp {
			c = "1"
		}
		fmt.Fprintf(&sb, " %d %s %s", p.ty, c, vc.Hex(p.body))
	}
	g := &gateWriter{holdAt: hold, parked: make(chan struct{}), release: make(chan struct{})}
	sp := stream.NewStreamProcessor(nil, g, context.Background())
	for _, p := range pk {
		if p.comp {
			if gz, err := sp.VerifCompress(p.body); err == nil {
				tbl = append(tbl, vc.Hex(p.body), vc.Hex(gz))
			}
		}
	}
	caseStr = sb.String() + fmt.Sprintf(" tbl %d", len(tbl)/2)
	if len(tbl) > 0 {
		caseStr += " " + strings.Join(tbl, " ")
	}
	var wg sync.WaitGroup
	wg.Add(2)
	go func() {
		defer wg.Done()
		sp.WritePacket(tpOf(pk[0]), pk[0].comp, 0)
	}()
	parked := true
	select {
	case <-g.parked:
	case <-time.After(5 * time.Second):
		parked = false // the first packet has fewer than `hold` Write calls: nothing is held
	}
	second := make(chan struct{})
	go func() {
		defer wg.Done()
		for _, p := range pk[1:] {
			sp.WritePacket(tpOf(p), p.comp, 0)
		}
		close(second)
	}()
	if parked {
		// give the second writer every chance to run while the first packet is in progress
		select {
		case <-second:
		case <-time.After(30 * time.Millisecond):
		}
		close(g.release)
	}
	done := make(chan struct{})
	go func() { wg.Wait(); close(done) }()
	select {
	case <-done:
	case <-time.After(20 * time.Second):
		timeouts++
		return caseStr, "timeout"
	}
	g.mu.Lock()
	wire := append([]byte{}, g.buf...)
	g.mu.Unlock()
	ro, special := readAll(wire, ones(len(wire)), false, false)
	if special != "" {
		return caseStr, special
	}
	return caseStr, ro.String()
}

func genCW(out *vc.Out, r *vc.Rand, thorough bool) {
	small := []int{0, 1, 2, 7, 40}
	first := []int{0x01, 0x10, 0x20, 0x22, 0x23}
	for _, t0 := range first {
		for _, comp := range []bool{false, true} {
			for hold := 1; hold <= 3; hold++ {
				for _, second := range [][]int{{0x03}, {0x03, 0x03}, {0x22}, {0x03, 0x10, 0x03}} {
					pk := []pkt{{t0, comp, genBody(r, t0, []int{5, 9, 300})}}
					for _, t := range second {
						pk = append(pk, pkt{t, false, genBody(r, t, small)})
					}
					c, o := runCW(hold, pk)
					out.Case(c, o, c[:min(len(c), 120)])
					abortIfStuck(out)
					out.Count("cw:hold-" + fmt.Sprint(hold))
				}
			}
		}
	}
}

func replayCW(out *vc.Out, toks []string) {
	// cw hold k pk m (ty comp body)*
	var hold, m int
	fmt.Sscan(toks[2], &hold)
	fmt.Sscan(toks[4], &m)
	var pk []pkt
	i := 5
	for j := 0; j < m; j++ {
		var ty int
		fmt.Sscan(toks[i], &ty)
		pk = append(pk, pkt{ty, toks[i+1] == "1", vc.UnHex(toks[i+2])})
		i += 3
	}
	c, o := runCW(hold, pk)
	out.Case(c, o, "")
	abortIfStuck(out)
}
