//go:build verif

// Harness for C16 (shutdown paths run exactly once and leave nothing running).
//
//	c16 -tier quick|thorough -seed N [-stats file] [-nogen] [corpus files…]
//
// Output: one line per case   "[K:key ]<case tokens> ## <observation tokens>".
// Every case string is executed by exec(); generators only produce case strings.
//
//	disp  Dispose.Close latch, N closers behind a spin barrier
//	tun   client Tunnel.Close vs. its own completion paths (spin barrier)
//	rep   Bridge.reportTrafficStats under a forced interleaving (gated CloudControl)
//	brg   Bridge.Close, cleanup report racing the periodic goroutine's final report
//	sp    StreamProcessor.Close against an in-flight ReadPacket/WritePacket (gated transport)
//	api   every plain-argument exported method of a component on a fresh instance: open vs closed / closing — no new panic
//	rmt   ResourceManager.DisposeWithTimeout with a resource whose Dispose outlasts the deadline
//	rm    dispose.ResourceManager: Register / DisposeAll from many goroutines, then the last DisposeAll
//	rep2  several bridges of one mapping reporting to the same record (known finding: overlapping reports lose a delta)
//	cst   client mapping handler: reportStats ticks / calls / failing calls racing the final report on Close (TrackTraffic gated)
//	bat   Bridge.Close and connections attached between Close calls (late SetTarget/SetSourceConnection)
//	bg    Close while the storage cleaner / session sweep is mid-tick (storage lock held by a parked reader)
//	tst   Tunnel.Start parked at its interface calls (manager.Ctx(), log) while Close calls run to completion
//	flow  started Bridge with data in flight: EOF / endpoint error / Close / parent-context cancel; totals vs bytes delivered
//	mgr   memory storage / SessionManager Close × N, background goroutines gone afterwards
package main

import (
	"bufio"
	"flag"
	"fmt"
	"os"
	"strings"
	"time"

	corelog "tunnox-core/internal/core/log"
	vc "tunnox-core/internal/verifharness/common"
)

func exec(caseStr string) (obs string) {
	t := strings.Fields(caseStr)
	if len(t) == 0 {
		return "bad case"
	}
	defer func() {
		if r := recover(); r != nil {
			obs = "panic " + sanitize(fmt.Sprint(r))
		}
	}()
	return withWatchdog(3*patient(), func() string {
		switch t[0] {
		case "disp":
			return runDisp(t)
		case "tun":
			return runTun(t)
		case "rep":
			return runRep(t)
		case "brg":
			return runBrg(t)
		case "sp":
			return runSp(t)
		case "mgr":
			return runMgr(t)
		case "flow":
			return runFlow(t)
		case "tst":
			return runTst(t)
		case "bg":
			return runBg(t)
		case "bat":
			return runBat(t)
		case "cst":
			return runCst(t)
		case "api":
			return runApi(t)
		case "rep2":
			return runRep2(t)
		case "rm":
			return runRm(t)
		case "rmt":
			return runRmt(t)
		}
		return "bad case"
	})
}

var secondsByKind = map[string]float64{}

var timeoutsRetried, timeoutsConfirmed int

// suspect: the observation is a verdict that depends on how long the harness waited.
func suspect(obs string) bool {
	if strings.Contains(obs, "timeout") || strings.Contains(obs, "stuck") {
		return true
	}
	f := strings.Fields(obs)
	for i := 0; i+1 < len(f); i++ {
		if (f[i] == "leak" || f[i] == "live") && f[i+1] != "0" {
			return true
		}
	}
	return false
}

// execPatient runs a case; a wait-dependent verdict is re-run once, alone, with doubled patience and
// is reported only if it shows up again; the first confirmed one ends the run.
func execPatient(caseStr string) string {
	patience.Store(1)
	obs := exec(caseStr)
	if !suspect(obs) {
		return obs
	}
	// re-run once, alone, with doubled patience: a verdict that only reflects a slow machine goes away
	timeoutsRetried++
	time.Sleep(200 * time.Millisecond) // let stray goroutines of the first attempt finish
	patience.Store(2)
	again := exec(caseStr)
	patience.Store(1)
	if !suspect(again) {
		return again
	}
	timeoutsConfirmed++ // confirmed: it is reported, and the run ends here (see emit)
	return again
}

func emit(out *vc.Out, key, caseStr string) {
	if timeoutsConfirmed >= 1 {
		return // a confirmed hang/leak has been reported; on such a tree the rest of the run would only wait
	}
	t0 := time.Now()
	obs := execPatient(caseStr)
	kind := strings.Fields(caseStr)[0]
	secondsByKind[kind] += time.Since(t0).Seconds()
	out.Count(kind)
	line := caseStr
	if key != "" {
		line = "K:" + key + " " + caseStr
	}
	// distinct = distinct configuration (the case without repetition count and model seed)
	out.Case(line, obs, distinctKey(caseStr))
}

func distinctKey(c string) string {
	f := strings.Fields(c)
	var o []string
	for i := 0; i < len(f); i++ {
		if f[i] == "rep" || f[i] == "ms" {
			i++
			continue
		}
		o = append(o, f[i])
	}
	return strings.Join(o, " ")
}

func replayFile(out *vc.Out, path string) {
	f, err := os.Open(path)
	if err != nil {
		fmt.Fprintln(os.Stderr, err)
		return
	}
	defer f.Close()
	sc := bufio.NewScanner(f)
	sc.Buffer(make([]byte, 1<<20), 1<<26)
	for sc.Scan() {
		l := strings.TrimSpace(sc.Text())
		if l == "" || strings.HasPrefix(l, "#") {
			continue
		}
		if i := strings.Index(l, " ## "); i >= 0 {
			l = l[:i]
		}
		key := ""
		if strings.HasPrefix(l, "K:") {
			sp := strings.IndexByte(l, ' ')
			key, l = l[2:sp], l[sp+1:]
		}
		emit(out, key, l)
	}
}

// ---- generators

var tunClosers = []string{"c0", "c1", "c2", "c3", "c4", "c5", "p", "a", "x", "t1", "t3"}

func gen(out *vc.Out, r *vc.Rand, thorough bool) {
	mul := 1
	if thorough {
		mul = 3
	}
	ms := func() string { return fmt.Sprintf("ms %d", r.Intn(1<<30)) }

	// disp: all (N, H, mask) of a small scope, many repetitions each
	ns := []int{1, 2, 3, 8}
	if thorough {
		ns = append(ns, 16)
	}
	for _, n := range ns {
		for h := 0; h <= 3; h++ {
			for mask := 0; mask < 1<<h; mask++ {
				if !thorough && h == 3 && mask%3 != 0 {
					continue
				}
				emit(out, "", fmt.Sprintf("disp n %d h %d errs %d rep %d %s", n, h, mask, 150*mul, ms()))
			}
		}
	}

	// tun: every pair of closers (both initial states), then larger random crowds
	for init := 0; init <= 1; init++ {
		for i, a := range tunClosers {
			for _, b := range tunClosers[i:] {
				if !thorough && r.Intn(3) != 0 {
					continue
				}
				emit(out, "", fmt.Sprintf("tun init %d role %d tgt %d cl 2 %s %s rep %d %s", init, r.Intn(2), r.Intn(2), a, b, 150*mul, ms()))
			}
		}
	}
	crowds := 10 * mul
	for i := 0; i < crowds; i++ {
		n := 3 + r.Intn(6)
		if i%4 == 0 {
			n = 8
		}
		init := r.Intn(2)
		cl := make([]string, n)
		for j := range cl {
			cl[j] = vc.Pick(r, tunClosers)
		}
		if init == 1 && r.Intn(2) == 0 {
			cl[r.Intn(n)] = "e"
		}
		emit(out, "", fmt.Sprintf("tun init %d role %d tgt %d cl %d %s rep %d %s", init, r.Intn(2), 1, n, strings.Join(cl, " "), 300*mul, ms()))
	}
	// single closers: each completion path alone
	for _, c := range append(append([]string{}, tunClosers...), "e") {
		emit(out, "", fmt.Sprintf("tun init 1 role 0 tgt 1 cl 1 %s rep 3 %s", c, ms()))
	}

	// rep: every schedule of length ≤ L over 2 threads (one round), then random multi-round cases
	L := 5
	if thorough {
		L = 7
	}
	for l := 0; l <= L; l++ {
		for code := 0; code < 1<<l; code++ {
			s := make([]int, l)
			for i := range s {
				s[i] = code >> i & 1
			}
			emit(out, "", fmt.Sprintf("rep r 1 a %d %d t 2 s %d %s", 100+l, code, l, joinInts(s)))
		}
	}
	for l := 0; l <= 4; l++ {
		for code := 0; code < 1<<l; code++ {
			s := make([]int, l)
			for i := range s {
				s[i] = code >> i & 1
			}
			f := []string{"g 1 0", "u 1 0", "g 1 0 u 1 1"}[(l+code)%3]
			emit(out, "", strings.TrimSpace(fmt.Sprintf("rep r 2 a %d %d t 2 s %d %s", 50+l, code, l, joinInts(s)))+" "+f+" a 1 1 t 1 s 0")
		}
	}
	for i := 0; i < 60*mul; i++ {
		rounds := 1 + r.Intn(3)
		c := fmt.Sprintf("rep r %d", rounds)
		for k := 0; k < rounds; k++ {
			n := 1 + r.Intn(4)
			l := r.Intn(10)
			s := make([]int, l)
			for j := range s {
				s[j] = r.Intn(n)
			}
			as, ar := r.Intn(3)*r.Intn(1000), r.Intn(3)*r.Intn(1000)
			c += fmt.Sprintf(" a %d %d t %d s %d", as, ar, n, l)
			if l > 0 {
				c += " " + joinInts(s)
			}
			// storage faults: some reporter's GetPortMapping / UpdatePortMappingStats fails
			if r.Intn(3) == 0 {
				c += fmt.Sprintf(" g 1 %d", r.Intn(n))
			}
			if r.Intn(3) == 0 {
				c += fmt.Sprintf(" u 1 %d", r.Intn(n))
			}
		}
		emit(out, "", c)
	}

	// sp: every cut position for reads and writes, several closer counts
	for _, n := range []int{1, 2, 4} {
		for chunks := 2; chunks <= 4; chunks++ {
			for cut := -1; cut < chunks; cut++ {
				emit(out, "", fmt.Sprintf("sp op r chunks %d cut %d n %d rep %d %s", chunks, cut, n, 2*mul, ms()))
			}
		}
		for cut := -1; cut < 3; cut++ {
			emit(out, "", fmt.Sprintf("sp op w chunks 3 cut %d n %d rep %d %s", cut, n, 2*mul, ms()))
		}
		emit(out, "", fmt.Sprintf("sp op z chunks 0 cut -1 n %d rep %d %s", n, 20*mul, ms()))
	}
	emit(out, "", fmt.Sprintf("sp op z chunks 0 cut -1 n 16 rep %d %s", 50*mul, ms()))

	// api: every plain-argument exported method of every managed component, after and during Close
	for _, kind := range []string{"sm", "st", "sp", "br", "tn", "tm"} {
		emit(out, "", fmt.Sprintf("api kind %s when after rep 1 %s", kind, ms()))
		emit(out, "", fmt.Sprintf("api kind %s when during rep %d %s", kind, mul, ms()))
	}

	// rm: ResourceManager — every multiset of ≤ 4 concurrent Register / DisposeAll calls on 0–2 resources
	for pre := 0; pre <= 2; pre++ {
		for n := 1; n <= 4; n++ {
			for regs := 0; regs <= n; regs++ {
				ops := make([]string, n)
				for i := range ops {
					if i < regs {
						ops[i] = "r"
					} else {
						ops[i] = "d"
					}
				}
				l := r.Intn(3 * n)
				sc := make([]int, l)
				for i := range sc {
					sc[i] = r.Intn(n)
				}
				emit(out, "", strings.TrimSpace(fmt.Sprintf("rm pre %d ops %d %s s %d %s", pre, n, strings.Join(ops, " "), l, joinInts(sc)))+fmt.Sprintf(" rep %d %s", 20*mul, ms()))
			}
		}
	}
	// rmt: DisposeWithTimeout, the deadline or the disposal winning
	emit(out, "", "rmt slow 1 rep 2 "+ms())
	emit(out, "", fmt.Sprintf("rmt slow 0 rep %d %s", 3*mul, ms()))
	// rep2: several bridges of one mapping, sequential reports (the overlapping ones are the known finding, in the corpus)
	emit(out, "", "rep2 b 2 100 7 s 4 0 0 1 1 rep 1 "+ms())
	emit(out, "", "rep2 b 3 5 6 7 s 6 2 2 0 0 1 1 rep 1 "+ms())
	emit(out, "crossbridge-lost-update", "rep2 b 2 100 7 s 4 0 1 0 1 rep 1 "+ms())

	// cst: client mapping handler, reportStats × (tick | call | failing call | Close), TrackTraffic gated:
	// every schedule of length ≤ 4 over two threads for every pair of kinds, then random crowds
	cstKinds := []string{"P", "r", "rf", "c"}
	for _, k0 := range cstKinds {
		for _, k1 := range []string{"r", "rf", "c"} {
			if k0 == "c" && k1 == "c" {
				continue // a second Close waits on the dispose latch of the first, it never reports
			}
			L := 3
			if thorough {
				L = 4
			}
			for l := 0; l <= L; l++ {
				for code := 0; code < 1<<l; code++ {
					sc := make([]int, l)
					for i := range sc {
						sc[i] = code >> i & 1
					}
					if k0 == "P" && (l == 0 || sc[0] != 0) {
						continue // the real tick is started first, while the totals are pending
					}
					emit(out, "", fmt.Sprintf("cst a %d %d th 2 %s %s s %d %s rep 1 %s", 1000+code, 500*(l%2), k0, k1, l, strings.TrimSpace(joinInts(sc)), ms()))
				}
			}
		}
	}
	for i := 0; i < 20*mul; i++ {
		n := 2 + r.Intn(3)
		kinds := make([]string, n)
		for j := range kinds {
			kinds[j] = vc.Pick(r, []string{"r", "rf", "r"})
		}
		if r.Intn(3) > 0 {
			kinds[r.Intn(n)] = "c" // at most one Close
		}
		l := r.Intn(2 * n)
		sc := make([]int, l)
		for j := range sc {
			sc[j] = r.Intn(n)
		}
		emit(out, "", fmt.Sprintf("cst a %d %d th %d %s s %d %s rep 1 %s", r.Intn(3)*r.Intn(5000), r.Intn(2)*r.Intn(5000), n, strings.Join(kinds, " "), l, strings.TrimSpace(joinInts(sc)), ms()))
	}

	// bat: histories of Close / late or duplicate attach (a source is re-attached only while its field is empty), always
	// ended by the last Close; every history of length ≤ 4 over {c, t, s, ct, cs, cc}, then longer random ones
	batOps := []string{"c", "t", "s", "ct", "cs", "cc"}
	var batHist func(prefix []string, srcSet, tgtSet bool, depth int)
	batHist = func(prefix []string, srcSet, tgtSet bool, depth int) {
		if len(prefix) > 0 {
			h := append(append([]string{}, prefix...), "c")
			emit(out, "", fmt.Sprintf("bat start %d h %d %s rep %d %s", len(h)%2, len(h), strings.Join(h, " "), mul, ms()))
		}
		if depth == 0 {
			return
		}
		for _, op := range batOps {
			s2, t2 := srcSet, tgtSet
			switch op {
			case "c", "cc":
				s2, t2 = false, false
			case "t":
				t2 = true // a duplicate target attach is turned away and closed by the setter
			case "s":
				if srcSet {
					continue
				}
				s2 = true
			case "ct":
				s2, t2 = false, true // the attach may land before the racing Close tears down
			case "cs":
				if srcSet {
					continue
				}
				s2, t2 = true, false
			}
			batHist(append(prefix, op), s2, t2, depth-1)
		}
	}
	depth := 2
	if thorough {
		depth = 3
	}
	batHist(nil, true, false, depth)

	// bg: Close while a background loop of the component is in the middle of a tick
	for _, order := range []string{"close", "tick"} {
		for _, n := range []int{1, 2, 4} {
			emit(out, "", fmt.Sprintf("bg kind st order %s n %d rep %d %s", order, n, mul, ms()))
		}
	}
	for _, n := range []int{1, 4} {
		emit(out, "", fmt.Sprintf("bg kind sm order sweep n %d rep %d %s", n, 3*mul, ms()))
	}

	// tst: Close interleaved with Tunnel.Start at every injectable point of Start:
	// every (closer kind × gate), then groups spread over the gates
	for _, c := range []string{"c0", "c3", "p", "a", "x"} {
		for g := 0; g <= 3; g++ {
			emit(out, "", fmt.Sprintf("tst cl 1 %s@%d rep %d %s", c, g, mul, ms()))
		}
	}
	for i := 0; i < 12*mul; i++ {
		n := 2 + r.Intn(5)
		cl := make([]string, n)
		for j := range cl {
			cl[j] = fmt.Sprintf("%s@%d", vc.Pick(r, tunClosers), r.Intn(4))
		}
		emit(out, "", fmt.Sprintf("tst cl %d %s rep %d %s", n, strings.Join(cl, " "), 3*mul, ms()))
	}

	// flow: data in flight, every completion path of the bridge; the totals are compared with the
	// bytes the fake target endpoint accepted
	for _, mode := range []string{"eof", "err", "werr", "close"} {
		for _, c := range [][2]int{{1, 1}, {7, 3}, {100, 1 + r.Intn(400)}, {32768, 33 + r.Intn(4)}, {1 + r.Intn(512), 1 + r.Intn(200)}} {
			emit(out, "", fmt.Sprintf("flow mode %s chunk %d at %d rep 1 %s", mode, c[0], c[1], ms()))
		}
	}
	// parent context cancelled while ≥ ContextCheckInterval small reads keep flowing
	ctxAts := []int{1, 1 + r.Intn(9998), 9999}
	if thorough {
		ctxAts = append(ctxAts, 10000, 10001+r.Intn(9000), 20000)
	}
	for _, at := range ctxAts {
		emit(out, "", fmt.Sprintf("flow mode ctx chunk %d at %d rep 1 %s", 1+r.Intn(5)/4, at, ms()))
	}

	// mgr: storage and session manager, several closer counts
	for _, kind := range []string{"st", "sm", "mh"} {
		for _, n := range []int{1, 2, 8} {
			emit(out, "", fmt.Sprintf("mgr kind %s n %d rep %d %s", kind, n, 5*mul, ms()))
		}
	}

	// brg: closers × started or not × byte counts
	brgSets := [][]string{{"c"}, {"c", "c"}, {"c", "c", "c", "c"}, {"e"}, {"f"}, {"c", "e"}, {"c", "f", "e"}, {"e", "f"}}
	for _, cl := range brgSets {
		for start := 0; start <= 1; start++ {
			if start == 0 && (cl[0] != "c" || len(cl) > 2 && cl[1] != "c") {
				continue // hang-ups are only noticed by a started bridge
			}
			bs, br := r.Intn(100000), r.Intn(3)*r.Intn(5000)
			if r.Intn(6) == 0 {
				bs, br = 0, 0
			}
			emit(out, "", fmt.Sprintf("brg b %d %d start %d cl %d %s rep %d %s", bs, br, start, len(cl), strings.Join(cl, " "), 2*mul, ms()))
		}
	}
}

func main() {
	tier := flag.String("tier", "quick", "quick | thorough")
	seed := flag.Uint64("seed", 1, "seed")
	stats := flag.String("stats", "", "stats file")
	noGen := flag.Bool("nogen", false, "only replay the corpus files")
	flag.Parse()
	corelog.SetDefault(theLogger)
	out := vc.NewOut()
	// warm-up: lazily started process-wide goroutines must exist before any baseline
	exec("tun init 1 role 0 tgt 1 cl 1 c0 rep 1 ms 0")
	exec("sp op z chunks 0 cut -1 n 1 rep 1 ms 0")
	exec("brg b 1 1 start 1 cl 1 c rep 1 ms 0")
	exec("mgr kind sm n 1 rep 1 ms 0")
	for _, f := range flag.Args() {
		replayFile(out, f)
	}
	if !*noGen {
		gen(out, vc.NewRand(*seed), *tier == "thorough")
	}
	out.Finish(*stats, map[string]any{"seconds_by_kind": secondsByKind, "timeouts_retried": timeoutsRetried, "timeouts_confirmed": timeoutsConfirmed})
}
