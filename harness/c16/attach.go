//go:build verif

package main

import (
	"context"
	"fmt"
	"net"
	"sync/atomic"
	"time"

	stunnel "tunnox-core/internal/protocol/session/tunnel"
)

// ============================================================================
// bat: Bridge.Close and connections attached late (a handler that looked the bridge up before
// it was closed attaches its connection afterwards; runBridgeLifecycle's deferred Close must
// still tear it down)
//   bat start <0|1> h <k> <op…> rep <K> ms <seed>
//     op: c = Close   t / s = SetTargetConnection / SetSourceConnection with a fresh connection
//         ct / cs = Close ‖ attach behind a spin barrier   cc = two Closes at once
//     the last op is always c (the last Close). start 1: Bridge.Start is running (waiting for
//     its target) when the history begins.
//   obs: satt <n> stc <n> tatt <n> ttc <n> lost 0 0 open <attached connections not closed exactly once>
// ============================================================================

type attConn struct {
	tc    *fakeTC
	conn  *atomic.Int32 // Close calls on the net.Conn
	tcCls *atomic.Int32
}

func newAttConn() (*attConn, net.Conn) {
	a, b := net.Pipe()
	var cc, tcc atomic.Int32
	ac := &attConn{conn: &cc, tcCls: &tcc}
	ac.tc = &fakeTC{conn: countConn{a, &cc}, closes: &tcc}
	return ac, b
}

func runBat(t []string) string {
	start, k := atoi(t[2]), atoi(t[4])
	ops := t[5 : 5+k]
	rep := atoi(t[5+k+1])
	var first string
	for it := 0; it < rep; it++ {
		obs := batOnce(start, ops)
		if it == 0 {
			first = obs
		}
		if obs != first {
			return obs
		}
	}
	return first
}

func batOnce(start int, ops []string) string {
	ctx, cancel := context.WithCancel(context.Background())
	defer cancel()
	var srcs, tgts []*attConn
	var peers []net.Conn
	defer func() {
		for _, p := range peers {
			p.Close()
		}
	}()
	s0, p0 := newAttConn()
	srcs = append(srcs, s0)
	peers = append(peers, p0)
	b := stunnel.NewBridge(ctx, &stunnel.BridgeConfig{TunnelID: "bat", MappingID: "", ClientID: 1, SourceTunnelConn: s0.tc})
	startDone := make(chan struct{})
	if start == 1 {
		go func() { defer close(startDone); b.Start() }()
		// Start is waiting for the target (or the context)
		waitFor(func() bool { return countStacks("(*Bridge).Start") > 0 }, patient())
	} else {
		close(startDone)
	}
	attach := func(target bool) {
		c, p := newAttConn()
		peers = append(peers, p)
		if target {
			tgts = append(tgts, c)
			b.SetTargetConnection(c.tc)
		} else {
			srcs = append(srcs, c)
			b.SetSourceConnection(c.tc)
		}
	}
	for _, op := range ops {
		var panics []string
		res := withWatchdog(patient(), func() string {
			switch op {
			case "c":
				b.Close()
			case "t":
				attach(true)
			case "s":
				attach(false)
			case "cc":
				panics = barrierRun(2, func(int) { b.Close() })
			case "ct", "cs":
				panics = barrierRun(2, func(i int) {
					if i == 0 {
						b.Close()
					} else {
						attach(op == "ct")
					}
				})
			default:
				return "bad case"
			}
			return "ok"
		})
		if res != "ok" {
			return res
		}
		if len(panics) > 0 {
			return "panic " + panics[0]
		}
	}
	select {
	case <-startDone:
	case <-time.After(patient()):
		return "timeout start"
	}
	open := 0
	stc, ttc := 0, 0
	for _, c := range srcs {
		stc += int(c.tcCls.Load())
		if c.tcCls.Load() != 1 || c.conn.Load() == 0 {
			open++
		}
	}
	for _, c := range tgts {
		ttc += int(c.tcCls.Load())
		if c.tcCls.Load() != 1 || c.conn.Load() == 0 {
			open++
		}
	}
	return fmt.Sprintf("satt %d stc %d tatt %d ttc %d lost 0 0 open %d", len(srcs), stc, len(tgts), ttc, open)
}
