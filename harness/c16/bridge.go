//go:build verif

package main

import (
	"context"
	"runtime"
	"fmt"
	"io"
	"net"
	"strings"
	"sync"
	"sync/atomic"
	"time"

	"tunnox-core/internal/cloud/models"
	"tunnox-core/internal/cloud/stats"
	"tunnox-core/internal/packet"
	stunnel "tunnox-core/internal/protocol/session/tunnel"
	"tunnox-core/internal/stream"
)

// ============================================================================
// CloudControl doubles
// ============================================================================

type ccStore struct {
	mu      sync.Mutex
	m       models.PortMapping
	updates int
}

func (c *ccStore) get() *models.PortMapping {
	c.mu.Lock()
	defer c.mu.Unlock()
	cp := c.m
	return &cp
}
func (c *ccStore) update(ts *stats.TrafficStats) {
	c.mu.Lock()
	defer c.mu.Unlock()
	c.m.TrafficStats = *ts
	c.updates++
}

// gatedCC parks every GetPortMapping / UpdatePortMappingStats call (before it takes
// effect) until the scheduler releases the calling thread.
type gatedCC struct {
	ccStore
	g     *gate
	tids  sync.Map // goroutine id -> thread id
	free  atomic.Bool
	failG sync.Map // thread id -> GetPortMapping fails
	failU sync.Map // thread id -> UpdatePortMappingStats fails
}

func (c *gatedCC) tid() int {
	if v, ok := c.tids.Load(curGID()); ok {
		return v.(int)
	}
	return -1
}
func (c *gatedCC) GetPortMapping(id string) (*models.PortMapping, error) {
	t := c.tid()
	if t >= 0 && !c.free.Load() {
		c.g.park(t)
	}
	if _, bad := c.failG.Load(t); bad && t >= 0 {
		return nil, fmt.Errorf("storage unavailable")
	}
	return c.get(), nil
}
func (c *gatedCC) UpdatePortMappingStats(id string, ts *stats.TrafficStats) error {
	t := c.tid()
	if t >= 0 && !c.free.Load() {
		c.g.park(t)
	}
	if _, bad := c.failU.Load(t); bad && t >= 0 {
		return fmt.Errorf("storage unavailable")
	}
	c.update(ts)
	return nil
}
func (c *gatedCC) GetClientPortMappings(int64) ([]*models.PortMapping, error) { return nil, nil }

// ============================================================================
// rep: reportTrafficStats under a forced interleaving
//   rep r <R> { a <s> <r> t <n> s <k> <tid…> [g <k> <tid…>] [u <k> <tid…>] }×R   (g/u: that reporter's Get/Update fails)
//   obs:  { r <sent> <recv> <updates> <lastS> <lastR> }×R
// One schedule entry = one atomic step of the model: start (take the report lock, load
// the counters), GetPortMapping, UpdatePortMappingStats(+ store last reported).
// ============================================================================

const (
	stNew = iota
	stParked
	stBlocked
	stDone
)

type repThread struct {
	status int
	gid    atomic.Int64
	done   atomic.Bool
}

func runRep(t []string) string {
	rounds := atoi(t[2])
	cc := &gatedCC{g: newGate()}
	cc.m.ID = "m1"
	ctx, cancel := context.WithCancel(context.Background())
	defer cancel()
	b := stunnel.NewBridge(ctx, &stunnel.BridgeConfig{TunnelID: "rep", MappingID: "m1", CloudControl: cc})
	defer func() {
		cc.free.Store(true)
		cc.g.releaseAll()
		b.Close()
	}()
	pos := 3
	var obs []string
	for r := 0; r < rounds; r++ {
		if t[pos] != "a" || t[pos+3] != "t" || t[pos+5] != "s" {
			return "bad case"
		}
		as, ar, n, k := atoi(t[pos+1]), atoi(t[pos+2]), atoi(t[pos+4]), atoi(t[pos+6])
		sched := make([]int, k)
		for i := range sched {
			sched[i] = atoi(t[pos+7+i])
		}
		pos += 7 + k
		// optional storage faults of this round: g <k> <tid…> / u <k> <tid…>
		cc.failG.Range(func(key, _ any) bool { cc.failG.Delete(key); return true })
		cc.failU.Range(func(key, _ any) bool { cc.failU.Delete(key); return true })
		for _, key := range []string{"g", "u"} {
			if pos+1 < len(t) && t[pos] == key {
				kk := atoi(t[pos+1])
				for i := 0; i < kk; i++ {
					if key == "g" {
						cc.failG.Store(atoi(t[pos+2+i]), true)
					} else {
						cc.failU.Store(atoi(t[pos+2+i]), true)
					}
				}
				pos += 2 + kk
			}
		}
		b.AddBytesSent(int64(as))
		b.AddBytesReceived(int64(ar))
		ths := make([]*repThread, n)
		for i := range ths {
			ths[i] = &repThread{}
		}
		settle := func(i int) bool {
			// Wait until thread i is finished, parked at a gate, or waiting for a mutex inside
			// repo code. Retry-based: "blocked" needs three consecutive goroutine dumps that
			// agree; polling backs off because every dump stops the world.
			th := ths[i]
			deadline := time.Now().Add(patient())
			blockedSeen := 0
			pause := 5 * time.Microsecond
			for time.Now().Before(deadline) {
				if th.done.Load() {
					th.status = stDone
					return true
				}
				if cc.g.isParked(i) {
					th.status = stParked
					return true
				}
				if pause >= dumpAfter() {
					if gid := th.gid.Load(); gid != 0 && blockedInRepo(gid) {
						blockedSeen++
						if blockedSeen >= 3 {
							th.status = stBlocked
							return true
						}
					} else {
						blockedSeen = 0
					}
				}
				time.Sleep(pause)
				if pause < 2*time.Millisecond {
					pause *= 2
				}
			}
			return false
		}
		stepThread := func(i int) bool {
			if i < 0 || i >= n {
				return true
			}
			th := ths[i]
			switch th.status {
			case stNew:
				go func() {
					gid := curGID()
					cc.tids.Store(gid, i)
					th.gid.Store(gid)
					defer func() {
						recover()
						cc.tids.Delete(gid)
						th.done.Store(true)
					}()
					b.VerifReportTrafficStats()
				}()
				return settle(i)
			case stParked:
				cc.g.release(i)
				// the thread must leave the gate before we look at it again
				for cc.g.isParked(i) {
					runtime.Gosched()
				}
				return settle(i)
			case stBlocked:
				// it may have obtained the lock meanwhile; arriving at its first gate
				// (or finishing) was the step
				return settle(i)
			}
			return true
		}
		for _, i := range sched {
			if !stepThread(i) {
				return "timeout"
			}
		}
		for pass := 0; pass < 4*n+4; pass++ {
			all := true
			for i := 0; i < n; i++ {
				if !stepThread(i) {
					return "timeout"
				}
				if ths[i].status != stDone {
					all = false
				}
			}
			if all {
				break
			}
		}
		for i := 0; i < n; i++ {
			if ths[i].status != stDone {
				return "stuck"
			}
		}
		m := cc.get()
		ls, lr := b.VerifLastReported()
		obs = append(obs, fmt.Sprintf("r %d %d %d %d %d", m.TrafficStats.BytesSent, m.TrafficStats.BytesReceived, cc.updates, ls, lr))
	}
	return strings.Join(obs, " ")
}

// dumpAfter: how long a thread may be neither parked nor finished before the (world-stopping)
// goroutine dump is consulted; under the race detector a dump costs milliseconds.
func dumpAfter() time.Duration {
	if raceEnabled {
		return 1280 * time.Microsecond
	}
	return 40 * time.Microsecond
}

// blockedInRepo: goroutine gid is parked in a sync lock operation called from repo code
// (not from the harness's own bookkeeping).
func blockedInRepo(gid int64) bool {
	for _, g := range dumpGoroutines() {
		if g.id != gid {
			continue
		}
		if !(strings.HasPrefix(g.state, "sync.") || strings.HasPrefix(g.state, "semacquire")) {
			return false
		}
		for _, ln := range strings.Split(g.stack, "\n")[1:] {
			if strings.HasPrefix(ln, "\t") || strings.HasPrefix(ln, " ") {
				continue
			}
			if strings.HasPrefix(ln, "sync.") || strings.HasPrefix(ln, "runtime.") || strings.HasPrefix(ln, "internal/") {
				continue
			}
			return !strings.Contains(ln, "tunnox-core/internal/verifharness")
		}
	}
	return false
}

// ============================================================================
// brg: Bridge.Close — concurrent closers, the bridge's own completion paths, the final
// traffic report of the periodic goroutine racing with the one in cleanup
//   brg b <s> <r> start <0|1> cl <k> <closer…> rep <K> ms <seed>
//   closers: c = Close()   e = source peer hangs up   f = target peer hangs up
//   obs: sc <n> tc <n> stc <n> ttc <n> stats <s> <r> active <0|1> leak <g>
// ============================================================================

// windowCC makes one caller's Get→Update a transaction and lets a caller that holds the
// transaction wait a little for a second caller to arrive at Get: the schedule in which
// both reporters computed their delta before either wrote.
type windowCC struct {
	ccStore
	sem     chan struct{}
	waiting atomic.Int32
	window  time.Duration
	holder  atomic.Int64
}

func (c *windowCC) GetPortMapping(id string) (*models.PortMapping, error) {
	c.waiting.Add(1)
	c.sem <- struct{}{}
	c.waiting.Add(-1)
	c.holder.Store(curGID())
	deadline := time.Now().Add(c.window)
	for c.waiting.Load() == 0 && time.Now().Before(deadline) {
		time.Sleep(20 * time.Microsecond)
	}
	return c.get(), nil
}
func (c *windowCC) UpdatePortMappingStats(id string, ts *stats.TrafficStats) error {
	c.update(ts)
	if c.holder.Load() == curGID() {
		c.holder.Store(0)
		<-c.sem
	}
	return nil
}
func (c *windowCC) GetClientPortMappings(int64) ([]*models.PortMapping, error) { return nil, nil }

type countConn struct {
	net.Conn
	closes *atomic.Int32
}

func (c countConn) Close() error { c.closes.Add(1); return c.Conn.Close() }

type fakeTC struct {
	conn   net.Conn
	closes *atomic.Int32
}

func (f *fakeTC) GetConnectionID() string           { return "fake" }
func (f *fakeTC) GetClientID() int64                { return 1 }
func (f *fakeTC) GetMappingID() string              { return "m1" }
func (f *fakeTC) GetTunnelID() string               { return "brg" }
func (f *fakeTC) GetStream() stream.PackageStreamer { return nil }
func (f *fakeTC) GetNetConn() net.Conn              { return f.conn }
func (f *fakeTC) Close() error                      { f.closes.Add(1); return nil }
func (f *fakeTC) IsClosed() bool                    { return f.closes.Load() > 0 }

func runBrg(t []string) string {
	bs, br, start := atoi(t[2]), atoi(t[3]), atoi(t[5])
	k := atoi(t[7])
	closers := t[8 : 8+k]
	rep := atoi(t[8+k+1])
	var first string
	for it := 0; it < rep; it++ {
		obs := brgOnce(bs, br, start, closers)
		if it == 0 {
			first = obs
		}
		if obs != first {
			return obs
		}
	}
	return first
}

func brgOnce(bs, br, start int, closers []string) string {
	base := baseline()
	ctx, cancel := context.WithCancel(context.Background())
	defer cancel()
	cc := &windowCC{sem: make(chan struct{}, 1), window: 15 * time.Millisecond}
	cc.m.ID = "m1"
	var sc, tc, stc, ttc atomic.Int32
	srcA, srcB := net.Pipe()
	tgtA, tgtB := net.Pipe()
	src := countConn{srcA, &sc}
	tgt := countConn{tgtA, &tc}
	b := stunnel.NewBridge(ctx, &stunnel.BridgeConfig{
		TunnelID: "brg", MappingID: "m1", ClientID: 1, CloudControl: cc,
		SourceTunnelConn: &fakeTC{conn: src, closes: &stc},
	})
	b.SetTargetConnection(&fakeTC{conn: tgt, closes: &ttc})
	b.AddBytesSent(int64(bs))
	b.AddBytesReceived(int64(br))
	startDone := make(chan struct{})
	if start == 1 {
		go func() { defer close(startDone); b.Start() }()
		// wait until both copy goroutines run (Start is past its unlocked nil checks)
		deadline := time.Now().Add(patient())
		for time.Now().Before(deadline) {
			c := 0
			for _, g := range dumpGoroutines() {
				if strings.Contains(g.stack, "CopyWithControl") {
					c++
				}
			}
			if c >= 2 {
				break
			}
			time.Sleep(50 * time.Microsecond)
		}
	} else {
		close(startDone)
	}
	p := barrierRun(len(closers), func(i int) {
		switch closers[i] {
		case "c":
			b.Close()
		case "e":
			srcB.Close()
		case "f":
			tgtB.Close()
		}
	})
	if len(p) > 0 {
		return "panic " + p[0]
	}
	select {
	case <-startDone:
	case <-time.After(patient()):
		return "timeout start"
	}
	// own completion paths close the bridge asynchronously
	deadline := time.Now().Add(patient())
	for b.IsActive() && time.Now().Before(deadline) {
		time.Sleep(50 * time.Microsecond)
	}
	srcB.Close()
	tgtB.Close()
	late := withWatchdog(patient(), func() string { b.Close(); b.Close(); return "ok" })
	if late != "ok" {
		return late
	}
	cancel()
	g, _ := leaked(base, leakWait())
	m := cc.get()
	active := 0
	if b.IsActive() {
		active = 1
	}
	return fmt.Sprintf("sc %d tc %d stc %d ttc %d stats %d %d active %d leak %d",
		sc.Load(), tc.Load(), stc.Load(), ttc.Load(), m.TrafficStats.BytesSent, m.TrafficStats.BytesReceived, active, g)
}

// ============================================================================
// sp: StreamProcessor.Close against an in-flight ReadPacket / WritePacket
//   sp op <r|w|z> chunks <k> cut <j> n <N> rep <K> ms <seed>
//   obs: rclose <n> wclose <n> op <ok|fail|panic|none> after r <eof|…> w <closed|…> leak <g>
// The transport double parks inside the call that moves chunk <cut> (data already
// moved), the N closers run to completion, then the call returns.
// ============================================================================

type gatedRW struct {
	chunks  [][]byte
	idx     int
	cut     int
	atCut   chan struct{}
	resume  chan struct{}
	closed  atomic.Bool
	rcloses atomic.Int32
	wcloses atomic.Int32
}

type gatedReader struct{ *gatedRW }
type gatedWriter struct{ *gatedRW }

func (r gatedReader) Read(p []byte) (int, error) {
	if r.closed.Load() {
		return 0, io.ErrClosedPipe
	}
	if r.idx >= len(r.chunks) {
		return 0, io.EOF
	}
	c := r.chunks[r.idx]
	n := copy(p, c)
	if n < len(c) {
		r.chunks[r.idx] = c[n:]
	} else {
		if r.idx == r.cut {
			close(r.atCut)
			<-r.resume
		}
		r.idx++
	}
	return n, nil
}
func (r gatedReader) Close() error { r.rcloses.Add(1); r.closed.Store(true); return nil }

func (w gatedWriter) Write(p []byte) (int, error) {
	if w.closed.Load() {
		return 0, io.ErrClosedPipe
	}
	if w.idx == w.cut {
		close(w.atCut)
		<-w.resume
	}
	w.idx++
	return len(p), nil
}
func (w gatedWriter) Close() error { w.wcloses.Add(1); w.closed.Store(true); return nil }

func runSp(t []string) string {
	op, chunks, cut, n, rep := t[2], atoi(t[4]), atoi(t[6]), atoi(t[8]), atoi(t[10])
	var first string
	for it := 0; it < rep; it++ {
		obs := spOnce(op, chunks, cut, n)
		if it == 0 {
			first = obs
		}
		if obs != first {
			return obs
		}
	}
	return first
}

func spOnce(op string, chunks, cut, n int) string {
	base := baseline()
	// a TunnelData packet with a body of (chunks-2) bytes: type | 4-byte length | body bytes one per read
	body := chunks - 2
	if body < 0 {
		body = 0
	}
	rw := &gatedRW{cut: cut, atCut: make(chan struct{}), resume: make(chan struct{})}
	if op == "r" {
		rw.chunks = append(rw.chunks, []byte{byte(packet.TunnelData)}, []byte{0, 0, 0, byte(body)})
		for i := 0; i < body; i++ {
			rw.chunks = append(rw.chunks, []byte{byte(i)})
		}
	}
	if op != "r" && op != "w" {
		rw.cut = -1
	}
	sp := stream.NewStreamProcessor(gatedReader{rw}, gatedWriter{rw}, context.Background())
	opRes := make(chan string, 1)
	switch op {
	case "r":
		go func() {
			defer func() {
				if r := recover(); r != nil {
					opRes <- "panic"
				}
			}()
			_, _, err := sp.ReadPacket()
			opRes <- okFail(err)
		}()
	case "w":
		go func() {
			defer func() {
				if r := recover(); r != nil {
					opRes <- "panic"
				}
			}()
			_, err := sp.WritePacket(&packet.TransferPacket{PacketType: packet.TunnelData, Payload: []byte{1, 2, 3}}, false, 0)
			opRes <- okFail(err)
		}()
	default:
		opRes <- "none"
	}
	var res string
	if rw.cut >= 0 {
		select {
		case <-rw.atCut:
		case <-time.After(patient()):
			return "timeout cut"
		}
	} else {
		// no cut: the operation completes before the closers start
		select {
		case res = <-opRes:
		case <-time.After(patient()):
			return "timeout op"
		}
	}
	p := barrierRun(n, func(i int) {
		if i%2 == 1 {
			sp.CloseWithResult()
		} else {
			sp.Close()
		}
	})
	if len(p) > 0 {
		return "panic " + p[0]
	}
	close(rw.resume)
	if rw.cut >= 0 {
		select {
		case res = <-opRes:
		case <-time.After(patient()):
			return "timeout op"
		}
	}
	after := withWatchdog(patient(), func() string {
		_, _, e1 := sp.ReadPacket()
		_, e2 := sp.WritePacket(&packet.TransferPacket{PacketType: packet.Heartbeat}, false, 0)
		_, e3 := sp.ReadExact(1)
		e4 := sp.WriteExact([]byte{1})
		sp.Close()
		return "after r " + errName(e1) + "/" + errName(e3) + " w " + errName(e2) + "/" + errName(e4)
	})
	g, _ := leaked(base, leakWait())
	return fmt.Sprintf("rclose %d wclose %d op %s %s leak %d", rw.rcloses.Load(), rw.wcloses.Load(), res, after, g)
}

func okFail(err error) string {
	if err == nil {
		return "ok"
	}
	return "fail"
}

func errName(err error) string {
	switch {
	case err == nil:
		return "ok"
	case err == io.EOF:
		return "eof"
	case strings.Contains(err.Error(), "closed"):
		return "closed"
	}
	return "err"
}

// ============================================================================
// flow: a started Bridge with data in flight; the bridge's own completion paths
//   flow mode <eof|err|werr|close|ctx> chunk <c> at <k> rep <K> ms <seed>
//     the source endpoint hands out <c> bytes per Read; at Read number <k> (1-based):
//       eof   it returns io.EOF              err   it returns an error
//       werr  (k-th Write of the target endpoint fails instead)
//       close Bridge.Close() is called from another goroutine, the Read waits for it
//       ctx   the PARENT context is cancelled and data keeps flowing: the copy loop leaves
//             through its periodic context check (every ContextCheckInterval iterations)
//   obs: del <bytes the target endpoint accepted> cnt <bridge bytesSent> stats|cstats <s> <r> upd <n> leak <g>
// ============================================================================

type flowConn struct {
	chunk    int
	at       int
	mode     string
	isSource bool
	reads    int
	writes   int
	accepted atomic.Int64
	closed   atomic.Bool
	closedCh chan struct{}
	once     sync.Once
	onAt     func()
}

type flowAddr struct{}

func (flowAddr) Network() string { return "flow" }
func (flowAddr) String() string  { return "flow" }

func (c *flowConn) Read(p []byte) (int, error) {
	if !c.isSource {
		<-c.closedCh // the reverse direction is idle until the bridge closes it
		return 0, io.ErrClosedPipe
	}
	if c.closed.Load() {
		return 0, io.ErrClosedPipe
	}
	c.reads++
	if c.reads == c.at {
		switch c.mode {
		case "eof":
			return 0, io.EOF
		case "err":
			return 0, fmt.Errorf("endpoint reset")
		case "close", "ctx":
			c.onAt()
			if c.mode == "close" {
				return 0, io.ErrClosedPipe
			}
		}
	}
	if c.reads > 60000 {
		return 0, io.EOF // safety net
	}
	n := c.chunk
	if n > len(p) {
		n = len(p)
	}
	return n, nil
}

func (c *flowConn) Write(p []byte) (int, error) {
	if c.closed.Load() {
		return 0, io.ErrClosedPipe
	}
	c.writes++
	if c.mode == "werr" && !c.isSource && c.writes == c.at {
		return 0, fmt.Errorf("endpoint reset")
	}
	c.accepted.Add(int64(len(p)))
	return len(p), nil
}

func (c *flowConn) Close() error {
	c.closed.Store(true)
	c.once.Do(func() { close(c.closedCh) })
	return nil
}
func (c *flowConn) LocalAddr() net.Addr                { return flowAddr{} }
func (c *flowConn) RemoteAddr() net.Addr               { return flowAddr{} }
func (c *flowConn) SetDeadline(t time.Time) error      { return nil }
func (c *flowConn) SetReadDeadline(t time.Time) error  { return nil }
func (c *flowConn) SetWriteDeadline(t time.Time) error { return nil }

func runFlow(t []string) string {
	mode, chunk, at, rep := t[2], atoi(t[4]), atoi(t[6]), atoi(t[8])
	var first string
	for it := 0; it < rep; it++ {
		obs := flowOnce(mode, chunk, at)
		if it == 0 {
			first = obs
		}
		if obs != first {
			return obs
		}
	}
	return first
}

func flowOnce(mode string, chunk, at int) string {
	base := baseline()
	parent, cancel := context.WithCancel(context.Background())
	defer cancel()
	cc := &windowCC{sem: make(chan struct{}, 1), window: 2 * time.Millisecond}
	cc.m.ID = "m1"
	src := &flowConn{chunk: chunk, at: at, mode: mode, isSource: true, closedCh: make(chan struct{})}
	tgt := &flowConn{chunk: chunk, at: at, mode: mode, closedCh: make(chan struct{})}
	var stc, ttc atomic.Int32
	b := stunnel.NewBridge(parent, &stunnel.BridgeConfig{
		TunnelID: "flow", MappingID: "m1", ClientID: 1, CloudControl: cc,
		SourceTunnelConn: &fakeTC{conn: src, closes: &stc},
	})
	closeDone := make(chan struct{})
	src.onAt = func() {
		if mode == "ctx" {
			cancel() // node / session-manager shutdown while data is flowing
			return
		}
		go func() { b.Close(); close(closeDone) }()
		<-closeDone
	}
	b.SetTargetConnection(&fakeTC{conn: tgt, closes: &ttc})
	startDone := make(chan struct{})
	go func() { defer close(startDone); b.Start() }()
	select {
	case <-startDone:
	case <-time.After(patient()):
		return "timeout start"
	}
	deadline := time.Now().Add(patient())
	for b.IsActive() && time.Now().Before(deadline) {
		time.Sleep(50 * time.Microsecond)
	}
	late := withWatchdog(patient(), func() string { b.Close(); return "ok" })
	if late != "ok" {
		return late
	}
	cancel()
	g, _ := leaked(base, leakWait())
	m := cc.get()
	label := "stats"
	if mode == "close" {
		label = "cstats" // see Spec.holdsF lateFlush: not compared with the model, only bounded
	}
	return fmt.Sprintf("del %d cnt %d "+label+" %d %d upd %d leak %d", tgt.accepted.Load(), b.GetBytesSent(),
		m.TrafficStats.BytesSent, m.TrafficStats.BytesReceived, cc.updates, g)
}
