//go:build verif

package main

import (
	"context"
	"fmt"
	"net"
	"os"
	"reflect"
	"sort"
	"strings"
	"time"

	ctunnel "tunnox-core/internal/client/tunnel"
	"tunnox-core/internal/core/idgen"
	"tunnox-core/internal/core/storage/memory"
	"tunnox-core/internal/protocol/session"
	stunnel "tunnox-core/internal/protocol/session/tunnel"
	"tunnox-core/internal/stream"
)

// ============================================================================
// api: "later operations fail cleanly instead of panicking" — after (or while) a managed component
// is closed, EVERY exported method whose parameters are plain values (strings, integers, booleans,
// byte slices) is called with harmless arguments under recover; none may panic.
//   api kind <sm|st|sp|br|tn|tm> when <after|during> rep <K> ms <seed>
//     sm SessionManager   st memory storage   sp StreamProcessor   br server Bridge
//     tn client Tunnel    tm client TunnelManager
//     during: the sweep runs while N closers close the component
//   obs: panics <n> first <Method|-> called <number of methods called>
// ============================================================================

var sweepDebug = os.Getenv("VERIF_SWEEP_DEBUG") != ""

var sweepSkipPrefix = []string{"Start", "Run", "Serve", "Listen", "Accept", "Wait", "Subscribe"}

func plainArg(t reflect.Type) (reflect.Value, bool) {
	switch t.Kind() {
	case reflect.String:
		return reflect.ValueOf("verif-x").Convert(t), true
	case reflect.Int, reflect.Int8, reflect.Int16, reflect.Int32, reflect.Int64:
		return reflect.ValueOf(int64(1)).Convert(t), true
	case reflect.Uint, reflect.Uint8, reflect.Uint16, reflect.Uint32, reflect.Uint64:
		return reflect.ValueOf(uint64(1)).Convert(t), true
	case reflect.Bool:
		return reflect.ValueOf(false).Convert(t), true
	case reflect.Float32, reflect.Float64:
		return reflect.ValueOf(float64(1)).Convert(t), true
	case reflect.Interface:
		if t.NumMethod() == 0 { // `any`: a stored value
			return reflect.ValueOf("verif-v").Convert(t), true
		}
	case reflect.Slice:
		if t.Elem().Kind() == reflect.Uint8 {
			return reflect.ValueOf([]byte{1}).Convert(t), true
		}
	}
	return reflect.Value{}, false
}

// callable lists the exported methods of obj that take only plain arguments, sorted.
func callable(obj any) []string {
	v := reflect.ValueOf(obj)
	t := v.Type()
	var names []string
methods:
	for i := 0; i < t.NumMethod(); i++ {
		name := t.Method(i).Name
		for _, p := range sweepSkipPrefix {
			if strings.HasPrefix(name, p) {
				continue methods
			}
		}
		mt := v.Method(i).Type()
		if mt.IsVariadic() {
			continue
		}
		for j := 0; j < mt.NumIn(); j++ {
			if _, ok := plainArg(mt.In(j)); !ok {
				continue methods
			}
		}
		names = append(names, name)
	}
	sort.Strings(names)
	return names
}

// callOne calls one method with harmless arguments; reports whether it panicked.
func callOne(obj any, name string) (panicked bool) {
	m := reflect.ValueOf(obj).MethodByName(name)
	mt := m.Type()
	args := make([]reflect.Value, mt.NumIn())
	for i := range args {
		args[i], _ = plainArg(mt.In(i))
	}
	done := make(chan bool, 1)
	go func() {
		defer func() {
			r := recover()
			if r != nil && sweepDebug {
				fmt.Fprintf(os.Stderr, "sweep: panic in %T.%s: %v\n", obj, name, r)
			}
			done <- r != nil
		}()
		m.Call(args)
	}()
	select {
	case p := <-done:
		return p
	case <-time.After(300 * time.Millisecond * time.Duration(patience.Load()+0)):
		return false // a call that blocks on a closed component is not a panic; it is left behind
	}
}

type component struct {
	obj     any
	closeFn func()
	cleanup func()
}

func buildComponent(kind string) *component {
	ctx, cancel := context.WithCancel(context.Background())
	c := &component{cleanup: cancel}
	switch kind {
	case "sm":
		st := memory.New(ctx)
		sm := session.NewSessionManager(idgen.NewIDManager(st, ctx), ctx)
		a, b := net.Pipe()
		sm.CreateConnection(a, a)
		sm.MarkTunnelClosed("t-before")
		c.obj, c.closeFn = sm, func() { sm.Close() }
		c.cleanup = func() { b.Close(); sm.Close(); st.Close(); cancel() }
	case "st":
		st := memory.New(ctx)
		st.Set("k", "v", time.Minute)
		c.obj, c.closeFn = st, func() { st.Close() }
		c.cleanup = func() { st.Close(); cancel() }
	case "sp":
		a, b := net.Pipe()
		sp := stream.NewStreamProcessor(a, a, ctx)
		c.obj, c.closeFn = sp, func() { sp.Close() }
		c.cleanup = func() { b.Close(); sp.Close(); cancel() }
	case "br":
		s0, p0 := newAttConn()
		br := stunnel.NewBridge(ctx, &stunnel.BridgeConfig{TunnelID: "api", ClientID: 1, SourceTunnelConn: s0.tc})
		c.obj, c.closeFn = br, func() { br.Close() }
		c.cleanup = func() { p0.Close(); br.Close(); cancel() }
	case "tn", "tm":
		mgr := ctunnel.NewTunnelManager(ctx, ctunnel.TunnelRoleListen)
		la, lb := net.Pipe()
		ta, tb := net.Pipe()
		tn := ctunnel.NewTunnel(&ctunnel.TunnelConfig{ID: "verif-x", MappingID: "m", Protocol: "tcp", LocalConn: la, TunnelRWC: ta, Manager: mgr})
		mgr.RegisterTunnel(tn)
		tn.Start()
		if kind == "tn" {
			c.obj, c.closeFn = tn, func() { tn.Close(ctunnel.CloseReasonNormal, nil) }
		} else {
			c.obj, c.closeFn = mgr, func() { mgr.Close() }
		}
		c.cleanup = func() { lb.Close(); tb.Close(); tn.Close(ctunnel.CloseReasonNormal, nil); mgr.Close(); cancel() }
	default:
		cancel()
		return nil
	}
	return c
}

func runApi(t []string) string {
	kind, when, rep := t[2], t[4], atoi(t[6])
	var firstObs string
	for it := 0; it < rep; it++ {
		obs := apiOnce(kind, when)
		if it == 0 {
			firstObs = obs
		}
		if obs != firstObs {
			return obs
		}
	}
	return firstObs
}

// apiOnce: for every callable method, on a FRESH instance each: does it panic on the open
// component (then it is not a shutdown matter: unconfigured dependency, nil argument) and does it
// panic on the closed one (`after`) / while three closers close it (`during`)?  Only panics that
// the open component does not show are counted.
func apiOnce(kind, when string) string {
	probe := buildComponent(kind)
	if probe == nil {
		return "bad case"
	}
	names := callable(probe.obj)
	probe.cleanup()
	panics, first := 0, "-"
	for _, name := range names {
		open := buildComponent(kind)
		onOpen := callOne(open.obj, name)
		open.cleanup()
		if onOpen {
			continue
		}
		c := buildComponent(kind)
		var bad bool
		if when == "during" {
			res := make(chan bool, 1)
			go func() { res <- callOne(c.obj, name) }()
			if p := barrierRun(3, func(int) { c.closeFn() }); len(p) > 0 {
				c.cleanup()
				return "panic " + p[0]
			}
			bad = <-res
		} else {
			c.closeFn()
			bad = callOne(c.obj, name)
		}
		c.cleanup()
		if bad {
			panics++
			if first == "-" {
				first = name
			}
		}
	}
	return fmt.Sprintf("panics %d first %s called %d", panics, first, len(names))
}
