//go:build verif

package main

import (
	"context"
	"fmt"
	"net"
	"time"

	"tunnox-core/internal/core/idgen"
	"tunnox-core/internal/core/storage/memory"
	"tunnox-core/internal/protocol/session"
)

// ============================================================================
// mgr: components whose shutdown is the dispose latch plus background goroutines
//   mgr kind <st|sm|mh> n <N> rep <K> ms <seed>
//     st = in-memory storage with its cleanup goroutine running
//     sm = SessionManager (connection-cleanup goroutine, stream manager, registries)
//   obs: closed <0|1> after <ok|panic…> leak <g>
// ============================================================================

func runMgr(t []string) string {
	kind, n, rep := t[2], atoi(t[4]), atoi(t[6])
	var first string
	for it := 0; it < rep; it++ {
		obs := mgrOnce(kind, n)
		if it == 0 {
			first = obs
		}
		if obs != first {
			return obs
		}
	}
	return first
}

func mgrOnce(kind string, n int) string {
	base := baseline()
	ctx, cancel := context.WithCancel(context.Background())
	defer cancel()
	var closeFn func()
	var isClosed func() bool
	var after func()
	switch kind {
	case "st":
		st := memory.New(ctx)
		st.StartCleanup(time.Hour)
		st.Set("k", "v", time.Minute)
		closeFn = func() { st.Close() }
		isClosed = st.IsClosed
		after = func() {
			st.Get("k")
			st.Exists("k")
			st.Delete("k")
			st.Close()
		}
	case "sm":
		st := memory.New(ctx)
		sm := session.NewSessionManager(idgen.NewIDManager(st, ctx), ctx)
		// live connections: onClose has streams to close
		for i := 0; i < 3; i++ {
			a, b := net.Pipe()
			defer b.Close()
			if _, err := sm.CreateConnection(a, a); err != nil {
				return "bad create"
			}
		}
		closeFn = func() { sm.Close() }
		isClosed = sm.IsClosed
		after = func() {
			sm.CloseConnection("nope")
			sm.Close()
			st.Close()
		}
	case "mh":
		// client mapping handler with its accept loop and stats loop running
		cl, p := mappingHandlerOnce(n)
		if len(p) > 0 {
			return "panic " + p[0]
		}
		cancel()
		g, _ := leaked(base, leakWait())
		c := 0
		if cl {
			c = 1
		}
		return fmt.Sprintf("closed %d after ok leak %d", c, g)
	default:
		return "bad case"
	}
	p := barrierRun(n, func(i int) { closeFn() })
	if len(p) > 0 {
		return "panic " + p[0]
	}
	late := withWatchdog(patient(), func() string { after(); return "ok" })
	cancel()
	g, _ := leaked(base, leakWait())
	c := 0
	if isClosed() {
		c = 1
	}
	return fmt.Sprintf("closed %d after %s leak %d", c, late, g)
}
