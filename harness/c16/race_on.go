//go:build verif && race

package main

// raceEnabled: the harness was built with the Go race detector (goroutine dumps are slow there).
const raceEnabled = true
