//go:build verif

package main

import (
	"context"
	"fmt"
	"net"
	"strings"
	"sync"
	"sync/atomic"
	"time"

	ctunnel "tunnox-core/internal/client/tunnel"
	corelog "tunnox-core/internal/core/log"
)

// ============================================================================
// tst: Tunnel.Start interleaved with Close at every injectable point of Start
//   tst cl <k> <closer@gate…> rep <K> ms <seed>
//     closer as in `tun` (c0…c5, p, a, x); gate = where Start is parked while the closer
//     group runs to completion:
//       0 before Start is called        1 inside manager.Ctx() (interface call of Start)
//       2 inside the "starting" log call (interface call between the state CAS and the spawns)
//       3 after Start returned
//   obs: state <s> closes <n> start <ok|err> live <goroutines of Start still alive> ctx <done 0|1> isclosed <0|1>
// ============================================================================

// gatedManager parks the first Ctx() call of the starter goroutine.
type gatedManager struct {
	*ctunnel.DefaultTunnelManager
	hook func()
	once sync.Once
}

func (m *gatedManager) Ctx() context.Context {
	if m.hook != nil {
		m.once.Do(m.hook)
	}
	return m.DefaultTunnelManager.Ctx()
}

// gatedLogger parks the "starting" log line of Tunnel.Start.
type gatedLogger struct {
	corelog.NopLogger
	hook atomic.Pointer[func()]
}

func (l *gatedLogger) Infof(format string, args ...interface{}) {
	if strings.Contains(format, "starting, role=") {
		if h := l.hook.Swap(nil); h != nil {
			(*h)()
		}
	}
}

var theLogger = &gatedLogger{}

func startGoroutines() int {
	n := 0
	for _, g := range dumpGoroutines() {
		if strings.Contains(g.stack, "created by tunnox-core/internal/client/tunnel.(*Tunnel).Start") {
			n++
		}
	}
	return n
}

func runTst(t []string) string {
	k := atoi(t[2])
	closers := t[3 : 3+k]
	rep := atoi(t[3+k+1])
	var first string
	for it := 0; it < rep; it++ {
		obs := tstOnce(closers, it)
		if it == 0 {
			first = obs
		}
		if obs != first {
			return obs
		}
	}
	return first
}

func tstOnce(closers []string, it int) string {
	ctx, cancel := context.WithCancel(context.Background())
	defer cancel()
	mgr := &gatedManager{DefaultTunnelManager: ctunnel.NewTunnelManager(ctx, ctunnel.TunnelRoleListen)}
	var closes atomic.Int32
	localA, localB := net.Pipe()
	tunnelA, tunnelB := net.Pipe()
	id := fmt.Sprintf("s-%d", it)
	tn := ctunnel.NewTunnel(&ctunnel.TunnelConfig{
		ID: id, MappingID: "m1", Role: ctunnel.TunnelRoleListen, Protocol: "tcp",
		LocalConn: localA, TunnelRWC: tunnelA, Manager: mgr,
		OnClosed: func(ctunnel.CloseReason, error) { closes.Add(1) },
	})
	if err := mgr.RegisterTunnel(tn); err != nil {
		return "bad register"
	}
	go drain(tunnelB)
	go drain(localB)
	groups := map[int][]string{}
	for _, c := range closers {
		i := strings.IndexByte(c, '@')
		if i < 0 {
			return "bad case"
		}
		g := atoi(c[i+1:])
		groups[g] = append(groups[g], c[:i])
	}
	var panics []string
	runGroup := func(g int) {
		cl := groups[g]
		if len(cl) == 0 {
			return
		}
		done := make(chan []string, 1)
		go func() {
			done <- barrierRun(len(cl), func(i int) {
				c := cl[i]
				switch {
				case c[0] == 'c':
					tn.Close(ctunnel.CloseReason(atoi(c[1:])), nil)
				case c[0] == 't':
					mgr.CloseTunnel(id, ctunnel.CloseReason(atoi(c[1:])))
				case c == "p":
					mgr.OnTunnelClosed(id, "m1", "peer", 1, 2, 3)
				case c == "a":
					mgr.CloseAll()
				case c == "x":
					mgr.OnTunnelError(id, "m1", "E", "fatal", false)
				}
			})
		}()
		select {
		case p := <-done:
			panics = append(panics, p...)
		case <-time.After(patient()):
			panics = append(panics, "timeout closers")
		}
	}
	runGroup(0)
	mgr.hook = func() { runGroup(1) }
	h2 := func() { runGroup(2) }
	theLogger.hook.Store(&h2)
	startErr := make(chan error, 1)
	go func() {
		defer func() {
			if r := recover(); r != nil {
				startErr <- fmt.Errorf("panic %v", r)
			}
		}()
		startErr <- tn.Start()
	}()
	var serr error
	select {
	case serr = <-startErr:
	case <-time.After(2 * patient()):
		return "timeout start"
	}
	theLogger.hook.Store(nil)
	runGroup(3)
	if len(panics) > 0 {
		if strings.HasPrefix(panics[0], "timeout") {
			return panics[0]
		}
		return "panic " + panics[0]
	}
	if serr != nil && strings.HasPrefix(serr.Error(), "panic") {
		return sanitize(serr.Error())
	}
	// unblock pending I/O, then nothing the tunnel started may remain
	localB.Close()
	tunnelB.Close()
	live := 0
	if tn.GetState() == ctunnel.TunnelStateClosed {
		deadline := time.Now().Add(leakWait())
		pause := 100 * time.Microsecond
		for {
			live = startGoroutines()
			if live == 0 || time.Now().After(deadline) {
				break
			}
			time.Sleep(pause)
			if pause < 20*time.Millisecond {
				pause *= 2
			}
		}
	}
	ctxDone, isClosed := 0, 0
	if c := tn.Ctx(); c != nil && c.Err() != nil {
		ctxDone = 1
	}
	if tn.IsClosed() {
		isClosed = 1
	}
	start := "ok"
	if serr != nil {
		start = "err"
	}
	obs := fmt.Sprintf("state %d closes %d start %s live %d ctx %d isclosed %d",
		int(tn.GetState()), closes.Load(), start, live, ctxDone, isClosed)
	// clean up whatever is left (a still connected tunnel, leaked monitors)
	tn.Close(ctunnel.CloseReasonNormal, nil)
	mgr.DefaultTunnelManager.Close()
	cancel()
	deadline := time.Now().Add(leakWait())
	for startGoroutines() > 0 && time.Now().Before(deadline) {
		time.Sleep(time.Millisecond)
	}
	return obs
}
