//go:build verif

package main

import (
	"context"
	"errors"
	"fmt"
	"io"
	"net"
	"strings"
	"sync"
	"sync/atomic"
	"time"

	"tunnox-core/internal/client/mapping"
	"tunnox-core/internal/cloud/models"
	"tunnox-core/internal/config"
	"tunnox-core/internal/stream"
)

// ============================================================================
// cst: client mapping handler — periodic traffic reports racing the final report on Close
//   cst a <S> <R> th <k> <kind…> s <m> <tid…> rep <K> ms <seed>
//     totals S/R accumulated by finished tunnels; thread kinds:
//       P  a real tick of reportStatsLoop (the ticker is reset to fire now)
//       r  a reportStats call        rf  a reportStats call whose TrackTraffic fails
//       c  BaseMappingHandler.Close() (its cleanup does the final report)
//     TrackTraffic is a gate: one schedule entry lets the named thread run up to the gate
//     (it has claimed the totals) or, when parked there, through the call and what follows it.
//   obs: rep <S> <R> pend <s> <r> calls <n> leak <g>
// ============================================================================

type cstClient struct {
	mu      sync.Mutex
	sumS    int64
	sumR    int64
	calls   int
	g       *gate
	tids    sync.Map // goroutine id -> thread id
	fails   map[int]bool
	tickTid atomic.Int64 // thread id of the periodic loop (-1: none)
	free    atomic.Bool
	arrived chan int
}

func (c *cstClient) tid() int {
	if v, ok := c.tids.Load(curGID()); ok {
		return v.(int)
	}
	if t := c.tickTid.Load(); t >= 0 {
		for _, g := range dumpGoroutines() {
			if g.id == curGID() && strings.Contains(g.stack, "reportStatsLoop") {
				return int(t)
			}
		}
	}
	return -1
}

func (c *cstClient) TrackTraffic(mappingID string, s, r int64) error {
	t := c.tid()
	if t >= 0 && !c.free.Load() {
		c.g.park(t)
	}
	c.mu.Lock()
	defer c.mu.Unlock()
	c.calls++
	if t >= 0 && c.fails[t] {
		return errors.New("statistics backend unavailable")
	}
	c.sumS += s
	c.sumR += r
	return nil
}
func (c *cstClient) DialTunnel(string, string, string) (net.Conn, stream.PackageStreamer, error) {
	return nil, nil, errors.New("not used")
}
func (c *cstClient) DialTunnelPooled(string, string) (mapping.PooledTunnelConnInterface, error) {
	return nil, nil
}
func (c *cstClient) ReturnTunnelToPool(mapping.PooledTunnelConnInterface)  {}
func (c *cstClient) CloseTunnelFromPool(mapping.PooledTunnelConnInterface) {}
func (c *cstClient) IsTunnelPoolEnabled() bool                             { return false }
func (c *cstClient) GetContext() context.Context                           { return context.Background() }
func (c *cstClient) CheckMappingQuota(string) error                        { return nil }
func (c *cstClient) GetUserQuota() (*models.UserQuota, error)              { return &models.UserQuota{}, nil }
func (c *cstClient) GetServerProtocol() string                             { return "tcp" }
func (c *cstClient) SendTunnelCloseNotify(int64, string, string, string) error {
	return nil
}

type cstAdapter struct {
	once   sync.Once
	closed chan struct{}
}

func (a *cstAdapter) StartListener(config.MappingConfig) error { return nil }
func (a *cstAdapter) Accept() (io.ReadWriteCloser, error)      { <-a.closed; return nil, net.ErrClosed }
func (a *cstAdapter) PrepareConnection(io.ReadWriteCloser) error { return nil }
func (a *cstAdapter) GetProtocol() string                      { return "tcp" }
func (a *cstAdapter) Close() error                             { a.once.Do(func() { close(a.closed) }); return nil }

func runCst(t []string) string {
	a, b, k := atoi(t[2]), atoi(t[3]), atoi(t[5])
	kinds := t[6 : 6+k]
	m := atoi(t[6+k+1])
	ids := make([]int, m)
	for i := range ids {
		ids[i] = atoi(t[6+k+2+i])
	}
	return cstOnce(int64(a), int64(b), kinds, ids)
}

func cstOnce(a, b int64, kinds []string, sched []int) string {
	base := baseline()
	cl := &cstClient{g: newGate(), fails: map[int]bool{}}
	cl.tickTid.Store(-1)
	ad := &cstAdapter{closed: make(chan struct{})}
	h := mapping.NewBaseMappingHandler(cl, config.MappingConfig{MappingID: "cst", LocalPort: 1}, ad)
	h.VerifAddTraffic(a, b)
	n := len(kinds)
	status := make([]int, n) // stNew, stParked, stDone
	done := make([]atomic.Bool, n)
	for i, kd := range kinds {
		if kd == "rf" {
			cl.fails[i] = true
		}
	}
	settle := func(i int, mayNeverArrive bool) bool {
		deadline := time.Now().Add(patient())
		pause := 5 * time.Microsecond
		for time.Now().Before(deadline) {
			if done[i].Load() {
				status[i] = stDone
				return true
			}
			if cl.g.isParked(i) {
				status[i] = stParked
				return true
			}
			time.Sleep(pause)
			if pause < 2*time.Millisecond {
				pause *= 2
			}
		}
		return false
	}
	pendingNow := func() bool { s, r := h.VerifPending(); return s > 0 || r > 0 }
	step := func(i int) bool {
		if i < 0 || i >= n {
			return true
		}
		switch status[i] {
		case stNew:
			if kinds[i] == "P" {
				if !pendingNow() {
					// a tick with nothing pending reports nothing and is not observable
					done[i].Store(true)
					status[i] = stDone
					return true
				}
				cl.tickTid.Store(int64(i))
				h.VerifResetStatsTicker(time.Millisecond)
				ok := settle(i, false)
				h.VerifResetStatsTicker(time.Hour)
				return ok
			}
			go func() {
				gid := curGID()
				cl.tids.Store(gid, i)
				defer func() {
					recover()
					cl.tids.Delete(gid)
					done[i].Store(true)
				}()
				if kinds[i] == "c" {
					h.Close()
				} else {
					h.VerifReportStats()
				}
			}()
			return settle(i, false)
		case stParked:
			cl.g.release(i)
			for cl.g.isParked(i) {
			}
			if kinds[i] == "P" {
				// the loop goroutine goes back to its select: give the call time to return
				cl.tickTid.Store(-1)
				waitFor(func() bool {
					for _, g := range dumpGoroutines() {
						if strings.Contains(g.stack, "reportStatsLoop") && strings.Contains(g.stack, "TrackTraffic") {
							return false
						}
					}
					return true
				}, patient())
				done[i].Store(true)
			}
			return settle(i, false)
		}
		return true
	}
	for _, i := range sched {
		if !step(i) {
			cl.free.Store(true)
			cl.g.releaseAll()
			return "timeout"
		}
	}
	for pass := 0; pass < 3; pass++ {
		for i := 0; i < n; i++ {
			if !step(i) {
				cl.free.Store(true)
				cl.g.releaseAll()
				return "timeout"
			}
		}
	}
	for i := 0; i < n; i++ {
		if status[i] != stDone {
			cl.free.Store(true)
			cl.g.releaseAll()
			return "stuck"
		}
	}
	ps, pr := h.VerifPending()
	cl.mu.Lock()
	obs := fmt.Sprintf("rep %d %d pend %d %d calls %d", cl.sumS, cl.sumR, ps, pr, cl.calls)
	cl.mu.Unlock()
	// tear down (ungated) and look for what is left
	cl.free.Store(true)
	h.VerifAddTraffic(-ps, -pr)
	h.Close()
	g, _ := leaked(base, leakWait())
	return obs + fmt.Sprintf(" leak %d", g)
}
