//go:build verif

package main

import (
	"context"
	"fmt"
	"sync/atomic"
	"time"

	"tunnox-core/internal/client/mapping"
	"tunnox-core/internal/config"
	"tunnox-core/internal/core/dispose"
	stunnel "tunnox-core/internal/protocol/session/tunnel"
)

// ============================================================================
// rep2: two (or more) bridges of ONE mapping report to the same record (known finding
// crossbridge-lost-update: the Get → Update read-modify-write is not atomic across bridges)
//   rep2 b <n> <delta…> s <k> <tid…> rep 1 ms <seed>
//     every bridge has one reporter parked at GetPortMapping when the schedule starts;
//     one entry = that reporter's next storage call (Get, then Update)
//   obs: stats <bytesSent total in the mapping record>
// ============================================================================

func runRep2(t []string) string {
	nb := atoi(t[2])
	ds := make([]int, nb)
	for i := range ds {
		ds[i] = atoi(t[3+i])
	}
	k := atoi(t[3+nb+1])
	sched := make([]int, k)
	for i := range sched {
		sched[i] = atoi(t[3+nb+2+i])
	}
	cc := &gatedCC{g: newGate()}
	cc.m.ID = "m1"
	ctx, cancel := context.WithCancel(context.Background())
	defer cancel()
	bridges := make([]*stunnel.Bridge, nb)
	done := make([]atomic.Bool, nb)
	defer func() {
		cc.free.Store(true)
		cc.g.releaseAll()
		for _, b := range bridges {
			b.Close()
		}
	}()
	for i := range bridges {
		bridges[i] = stunnel.NewBridge(ctx, &stunnel.BridgeConfig{TunnelID: fmt.Sprintf("x%d", i), MappingID: "m1", CloudControl: cc})
		bridges[i].AddBytesSent(int64(ds[i]))
	}
	for i := range bridges {
		i := i
		go func() {
			gid := curGID()
			cc.tids.Store(gid, i)
			defer func() { recover(); cc.tids.Delete(gid); done[i].Store(true) }()
			bridges[i].VerifReportTrafficStats()
		}()
	}
	settle := func(i int) bool {
		return waitFor(func() bool { return done[i].Load() || cc.g.isParked(i) }, patient())
	}
	for i := range bridges {
		if ds[i] > 0 && !settle(i) {
			return "timeout"
		}
	}
	step := func(i int) bool {
		if i < 0 || i >= nb || done[i].Load() || !cc.g.isParked(i) {
			return true
		}
		cc.g.release(i)
		for cc.g.isParked(i) {
		}
		return settle(i)
	}
	for _, i := range sched {
		if !step(i) {
			return "timeout"
		}
	}
	for pass := 0; pass < 2; pass++ {
		for i := 0; i < nb; i++ {
			if !step(i) {
				return "timeout"
			}
		}
	}
	return fmt.Sprintf("stats %d", cc.get().TrafficStats.BytesSent)
}

// ============================================================================
// rm: dispose.ResourceManager — Register and DisposeAll from many goroutines
//   rm pre <p> ops <k> <r|d…> s <m> <tid…> rep <K> ms <seed>
//     p resources registered beforehand; thread i does Register (r) or DisposeAll (d); the
//     threads run behind a spin barrier (the schedule is the model's), then the last DisposeAll
//   obs: registered <n> disposed <total Dispose calls> pending <left in the manager> twice <resources disposed ≠ once>
// ============================================================================

type countRes struct{ n atomic.Int32 }

func (c *countRes) Dispose() error { c.n.Add(1); return nil }

func runRm(t []string) string {
	pre, k := atoi(t[2]), atoi(t[4])
	ops := t[5 : 5+k]
	m := atoi(t[5+k+1])
	rep := atoi(t[5+k+2+m+1])
	var first string
	for it := 0; it < rep; it++ {
		obs := rmOnce(pre, ops)
		if it == 0 {
			first = obs
		}
		if obs != first {
			return obs
		}
	}
	return first
}

func rmOnce(pre int, ops []string) string {
	rm := dispose.NewResourceManager()
	var all []*countRes
	for i := 0; i < pre; i++ {
		r := &countRes{}
		all = append(all, r)
		rm.Register(fmt.Sprintf("pre-%d", i), r)
	}
	news := make([]*countRes, len(ops))
	for i, o := range ops {
		if o == "r" {
			news[i] = &countRes{}
			all = append(all, news[i])
		}
	}
	p := barrierRun(len(ops), func(i int) {
		if ops[i] == "r" {
			rm.Register(fmt.Sprintf("new-%d", i), news[i])
		} else {
			rm.DisposeAll()
		}
	})
	if len(p) > 0 {
		return "panic " + p[0]
	}
	res := withWatchdog(patient(), func() string {
		if len(ops)%2 == 0 {
			rm.DisposeWithTimeout(patient())
		} else {
			rm.DisposeAll()
		}
		return "ok"
	})
	if res != "ok" {
		return res
	}
	disposed, twice := 0, 0
	for _, r := range all {
		disposed += int(r.n.Load())
		if r.n.Load() != 1 {
			twice++
		}
	}
	return fmt.Sprintf("registered %d disposed %d pending %d twice %d", len(all), disposed, rm.GetResourceCount(), twice)
}

// mappingHandlerOnce: a started BaseMappingHandler (accept loop + stats loop) stopped by n callers.
func mappingHandlerOnce(n int) (closed bool, panics []string) {
	cl := &cstClient{g: newGate(), fails: map[int]bool{}}
	cl.tickTid.Store(-1)
	cl.free.Store(true)
	ad := &cstAdapter{closed: make(chan struct{})}
	h := mapping.NewBaseMappingHandler(cl, config.MappingConfig{MappingID: "mh", LocalPort: 1}, ad)
	if err := h.Start(); err != nil {
		return false, []string{"start " + sanitize(err.Error())}
	}
	time.Sleep(time.Millisecond)
	panics = barrierRun(n, func(i int) {
		if i%2 == 0 {
			h.Stop()
		} else {
			h.Close()
		}
	})
	_ = h.GetMappingID() + h.GetProtocol()
	return h.IsClosed(), panics
}

// ============================================================================
// rmt: ResourceManager.DisposeWithTimeout (graceful shutdown with a deadline)
//   rmt slow <0|1> rep <K> ms <seed>
//     slow 1: the only resource's Dispose is parked until DisposeWithTimeout has returned its
//             timeout result, then it is unblocked;  slow 0: Dispose returns at once
//   obs: timedout <0|1> disposed <Dispose calls> live <goroutines of DisposeWithTimeout still alive>
// ============================================================================

type gatedRes struct {
	n       atomic.Int32
	entered chan struct{}
	release chan struct{}
}

func (g *gatedRes) Dispose() error {
	g.n.Add(1)
	select {
	case <-g.entered:
	default:
		close(g.entered)
	}
	<-g.release
	return nil
}

func runRmt(t []string) string {
	slow, rep := atoi(t[2]), atoi(t[4])
	var first string
	for it := 0; it < rep; it++ {
		obs := rmtOnce(slow)
		if it == 0 {
			first = obs
		}
		if obs != first {
			return obs
		}
	}
	return first
}

func rmtOnce(slow int) string {
	const helper = "(*ResourceManager).DisposeWithTimeout"
	before := countStacks(helper)
	rm := dispose.NewResourceManager()
	r := &gatedRes{entered: make(chan struct{}), release: make(chan struct{})}
	rm.Register("slow", r)
	timeout := patient() // the disposal wins
	if slow == 1 {
		timeout = 20 * time.Millisecond
	} else {
		close(r.release)
	}
	var res *dispose.DisposeResult
	out := withWatchdog(2*patient(), func() string { res = rm.DisposeWithTimeout(timeout); return "ok" })
	if out != "ok" {
		return out
	}
	timedOut := 0
	for _, e := range res.Errors {
		if e.ResourceName == "timeout" {
			timedOut = 1
		}
	}
	if slow == 1 {
		select {
		case <-r.entered:
		case <-time.After(patient()):
			return "timeout dispose never started"
		}
		close(r.release) // unblock the pending I/O
	}
	waitFor(func() bool { return countStacks(helper) <= before }, leakWait())
	live := countStacks(helper) - before
	if live < 0 {
		live = 0
	}
	return fmt.Sprintf("timedout %d disposed %d live %d", timedOut, r.n.Load(), live)
}
