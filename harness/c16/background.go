//go:build verif

package main

import (
	"context"
	"fmt"
	"strings"
	"sync"
	"time"

	"tunnox-core/internal/core/idgen"
	"tunnox-core/internal/core/storage/memory"
	"tunnox-core/internal/protocol/session"
)

// ============================================================================
// bg: Close while a component-owned background loop is in the middle of a tick
//   bg kind st order <close|tick> n <N> rep <K> ms <seed>
//     memory storage with its cleaner started; a reader holds the storage lock (pending I/O,
//     parked inside MarshalJSON under QueryByPrefix) so that the cleaner's tick body and
//     Close's StopCleanup both queue for the lock — `order` says who queued first — then the
//     reader is released.
//   bg kind sm order sweep n <N> …
//     SessionManager whose connection sweep runs every millisecond while N closers close it.
//   obs: live <background goroutines of the component still alive> closed <0|1>
// ============================================================================

type gateValue struct {
	once    *sync.Once
	entered chan struct{}
	release chan struct{}
}

func (g gateValue) MarshalJSON() ([]byte, error) {
	g.once.Do(func() { close(g.entered) })
	<-g.release
	return []byte(`"gate"`), nil
}

// blockedIn: some goroutine whose stack mentions fn is parked in a sync lock operation.
func blockedIn(fn string) bool {
	for _, g := range dumpGoroutines() {
		if strings.Contains(g.stack, fn) && (strings.HasPrefix(g.state, "sync.") || strings.HasPrefix(g.state, "semacquire")) {
			return true
		}
	}
	return false
}

func countStacks(fn string) int {
	n := 0
	for _, g := range dumpGoroutines() {
		if strings.Contains(g.stack, fn) {
			n++
		}
	}
	return n
}

func waitFor(cond func() bool, d time.Duration) bool {
	deadline := time.Now().Add(d)
	pause := 50 * time.Microsecond
	for !cond() {
		if time.Now().After(deadline) {
			return false
		}
		time.Sleep(pause)
		if pause < 5*time.Millisecond {
			pause *= 2
		}
	}
	return true
}

func runBg(t []string) string {
	kind, order, n, rep := t[2], t[4], atoi(t[6]), atoi(t[8])
	var first string
	for it := 0; it < rep; it++ {
		var obs string
		if kind == "st" {
			obs = bgStorage(order, n)
		} else {
			obs = bgSession(n)
		}
		if it == 0 {
			first = obs
		}
		if obs != first {
			return obs
		}
	}
	return first
}

func bgStorage(order string, n int) string {
	const cleaner = "memory.(*Storage).StartCleanup.func"
	interval := 30 * time.Millisecond * time.Duration(patience.Load()+0)
	if interval <= 0 {
		interval = 30 * time.Millisecond
	}
	for attempt := 0; attempt < 4; attempt++ {
		obs, orderOK := bgStorageOnce(order, n, interval, cleaner)
		if orderOK || attempt == 3 {
			return obs
		}
		interval *= 4 // the tick fired before Close was queued: give Close more room
	}
	return "bad"
}

func bgStorageOnce(order string, n int, interval time.Duration, cleaner string) (string, bool) {
	before := countStacks(cleaner) // cleaners leaked by earlier cases stay around
	st := memory.New(context.Background())
	g := gateValue{once: &sync.Once{}, entered: make(chan struct{}), release: make(chan struct{})}
	if err := st.Set("gate:k", g, 0); err != nil {
		return "bad set", true
	}
	st.StartCleanup(interval)
	readerDone := make(chan struct{})
	go func() { defer close(readerDone); st.QueryByPrefix("gate:", 0) }()
	select {
	case <-g.entered:
	case <-time.After(patient()):
		return "timeout reader", true
	}
	closersDone := make(chan []string, 1)
	startClosers := func() {
		go func() { closersDone <- barrierRun(n, func(int) { st.Close() }) }()
	}
	orderOK := true
	if order == "close" {
		startClosers()
		if !waitFor(func() bool { return blockedIn("(*Storage).StopCleanup") }, patient()) {
			close(g.release)
			return "timeout stopcleanup", true
		}
		// the cleaner must not have queued for the lock before StopCleanup did
		if blockedIn("(*Storage).CleanupExpired") {
			orderOK = false
		}
		if !waitFor(func() bool { return blockedIn("(*Storage).CleanupExpired") }, patient()) {
			close(g.release)
			return "timeout tick", true
		}
	} else {
		if !waitFor(func() bool { return blockedIn("(*Storage).CleanupExpired") }, patient()) {
			close(g.release)
			return "timeout tick", true
		}
		startClosers()
		if !waitFor(func() bool { return blockedIn("(*Storage).StopCleanup") }, patient()) {
			close(g.release)
			return "timeout stopcleanup", true
		}
	}
	close(g.release) // unblock the pending I/O
	select {
	case p := <-closersDone:
		if len(p) > 0 {
			return "panic " + p[0], true
		}
	case <-time.After(patient()):
		return "timeout close", true
	}
	<-readerDone
	waitFor(func() bool { return countStacks(cleaner) <= before }, leakWait())
	live := countStacks(cleaner) - before
	if live < 0 {
		live = 0
	}
	closed := 0
	if st.IsClosed() {
		closed = 1
	}
	late := withWatchdog(patient(), func() string { st.StopCleanup(); st.Close(); st.Get("x"); return "ok" })
	if late != "ok" {
		return late, true
	}
	return fmt.Sprintf("live %d closed %d", live, closed), orderOK
}

func bgSession(n int) string {
	base := baseline()
	ctx, cancel := context.WithCancel(context.Background())
	defer cancel()
	st := memory.New(ctx)
	cfg := session.DefaultSessionConfig()
	cfg.CleanupInterval = time.Millisecond
	cfg.HeartbeatTimeout = time.Millisecond
	sm := session.NewSessionManagerWithConfig(idgen.NewIDManager(st, ctx), ctx, cfg)
	time.Sleep(3 * time.Millisecond) // let a few sweeps run
	p := barrierRun(n, func(int) { sm.Close() })
	if len(p) > 0 {
		return "panic " + p[0]
	}
	st.Close()
	cancel()
	g, _ := leaked(base, leakWait())
	closed := 0
	if sm.IsClosed() {
		closed = 1
	}
	return fmt.Sprintf("live %d closed %d", g, closed)
}
