//go:build verif

package main

import (
	"context"
	"runtime"
	"errors"
	"fmt"
	"net"
	"strings"
	"sync"
	"sync/atomic"
	"time"

	ctunnel "tunnox-core/internal/client/tunnel"
	"tunnox-core/internal/core/dispose"
)

// ============================================================================
// disp: Dispose.Close — N closers, H counting handlers
//   disp n <N> h <H> errs <mask> rep <K> ms <seed>
//   obs:  h <c0> … <cH-1> res <e> closed <0|1> ctx <0|1>
// ============================================================================

func runDisp(t []string) string {
	n, h, mask, rep := atoi(t[2]), atoi(t[4]), atoi(t[6]), atoi(t[8])
	var last string
	for it := 0; it < rep; it++ {
		obs := dispOnce(n, h, mask)
		if it == 0 {
			last = obs
		}
		if obs != last {
			return obs
		}
	}
	// many more rounds with resident closers released by an epoch counter: the callers enter Close
	// within nanoseconds of each other, which is what a few-instruction window in Close needs
	if n >= 2 && h >= 1 {
		if bad := dispStress(n, h, mask, 40*rep); bad != "" {
			return bad
		}
	}
	return last
}

// dispStress: n resident goroutines; every round a fresh Dispose with h counting handlers is
// published and all of them call Close at once. Returns the observation of the first round in
// which a handler did not run exactly once (in dispOnce's format), "" if none.
func dispStress(n, h, mask, rounds int) string {
	type round struct {
		d      *dispose.Dispose
		counts []atomic.Int32
	}
	var cur atomic.Pointer[round]
	var epoch, finished atomic.Int64
	var stop atomic.Bool
	var wg sync.WaitGroup
	for w := 0; w < n; w++ {
		wg.Add(1)
		go func() {
			defer wg.Done()
			seen := int64(0)
			for spins := 0; ; spins++ {
				if stop.Load() {
					return
				}
				if e := epoch.Load(); e != seen {
					seen = e
					cur.Load().d.Close()
					finished.Add(1)
					spins = 0
					continue
				}
				if spins&1023 == 1023 {
					runtime.Gosched()
				}
			}
		}()
	}
	defer func() { stop.Store(true); wg.Wait() }()
	failing := 0
	for i := 0; i < h; i++ {
		if mask>>i&1 == 1 {
			failing++
		}
	}
	deadline := time.Now().Add(patient())
	for r := 0; r < rounds; r++ {
		rd := &round{d: dispose.NewDispose(context.Background(), nil), counts: make([]atomic.Int32, h)}
		for i := 0; i < h; i++ {
			i := i
			rd.d.AddCleanHandler(func() error {
				rd.counts[i].Add(1)
				if mask>>i&1 == 1 {
					return errors.New("handler failed")
				}
				return nil
			})
		}
		cur.Store(rd)
		finished.Store(0)
		epoch.Add(1)
		for spins := 0; finished.Load() < int64(n); spins++ {
			if spins&1023 == 1023 {
				runtime.Gosched()
				if time.Now().After(deadline) {
					return "timeout: a closer did not return"
				}
			}
		}
		for i := 0; i < h; i++ {
			if rd.counts[i].Load() != 1 {
				cs := make([]string, h)
				for j := range cs {
					cs[j] = itoa(int(rd.counts[j].Load()))
				}
				return fmt.Sprintf("h %s res %d closed 1 ctx 1", strings.Join(cs, " "), failing)
			}
		}
	}
	return ""
}

func dispOnce(n, h, mask int) string {
	d := dispose.NewDispose(context.Background(), nil)
	counts := make([]atomic.Int32, h)
	var orderMu sync.Mutex
	var order []int
	for i := 0; i < h; i++ {
		i := i
		d.AddCleanHandler(func() error {
			counts[i].Add(1)
			orderMu.Lock()
			order = append(order, i)
			orderMu.Unlock()
			if mask>>i&1 == 1 {
				return errors.New("handler failed")
			}
			return nil
		})
	}
	res := make([]int, n)
	// one more goroutine registers a handler while the closers run: it runs once or never
	var lateRuns atomic.Int32
	p := barrierRun(n+1, func(i int) {
		if i == n {
			d.AddCleanHandler(func() error { lateRuns.Add(1); return nil })
			return
		}
		res[i] = len(d.Close().Errors)
	})
	if len(p) > 0 {
		return "panic " + p[0]
	}
	cs := make([]string, h)
	for i := range cs {
		cs[i] = itoa(int(counts[i].Load()))
	}
	r := itoa(res[0])
	for _, x := range res {
		if x != res[0] {
			r = "mixed"
		}
	}
	closed, ctxDone := 0, 0
	if d.IsClosed() {
		closed = 1
	}
	if d.Ctx().Err() != nil {
		ctxDone = 1
	}
	// a Close after the fact must be a no-op that still reports the errors
	if len(d.Close().Errors) != res[0] {
		r = "late-mismatch"
	}
	if (d.CloseWithError() != nil) != (res[0] > 0) || len(d.GetErrors()) != res[0] {
		r = "late-mismatch"
	}
	// the clean handlers ran in registration order; a handler registered during Close ran at most once
	for i, x := range order {
		if x != i {
			r = "order"
		}
	}
	if lateRuns.Load() > 1 {
		r = "late-twice"
	}
	s := "h"
	if h > 0 {
		s += " " + strings.Join(cs, " ")
	}
	return fmt.Sprintf("%s res %s closed %d ctx %d", s, r, closed, ctxDone)
}

// ============================================================================
// tun: client Tunnel.Close — concurrent closers and the tunnel's own completion paths
//   tun init <0|1> role <0|1> tgt <0|1> cl <k> <closer…> rep <K> ms <seed>
//   closers: c0…c5 = Close(reason)   p = peer notification (manager.OnTunnelClosed)
//            a = manager.CloseAll()  x = manager.OnTunnelError(fatal)
//            e = both peers hang up (data copy finishes; only with init 1)
//   obs:  closed <k> reason <r> notify <x> disposed <d> state <s> reg <n> leak <g>
// ============================================================================

type countingClient struct{ notifies atomic.Int32 }

func (c *countingClient) SendTunnelCloseNotify(target int64, tunnelID, mappingID, reason string) error {
	c.notifies.Add(1)
	return nil
}

func runTun(t []string) string {
	init, role, tgt := atoi(t[2]), atoi(t[4]), atoi(t[6])
	k := atoi(t[8])
	closers := t[9 : 9+k]
	rep := atoi(t[9+k+1])
	var first string
	for it := 0; it < rep; it++ {
		obs := tunOnce(init, role, tgt, closers, it)
		if it == 0 {
			first = obs
		}
		if stripTun(obs) != stripTun(first) || !strings.HasPrefix(obs, "closed 1 ") || strings.Contains(obs, "bad") {
			return obs
		}
	}
	return first
}

// stripTun removes the schedule-dependent part (which closer won).
func stripTun(o string) string {
	f := strings.Fields(o)
	if len(f) >= 6 && f[2] == "reason" && f[4] == "notify" {
		return strings.Join(append(append([]string{}, f[:2]...), f[6:]...), " ")
	}
	return o
}

func tunOnce(init, role, tgt int, closers []string, it int) string {
	base := baseline()
	ctx, cancel := context.WithCancel(context.Background())
	defer cancel()
	mgr := ctunnel.NewTunnelManager(ctx, ctunnel.TunnelRole(role))
	cl := &countingClient{}
	var closed atomic.Int32
	var reasons sync.Map
	var disposed atomic.Int32
	localA, localB := net.Pipe()   // localA is handed to the tunnel, localB is the application side
	tunnelA, tunnelB := net.Pipe() // tunnelA is handed to the tunnel, tunnelB is the server side
	id := fmt.Sprintf("t-%d", it)
	tn := ctunnel.NewTunnel(&ctunnel.TunnelConfig{
		ID: id, MappingID: "m1", Role: ctunnel.TunnelRole(role), Protocol: "tcp",
		LocalConn: localA, TunnelRWC: tunnelA, TargetClient: int64(tgt) * 77,
		Manager: mgr, Client: cl,
		OnClosed: func(r ctunnel.CloseReason, err error) {
			closed.Add(1)
			reasons.Store(int(r), true)
		},
	})
	tn.AddCleanHandler(func() error { disposed.Add(1); return nil })
	if err := mgr.RegisterTunnel(tn); err != nil {
		return "bad register"
	}
	// server side and application side: drain whatever arrives
	go drain(tunnelB)
	if init == 1 {
		if err := tn.Start(); err != nil {
			return "bad start"
		}
	}
	hasE := false
	for _, c := range closers {
		if c == "e" {
			hasE = true
		}
	}
	p := barrierRun(len(closers), func(i int) {
		c := closers[i]
		switch {
		case c[0] == 'c':
			tn.Close(ctunnel.CloseReason(atoi(c[1:])), nil)
		case c[0] == 't':
			mgr.CloseTunnel(id, ctunnel.CloseReason(atoi(c[1:])))
		case c == "p":
			mgr.OnTunnelClosed(id, "m1", "peer", 1, 2, 3)
		case c == "a":
			mgr.CloseAll()
		case c == "x":
			mgr.OnTunnelError(id, "m1", "E", "fatal", false)
		case c == "e":
			localB.Close()
			tunnelB.Close()
		}
	})
	if len(p) > 0 {
		return "panic " + p[0]
	}
	if hasE {
		// the copy goroutine closes the tunnel on its own; wait for it
		deadline := time.Now().Add(patient())
		for tn.GetState() != ctunnel.TunnelStateClosed && time.Now().Before(deadline) {
			time.Sleep(50 * time.Microsecond)
		}
	}
	localB.Close()
	tunnelB.Close()
	// later operations must not panic and must be no-ops
	late := withWatchdog(patient(), func() string {
		tn.Close(ctunnel.CloseReasonNormal, nil)
		tn.NotifyPeerClosed("late", nil)
		_ = tn.GetStats()
		return "ok"
	})
	if late != "ok" {
		return late
	}
	reg := mgr.CountTunnels()
	mgr.Close()
	cancel()
	g, _ := leaked(base, leakWait())
	reason := -1
	nreasons := 0
	reasons.Range(func(k, _ any) bool { reason = k.(int); nreasons++; return true })
	if nreasons > 1 {
		reason = 99
	}
	return fmt.Sprintf("closed %d reason %d notify %d disposed %d state %d reg %d leak %d",
		closed.Load(), reason, cl.notifies.Load(), disposed.Load(), int(tn.GetState()), reg, g)
}

func drain(c net.Conn) {
	buf := make([]byte, 4096)
	for {
		if _, err := c.Read(buf); err != nil {
			return
		}
	}
}
