//go:build verif && !race

package main

const raceEnabled = false
