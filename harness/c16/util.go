//go:build verif

package main

import (
	"fmt"
	"runtime"
	"strconv"
	"strings"
	"sync"
	"sync/atomic"
	"time"
)

// ---- patience: every inner wait and watchdog is a multiple of this; a verdict that depends
// on a wait (timeout, leak, stuck) is re-run with doubled patience before it is reported.

var patience atomic.Int64

func patient() time.Duration {
	p := patience.Load()
	if p < 1 {
		p = 1
	}
	return time.Duration(p) * 30 * time.Second
}

// leakWait: how long the leak oracle waits for goroutines to finish (a real leak costs this much).
func leakWait() time.Duration { return patient() / 30 }

// ---- goroutine dump: leak oracle and "blocked on a mutex" detection

type ginfo struct {
	id    int64
	state string
	stack string
}

func dumpGoroutines() []ginfo {
	buf := make([]byte, 1<<20)
	for {
		n := runtime.Stack(buf, true)
		if n < len(buf) {
			buf = buf[:n]
			break
		}
		buf = make([]byte, 2*len(buf))
	}
	var out []ginfo
	for _, blk := range strings.Split(string(buf), "\n\n") {
		blk = strings.TrimSpace(blk)
		if !strings.HasPrefix(blk, "goroutine ") {
			continue
		}
		head := blk
		if i := strings.IndexByte(blk, '\n'); i >= 0 {
			head = blk[:i]
		}
		// goroutine 12 [chan receive, 2 minutes]:
		rest := strings.TrimPrefix(head, "goroutine ")
		sp := strings.IndexByte(rest, ' ')
		if sp < 0 {
			continue
		}
		id, _ := strconv.ParseInt(rest[:sp], 10, 64)
		st := ""
		if a := strings.IndexByte(rest, '['); a >= 0 {
			if b := strings.IndexByte(rest[a:], ']'); b >= 0 {
				st = rest[a+1 : a+b]
			}
		}
		out = append(out, ginfo{id: id, state: st, stack: blk})
	}
	return out
}

func curGID() int64 {
	var b [64]byte
	n := runtime.Stack(b[:], false)
	f := strings.Fields(string(b[:n]))
	if len(f) < 2 {
		return -1
	}
	id, _ := strconv.ParseInt(f[1], 10, 64)
	return id
}

func baseline() map[int64]bool {
	m := map[int64]bool{}
	for _, g := range dumpGoroutines() {
		m[g.id] = true
	}
	return m
}

// isRepoGoroutine: the goroutine runs (or was created by) code of the module under
// test, other than the harness itself.
func isRepoGoroutine(g ginfo) bool {
	for _, ln := range strings.Split(g.stack, "\n") {
		if strings.Contains(ln, "tunnox-core/internal/") && !strings.Contains(ln, "tunnox-core/internal/verifharness") &&
			!strings.HasPrefix(strings.TrimSpace(ln), "/") {
			return true
		}
	}
	return false
}

// leaked waits (bounded) for every goroutine that did not exist in base and that runs
// repo code to finish; returns how many remain and a short description of the first.
func leaked(base map[int64]bool, wait time.Duration) (int, string) {
	deadline := time.Now().Add(wait)
	pause := 100 * time.Microsecond
	for {
		n, first := 0, ""
		for _, g := range dumpGoroutines() {
			if base[g.id] || !isRepoGoroutine(g) {
				continue
			}
			n++
			if first == "" {
				first = g.stack
			}
		}
		if n == 0 || time.Now().After(deadline) {
			return n, first
		}
		time.Sleep(pause)
		if pause < 20*time.Millisecond {
			pause *= 2
		}
	}
}

// blockedOnLock: goroutine id is parked inside sync.Mutex/RWMutex.Lock.
func blockedOnLock(id int64) bool {
	for _, g := range dumpGoroutines() {
		if g.id == id {
			return strings.HasPrefix(g.state, "sync.") || strings.HasPrefix(g.state, "semacquire")
		}
	}
	return false
}

// ---- contention: N goroutines released by one atomic flag

// barrierRun runs f(0..n-1) on n goroutines that all spin on one flag, so that they
// enter f within a few nanoseconds of each other. Panics are caught per goroutine.
func barrierRun(n int, f func(i int)) (panics []string) {
	var ready atomic.Int32
	var goFlag atomic.Bool
	var wg sync.WaitGroup
	var mu sync.Mutex
	wg.Add(n)
	for i := 0; i < n; i++ {
		go func(i int) {
			defer wg.Done()
			defer func() {
				if r := recover(); r != nil {
					mu.Lock()
					panics = append(panics, sanitize(fmt.Sprint(r)))
					mu.Unlock()
				}
			}()
			ready.Add(1)
			for spins := 0; !goFlag.Load(); spins++ {
				if spins&1023 == 1023 {
					runtime.Gosched() // oversubscribed machine: let the releaser run
				}
			}
			f(i)
		}(i)
	}
	for int(ready.Load()) < n {
		runtime.Gosched()
	}
	goFlag.Store(true)
	// a caller that never returns is a hang of the code under test: give up after the patience unit
	fin := make(chan struct{})
	go func() { wg.Wait(); close(fin) }()
	select {
	case <-fin:
	case <-time.After(patient()):
		mu.Lock()
		defer mu.Unlock()
		return append([]string{"timeout: a caller behind the barrier did not return"}, panics...)
	}
	return
}

func sanitize(s string) string {
	s = strings.ReplaceAll(s, " ", "_")
	s = strings.ReplaceAll(s, "\n", "_")
	if len(s) > 120 {
		s = s[:120]
	}
	return s
}

// withWatchdog runs f on its own goroutine; "timeout" if it does not finish.
func withWatchdog(d time.Duration, f func() string) string {
	ch := make(chan string, 1)
	go func() {
		defer func() {
			if r := recover(); r != nil {
				ch <- "panic " + sanitize(fmt.Sprint(r))
			}
		}()
		ch <- f()
	}()
	select {
	case s := <-ch:
		return s
	case <-time.After(d):
		return "timeout"
	}
}

// ---- gate: a parking place for gated doubles

// gate parks callers until the scheduler releases them one at a time.
type gate struct {
	mu      sync.Mutex
	parked  map[int]chan struct{} // thread id -> release channel
	arrived chan int
}

func newGate() *gate { return &gate{parked: map[int]chan struct{}{}, arrived: make(chan int, 64)} }

// park blocks thread tid until release(tid).
func (g *gate) park(tid int) {
	ch := make(chan struct{})
	g.mu.Lock()
	g.parked[tid] = ch
	g.mu.Unlock()
	<-ch
}

func (g *gate) isParked(tid int) bool {
	g.mu.Lock()
	defer g.mu.Unlock()
	_, ok := g.parked[tid]
	return ok
}

func (g *gate) release(tid int) bool {
	g.mu.Lock()
	ch, ok := g.parked[tid]
	delete(g.parked, tid)
	g.mu.Unlock()
	if ok {
		close(ch)
	}
	return ok
}

func (g *gate) releaseAll() {
	g.mu.Lock()
	for k, ch := range g.parked {
		close(ch)
		delete(g.parked, k)
	}
	g.mu.Unlock()
}

func atoi(s string) int {
	n, err := strconv.Atoi(s)
	if err != nil {
		panic("bad number " + s)
	}
	return n
}

func itoa(n int) string { return strconv.Itoa(n) }

func joinInts(xs []int) string {
	ss := make([]string, len(xs))
	for i, x := range xs {
		ss[i] = strconv.Itoa(x)
	}
	return strings.Join(ss, " ")
}
