//go:build verif

// Harness for C11: every control-channel command type, driven through the real
// SessionManager.HandlePacket (special cases of handleCommandPacket, then the real
// CommandExecutor / CommandRegistry with the real handlers of internal/command and
// internal/app/server) against a real in-memory server stack, from connections of
// every identity class, with arbitrary claimed SenderId / ReceiverId / Token fields.
//
// case:  c <cmdType> p <0|1|2> f <conn#> s <snd> r <rcv> t <tok|-> b <0|1>      (snd/rcv/tok: literal, or @c<i> @m<i> @s<i> @k<i> @d<i>
//
//	       = the connection id of connection i / id, secret key of mapping i / code i / id of domain i)
//
//		m <map#|-1|-2> g <targetClient> k <code#|-1|-2> d <dom#|-1|-2>
//		W conns <n> (<N|U|A><clientID>)* maps <n> (<listen>:<target>:<s|t>:<a|i>)*
//		  codes <n> (<target>:<0|1|activator>)* doms <n> (<owner>)*
//		(first token `x` instead of `c`: excluded point of the model comparison, see ambiguousDefaultTarget)
//
// obs:   <run> ~ <run>     first run: the packet as given; second run: the same packet with
//
//	     SenderId/ReceiverId/Token zeroed, in a fresh identical world
//	run = ret <0|1> rsp <n|o|f> view <refs|-> chg <refs|-> dlv <conn#:cmdType:sender,…|-> gone <conn#,…|->
//	rsp: class of the CommandResp packets the sender got; dlv: command packets pushed to any connection
//	(including the sender's own); view: pre-existing objects whose id/secret the sender was shown
package main

import (
	"bytes"
	"context"
	"crypto/hmac"
	"crypto/sha1"
	"crypto/sha256"
	"encoding/base64"
	"encoding/hex"
	"encoding/json"
	"errors"
	"flag"
	"fmt"
	"io"
	"net"
	"os"
	"runtime"
	"sort"
	"strconv"
	"strings"
	"sync"
	"sync/atomic"
	"time"

	"tunnox-core/internal/app/server"
	"tunnox-core/internal/broker"
	"tunnox-core/internal/cloud/factories"
	"tunnox-core/internal/cloud/managers"
	"tunnox-core/internal/cloud/models"
	"tunnox-core/internal/cloud/repos"
	"tunnox-core/internal/cloud/services"
	"tunnox-core/internal/command"
	"tunnox-core/internal/constants"
	"tunnox-core/internal/core/idgen"
	corelog "tunnox-core/internal/core/log"
	"tunnox-core/internal/core/storage"
	"tunnox-core/internal/core/types"
	"tunnox-core/internal/packet"
	"tunnox-core/internal/protocol/session"
	"tunnox-core/internal/security"
	vc "tunnox-core/internal/verifharness/common"
)

// ---------------------------------------------------------------- fake stream

type sentPkt struct {
	ptype   packet.Type
	ctype   packet.CommandType
	body    string
	payload []byte
}

type fakeStream struct {
	mu      sync.Mutex
	sent    []sentPkt
	closed  bool
	cfgSets int // ConfigSet pushes received so far (never reset)
	onWrite func(p *packet.TransferPacket)
}

func (f *fakeStream) GetReader() io.Reader { return nil }
func (f *fakeStream) GetWriter() io.Writer { return nil }
func (f *fakeStream) ReadPacket() (*packet.TransferPacket, int, error) {
	return nil, 0, io.EOF
}
func (f *fakeStream) WritePacket(p *packet.TransferPacket, _ bool, _ int64) (int, error) {
	f.mu.Lock()
	sp := sentPkt{ptype: p.PacketType, payload: append([]byte(nil), p.Payload...)}
	if p.CommandPacket != nil {
		sp.ctype = p.CommandPacket.CommandType
		sp.body = p.CommandPacket.CommandBody
		if sp.ctype == packet.ConfigSet && !p.PacketType.IsCommandResp() {
			f.cfgSets++
		}
	}
	f.sent = append(f.sent, sp)
	cb := f.onWrite
	f.mu.Unlock()
	if cb != nil {
		cb(p)
	}
	return 1, nil
}
func (f *fakeStream) ReadExact(int) ([]byte, error) { return nil, io.EOF }
func (f *fakeStream) WriteExact([]byte) error       { return nil }
func (f *fakeStream) Close()                        { f.mu.Lock(); f.closed = true; f.mu.Unlock() }
func (f *fakeStream) reset() {
	f.mu.Lock()
	f.sent = nil
	f.mu.Unlock()
}
func (f *fakeStream) snapshot() []sentPkt {
	f.mu.Lock()
	defer f.mu.Unlock()
	return append([]sentPkt(nil), f.sent...)
}

// ---------------------------------------------------------------- case

type connSpec struct {
	kind byte // N U A
	cid  int64
	node int // server node the connection is attached to
	// the connection's history: handshake steps in order (the fields above are the resulting state: last successful
	// authentication, else registered-unauthenticated if any handshake was attempted, else accepted only)
	steps []connSpec
}
type mapSpec struct {
	listen, target int64
	socks, active  bool
}
type codeSpec struct {
	target    int64
	activated bool
	by        int64 // >= 2: the client that activated the code through the real service (a mapping by -> target exists)
}
type kase struct {
	ctype    int
	resp     bool
	from     int
	snd, rcv string
	tok      string
	bad      bool
	m, k, d  int
	g        int64
	bridge   bool
	noExec   bool     // no CommandExecutor installed on the nodes
	xnode    bool     // every node has a connection-state store, a cross-node pool and a cross-node listener (real TCP, loopback)
	direct   bool     // entry point SessionManager.ProcessCommand instead of HandlePacket
	extra    int64    // != 0: every identity-like key is added to the body with this foreign value
	extraKey []string // key:n | key:s
	stall    int      // >= 0: schedule — the command's handler is held at its first storage access until the executor's RPC wait has
	//                   timed out and a second command from connection `stall` is in flight, then resumes (-1: no such schedule)
	conc   int    // >= 0: the same (read-only) command is sent over and over from connection `conc` concurrently (-1: none)
	rounds int    // how many times the command itself is sent in that case
	faults uint64 // bit i: the i-th read (during the command) of the named mapping's main record fails transiently
	conns  []connSpec
	maps   []mapSpec
	codes  []codeSpec
	doms   []int64
}

func atoi(s string) int { v, _ := strconv.Atoi(s); return v }
func atoi64(s string) int64 {
	v, _ := strconv.ParseInt(s, 10, 64)
	return v
}

func parseCase(s string) (*kase, error) {
	t := strings.Fields(s)
	if len(t) < 24 || t[0] != "c" {
		return nil, fmt.Errorf("bad case")
	}
	k := &kase{ctype: atoi(t[1]), resp: t[3] == "1", from: atoi(t[5]), snd: t[7], rcv: t[9], tok: t[11],
		direct: t[3] == "2", bad: t[13] == "1", m: atoi(t[15]), g: atoi64(t[17]), k: atoi(t[19]), d: atoi(t[21])}
	i := 23
	i = 22
	if i+2 < len(t) && t[i] == "e" {
		k.extra = atoi64(t[i+1])
		k.extraKey = strings.Split(t[i+2], ",")
		i += 3
	}
	k.stall = -1
	if i+1 < len(t) && t[i] == "z" {
		k.stall = atoi(t[i+1])
		i += 2
	}
	k.conc = -1
	if i+2 < len(t) && t[i] == "y" {
		k.conc = atoi(t[i+1])
		k.rounds = atoi(t[i+2])
		i += 3
	}
	if i+1 < len(t) && t[i] == "q" {
		v, err := strconv.ParseUint(t[i+1], 10, 64)
		if err != nil {
			return nil, fmt.Errorf("bad fault plan")
		}
		k.faults = v
		i += 2
	}
	if i >= len(t) || t[i] != "W" {
		return nil, fmt.Errorf("bad case")
	}
	i++
	if i+1 < len(t) && t[i] == "br" {
		k.bridge = t[i+1] == "1"
		i += 2
	}
	if i+1 < len(t) && t[i] == "ne" {
		k.noExec = t[i+1] == "1"
		i += 2
	}
	if i+1 < len(t) && t[i] == "xn" {
		k.xnode = t[i+1] == "1"
		i += 2
	}
	next := func(tag string) (int, error) {
		if i+1 >= len(t) || t[i] != tag {
			return 0, fmt.Errorf("expected %s", tag)
		}
		n := atoi(t[i+1])
		i += 2
		if n < 0 || i+n > len(t) {
			return 0, fmt.Errorf("short %s", tag)
		}
		return n, nil
	}
	n, err := next("conns")
	if err != nil {
		return nil, err
	}
	for j := 0; j < n; j++ {
		histAndNode := strings.SplitN(t[i], "@", 2)
		cs := connSpec{kind: 'N'}
		for _, st := range strings.Split(histAndNode[0], ">") {
			if len(st) < 2 {
				return nil, fmt.Errorf("bad connection step")
			}
			step := connSpec{kind: st[0], cid: atoi64(st[1:])}
			cs.steps = append(cs.steps, step)
			switch {
			case step.kind == 'A' && step.cid > 0:
				cs.kind, cs.cid = 'A', step.cid
			case step.kind != 'N' && cs.kind == 'N':
				cs.kind = 'U'
			}
		}
		if len(cs.steps) == 1 && cs.kind != 'A' {
			cs.kind, cs.cid = cs.steps[0].kind, cs.steps[0].cid // single step: keep the token's own letter (N/U/P/F)
		}
		if len(histAndNode) == 2 {
			cs.node = atoi(histAndNode[1])
			if cs.node < 0 || cs.node > 3 {
				return nil, fmt.Errorf("bad node")
			}
		}
		k.conns = append(k.conns, cs)
		i++
	}
	if n, err = next("maps"); err != nil {
		return nil, err
	}
	for j := 0; j < n; j++ {
		p := strings.Split(t[i], ":")
		if len(p) != 4 {
			return nil, fmt.Errorf("bad map")
		}
		k.maps = append(k.maps, mapSpec{atoi64(p[0]), atoi64(p[1]), p[2] == "s", p[3] == "a"})
		i++
	}
	if n, err = next("codes"); err != nil {
		return nil, err
	}
	for j := 0; j < n; j++ {
		p := strings.Split(t[i], ":")
		if len(p) != 2 {
			return nil, fmt.Errorf("bad code")
		}
		k.codes = append(k.codes, codeSpec{atoi64(p[0]), p[1] != "0", atoi64(p[1])})
		i++
	}
	if n, err = next("doms"); err != nil {
		return nil, err
	}
	for j := 0; j < n; j++ {
		k.doms = append(k.doms, atoi64(t[i]))
		i++
	}
	if k.from < 0 || k.from >= len(k.conns) {
		return nil, fmt.Errorf("bad from")
	}
	return k, nil
}

// ---------------------------------------------------------------- fault-injecting store

// flakyStorage is the real in-memory storage with one injectable fault: while armed, the reads (Get) of one key are
// counted, and the i-th one fails with a transient error if bit i of the plan is set. Everything else, and every
// read after the plan is exhausted, is served by the real storage.
type flakyStorage struct {
	*storage.MemoryStorage
	mu    sync.Mutex
	key   string
	plan  uint64
	reads int
	gates map[string]*gate
}

// gate: a gated double. While a gate is armed for a key, the next Get / Exists of that key announces itself on `entered`
// and blocks until the gate is opened; everything else goes straight to the real storage.
type gate struct {
	entered chan struct{}
	open    chan struct{}
	used    bool
}

func (f *flakyStorage) armGate(key string) *gate {
	g := &gate{entered: make(chan struct{}, 1), open: make(chan struct{})}
	f.mu.Lock()
	if f.gates == nil {
		f.gates = map[string]*gate{}
	}
	f.gates[key] = g
	f.mu.Unlock()
	return g
}

func (f *flakyStorage) disarmGates() {
	f.mu.Lock()
	for _, g := range f.gates {
		g.used = true
	}
	f.mu.Unlock()
}

func (f *flakyStorage) pass(key string) {
	f.mu.Lock()
	g := f.gates[key]
	if g == nil || g.used {
		f.mu.Unlock()
		return
	}
	g.used = true
	f.mu.Unlock()
	g.entered <- struct{}{}
	select {
	case <-g.open:
	case <-time.After(20 * time.Second):
	}
}

func (f *flakyStorage) Exists(key string) (bool, error) {
	f.pass(key)
	return f.MemoryStorage.Exists(key)
}

var errTransient = errors.New("storage: i/o timeout (verif: injected transient read fault)")

func (f *flakyStorage) Get(key string) (any, error) {
	f.pass(key)
	f.mu.Lock()
	if f.key != "" && key == f.key {
		n := f.reads
		f.reads++
		if n < 64 && f.plan&(1<<uint(n)) != 0 {
			f.mu.Unlock()
			return nil, errTransient
		}
	}
	f.mu.Unlock()
	return f.MemoryStorage.Get(key)
}

func (f *flakyStorage) arm(key string, plan uint64) {
	f.mu.Lock()
	f.key, f.plan, f.reads = key, plan, 0
	f.mu.Unlock()
}

// ---------------------------------------------------------------- world

type world struct {
	cancel   context.CancelFunc
	sms      []*session.SessionManager // one per node
	hub      *hub
	cleanup  []func()
	stor     *flakyStorage
	skm      *security.SecretKeyManager
	cfgRepo  *repos.ClientConfigRepository
	pushMu   sync.Mutex
	pushes   []pushRec // every config the session asked for in order to push it after a successful handshake
	logins   int       // successful handshakes
	clients  map[int64]bool
	loginsOf map[int]int
	gone0    map[int]bool
	cloud    *managers.BuiltinCloudControl
	kase     *kase
	pmRepo   *repos.PortMappingRepo
	ccRepo   *repos.ConnectionCodeRepository
	domRepo  *repos.HTTPDomainMappingRepository
	streams  []*fakeStream
	mapIDs   []string
	mapKeys  []string
	codes    []string
	codeIDs  []string
	domIDs   []string
	domSubs  []string
	done     chan struct{} // signalled by the executor middleware when a handler returns
}

type doneMW struct{ ch chan struct{} }

func (m *doneMW) Process(ctx *types.CommandContext, next func(*types.CommandContext) (*types.CommandResponse, error)) (*types.CommandResponse, error) {
	defer func() {
		select {
		case m.ch <- struct{}{}:
		default:
		}
	}()
	return next(ctx)
}

func connID(i int) string { return fmt.Sprintf("conn-%d", i) }

// ---------------------------------------------------------------- identities come from the real handshake

var masterKey = base64.StdEncoding.EncodeToString(bytes.Repeat([]byte{0x5a}, 32))

var (
	skmOnce sync.Once
	theSKM  *security.SecretKeyManager
	errSKM  error
)

func secretOf(clientID int64) string { return fmt.Sprintf("verif-secret-of-%d", clientID) }

type pushRec struct {
	connID string
	body   string
}

// authTap is the session's AuthHandler: the real ServerAuthHandler, observed. After a successful handshake the
// session pushes the client's configuration from a goroutine; the tap lets the harness wait for that push to be
// over before the command under test is sent.
type authTap struct {
	real *server.ServerAuthHandler
	w    *world
}

func (a *authTap) HandleHandshake(conn session.ControlConnectionInterface, req *packet.HandshakeRequest) (*packet.HandshakeResponse, error) {
	return a.real.HandleHandshake(conn, req)
}
func (a *authTap) GetClientConfig(conn session.ControlConnectionInterface) (string, error) {
	body, err := a.real.GetClientConfig(conn)
	a.w.pushMu.Lock()
	if err != nil {
		body = ""
	}
	a.w.pushes = append(a.w.pushes, pushRec{conn.GetConnID(), body})
	a.w.pushMu.Unlock()
	return body, err
}

// ensureClient stores a client record with a sealed secret, as registration leaves it.
func (w *world) ensureClient(id int64) error {
	if w.clients[id] {
		return nil
	}
	w.clients[id] = true
	enc, err := w.skm.Encrypt(secretOf(id))
	if err != nil {
		return err
	}
	return w.cfgRepo.CreateConfig(&models.ClientConfig{ID: id, Name: fmt.Sprintf("verif-%d", id), SecretKeyEncrypted: enc, AuthCode: fmt.Sprintf("auth-%d", id),
		SecretKeyVersion: 1, Type: models.ClientTypeAnonymous, CreatedAt: time.Now(), UpdatedAt: time.Now()})
}

func (w *world) handshake(i int, req *packet.HandshakeRequest) *packet.HandshakeResponse {
	payload, _ := json.Marshal(req)
	w.streams[i].reset()
	err := w.smOf(i).HandlePacket(&types.StreamPacket{ConnectionID: connID(i), Timestamp: time.Now(),
		Packet: &packet.TransferPacket{PacketType: packet.Handshake, Payload: payload}})
	// the session pushes the client's configuration (from a goroutine) after every handshake packet it handled without
	// error on a connection that is authenticated at that point — also after phase 1 of a re-handshake
	if ctl := w.smOf(i).GetControlConnection(connID(i)); err == nil && ctl != nil && ctl.IsAuthenticated() && ctl.GetClientID() > 0 {
		w.logins++
		w.loginsOf[i]++
	}
	for _, p := range w.streams[i].snapshot() {
		if p.ptype&0x3F == packet.HandshakeResp {
			var r packet.HandshakeResponse
			if json.Unmarshal(p.payload, &r) == nil {
				return &r
			}
		}
	}
	return nil
}

// establish brings connection i into the state its kind names, through the real handshake path
// (SessionManager.HandlePacket -> handleHandshake -> ServerAuthHandler):
//
//	N  accepted, no handshake            U  handshake for a client that does not exist (refused)
//	P<c> phase 1 for client c done, challenge pending     F<c> phase 2 for c answered with a wrong HMAC (refused)
//	A<c> phase 1 and phase 2 with the right HMAC: authenticated as c
func (w *world) establish(i int, c connSpec) error {
	for _, st := range c.steps {
		if err := w.establishStep(i, st); err != nil {
			return err
		}
		if len(c.steps) > 1 {
			w.warmUp(i) // commands between the steps, so that anything remembered per connection is warm
		}
	}
	return nil
}

// warmUp sends read-only registry commands from the connection (whatever it is allowed to see).
func (w *world) warmUp(i int) {
	for _, ct := range []packet.CommandType{packet.HTTPDomainList, packet.HTTPDomainGetBaseDomains, packet.MappingList, packet.ConfigGet} {
		_ = w.smOf(i).HandlePacket(&types.StreamPacket{ConnectionID: connID(i), Timestamp: time.Now(),
			Packet: &packet.TransferPacket{PacketType: packet.JsonCommand, CommandPacket: &packet.CommandPacket{CommandType: ct,
				CommandId: fmt.Sprintf("cmd-warm-%d", atomic.AddInt64(&cmdSeq, 1)), CommandBody: `{}`}}})
	}
}

func (w *world) establishStep(i int, c connSpec) error {
	hs := func(id int64, resp string) *packet.HandshakeResponse {
		return w.handshake(i, &packet.HandshakeRequest{ClientID: id, Version: "3", Protocol: "tcp", ConnectionType: "control", ChallengeResponse: resp})
	}
	kind := c.kind
	if (kind == 'A' || kind == 'P' || kind == 'F') && c.cid <= 0 {
		kind = 'U'
	}
	switch kind {
	case 'N':
		return nil
	case 'U':
		if r := hs(99999999, ""); r == nil || r.Success {
			return fmt.Errorf("handshake for an unknown client was not refused")
		}
		return nil
	}
	if err := w.ensureClient(c.cid); err != nil {
		return err
	}
	r := hs(c.cid, "")
	if r == nil || r.Challenge == "" {
		return fmt.Errorf("no challenge for client %d", c.cid)
	}
	switch kind {
	case 'P':
		return nil
	case 'F':
		if r2 := hs(c.cid, "00ff00ff"); r2 == nil || r2.Success {
			return fmt.Errorf("wrong challenge response was not refused")
		}
		return nil
	}
	mac := hmac.New(sha256.New, []byte(secretOf(c.cid)))
	mac.Write([]byte(r.Challenge))
	if r2 := hs(c.cid, hex.EncodeToString(mac.Sum(nil))); r2 == nil || !r2.Success {
		return fmt.Errorf("client %d could not authenticate", c.cid)
	}
	return nil
}

// settleLogins waits until every configuration push that follows a successful handshake is over, then forgets
// everything the connections received so far.
func (w *world) settleLogins() error {
	deadline := time.Now().Add(5 * time.Second)
	for {
		w.pushMu.Lock()
		n := len(w.pushes)
		recs := append([]pushRec(nil), w.pushes...)
		w.pushMu.Unlock()
		// every successful login of connection i is followed by exactly one push attempt for connection i
		done := n >= w.logins
		perConn := map[string]int{}
		want := map[string]int{}
		for _, pr := range recs {
			perConn[pr.connID]++
			if !(pr.body == "" || pr.body == `{"mappings":[]}` || pr.body == `{"mappings":null}`) {
				want[pr.connID]++
			}
		}
		for i, fs := range w.streams {
			fs.mu.Lock()
			got := fs.cfgSets
			fs.mu.Unlock()
			if perConn[connID(i)] < w.loginsOf[i] || got < want[connID(i)] {
				done = false
			}
		}
		if done {
			break
		}
		if time.Now().After(deadline) {
			return fmt.Errorf("configuration push after login did not finish")
		}
		runtime.Gosched()
	}
	for _, fs := range w.streams {
		fs.reset()
	}
	return nil
}

func (w *world) isGone(i int) bool {
	inMap, ctl := w.smOf(i).VerifHasConn(connID(i))
	fs := w.streams[i]
	fs.mu.Lock()
	closed := fs.closed
	fs.mu.Unlock()
	return !inMap || closed || (w.kase.conns[i].kind != 'N' && !ctl)
}

func (w *world) smOf(conn int) *session.SessionManager { return w.sms[w.kase.conns[conn].node] }

// ---------------------------------------------------------------- two nodes: a BridgeManager over an in-memory broker

// hub is the message broker shared by all nodes. Subscriber channels are unbuffered, so a completed send means the
// node's processing loop has taken the message; a second (unparsable) message sent afterwards completes only when
// the loop is back at its receive, i.e. when the first message has been handled.
type hub struct {
	mu     sync.Mutex
	subs   map[string][]chan *session.BroadcastMessage
	opened []session.TunnelOpenBroadcastMessage // every tunnel-open broadcast published
}

func (h *hub) publish(topic string, payload []byte) {
	h.mu.Lock()
	subs := append([]chan *session.BroadcastMessage(nil), h.subs[topic]...)
	h.mu.Unlock()
	for _, ch := range subs {
		for _, pl := range [][]byte{payload, []byte("not-json (verif: sync marker)")} {
			select {
			case ch <- &session.BroadcastMessage{Topic: topic, Payload: pl}:
			case <-time.After(2 * time.Second):
			}
		}
	}
}

type bridge struct {
	hub    *hub
	nodeID string
}

func (b *bridge) BroadcastTunnelOpen(req *packet.TunnelOpenRequest, targetClientID int64) error {
	msg := session.TunnelOpenBroadcastMessage{Type: "tunnel_open", TunnelID: req.TunnelID, MappingID: req.MappingID,
		TargetClientID: targetClientID, SourceNodeID: b.nodeID, Timestamp: time.Now().Unix(),
		TargetHost: req.TargetHost, TargetPort: req.TargetPort, TargetNetwork: req.TargetNetwork}
	payload, err := json.Marshal(&msg)
	if err != nil {
		return err
	}
	b.hub.mu.Lock()
	b.hub.opened = append(b.hub.opened, msg)
	b.hub.mu.Unlock()
	b.hub.publish(broker.TopicTunnelOpen, payload)
	return nil
}
func (b *bridge) Subscribe(_ context.Context, topic string) (<-chan *session.BroadcastMessage, error) {
	ch := make(chan *session.BroadcastMessage)
	b.hub.mu.Lock()
	b.hub.subs[topic] = append(b.hub.subs[topic], ch)
	b.hub.mu.Unlock()
	return ch, nil
}
func (b *bridge) PublishMessage(_ context.Context, topic string, payload []byte) error {
	b.hub.publish(topic, payload)
	return nil
}
func (b *bridge) GetNodeID() string                                       { return b.nodeID }
func (b *bridge) NotifyTunnelReady(context.Context, string, string) error { return nil }
func (b *bridge) WaitForTunnelReady(ctx context.Context, _ string) (string, error) {
	<-ctx.Done()
	return "", ctx.Err()
}

// settle waits until every push a published broadcast leads to has reached its stream: a node that has a control
// connection for the broadcast's client id (and can read the mapping) sends asynchronously (two goroutines deep).
// Only the implementation's own state is consulted. A short grace period follows so that a push to anybody else
// would be seen as well.
func (w *world) settle() string {
	w.hub.mu.Lock()
	opened := append([]session.TunnelOpenBroadcastMessage(nil), w.hub.opened...)
	w.hub.mu.Unlock()
	if len(opened) == 0 {
		return ""
	}
	for _, msg := range opened {
		if _, err := w.cloud.GetPortMapping(msg.MappingID); err != nil {
			continue
		}
		for _, sm := range w.sms {
			cc := sm.GetControlConnectionByClientID(msg.TargetClientID)
			if cc == nil {
				continue
			}
			fs, ok := cc.Stream.(*fakeStream)
			if !ok {
				continue
			}
			deadline := time.Now().Add(5 * time.Second)
			if w.kase.faults != 0 {
				deadline = time.Now().Add(30 * time.Millisecond)
			}
			for {
				got := false
				for _, p := range fs.snapshot() {
					if p.ctype == packet.TunnelOpenRequestCmd {
						got = true
					}
				}
				if got {
					break
				}
				if time.Now().After(deadline) {
					if w.kase.faults != 0 {
						break // the receiving node's own read of the record may have been the one that failed: nothing is pushed
					}
					return "timeout-broadcast-delivery"
				}
				time.Sleep(50 * time.Microsecond)
			}
		}
	}
	time.Sleep(2 * time.Millisecond)
	return ""
}

func buildWorld(k *kase) (*world, error) {
	ctx, cancel := context.WithCancel(context.Background())
	w := &world{cancel: cancel, done: make(chan struct{}, 4), kase: k, hub: &hub{subs: map[string][]chan *session.BroadcastMessage{}}}
	// storage, cloud control and services are shared by all nodes (one deployment)
	mem, ok := storage.NewMemoryStorage(ctx).(*storage.MemoryStorage)
	if !ok {
		return nil, fmt.Errorf("memory storage has an unexpected concrete type")
	}
	stor := &flakyStorage{MemoryStorage: mem}
	w.stor = stor
	repo := repos.NewRepository(stor)
	cc := factories.NewBuiltinCloudControlWithRepo(ctx, managers.DefaultConfig(), stor, repo)
	w.cloud = cc
	skmOnce.Do(func() {
		theSKM, errSKM = security.NewSecretKeyManager(&security.SecretKeyConfig{MasterKey: masterKey})
	})
	if errSKM != nil {
		return nil, errSKM
	}
	w.skm = theSKM
	w.clients = map[int64]bool{}
	w.loginsOf = map[int]int{}
	w.cfgRepo = repos.NewClientConfigRepository(repo)
	idm := idgen.NewIDManager(stor, ctx)
	w.pmRepo = repos.NewPortMappingRepo(repo)
	w.ccRepo = repos.NewConnectionCodeRepository(repo)
	w.domRepo = repos.NewHTTPDomainMappingRepository(repo, []string{"tunnox.net"})
	pms := cc.GetPortMappingService()
	ccs := services.NewConnectionCodeService(w.ccRepo, pms, w.pmRepo, nil, ctx)
	nNodes := 1
	for _, c := range k.conns {
		if c.node+1 > nNodes {
			nNodes = c.node + 1
		}
	}
	for n := 0; n < nNodes; n++ {
		sm := session.NewSessionManager(idm, ctx)
		w.sms = append(w.sms, sm)
		sm.SetCloudControl(session.NewCloudControlAdapter(cc))
		sm.SetNodeID(fmt.Sprintf("verif-node-%d", n))
		if k.bridge {
			sm.SetBridgeManager(&bridge{hub: w.hub, nodeID: fmt.Sprintf("verif-node-%d", n)})
		}
		if k.xnode {
			// the cross-node machinery of a multi-node deployment: client locations in the shared store, a listener for
			// frames from other nodes, a pool of connections to them
			nodeID := fmt.Sprintf("verif-node-%d", n)
			sm.SetConnectionStateStore(session.NewConnectionStateStore(stor, nodeID, time.Minute))
			l := session.NewCrossNodeListener(sm, 0)
			if err := l.Start(ctx); err != nil {
				return nil, fmt.Errorf("cross-node listener: %w", err)
			}
			w.cleanup = append(w.cleanup, func() { _ = l.Stop() })
			_, port, err := net.SplitHostPort(l.VerifAddr())
			if err != nil {
				return nil, err
			}
			if err := stor.Set("tunnox:node:"+nodeID+":addr", net.JoinHostPort("127.0.0.1", port), 0); err != nil {
				return nil, err
			}
			cfg := session.DefaultCrossNodePoolConfig()
			cfg.MinConns, cfg.MaxConns, cfg.DialTimeout = 0, 2, 2*time.Second
			pool := session.NewCrossNodePool(ctx, stor, nodeID, cfg)
			w.cleanup = append(w.cleanup, func() { pool.Close() })
			sm.SetCrossNodePool(pool)
		}
		auth := server.NewServerAuthHandler(cc, sm, nil, nil, nil, w.skm)
		sm.SetAuthHandler(&authTap{real: auth, w: w})

		// the command table: every handler constructor of the anchored packages
		registry := command.NewCommandRegistry(ctx)
		command.RegisterDefaultHandlers(registry)
		if err := server.NewConnectionCodeCommandHandlers(ccs, sm).RegisterHandlers(registry); err != nil {
			return nil, err
		}
		if err := server.NewConfigCommandHandlers(auth, sm).RegisterHandlers(registry); err != nil {
			return nil, err
		}
		if err := server.NewMappingCommandHandlers(ccs, sm).RegisterHandlers(registry); err != nil {
			return nil, err
		}
		if err := server.NewHTTPDomainCommandHandlers(sm, w.domRepo).RegisterHandlers(registry); err != nil {
			return nil, err
		}
		if err := registry.Register(command.NewNotifyClientAckHandler()); err != nil {
			return nil, err
		}
		if err := registry.Register(command.NewSendNotifyToClientHandler(sm.VerifNotificationService())); err != nil {
			return nil, err
		}
		ex := command.NewCommandExecutor(registry, ctx)
		ex.SetSession(sm)
		ex.AddMiddleware(&doneMW{ch: w.done})
		if !k.noExec {
			if err := sm.SetCommandExecutor(ex); err != nil {
				return nil, err
			}
		}
	}

	// objects
	for _, m := range k.maps {
		pm := &models.PortMapping{ListenClientID: m.listen, TargetClientID: m.target, Protocol: models.ProtocolTCP,
			SourcePort: 9000, TargetHost: "10.0.0.1", TargetPort: 80, ListenAddress: "127.0.0.1:9000",
			TargetAddress: "tcp://10.0.0.1:80", Status: models.MappingStatusInactive, Type: models.MappingTypeAnonymous}
		if m.socks {
			pm.Protocol = models.ProtocolSOCKS
			pm.TargetAddress = "socks5://0.0.0.0:0"
		}
		if m.active {
			pm.Status = models.MappingStatusActive
		}
		created, err := pms.CreatePortMapping(pm)
		if err != nil {
			return nil, fmt.Errorf("create mapping: %w", err)
		}
		w.mapIDs = append(w.mapIDs, created.ID)
		w.mapKeys = append(w.mapKeys, created.SecretKey)
	}
	for i, c := range k.codes {
		code, err := ccs.CreateConnectionCode(&services.CreateConnectionCodeRequest{TargetClientID: c.target,
			TargetAddress: "tcp://10.0.0.2:22", CreatedBy: "verif"})
		if err != nil {
			return nil, fmt.Errorf("create code: %w", err)
		}
		if c.by >= 2 {
			// the real history: client `by` activates the code; the mapping by -> target it creates joins the world's
			// mappings (after the listed ones, in the order of the codes)
			pm, err := ccs.ActivateConnectionCode(&services.ActivateConnectionCodeRequest{Code: code.Code, ListenClientID: c.by,
				ListenAddress: fmt.Sprintf("127.0.0.1:%d", 9200+i)})
			if err != nil {
				return nil, fmt.Errorf("activate code: %w", err)
			}
			w.mapIDs = append(w.mapIDs, pm.ID)
			w.mapKeys = append(w.mapKeys, pm.SecretKey)
		} else if c.activated {
			// mark as used by a client outside the cast, without creating a mapping
			if err := code.Activate(999999, fmt.Sprintf("pm_used_%d", i)); err != nil {
				return nil, err
			}
			if err := w.ccRepo.Update(code); err != nil {
				return nil, err
			}
		}
		w.codes = append(w.codes, code.Code)
		w.codeIDs = append(w.codeIDs, code.ID)
	}
	for i, owner := range k.doms {
		sub := fmt.Sprintf("taken%d", i)
		dm, err := w.domRepo.CreateMapping(ctx, owner, sub, "tunnox.net", "10.0.0.3", 8080)
		if err != nil {
			return nil, fmt.Errorf("create domain: %w", err)
		}
		w.domIDs = append(w.domIDs, dm.ID)
		w.domSubs = append(w.domSubs, sub)
	}
	// connections
	for i, c := range k.conns {
		fs := &fakeStream{}
		w.streams = append(w.streams, fs)
		if err := w.sms[c.node].VerifAddConnection(connID(i), fs, false, 0); err != nil {
			return nil, err
		}
	}
	for i, c := range k.conns {
		if err := w.establish(i, c); err != nil {
			return nil, fmt.Errorf("conn %d: %w", i, err)
		}
	}
	if err := w.settleLogins(); err != nil {
		return nil, err
	}
	// connections that are already gone before the command (an earlier login of the same client on the same node
	// loses its control connection when the client logs in again)
	w.gone0 = map[int]bool{}
	for i := range k.conns {
		if w.isGone(i) {
			w.gone0[i] = true
		}
	}
	// a client that receives a forwarded DNS request answers it at once (from its own connection)
	for i := range k.conns {
		i := i
		w.streams[i].onWrite = func(p *packet.TransferPacket) {
			if p.CommandPacket == nil || p.PacketType.IsCommandResp() {
				return
			}
			ct := p.CommandPacket.CommandType
			if ct != packet.DNSResolve && ct != packet.DNSQuery {
				return
			}
			body := `{"success":true,"ips":["192.0.2.1"],"ttl":60}`
			if ct == packet.DNSQuery {
				body = `{"query_id":"q1","success":true,"raw_answer":"AAE="}`
			}
			id := p.CommandPacket.CommandId
			go func() {
				_ = w.smOf(i).HandlePacket(&types.StreamPacket{ConnectionID: connID(i), Packet: &packet.TransferPacket{
					PacketType: packet.CommandResp, CommandPacket: &packet.CommandPacket{CommandType: ct, CommandId: id, CommandBody: body}}})
			}()
		}
	}
	return w, nil
}

// semantic snapshot of the client-owned state
type snap struct {
	maps  map[string]string // id -> listen:target:status:sent:recv
	codes map[string]string // id -> target:activated:revoked:mapping
	doms  map[string]string // id -> owner:full
	mapLT map[string]string // id -> listen:target
	raw   map[string][]byte // id -> the whole record as JSON
	codeT map[string]string
	domO  map[string]string
}

func (w *world) snapshot(ids []int64) snap {
	s := snap{maps: map[string]string{}, codes: map[string]string{}, doms: map[string]string{},
		mapLT: map[string]string{}, codeT: map[string]string{}, domO: map[string]string{}, raw: map[string][]byte{}}
	ms, _ := w.pmRepo.ListAllMappings()
	for _, m := range ms {
		s.maps[m.ID] = fmt.Sprintf("%d:%d:%s:%d:%d:%v:listed", m.ListenClientID, m.TargetClientID, m.Status,
			m.TrafficStats.BytesSent, m.TrafficStats.BytesReceived, m.IsRevoked)
		s.mapLT[m.ID] = fmt.Sprintf("%d:%d", m.ListenClientID, m.TargetClientID)
		s.raw[m.ID], _ = json.Marshal(m)
	}
	// mappings removed from the global list but still stored would be missed: look the known ones up directly
	for _, id := range w.mapIDs {
		if _, ok := s.maps[id]; !ok {
			if m, err := w.pmRepo.GetPortMapping(id); err == nil && m != nil {
				s.maps[m.ID] = fmt.Sprintf("%d:%d:%s:%d:%d:%v", m.ListenClientID, m.TargetClientID, m.Status,
					m.TrafficStats.BytesSent, m.TrafficStats.BytesReceived, m.IsRevoked)
				s.mapLT[m.ID] = fmt.Sprintf("%d:%d", m.ListenClientID, m.TargetClientID)
			}
		}
	}
	for _, id := range ids {
		cs, _ := w.ccRepo.ListByTargetClient(id)
		for _, c := range cs {
			mid := ""
			if c.MappingID != nil {
				mid = *c.MappingID
			}
			s.codes[c.ID] = fmt.Sprintf("%d:%v:%v:%s", c.TargetClientID, c.IsActivated, c.IsRevoked, mid)
			s.codeT[c.ID] = fmt.Sprintf("%d", c.TargetClientID)
			s.raw[c.ID], _ = json.Marshal(c)
		}
	}
	ds, _ := w.domRepo.ListAllMappings(context.Background())
	for _, d := range ds {
		s.doms[d.ID] = fmt.Sprintf("%d:%s:%s", d.ClientID, d.FullDomain, d.Status)
		s.domO[d.ID] = fmt.Sprintf("%d", d.ClientID)
		s.raw[d.ID], _ = json.Marshal(d)
	}
	for _, id := range w.domIDs {
		if _, ok := s.doms[id]; !ok {
			if d, err := w.domRepo.GetMapping(context.Background(), id); err == nil && d != nil {
				s.doms[d.ID] = fmt.Sprintf("%d:%s:%s", d.ClientID, d.FullDomain, d.Status)
				s.domO[d.ID] = fmt.Sprintf("%d", d.ClientID)
			}
		}
	}
	return s
}

// resolveClaim: a claimed SenderId / ReceiverId / Token may name something that exists in the world — `@c<i>` the
// connection id of connection i (e.g. another client's live control connection), `@m<i>` / `@s<i>` the id / secret key
// of mapping i, `@k<i>` connection code i, `@d<i>` the id of domain mapping i; anything else is taken literally.
func (w *world) resolveClaim(v string) string {
	if len(v) < 3 || v[0] != '@' {
		return v
	}
	i, err := strconv.Atoi(v[2:])
	if err != nil || i < 0 {
		return v
	}
	pick := func(xs []string) string {
		if i < len(xs) {
			return xs[i]
		}
		return v
	}
	switch v[1] {
	case 'c':
		if i < len(w.streams) {
			return connID(i)
		}
	case 'm':
		return pick(w.mapIDs)
	case 's':
		return pick(w.mapKeys)
	case 'k':
		return pick(w.codes)
	case 'd':
		return pick(w.domIDs)
	}
	return v
}

// reClaim replaces the claimed header fields of a case string.
func reClaim(cs, snd, rcv, tok string) string {
	t := strings.Fields(cs)
	if len(t) > 11 {
		t[7], t[9], t[11] = snd, rcv, tok
	}
	return strings.Join(t, " ")
}

func (w *world) refOf(id string) string {
	if i := idx(w.mapIDs, id); i >= 0 {
		return fmt.Sprintf("m%d", i)
	}
	if i := idx(w.mapKeys, id); i >= 0 && id != "" {
		return fmt.Sprintf("key%d", i)
	}
	if i := idx(w.codeIDs, id); i >= 0 {
		return fmt.Sprintf("c%d", i)
	}
	if i := idx(w.codes, id); i >= 0 {
		return fmt.Sprintf("code%d", i)
	}
	if i := idx(w.domIDs, id); i >= 0 {
		return fmt.Sprintf("d%d", i)
	}
	return ""
}

func volatileKey(k string) bool {
	switch k {
	case "id", "code", "secret_key", "notify_id", "timestamp", "last_updated", "command_id", "request_id":
		return true
	}
	return strings.HasSuffix(k, "_at") || strings.Contains(k, "expire") || strings.Contains(k, "time")
}

func (w *world) canon(v any, newIDs map[string]bool) any {
	switch x := v.(type) {
	case map[string]any:
		out := map[string]any{}
		for k, val := range x {
			if !volatileKey(k) {
				out[k] = w.canon(val, newIDs)
			}
		}
		return out
	case []any:
		// order-insensitive: lists built by ranging over Go maps (e.g. a client's mappings) come in any order
		type kv struct {
			k string
			v any
		}
		items := make([]kv, len(x))
		for i := range x {
			v := w.canon(x[i], newIDs)
			b, _ := json.Marshal(v)
			items[i] = kv{string(b), v}
		}
		sort.SliceStable(items, func(a, b int) bool { return items[a].k < items[b].k })
		out := make([]any, len(x))
		for i := range items {
			out[i] = items[i].v
		}
		return out
	case string:
		if r := w.refOf(x); r != "" {
			return "@" + r
		}
		if newIDs[x] {
			return "@new"
		}
		if strings.HasPrefix(x, "{") {
			var inner any
			if json.Unmarshal([]byte(x), &inner) == nil {
				return w.canon(inner, newIDs)
			}
		}
		return x
	}
	return v
}

func (w *world) digest(raw []byte, newIDs map[string]bool) string {
	var v any
	if json.Unmarshal(raw, &v) != nil {
		sum := sha1.Sum(raw)
		return "raw" + hex.EncodeToString(sum[:4])
	}
	b, _ := json.Marshal(w.canon(v, newIDs))
	sum := sha1.Sum(b)
	return hex.EncodeToString(sum[:4])
}

func idx(xs []string, x string) int {
	for i, y := range xs {
		if y == x {
			return i
		}
	}
	return -1
}

func diffOne(tag string, known []string, before, after, attr map[string]string, attrAfter map[string]string) []string {
	var out []string
	for id, v := range before {
		i := idx(known, id)
		ref := fmt.Sprintf("%s%d", tag, i)
		if i < 0 {
			ref = tag + "?" // an object the case did not create
		}
		nv, ok := after[id]
		if !ok {
			out = append(out, ref+"-")
		} else if nv != v {
			out = append(out, ref+"~")
		}
	}
	for id := range after {
		if _, ok := before[id]; !ok {
			out = append(out, "+"+tag+":"+attrAfter[id])
		}
	}
	_ = attr
	return out
}

func joinOr(xs []string) string {
	if len(xs) == 0 {
		return "-"
	}
	sort.Strings(xs)
	return strings.Join(xs, ",")
}

// ---------------------------------------------------------------- the command packet

// identityKeys: every identity-like JSON key some struct of the server can decode (client / sender / user / owner /
// creator / connection / node ids). The same list is regenerated from the struct tags by the extractor
// (Gen.c11.identityKeys); the Lean driver rejects a case whose key list differs from the regenerated one, and
// theorem C11_identity_keys pins it.
var identityKeys = []string{"activated_by:n", "by_client_id:n", "client_id:n", "conn_id:s", "connection_id:s", "created_by:s",
	"listen_client_id:n", "new_node_id:s", "node_id:s", "peer_client_id:n", "platform_user_id:n", "revoked_by:s",
	"sender_client_id:n", "source_conn_id:s", "source_node_id:s", "target_client_id:n", "target_node_id:s", "user_id:s"}

// withExtras marks a case: the body additionally carries every identity-like key (unless the documented body already
// has it) with the foreign client id v (string-typed keys: "client-<v>").
func withExtras(cs string, v int64) string {
	return strings.Replace(cs, " W ", fmt.Sprintf(" e %d %s W ", v, strings.Join(identityKeys, ",")), 1)
}

func (w *world) body(k *kase) string {
	b := w.body0(k)
	if k.extra == 0 || k.bad {
		return b
	}
	var m map[string]any
	if json.Unmarshal([]byte(b), &m) != nil {
		return b
	}
	for _, ks := range k.extraKey {
		p := strings.SplitN(ks, ":", 2)
		if len(p) != 2 {
			continue
		}
		if _, has := m[p[0]]; has {
			continue
		}
		if p[1] == "s" {
			m[p[0]] = fmt.Sprintf("client-%d", k.extra)
		} else {
			m[p[0]] = k.extra
		}
	}
	out, _ := json.Marshal(m)
	return string(out)
}

func (w *world) body0(k *kase) string {
	if k.bad {
		return `{"mapping_id":`
	}
	mid := ""
	switch {
	case k.m >= 0 && k.m < len(w.mapIDs):
		mid = w.mapIDs[k.m]
	case k.m == -2:
		mid = "pm_bogus"
	}
	code := ""
	switch {
	case k.k >= 0 && k.k < len(w.codes):
		code = w.codes[k.k]
	case k.k == -2:
		code = "bog-bog-bog"
	}
	did, sub := "", "fresh"
	switch {
	case k.d >= 0 && k.d < len(w.domIDs):
		did, sub = w.domIDs[k.d], w.domSubs[k.d]
	case k.d == -2:
		did = "hdm_bogus"
	}
	j := func(v any) string { b, _ := json.Marshal(v); return string(b) }
	switch packet.CommandType(k.ctype) {
	case packet.ConnectionCodeGenerate:
		return j(map[string]any{"target_address": "tcp://10.0.0.9:443", "activation_ttl": 600, "mapping_ttl": 3600})
	case packet.ConnectionCodeActivate:
		return j(map[string]any{"code": code, "listen_address": "127.0.0.1:9100"})
	case packet.MappingList:
		return `{}`
	case packet.MappingGet, packet.MappingDelete:
		return j(map[string]any{"mapping_id": mid})
	case packet.HTTPDomainCheckSubdomain:
		return j(map[string]any{"subdomain": sub, "base_domain": "tunnox.net"})
	case packet.HTTPDomainGenSubdomain:
		return j(map[string]any{"base_domain": "tunnox.net"})
	case packet.HTTPDomainCreate:
		return j(map[string]any{"target_url": "http://10.0.0.4:8080", "subdomain": sub, "base_domain": "tunnox.net"})
	case packet.HTTPDomainDelete:
		return j(map[string]any{"mapping_id": did})
	case packet.SOCKS5TunnelRequestCmd:
		return j(map[string]any{"tunnel_id": "tun-verif", "mapping_id": mid, "target_client_id": k.g, "target_host": "example.test", "target_port": 443, "protocol": "tcp"})
	case packet.TunnelTrafficReport:
		return j(map[string]any{"mapping_id": mid, "bytes_sent": 1000, "bytes_received": 500, "connections": 1})
	case packet.DNSResolve:
		if k.resp {
			return `{"success":true,"ips":["203.0.113.7"],"ttl":60}`
		}
		return j(map[string]any{"domain": "example.test", "qtype": 1, "target_client_id": k.g})
	case packet.DNSQuery:
		if k.resp {
			return `{"query_id":"q1","success":true,"raw_answer":"AAE="}`
		}
		return j(map[string]any{"query_id": "q1", "target_client_id": k.g, "dns_server": "192.0.2.53:53", "raw_query": "AAE="})
	case packet.SendNotifyToClient:
		return j(map[string]any{"target_client_id": k.g, "type": 1, "payload": "{}", "priority": 1})
	case packet.NotifyClientAck:
		return `{"notify_id":"n1","received":true}`
	case packet.RpcInvoke:
		return `{"method":"m"}`
	case packet.HTTPProxyResponse:
		return `{"request_id":"no-such-request","status_code":200}`
	}
	// any other command type (not in the model's table): a generic body naming every kind of object, so that a
	// handler added for it later and reading any of these fields has something to act on
	return j(map[string]any{"mapping_id": mid, "target_client_id": k.g, "code": code, "listen_address": "127.0.0.1:9100",
		"target_address": "tcp://10.0.0.9:443", "bytes_sent": 1000, "bytes_received": 500, "subdomain": sub,
		"base_domain": "tunnox.net", "target_url": "http://10.0.0.4:8080", "domain": "example.test", "query_id": "q1",
		"tunnel_id": "tun-verif", "type": 1, "payload": "{}"})
}

func clientIDs(k *kase) []int64 {
	seen := map[int64]bool{}
	var out []int64
	add := func(v int64) {
		if !seen[v] {
			seen[v] = true
			out = append(out, v)
		}
	}
	add(0)
	for _, c := range k.conns {
		add(c.cid)
	}
	for _, m := range k.maps {
		add(m.listen)
		add(m.target)
	}
	for _, c := range k.codes {
		add(c.target)
		add(c.by)
	}
	for _, d := range k.doms {
		add(d)
	}
	add(atoi64(k.snd))
	add(atoi64(k.rcv))
	add(atoi64(k.tok))
	add(k.g)
	return out
}

func runOnce(k *kase, claimed bool) string {
	res := make(chan string, 1)
	go func() {
		defer func() {
			if r := recover(); r != nil {
				res <- "panic " + strings.ReplaceAll(fmt.Sprint(r), " ", "_")
			}
		}()
		if !claimed {
			kk := *k
			kk.extra = 0
			if !addressedType(k) {
				kk.g = 0
			}
			k = &kk
		}
		w, err := buildWorld(k)
		if err != nil {
			res <- "setup-error " + strings.ReplaceAll(err.Error(), " ", "_")
			return
		}
		defer w.cancel()
		defer func() {
			for _, f := range w.cleanup {
				f()
			}
		}()
		ids := clientIDs(k)
		before := w.snapshot(ids)
		cmd := &packet.CommandPacket{CommandType: packet.CommandType(k.ctype), CommandId: fmt.Sprintf("cmd-verif-%d", atomic.AddInt64(&cmdSeq, 1)), CommandBody: w.body(k)}
		if claimed {
			if k.snd != "0" {
				cmd.SenderId = w.resolveClaim(k.snd)
			}
			if k.rcv != "0" {
				cmd.ReceiverId = w.resolveClaim(k.rcv)
			}
			if k.tok != "-" {
				cmd.Token = w.resolveClaim(k.tok)
			}
		}
		pt := packet.JsonCommand
		if k.resp {
			pt = packet.CommandResp
		}
		if k.faults != 0 && k.m >= 0 && k.m < len(w.mapIDs) {
			w.stor.arm(constants.KeyPrefixPortMapping+":"+w.mapIDs[k.m], k.faults)
		}
		send := func() error {
			if k.direct {
				_, e := w.smOf(k.from).ProcessCommand(connID(k.from), cmd)
				return e
			}
			return w.smOf(k.from).HandlePacket(&types.StreamPacket{ConnectionID: connID(k.from), Timestamp: time.Now(),
				Packet: &packet.TransferPacket{PacketType: pt, CommandPacket: cmd}})
		}
		stalled := false
		concurrent := k.conc >= 0 && k.conc < len(k.conns) && k.conc != k.from && k.rounds > 0 && readOnlyType(k) && !k.noExec
		if gk := w.stallKey(k); gk != "" && k.stall >= 0 && k.stall < len(k.conns) && k.stall != k.from {
			stalled, err = w.runStalled(k, gk, send)
		} else if concurrent {
			// two (and two more) goroutines: the command from its connection, the same command type from connection k.conc,
			// over and over at the same time; every answer is judged
			var stop int32
			var wg sync.WaitGroup
			other := func() {
				defer wg.Done()
				for atomic.LoadInt32(&stop) == 0 {
					_ = w.smOf(k.conc).HandlePacket(&types.StreamPacket{ConnectionID: connID(k.conc), Timestamp: time.Now(),
						Packet: &packet.TransferPacket{PacketType: packet.JsonCommand, CommandPacket: &packet.CommandPacket{
							CommandType: packet.CommandType(k.ctype), CommandId: fmt.Sprintf("cmd-conc-%d", atomic.AddInt64(&cmdSeq, 1)),
							CommandBody: cmd.CommandBody}}})
				}
			}
			const side = 12 // goroutines per connection
			wg.Add(side)
			for g := 0; g < side; g++ {
				go other()
			}
			var wg2 sync.WaitGroup
			var errMu sync.Mutex
			for g := 0; g < side; g++ {
				wg2.Add(1)
				go func() {
					defer wg2.Done()
					for r := 0; r < k.rounds/side+1; r++ {
						if e := send(); e != nil {
							errMu.Lock()
							err = e
							errMu.Unlock()
						}
					}
				}()
			}
			wg2.Wait()
			atomic.StoreInt32(&stop, 1)
			wg.Wait()
		} else {
			err = send()
		}
		ret := "1"
		if err != nil {
			ret = "0"
		}
		// one-way registry handlers run in a goroutine: wait until the handler has returned
		if ce := w.smOf(k.from).GetCommandExecutor(); ce == nil {
			// no executor: nothing runs asynchronously
		} else if h, ok := ce.GetRegistry().GetHandler(packet.CommandType(k.ctype)); ok && err == nil &&
			h.GetDirection() == types.DirectionOneway && (k.direct || !specialCased(k)) {
			select {
			case <-w.done:
			case <-time.After(5 * time.Second):
				res <- "timeout-oneway"
				return
			}
		}
		w.stor.arm("", 0)
		if msg := w.settle(); msg != "" {
			res <- msg
			return
		}
		after := w.snapshot(ids)

		// response class: the CommandResp packets the origin connection received
		rsp := "n"
		var respText strings.Builder
		for _, p := range w.streams[k.from].snapshot() {
			respText.WriteString(p.body)
			respText.WriteString("\n")
			if !p.ptype.IsCommandResp() {
				continue // a command pushed to the origin itself: listed under dlv
			}
			var m map[string]any
			ok := false
			if json.Unmarshal([]byte(p.body), &m) == nil {
				if b, isb := m["success"].(bool); isb {
					ok = b
				}
			}
			if ok {
				rsp = "o"
			} else if rsp == "n" {
				rsp = "f"
			}
		}
		// view: pre-existing objects whose identifier / secret shows up in what the origin received
		var view []string
		txt := respText.String()
		for i, id := range w.mapIDs {
			if strings.Contains(txt, `"`+id+`"`) || (w.mapKeys[i] != "" && strings.Contains(txt, w.mapKeys[i])) {
				view = append(view, fmt.Sprintf("m%d", i))
			}
		}
		for i, c := range w.codes {
			if strings.Contains(txt, c) {
				view = append(view, fmt.Sprintf("c%d", i))
			}
		}
		for i, id := range w.domIDs {
			if strings.Contains(txt, `"`+id+`"`) {
				view = append(view, fmt.Sprintf("d%d", i))
			}
		}
		var chg []string
		chg = append(chg, diffOne("m", w.mapIDs, before.maps, after.maps, before.mapLT, after.mapLT)...)
		chg = append(chg, diffOne("c", w.codeIDs, before.codes, after.codes, before.codeT, after.codeT)...)
		chg = append(chg, diffOne("d", w.domIDs, before.doms, after.doms, before.domO, after.domO)...)
		var dlv, gone []string
		secondRespSeen := false
		concLeak := false
		for i, fs := range w.streams {
			{
				for _, p := range fs.snapshot() {
					if p.ptype.IsCommandResp() {
						if concurrent && i == k.conc {
							// the other connection's own answers: judged against ITS client (a leak is reported as a delivery)
							if w.leaksTo(k, i, p.body) && !concLeak {
								concLeak = true
								dlv = append(dlv, fmt.Sprintf("%d:leak:-", i))
							}
							continue
						}
						if stalled && i == k.stall && !secondRespSeen {
							secondRespSeen = true // the second command's own answer
							continue
						}
						if i != k.from {
							dlv = append(dlv, fmt.Sprintf("%d:resp%d:-", i, p.ctype)) // a response sent to someone who did not ask
						}
						continue
					}
					sender := "-"
					var m map[string]any
					if json.Unmarshal([]byte(p.body), &m) == nil {
						if v, ok := m["sender_client_id"].(float64); ok {
							sender = strconv.FormatInt(int64(v), 10)
						}
					}
					dlv = append(dlv, fmt.Sprintf("%d:%d:%s", i, p.ctype, sender))
				}
			}
			if w.isGone(i) && !w.gone0[i] {
				gone = append(gone, strconv.Itoa(i))
			}
		}
		if stalled {
			// the synchronous wait gave up (timeout error) although the handler went on: report what the command came to
			switch rsp {
			case "o":
				ret = "1"
			case "f":
				ret = "0"
			}
		}
		// digests: every payload pushed to a connection and every stored record created or changed, all fields,
		// volatile ones (random ids, secrets, times) removed and the world's ids replaced by their references
		newIDs := map[string]bool{}
		for id := range after.raw {
			if _, ok := before.raw[id]; !ok {
				newIDs[id] = true
			}
		}
		var dig []string
		for i, fs := range w.streams {
			for _, p := range fs.snapshot() {
				if !p.ptype.IsCommandResp() {
					dig = append(dig, fmt.Sprintf("p%d.%d.%s", i, p.ctype, w.digest([]byte(p.body), newIDs)))
				}
			}
		}
		for id, raw := range after.raw {
			if old, ok := before.raw[id]; !ok || string(old) != string(raw) {
				ref := w.refOf(id)
				if ref == "" {
					ref = "new"
				}
				dig = append(dig, fmt.Sprintf("s%s.%s", ref, w.digest(raw, newIDs)))
			}
		}
		res <- fmt.Sprintf("ret %s rsp %s view %s chg %s dlv %s gone %s dig %s", ret, rsp, joinOr(view), joinOr(chg), joinOr(dlv), joinOr(gone), joinOr(dig))
	}()
	select {
	case s := <-res:
		return s
	case <-time.After(30 * time.Second):
		return "timeout"
	}
}

// command types that handleCommandPacket takes before the executor (for the one-way wait only)
func specialCased(k *kase) bool {
	switch packet.CommandType(k.ctype) {
	case packet.SOCKS5TunnelRequestCmd, packet.DNSResolve, packet.DNSQuery, packet.TunnelTrafficReport, packet.Disconnect:
		return true
	case packet.HTTPProxyResponse:
		return k.resp
	}
	return false
}

// execCase queues a case; the queue is run by a few workers (every case builds its own world) and printed in order.
func execCase(out *vc.Out, caseStr string) { queue = append(queue, caseStr) }

type caseResult struct {
	line, obs, key string
	counts         []string
}

var queue []string
var cmdSeq int64

func flushQueue(out *vc.Out) {
	res := make([]caseResult, len(queue))
	var wg sync.WaitGroup
	next := int64(-1)
	workers := runtime.NumCPU()
	if workers > 6 {
		workers = 6
	}
	for wk := 0; wk < workers; wk++ {
		wg.Add(1)
		go func() {
			defer wg.Done()
			for {
				i := int(atomic.AddInt64(&next, 1))
				if i >= len(queue) {
					return
				}
				res[i] = runCase(queue[i])
			}
		}()
	}
	wg.Wait()
	for _, r := range res {
		for _, c := range r.counts {
			out.Count(c)
		}
		out.Case(r.line, r.obs, r.key)
	}
	queue = nil
}

func runCase(caseStr string) (cr caseResult) {
	key := ""
	if strings.HasPrefix(caseStr, "K:") {
		sp := strings.SplitN(caseStr, " ", 2)
		key, caseStr = sp[0]+" ", sp[1]
	}
	if strings.HasPrefix(caseStr, "x ") {
		caseStr = "c " + caseStr[2:]
	}
	k, err := parseCase(caseStr)
	if err != nil {
		return caseResult{line: key + caseStr, obs: "bad-case"}
	}
	a := runOnce(k, true)
	b := a
	if ambiguousDefaultTarget(k) {
		// excluded point of the correspondence: which of several default DNS targets is used depends on Go's map
		// iteration order inside GetClientPortMappings; the case is marked `x`, judged by the property predicate
		// only, and not run a second time (two runs may legitimately differ)
		return caseResult{line: key + "x " + caseStr[2:], obs: a + " ~ " + b, key: caseStr, counts: []string{"excluded-point:ambiguous-default-dns-target"}}
	}
	if k.snd != "0" || k.rcv != "0" || k.tok != "-" || k.extra != 0 || (k.g != 0 && !addressedType(k)) {
		b = runOnce(k, false)
	}
	if k.xnode && !xnSimple(k) {
		// with the cross-node machinery the model assumes one single-step connection per client (where a client is found
		// is then unambiguous); other worlds are judged by the predicate only
		return caseResult{line: key + "x " + caseStr[2:], obs: a + " ~ " + b, key: caseStr, counts: []string{"excluded-point:cross-node-world-not-simple"}}
	}
	if k.direct {
		// SessionManager.ProcessCommand hands the packet to the executor without the special cases of handleCommandPacket:
		// not modelled, judged by the property predicate only
		return caseResult{line: key + "x " + caseStr[2:], obs: a + " ~ " + b, key: caseStr, counts: []string{"excluded-point:entry-ProcessCommand"}}
	}
	if k.faults != 0 && !faultModelled(k) {
		// read faults are modelled for the commands that look one named mapping up; for every other command the case
		// is an excluded point of the model comparison and is judged by the property predicate only
		return caseResult{line: key + "x " + caseStr[2:], obs: a + " ~ " + b, key: caseStr, counts: []string{"excluded-point:read-fault-unmodelled-command"}}
	}
	return caseResult{line: key + caseStr, obs: a + " ~ " + b, key: caseStr}
}

func xnSimple(k *kase) bool {
	seen := map[int64]bool{}
	for _, c := range k.conns {
		if len(c.steps) != 1 {
			return false
		}
		if c.kind == 'A' && c.cid > 0 {
			if seen[c.cid] {
				return false
			}
			seen[c.cid] = true
		}
	}
	return k.faults == 0
}

func faultModelled(k *kase) bool {
	switch packet.CommandType(k.ctype) {
	case packet.MappingGet, packet.MappingDelete, packet.TunnelTrafficReport:
		return true
	case packet.SOCKS5TunnelRequestCmd:
		return !k.bridge // on the broadcast path every receiving node reads the record again
	}
	return false
}

// withFaults marks a case: the reads of the named mapping's record fail as the plan says.
func withFaults(cs string, plan int) string {
	if plan == 0 {
		return cs
	}
	return strings.Replace(cs, " W ", fmt.Sprintf(" q %d W ", plan), 1)
}

// readOnlyType: commands that only read (safe to repeat and to run concurrently with themselves)
func readOnlyType(k *kase) bool {
	switch packet.CommandType(k.ctype) {
	case packet.ConfigGet, packet.MappingList, packet.MappingGet, packet.HTTPDomainList, packet.ConnectionCodeList:
		return !k.bad && !k.resp && !k.direct
	}
	return false
}

// leaksTo: does this text show connection i the id / secret of a mapping, the code or the domain id of an object its client
// is no party of?
func (w *world) leaksTo(k *kase, i int, txt string) bool {
	id := k.conns[i].cid
	if k.conns[i].kind != 'A' {
		id = 0
	}
	for j, m := range k.maps {
		if j < len(w.mapIDs) && (id == 0 || (m.listen != id && m.target != id)) &&
			(strings.Contains(txt, `"`+w.mapIDs[j]+`"`) || (w.mapKeys[j] != "" && strings.Contains(txt, w.mapKeys[j]))) {
			return true
		}
	}
	for j, c := range k.codes {
		if j < len(w.codes) && (id == 0 || c.target != id) && strings.Contains(txt, w.codes[j]) {
			return true
		}
	}
	for j, o := range k.doms {
		if j < len(w.domIDs) && (id == 0 || o != id) && strings.Contains(txt, `"`+w.domIDs[j]+`"`) {
			return true
		}
	}
	return false
}

// stallKey: the storage key whose first access holds the command's handler (commands that name one object).
func (w *world) stallKey(k *kase) string {
	if k.bad || k.resp || k.direct || k.noExec {
		return ""
	}
	switch packet.CommandType(k.ctype) {
	case packet.MappingGet, packet.MappingDelete:
		if k.m >= 0 && k.m < len(w.mapIDs) {
			return constants.KeyPrefixPortMapping + ":" + w.mapIDs[k.m]
		}
	case packet.HTTPDomainDelete:
		if k.d >= 0 && k.d < len(w.domIDs) {
			return repos.HTTPDomainMappingKey(w.domIDs[k.d])
		}
	case packet.HTTPDomainCreate:
		sub := "fresh"
		if k.d >= 0 && k.d < len(w.domSubs) {
			sub = w.domSubs[k.d]
		}
		return repos.HTTPDomainIndexKey(sub + ".tunnox.net")
	}
	return ""
}

func (w *world) respCount() int {
	n := 0
	for _, fs := range w.streams {
		for _, p := range fs.snapshot() {
			if p.ptype.IsCommandResp() {
				n++
			}
		}
	}
	return n
}

func (w *world) waitResp(n int) {
	deadline := time.Now().Add(3 * time.Second)
	for w.respCount() < n && time.Now().Before(deadline) {
		runtime.Gosched()
	}
}

// runStalled drives the schedule: the command's handler blocks at its first access of key gk; the executor's RPC wait
// (shortened through the RPC manager's own setter) times out and HandlePacket returns; a second command (a subdomain
// check, itself held at a gate so that it is in flight) is sent from connection k.stall; then the first handler resumes
// and finishes, then the second. Returns whether the first handler really was held.
func (w *world) runStalled(k *kase, gk string, send func() error) (bool, error) {
	type rpcKnob interface{ VerifSetRPCTimeout(time.Duration) }
	setTimeout := func(d time.Duration) {
		for _, sm := range w.sms {
			if ce, ok := sm.GetCommandExecutor().(rpcKnob); ok {
				ce.VerifSetRPCTimeout(d)
			}
		}
	}
	setTimeout(25 * time.Millisecond)
	g1 := w.stor.armGate(gk)
	g2 := w.stor.armGate(repos.HTTPDomainIndexKey("second.tunnox.net"))
	base := w.respCount()
	ret := make(chan error, 1)
	ret2 := make(chan error, 1)
	held := make(chan bool, 1)
	// both commands are handed to the server by the same goroutine, back to back (as one reader loop would): the second is
	// dispatched right after the first one's synchronous wait has given up
	go func() {
		e := send()
		ret <- e
		if !<-held {
			return
		}
		ret2 <- w.smOf(k.stall).HandlePacket(&types.StreamPacket{ConnectionID: connID(k.stall), Timestamp: time.Now(),
			Packet: &packet.TransferPacket{PacketType: packet.JsonCommand, CommandPacket: &packet.CommandPacket{
				CommandType: packet.HTTPDomainCheckSubdomain, CommandId: fmt.Sprintf("cmd-second-%d", atomic.AddInt64(&cmdSeq, 1)),
				CommandBody: `{"subdomain":"second","base_domain":"tunnox.net"}`}}})
	}()
	entered := false
	select {
	case err := <-ret:
		// the wait is over before the gate was reached: either the command was refused before touching the object (no stall),
		// or — on a busy machine — the 25 ms wait gave up before the handler got that far: then it is still on its way
		if err == nil || !strings.Contains(err.Error(), "timeout") {
			held <- false
			w.stor.disarmGates()
			return false, err
		}
		deadline := time.Now().Add(5 * time.Second)
		for !entered && w.respCount() <= base && time.Now().Before(deadline) {
			select {
			case <-g1.entered:
				entered = true
			default:
				runtime.Gosched()
			}
		}
		if !entered {
			held <- false
			w.stor.disarmGates()
			return true, err // answered late, never held: report what the command came to
		}
		ret <- err
	case <-g1.entered:
	}
	// the first handler is held; its wait (25 ms) will give up. The second command gets a long wait: it is in flight, not
	// timed out, when the first handler resumes
	setTimeout(5 * time.Second)
	held <- true
	err := <-ret
	select {
	case <-g2.entered:
	case <-time.After(3 * time.Second):
	}
	close(g1.open)
	w.waitResp(base + 1)
	close(g2.open)
	select {
	case <-ret2:
	case <-time.After(6 * time.Second):
	}
	w.waitResp(base + 2)
	w.stor.disarmGates()
	return true, err
}

// addressedType: the commands whose body target_client_id is the addressee by protocol design (DNS forward,
// client-to-client notification). For every other command type — known or not — a client id in the body is a
// claimed field: the second run blanks it together with SenderId/ReceiverId/Token.
func addressedType(k *kase) bool {
	switch packet.CommandType(k.ctype) {
	case packet.DNSResolve, packet.DNSQuery:
		return !k.resp
	case packet.SendNotifyToClient:
		return true
	}
	return false
}

func ambiguousDefaultTarget(k *kase) bool {
	ct := packet.CommandType(k.ctype)
	if (ct != packet.DNSResolve && ct != packet.DNSQuery) || k.resp || k.g > 0 || k.bad {
		return false
	}
	c := k.conns[k.from]
	if c.kind != 'A' || c.cid == 0 {
		return false
	}
	targets := map[int64]bool{}
	for _, m := range k.maps {
		if (m.listen == c.cid || m.target == c.cid) && m.socks && m.active && m.target > 0 {
			targets[m.target] = true
		}
	}
	return len(targets) > 1
}

// ---------------------------------------------------------------- generators

const (
	A = 1001 // listen party / owner
	B = 1002 // target party
	S = 1003 // stranger
)

func worldStr(conns []string, maps []string, codes []string, doms []string) string {
	return fmt.Sprintf("W conns %d %s maps %d %s codes %d %s doms %d %s", len(conns), strings.Join(conns, " "),
		len(maps), strings.Join(maps, " "), len(codes), strings.Join(codes, " "), len(doms), strings.Join(doms, " "))
}

func squeeze(s string) string { return strings.Join(strings.Fields(s), " ") }

func caseStr(ct int, resp bool, from int, snd, rcv int64, tok string, bad bool, m int, g int64, k, d int, w string) string {
	b2 := func(b bool) int {
		if b {
			return 1
		}
		return 0
	}
	return squeeze(fmt.Sprintf("c %d p %d f %d s %d r %d t %s b %d m %d g %d k %d d %d %s", ct, b2(resp), from, snd, rcv, tok, b2(bad), m, g, k, d, w))
}

// every CommandType value of internal/packet (0 … 130 covers the whole table and the gaps)
func allTypes() []int {
	var ts []int
	for i := 0; i <= 130; i++ {
		ts = append(ts, i)
	}
	return ts
}

func gen(out *vc.Out, r *vc.Rand, thorough bool) {
	// the standard cast: A listens, B is the target, S is a stranger, U has not authenticated, N never shook hands
	// … and two connections that started the real handshake as client 1001 without completing it:
	// P1001 got the challenge (phase 1), F1001 answered it with a wrong HMAC (phase 2 refused)
	conns := []string{"A1001", "A1002", "A1003", "U0", "N0", "P1001", "F1001"}
	std := worldStr(conns,
		[]string{"1001:1002:s:a", "1002:1001:t:a", "1003:1003:t:i"},
		[]string{"1002:0", "1001:1", "1003:0", "1002:1001"}, // the last one: B's code, used by A through the real service (mapping #3 = A -> B)
		[]string{"1001", "1002"})
	type claim struct {
		snd, rcv int64
		tok      string
		extra    int64
	}
	claims := []claim{{0, 0, "-", 0}, {A, B, "1001", 0}, {B, A, "1002", 0}, {0, 0, "-", B}, {0, 0, "-", A}}
	if thorough {
		claims = append(claims, claim{S, 0, "x", 0}, claim{0, A, "-", 0}, claim{A, A, "1001", 0}, claim{4242, -7, "0", 0}, claim{0, 0, "1002", 0},
			claim{A, B, "1001", S}, claim{0, 0, "-", 4242})
	}
	ex := func(cs string, v int64) string {
		if v == 0 {
			return cs
		}
		return withExtras(cs, v)
	}
	// 1. exhaustive: command type x identity x claimed fields x target object
	for _, ct := range allTypes() {
		for from := 0; from < len(conns); from++ {
			for ci, cl := range claims {
				if from >= 5 && !thorough && ci != 0 && ci != 3 {
					continue // the half-finished-handshake identities: base packet and extra body keys only in the quick tier
				}
				for _, resp := range []bool{false, true} {
					objs := []int{0}
					if usesObject(ct) {
						objs = []int{0, 1, 2, 3, -1, -2}
					}
					for _, o := range objs {
						gs := []int64{0}
						if usesTarget(ct) && !resp {
							gs = []int64{A, B, S, 0, -1, 4242}
						}
						for _, g := range gs {
							if resp && !(ct == int(packet.DNSResolve) || ct == int(packet.DNSQuery) || ct == int(packet.HTTPProxyResponse)) && (cl.snd != 0 || cl.extra != 0 || o != 0) {
								continue // response-typed packets of other commands: one representative each
							}
							if !usesTarget(ct) && !resp {
								g = B // generic probe: name a target client even where the model's table has no use for it
							}
							execCase(out, ex(caseStr(ct, resp, from, cl.snd, cl.rcv, cl.tok, false, o, g, o, o, std), cl.extra))
							if cl.snd == 0 && cl.extra == 0 {
								// claimed fields naming things that exist: other clients' live connection ids, mapping ids, secrets
								base := caseStr(ct, resp, from, 0, 0, "-", false, o, g, o, o, std)
								execCase(out, reClaim(base, "@c0", "@c1", "@c0"))
								execCase(out, reClaim(base, "@c1", "@c0", "@s0"))
								if thorough {
									execCase(out, reClaim(base, "@c2", "@c3", "@m0"))
									execCase(out, withExtras(reClaim(base, "@c0", "@c0", "@k0"), A))
								}
								out.Count("matrix:claims-name-live-connections")
							}
							out.Count(fmt.Sprintf("matrix:id=%s", conns[from][:1]))
						}
					}
				}
			}
			// malformed body
			execCase(out, caseStr(ct, false, from, 0, 0, "-", true, 0, B, 0, 0, std))
			out.Count("matrix:bad-body")
		}
	}
	// 1b. exhaustive small scope: one object, every ownership (parties from {A, B, S, 0}) x every identity class
	//     x target online or not, for the commands whose rule is "party" (and the DNS default-target path)
	owners := []int64{A, B, S, 0}
	for _, ct := range []int{75, 76, 110, 90, 120} {
		for _, l := range owners {
			for _, t := range owners {
				for _, online := range []bool{true, false} {
					cs := []string{"A1001", "A1003", "U0", "P1001"}
					if online {
						cs = append(cs, "A1002")
					}
					for from := 0; from < 4; from++ {
						for _, act := range []string{"a", "i"} {
							if act == "i" && ct != 120 {
								continue
							}
							w := worldStr(cs, []string{fmt.Sprintf("%d:%d:s:%s", l, t, act)}, nil, nil)
							g := int64(-1)
							execCase(out, caseStr(ct, false, from, 0, 0, "-", false, 0, g, 0, 0, w))
							if thorough {
								execCase(out, caseStr(ct, false, from, l, t, fmt.Sprint(l), false, 0, g, 0, 0, w))
							}
							out.Count("small-scope:mapping-ownership")
						}
					}
				}
			}
		}
	}
	for _, ct := range []int{72, 86, 85} {
		for _, o := range owners {
			for _, st := range []int64{0, 1, A, B, S} {
				for from := 0; from < 4; from++ {
					cs := []string{"A1001", "A1003", "U0", "N0"}
					w := worldStr(cs, nil, []string{fmt.Sprintf("%d:%d", o, st)}, []string{fmt.Sprint(o)})
					if o == 0 {
						w = worldStr(cs, nil, []string{fmt.Sprintf("%d:%d", B, st)}, []string{fmt.Sprint(B)})
					}
					execCase(out, caseStr(ct, false, from, 0, 0, "-", false, 0, 0, 0, 0, w))
					execCase(out, withExtras(caseStr(ct, false, from, 0, 0, "-", false, 0, 0, 0, 0, w), B))
					if thorough {
						execCase(out, caseStr(ct, false, from, o, o, fmt.Sprint(o), false, 0, 0, 0, 0, w))
					}
					out.Count("small-scope:code-domain-ownership")
				}
			}
		}
	}
	// 1i. concurrency: the same read-only command from TWO connections at once (12 goroutines each, many rounds): handlers are
	//     singletons shared by all connections; every answer is judged against the asking connection's own client
	withConc := func(cs string, j, rounds int) string {
		return strings.Replace(cs, " W ", fmt.Sprintf(" y %d %d W ", j, rounds), 1)
	}
	concWorld := worldStr([]string{"A1001", "A1002", "A1003", "U0"}, []string{"1001:1002:s:a", "1002:1001:t:a", "1003:1003:t:i"},
		[]string{"1001:0", "1003:0"}, []string{"1001", "1003"})
	big, small := 60000, 3000
	if thorough {
		big, small = 200000, 20000
	}
	execCase(out, withConc(caseStr(50, false, 0, 0, 0, "-", false, 0, 0, 0, 0, concWorld), 2, big))
	execCase(out, withConc(caseStr(50, false, 2, 0, 0, "-", false, 0, 0, 0, 0, concWorld), 1, big))
	execCase(out, withConc(caseStr(50, false, 1, 0, 0, "-", false, 0, 0, 0, 0, concWorld), 2, big))
	execCase(out, withConc(caseStr(50, false, 2, 0, 0, "-", false, 0, 0, 0, 0, concWorld), 0, big))
	for _, ct := range []int{50, 74, 75, 87, 71} {
		for _, pair := range [][2]int{{0, 2}, {2, 0}, {3, 0}, {0, 3}} {
			execCase(out, withConc(caseStr(ct, false, pair[0], 0, 0, "-", false, 0, 0, 0, 0, concWorld), pair[1], small))
			out.Count("concurrency:two-connections-same-command")
		}
	}
	// 1h. schedules: the handler of a duplex command is held at its first access of the named object until the executor's RPC
	//     wait has timed out and a second command from ANOTHER connection is in flight, then resumes (gated storage double,
	//     RPC timeout shortened through the RPC manager's setter): sender identity x object ownership x second connection
	withStall := func(cs string, j int) string { return strings.Replace(cs, " W ", fmt.Sprintf(" z %d W ", j), 1) }
	for _, ct := range []int{85, 86, 75, 76} {
		for from := 0; from < len(conns); from++ {
			for _, o := range []int{0, 1, 2, -1} {
				if (ct == 85) != (o == -1 || o == 0) && ct == 85 {
					continue
				}
				if ct != 85 && o == -1 {
					continue
				}
				for _, j := range []int{0, 1, 2, 3} {
					if j == from || (!thorough && j != (from+1)%3 && j != 3) {
						continue
					}
					base := caseStr(ct, false, from, 0, 0, "-", false, o, B, o, o, std)
					execCase(out, withStall(base, j))
					if thorough {
						execCase(out, withStall(withExtras(reClaim(base, fmt.Sprintf("@c%d", j), "@c0", "@c1"), B), j))
					}
					out.Count("schedule:handler-outlives-rpc-wait")
				}
			}
		}
	}
	// 1g. cross-node DNS query: sender identity x where the target is (same node / other node / nowhere) x claimed fields
	//     and extra body keys, with the real connection-state store, cross-node pool and listener between two nodes
	for _, place := range []string{"same", "other", "nowhere"} {
		cs := []string{"A1001", "A1003", "U0", "N0", "P1004", "A2002@1"}
		switch place {
		case "same":
			cs = append(cs, "A1002")
		case "other":
			cs = append(cs, "A1002@1")
		}
		w := strings.Replace(worldStr(cs, []string{"1001:1002:s:a"}, nil, nil), "W ", "W xn 1 ", 1)
		for _, ct := range []int{121, 120, 102, 90} {
			for from := 0; from < 6; from++ {
				for _, g := range []int64{B, 2002, 1003, 0} {
					base := caseStr(ct, false, from, 0, 0, "-", false, 0, g, 0, 0, w)
					execCase(out, base)
					execCase(out, withExtras(reClaim(base, "@c0", "@c5", "9999"), 2002))
					if thorough {
						execCase(out, withExtras(base, 1003))
						execCase(out, reClaim(base, "2002", "1002", "@c1"))
					}
					out.Count("cross-node:" + place)
				}
			}
		}
	}
	// 1f. connection histories: the identity of ONE connection changes between commands (re-handshake as another client,
	//     attempts that do not succeed after a login, login after attempts), read-only commands in between (warm caches),
	//     alone and next to an earlier / later login of the same client elsewhere (kick)
	hists := []string{"A1001>A1002", "A1001>P1002", "A1001>F1002", "A1001>U0", "P1001>A1002", "N0>A1001", "A1001>A1002>A1001", "U0>A1001", "A1001>A1001", "A1002>A1001"}
	for _, h := range hists {
		for layout := 0; layout < 3; layout++ {
			cs := []string{"A1003", h, "A1004", "U0"}
			hi, other := 1, 0
			switch layout {
			case 1:
				cs = []string{"A1001", h, "A1003", "U0"} // 1001 logged in elsewhere first
			case 2:
				cs = []string{h, "A1001", "A1003", "U0"} // 1001 logs in elsewhere afterwards
				hi, other = 0, 1
			}
			w := worldStr(cs, []string{"1001:1002:s:a", "1003:1001:t:a"}, []string{"1001:0", "1002:0"}, []string{"1001", "1002", "1003"})
			for _, ct := range []int{87, 86, 85, 102, 101, 50, 74, 75, 76, 70, 71, 72, 110, 90, 120, 11} {
				for _, from := range []int{hi, other} {
					for _, o := range []int{0, 1} {
						execCase(out, caseStr(ct, false, from, 0, 0, "-", false, o, 1003, o, o, w))
						if thorough {
							execCase(out, withExtras(reClaim(caseStr(ct, false, from, 0, 0, "-", false, o, 1002, o, o, w), "@c0", "@c1", "@c1"), A))
						}
						out.Count("history:identity-changes-on-one-connection")
					}
				}
			}
		}
	}
	// 1e. configuration without a command executor (handleDefaultCommand / handleConfigGetCommand), and the second entry
	//     point ProcessCommand (executor without the special cases; predicate only)
	noEx := strings.Replace(std, "W ", "W ne 1 ", 1)
	for _, ct := range allTypes() {
		for from := 0; from < len(conns); from++ {
			execCase(out, caseStr(ct, false, from, 0, 0, "-", false, 0, B, 0, 0, noEx))
			if ct == 50 || ct == 76 || ct == 110 || ct == 90 {
				execCase(out, withExtras(reClaim(caseStr(ct, false, from, 0, 0, "-", false, 0, B, 0, 0, noEx), "@c0", "@c1", "@c0"), A))
			}
			pc := strings.Replace(caseStr(ct, false, from, 0, 0, "-", false, 0, B, 0, 0, std), " p 0 ", " p 2 ", 1)
			execCase(out, pc)
			if thorough {
				execCase(out, withExtras(reClaim(pc, "@c0", "@c1", "@c0"), A))
			}
			out.Count("config:no-executor+entry:ProcessCommand")
		}
	}
	// 1d. transient storage-read faults: every schedule of failures over the first reads of the named mapping's record
	//     x identity x whose mapping it is, for the commands that look a mapping up (modelled), and for every other
	//     interesting command type (judged by the predicate only)
	maxPlan := 7
	if thorough {
		maxPlan = 31
	}
	for _, ct := range []int{75, 76, 110, 90, 74, 50, 72, 86, 120, 102, 71, 87} {
		for from := 0; from < len(conns); from++ {
			for m := 0; m < 3; m++ {
				for plan := 1; plan <= maxPlan; plan++ {
					cs := caseStr(ct, false, from, 0, 0, "-", false, m, B, 0, 0, std)
					if !(ct == 75 || ct == 76 || ct == 110 || ct == 90) && (m != 0 || plan > 3) {
						continue
					}
					execCase(out, withFaults(cs, plan))
					if thorough && plan <= 3 {
						execCase(out, withFaults(withExtras(caseStr(ct, false, from, A, B, "1001", false, m, B, 0, 0, std), A), plan))
					}
					out.Count("read-faults")
				}
			}
		}
	}
	// 1c. two nodes: sender identity x claimed body target x where the mapping's real target is connected
	//     (same node / other node / nowhere) x bridge manager configured or not
	for _, ct := range []int{90, 120, 121, 102, 110, 76, 72, 75} {
		for _, place := range []string{"same", "other", "nowhere"} {
			for _, br := range []int{1, 0} {
				cs := []string{"A1001", "A1003", "U0", "N0", "A1004", "A2002@1", "A1003@1"}
				switch place {
				case "same":
					cs = append(cs, "A1002")
				case "other":
					cs = append(cs, "A1002@1")
				}
				w := strings.Replace(worldStr(cs, []string{"1001:1002:s:a", "1003:2002:s:a"}, []string{"1002:0"}, nil), "W ", fmt.Sprintf("W br %d ", br), 1)
				froms := []int{0, 1, 2, 3, 6}
				if place != "nowhere" {
					froms = append(froms, 7)
				}
				for _, from := range froms {
					for _, g := range []int64{B, 2002, 1004, A, 0, -1} {
						execCase(out, caseStr(ct, false, from, 0, 0, "-", false, 0, g, 0, 0, w))
						if g == B {
							execCase(out, reClaim(caseStr(ct, false, from, 0, 0, "-", false, 0, g, 0, 0, w), "@c0", "@c5", "@c4"))
						}
						if g == B || g == 2002 {
							execCase(out, withExtras(caseStr(ct, false, from, 0, 0, "-", false, 0, g, 0, 0, w), 2002))
						}
						if thorough {
							execCase(out, caseStr(ct, false, from, B, 2002, "2002", false, 0, g, 0, 0, w))
							execCase(out, caseStr(ct, false, from, 0, 0, "-", false, 1, g, 0, 0, w))
						}
						out.Count("two-node:" + place)
					}
				}
			}
		}
	}
	// 2. random worlds: random casts, ownership, online sets
	rounds := 400
	if thorough {
		rounds = 40000
	}
	ids := []int64{A, B, S, 1004}
	interesting := []int{11, 50, 70, 71, 72, 74, 75, 76, 81, 85, 86, 87, 90, 102, 110, 120, 121}
	for i := 0; i < rounds; i++ {
		nc := 2 + r.Intn(4)
		var cs []string
		for j := 0; j < nc; j++ {
			switch r.Intn(6) {
			case 0:
				cs = append(cs, "U0")
			case 1:
				cs = append(cs, vc.Pick(r, []string{"N0", "N0", fmt.Sprintf("P%d", vc.Pick(r, ids)), fmt.Sprintf("F%d", vc.Pick(r, ids))}))
			case 2:
				cs = append(cs, fmt.Sprintf("%s%d>%s%d", vc.Pick(r, []string{"A", "A", "P", "N"}), vc.Pick(r, ids), vc.Pick(r, []string{"A", "A", "P", "F"}), vc.Pick(r, ids)))
			default:
				cs = append(cs, fmt.Sprintf("A%d", vc.Pick(r, ids)))
			}
		}
		twoNodes := r.Intn(3) == 0
		if twoNodes {
			for j := range cs {
				if r.Intn(2) == 0 {
					cs[j] += "@1"
				}
			}
		}
		var ms, cds, ds []string
		for j := r.Intn(4); j > 0; j-- {
			ms = append(ms, fmt.Sprintf("%d:%d:%s:%s", vc.Pick(r, ids), vc.Pick(r, ids), vc.Pick(r, []string{"s", "t"}), vc.Pick(r, []string{"a", "a", "i"})))
		}
		for j := r.Intn(3); j > 0; j-- {
			cds = append(cds, fmt.Sprintf("%d:%d", vc.Pick(r, ids), vc.Pick(r, []int64{0, 0, 1, A, B, S, 1004})))
		}
		for j := r.Intn(3); j > 0; j-- {
			ds = append(ds, fmt.Sprintf("%d", vc.Pick(r, ids)))
		}
		w := worldStr(cs, ms, cds, ds)
		if twoNodes || r.Intn(6) == 0 {
			w = strings.Replace(w, "W ", fmt.Sprintf("W br %d ", vc.Pick(r, []int{1, 1, 1, 0})), 1)
		}
		ct := vc.Pick(r, interesting)
		if r.Intn(8) == 0 {
			ct = r.Intn(131)
		}
		ref := func(n int) int {
			switch r.Intn(6) {
			case 0:
				return -1
			case 1:
				return -2
			}
			if n == 0 {
				return -2
			}
			return r.Intn(n)
		}
		var snd, rcv int64
		tok := "-"
		if r.Intn(2) == 0 {
			snd, rcv = vc.Pick(r, ids), vc.Pick(r, ids)
			tok = fmt.Sprint(vc.Pick(r, ids))
		}
		g := vc.Pick(r, []int64{A, B, S, 1004, 0, -1})
		cstr := caseStr(ct, r.Intn(10) == 0, r.Intn(nc), snd, rcv, tok, r.Intn(20) == 0, ref(len(ms)), g, ref(len(cds)), ref(len(ds)), w)
		if r.Intn(3) == 0 {
			cstr = reClaim(cstr, fmt.Sprintf("@c%d", r.Intn(nc)), vc.Pick(r, []string{"0", "@c0", "@m0", "@s0"}), vc.Pick(r, []string{"-", "@c0", "@c1", "@k0"}))
		}
		if r.Intn(3) == 0 {
			cstr = withExtras(cstr, vc.Pick(r, ids))
		}
		if r.Intn(4) == 0 {
			cstr = withFaults(cstr, r.Intn(8))
		}
		execCase(out, cstr)
		out.Count("random")
	}
}

func usesObject(ct int) bool {
	switch packet.CommandType(ct) {
	case packet.ConnectionCodeActivate, packet.MappingGet, packet.MappingDelete, packet.HTTPDomainDelete, packet.HTTPDomainCreate,
		packet.HTTPDomainCheckSubdomain, packet.SOCKS5TunnelRequestCmd, packet.TunnelTrafficReport:
		return true
	}
	return false
}

func usesTarget(ct int) bool {
	switch packet.CommandType(ct) {
	case packet.DNSResolve, packet.DNSQuery, packet.SendNotifyToClient:
		return true
	}
	return false
}

func main() {
	tier := flag.String("tier", "quick", "")
	seed := flag.Uint64("seed", 1, "")
	stats := flag.String("stats", "", "")
	noGen := flag.Bool("nogen", false, "")
	flag.Parse()
	corelog.SetDefault(corelog.NewNopLogger())
	out := vc.NewOut()
	out.Samples = []string{} // never null in the stats file (case lines with the key list are longer than the sample limit)
	for _, f := range flag.Args() {
		data, err := os.ReadFile(f)
		if err != nil {
			fmt.Fprintln(os.Stderr, err)
			os.Exit(3)
		}
		for _, line := range strings.Split(string(data), "\n") {
			line = strings.TrimSpace(line)
			if line == "" || strings.HasPrefix(line, "#") {
				continue
			}
			if i := strings.Index(line, " ## "); i >= 0 {
				line = line[:i]
			}
			execCase(out, line)
			out.Count("corpus")
		}
	}
	if !*noGen {
		gen(out, vc.NewRand(*seed), *tier == "thorough")
	}
	flushQueue(out)
	out.Finish(*stats, nil)
}
