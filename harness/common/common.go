//go:build verif

// Package common: helpers shared by the verification harnesses (PRNG, hex,
// chunk-controlled readers, case/observation output, statistics).
package common

import (
	"bufio"
	"encoding/hex"
	"encoding/json"
	"errors"
	"fmt"
	"io"
	"os"
	"sort"
	"strings"
	"sync"
)

// ---- PRNG: SplitMix64; every random choice of a run derives from one seed.

type Rand struct{ s uint64 }

func NewRand(seed uint64) *Rand { return &Rand{s: seed*0x9E3779B97F4A7C15 + 0x1234567} }

func (r *Rand) Uint64() uint64 {
	r.s += 0x9E3779B97F4A7C15
	z := r.s
	z = (z ^ (z >> 30)) * 0xBF58476D1CE4E5B9
	z = (z ^ (z >> 27)) * 0x94D049BB133111EB
	return z ^ (z >> 31)
}
func (r *Rand) Intn(n int) int {
	if n <= 0 {
		return 0
	}
	return int(r.Uint64() % uint64(n))
}
func (r *Rand) Bool() bool { return r.Uint64()&1 == 1 }
func (r *Rand) Bytes(n int) []byte {
	b := make([]byte, n)
	for i := range b {
		b[i] = byte(r.Uint64())
	}
	return b
}

// Fork derives an independent stream (for parallel workers / sub-generators).
func (r *Rand) Fork() *Rand { return NewRand(r.Uint64()) }

func Pick[T any](r *Rand, xs []T) T { return xs[r.Intn(len(xs))] }

// ---- hex ("-" is the empty string)

func Hex(b []byte) string {
	if len(b) == 0 {
		return "-"
	}
	return hex.EncodeToString(b)
}

func UnHex(s string) []byte {
	if s == "-" {
		return nil
	}
	b, err := hex.DecodeString(s)
	if err != nil {
		panic(err)
	}
	return b
}

// ---- chunk-controlled reader

var ErrInjected = errors.New("verif: injected transport error")

// ChunkReader hands out the stream in the given chunk sizes (a chunk larger
// than the caller's buffer is returned in pieces), then EOF or ErrInjected.
type ChunkReader struct {
	Data    []byte
	Sizes   []int
	TailErr bool
	// EndWithData: the Read that returns the last bytes of the stream also returns the end of the
	// stream (io.EOF / the injected error), as io.Reader allows and QUIC streams do (FIN in the frame)
	EndWithData bool
	pos         int
	idx         int
	left        int // left in current chunk
	Consumed    int
	Reads       int
}

func NewChunkReader(data []byte, sizes []int, tailErr bool) *ChunkReader {
	return &ChunkReader{Data: data, Sizes: sizes, TailErr: tailErr}
}

func (c *ChunkReader) Read(p []byte) (int, error) {
	c.Reads++
	if c.left == 0 {
		if c.pos >= len(c.Data) {
			if c.TailErr {
				return 0, ErrInjected
			}
			return 0, io.EOF
		}
		if c.idx < len(c.Sizes) {
			c.left = c.Sizes[c.idx]
			c.idx++
			if c.left == 0 {
				// a zero-length chunk is an empty message of a message transport: Read returns (0, nil)
				return 0, nil
			}
		} else {
			c.left = len(c.Data) - c.pos
		}
		if c.left > len(c.Data)-c.pos {
			c.left = len(c.Data) - c.pos
		}
	}
	if len(p) == 0 {
		return 0, nil
	}
	n := c.left
	if n > len(p) {
		n = len(p)
	}
	copy(p, c.Data[c.pos:c.pos+n])
	c.pos += n
	c.left -= n
	c.Consumed += n
	if c.EndWithData && c.pos >= len(c.Data) {
		if c.TailErr {
			return n, ErrInjected
		}
		return n, io.EOF
	}
	return n, nil
}

func (c *ChunkReader) Remaining() int { return len(c.Data) - c.pos }

// ---- output

type Out struct {
	mu    sync.Mutex
	w     *bufio.Writer
	Cases int
	// statistics for the evidence file
	Counts   map[string]int
	Samples  []string
	seen     map[string]bool
	Distinct int
}

func NewOut() *Out {
	return &Out{w: bufio.NewWriterSize(os.Stdout, 1<<20), Counts: map[string]int{}, seen: map[string]bool{}}
}

// Case emits one line "<case> ## <obs>"; key identifies the case for the
// distinct count ("" = not counted as non-trivial).
func (o *Out) Case(caseStr, obs, key string) {
	o.mu.Lock()
	defer o.mu.Unlock()
	fmt.Fprintf(o.w, "%s ## %s\n", caseStr, obs)
	o.Cases++
	if key != "" && !o.seen[key] {
		o.seen[key] = true
		o.Distinct++
	}
	if len(o.Samples) < 3 && len(caseStr) < 400 {
		o.Samples = append(o.Samples, caseStr+" ## "+obs)
	}
}

func (o *Out) Count(k string) {
	o.mu.Lock()
	o.Counts[k]++
	o.mu.Unlock()
}

func (o *Out) Finish(statsPath string, extra map[string]any) {
	o.w.Flush()
	if statsPath == "" {
		return
	}
	keys := make([]string, 0, len(o.Counts))
	for k := range o.Counts {
		keys = append(keys, k)
	}
	sort.Strings(keys)
	dist := map[string]int{}
	for _, k := range keys {
		dist[k] = o.Counts[k]
	}
	m := map[string]any{"cases": o.Cases, "distinct_nontrivial": o.Distinct, "distribution": dist, "samples": o.Samples}
	for k, v := range extra {
		m[k] = v
	}
	b, _ := json.MarshalIndent(m, "", " ")
	os.WriteFile(statsPath, b, 0o644)
}

func Join(xs ...string) string { return strings.Join(xs, " ") }

func Itoa(n int) string { return fmt.Sprintf("%d", n) }
