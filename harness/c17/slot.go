//go:build verif

package main

// Slot scenarios: the life of the per-mapping connection slot across the life of its tunnel.
//
//	case := `slot lim <L> sch <m> (s<i> | c<i>)*`
//	s<i>  next step of connection i's handleConnection: (1) accept .. DialTunnel, stops at the entry of
//	      TunnelManager.RegisterTunnel; (2) RegisterTunnel, stops right after it (the window before
//	      Tunnel.Start); (3) Start and return
//	c<i>  TunnelManager.CloseTunnel of connection i's tunnel (peer closed / error / admin), at any time
//
// The handler runs over a wrapper of its real tunnel manager (installed through the verif shim); the
// number of live tunnels is read from the real manager after every event.

import (
	"context"
	"fmt"
	"io"
	"net"
	"strconv"
	"strings"
	"sync"
	"time"

	"tunnox-core/internal/client/mapping"
	"tunnox-core/internal/client/tunnel"
	"tunnox-core/internal/config"
)

type gatedManager struct {
	tunnel.TunnelManager // the handler's real manager
	g                    *gate
	mu                   sync.Mutex
	byGid                map[uint64]*tunnel.Tunnel
}

func (m *gatedManager) RegisterTunnel(t *tunnel.Tunnel) error {
	m.g.enter() // before: the slot is held, nothing is registered
	if th := m.g.me(); th != nil && th.failNext {
		th.failNext = false
		return fmt.Errorf("verif: injected RegisterTunnel failure")
	}
	err := m.TunnelManager.RegisterTunnel(t)
	if err == nil {
		m.mu.Lock()
		m.byGid[goid()] = t
		m.mu.Unlock()
	}
	m.g.enter() // the window between RegisterTunnel and Tunnel.Start
	return err
}

// hookAdapter: PrepareConnection can be made to fail for the calling thread.
type hookAdapter struct {
	fakeAdapter
	fail func(kind int) bool
}

func (a hookAdapter) PrepareConnection(io.ReadWriteCloser) error {
	if a.fail(1) {
		return fmt.Errorf("verif: injected prepare failure")
	}
	return nil
}

type slotCase struct {
	limit int
	n     int
	sched [][2]int // (0 = step | 1 = close | 2 = step whose injectable call fails, connection)
}

func parseSlot(cs string) (*slotCase, bool) {
	f := strings.Fields(cs)
	if len(f) < 5 || f[0] != "slot" || f[1] != "lim" || f[3] != "sch" {
		return nil, false
	}
	lim, err1 := strconv.ParseUint(f[2], 10, 16)
	m, err2 := strconv.ParseUint(f[4], 10, 16)
	if err1 != nil || err2 != nil || int(m) != len(f)-5 {
		return nil, false
	}
	k := &slotCase{limit: int(lim)}
	for _, t := range f[5:] {
		if len(t) < 2 || (t[0] != 's' && t[0] != 'c' && t[0] != 'f') {
			return nil, false
		}
		i, err := strconv.ParseUint(t[1:], 10, 8)
		if err != nil || i > 40 {
			return nil, false
		}
		kind := 0
		if t[0] == 'c' {
			kind = 1
		} else if t[0] == 'f' {
			kind = 2
		}
		k.sched = append(k.sched, [2]int{kind, int(i)})
		if int(i)+1 > k.n {
			k.n = int(i) + 1
		}
	}
	return k, true
}

func execSlot(cs string) (obs string) {
	k, ok := parseSlot(cs)
	if !ok {
		return "bad-case"
	}
	setProcs(2)
	defer func() {
		if r := recover(); r != nil {
			obs = "panic " + strings.ReplaceAll(fmt.Sprint(r), "\n", " ")
		}
	}()
	ctx, cancel := context.WithCancel(context.Background())
	defer cancel()
	g := newGate()
	// which of the three calls between the slot and the tunnel fails is fixed by the connection number
	fail := func(kind int) bool {
		th := g.me()
		if th == nil || !th.failNext || th.tid%3 != kind {
			return false
		}
		th.failNext = false
		g.mu.Lock()
		th.res = "dfl"
		g.mu.Unlock()
		return true
	}
	cl := &fakeClient{ctx: ctx, dialed: map[uint64]net.Conn{}, fail: fail}
	h := mapping.NewBaseMappingHandler(cl, config.MappingConfig{MappingID: "m1", Protocol: "tcp", LocalPort: 1, MaxConnections: k.limit}, hookAdapter{fail: fail})
	defer h.Close()
	real := h.GetTunnelManager()
	gm := &gatedManager{TunnelManager: real, g: g, byGid: map[uint64]*tunnel.Tunnel{}}
	h.VerifSetTunnelManager(gm)

	threads := make([]*thread, k.n)
	var pipes []net.Conn
	defer func() {
		for _, p := range pipes {
			p.Close()
		}
	}()
	done := make(chan struct{})
	var evs []string
	go func() {
		defer close(done)
		for i := range threads {
			th := &thread{tid: i}
			threads[i] = th
			local, remote := net.Pipe()
			pipes = append(pipes, remote)
			started := make(chan struct{})
			go func() {
				g.mu.Lock()
				th.gid = goid()
				g.byGid[th.gid] = th
				g.mu.Unlock()
				close(started)
				defer func() {
					if r := recover(); r != nil {
						g.mu.Lock()
						th.res = "panic:" + strings.ReplaceAll(strings.ReplaceAll(fmt.Sprint(r), " ", "_"), "\n", "_")
						g.mu.Unlock()
					}
					g.mu.Lock()
					th.state = 2
					g.cond.Broadcast()
					g.mu.Unlock()
				}()
				g.enterAt(true)
				h.VerifHandleConnection(local)
			}()
			<-started
			g.quiesce(threads[:i+1])
		}
		phase := make([]int, k.n) // gates passed by connection i
		tunOf := func(th *thread) *tunnel.Tunnel {
			gm.mu.Lock()
			defer gm.mu.Unlock()
			return gm.byGid[th.gid]
		}
		for _, e := range k.sched {
			i := e[1]
			th := threads[i]
			if e[0] == 1 {
				t := tunOf(th)
				if t == nil || real.GetTunnel(t.GetID()) == nil {
					evs = append(evs, fmt.Sprintf("ncl.%d.%d", i, real.CountTunnels()))
					continue
				}
				if err := real.CloseTunnel(t.GetID(), tunnel.CloseReasonPeerClosed); err != nil {
					evs = append(evs, fmt.Sprintf("ncl.%d.%d", i, real.CountTunnels()))
					continue
				}
				g.quiesce(threads)
				evs = append(evs, fmt.Sprintf("cls.%d.%d", i, real.CountTunnels()))
				continue
			}
			g.quiesce(threads)
			g.mu.Lock()
			st := th.state
			g.mu.Unlock()
			if st != 1 {
				continue // finished (or never to return): the step does nothing
			}
			th.failNext = e[0] == 2 && phase[i] < 2
			failing := th.failNext
			g.release(th)
			g.quiesce(threads)
			g.mu.Lock()
			st, res := th.state, th.res
			th.res = ""
			g.mu.Unlock()
			th.failNext = false
			phase[i]++
			n := real.CountTunnels()
			switch {
			case res == "dfl" && phase[i] == 1 && st == 2:
				evs = append(evs, fmt.Sprintf("dfl.%d.%d", i, n))
			case failing && phase[i] == 2 && st == 2 && res == "":
				evs = append(evs, fmt.Sprintf("rfl.%d.%d", i, n))
			case res != "":
				evs = append(evs, fmt.Sprintf("%s.%d", res, i))
			case phase[i] == 1 && st == 1:
				evs = append(evs, fmt.Sprintf("acq.%d.%d", i, n))
			case phase[i] == 1:
				evs = append(evs, fmt.Sprintf("ref.%d.%d", i, n))
			case phase[i] == 2 && st == 1:
				evs = append(evs, fmt.Sprintf("reg.%d.%d", i, n))
			case phase[i] == 3 && st == 2:
				t := tunOf(th)
				if t != nil && t.GetState() == tunnel.TunnelStateConnected {
					evs = append(evs, fmt.Sprintf("sta.%d.%d", i, n))
				} else {
					evs = append(evs, fmt.Sprintf("fal.%d.%d", i, n))
				}
			default:
				evs = append(evs, fmt.Sprintf("odd.%d.%d.%d", i, phase[i], st))
			}
		}
	}()
	select {
	case <-done:
	case <-time.After(watchdog):
		g.mu.Lock()
		g.timeout = true
		g.cond.Broadcast()
		g.mu.Unlock()
		return "timeout"
	}
	g.mu.Lock()
	g.timeout = true
	g.cond.Broadcast()
	g.mu.Unlock()
	return strings.Join(append(evs, "|"), " ")
}
