//go:build verif

package main

// Counter stress and release/admission races of the per-mapping slot (free-running, real parallelism).
//
//	free slot lim <L> thr <T> it <N>   T goroutines, each N times: acquire; (count holders); release.
//	                                   obs `max <M> fin <F>`: M = most connections holding a slot at once,
//	                                   F = acquisitions that succeed afterwards until the first refusal
//	free race lim <L> it <N>           N rounds on a fresh handler through the REAL paths: L-1 tunnels are
//	                                   open; one is closed (OnClosed -> release) while a new connection
//	                                   arrives (handleConnection -> acquire); then connections arrive one
//	                                   after the other until one is refused.  obs `max <M>`: most live
//	                                   tunnels seen in any round

import (
	"context"
	"fmt"
	"net"
	"runtime"
	"strconv"
	"strings"
	"sync"
	"sync/atomic"

	"tunnox-core/internal/client/mapping"
	"tunnox-core/internal/client/tunnel"
	"tunnox-core/internal/config"
)

func parseKV(f []string, keys ...string) ([]int, bool) {
	if len(f) != 2*len(keys) {
		return nil, false
	}
	out := make([]int, len(keys))
	for i, k := range keys {
		if f[2*i] != k {
			return nil, false
		}
		v, err := strconv.ParseUint(f[2*i+1], 10, 24)
		if err != nil {
			return nil, false
		}
		out[i] = int(v)
	}
	return out, true
}

func execSlotStress(f []string) string {
	v, ok := parseKV(f, "lim", "thr", "it")
	if !ok || v[0] == 0 || v[1] == 0 || v[1] > 64 {
		return "bad-case"
	}
	limit, thr, iters := v[0], v[1], v[2]
	setProcs(allProcs)
	ctx, cancel := context.WithCancel(context.Background())
	defer cancel()
	cl := &fakeClient{ctx: ctx, dialed: map[uint64]net.Conn{}}
	h := mapping.NewBaseMappingHandler(cl, config.MappingConfig{MappingID: "m1", Protocol: "tcp", LocalPort: 1, MaxConnections: limit}, fakeAdapter{})
	defer h.Close()
	var holders, maxSeen atomic.Int32
	var start atomic.Bool
	var wg sync.WaitGroup
	for t := 0; t < thr; t++ {
		wg.Add(1)
		go func() {
			defer wg.Done()
			for !start.Load() {
				runtime.Gosched()
			}
			for i := 0; i < iters; i++ {
				if h.VerifAcquireSlot() != nil {
					continue
				}
				n := holders.Add(1)
				for {
					m := maxSeen.Load()
					if n <= m || maxSeen.CompareAndSwap(m, n) {
						break
					}
				}
				// hold the slot for a moment (varying), so that holders overlap
				for spin := (i + int(n)) % 7; spin > 0; spin-- {
					runtime.Gosched()
				}
				holders.Add(-1)
				h.VerifReleaseSlot()
			}
		}()
	}
	start.Store(true)
	wg.Wait()
	// everybody is gone: exactly `limit` slots must be free again (no more: a counter below zero)
	fin := 0
	for fin <= limit+thr && h.VerifAcquireSlot() == nil {
		fin++
	}
	return fmt.Sprintf("max %d fin %d", maxSeen.Load(), fin)
}

func execSlotRace(f []string) (obs string) {
	v, ok := parseKV(f, "lim", "it")
	if !ok || v[0] < 2 || v[0] > 16 {
		return "bad-case"
	}
	limit, iters := v[0], v[1]
	setProcs(allProcs)
	defer func() {
		if r := recover(); r != nil {
			obs = "panic " + strings.ReplaceAll(fmt.Sprint(r), "\n", " ")
		}
	}()
	maxLive := 0
	for it := 0; it < iters; it++ {
		func() {
			ctx, cancel := context.WithCancel(context.Background())
			defer cancel()
			cl := &fakeClient{ctx: ctx, dialed: map[uint64]net.Conn{}}
			h := mapping.NewBaseMappingHandler(cl, config.MappingConfig{MappingID: "m1", Protocol: "tcp", LocalPort: 1, MaxConnections: limit}, fakeAdapter{})
			defer h.Close()
			var pipes []net.Conn
			defer func() {
				for _, p := range pipes {
					p.Close()
				}
			}()
			open := func() {
				local, remote := net.Pipe()
				pipes = append(pipes, remote)
				h.VerifHandleConnection(local)
			}
			// limit-1 tunnels are open: the release loads limit-1, the arrival's CompareAndSwap fits in
			for i := 0; i < limit-1; i++ {
				open()
			}
			tm := h.GetTunnelManager()
			ts := tm.ListTunnels()
			if len(ts) != limit-1 || len(ts) == 0 {
				return
			}
			var start atomic.Bool
			var wg sync.WaitGroup
			wg.Add(2)
			local, remote := net.Pipe()
			pipes = append(pipes, remote)
			go func() {
				defer wg.Done()
				for !start.Load() {
				}
				tm.CloseTunnel(ts[0].GetID(), tunnel.CloseReasonPeerClosed) // OnClosed -> releaseConnectionSlot
			}()
			go func() {
				defer wg.Done()
				for !start.Load() {
				}
				// Tunnel.Close does some work before OnClosed: arrive a little later, by a varying amount
				for spin := 0; spin < (it%128)*4; spin++ {
					runtime.Gosched()
				}
				h.VerifHandleConnection(local) // acquireConnectionSlot
			}()
			start.Store(true)
			wg.Wait()
			// one after the other until one is refused
			for i := 0; i < limit+2; i++ {
				before := tm.CountTunnels()
				open()
				if tm.CountTunnels() == before {
					break
				}
			}
			if n := tm.CountTunnels(); n > maxLive {
				maxLive = n
			}
		}()
	}
	return fmt.Sprintf("max %d", maxLive)
}
