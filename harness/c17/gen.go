//go:build verif

package main

import (
	"fmt"
	"strings"

	"tunnox-core/internal/verifharness/common"
)

type thrSpec struct {
	inst int
	ops  string // letters a / r
}

func mkCase(proto string, limit, pre int, thr []thrSpec, sched []int) string {
	var sb strings.Builder
	fmt.Fprintf(&sb, "p %s lim %d pre %d thr %d", proto, limit, pre, len(thr))
	for _, t := range thr {
		fmt.Fprintf(&sb, " %d %d", t.inst, len(t.ops))
		for _, o := range t.ops {
			// A..E = a revocation whose storage call 0..4 fails
			if o >= 'A' && o <= 'E' {
				sb.WriteString(fmt.Sprintf(" v%d", o-'A'))
			} else {
				sb.WriteString(" " + string(o))
			}
		}
	}
	fmt.Fprintf(&sb, " sch %d", len(sched))
	for _, s := range sched {
		fmt.Fprintf(&sb, " %d", s)
	}
	return sb.String()
}

// mkCaseDead: the client also has `dead` revoked entries in its index.
func mkCaseDead(proto string, limit, pre, dead int, thr []thrSpec, sched []int) string {
	c := mkCase(proto, limit, pre, thr, sched)
	return strings.Replace(c, fmt.Sprintf(" pre %d thr ", pre), fmt.Sprintf(" pre %d dead %d thr ", pre, dead), 1)
}

func mkFree(proto string, limit, pre, n int) string {
	return fmt.Sprintf("free p %s lim %d pre %d n %d", proto, limit, pre, n)
}

func mkFreeIt(proto string, limit, pre, n, iters int) string {
	return fmt.Sprintf("free p %s lim %d pre %d n %d it %d", proto, limit, pre, n, iters)
}

// C': stress — the same boundary race repeated on fresh state (windows no gate can reach:
// Load..CompareAndSwap of the mapping handler, the lock hand-over of the registries).
func genStress(tier string, emit func(string)) {
	iters := 2000
	if tier == "thorough" {
		iters = 12000
	}
	for _, proto := range []string{"map", "mapu", "tun", "conn"} {
		for _, limit := range []int{1, 3} {
			it := iters
			if proto == "tun" || proto == "conn" {
				it = iters / 6
			} else if limit > 1 {
				it = iters / 3
			}
			emit(mkFreeIt(proto, limit, limit-1, 8, it))
		}
	}
	emit(mkFreeIt("code", 2, 1, 6, iters/20))
	emit(mkFreeIt("mapq", 2, 1, 6, iters/20))
}

// steps one admission takes when nothing interferes (upper bound used to size schedules)
func admitSteps(proto string, occ int) int {
	switch proto {
	case "conn":
		return 2
	case "code":
		return 1 + 1 + occ + 3 + 1
	case "mapq":
		return 3
	}
	return 1
}

var zu = map[string]bool{"conn": true, "conng": true, "ctrl": true, "ctrlx": true, "tun": true, "map": true, "mapu": true, "code": false, "mapq": false}

// every sequence over {0..n-1} of the given length
func allSchedules(n, length int, f func([]int)) {
	s := make([]int, length)
	var rec func(i int)
	rec = func(i int) {
		if i == length {
			f(append([]int(nil), s...))
			return
		}
		for t := 0; t < n; t++ {
			s[i] = t
			rec(i + 1)
		}
	}
	rec(0)
}

// every interleaving of n threads each taking `steps` steps (multiset permutations)
func allInterleavings(n, steps int, f func([]int)) {
	left := make([]int, n)
	for i := range left {
		left[i] = steps
	}
	var cur []int
	var rec func()
	rec = func() {
		done := true
		for t := 0; t < n; t++ {
			if left[t] > 0 {
				done = false
				left[t]--
				cur = append(cur, t)
				rec()
				cur = cur[:len(cur)-1]
				left[t]++
			}
		}
		if done {
			f(append([]int(nil), cur...))
		}
	}
	rec()
}

// A: exhaustive small scope — N racing admissions at limit-1 occupancy (and at the limit, and
// well below it), every interleaving of their atomic steps.
func genExhaustive(tier string, emit func(string)) {
	for _, proto := range []string{"conn", "conng", "ctrl", "tun", "map", "mapu", "code", "mapq"} {
		limits := []int{1, 2, 3}
		if zu[proto] {
			limits = []int{0, 1, 2, 3}
		} else {
			limits = []int{0, 1, 2}
		}
		for _, limit := range limits {
			var pres []int
			switch {
			case limit == 0 && zu[proto]:
				pres = []int{0, 2}
			case limit == 0:
				pres = []int{0}
			default:
				pres = []int{limit - 1, limit}
				if limit >= 2 {
					pres = append(pres, 0)
				}
			}
			for _, pre := range pres {
				maxN := 3
				if proto == "code" && tier == "quick" {
					maxN = 2
				}
				for n := 2; n <= maxN; n++ {
					steps := admitSteps(proto, pre+n)
					if proto == "code" && n == 3 {
						continue // 3 x (7+occ) steps: too many interleavings to enumerate; covered by genRandomInterleavings
					}
					thr := make([]thrSpec, n)
					for i := range thr {
						thr[i] = thrSpec{0, "a"}
					}
					if proto == "code" || proto == "mapq" {
						// a waiting request re-tries: give blocked steps room by repeating the round
						cnt := 0
						allInterleavings(n, steps, func(s []int) {
							cnt++
							// the mutex turns most of these interleavings into runs of blocked steps: sample them
							stride := 1
							switch {
							case proto == "code" && tier == "quick":
								stride = 293
							case proto == "code":
								stride = 23
							case tier == "quick" && n == 3:
								stride = 23
							case n == 3:
								stride = 3 // the racer scenarios below enumerate 3 requests in full
							}
							if cnt%stride != 1%stride {
								return
							}
							// blocked steps consume schedule slots: append a drain so that every request finishes
							drain := make([]int, 0, n*steps)
							for r := 0; r < steps; r++ {
								for t := 0; t < n; t++ {
									drain = append(drain, t)
								}
							}
							emit(mkCase(proto, limit, pre, thr, append(s, drain...)))
						})
					} else {
						allInterleavings(n, steps, func(s []int) { emit(mkCase(proto, limit, pre, thr, s)) })
					}
				}
			}
		}
	}
	// admissions racing with releases: 2 threads, programs over {a, r} of length 2, all interleavings
	for _, proto := range []string{"conn", "conng", "ctrl", "tun"} {
		for _, limit := range []int{1, 2} {
			for _, p0 := range []string{"ar", "aa"} {
				for _, p1 := range []string{"a", "ar", "ra"} {
					thr := []thrSpec{{0, p0}, {0, p1}}
					allInterleavings(2, 2*admitSteps(proto, 0), func(s []int) { emit(mkCase(proto, limit, limit-1, thr, s)) })
				}
			}
		}
	}
}

// A2: N >= 3 racers at occupancy limit-2 and limit-1 (distinct codes; same client, and one request
// of another client mixed in).  With three requests one can hold the critical section, one can wait
// for it and one can arrive after the hand-over; two racers never show that.
func genRacers(tier string, emit func(string)) {
	withDrain := func(n, steps int, s []int) []int {
		out := append([]int(nil), s...)
		for r := 0; r < steps; r++ {
			for t := 0; t < n; t++ {
				out = append(out, t)
			}
		}
		return out
	}
	type cfg struct{ limit, pre int }
	cfgs := []cfg{{2, 0}, {2, 1}, {3, 1}, {3, 2}, {1, 0}}
	// quotas on mappings: 3 steps per request, every interleaving of 3 requests
	for ci, c := range cfgs {
		for _, ops := range [][]string{{"a", "a", "a"}, {"a", "a", "o"}, {"a", "o", "a"}} {
			stride := 1
			if tier == "quick" {
				switch {
				case ci == 0 && ops[1] == "a" && ops[2] == "a":
					stride = 2 // occupancy limit-2, three requests of one client: every second interleaving (all in thorough)
				case ci == 1 && ops[1] == "a" && ops[2] == "a":
					stride = 5
				default:
					stride = 23
				}
			} else if ops[1] == "o" || ops[2] == "o" {
				stride = 3
			}
			thr := []thrSpec{{0, ops[0]}, {0, ops[1]}, {0, ops[2]}}
			cnt := 0
			allInterleavings(3, 3, func(s []int) {
				cnt++
				if cnt%stride != 1%stride {
					return
				}
				emit(mkCase("mapq", c.limit, c.pre, thr, withDrain(3, 3, s)))
			})
		}
	}
	// 4 requests (3 of the client + 1 other, and 4 of the client): sampled enumeration
	for _, c := range cfgs[:4] {
		for _, last := range []string{"a", "o"} {
			stride := 801
			if tier == "quick" {
				stride = 8009
			}
			thr := []thrSpec{{0, "a"}, {0, "a"}, {0, "a"}, {0, last}}
			cnt := 0
			allInterleavings(4, 3, func(s []int) {
				cnt++
				if cnt%stride != 1 {
					return
				}
				emit(mkCase("mapq", c.limit, c.pre, thr, withDrain(4, 3, s)))
			})
		}
	}
	// the other admission protocols: 3 and 4 racers, every interleaving
	for _, proto := range []string{"conn", "conng", "ctrl", "tun", "map", "mapu"} {
		for _, c := range cfgs[:4] {
			for n := 3; n <= 4; n++ {
				steps := admitSteps(proto, 0)
				stride := 1
				if proto == "conn" && n == 4 && tier == "quick" {
					stride = 7
				}
				thr := make([]thrSpec, n)
				for i := range thr {
					thr[i] = thrSpec{0, "a"}
				}
				cnt := 0
				allInterleavings(n, steps, func(s []int) {
					cnt++
					if cnt%stride != 1%stride {
						return
					}
					emit(mkCase(proto, c.limit, c.pre, thr, s))
				})
			}
		}
	}
	// free-running: 3, 4 and 8 requests at limit-2 and limit-1, repeated on fresh state
	iters := 45
	if tier == "thorough" {
		iters = 600
	}
	for _, proto := range []string{"conn", "conng", "tun", "map", "mapu", "code", "mapq"} {
		for _, n := range []int{3, 4, 8} {
			for _, c := range []cfg{{3, 1}, {2, 0}, {2, 1}} {
				it := iters
				if proto == "code" || proto == "mapq" {
					it = iters / 3
				}
				emit(mkFreeIt(proto, c.limit, c.pre, n, it))
			}
		}
	}
}

// A3: ClientRegistry.Register with the victim's Close() as a gate: (A inside Close) x (B complete |
// B queued | B inside its own Close), N in {2,3}, caps 1, 2, 5, occupancy cap-1 and cap, one and two
// registrations per thread, every interleaving.
func genCtrlX(tier string, emit func(string)) {
	for _, limit := range []int{1, 2, 5, 0} {
		pres := []int{limit - 1, limit}
		if limit == 0 {
			pres = []int{0, 3}
		}
		for _, pre := range pres {
			for _, n := range []int{2, 3} {
				for _, ops := range []string{"a", "aa"} {
					steps := 2 * len(ops)
					if n == 3 && len(ops) == 2 && tier == "quick" {
						continue
					}
					thr := make([]thrSpec, n)
					for i := range thr {
						thr[i] = thrSpec{0, ops}
					}
					stride := 1
					if n == 3 && len(ops) == 2 {
						stride = 151
					}
					cnt := 0
					allInterleavings(n, steps, func(s []int) {
						cnt++
						if cnt%stride != 1%stride {
							return
						}
						// waiting and the entry step after a hand-over take extra schedule slots: drain
						out := append([]int(nil), s...)
						for r := 0; r < 3*len(ops)+1; r++ {
							for t := 0; t < n; t++ {
								out = append(out, t)
							}
						}
						emit(mkCase("ctrlx", limit, pre, thr, out))
					})
				}
			}
		}
	}
}

// A4: the slot across the life of its tunnel — close events interleaved with the steps of
// handleConnection, in particular a close between RegisterTunnel and Start, followed by limit+1 openings.
func mkSlot(limit int, toks []string) string {
	return fmt.Sprintf("slot lim %d sch %d %s", limit, len(toks), strings.Join(toks, " "))
}

func genSlot(r *common.Rand, tier string, emit func(string)) {
	// every schedule over {s0, s1, c0, c1} of the given length at limit 1 (and 2 connections at limit 2)
	length := 6
	if tier == "thorough" {
		length = 7
	}
	alpha := []string{"s0", "s1", "c0", "c1"}
	allSchedules(len(alpha), length, func(s []int) {
		toks := make([]string, len(s))
		for i, x := range s {
			toks[i] = alpha[x]
		}
		emit(mkSlot(1, toks))
	})
	// … and with failing steps (prepare / quota / dial / RegisterTunnel errors) in the alphabet
	alpha2 := []string{"s0", "s1", "c0", "c1", "f0", "f1"}
	allSchedules(len(alpha2), length-1, func(s []int) {
		toks := make([]string, len(s))
		nf := 0
		for i, x := range s {
			toks[i] = alpha2[x]
			if x >= 4 {
				nf++
			}
		}
		if nf == 0 {
			return // enumerated above
		}
		emit(mkSlot(1, toks))
	})
	// histories: k connections whose tunnel is closed at position p of their life (0 = before the slot is
	// taken, 1 = before RegisterTunnel, 2 = in the window before Start, 3 = after Start), then limit+1
	// new connections are opened completely, round-robin or one after the other
	for _, limit := range []int{1, 2, 3} {
		for k := 1; k <= 2; k++ {
			for p := 0; p <= 5; p++ {
				for _, rr := range []bool{false, true} {
					var toks []string
					for j := 0; j < k; j++ {
						for st := 0; st < 3; st++ {
							if st == p {
								toks = append(toks, fmt.Sprintf("c%d", j))
							}
							if st == p-4 {
								toks = append(toks, fmt.Sprintf("f%d", j)) // the injectable call of this step fails
								break
							}
							toks = append(toks, fmt.Sprintf("s%d", j))
						}
						if p == 3 {
							toks = append(toks, fmt.Sprintf("c%d", j))
						}
					}
					m := limit + 1
					if rr {
						for st := 0; st < 3; st++ {
							for j := 0; j < m; j++ {
								toks = append(toks, fmt.Sprintf("s%d", k+j))
							}
						}
					} else {
						for j := 0; j < m; j++ {
							for st := 0; st < 3; st++ {
								toks = append(toks, fmt.Sprintf("s%d", k+j))
							}
						}
					}
					emit(mkSlot(limit, toks))
				}
			}
		}
	}
	// random: steps and closes of up to limit+3 connections
	count := 1500
	if tier == "thorough" {
		count = 15000
	}
	for i := 0; i < count; i++ {
		limit := r.Intn(4)
		n := 2 + r.Intn(limit+2)
		ln := 6 + r.Intn(6*n)
		toks := make([]string, ln)
		for j := range toks {
			c := r.Intn(n)
			if x := r.Intn(10); x < 3 {
				toks[j] = fmt.Sprintf("c%d", c)
			} else if x == 3 {
				toks[j] = fmt.Sprintf("f%d", c)
			} else {
				toks[j] = fmt.Sprintf("s%d", c)
			}
		}
		emit(mkSlot(limit, toks))
	}
}

// A5 (coverage audit): index entries that are not active (revoked codes / mappings: read by every
// count, must not be counted), the shipped default quotas at quota-1, racers on top of them.
func genQuotaShapes(r *common.Rand, tier string, emit func(string)) {
	drain := func(n, steps int, s []int) []int {
		out := append([]int(nil), s...)
		for rr := 0; rr < steps; rr++ {
			for t := 0; t < n; t++ {
				out = append(out, t)
			}
		}
		return out
	}
	aaa := []thrSpec{{0, "a"}, {0, "a"}, {0, "a"}}
	for _, dead := range []int{1, 3} {
		for _, c := range [][2]int{{1, 0}, {2, 1}, {2, 0}, {3, 2}} {
			cnt := 0
			allInterleavings(3, 3, func(s []int) {
				cnt++
				if cnt%29 != 1 && tier == "quick" || cnt%3 != 1 {
					return
				}
				emit(mkCaseDead("mapq", c[0], c[1], dead, aaa, drain(3, 3, s)))
			})
			// codes: 2 racers, bursts
			steps := admitSteps("code", c[1]+dead+2)
			for i := 0; i < 40; i++ {
				left := []int{steps, steps}
				var sched []int
				for left[0]+left[1] > 0 {
					t := r.Intn(2)
					if left[t] == 0 {
						t = 1 - t
					}
					sched = append(sched, t)
					left[t]--
				}
				emit(mkCaseDead("code", c[0], c[1], dead, []thrSpec{{0, "a"}, {0, "a"}}, drain(2, steps, sched)))
			}
		}
	}
	// default quotas (10 codes, 50 mappings per client) one below the quota
	for i := 0; i < 6; i++ {
		steps := admitSteps("code", 12)
		var sched []int
		left := []int{steps, steps, steps}
		for left[0]+left[1]+left[2] > 0 {
			t := r.Intn(3)
			if left[t] > 0 {
				sched = append(sched, t)
				left[t]--
			}
		}
		emit(mkCase("code", 10, 9, aaa, drain(3, steps, sched)))
		emit(mkCaseDead("code", 10, 8, 2, aaa, drain(3, steps+2, sched)))
	}
	cnt := 0
	allInterleavings(3, 3, func(s []int) {
		cnt++
		if cnt%97 == 1 {
			emit(mkCase("mapq", 50, 49, aaa, drain(3, 3, s)))
			emit(mkCaseDead("mapq", 50, 48, 2, aaa, drain(3, 3, s)))
		}
	})
	emit(mkFreeIt("code", 10, 9, 6, 20))
	emit(mkFreeIt("mapq", 50, 49, 6, 20))
}

// A6: revocation through the service racing a request at the quota, with a storage fault on any one of
// the revocation's calls.  The code being revoked must stay counted until it can no longer be activated.
func genRevoke(tier string, emit func(string)) {
	const rsteps = 6 // arrival + claim, read, Set, Set, release claim
	for _, limit := range []int{1, 2} {
		pre := limit - 1
		csteps := admitSteps("code", limit)
		for _, v := range []byte{'v', 'A', 'B', 'C', 'D', 'E'} {
			thr := []thrSpec{{0, "a" + string(v)}, {0, "a"}}
			var head []int
			for i := 0; i < admitSteps("code", pre); i++ {
				head = append(head, 0)
			}
			cnt := 0
			// the racing request runs in at most two blocks, placed anywhere among the revocation's steps
			for i := 0; i <= rsteps; i++ {
				for j := i; j <= rsteps; j++ {
					for cut := 0; cut <= csteps; cut++ {
						if i == j && cut != 0 {
							continue
						}
						cnt++
						if tier == "quick" && cnt%3 != 1 {
							continue
						}
						sched := append([]int(nil), head...)
						for p := 0; p <= rsteps; p++ {
							if p == i {
								for x := 0; x < csteps-cut; x++ {
									sched = append(sched, 1)
								}
							}
							if p == j {
								for x := 0; x < cut; x++ {
									sched = append(sched, 1)
								}
							}
							if p < rsteps {
								sched = append(sched, 0)
							}
						}
						for x := 0; x < csteps; x++ {
							sched = append(sched, 1, 0)
						}
						emit(mkCase("code", limit, pre, thr, sched))
					}
				}
			}
		}
	}
}

// A7: the slot counter at full speed — acquisitions and releases of many connections in parallel (the
// windows inside acquireConnectionSlot and releaseConnectionSlot have no injectable call), and the
// same race through the real paths (tunnel close vs. arriving connection), then arrivals until refused.
func genCounter(tier string, emit func(string)) {
	it, rounds := 60000, 3000
	if tier == "thorough" {
		it, rounds = 400000, 20000
	}
	for _, c := range [][2]int{{2, 8}, {3, 8}, {4, 6}, {2, 4}, {5, 8}, {1, 4}} {
		emit(fmt.Sprintf("free slot lim %d thr %d it %d", c[0], c[1], it))
	}
	for _, limit := range []int{2, 3} {
		emit(fmt.Sprintf("free race lim %d it %d", limit, rounds))
	}
}

// A8: usage update (read / write-back) x revocation x activation at the quota, all on mapping 0.
// The record requests run on threads whose `inst` (7) stands for the record lock.
func genRmw(tier string, emit func(string)) {
	for _, limit := range []int{1, 2, 3} {
		for _, pre := range []int{limit, limit - 1} {
			if pre < 1 {
				continue
			}
			for _, thr := range [][]thrSpec{
				{{7, "u"}, {7, "w"}, {0, "a"}},
				{{7, "u"}, {7, "w"}, {0, "aa"}},
				{{7, "u"}, {7, "u"}, {7, "w"}, {0, "a"}},
			} {
				steps := make([]int, len(thr))
				total := 0
				for i, t := range thr {
					steps[i] = 2
					if t.ops[0] == 'a' {
						steps[i] = 3 * len(t.ops)
					}
					total += steps[i]
				}
				cnt := 0
				stride := 1
				if len(thr) == 4 || len(thr[2].ops) > 1 {
					stride = 7
				}
				if tier == "quick" {
					stride *= 5
					if limit == 3 {
						stride *= 3
					}
				}
				var cur []int
				var rec func()
				rec = func() {
					if len(cur) == total {
						cnt++
						if cnt%stride != 1%stride {
							return
						}
						out := append([]int(nil), cur...)
						for r := 0; r < 4; r++ {
							for t := range thr {
								out = append(out, t)
							}
						}
						emit(mkCase("mapq", limit, pre, thr, out))
						return
					}
					for t := range thr {
						if steps[t] > 0 {
							steps[t]--
							cur = append(cur, t)
							rec()
							cur = cur[:len(cur)-1]
							steps[t]++
						}
					}
				}
				rec()
			}
		}
	}
}

// A': random interleavings of N racing admissions at the boundary (scopes too large to enumerate).
func genRandomInterleavings(r *common.Rand, count int, emit func(string)) {
	for i := 0; i < count; i++ {
		proto := common.Pick(r, []string{"code", "code", "mapq", "conn"})
		limit := 1 + r.Intn(4)
		pre := limit - 1
		switch r.Intn(5) {
		case 0:
			pre = limit
		case 1, 2:
			if limit >= 2 {
				pre = limit - 2
			}
		}
		n := 3 + r.Intn(3)
		steps := admitSteps(proto, pre+n)
		thr := make([]thrSpec, n)
		left := make([]int, n)
		for t := range thr {
			thr[t] = thrSpec{0, "a"}
			if (proto == "code" || proto == "mapq") && r.Intn(5) == 0 {
				thr[t] = thrSpec{0, "o"} // a request of another client through the same service
			}
			left[t] = steps
		}
		var sched []int
		for rem := n * steps; rem > 0; {
			t := r.Intn(n)
			if left[t] == 0 {
				continue
			}
			// short bursts so that several requests sit between their check and their insert
			b := 1 + r.Intn(2)
			for ; b > 0 && left[t] > 0; b-- {
				sched = append(sched, t)
				left[t]--
				rem--
			}
		}
		for rr := 0; rr < steps; rr++ {
			for t := 0; t < n; t++ {
				sched = append(sched, t)
			}
		}
		emit(mkCase(proto, limit, pre, thr, sched))
	}
}

// B: random — 1-6 threads, limits 0..5, any admissible initial occupancy, programs of admits and
// releases, random schedules long enough to finish most programs.
func genRandom(r *common.Rand, count int, emit func(string)) {
	protos := []string{"conn", "conn", "conng", "ctrl", "tun", "map", "mapu", "code", "mapq", "mapq"}
	for i := 0; i < count; i++ {
		proto := common.Pick(r, protos)
		limit := r.Intn(6)
		if !zu[proto] && r.Intn(4) > 0 {
			limit = 1 + r.Intn(4)
		}
		pre := 0
		switch {
		case limit == 0 && zu[proto]:
			pre = r.Intn(4)
		case limit == 0:
			pre = 0
		case r.Intn(3) > 0:
			pre = limit - 1
		default:
			pre = r.Intn(limit + 1)
		}
		n := 1 + r.Intn(6)
		if proto == "code" {
			n = 1 + r.Intn(4)
		}
		thr := make([]thrSpec, n)
		total := 0
		for t := range thr {
			nops := 1 + r.Intn(3)
			ops := ""
			for j := 0; j < nops; j++ {
				// quota protocols: releases are not interleaved with the storage reads of a count (see assumptions)
				switch {
				case j > 0 && r.Intn(3) == 0 && proto != "code" && proto != "mapq":
					ops += "r"
				case (proto == "code" || proto == "mapq") && r.Intn(6) == 0:
					ops += "o"
				case proto == "code" && j > 0 && r.Intn(3) == 0:
					ops += string("vvABCDE"[r.Intn(7)])
				default:
					ops += "a"
				}
			}
			thr[t] = thrSpec{0, ops}
			total += nops * admitSteps(proto, pre+n)
		}
		ln := total + r.Intn(total+1)
		if proto == "code" || proto == "mapq" {
			ln = 2 * total
		}
		sched := make([]int, ln)
		// bursts: a thread tends to keep the processor for a few steps
		cur := r.Intn(n)
		for j := range sched {
			if r.Intn(3) == 0 {
				cur = r.Intn(n)
			}
			sched[j] = cur
		}
		emit(mkCase(proto, limit, pre, thr, sched))
	}
}

// C: free-running boundary races (no gates): n requests released together at limit-1 occupancy.
func genFree(r *common.Rand, rounds int, emit func(string)) {
	for i := 0; i < rounds; i++ {
		for _, proto := range []string{"conn", "tun", "map", "mapu", "code", "mapq"} {
			limit := 1 + r.Intn(4)
			if zu[proto] && r.Intn(8) == 0 {
				limit = 0
			}
			pre := 0
			if limit > 0 {
				pre = limit - 1
				if r.Intn(4) == 0 {
					pre = r.Intn(limit + 1)
				}
			}
			n := 2 + r.Intn(7)
			emit(mkFree(proto, limit, pre, n))
		}
	}
}

// D: two service instances on one store (two nodes): each holds only its own mutex.
// Known finding quota-multi-node; the schedule lets both count before either creates.
func genMultiNode(emit func(string)) {
	emit("K:quota-multi-node " + mkCase("mapq", 1, 0, []thrSpec{{0, "a"}, {1, "a"}}, []int{0, 1, 0, 1, 0, 1}))
	emit("K:quota-multi-node " + mkCase("code", 1, 0, []thrSpec{{0, "a"}, {1, "a"}}, []int{0, 1, 0, 1, 0, 1, 0, 1, 0, 1, 0, 1}))
	emit("K:quota-multi-node " + mkCase("mapq", 2, 1, []thrSpec{{0, "a"}, {1, "a"}, {2, "a"}}, []int{0, 1, 2, 0, 1, 2, 0, 1, 2}))
}

func generate(r *common.Rand, tier string, emit func(string)) {
	emit("caps")
	genExhaustive(tier, emit)
	genRacers(tier, emit)
	genCtrlX(tier, emit)
	genSlot(r, tier, emit)
	genQuotaShapes(r, tier, emit)
	genRevoke(tier, emit)
	genCounter(tier, emit)
	genRmw(tier, emit)
	genMultiNode(emit)
	genStress(tier, emit)
	if tier == "thorough" {
		genRandomInterleavings(r, 3000, emit)
		genRandom(r, 9000, emit)
		genFree(r, 150, emit)
	} else {
		genRandomInterleavings(r, 300, emit)
		genRandom(r, 2000, emit)
		genFree(r, 25, emit)
	}
}
