//go:build verif

// Harness for C17: drives the REAL admission code of tunnox-core against configured limits
// under forced interleavings.
//
//	conn  session.SessionManager.CreateConnection      (gate: GetConnectionID() of the fake reader)
//	ctrl  SessionManager.RegisterControlConnection -> ClientRegistry.Register (one critical section)
//	tun   session.TunnelRegistry.Register              (one critical section)
//	map   mapping.BaseMappingHandler.handleConnection  (limit from the mapping config)
//	mapu  the same, limit from the user quota (GetUserQuota)
//	code  conncode.Service.CreateConnectionCode over repos.ConnectionCodeRepository over a GATED
//	      storage (one step = one storage call)
//	mapq  conncode.Service.ActivateConnectionCode with gated GetClientPortMappings / CreatePortMapping
//
// A case string fixes the protocol, the limit, the initial occupancy, the per-thread programs
// (a = admit, r = release what I was admitted with) and the schedule.  After every step the
// scheduler reads the occupancy the way an outside observer would and a digest of the whole state.
package main

import (
	"context"
	"encoding/json"
	"flag"
	"fmt"
	"io"
	"net"
	"os"
	"runtime"
	"sort"
	"strconv"
	"strings"
	"sync"
	"sync/atomic"
	"time"
	"tunnox-core/internal/constants"

	"tunnox-core/internal/client/mapping"
	"tunnox-core/internal/cloud/models"
	"tunnox-core/internal/cloud/repos"
	"tunnox-core/internal/cloud/services"
	"tunnox-core/internal/cloud/services/conncode"
	"tunnox-core/internal/config"
	coreerrors "tunnox-core/internal/core/errors"
	"tunnox-core/internal/core/idgen"
	corelog "tunnox-core/internal/core/log"
	"tunnox-core/internal/core/storage"
	"tunnox-core/internal/core/types"
	"tunnox-core/internal/protocol/session"
	"tunnox-core/internal/stream"
	"tunnox-core/internal/utils/random"
	"tunnox-core/internal/verifharness/common"
)

// ------------------------------------------------------------------ goroutine ids

func goid() uint64 {
	var buf [64]byte
	n := runtime.Stack(buf[:], false)
	f := strings.Fields(string(buf[:n]))
	if len(f) < 2 {
		return 0
	}
	id, _ := strconv.ParseUint(f[1], 10, 64)
	return id
}

// ------------------------------------------------------------------ gate

type thread struct {
	tid, inst  int
	ops        []byte
	state      int // 0 running, 1 parked, 2 done
	granted    bool
	gid        uint64
	bypass     bool   // gates pass through (release operations, set-up)
	atStart    bool   // parked at the operation-start gate
	res        string // result of the operation that completed in the last step
	resItem    string
	opDirty    bool
	wasBlocked bool   // was blocked before the last step of somebody else
	curOp      byte   // operation in progress
	opArgs     []int  // per operation: index of the storage call that fails (-1 = none)
	failAt     int    // current operation: storage call number that fails (-1 = none)
	callIdx    int    // storage calls issued by the current operation
	announced  string // code quota: the item of the current admission has been seen and numbered already
	failNext   bool   // slot scenarios: the next injectable call of this thread fails
	waited     bool   // a blk event was reported for the current request
	blocked    bool   // scheduler's cache: seen parked inside a lock since the last step of anybody
	own        string
}

type gate struct {
	mu      sync.Mutex
	cond    *sync.Cond
	byGid   map[uint64]*thread
	timeout bool
}

func newGate() *gate {
	g := &gate{byGid: map[uint64]*thread{}}
	g.cond = sync.NewCond(&g.mu)
	return g
}

func (g *gate) me() *thread {
	id := goid()
	g.mu.Lock()
	defer g.mu.Unlock()
	return g.byGid[id]
}

// enter blocks the calling thread until the scheduler grants its next step.
func (g *gate) enter() { g.enterAt(false) }

func (g *gate) enterAt(start bool) {
	th := g.me()
	if th == nil || th.bypass {
		return
	}
	g.mu.Lock()
	th.state = 1
	th.atStart = start
	g.cond.Broadcast()
	for !th.granted && !g.timeout {
		g.cond.Wait()
	}
	if g.timeout {
		g.mu.Unlock()
		runtime.Goexit()
	}
	th.granted = false
	th.state = 0
	th.atStart = false
	g.cond.Broadcast()
	g.mu.Unlock()
}

// release lets the parked thread go; it returns once the thread has left the gate.
func (g *gate) release(th *thread) {
	g.mu.Lock()
	defer g.mu.Unlock()
	if th.state != 1 {
		return
	}
	th.granted = true
	g.cond.Broadcast()
	for th.granted && !g.timeout {
		g.cond.Wait()
	}
}

// lockBlocked: which goroutines are parked inside a sync lock operation called from code under
// test (not from the harness's own gate).  The harness knows nothing about WHICH lock it is.
var dumpBuf = make([]byte, 1<<16)

var dumpN int
var dumpT time.Duration

func lockBlocked() map[uint64]bool {
	t0 := time.Now()
	defer func() { dumpN++; dumpT += time.Since(t0) }()
	buf := dumpBuf
	for {
		n := runtime.Stack(buf, true)
		if n < len(buf) {
			buf = buf[:n]
			break
		}
		dumpBuf = make([]byte, 2*len(buf))
		buf = dumpBuf
	}
	out := map[uint64]bool{}
	for _, blk := range strings.Split(string(buf), "\n\n") {
		if !strings.HasPrefix(blk, "goroutine ") {
			continue
		}
		lines := strings.Split(blk, "\n")
		head := lines[0]
		f := strings.Fields(head)
		if len(f) < 3 {
			continue
		}
		id, err := strconv.ParseUint(f[1], 10, 64)
		if err != nil {
			continue
		}
		st := head[strings.IndexByte(head, '[')+1:]
		if !(strings.HasPrefix(st, "sync.Mutex.Lock") || strings.HasPrefix(st, "sync.RWMutex.") || strings.HasPrefix(st, "semacquire")) {
			continue
		}
		// first frame that is neither runtime nor sync: it must be code under test
		for _, ln := range lines[1:] {
			if strings.HasPrefix(ln, "\t") || strings.HasPrefix(ln, " ") {
				continue
			}
			if strings.HasPrefix(ln, "sync.") || strings.HasPrefix(ln, "runtime.") || strings.HasPrefix(ln, "internal/") {
				continue
			}
			out[id] = !strings.Contains(ln, "tunnox-core/internal/verifharness")
			break
		}
	}
	return out
}

// quiesce waits until every thread is parked at a gate, finished, or blocked inside a lock of the
// code under test (seen in three consecutive goroutine dumps, so that a lock held for an instant by
// a background goroutine is not mistaken for a wait).
func (g *gate) quiesce(ths []*thread) {
	spins, confirm := 0, 0
	for {
		g.mu.Lock()
		var running []*thread
		for _, th := range ths {
			if th.state != 0 {
				th.blocked, th.wasBlocked = false, false
			} else if !th.blocked {
				running = append(running, th)
			}
		}
		to := g.timeout
		g.mu.Unlock()
		if len(running) == 0 || to {
			return
		}
		onlyOld := true
		for _, th := range running {
			if !th.wasBlocked {
				onlyOld = false
			}
		}
		spins++
		if spins < 200 && !onlyOld {
			// give a thread that is simply busy time to reach its next gate before stopping the world
			// (no time.Sleep here: its granularity is far coarser than a step)
			runtime.Gosched()
			continue
		}
		bl := lockBlocked()
		all := true
		for _, th := range running {
			if !bl[th.gid] {
				all = false
			}
		}
		for _, og := range pendingObservers() {
			if !bl[og] {
				all = false // an abandoned observation got its lock and is finishing: a writer may be waiting for it
			}
		}
		if all {
			confirm++
			// a thread that was already seen blocked and still is after somebody's step needs no
			// second look; a thread that has just run into a lock does
			need := 1
			for _, th := range running {
				if !th.wasBlocked {
					need = 3
				}
			}
			if confirm >= need {
				// a thread blocked in a lock stays so until some other thread takes a step
				for _, th := range running {
					th.blocked, th.wasBlocked = true, true
				}
				return
			}
			for i := 0; i < 20; i++ {
				runtime.Gosched()
			}
		} else {
			confirm = 0
			for i := 0; i < 20; i++ {
				runtime.Gosched()
			}
		}
	}
}

// stale: a step was taken, so a thread seen blocked before may have been woken.
func (g *gate) stale(ths []*thread) {
	for _, th := range ths {
		th.blocked = false
	}
}

// ------------------------------------------------------------------ gated storage (one step = one call)

type gatedStore struct {
	in storage.Storage
	g  *gate
}

// pre: the gate, then the fault point (the k-th storage call of a request can be made to fail).
func (w *gatedStore) pre() error {
	w.g.enter()
	if th := w.g.me(); th != nil && !th.bypass && th.failAt >= 0 {
		i := th.callIdx
		th.callIdx++
		if i == th.failAt {
			return common.ErrInjected
		}
	}
	return nil
}
func (w *gatedStore) Set(k string, v any, ttl time.Duration) error {
	if err := w.pre(); err != nil {
		return err
	}
	return w.in.Set(k, v, ttl)
}
func (w *gatedStore) Get(k string) (any, error) {
	if err := w.pre(); err != nil {
		return nil, err
	}
	return w.in.Get(k)
}
func (w *gatedStore) Delete(k string) error {
	if err := w.pre(); err != nil {
		return err
	}
	return w.in.Delete(k)
}
func (w *gatedStore) Exists(k string) (bool, error) {
	if err := w.pre(); err != nil {
		return false, err
	}
	return w.in.Exists(k)
}
func (w *gatedStore) SetExpiration(k string, ttl time.Duration) error {
	if err := w.pre(); err != nil {
		return err
	}
	return w.in.SetExpiration(k, ttl)
}
func (w *gatedStore) GetExpiration(k string) (time.Duration, error) {
	w.g.enter()
	return w.in.GetExpiration(k)
}
func (w *gatedStore) CleanupExpired() error { return nil }
func (w *gatedStore) Close() error          { return nil }
func (w *gatedStore) ls() storage.ListStore { return w.in.(storage.ListStore) }
func (w *gatedStore) SetList(k string, v []any, ttl time.Duration) error {
	if err := w.pre(); err != nil {
		return err
	}
	return w.ls().SetList(k, v, ttl)
}
func (w *gatedStore) GetList(k string) ([]any, error) {
	if err := w.pre(); err != nil {
		return nil, err
	}
	return w.ls().GetList(k)
}
func (w *gatedStore) AppendToList(k string, v any) error {
	if err := w.pre(); err != nil {
		return err
	}
	return w.ls().AppendToList(k, v)
}
func (w *gatedStore) RemoveFromList(k string, v any) error {
	if err := w.pre(); err != nil {
		return err
	}
	return w.ls().RemoveFromList(k, v)
}
func (w *gatedStore) SetNX(k string, v any, ttl time.Duration) (bool, error) {
	if err := w.pre(); err != nil {
		return false, err
	}
	return w.in.(storage.CASStore).SetNX(k, v, ttl)
}
func (w *gatedStore) CompareAndSwap(k string, o, n any, ttl time.Duration) (bool, error) {
	if err := w.pre(); err != nil {
		return false, err
	}
	return w.in.(storage.CASStore).CompareAndSwap(k, o, n, ttl)
}

type prefixQuerier interface {
	QueryByPrefix(prefix string, limit int) (map[string]string, error)
}

func storeDigest(s storage.Storage) string {
	q, ok := s.(prefixQuerier)
	if !ok {
		return "no-digest"
	}
	m, err := q.QueryByPrefix("", 0)
	if err != nil {
		return "digest-error"
	}
	ks := make([]string, 0, len(m))
	for k := range m {
		// id-generation markers carry timestamps of their own; everything else is compared verbatim
		ks = append(ks, k+"="+m[k])
	}
	sort.Strings(ks)
	return strings.Join(ks, "\x00")
}

// ------------------------------------------------------------------ environments

type env interface {
	setup() error
	admit(th *thread, name string) (ok bool, errTok string) // on the thread's goroutine; gates inside
	release(th *thread, name string) bool                   // ungated
	occupancy() int
	digest() string
	items() []string
	other(th *thread, seq int) string      // an admission by ANOTHER client through the same service instance ("" = ran)
	victimClosed(name string) bool         // the evicted item's resources were released
	revoke(th *thread, name string) string // give the item back through the service, gated ("" = the call returned)
	touch(th *thread, revoke bool) string  // read-modify-write of the record of item 0: usage update / revocation
	close()
}

type base struct {
	k      *kase
	g      *gate
	ctx    context.Context
	cancel context.CancelFunc
}

func (b *base) other(*thread, int) string     { return "err:no-other-client" }
func (b *base) victimClosed(string) bool      { return true }
func (b *base) revoke(*thread, string) string { return "err:no-revoke" }
func (b *base) touch(*thread, bool) string    { return "err:no-touch" }
func (b *base) close()                        { b.cancel() }

func errTok(err error) string {
	s := strings.ReplaceAll(err.Error(), " ", "_")
	if len(s) > 60 {
		s = s[:60]
	}
	return "err:" + s
}

// ---- conn

type fakeRW struct {
	id string
	g  *gate
}

func (f *fakeRW) Read(p []byte) (int, error)  { return 0, io.EOF }
func (f *fakeRW) Write(p []byte) (int, error) { return len(p), nil }
func (f *fakeRW) GetConnectionID() string     { f.g.enter(); return f.id }

type connEnv struct {
	base
	sm        *session.SessionManager
	mem       storage.Storage
	generated bool // `conng`: connections without an id of their own
	mu        sync.Mutex
	gen       map[string]string // item name -> generated connection id
}

func (e *connEnv) setup() error {
	mem := storage.NewMemoryStorage(e.ctx)
	e.mem = mem
	e.gen = map[string]string{}
	e.sm = session.NewSessionManagerWithConfig(idgen.NewIDManager(mem, e.ctx), e.ctx, &session.SessionConfig{
		HeartbeatTimeout: time.Hour, CleanupInterval: time.Hour, MaxConnections: e.k.limit, MaxControlConnections: 0})
	for i := 0; i < e.k.pre; i++ {
		if ok, et := e.admit(nil, fmt.Sprintf("p%d", i)); !ok {
			return fmt.Errorf("prefill refused %s", et)
		}
	}
	return nil
}

// plainRW: a reader / writer that brings no connection id.
type plainRW struct{}

func (plainRW) Read(p []byte) (int, error)  { return 0, io.EOF }
func (plainRW) Write(p []byte) (int, error) { return len(p), nil }

func (e *connEnv) admit(th *thread, name string) (bool, string) {
	rw := &fakeRW{id: name, g: e.g}
	var c interface{}
	var err error
	variant := 0
	if th != nil {
		variant = th.tid % 3
	}
	if e.generated {
		// the server generates the id: nothing injectable between check and insert (one step)
		var conn *types.Connection
		conn, err = e.sm.CreateConnection(plainRW{}, plainRW{})
		if conn != nil {
			c = conn
			e.mu.Lock()
			e.gen[name] = conn.ID
			e.mu.Unlock()
		}
	} else {
		switch variant {
		case 1:
			// only the WRITER brings the id (second way to the same decision)
			var conn *types.Connection
			conn, err = e.sm.CreateConnection(plainRW{}, rw)
			if conn != nil {
				c = conn
			}
		case 2:
			// the production entry point: AcceptConnection = CreateConnection + state update
			var sc *types.StreamConnection
			sc, err = e.sm.AcceptConnection(rw, rw)
			if sc != nil {
				c = sc
				if cc, ok := e.sm.GetConnection(sc.ID); !ok || cc.State != types.StateConnected {
					return false, "err:accepted-not-connected"
				}
			}
		default:
			var conn *types.Connection
			conn, err = e.sm.CreateConnection(rw, rw)
			if conn != nil {
				c = conn
			}
		}
	}
	if err != nil {
		if c != nil {
			return false, "err:conn-with-error"
		}
		if coreerrors.IsCode(err, coreerrors.CodeQuotaExceeded) {
			return false, ""
		}
		return false, errTok(err)
	}
	return true, ""
}
func (e *connEnv) realID(name string) string {
	e.mu.Lock()
	defer e.mu.Unlock()
	if id, ok := e.gen[name]; ok {
		return id
	}
	return name
}
func (e *connEnv) release(th *thread, name string) bool {
	id := e.realID(name)
	_, ok := e.sm.GetConnection(id)
	e.sm.CloseConnection(id)
	return ok
}
func (e *connEnv) occupancy() int { return e.sm.GetConnectionStats().TotalConnections }
func (e *connEnv) items() []string {
	e.mu.Lock()
	back := map[string]string{}
	for n, id := range e.gen {
		back[id] = n
	}
	e.mu.Unlock()
	var r []string
	for _, c := range e.sm.ListConnections() {
		if n, ok := back[c.ID]; ok {
			r = append(r, n)
		} else {
			r = append(r, c.ID)
		}
	}
	return r
}
func (e *connEnv) digest() string {
	it := e.items()
	sort.Strings(it)
	// streams of released connections stay registered in the stream manager (CloseConnection does not
	// remove them); what matters here is that a refused request leaves the number unchanged
	// (and, for generated ids, that the id marker of a refused connection is gone from the store)
	return fmt.Sprintf("%v/%d/%s", it, e.sm.GetStreamManager().GetStreamCount(), storeDigest(e.mem))
}
func (e *connEnv) close() { e.sm.Close(); e.cancel() }

// ---- ctrl

type ctrlEnv struct {
	base
	sm    *session.SessionManager
	seq   int64
	known []string
	mu    sync.Mutex
}

func (e *ctrlEnv) reg(name string) bool {
	e.mu.Lock()
	e.seq++
	seq := e.seq
	e.known = append(e.known, name)
	e.mu.Unlock()
	cc := session.NewControlConnection(name, nil, nil, "tcp")
	cc.CreatedAt = time.Unix(1700000000+seq, 0)
	if seq%2 == 0 {
		// every second connection is an authenticated one (client index maintained on insert / eviction)
		cc.Authenticated, cc.ClientID = true, 70000000+seq
	}
	e.sm.RegisterControlConnection(cc)
	if cc.Authenticated && e.sm.GetControlConnection(name) == cc && e.sm.GetControlConnectionByClientID(cc.ClientID) != cc {
		return false
	}
	return e.sm.GetControlConnection(name) == cc
}
func (e *ctrlEnv) setup() error {
	mem := storage.NewMemoryStorage(e.ctx)
	e.sm = session.NewSessionManagerWithConfig(idgen.NewIDManager(mem, e.ctx), e.ctx, &session.SessionConfig{
		HeartbeatTimeout: time.Hour, CleanupInterval: time.Hour, MaxConnections: 0, MaxControlConnections: e.k.limit})
	for i := 0; i < e.k.pre; i++ {
		if !e.reg(fmt.Sprintf("p%d", i)) {
			return fmt.Errorf("prefill refused")
		}
	}
	if e.occupancy() != e.k.pre {
		return fmt.Errorf("prefill evicted")
	}
	return nil
}
func (e *ctrlEnv) admit(th *thread, name string) (bool, string) { return e.reg(name), "" }
func (e *ctrlEnv) release(th *thread, name string) bool {
	ok := e.sm.GetControlConnection(name) != nil
	if th != nil && th.tid%2 == 1 {
		// the other way out of the registry: the connection is closed as a whole
		e.sm.CloseConnection(name)
	} else {
		e.sm.RemoveControlConnection(name)
	}
	return ok
}
func (e *ctrlEnv) occupancy() int { return e.sm.GetConnectionStats().ControlConnections }
func (e *ctrlEnv) items() []string {
	e.mu.Lock()
	defer e.mu.Unlock()
	var r []string
	for _, n := range e.known {
		if e.sm.GetControlConnection(n) != nil {
			r = append(r, n)
		}
	}
	return r
}
func (e *ctrlEnv) digest() string {
	it := e.items()
	sort.Strings(it)
	return fmt.Sprint(it, e.occupancy())
}
func (e *ctrlEnv) close() { e.sm.Close(); e.cancel() }

// ---- ctrlx: Register with stream doubles whose Close() is a gate

// gatedStream: the only method the registry calls on the stream of an evicted / removed connection
// is Close(); the harness can stop a thread inside it.
type gatedStream struct {
	stream.PackageStreamer
	g      *gate
	closed atomic.Bool
}

func (s *gatedStream) Close() { s.g.enter(); s.closed.Store(true) }

// guarded runs an observation that may need a lock of the code under test.  If the observer ends
// up parked in such a lock (a thread was stopped inside a critical section) the observation is
// abandoned: (zero, false).  The abandoned goroutine finishes by itself once the lock is free.
// observers: abandoned observations that are still waiting for a lock of the code under test.
// When that lock is released they run before the next writer gets it, so the scheduler must let
// them finish before it judges whether a thread is still blocked.
var observers struct {
	mu   sync.Mutex
	live map[uint64]bool
}

func pendingObservers() []uint64 {
	observers.mu.Lock()
	defer observers.mu.Unlock()
	var r []uint64
	for g := range observers.live {
		r = append(r, g)
	}
	return r
}

func guarded[T any](f func() T) (T, bool) {
	type res struct{ v T }
	ch := make(chan res, 1)
	gidc := make(chan uint64, 1)
	go func() {
		me := goid()
		observers.mu.Lock()
		if observers.live == nil {
			observers.live = map[uint64]bool{}
		}
		observers.live[me] = true
		observers.mu.Unlock()
		gidc <- me
		v := f()
		observers.mu.Lock()
		delete(observers.live, me)
		observers.mu.Unlock()
		ch <- res{v}
	}()
	gid := <-gidc
	confirm := 0
	for spins := 0; ; spins++ {
		select {
		case r := <-ch:
			return r.v, true
		default:
		}
		if spins < 200 {
			runtime.Gosched()
			continue
		}
		if lockBlocked()[gid] {
			confirm++
			if confirm >= 3 {
				var zero T
				return zero, false
			}
		} else {
			confirm = 0
		}
		for i := 0; i < 20; i++ {
			runtime.Gosched()
		}
	}
}

type ctrlxSnap struct {
	n     int
	items []string
}

type ctrlxEnv struct {
	base
	reg      *session.ClientRegistry
	seq      int64
	known    []string
	admitted map[string]bool
	streams  map[string]*gatedStream
	mu       sync.Mutex

	cached    ctrlxSnap
	snapEpoch int64
	haveSnap  bool
}

// epoch counts the moments at which state may have changed (a thread was let go, or has settled).
var epoch atomic.Int64

// register: the harness reads nothing back from the registry here (that would need its lock, which
// the next thread in line may already hold): Register's own answer says whether the connection is in.
func (e *ctrlxEnv) register(name string) bool {
	e.mu.Lock()
	e.seq++
	seq := e.seq
	e.known = append(e.known, name)
	st := &gatedStream{g: e.g}
	e.streams[name] = st
	e.mu.Unlock()
	cc := session.NewControlConnection(name, st, nil, "tcp")
	cc.CreatedAt = time.Unix(1700000000+seq, 0)
	err := e.reg.Register(cc)
	if err == nil {
		e.mu.Lock()
		e.admitted[name] = true
		e.mu.Unlock()
	}
	return err == nil
}
func (e *ctrlxEnv) setup() error {
	e.streams = map[string]*gatedStream{}
	e.admitted = map[string]bool{}
	e.reg = session.NewClientRegistry(&session.ClientRegistryConfig{MaxConnections: e.k.limit})
	for i := 0; i < e.k.pre; i++ {
		if !e.register(fmt.Sprintf("p%d", i)) {
			return fmt.Errorf("prefill refused")
		}
	}
	epoch.Add(1)
	if e.occupancy() != e.k.pre {
		return fmt.Errorf("prefill evicted")
	}
	return nil
}
func (e *ctrlxEnv) admit(th *thread, name string) (bool, string) { return e.register(name), "" }
func (e *ctrlxEnv) release(th *thread, name string) bool         { return false }

// snap: what the registry says, if it can be asked; while a thread is stopped inside the registry's
// critical section nobody can ask (any observer would wait for the lock), and the harness falls back
// to what it knows without the lock: connections whose Register succeeded and whose stream has not
// been closed by an eviction.
func (e *ctrlxEnv) snap() ctrlxSnap {
	// nothing moves between two steps: one observation per step boundary is enough
	if ep := epoch.Load(); e.haveSnap && e.snapEpoch == ep {
		return e.cached
	}
	s := e.snapNow()
	e.cached, e.snapEpoch, e.haveSnap = s, epoch.Load(), true
	return s
}

func (e *ctrlxEnv) snapNow() ctrlxSnap {
	e.mu.Lock()
	known := append([]string(nil), e.known...)
	e.mu.Unlock()
	s, ok := guarded(func() ctrlxSnap {
		var r ctrlxSnap
		r.n = e.reg.Count()
		for _, n := range known {
			if e.reg.GetByConnID(n) != nil {
				r.items = append(r.items, n)
			}
		}
		return r
	})
	if ok {
		return s
	}
	e.mu.Lock()
	defer e.mu.Unlock()
	var r ctrlxSnap
	for _, n := range known {
		if e.admitted[n] && !e.streams[n].closed.Load() {
			r.items = append(r.items, n)
		}
	}
	r.n = len(r.items)
	return r
}
func (e *ctrlxEnv) occupancy() int  { return e.snap().n }
func (e *ctrlxEnv) items() []string { return e.snap().items }
func (e *ctrlxEnv) digest() string {
	s := e.snap()
	it := append([]string(nil), s.items...)
	sort.Strings(it)
	return fmt.Sprint(it, s.n)
}
func (e *ctrlxEnv) victimClosed(name string) bool {
	e.mu.Lock()
	defer e.mu.Unlock()
	st := e.streams[name]
	return st != nil && st.closed.Load()
}

// ---- tun

type tunEnv struct {
	base
	r     *session.TunnelRegistry
	sm    *session.SessionManager // limit 0 only
	mu    sync.Mutex
	names []string
}

func (e *tunEnv) setup() error {
	e.r = session.NewTunnelRegistry(&session.TunnelRegistryConfig{MaxTunnels: e.k.limit})
	if e.k.limit == 0 {
		// the registry as the server builds it: SessionManager configures no tunnel cap
		mem := storage.NewMemoryStorage(e.ctx)
		e.sm = session.NewSessionManagerWithConfig(idgen.NewIDManager(mem, e.ctx), e.ctx, &session.SessionConfig{
			HeartbeatTimeout: time.Hour, CleanupInterval: time.Hour})
	}
	for i := 0; i < e.k.pre; i++ {
		if ok, _ := e.admit(nil, fmt.Sprintf("p%d", i)); !ok {
			return fmt.Errorf("prefill refused")
		}
	}
	return nil
}
func (e *tunEnv) admit(th *thread, name string) (bool, string) {
	if e.sm != nil {
		tc := &session.TunnelConnection{ConnID: name, TunnelID: "t-" + name}
		e.mu.Lock()
		e.names = append(e.names, name)
		e.mu.Unlock()
		e.sm.RegisterTunnelConnection(tc)
		return e.sm.GetTunnelConnectionByConnID(name) == tc, ""
	}
	err := e.r.Register(&session.TunnelConnection{ConnID: name, TunnelID: "t-" + name})
	if err != nil {
		if coreerrors.IsCode(err, coreerrors.CodeResourceExhausted) {
			return false, ""
		}
		return false, errTok(err)
	}
	return true, ""
}
func (e *tunEnv) release(th *thread, name string) bool {
	if e.sm != nil {
		ok := e.sm.GetTunnelConnectionByConnID(name) != nil
		e.sm.RemoveTunnelConnection(name)
		return ok
	}
	ok := e.r.GetByConnID(name) != nil
	e.r.Remove(name)
	return ok
}
func (e *tunEnv) occupancy() int {
	if e.sm != nil {
		return e.sm.GetConnectionStats().TunnelConnections
	}
	return e.r.Count()
}
func (e *tunEnv) items() []string {
	var r []string
	if e.sm != nil {
		e.mu.Lock()
		defer e.mu.Unlock()
		for _, n := range e.names {
			if e.sm.GetTunnelConnectionByConnID(n) != nil {
				r = append(r, n)
			}
		}
		return r
	}
	for _, c := range e.r.List() {
		r = append(r, c.ConnID)
	}
	return r
}
func (e *tunEnv) digest() string {
	it := e.items()
	sort.Strings(it)
	var t []string
	if e.sm != nil {
		for _, n := range it {
			if e.sm.GetTunnelConnectionByTunnelID("t-"+n) != nil {
				t = append(t, "t-"+n)
			}
		}
		return fmt.Sprint(it, t)
	}
	for _, c := range e.r.List() {
		if e.r.GetByTunnelID(c.TunnelID) != nil {
			t = append(t, c.TunnelID)
		}
	}
	sort.Strings(t)
	return fmt.Sprint(it, t)
}
func (e *tunEnv) close() {
	if e.sm != nil {
		e.sm.Close()
	}
	e.cancel()
}

// ---- map / mapu : the client-side mapping handler

type fakeClient struct {
	fail    func(kind int) bool // slot scenarios: the call of this kind fails for the calling thread
	ctx     context.Context
	quota   int
	mu      sync.Mutex
	dialed  map[uint64]net.Conn // calling goroutine -> far end of the tunnel pipe it was given
	inside  atomic.Int32        // handlers currently between admission and the end of DialTunnel
	maxIn   atomic.Int32
	hold    chan struct{} // free-running mode: DialTunnel waits here
	arrived chan struct{}
}

func (c *fakeClient) DialTunnel(tunnelID, mappingID, secretKey string) (net.Conn, stream.PackageStreamer, error) {
	if c.fail != nil && c.fail(0) {
		return nil, nil, fmt.Errorf("verif: injected dial failure")
	}
	n := c.inside.Add(1)
	for {
		m := c.maxIn.Load()
		if n <= m || c.maxIn.CompareAndSwap(m, n) {
			break
		}
	}
	if c.hold != nil {
		c.arrived <- struct{}{}
		<-c.hold
	}
	defer c.inside.Add(-1)
	near, far := net.Pipe()
	c.mu.Lock()
	c.dialed[goid()] = far
	c.mu.Unlock()
	return near, stream.NewStreamProcessor(near, near, c.ctx), nil
}
func (c *fakeClient) DialTunnelPooled(string, string) (mapping.PooledTunnelConnInterface, error) {
	return nil, nil
}
func (c *fakeClient) ReturnTunnelToPool(mapping.PooledTunnelConnInterface)  {}
func (c *fakeClient) CloseTunnelFromPool(mapping.PooledTunnelConnInterface) {}
func (c *fakeClient) IsTunnelPoolEnabled() bool                             { return false }
func (c *fakeClient) GetContext() context.Context                           { return c.ctx }
func (c *fakeClient) CheckMappingQuota(string) error {
	if c.fail != nil && c.fail(2) {
		return fmt.Errorf("verif: injected quota failure")
	}
	return nil
}
func (c *fakeClient) TrackTraffic(string, int64, int64) error { return nil }
func (c *fakeClient) GetUserQuota() (*models.UserQuota, error) {
	return &models.UserQuota{MaxConnections: c.quota}, nil
}
func (c *fakeClient) GetServerProtocol() string                                 { return "tcp" }
func (c *fakeClient) SendTunnelCloseNotify(int64, string, string, string) error { return nil }

type fakeAdapter struct{}

func (fakeAdapter) StartListener(config.MappingConfig) error   { return nil }
func (fakeAdapter) Accept() (io.ReadWriteCloser, error)        { select {} }
func (fakeAdapter) PrepareConnection(io.ReadWriteCloser) error { return nil }
func (fakeAdapter) GetProtocol() string                        { return "tcp" }
func (fakeAdapter) Close() error                               { return nil }

type liveConn struct {
	remote net.Conn // far end of the local connection
	tunFar net.Conn // far end of the tunnel
}

type mapEnv struct {
	base
	user bool
	cl   *fakeClient
	h    *mapping.BaseMappingHandler
	mu   sync.Mutex
	live map[string]*liveConn
}

func (e *mapEnv) setup() error {
	e.cl = &fakeClient{ctx: e.ctx, dialed: map[uint64]net.Conn{}}
	cfg := config.MappingConfig{MappingID: "m1", Protocol: "tcp", LocalPort: 1, MaxConnections: e.k.limit}
	if e.user {
		cfg.MaxConnections = 0
		e.cl.quota = e.k.limit
	}
	e.h = mapping.NewBaseMappingHandler(e.cl, cfg, fakeAdapter{})
	e.live = map[string]*liveConn{}
	for i := 0; i < e.k.pre; i++ {
		if ok, _ := e.admit(nil, fmt.Sprintf("p%d", i)); !ok {
			return fmt.Errorf("prefill refused")
		}
	}
	return nil
}
func (e *mapEnv) admit(th *thread, name string) (bool, string) {
	local, remote := net.Pipe()
	me := goid()
	e.h.VerifHandleConnection(local)
	e.cl.mu.Lock()
	far := e.cl.dialed[me]
	delete(e.cl.dialed, me)
	e.cl.mu.Unlock()
	if far == nil {
		// refused: the handler closed the local connection and dialled nothing
		remote.Close()
		return false, ""
	}
	e.mu.Lock()
	e.live[name] = &liveConn{remote: remote, tunFar: far}
	e.mu.Unlock()
	return true, ""
}
func (e *mapEnv) release(th *thread, name string) bool {
	e.mu.Lock()
	lc := e.live[name]
	delete(e.live, name)
	e.mu.Unlock()
	if lc == nil {
		return false
	}
	want := e.occupancy() - 1
	lc.remote.Close()
	lc.tunFar.Close()
	// the tunnel winds down on its own goroutines
	for i := 0; i < 4000 && e.occupancy() > want; i++ {
		time.Sleep(500 * time.Microsecond)
	}
	return true
}

// occupancy: live tunnels of the mapping (exported tunnel manager; the slot counter is private)
func (e *mapEnv) occupancy() int { return e.h.GetTunnelManager().CountTunnels() }
func (e *mapEnv) items() []string {
	e.mu.Lock()
	defer e.mu.Unlock()
	var r []string
	for n := range e.live {
		r = append(r, n)
	}
	return r
}
func (e *mapEnv) digest() string {
	return fmt.Sprintf("%d", e.h.GetTunnelManager().CountTunnels())
}
func (e *mapEnv) close() {
	e.mu.Lock()
	for _, lc := range e.live {
		lc.remote.Close()
		lc.tunFar.Close()
	}
	e.mu.Unlock()
	e.h.Close()
	e.cancel()
}

// ---- code : per-client quota on active connection codes

const targetClient = 77000001

type codeEnv struct {
	base
	raw    storage.Storage
	rawRep *repos.ConnectionCodeRepository
	svcs   map[int]*conncode.Service
	mu     sync.Mutex
	ids    map[string]string // item name -> code id
	codes  map[string]string // item name -> code string
	alias  map[string]string // code id -> the name under which the harness first saw it
}

func (e *codeEnv) svc(inst int) *conncode.Service {
	if s, ok := e.svcs[inst]; ok {
		return s
	}
	rep := repos.NewConnectionCodeRepository(repos.NewRepository(&gatedStore{in: e.raw, g: e.g}))
	s := conncode.NewService(rep, nil, nil, &conncode.Config{MaxActiveCodesPerClient: e.k.limit, MaxActiveMappingsPerClient: e.k.limit}, e.ctx)
	e.svcs[inst] = s
	return s
}
func (e *codeEnv) setup() error {
	e.raw = storage.NewMemoryStorage(e.ctx)
	e.rawRep = repos.NewConnectionCodeRepository(repos.NewRepository(e.raw))
	e.svcs = map[int]*conncode.Service{}
	e.ids = map[string]string{}
	e.codes = map[string]string{}
	e.alias = map[string]string{}
	filler := conncode.NewService(e.rawRep, nil, nil, &conncode.Config{MaxActiveCodesPerClient: 1 << 20, MaxActiveMappingsPerClient: 1 << 20}, e.ctx)
	for i := 0; i < e.k.dead; i++ {
		// revoked codes stay in the client's index (and are read by every count) but are not active
		c, err := filler.CreateConnectionCode(&conncode.CreateRequest{TargetClientID: targetClient, TargetAddress: "tcp://127.0.0.1:80", CreatedBy: "h"})
		if err != nil {
			return err
		}
		if err := filler.RevokeConnectionCode(c.Code, "h"); err != nil {
			return err
		}
	}
	for i := 0; i < e.k.pre; i++ {
		c, err := filler.CreateConnectionCode(&conncode.CreateRequest{TargetClientID: targetClient, TargetAddress: "tcp://127.0.0.1:80", CreatedBy: "h"})
		if err != nil {
			return err
		}
		e.ids[fmt.Sprintf("p%d", i)] = c.ID
		e.codes[fmt.Sprintf("p%d", i)] = c.Code
		e.alias[c.ID] = fmt.Sprintf("p%d", i)
	}
	for _, th := range e.k.threads {
		e.svc(th.inst)
	}
	return nil
}
func (e *codeEnv) admit(th *thread, name string) (bool, string) {
	c, err := e.svcs[th.inst].CreateConnectionCode(&conncode.CreateRequest{TargetClientID: targetClient, TargetAddress: "tcp://127.0.0.1:80", CreatedBy: "h"})
	if err != nil {
		if c != nil {
			return false, "err:code-with-error"
		}
		if coreerrors.IsCode(err, coreerrors.CodeQuotaExceeded) {
			return false, ""
		}
		return false, errTok(err)
	}
	e.mu.Lock()
	e.ids[name] = c.ID
	e.codes[name] = c.Code
	e.mu.Unlock()
	return true, ""
}
func (e *codeEnv) revoke(th *thread, name string) string {
	e.mu.Lock()
	code := e.codes[name]
	e.mu.Unlock()
	// success or error: either way the request is over; what it did to the quota state is observed
	_ = e.svcs[th.inst].RevokeConnectionCode(code, "h")
	return ""
}
func (e *codeEnv) release(th *thread, name string) bool {
	e.mu.Lock()
	id := e.ids[name]
	e.mu.Unlock()
	if _, err := e.rawRep.GetByID(id); err != nil {
		return false
	}
	return e.rawRep.Delete(id) == nil
}

// live: the ids of the client's codes that are COUNTED by the quota (indexed, by-id copy valid) or can
// be ACTIVATED (by-code copy valid) - the two views of one code are separate records.
func (e *codeEnv) live() []string {
	seen := map[string]bool{}
	var ids []string
	if cs, err := e.rawRep.ListByTargetClient(targetClient); err == nil {
		for _, c := range cs {
			if c.IsValidForActivation() && !seen[c.ID] {
				seen[c.ID] = true
				ids = append(ids, c.ID)
			}
		}
	}
	if q, ok := e.raw.(prefixQuerier); ok {
		if m, err := q.QueryByPrefix(constants.KeyPrefixRuntimeConnectionCodeByCode, 0); err == nil {
			keys := make([]string, 0, len(m))
			for k := range m {
				keys = append(keys, k)
			}
			sort.Strings(keys)
			for _, k := range keys {
				var c models.TunnelConnectionCode
				if json.Unmarshal([]byte(m[k]), &c) != nil {
					continue
				}
				if c.TargetClientID == targetClient && c.IsValidForActivation() && !seen[c.ID] {
					seen[c.ID] = true
					ids = append(ids, c.ID)
				}
			}
		}
	}
	return ids
}
func (e *codeEnv) occupancy() int { return len(e.live()) }
func (e *codeEnv) items() []string {
	ids := e.live()
	e.mu.Lock()
	defer e.mu.Unlock()
	var r []string
	for _, id := range ids {
		a, ok := e.alias[id]
		if !ok {
			a = "id:" + id
			for n, x := range e.ids {
				if x == id {
					a = n
				}
			}
			e.alias[id] = a
		}
		r = append(r, a)
	}
	return r
}
func (e *codeEnv) digest() string { return storeDigest(e.raw) }
func (e *codeEnv) other(th *thread, seq int) string {
	// refused or admitted there: either way it is not this client's business
	_, err := e.svcs[th.inst].CreateConnectionCode(&conncode.CreateRequest{TargetClientID: int64(66000000 + seq), TargetAddress: "tcp://127.0.0.1:80", CreatedBy: "h"})
	if err != nil && !coreerrors.IsCode(err, coreerrors.CodeQuotaExceeded) {
		return errTok(err)
	}
	return ""
}

// ---- mapq : per-client quota on active mappings

const listenClient = 55000001

type gatedMapRepo struct {
	*repos.PortMappingRepo
	g *gate
}

func (r *gatedMapRepo) GetClientPortMappings(clientID string) ([]*models.PortMapping, error) {
	r.g.enter()
	return r.PortMappingRepo.GetClientPortMappings(clientID)
}

type gatedMapSvc struct {
	in services.PortMappingService
	g  *gate
}

func (s *gatedMapSvc) CreatePortMapping(m *models.PortMapping) (*models.PortMapping, error) {
	s.g.enter()
	return s.in.CreatePortMapping(m)
}

// For the requests that read-modify-write ONE mapping record (usage update, revocation) the return of
// Get is a gate: the read and the write-back are separate steps.  The activation path does not use Get.
func (s *gatedMapSvc) rmw() bool {
	th := s.g.me()
	return th != nil && (th.curOp == 'u' || th.curOp == 'w')
}
func (s *gatedMapSvc) GetPortMapping(id string) (*models.PortMapping, error) {
	m, err := s.in.GetPortMapping(id)
	if s.rmw() {
		s.g.enter() // the copy has been read; the write-back is the next step
	}
	return m, err
}
func (s *gatedMapSvc) UpdatePortMapping(m *models.PortMapping) error {
	return s.in.UpdatePortMapping(m)
}
func (s *gatedMapSvc) DeletePortMapping(id string) error { return s.in.DeletePortMapping(id) }
func (s *gatedMapSvc) UpdatePortMappingStats(id string, st interface{}) error {
	return nil
}

type mapqEnv struct {
	base
	raw    storage.Storage
	ccRep  *repos.ConnectionCodeRepository
	pmRep  *repos.PortMappingRepo
	pmSvc  services.PortMappingService
	filler *conncode.Service
	svcs   map[int]*conncode.Service
	mu     sync.Mutex
	ids    map[string]string // item name -> mapping id
	nCodes int64
}

func (e *mapqEnv) freshCode() (string, error) {
	n := atomic.AddInt64(&e.nCodes, 1)
	c, err := e.filler.CreateConnectionCode(&conncode.CreateRequest{TargetClientID: 88000000 + n, TargetAddress: "tcp://127.0.0.1:80", CreatedBy: "h"})
	if err != nil {
		return "", err
	}
	return c.Code, nil
}
func (e *mapqEnv) setup() error {
	e.raw = storage.NewMemoryStorage(e.ctx)
	rp := repos.NewRepository(e.raw)
	e.ccRep = repos.NewConnectionCodeRepository(rp)
	e.pmRep = repos.NewPortMappingRepo(rp)
	e.pmSvc = services.NewPortMappingService(e.pmRep, idgen.NewIDManager(e.raw, e.ctx), nil, e.ctx)
	big := &conncode.Config{MaxActiveCodesPerClient: 1 << 20, MaxActiveMappingsPerClient: 1 << 20}
	e.filler = conncode.NewService(e.ccRep, &gatedMapSvc{in: e.pmSvc, g: e.g}, e.pmRep, big, e.ctx)
	e.svcs = map[int]*conncode.Service{}
	e.ids = map[string]string{}
	for i := 0; i < e.k.pre; i++ {
		code, err := e.freshCode()
		if err != nil {
			return err
		}
		m, err := e.filler.ActivateConnectionCode(&conncode.ActivateRequest{Code: code, ListenClientID: listenClient, ListenAddress: "0.0.0.0:7000"})
		if err != nil {
			return err
		}
		e.ids[fmt.Sprintf("p%d", i)] = m.ID
	}
	for i := 0; i < e.k.dead; i++ {
		// revoked mappings stay in the client's list but are not active
		code, err := e.freshCode()
		if err != nil {
			return err
		}
		m, err := e.filler.ActivateConnectionCode(&conncode.ActivateRequest{Code: code, ListenClientID: listenClient, ListenAddress: "0.0.0.0:7000"})
		if err != nil {
			return err
		}
		if err := e.filler.RevokeMapping(m.ID, listenClient, "h"); err != nil {
			return err
		}
	}
	for _, th := range e.k.threads {
		if _, ok := e.svcs[th.inst]; !ok {
			e.svcs[th.inst] = conncode.NewService(e.ccRep, &gatedMapSvc{in: e.pmSvc, g: e.g}, &gatedMapRepo{e.pmRep, e.g},
				&conncode.Config{MaxActiveCodesPerClient: e.k.limit, MaxActiveMappingsPerClient: e.k.limit}, e.ctx)
		}
	}
	return nil
}
func (e *mapqEnv) admit(th *thread, name string) (bool, string) {
	code, err := e.freshCode()
	if err != nil {
		return false, errTok(err)
	}
	m, err := e.svcs[th.inst].ActivateConnectionCode(&conncode.ActivateRequest{Code: code, ListenClientID: listenClient, ListenAddress: "0.0.0.0:7000"})
	if err != nil {
		if m != nil {
			return false, "err:mapping-with-error"
		}
		if coreerrors.IsCode(err, coreerrors.CodeQuotaExceeded) {
			// the refused activation must leave the code usable
			if c, e2 := e.ccRep.GetByCode(code); e2 != nil || c.IsActivated {
				return false, "err:refused-but-code-consumed"
			}
			// the unused code is not part of the state under observation
			if c, e2 := e.ccRep.GetByCode(code); e2 == nil {
				e.ccRep.Delete(c.ID)
			}
			return false, ""
		}
		return false, errTok(err)
	}
	e.mu.Lock()
	e.ids[name] = m.ID
	e.mu.Unlock()
	return true, ""
}
func (e *mapqEnv) release(th *thread, name string) bool {
	e.mu.Lock()
	id := e.ids[name]
	e.mu.Unlock()
	if _, err := e.pmSvc.GetPortMapping(id); err != nil {
		return false
	}
	return e.pmSvc.DeletePortMapping(id) == nil
}
func (e *mapqEnv) active() []*models.PortMapping {
	ms, _ := e.pmRep.GetClientPortMappings(random.Int64ToString(listenClient))
	var r []*models.PortMapping
	for _, m := range ms {
		if m.Status == models.MappingStatusActive && !m.IsRevoked && !m.IsExpired() {
			r = append(r, m)
		}
	}
	return r
}
func (e *mapqEnv) occupancy() int { return len(e.active()) }
func (e *mapqEnv) items() []string {
	e.mu.Lock()
	defer e.mu.Unlock()
	var r []string
	for _, m := range e.active() {
		found := false
		for n, id := range e.ids {
			if id == m.ID {
				r = append(r, n)
				found = true
			}
		}
		if !found {
			r = append(r, "unknown:"+m.ID)
		}
	}
	return r
}

// digest: the mappings and their indexes (connection codes are consumed by design and are created
// per request by the harness itself, so they are left out)
func (e *mapqEnv) digest() string {
	q := e.raw.(prefixQuerier)
	m, _ := q.QueryByPrefix("", 0)
	var ks []string
	for k, v := range m {
		if strings.Contains(k, "conncode") || strings.Contains(k, "connection_code") || strings.Contains(k, "id:used") {
			continue
		}
		ks = append(ks, k+"="+v)
	}
	sort.Strings(ks)
	return strings.Join(ks, "\x00")
}
func (e *mapqEnv) touch(th *thread, revoke bool) string {
	e.mu.Lock()
	id := e.ids["p0"]
	e.mu.Unlock()
	// success or error: what the request did to the quota state is observed
	if revoke {
		_ = e.svcs[th.inst].RevokeMapping(id, listenClient, "h")
	} else {
		_ = e.svcs[th.inst].RecordMappingUsage(id)
	}
	return ""
}
func (e *mapqEnv) other(th *thread, seq int) string {
	code, err := e.freshCode()
	if err != nil {
		return errTok(err)
	}
	_, err = e.svcs[th.inst].ActivateConnectionCode(&conncode.ActivateRequest{Code: code, ListenClientID: int64(44000000 + seq), ListenAddress: "0.0.0.0:7000"})
	if err != nil && !coreerrors.IsCode(err, coreerrors.CodeQuotaExceeded) {
		return errTok(err)
	}
	return ""
}

// ------------------------------------------------------------------ case

type kase struct {
	free    bool
	proto   string
	limit   int
	pre     int
	n       int
	dead    int // entries of the client that are in the index but not active (revoked): they must not count
	iters   int
	threads []*thread
	sched   []int
}

type toks struct {
	t []string
	i int
	e bool
}

func (t *toks) next() string {
	if t.i >= len(t.t) {
		t.e = true
		return ""
	}
	s := t.t[t.i]
	t.i++
	return s
}
func (t *toks) num() int {
	v, err := strconv.ParseUint(t.next(), 10, 31)
	if err != nil {
		t.e = true
	}
	return int(v)
}
func (t *toks) want(s string) {
	if t.next() != s {
		t.e = true
	}
}

var zeroUnl = map[string]bool{"conn": true, "conng": true, "ctrl": true, "ctrlx": true, "tun": true, "map": true, "mapu": true, "code": false, "mapq": false}

func parseCase(s string) (*kase, bool) {
	t := &toks{t: strings.Fields(s)}
	k := &kase{}
	if len(t.t) > 0 && t.t[0] == "free" {
		k.free = true
		t.i = 1
	}
	t.want("p")
	k.proto = t.next()
	zu, ok := zeroUnl[k.proto]
	if !ok {
		return nil, false
	}
	t.want("lim")
	k.limit = t.num()
	t.want("pre")
	k.pre = t.num()
	if t.i < len(t.t) && t.t[t.i] == "dead" {
		t.i++
		k.dead = t.num()
		if (k.proto != "code" && k.proto != "mapq") || k.dead > 64 {
			t.e = true
		}
	}
	if k.free {
		t.want("n")
		k.n = t.num()
		k.iters = 1
		if t.i < len(t.t) {
			t.want("it")
			k.iters = t.num()
		}
		if t.e || t.i != len(t.t) || k.n > 64 || k.pre > 4096 || k.iters < 1 || k.iters > 100000 {
			return nil, false
		}
	} else {
		t.want("thr")
		nt := t.num()
		if nt > 16 {
			return nil, false
		}
		for i := 0; i < nt && !t.e; i++ {
			th := &thread{tid: i, inst: t.num()}
			nops := t.num()
			for j := 0; j < nops && !t.e; j++ {
				switch c := t.next(); c {
				case "a", "r":
					if c == "r" && k.proto == "ctrlx" {
						t.e = true // registrations only (a removal would be stopped inside its own Close())
					}
					th.ops = append(th.ops, c[0])
				case "o":
					if k.proto != "code" && k.proto != "mapq" {
						t.e = true // only the per-client quotas have other clients
					}
					th.ops = append(th.ops, c[0])
				case "u", "w":
					if k.proto != "mapq" || k.pre == 0 {
						t.e = true // usage update / revocation of the mapping p0
					}
					th.ops = append(th.ops, c[0])
				case "v", "v0", "v1", "v2", "v3", "v4":
					if k.proto != "code" {
						t.e = true // revocation through the service: connection codes
					}
					th.ops = append(th.ops, 'v')
					for len(th.opArgs) < len(th.ops)-1 {
						th.opArgs = append(th.opArgs, -1)
					}
					if len(c) == 2 {
						th.opArgs = append(th.opArgs, int(c[1]-'0'))
					} else {
						th.opArgs = append(th.opArgs, -1)
					}
				default:
					t.e = true
				}
			}
			k.threads = append(k.threads, th)
		}
		t.want("sch")
		ns := t.num()
		for i := 0; i < ns && !t.e; i++ {
			k.sched = append(k.sched, t.num())
		}
		if t.e || t.i != len(t.t) || k.pre > 4096 {
			return nil, false
		}
	}
	// the initial occupancy must itself respect the limit (WF of the theorems)
	if !(zu && k.limit == 0) && k.pre > k.limit {
		return nil, false
	}
	return k, true
}

func newEnv(k *kase, g *gate) env {
	ctx, cancel := context.WithCancel(context.Background())
	b := base{k: k, g: g, ctx: ctx, cancel: cancel}
	switch k.proto {
	case "conn":
		return &connEnv{base: b}
	case "conng":
		return &connEnv{base: b, generated: true}
	case "ctrl":
		return &ctrlEnv{base: b}
	case "ctrlx":
		return &ctrlxEnv{base: b}
	case "tun":
		return &tunEnv{base: b}
	case "map":
		return &mapEnv{base: b}
	case "mapu":
		return &mapEnv{base: b, user: true}
	case "code":
		return &codeEnv{base: b}
	case "mapq":
		return &mapqEnv{base: b}
	}
	return nil
}

var timeouts int

// watchdog per gated case; a case takes milliseconds, so a timeout means a hang - or a machine so
// loaded that the process was not run: execAny repeats a timed-out case once with a long watchdog
// (the repeat is a fresh execution of the same input; its verdict is the one reported).
var watchdog = 10 * time.Second

// missing: items of `before` that are not in `after`.
func missing(before, after []string) []string {
	now := map[string]bool{}
	for _, x := range after {
		now[x] = true
	}
	var r []string
	for _, x := range before {
		if !now[x] {
			r = append(r, x)
		}
	}
	return r
}

var allProcs = runtime.GOMAXPROCS(0)
var curProcs = allProcs

func setProcs(n int) {
	if n != curProcs {
		runtime.GOMAXPROCS(n)
		curProcs = n
	}
}

// ------------------------------------------------------------------ gated executor

func execCase(cs string) (obs string) {
	k, ok := parseCase(cs)
	if !ok {
		return "bad-case"
	}
	if k.free {
		setProcs(allProcs) // races need real parallelism
		return execFree(k)
	}
	setProcs(2) // one thread runs at a time; stopping the world for a goroutine dump is cheap with few Ps
	g := newGate()
	e := newEnv(k, g)
	defer func() {
		if r := recover(); r != nil {
			obs = "panic " + strings.ReplaceAll(fmt.Sprint(r), "\n", " ")
		}
	}()
	if err := e.setup(); err != nil {
		e.close()
		return "setup-error " + errTok(err)
	}
	defer e.close()

	// item numbering: pre-existing items 0..pre-1, admitted items in admission order
	num := map[string]int{}
	for i := 0; i < k.pre; i++ {
		num[fmt.Sprintf("p%d", i)] = i
	}
	next := k.pre
	if k.proto == "code" {
		next += k.dead // the inactive index entries of the model are numbered pre..pre+dead-1
	}
	var evs []string
	fusedLock := k.proto == "ctrlx" // Lock() is not followed by a gate: it is part of the first step

	runThread := func(th *thread) {
		defer func() {
			if r := recover(); r != nil {
				g.mu.Lock()
				th.res = "panic:" + strings.ReplaceAll(strings.ReplaceAll(fmt.Sprint(r), " ", "_"), "\n", "_")
				g.mu.Unlock()
			}
			g.mu.Lock()
			th.state = 2
			g.cond.Broadcast()
			g.mu.Unlock()
		}()
		for i, o := range th.ops {
			g.enterAt(true)
			g.mu.Lock()
			th.curOp, th.failAt, th.callIdx = o, -1, 0
			if o == 'v' && i < len(th.opArgs) {
				th.failAt = th.opArgs[i]
			}
			g.mu.Unlock()
			switch o {
			case 'u', 'w':
				et := e.touch(th, o == 'w')
				g.mu.Lock()
				if et != "" {
					th.res = et
				} else {
					th.res = "rvk"
				}
				g.mu.Unlock()
			case 'v':
				own := th.own
				et := ""
				if own != "" {
					et = e.revoke(th, own)
				}
				g.mu.Lock()
				th.failAt = -1
				if et != "" {
					th.res = et
				} else {
					th.res = "rvk"
				}
				th.own = ""
				g.mu.Unlock()
			case 'a':
				name := fmt.Sprintf("t%d_%d", th.tid, i)
				ok, et := e.admit(th, name)
				g.mu.Lock()
				switch {
				case et != "":
					th.res = et
				case ok:
					th.res, th.resItem, th.own = "adm", name, name
				default:
					th.res = "ref"
				}
				g.mu.Unlock()
			case 'o':
				et := e.other(th, th.tid*100+i)
				g.mu.Lock()
				if et != "" {
					th.res = et
				} else {
					th.res = "oth"
				}
				g.mu.Unlock()
			case 'r':
				th.bypass = true
				own := th.own
				ok := own != "" && e.release(th, own)
				th.bypass = false
				g.mu.Lock()
				if ok {
					th.res, th.resItem = "rel", own
				} else {
					th.res = "nop"
				}
				th.own = ""
				g.mu.Unlock()
			}
		}
	}

	done := make(chan struct{})
	go func() {
		defer close(done)
		for _, th := range k.threads {
			th := th
			started := make(chan struct{})
			go func() {
				g.mu.Lock()
				th.gid = goid()
				g.byGid[th.gid] = th
				g.mu.Unlock()
				close(started)
				runThread(th)
			}()
			<-started
			g.quiesce(k.threads[:th.tid+1])
		}
		for _, tid := range k.sched {
			if tid < 0 || tid >= len(k.threads) {
				continue
			}
			th := k.threads[tid]
			g.quiesce(k.threads)
			g.mu.Lock()
			st, atStart := th.state, th.atStart
			g.mu.Unlock()
			if st == 2 {
				continue // finished program: the step changes nothing
			}
			if st == 0 {
				// still blocked inside a lock of the code under test: the request keeps waiting
				th.waited = true
				evs = append(evs, fmt.Sprintf("blk.%d.%d", tid, e.occupancy()))
				continue
			}
			if th.waited && !atStart && (fusedLock || th.curOp == 'u' || th.curOp == 'w') {
				// the request was handed the lock and ran on by itself to its first gate inside the
				// critical section: that was its entry step
				th.waited = false
				evs = append(evs, fmt.Sprintf("stp.%d.%d", tid, e.occupancy()))
				continue
			}
			th.waited = false
			if atStart {
				th.opDirty = false
				th.announced = ""
			}
			before := e.digest()
			itemsBefore := e.items()
			epoch.Add(1)
			g.release(th)
			g.stale(k.threads)
			g.quiesce(k.threads)
			epoch.Add(1)
			after := e.digest()
			g.mu.Lock()
			res, item := th.res, th.resItem
			th.res, th.resItem = "", ""
			stNow := th.state
			g.mu.Unlock()
			if before != after {
				th.opDirty = true
			}
			n := e.occupancy()
			switch res {
			case "", "rvk":
				itemsNow := e.items()
				gone := missing(itemsBefore, itemsNow)
				grown := missing(itemsNow, itemsBefore)
				switch {
				case res == "" && th.curOp == 'a' && k.proto == "code" && len(grown) == 1 && th.announced == "":
					// the code of this admission exists now (its by-code record was written): that is the
					// admission for an observer, whatever the request still has to do
					num[grown[0]] = next
					next++
					th.announced = grown[0]
					evs = append(evs, fmt.Sprintf("adm.%d.%d.-.%d", tid, num[grown[0]], n))
				case (th.curOp == 'v' || th.curOp == 'w') && len(gone) == 1 && len(grown) == 0:
					evs = append(evs, fmt.Sprintf("rel.%d.%d.%d", tid, num[gone[0]], n))
				case res == "rvk":
					evs = append(evs, fmt.Sprintf("stp.%d.%d", tid, n))
				case stNow == 0:
					// the step ended inside Lock(): the request queues up behind the holder
					th.waited = true
					evs = append(evs, fmt.Sprintf("blk.%d.%d", tid, n))
				case len(gone) == 1:
					// an item left in a step of its own (eviction not in the critical section of the insert)
					evs = append(evs, fmt.Sprintf("evi.%d.%d.%d", tid, num[gone[0]], n))
				case len(gone) > 1:
					evs = append(evs, fmt.Sprintf("evi-many.%d", tid))
				default:
					evs = append(evs, fmt.Sprintf("stp.%d.%d", tid, n))
				}
			case "oth":
				evs = append(evs, fmt.Sprintf("stp.%d.%d", tid, n))
			case "adm":
				if th.announced != "" {
					// announced when its record appeared; the request has now returned
					num[item] = num[th.announced]
					th.announced = ""
					evs = append(evs, fmt.Sprintf("stp.%d.%d", tid, n))
					break
				}
				num[item] = next
				next++
				// victims: items present before and gone now
				now := map[string]bool{}
				for _, x := range e.items() {
					now[x] = true
				}
				var victims []string
				for _, x := range itemsBefore {
					if !now[x] {
						victims = append(victims, x)
					}
				}
				v := "-"
				if len(victims) == 1 {
					v = strconv.Itoa(num[victims[0]])
					if !e.victimClosed(victims[0]) {
						v = "unclosed"
					}
				} else if len(victims) > 1 {
					v = "many"
				}
				evs = append(evs, fmt.Sprintf("adm.%d.%d.%s.%d", tid, num[item], v, n))
			case "ref":
				d := 0
				if th.opDirty {
					d = 1
				}
				evs = append(evs, fmt.Sprintf("ref.%d.%d.%d", tid, d, n))
			case "rel":
				evs = append(evs, fmt.Sprintf("rel.%d.%d.%d", tid, num[item], n))
			case "nop":
				evs = append(evs, fmt.Sprintf("nop.%d.%d", tid, n))
			default:
				evs = append(evs, fmt.Sprintf("%s.%d", res, tid))
			}
		}
	}()
	select {
	case <-done:
	case <-time.After(watchdog):
		g.mu.Lock()
		g.timeout = true
		g.cond.Broadcast()
		g.mu.Unlock()
		return "timeout"
	}
	// threads still parked are dismissed (Goexit at the gate, without performing the call)
	g.mu.Lock()
	g.timeout = true
	g.cond.Broadcast()
	g.mu.Unlock()
	var fin []int
	for _, x := range e.items() {
		v, ok := num[x]
		if !ok {
			return strings.Join(evs, " ") + " | unknown-item"
		}
		fin = append(fin, v)
	}
	sort.Ints(fin)
	out := append(evs, "|")
	for _, v := range fin {
		out = append(out, strconv.Itoa(v))
	}
	return strings.Join(out, " ")
}

// ------------------------------------------------------------------ free-running executor

// n requests are released by one barrier and run without gates; none is released before all
// are decided.  For `map`/`mapu` every admitted handler is held inside DialTunnel until all n
// requests are either refused or inside, so `max` is the number admitted simultaneously.
// With `it <k>` the round is repeated k times on fresh state and the round that admitted most is
// reported (on code that keeps the limit every round gives the same answer).
func execFree(k *kase) string {
	for i := 0; i < k.n; i++ {
		k.threads = append(k.threads, &thread{tid: i, inst: 0, bypass: true})
	}
	best, bestAdm := "", -1
	for it := 0; it < k.iters; it++ {
		o := execFreeRound(k)
		var a int
		if _, err := fmt.Sscanf(o, "adm %d", &a); err != nil {
			return o // timeout, panic, errors: reported as they are
		}
		if a > bestAdm {
			best, bestAdm = o, a
		}
	}
	return best
}

func execFreeRound(k *kase) (obs string) {
	defer func() {
		if r := recover(); r != nil {
			obs = "panic " + strings.ReplaceAll(fmt.Sprint(r), "\n", " ")
		}
	}()
	g := newGate()
	e := newEnv(k, g)
	if err := e.setup(); err != nil {
		e.close()
		return "setup-error " + errTok(err)
	}
	defer e.close()
	var me *mapEnv
	if x, ok := e.(*mapEnv); ok {
		me = x
		me.cl.maxIn.Store(0) // the prefill went through DialTunnel too
		me.cl.hold = make(chan struct{})
		me.cl.arrived = make(chan struct{}, k.n)
	}
	d0 := e.digest()
	var start atomic.Bool // spin barrier: the requests leave it within nanoseconds of each other
	var adm, ref, errs atomic.Int32
	var dirty atomic.Bool
	results := make(chan int, k.n)
	for i := 0; i < k.n; i++ {
		th := k.threads[i]
		go func() {
			defer func() {
				if r := recover(); r != nil {
					errs.Add(1)
					results <- 2
				}
			}()
			for !start.Load() {
				runtime.Gosched()
			}
			ok, et := e.admit(th, fmt.Sprintf("t%d_0", th.tid))
			switch {
			case et != "":
				errs.Add(1)
				results <- 2
			case ok:
				adm.Add(1)
				results <- 0
			default:
				ref.Add(1)
				results <- 1
			}
		}()
	}
	time.Sleep(200 * time.Microsecond) // let every request reach the barrier
	start.Store(true)
	decided, maxSeen := 0, 0
	deadline := time.After(10 * time.Second)
	sample := func() {
		if n := e.occupancy(); n > maxSeen {
			maxSeen = n
		}
	}
	if me != nil {
		// wait until every request is refused (result) or inside DialTunnel (arrived)
		nres := 0
		for decided < k.n {
			select {
			case <-me.cl.arrived:
				decided++
			case <-results:
				nres++
				decided++
			case <-deadline:
				timeouts++
				return "timeout"
			}
		}
		maxSeen = int(me.cl.maxIn.Load()) + k.pre
		close(me.cl.hold)
		for nres < k.n {
			select {
			case <-results:
				nres++
			case <-deadline:
				timeouts++
				return "timeout"
			}
		}
	} else {
		for decided < k.n {
			select {
			case <-results:
				decided++
				sample()
			case <-deadline:
				timeouts++
				return "timeout"
			}
		}
	}
	sample()
	if errs.Load() > 0 {
		return fmt.Sprintf("errors %d", errs.Load())
	}
	if ref.Load() == int32(k.n) && e.digest() != d0 {
		dirty.Store(true)
	}
	di := 0
	if dirty.Load() {
		di = 1
	}
	return fmt.Sprintf("adm %d ref %d max %d fin %d dirty %d", adm.Load(), ref.Load(), maxSeen, e.occupancy(), di)
}

// ------------------------------------------------------------------ caps

func execCaps() string {
	sc := session.DefaultSessionConfig()
	cc := conncode.DefaultConfig()
	return fmt.Sprintf("maxconn=%d maxctrl=%d codes=%d mappings=%d", sc.MaxConnections, sc.MaxControlConnections,
		cc.MaxActiveCodesPerClient, cc.MaxActiveMappingsPerClient)
}

func execAny(cs string) string {
	if strings.TrimSpace(cs) == "caps" {
		return execCaps()
	}
	run := execCase
	if strings.HasPrefix(strings.TrimSpace(cs), "slot ") {
		run = execSlot
	}
	if f := strings.Fields(cs); len(f) > 2 && f[0] == "free" && f[1] == "slot" {
		return execSlotStress(f[2:])
	} else if len(f) > 2 && f[0] == "free" && f[1] == "race" {
		return execSlotRace(f[2:])
	}
	obs := run(cs)
	if obs == "timeout" {
		watchdog = 90 * time.Second
		obs = run(cs)
		watchdog = 10 * time.Second
		if obs == "timeout" {
			timeouts++
		}
	}
	return obs
}

// ------------------------------------------------------------------ main

func main() {
	tier := flag.String("tier", "quick", "")
	seed := flag.Uint64("seed", 1, "")
	stats := flag.String("stats", "", "")
	nogen := flag.String("nogen", "", "")
	flag.Parse()
	corelog.SetDefault(corelog.NewNopLogger())
	out := common.NewOut()
	emit := func(line string) {
		line = strings.TrimSpace(line)
		if line == "" || strings.HasPrefix(line, "#") {
			return
		}
		key := ""
		cs := line
		if strings.HasPrefix(cs, "K:") {
			i := strings.Index(cs, " ")
			key, cs = cs[:i+1], cs[i+1:]
		}
		if i := strings.Index(cs, " ## "); i >= 0 {
			cs = cs[:i]
		}
		if timeouts >= 3 {
			return
		}
		obs := execAny(cs)
		if os.Getenv("C17_DEBUG") != "" && out.Cases%500 == 0 {
			fmt.Fprintf(os.Stderr, "cases=%d goroutines=%d\n", out.Cases, runtime.NumGoroutine())
		}
		dk := ""
		if strings.Contains(cs, " thr ") || strings.HasPrefix(cs, "free") || strings.HasPrefix(cs, "slot") {
			dk = cs
		}
		out.Case(key+cs, obs, dk)
		f := strings.Fields(cs)
		if len(f) > 2 {
			if f[0] == "free" {
				out.Count("free/" + f[2])
			} else if f[0] == "slot" {
				out.Count("proto/slot")
			} else {
				out.Count("proto/" + f[1])
			}
		}
		switch {
		case strings.Contains(obs, "ref."):
			out.Count("outcome/some-refused")
		case strings.Contains(obs, "adm."):
			out.Count("outcome/all-admitted")
		}
		if strings.Contains(obs, "blk.") {
			out.Count("outcome/blocked-on-mutex")
		}
	}
	files := flag.Args()
	if *nogen != "" {
		files = []string{*nogen}
	}
	for _, f := range files {
		b, err := os.ReadFile(f)
		if err != nil {
			fmt.Fprintln(os.Stderr, err)
			os.Exit(2)
		}
		for _, l := range strings.Split(string(b), "\n") {
			emit(l)
		}
	}
	if *nogen == "" {
		generate(common.NewRand(*seed), *tier, emit)
	}
	if os.Getenv("C17_DEBUG") != "" {
		fmt.Fprintf(os.Stderr, "dumps=%d time=%v\n", dumpN, dumpT)
	}
	out.Finish(*stats, nil)
}
